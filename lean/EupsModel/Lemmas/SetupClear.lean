import EupsModel.Lemmas.SetupInverse
import EupsModel.Lemmas.SetupPresent
/-! Discharging the proviso of `C02_inverse_partial` ("no product of the closure is left set up") for closures in which
no dependency line carries `-j`, every name has one declared version, and `max_depth` is not set:

* unsetup direction (`setup_false_clear`): when a product loses its record, every product its table names has none
  at the end;
* forward direction (`setup_supp`): from an environment in which nothing of the closure is set up, every set-up product
  of the closure other than the requested one was requested by a set-up product of the closure (`Supp`), and
  records only grow (with one version per name nothing is ever replaced). -/
namespace EupsModel.Setup

def NoJust (db : Db) (S : Name → Prop) : Prop :=
  ∀ d ∈ db.decls, S d.name → ∀ g n o j v x t kl, (g, Act.dep n o j v x t kl) ∈ d.table → j = false

def OneVersion (db : Db) (S : Name → Prop) : Prop :=
  ∀ d ∈ db.decls, ∀ d' ∈ db.decls, S d.name → d'.name = d.name → d'.ver = d.ver

/-- every record names a declared version -/
def RecsDeclared (db : Db) (e : Env) : Prop := ∀ n v, e.rec? n = some v → ∃ d, db.lookup (n, v) = some d

theorem RecsDeclared.of_sub {db : Db} {e e' : Env} (h : RecsDeclared db e) (hs : Sub e' e) : RecsDeclared db e' :=
  fun n v hr => h n v (hs.recs n v hr)

theorem setupProd_none_of_declared (db : Db) (e : Env) (hd : RecsDeclared db e) (n : Name)
    (h : setupProd db e n = none) : e.rec? n = none := by
  cases hr : e.rec? n with
  | none => rfl
  | some v =>
    obtain ⟨d, hl⟩ := hd n v hr
    unfold setupProd at h; rw [hr] at h; simp only at h; rw [hl] at h; cases h

theorem rec_none_of_sub {e e' : Env} (hs : Sub e' e) (n : Name) (h : e.rec? n = none) : e'.rec? n = none := by
  cases hc : e'.rec? n with
  | none => rfl
  | some v => rw [hs.recs n v hc] at h; cases h

/-! ### unsetup direction -/

/-- when a product of `S` loses its record during the run, everything its table names is without a record at the end -/
def Cleared (cfg : Cfg) (S : Name → Prop) (e e' : Env) : Prop :=
  ∀ p v, S p → e.rec? p = some v → e'.rec? p = none →
    ∀ m o j x y t kl, Act.dep m o j x y t kl ∈ tableOf cfg (p, v) → e'.rec? m = none

def UnClear (cfg : Cfg) (S : Name → Prop) (rec : Rec) : Prop :=
  ∀ depth vro n ver vexpr s s', S n → WellOwned cfg s.env → RecsDeclared cfg.db s.env →
    rec false depth false vro n ver vexpr s = .ok s' → Cleared cfg S s.env s'.env

theorem cleared_trans {cfg : Cfg} {S : Name → Prop} {a b c : Env} (h1 : Cleared cfg S a b) (h2 : Cleared cfg S b c)
    (hba : Sub b a) (hcb : Sub c b) : Cleared cfg S a c := by
  intro p v hp hr hn m o j x y t kl hline
  cases hb : b.rec? p with
  | none => exact rec_none_of_sub hcb m (h1 p v hp hr hb m o j x y t kl hline)
  | some w =>
    have : w = v := by have := hba.recs p w hb; rw [hr] at this; exact (Option.some.inj this).symm
    subst this
    exact h2 p w hp hb hn m o j x y t kl hline

theorem acts_false_clear (cfg : Cfg) (S : Name → Prop) (hmd : cfg.maxDepth = none) (rec : Rec) (hun : UnSpec cfg rec)
    (hunf : ∀ depth noRec vro n ver vexpr s s', rec false depth noRec vro n ver vexpr s ≠ .raised s' ∧
      (rec false depth noRec vro n ver vexpr s = .notFound s' → setupProd cfg.db s.env n = none))
    (hunsets : ∀ depth noRec vro n ver vexpr s s', WellOwned cfg s.env →
      rec false depth noRec vro n ver vexpr s = .ok s' → s'.env.rec? n = none)
    (hrec : UnClear cfg S rec) (depth : Nat) (vro : List VroEnt) (d : Decl) (l : List Act)
    (hl : ∀ n o j v x t kl, Act.dep n o j v x t kl ∈ l → S n ∧ j = false) :
    ∀ s s', WellOwned cfg s.env → RecsDeclared cfg.db s.env → acts rec cfg false depth false vro d l s = .ok s' →
      Cleared cfg S s.env s'.env ∧ (∀ n o j v x t kl, Act.dep n o j v x t kl ∈ l → s'.env.rec? n = none) := by
  induction l with
  | nil =>
    intro s s' _ _ h
    simp [acts] at h; subst h
    refine ⟨?_, by simp⟩
    intro p v _ hr hn
    rw [hr] at hn; cases hn
  | cons a rest ih =>
    have hl' : ∀ n o j v x t kl, Act.dep n o j v x t kl ∈ rest → S n ∧ j = false :=
      fun n o j v x t kl hm => hl n o j v x t kl (List.mem_cons_of_mem _ hm)
    intro s s' hw hd h
    by_cases hdep : ∃ n o j v x t kl, a = .dep n o j v x t kl
    · obtain ⟨n, o, j, v, x, t, kl, rfl⟩ := hdep
      obtain ⟨hSn, hj⟩ := hl n o j v x t kl (by simp)
      subst hj
      simp only [acts, hmd, Bool.false_or] at h
      simp only [reduceCtorEq, decide_false, Bool.false_eq_true, if_false] at h
      split at h
      · rename_i s1 hr1
        obtain ⟨_, hs1⟩ := hun (fun _ => True) _ _ _ _ _ _ _ _ hw (noResidue_true _) hr1
        have hw1 := hw.of_sub hs1
        have hd1 := hd.of_sub hs1
        obtain ⟨hc2, hb2⟩ := ih hl' s1 s' hw1 hd1 h
        obtain ⟨_, hs2, _, _⟩ := acts_false_spec cfg rec hun (fun _ => True) depth false vro d rest s1 s' hw1 (noResidue_true _) h
        refine ⟨cleared_trans (hrec _ _ _ _ _ _ _ hSn hw hd hr1) hc2 hs1 hs2, ?_⟩
        intro n' o' j' v' x' t' kl' hm
        simp only [List.mem_cons] at hm
        rcases hm with hm | hm
        · cases hm
          exact rec_none_of_sub hs2 n (hunsets _ _ _ _ _ _ _ _ hw hr1)
        · exact hb2 n' o' j' v' x' t' kl' hm
      · cases h
      · rename_i s1 hr1
        simp only [Bool.false_and, Bool.false_eq_true, if_false] at h
        have hnone := setupProd_none_of_declared cfg.db s.env hd n ((hunf _ _ _ _ _ _ _ _).2 hr1)
        obtain ⟨hc2, hb2⟩ := ih hl' ⟨s.env, s.aliases, s.unaliased, s1.already, s1.cache⟩ s' hw hd h
        obtain ⟨_, hs2, _, _⟩ := acts_false_spec cfg rec hun (fun _ => True) depth false vro d rest
          ⟨s.env, s.aliases, s.unaliased, s1.already, s1.cache⟩ s' hw (noResidue_true _) h
        refine ⟨hc2, ?_⟩
        intro n' o' j' v' x' t' kl' hm
        simp only [List.mem_cons] at hm
        rcases hm with hm | hm
        · cases hm
          exact rec_none_of_sub hs2 n hnone
        · exact hb2 n' o' j' v' x' t' kl' hm
      · rename_i s1 hr1
        exact absurd hr1 (hunf _ _ _ _ _ _ _ _).1
    · have hnd : ∀ n o j v x t kl, a ≠ .dep n o j v x t kl := fun n o j v x t kl e => hdep ⟨n, o, j, v, x, t, kl, e⟩
      rw [acts_cons_nondep rec cfg false depth false vro d a rest s hnd] at h
      obtain ⟨hs1, hrec1, _, _⟩ := apply_false_spec d.prod a s
      have hw1 := hw.of_sub hs1
      obtain ⟨hc2, hb2⟩ := ih hl' _ s' hw1 (hd.of_sub hs1) h
      refine ⟨?_, ?_⟩
      · intro p v hp hr hn
        exact hc2 p v hp (by rw [hrec1]; exact hr) hn
      · intro n' o' j' v' x' t' kl' hm
        simp only [List.mem_cons] at hm
        rcases hm with hm | hm
        · exact absurd hm.symm (hnd n' o' j' v' x' t' kl')
        · exact hb2 n' o' j' v' x' t' kl' hm

theorem setup_false_clear (cfg : Cfg) (S : Name → Prop) (hmd : cfg.maxDepth = none) (hcl : Closed cfg.db S)
    (hnj : NoJust cfg.db S) : ∀ fuel, UnClear cfg S (setup cfg fuel) := by
  intro fuel
  induction fuel with
  | zero => intro depth vro n ver vexpr s s' _ _ _ h; simp [setup_zero] at h
  | succ k ih =>
    intro depth vro n ver vexpr s s' hSn hw hd h
    rw [setup_succ_false] at h
    cases hsp : setupProd cfg.db s.env n with
    | none => rw [hsp] at h; cases h
    | some d =>
      rw [hsp] at h
      obtain ⟨hc, hname, hrec⟩ := setupProd_some cfg.db s.env n d hsp
      have hdmem := (lookup_some cfg.db d.prod d hc).1
      have hSd : S d.name := by rw [hname]; exact hSn
      have hs0 : Sub ({ s.env with dirs := aunset s.env.dirs d.name, recs := aunset s.env.recs d.name } : Env) s.env :=
        ⟨fun _ _ h => h, fun _ _ h => h, fun n x h => (aget_aunset_some _ _ _ _ h).1,
         fun n v h => (aget_aunset_some _ _ _ _ h).1⟩
      have hl : ∀ n' o j v x t kl, Act.dep n' o j v x t kl ∈ d.actions cfg.exact → S n' ∧ j = false := by
        intro n' o j v x t kl hm
        obtain ⟨g, hg⟩ := mem_actions d cfg.exact _ hm
        exact ⟨hcl d hdmem hSd g n' o j v x t kl hg, hnj d hdmem hSd g n' o j v x t kl hg⟩
      obtain ⟨hc2, hb2⟩ := acts_false_clear cfg S hmd (setup cfg k) (setup_false_spec cfg k)
        (fun depth noRec vro n ver vexpr s s' => setup_unfail cfg k depth noRec vro n ver vexpr s s')
        (fun depth noRec vro n ver vexpr s s' hw h => setup_false_unsets cfg k depth noRec vro n ver vexpr s s' hw h)
        ih depth vro d (d.actions cfg.exact) hl
        ⟨{ s.env with dirs := aunset s.env.dirs d.name, recs := aunset s.env.recs d.name }, s.aliases, s.unaliased, s.already, s.cache⟩
        s' (hw.of_sub hs0) (hd.of_sub hs0) h
      intro p v hp hr hn m o j x y t kl hline
      by_cases hpd : p = d.name
      · subst hpd
        rw [hname] at hr
        rw [hrec] at hr
        have hv : d.ver = v := Option.some.inj hr
        subst hv
        have : tableOf cfg (d.name, d.ver) = d.actions cfg.exact := tableOf_canon cfg d hc
        rw [this] at hline
        exact hb2 m o j x y t kl hline
      · refine hc2 p v hp ?_ hn m o j x y t kl hline
        show aget (aunset s.env.recs d.name) p = some v
        rw [aget_aunset_other _ _ _ hpd]; exact hr

end EupsModel.Setup

namespace EupsModel.Setup

/-! ### forward direction -/

/-- every set-up product of `S` other than `top` is named by a line of the table of a set-up product of `S` -/
def Supp (cfg : Cfg) (S : Name → Prop) (top : Name) (e : Env) : Prop :=
  ∀ m v, S m → e.rec? m = some v →
    m = top ∨ ∃ p w, S p ∧ e.rec? p = some w ∧ ∃ o j x y t kl, Act.dep m o j x y t kl ∈ tableOf cfg (p, w)

def Grow (e e' : Env) : Prop := ∀ m v, e.rec? m = some v → e'.rec? m = some v

/-- who asked for `n`: it is the requested product, or a line of the table of a set-up product of `S` names it -/
def Asked (cfg : Cfg) (S : Name → Prop) (top : Name) (e : Env) (n : Name) : Prop :=
  n = top ∨ ∃ p w, S p ∧ e.rec? p = some w ∧ ∃ o j x y t kl, Act.dep n o j x y t kl ∈ tableOf cfg (p, w)

def SuppSpec (cfg : Cfg) (S : Name → Prop) (top : Name) (rec : Rec) : Prop :=
  ∀ depth noRec vro n ver vexpr s s', S n → Asked cfg S top s.env n →
    (depth > 0 ∨ setupProd cfg.db s.env n = none) → AlreadyOK cfg.db s.already → RecsDeclared cfg.db s.env →
    Supp cfg S top s.env → rec true depth noRec vro n ver vexpr s = .ok s' →
    Supp cfg S top s'.env ∧ Grow s.env s'.env ∧ RecsDeclared cfg.db s'.env

theorem supp_of_recs_eq {cfg : Cfg} {S : Name → Prop} {top : Name} {e e' : Env} (h : Supp cfg S top e)
    (hr : ∀ n, e'.rec? n = e.rec? n) : Supp cfg S top e' := by
  intro m v hm hrec
  rw [hr] at hrec
  rcases h m v hm hrec with h1 | ⟨p, w, hp, hpw, hline⟩
  · exact Or.inl h1
  · exact Or.inr ⟨p, w, hp, by rw [hr]; exact hpw, hline⟩

theorem acts_true_supp (cfg : Cfg) (S : Name → Prop) (top : Name) (hcl : Closed cfg.db S) (rec : Rec)
    (hal : AlOK cfg rec) (hrec : SuppSpec cfg S top rec) (depth : Nat) (noRec : Bool) (vro : List VroEnt) (d : Decl)
    (hc : Canon cfg.db d) (hSd : S d.name) (l : List Act) (hl : ∀ a ∈ l, a ∈ d.actions cfg.exact) :
    ∀ s s', AlreadyOK cfg.db s.already → RecsDeclared cfg.db s.env → Supp cfg S top s.env →
      s.env.rec? d.name = some d.ver → acts rec cfg true depth noRec vro d l s = .ok s' →
      Supp cfg S top s'.env ∧ Grow s.env s'.env ∧ RecsDeclared cfg.db s'.env := by
  induction l with
  | nil => intro s s' _ hd hs _ h; simp [acts] at h; subst h; exact ⟨hs, fun _ _ h => h, hd⟩
  | cons a rest ih =>
    have hl' : ∀ a ∈ rest, a ∈ d.actions cfg.exact := fun a hm => hl a (List.mem_cons_of_mem _ hm)
    intro s s' ha hd hs hr h
    by_cases hdep : ∃ n o j v x t kl, a = .dep n o j v x t kl
    · obtain ⟨n, o, j, v, x, t, kl, rfl⟩ := hdep
      have hline : Act.dep n o j v x t kl ∈ tableOf cfg (d.name, d.ver) := by
        have : tableOf cfg (d.name, d.ver) = d.actions cfg.exact := tableOf_canon cfg d hc
        rw [this]; exact hl _ (List.mem_cons_self)
      obtain ⟨g, hg⟩ := mem_actions d cfg.exact _ (hl _ (List.mem_cons_self))
      have hSn : S n := hcl d (lookup_some cfg.db d.prod d hc).1 hSd g n o j v x t kl hg
      simp only [acts] at h
      split at h
      · exact ih hl' s s' ha hd hs hr h
      · split at h
        · rename_i s1 hr1
          obtain ⟨hs1, hg1, hd1⟩ := hrec _ _ _ _ _ _ _ _ hSn (Or.inr ⟨d.name, d.ver, hSd, hr, o, j, v, x, t, kl, hline⟩)
            (Or.inl (Nat.succ_pos _)) ha hd hs hr1
          obtain ⟨hs2, hg2, hd2⟩ := ih hl' s1 s' (hal _ _ _ _ _ _ _ _ _ ha (by rw [hr1]; rfl)) hd1 hs1 (hg1 _ _ hr) h
          exact ⟨hs2, fun m w hm => hg2 m w (hg1 m w hm), hd2⟩
        · cases h
        · rename_i s1 hr1
          have h1 : AlreadyOK cfg.db s1.already := hal _ _ _ _ _ _ _ _ _ ha (by rw [hr1]; rfl)
          split at h
          · cases h
          · exact ih hl' ⟨s.env, s.aliases, s.unaliased, s1.already, s1.cache⟩ s' h1 hd hs hr h
        · rename_i s1 hr1
          have h1 : AlreadyOK cfg.db s1.already := hal _ _ _ _ _ _ _ _ _ ha (by rw [hr1]; rfl)
          split at h
          · cases h
          · exact ih hl' ⟨s.env, s.aliases, s.unaliased, s1.already, s1.cache⟩ s' h1 hd hs hr h
    · have hnd : ∀ n o j v x t kl, a ≠ .dep n o j v x t kl := fun n o j v x t kl e => hdep ⟨n, o, j, v, x, t, kl, e⟩
      rw [acts_cons_nondep rec cfg true depth noRec vro d a rest s hnd] at h
      have hrecs : ∀ n, (a.apply true d.prod s).env.rec? n = s.env.rec? n := fun n => apply_rec? true d.prod a s n
      obtain ⟨hs2, hg2, hd2⟩ := ih hl' _ s' (by simpa using ha)
        (fun n v h => hd n v (by rw [← hrecs]; exact h)) (supp_of_recs_eq hs hrecs) (by rw [hrecs]; exact hr) h
      exact ⟨hs2, fun m w hm => hg2 m w (by rw [hrecs]; exact hm), hd2⟩

theorem install_supp (cfg : Cfg) (rank : Name → Nat) (hdag : NameDag cfg.db rank) (S : Name → Prop) (top : Name)
    (hcl : Closed cfg.db S) (hone : OneVersion cfg.db S) (rec : Rec) (hal : AlOK cfg rec) (hrec : SuppSpec cfg S top rec)
    (depth : Nat) (noRec : Bool) (vro : List VroEnt) (d : Decl) (reason : Option VroEnt) (hc : Canon cfg.db d)
    (hSd : S d.name) (s s' : St) (hask : Asked cfg S top s.env d.name)
    (hdepth : depth > 0 ∨ setupProd cfg.db s.env d.name = none) (ha : AlreadyOK cfg.db s.already)
    (hd : RecsDeclared cfg.db s.env) (hs : Supp cfg S top s.env)
    (h : install rec cfg depth noRec vro d reason s = .ok s') :
    Supp cfg S top s'.env ∧ Grow s.env s'.env ∧ RecsDeclared cfg.db s'.env := by
  unfold install at h
  cases hsp : setupProd cfg.db s.env d.name with
  | none =>
    rw [hsp] at h
    have hnone := setupProd_none_of_declared cfg.db s.env hd d.name hsp
    have hgrow : Grow s.env (record d reason s).env := by
      intro m w hm
      have hne : m ≠ d.name := by intro e; rw [e, hnone] at hm; cases hm
      rw [record_rec?_other d reason s m hne]; exact hm
    have hd2 : RecsDeclared cfg.db (record d reason s).env := by
      intro n v hr
      by_cases hn : n = d.name
      · subst hn
        rw [record_rec?_same] at hr
        have hv : d.ver = v := Option.some.inj hr
        subst hv
        exact ⟨d, hc⟩
      · rw [record_rec?_other d reason s n hn] at hr; exact hd n v hr
    have hs2 : Supp cfg S top (record d reason s).env := by
      intro m v hm hr
      have lift : ∀ n, Asked cfg S top s.env n → Asked cfg S top (record d reason s).env n := by
        intro n hask
        rcases hask with h1 | ⟨p, w, hp, hpw, hline⟩
        · exact Or.inl h1
        · exact Or.inr ⟨p, w, hp, hgrow p w hpw, hline⟩
      by_cases hmd : m = d.name
      · subst hmd; exact lift _ hask
      · rw [record_rec?_other d reason s m hmd] at hr
        exact lift m (hs m v hm hr)
    obtain ⟨hs3, hg3, hd3⟩ := acts_true_supp cfg S top hcl rec hal hrec depth noRec vro d hc hSd _ (fun _ hm => hm)
      (record d reason s) s' (alreadyOK_aset cfg.db _ ha d reason hc) hd2 hs2 (record_rec?_same d reason s) h
    exact ⟨hs3, fun m w hm => hg3 m w (hgrow m w hm), hd3⟩
  | some sd =>
    rw [hsp] at h
    obtain ⟨hcs, hname, _⟩ := setupProd_some cfg.db s.env d.name sd hsp
    have hver : sd.ver = d.ver :=
      hone d (lookup_some cfg.db d.prod d hc).1 sd (lookup_some cfg.db sd.prod sd hcs).1 hSd hname
    have hpos : depth > 0 := by
      rcases hdepth with h1 | h1
      · exact h1
      · rw [hsp] at h1; cases h1
    have hskip : ((sd.ver.1 == d.ver.1 || (sd.dir == d.dir && d.dir != noneDir)) && decide (depth > 0)) = true := by simp [hver, hpos]
    simp only [hskip, if_true] at h
    simp at h; subst h
    exact ⟨hs, fun _ _ h => h, hd⟩

theorem setup_supp (cfg : Cfg) (rank : Name → Nat) (hdag : NameDag cfg.db rank) (S : Name → Prop) (top : Name)
    (hcl : Closed cfg.db S) (hone : OneVersion cfg.db S) : ∀ fuel, SuppSpec cfg S top (setup cfg fuel) := by
  intro fuel
  induction fuel with
  | zero => intro depth noRec vro n ver vexpr s s' _ _ _ _ _ _ h; simp [setup_zero] at h
  | succ k ih =>
    intro depth noRec vro n ver vexpr s s' hSn hask hdepth ha hd hs h
    rw [setup_succ_true] at h
    cases hres : resolve cfg.db cfg.path cfg.keep s.already n ver vexpr depth vro.length vro with
    | none => rw [hres] at h; cases h
    | error => rw [hres] at h; cases h
    | found d reason =>
      rw [hres] at h
      obtain ⟨hc, hname⟩ := resolve_spec cfg.db cfg.path cfg.keep s.already ha n ver vexpr depth _ _ _ _ hres
      try simp only at h
      obtain ⟨hc, hname⟩ := pickDecl_spec cfg.db s.cache d _ hc hname
      revert h hc hname; generalize pickDecl cfg.db s.cache d = d; intro h hc hname
      have henv := register_env cfg depth d reason (s.afterResolve cfg depth vro n ver vexpr)
      have := install_supp cfg rank hdag S top hcl hone (setup cfg k) (setup_alOK cfg k) ih depth noRec vro d reason hc
        (by rw [hname]; exact hSn) (register cfg depth d reason (s.afterResolve cfg depth vro n ver vexpr)) s' (by rw [henv, hname]; exact hask)
        (by rw [henv, hname]; exact hdepth) (register_already cfg depth d reason (s.afterResolve cfg depth vro n ver vexpr) ha hc) (by rw [henv]; exact hd)
        (by rw [henv]; exact hs) h
      rw [henv] at this; exact this

end EupsModel.Setup

namespace EupsModel.Setup

/-- executable checks (for concrete databases; they establish the property for every set of names) -/
def noJustB (db : Db) : Bool :=
  db.decls.all fun d => d.table.all fun ga =>
    match ga.2 with
    | .dep _ _ j _ _ _ _ => !j
    | _ => true

theorem noJust_of_check (db : Db) (S : Name → Prop) (h : noJustB db = true) : NoJust db S := by
  intro d hd _ g n o j v x t kl hg
  unfold noJustB at h
  rw [List.all_eq_true] at h
  have h1 := h d hd
  rw [List.all_eq_true] at h1
  have h2 := h1 (g, Act.dep n o j v x t kl) hg
  simpa using h2

def oneVersionB (db : Db) : Bool :=
  db.decls.all fun d => db.decls.all fun d' => decide (d'.name = d.name → d'.ver = d.ver)

theorem oneVersion_of_check (db : Db) (S : Name → Prop) (h : oneVersionB db = true) : OneVersion db S := by
  intro d hd d' hd' _ hn
  unfold oneVersionB at h
  rw [List.all_eq_true] at h
  have h1 := h d hd
  rw [List.all_eq_true] at h1
  have h2 := h1 d' hd'
  simp at h2
  rcases h2 with h2 | h2
  · exact absurd hn h2
  · exact h2

end EupsModel.Setup

namespace EupsModel.Setup

/-! ### forward direction without `OneVersion`: `Supp` survives replacements

When a product of the closure is replaced, its old version is unwound — and takes along everything its table names
(`Cleared`, closures without `-j` and without `max_depth`); so whatever stays set up still has a set-up product of the
closure that asked for it. -/

theorem tableOf_mem (cfg : Cfg) (p : Name) (w : Ver) (a : Act) (h : a ∈ tableOf cfg (p, w)) :
    ∃ d ∈ cfg.db.decls, d.name = p ∧ ∃ g, (g, a) ∈ d.table := by
  unfold tableOf at h
  cases hl : cfg.db.lookup (p, w) with
  | none => rw [hl] at h; cases h
  | some d =>
    rw [hl] at h
    obtain ⟨hd, hn, _⟩ := lookup_some cfg.db (p, w) d hl
    exact ⟨d, hd, hn, mem_actions d cfg.exact a h⟩

theorem supp_of_cleared {cfg : Cfg} {S : Name → Prop} {top : Name} {e e' : Env} (hs : Supp cfg S top e)
    (hc : Cleared cfg S e e') (hsub : Sub e' e) : Supp cfg S top e' := by
  intro m v hm hr
  rcases hs m v hm (hsub.recs m v hr) with h1 | ⟨p, w, hp, hpw, o, j, x, y, t, kl, hline⟩
  · exact Or.inl h1
  · right
    cases hpe : e'.rec? p with
    | none =>
      have := hc p w hp hpw hpe m o j x y t kl hline
      rw [hr] at this; cases this
    | some w' =>
      have : w' = w := by have := hsub.recs p w' hpe; rw [hpw] at this; exact (Option.some.inj this).symm
      subst this
      exact ⟨p, w', hp, hpe, o, j, x, y, t, kl, hline⟩

theorem asked_rank (cfg : Cfg) (rank : Name → Nat) (hdag : NameDag cfg.db rank) (S : Name → Prop) (top : Name) (e : Env)
    (n : Name) (h : Asked cfg S top e n) :
    n = top ∨ ∃ p w, S p ∧ e.rec? p = some w ∧ rank n < rank p ∧ ∃ o j x y t kl, Act.dep n o j x y t kl ∈ tableOf cfg (p, w) := by
  rcases h with h | ⟨p, w, hp, hpw, o, j, x, y, t, kl, hline⟩
  · exact Or.inl h
  · obtain ⟨dp, hdp, hname, g, hg⟩ := tableOf_mem cfg p w _ hline
    have := hdag dp hdp g n o j x y t kl hg
    rw [hname] at this
    exact Or.inr ⟨p, w, hp, hpw, this, o, j, x, y, t, kl, hline⟩

/-- `Asked` survives a change of records that leaves the names of higher rank alone -/
theorem asked_of_frame (cfg : Cfg) (rank : Name → Nat) (hdag : NameDag cfg.db rank) (S : Name → Prop) (top : Name)
    (e e' : Env) (n : Name) (h : Asked cfg S top e n)
    (hfr : ∀ m, m ≠ n → rank n ≤ rank m → e'.rec? m = e.rec? m) : Asked cfg S top e' n := by
  rcases asked_rank cfg rank hdag S top e n h with h1 | ⟨p, w, hp, hpw, hr, o, j, x, y, t, kl, hline⟩
  · exact Or.inl h1
  · exact Or.inr ⟨p, w, hp, by rw [hfr p (by intro e; rw [e] at hr; omega) (by omega)]; exact hpw, o, j, x, y, t, kl, hline⟩

def SuppSpec2 (cfg : Cfg) (S : Name → Prop) (top : Name) (rec : Rec) : Prop :=
  ∀ depth vro n ver vexpr s s', S n → Asked cfg S top s.env n → AlreadyOK cfg.db s.already →
    WellOwned cfg s.env → NoResidue Empty s.env → RecsDeclared cfg.db s.env → Supp cfg S top s.env →
    rec true depth false vro n ver vexpr s = .ok s' → Supp cfg S top s'.env ∧ RecsDeclared cfg.db s'.env

theorem acts_true_supp2 (cfg : Cfg) (rank : Name → Nat) (S : Name → Prop) (top : Name) (hcl : Closed cfg.db S)
    (hnj : NoJust cfg.db S) (rec : Rec) (hrec : RecOK cfg rank rec) (hsp : SuppSpec2 cfg S top rec) (depth : Nat)
    (vro : List VroEnt) (d : Decl) (hc : Canon cfg.db d) (hSd : S d.name) (l : List Act)
    (hl : ∀ a ∈ l, a ∈ d.actions cfg.exact)
    (hrank : ∀ n o j v x t kl, Act.dep n o j v x t kl ∈ l → rank n < rank d.name) :
    ∀ s s', AlreadyOK cfg.db s.already → WellOwned cfg s.env → NoResidue Empty s.env → RecsDeclared cfg.db s.env →
      Supp cfg S top s.env → s.env.rec? d.name = some d.ver →
      acts rec cfg true depth false vro d l s = .ok s' → Supp cfg S top s'.env ∧ RecsDeclared cfg.db s'.env := by
  induction l with
  | nil => intro s s' _ _ _ hd hs _ h; simp [acts] at h; subst h; exact ⟨hs, hd⟩
  | cons a rest ih =>
    have hl' : ∀ a ∈ rest, a ∈ d.actions cfg.exact := fun a hm => hl a (List.mem_cons_of_mem _ hm)
    have hrank' : ∀ n o j v x t kl, Act.dep n o j v x t kl ∈ rest → rank n < rank d.name :=
      fun n o j v x t kl hm => hrank n o j v x t kl (List.mem_cons_of_mem _ hm)
    intro s s' ha hw hn hd hs hr h
    have htab : tableOf cfg (d.name, d.ver) = d.actions cfg.exact := tableOf_canon cfg d hc
    by_cases hdep : ∃ n o j v x t kl, a = .dep n o j v x t kl
    · obtain ⟨n, o, j, v, x, t, kl, rfl⟩ := hdep
      have hmem := hl _ (List.mem_cons_self)
      have hline : Act.dep n o j v x t kl ∈ tableOf cfg (d.name, d.ver) := by rw [htab]; exact hmem
      obtain ⟨g, hg⟩ := mem_actions d cfg.exact _ hmem
      have hdmem := (lookup_some cfg.db d.prod d hc).1
      have hSn : S n := hcl d hdmem hSd g n o j v x t kl hg
      have hj : j = false := hnj d hdmem hSd g n o j v x t kl hg
      subst hj
      have hnr : rank n < rank d.name := hrank n o false v x t kl (by simp)
      simp only [acts] at h
      split at h
      · exact ih hl' hrank' s s' ha hw hn hd hs hr h
      · split at h
        · rename_i s1 hr1
          obtain ⟨hs1, hd1⟩ := hsp _ _ _ _ _ _ _ hSn (Or.inr ⟨d.name, d.ver, hSd, hr, o, false, v, x, t, kl, hline⟩)
            ha hw hn hd hs hr1
          obtain ⟨hn1, hw1⟩ := hrec.spec _ _ _ _ _ _ _ _ _ ha hw hn hr1
          have hrec1 : s1.env.rec? d.name = some d.ver := by
            rw [hrec.frame _ _ _ _ _ _ _ _ _ ha hr1 d.name (by intro e; rw [e] at hnr; omega) (by omega)]; exact hr
          exact ih hl' hrank' s1 s' (hrec.already _ _ _ _ _ _ _ _ _ ha (by rw [hr1]; rfl)) hw1 hn1 hd1 hs1 hrec1 h
        · cases h
        · rename_i s1 hr1
          have h1 : AlreadyOK cfg.db s1.already := hrec.already _ _ _ _ _ _ _ _ _ ha (by rw [hr1]; rfl)
          split at h
          · cases h
          · exact ih hl' hrank' ⟨s.env, s.aliases, s.unaliased, s1.already, s1.cache⟩ s' h1 hw hn hd hs hr h
        · rename_i s1 hr1
          have h1 : AlreadyOK cfg.db s1.already := hrec.already _ _ _ _ _ _ _ _ _ ha (by rw [hr1]; rfl)
          split at h
          · cases h
          · exact ih hl' hrank' ⟨s.env, s.aliases, s.unaliased, s1.already, s1.cache⟩ s' h1 hw hn hd hs hr h
    · have hnd : ∀ n o j v x t kl, a ≠ .dep n o j v x t kl := fun n o j v x t kl e => hdep ⟨n, o, j, v, x, t, kl, e⟩
      rw [acts_cons_nondep rec cfg true depth false vro d a rest s hnd] at h
      have hrecs : ∀ n, (a.apply true d.prod s).env.rec? n = s.env.rec? n := fun n => apply_rec? true d.prod a s n
      have hatab : a ∈ tableOf cfg d.prod := by
        have : tableOf cfg d.prod = d.actions cfg.exact := tableOf_canon cfg d hc
        rw [this]; exact hl a (List.mem_cons_self)
      obtain ⟨hn1, hw1⟩ := apply_true_spec cfg d.prod a s hatab hr hw hn
      exact ih hl' hrank' _ s' (by simpa using ha) hw1 hn1 (fun n v h => hd n v (by rw [← hrecs]; exact h))
        (supp_of_recs_eq hs hrecs) (by rw [hrecs]; exact hr) h

theorem install_supp2 (cfg : Cfg) (rank : Name → Nat) (hdag : NameDag cfg.db rank) (S : Name → Prop) (top : Name)
    (hcl : Closed cfg.db S) (hnj : NoJust cfg.db S) (rec : Rec) (hrec : RecOK cfg rank rec) (hclear : UnClear cfg S rec)
    (hsp : SuppSpec2 cfg S top rec) (depth : Nat) (vro : List VroEnt) (d : Decl) (reason : Option VroEnt)
    (hc : Canon cfg.db d) (hSd : S d.name) (s s' : St) (hask : Asked cfg S top s.env d.name)
    (ha : AlreadyOK cfg.db s.already) (hw : WellOwned cfg s.env) (hn : NoResidue Empty s.env)
    (hd : RecsDeclared cfg.db s.env) (hs : Supp cfg S top s.env)
    (h : install rec cfg depth false vro d reason s = .ok s') :
    Supp cfg S top s'.env ∧ RecsDeclared cfg.db s'.env := by
  -- from a state in which `d.name` has no record: write the records and run the table
  have tail : ∀ s1 : St, AlreadyOK cfg.db s1.already → WellOwned cfg s1.env → NoResidue Empty s1.env →
      RecsDeclared cfg.db s1.env → Supp cfg S top s1.env → Asked cfg S top s1.env d.name → s1.env.rec? d.name = none →
      acts rec cfg true depth false vro d (d.actions cfg.exact) (record d reason s1) = .ok s' →
      Supp cfg S top s'.env ∧ RecsDeclared cfg.db s'.env := by
    intro s1 h1 hw1 hn1 hd1 hs1 hask1 hnone hacts
    have hgrow : ∀ m w, s1.env.rec? m = some w → (record d reason s1).env.rec? m = some w := by
      intro m w hm
      have hne : m ≠ d.name := by intro e; rw [e, hnone] at hm; cases hm
      rw [record_rec?_other d reason s1 m hne]; exact hm
    have hd2 : RecsDeclared cfg.db (record d reason s1).env := by
      intro n v hr
      by_cases hnd : n = d.name
      · subst hnd
        rw [record_rec?_same] at hr
        have hv : d.ver = v := Option.some.inj hr
        subst hv
        exact ⟨d, hc⟩
      · rw [record_rec?_other d reason s1 n hnd] at hr; exact hd1 n v hr
    have lift : ∀ n, Asked cfg S top s1.env n → Asked cfg S top (record d reason s1).env n := by
      intro n hask
      rcases hask with h1 | ⟨p, w, hp, hpw, hline⟩
      · exact Or.inl h1
      · exact Or.inr ⟨p, w, hp, hgrow p w hpw, hline⟩
    have hs2 : Supp cfg S top (record d reason s1).env := by
      intro m v hm hr
      by_cases hmd : m = d.name
      · subst hmd; exact lift _ hask1
      · rw [record_rec?_other d reason s1 m hmd] at hr
        exact lift m (hs1 m v hm hr)
    obtain ⟨hn2, hw2⟩ := record_spec cfg d reason s1 hw1 hn1 hnone
    exact acts_true_supp2 cfg rank S top hcl hnj rec hrec hsp depth vro d hc hSd _ (fun _ hm => hm)
      (canon_deps_rank cfg.db rank hdag d hc cfg.exact) (record d reason s1) s'
      (alreadyOK_aset cfg.db _ h1 d reason hc) hw2 hn2 hd2 hs2 (record_rec?_same d reason s1) hacts
  unfold install at h
  cases hsp' : setupProd cfg.db s.env d.name with
  | none =>
    rw [hsp'] at h
    exact tail s ha hw hn hd hs hask (setupProd_none_of_declared cfg.db s.env hd d.name hsp') h
  | some sd =>
    rw [hsp'] at h
    simp only at h
    split at h
    · simp at h; subst h; exact ⟨hs, hd⟩
    · split at h
      · cases h
      · rename_i s1 hr1
        obtain ⟨hn1, hsub⟩ := hrec.unspec Empty _ _ _ _ _ _ _ _ hw hn hr1
        have hc1 := hclear _ _ _ _ _ _ _ hSd hw hd hr1
        have hask1 : Asked cfg S top s1.env d.name :=
          asked_of_frame cfg rank hdag S top s.env s1.env d.name hask
            (fun m hm hr => hrec.frame _ _ _ _ _ _ _ _ _ ha hr1 m hm hr)
        exact tail s1 (hrec.already _ _ _ _ _ _ _ _ _ ha (by rw [hr1]; rfl)) (hw.of_sub hsub) hn1 (hd.of_sub hsub)
          (supp_of_cleared hs hc1 hsub) hask1 (hrec.unsets _ _ _ _ _ _ _ _ hw hr1) h
      · rename_i s1 hr1
        have := (hrec.unfail _ _ _ _ _ _ _ _).2 hr1
        rw [hsp'] at this; cases this
      · rename_i s1 hr1
        exact absurd hr1 (hrec.unfail _ _ _ _ _ _ _ _).1

theorem setup_supp2 (cfg : Cfg) (rank : Name → Nat) (hdag : NameDag cfg.db rank) (S : Name → Prop) (top : Name)
    (hmd : cfg.maxDepth = none) (hcl : Closed cfg.db S) (hnj : NoJust cfg.db S) :
    ∀ fuel, SuppSpec2 cfg S top (setup cfg fuel) := by
  intro fuel
  induction fuel with
  | zero => intro depth vro n ver vexpr s s' _ _ _ _ _ _ _ h; simp [setup_zero] at h
  | succ k ih =>
    intro depth vro n ver vexpr s s' hSn hask ha hw hn hd hs h
    rw [setup_succ_true] at h
    cases hres : resolve cfg.db cfg.path cfg.keep s.already n ver vexpr depth vro.length vro with
    | none => rw [hres] at h; cases h
    | error => rw [hres] at h; cases h
    | found d reason =>
      rw [hres] at h
      obtain ⟨hc, hname⟩ := resolve_spec cfg.db cfg.path cfg.keep s.already ha n ver vexpr depth _ _ _ _ hres
      try simp only at h
      obtain ⟨hc, hname⟩ := pickDecl_spec cfg.db s.cache d _ hc hname
      revert h hc hname; generalize pickDecl cfg.db s.cache d = d; intro h hc hname
      have henv := register_env cfg depth d reason (s.afterResolve cfg depth vro n ver vexpr)
      have := install_supp2 cfg rank hdag S top hcl hnj (setup cfg k) (setup_recOK cfg rank hdag k)
        (setup_false_clear cfg S hmd hcl hnj k) ih depth vro d reason hc (by rw [hname]; exact hSn)
        (register cfg depth d reason (s.afterResolve cfg depth vro n ver vexpr)) s' (by rw [henv, hname]; exact hask)
        (register_already cfg depth d reason (s.afterResolve cfg depth vro n ver vexpr) ha hc) (by rw [henv]; exact hw) (by rw [henv]; exact hn)
        (by rw [henv]; exact hd) (by rw [henv]; exact hs) h
      exact this

end EupsModel.Setup

namespace EupsModel.Setup

/-! ### required dependencies of set-up products are set up (closures with one version per name, no `-j`, no `max_depth`) -/

/-- every `setupRequired` line of the table of every set-up product of `S` outside `Y` has its target set up -/
def ReqSat (cfg : Cfg) (S Y : Name → Prop) (e : Env) : Prop :=
  ∀ p v, S p → ¬ Y p → e.rec? p = some v →
    ∀ m j x y t kl, Act.dep m false j x y t kl ∈ tableOf cfg (p, v) → ∃ w, e.rec? m = some w

def ReqSpec (cfg : Cfg) (S : Name → Prop) (rec : Rec) : Prop :=
  ∀ (Y : Name → Prop) depth vro n ver vexpr s s', S n → (depth > 0 ∨ setupProd cfg.db s.env n = none) →
    AlreadyOK cfg.db s.already → RecsDeclared cfg.db s.env → ReqSat cfg S Y s.env →
    rec true depth false vro n ver vexpr s = .ok s' →
    ReqSat cfg S Y s'.env ∧ Grow s.env s'.env ∧ RecsDeclared cfg.db s'.env ∧ ∃ w, s'.env.rec? n = some w

theorem reqSat_grow {cfg : Cfg} {S Y : Name → Prop} {e e' : Env} (h : ReqSat cfg S Y e) (hg : Grow e e')
    (hsame : ∀ p v, S p → ¬ Y p → e'.rec? p = some v → e.rec? p = some v) : ReqSat cfg S Y e' := by
  intro p v hp hy hr m j x y t kl hline
  obtain ⟨w, hw⟩ := h p v hp hy (hsame p v hp hy hr) m j x y t kl hline
  exact ⟨w, hg m w hw⟩

theorem acts_true_req (cfg : Cfg) (S : Name → Prop) (hmd : cfg.maxDepth = none) (hcl : Closed cfg.db S)
    (hnj : NoJust cfg.db S) (rec : Rec) (hal : AlOK cfg rec) (hrec : ReqSpec cfg S rec) (Y : Name → Prop) (depth : Nat)
    (vro : List VroEnt) (d : Decl) (hc : Canon cfg.db d) (hSd : S d.name) (l : List Act)
    (hl : ∀ a ∈ l, a ∈ d.actions cfg.exact) :
    ∀ s s', AlreadyOK cfg.db s.already → RecsDeclared cfg.db s.env →
      ReqSat cfg S (fun m => Y m ∨ m = d.name) s.env → acts rec cfg true depth false vro d l s = .ok s' →
      ReqSat cfg S (fun m => Y m ∨ m = d.name) s'.env ∧ Grow s.env s'.env ∧ RecsDeclared cfg.db s'.env ∧
      (∀ m j x y t kl, Act.dep m false j x y t kl ∈ l → ∃ w, s'.env.rec? m = some w) := by
  induction l with
  | nil => intro s s' _ hd hq h; simp [acts] at h; subst h; exact ⟨hq, fun _ _ h => h, hd, by simp⟩
  | cons a rest ih =>
    have hl' : ∀ a ∈ rest, a ∈ d.actions cfg.exact := fun a hm => hl a (List.mem_cons_of_mem _ hm)
    intro s s' ha hd hq h
    by_cases hdep : ∃ n o j v x t kl, a = .dep n o j v x t kl
    · obtain ⟨n, o, j, v, x, t, kl, rfl⟩ := hdep
      obtain ⟨g, hg⟩ := mem_actions d cfg.exact _ (hl _ (List.mem_cons_self))
      have hdmem := (lookup_some cfg.db d.prod d hc).1
      have hSn : S n := hcl d hdmem hSd g n o j v x t kl hg
      have hj : j = false := hnj d hdmem hSd g n o j v x t kl hg
      subst hj
      simp only [acts, hmd, Bool.false_or] at h
      simp only [reduceCtorEq, decide_false, Bool.false_eq_true, if_false] at h
      split at h
      · rename_i s1 hr1
        obtain ⟨hq1, hg1, hd1, w1, hw1⟩ := hrec (fun m => Y m ∨ m = d.name) _ _ _ _ _ _ _ hSn (Or.inl (Nat.succ_pos _))
          ha hd hq hr1
        obtain ⟨hq2, hg2, hd2, hdone2⟩ := ih hl' s1 s' (hal _ _ _ _ _ _ _ _ _ ha (by rw [hr1]; rfl)) hd1 hq1 h
        refine ⟨hq2, fun m w hm => hg2 m w (hg1 m w hm), hd2, ?_⟩
        intro m j' x' y' t' kl' hm
        simp only [List.mem_cons] at hm
        rcases hm with hm | hm
        · cases hm; exact ⟨w1, hg2 n w1 hw1⟩
        · exact hdone2 m j' x' y' t' kl' hm
      · cases h
      · rename_i s1 hr1
        have h1 : AlreadyOK cfg.db s1.already := hal _ _ _ _ _ _ _ _ _ ha (by rw [hr1]; rfl)
        split at h
        · cases h
        · rename_i hopt
          obtain ⟨hq2, hg2, hd2, hdone2⟩ := ih hl' ⟨s.env, s.aliases, s.unaliased, s1.already, s1.cache⟩ s' h1 hd hq h
          refine ⟨hq2, hg2, hd2, ?_⟩
          intro m j' x' y' t' kl' hm
          simp only [List.mem_cons] at hm
          rcases hm with hm | hm
          · cases hm; simp at hopt
          · exact hdone2 m j' x' y' t' kl' hm
      · rename_i s1 hr1
        have h1 : AlreadyOK cfg.db s1.already := hal _ _ _ _ _ _ _ _ _ ha (by rw [hr1]; rfl)
        split at h
        · cases h
        · rename_i hopt
          obtain ⟨hq2, hg2, hd2, hdone2⟩ := ih hl' ⟨s.env, s.aliases, s.unaliased, s1.already, s1.cache⟩ s' h1 hd hq h
          refine ⟨hq2, hg2, hd2, ?_⟩
          intro m j' x' y' t' kl' hm
          simp only [List.mem_cons] at hm
          rcases hm with hm | hm
          · cases hm; simp at hopt
          · exact hdone2 m j' x' y' t' kl' hm
    · have hnd : ∀ n o j v x t kl, a ≠ .dep n o j v x t kl := fun n o j v x t kl e => hdep ⟨n, o, j, v, x, t, kl, e⟩
      rw [acts_cons_nondep rec cfg true depth false vro d a rest s hnd] at h
      have hrecs : ∀ n, (a.apply true d.prod s).env.rec? n = s.env.rec? n := fun n => apply_rec? true d.prod a s n
      have hq1 : ReqSat cfg S (fun m => Y m ∨ m = d.name) (a.apply true d.prod s).env := by
        intro p v hp hy hr m j x y t kl hline
        rw [hrecs] at hr
        obtain ⟨w, hw⟩ := hq p v hp hy hr m j x y t kl hline
        exact ⟨w, by rw [hrecs]; exact hw⟩
      obtain ⟨hq2, hg2, hd2, hdone2⟩ := ih hl' _ s' (by simpa using ha)
        (fun n v h => hd n v (by rw [← hrecs]; exact h)) hq1 h
      refine ⟨hq2, fun m w hm => hg2 m w (by rw [hrecs]; exact hm), hd2, ?_⟩
      intro m j x y t kl hm
      simp only [List.mem_cons] at hm
      rcases hm with hm | hm
      · exact absurd hm.symm (hnd m false j x y t kl)
      · exact hdone2 m j x y t kl hm

theorem install_req (cfg : Cfg) (S : Name → Prop) (hmd : cfg.maxDepth = none) (hcl : Closed cfg.db S)
    (hnj : NoJust cfg.db S) (hone : OneVersion cfg.db S) (rec : Rec) (hal : AlOK cfg rec) (hrec : ReqSpec cfg S rec)
    (Y : Name → Prop) (depth : Nat) (vro : List VroEnt) (d : Decl) (reason : Option VroEnt) (hc : Canon cfg.db d)
    (hSd : S d.name) (s s' : St) (hdepth : depth > 0 ∨ setupProd cfg.db s.env d.name = none)
    (ha : AlreadyOK cfg.db s.already) (hd : RecsDeclared cfg.db s.env) (hq : ReqSat cfg S Y s.env)
    (h : install rec cfg depth false vro d reason s = .ok s') :
    ReqSat cfg S Y s'.env ∧ Grow s.env s'.env ∧ RecsDeclared cfg.db s'.env ∧ ∃ w, s'.env.rec? d.name = some w := by
  unfold install at h
  cases hsp : setupProd cfg.db s.env d.name with
  | none =>
    rw [hsp] at h
    have hnone := setupProd_none_of_declared cfg.db s.env hd d.name hsp
    have hgrow : Grow s.env (record d reason s).env := by
      intro m w hm
      have hne : m ≠ d.name := by intro e; rw [e, hnone] at hm; cases hm
      rw [record_rec?_other d reason s m hne]; exact hm
    have hd2 : RecsDeclared cfg.db (record d reason s).env := by
      intro n v hr
      by_cases hn : n = d.name
      · subst hn
        rw [record_rec?_same] at hr
        have hv : d.ver = v := Option.some.inj hr
        subst hv
        exact ⟨d, hc⟩
      · rw [record_rec?_other d reason s n hn] at hr; exact hd n v hr
    have hq2 : ReqSat cfg S (fun m => Y m ∨ m = d.name) (record d reason s).env := by
      intro p v hp hy hr m j x y t kl hline
      have hne : p ≠ d.name := fun e => hy (Or.inr e)
      rw [record_rec?_other d reason s p hne] at hr
      obtain ⟨w, hw⟩ := hq p v hp (fun h => hy (Or.inl h)) hr m j x y t kl hline
      exact ⟨w, hgrow m w hw⟩
    obtain ⟨hq3, hg3, hd3, hdone3⟩ := acts_true_req cfg S hmd hcl hnj rec hal hrec Y depth vro d hc hSd _ (fun _ hm => hm)
      (record d reason s) s' (alreadyOK_aset cfg.db _ ha d reason hc) hd2 hq2 h
    have hrd : s'.env.rec? d.name = some d.ver := hg3 _ _ (record_rec?_same d reason s)
    refine ⟨?_, fun m w hm => hg3 m w (hgrow m w hm), hd3, ⟨d.ver, hrd⟩⟩
    intro p v hp hy hr m j x y t kl hline
    by_cases hpd : p = d.name
    · subst hpd
      rw [hrd] at hr
      have hv : d.ver = v := Option.some.inj hr
      subst hv
      have : tableOf cfg (d.name, d.ver) = d.actions cfg.exact := tableOf_canon cfg d hc
      rw [this] at hline
      exact hdone3 m j x y t kl hline
    · exact hq3 p v hp (fun h => h.elim hy hpd) hr m j x y t kl hline
  | some sd =>
    rw [hsp] at h
    obtain ⟨hcs, hname, hrs⟩ := setupProd_some cfg.db s.env d.name sd hsp
    have hver : sd.ver = d.ver :=
      hone d (lookup_some cfg.db d.prod d hc).1 sd (lookup_some cfg.db sd.prod sd hcs).1 hSd hname
    have hpos : depth > 0 := by
      rcases hdepth with h1 | h1
      · exact h1
      · rw [hsp] at h1; cases h1
    have hskip : ((sd.ver.1 == d.ver.1 || (sd.dir == d.dir && d.dir != noneDir)) && decide (depth > 0)) = true := by simp [hver, hpos]
    simp only [hskip, if_true] at h
    simp at h; subst h
    exact ⟨hq, fun _ _ h => h, hd, ⟨sd.ver, hrs⟩⟩

theorem setup_req (cfg : Cfg) (S : Name → Prop) (hmd : cfg.maxDepth = none) (hcl : Closed cfg.db S)
    (hnj : NoJust cfg.db S) (hone : OneVersion cfg.db S) : ∀ fuel, ReqSpec cfg S (setup cfg fuel) := by
  intro fuel
  induction fuel with
  | zero => intro Y depth vro n ver vexpr s s' _ _ _ _ _ h; simp [setup_zero] at h
  | succ k ih =>
    intro Y depth vro n ver vexpr s s' hSn hdepth ha hd hq h
    rw [setup_succ_true] at h
    cases hres : resolve cfg.db cfg.path cfg.keep s.already n ver vexpr depth vro.length vro with
    | none => rw [hres] at h; cases h
    | error => rw [hres] at h; cases h
    | found d reason =>
      rw [hres] at h
      obtain ⟨hc, hname⟩ := resolve_spec cfg.db cfg.path cfg.keep s.already ha n ver vexpr depth _ _ _ _ hres
      try simp only at h
      obtain ⟨hc, hname⟩ := pickDecl_spec cfg.db s.cache d _ hc hname
      revert h hc hname; generalize pickDecl cfg.db s.cache d = d; intro h hc hname
      have henv := register_env cfg depth d reason (s.afterResolve cfg depth vro n ver vexpr)
      have := install_req cfg S hmd hcl hnj hone (setup cfg k) (setup_alOK cfg k) ih Y depth vro d reason hc
        (by rw [hname]; exact hSn) (register cfg depth d reason (s.afterResolve cfg depth vro n ver vexpr)) s' (by rw [henv, hname]; exact hdepth)
        (register_already cfg depth d reason (s.afterResolve cfg depth vro n ver vexpr) ha hc) (by rw [henv]; exact hd) (by rw [henv]; exact hq) h
      rw [henv, hname] at this; exact this

end EupsModel.Setup
