import EupsModel.Lemmas.Db
/-! Extensional agreement of two contents on a (stack, flavor) slice, and the commutation lemma of C07: the
write-through of an effect on an in-memory stack that agrees with the database agrees with the database
after the effect. -/
namespace EupsModel.Db

/-- `a` and `b` hold the same declarations and tags of product `n` in stack `s`, flavor `f` -/
def AgreeOnN (a b : Spec) (s : Nat) (f : Flav) (n : Name) : Prop :=
  (∀ d : Decl, d.stack = s → d.flav = f → d.name = n → (d ∈ a.decls ↔ d ∈ b.decls)) ∧
  (∀ r : TagRec, r.stack = s → r.flav = f → r.name = n → (r ∈ a.tags ↔ r ∈ b.tags))

/-- `a` and `b` hold the same declarations and tags in stack `s`, flavor `f` -/
def AgreeOn (a b : Spec) (s : Nat) (f : Flav) : Prop := ∀ n, AgreeOnN a b s f n

theorem AgreeOnN.refl (a : Spec) (s : Nat) (f : Flav) (n : Name) : AgreeOnN a a s f n :=
  ⟨fun _ _ _ _ => Iff.rfl, fun _ _ _ _ => Iff.rfl⟩

theorem AgreeOnN.symm {a b : Spec} {s : Nat} {f : Flav} {n : Name} (h : AgreeOnN a b s f n) : AgreeOnN b a s f n :=
  ⟨fun d h1 h2 h3 => (h.1 d h1 h2 h3).symm, fun r h1 h2 h3 => (h.2 r h1 h2 h3).symm⟩

theorem AgreeOnN.trans {a b c : Spec} {s : Nat} {f : Flav} {n : Name} (h : AgreeOnN a b s f n)
    (k : AgreeOnN b c s f n) : AgreeOnN a c s f n :=
  ⟨fun d h1 h2 h3 => (h.1 d h1 h2 h3).trans (k.1 d h1 h2 h3),
   fun r h1 h2 h3 => (h.2 r h1 h2 h3).trans (k.2 r h1 h2 h3)⟩

theorem AgreeOnN.hasDecl {a b : Spec} {s : Nat} {f : Flav} {n : Name} (h : AgreeOnN a b s f n) (v : Ver) :
    a.hasDecl s n v f = b.hasDecl s n v f := by
  rw [Bool.eq_iff_iff, Spec.hasDecl_iff, Spec.hasDecl_iff]
  constructor
  · rintro ⟨d, hd, hk⟩
    have k := Decl.hasKey_iff.mp hk
    exact ⟨d, (h.1 d k.1 k.2.2.2 k.2.1).mp hd, hk⟩
  · rintro ⟨d, hd, hk⟩
    have k := Decl.hasKey_iff.mp hk
    exact ⟨d, (h.1 d k.1 k.2.2.2 k.2.1).mpr hd, hk⟩

theorem AgreeOnN.hasTag {a b : Spec} {s : Nat} {f : Flav} {n : Name} (h : AgreeOnN a b s f n) (t : Tag) :
    a.hasTag s t n f = b.hasTag s t n f := by
  rw [Bool.eq_iff_iff, Spec.hasTag_iff, Spec.hasTag_iff]
  constructor
  · rintro ⟨r, hr, hk⟩
    have k := TagRec.hasKey_iff.mp hk
    exact ⟨r, (h.2 r k.1 k.2.2.2 k.2.2.1).mp hr, hk⟩
  · rintro ⟨r, hr, hk⟩
    have k := TagRec.hasKey_iff.mp hk
    exact ⟨r, (h.2 r k.1 k.2.2.2 k.2.2.1).mpr hr, hk⟩

/-! ## the same update on both sides -/

theorem AgreeOnN.setDecl {a b : Spec} {s : Nat} {f : Flav} {n : Name} (h : AgreeOnN a b s f n) (d : Decl) :
    AgreeOnN (a.setDecl d) (b.setDecl d) s f n := by
  refine ⟨fun x h1 h2 h3 => ?_, fun r h1 h2 h3 => by simpa using h.2 r h1 h2 h3⟩
  rw [Spec.mem_setDecl, Spec.mem_setDecl, h.1 x h1 h2 h3]

theorem AgreeOnN.setTag {a b : Spec} {s : Nat} {f : Flav} {n : Name} (h : AgreeOnN a b s f n) (r : TagRec) :
    AgreeOnN (a.setTag r) (b.setTag r) s f n := by
  refine ⟨fun x h1 h2 h3 => by simpa using h.1 x h1 h2 h3, fun x h1 h2 h3 => ?_⟩
  rw [Spec.mem_setTag, Spec.mem_setTag, h.2 x h1 h2 h3]

theorem AgreeOnN.addDecl {a b : Spec} {s : Nat} {f : Flav} {n : Name} (h : AgreeOnN a b s f n) (d : Decl)
    (tag : Option Tag) : AgreeOnN (a.addDecl d tag) (b.addDecl d tag) s f n := by
  cases tag with
  | none => exact h.setDecl d
  | some t => exact (h.setDecl d).setTag _

theorem AgreeOnN.delTag {a b : Spec} {s : Nat} {f : Flav} {n : Name} (h : AgreeOnN a b s f n)
    (s' : Nat) (t : Tag) (n' : Name) (f' : Flav) : AgreeOnN (a.delTag s' t n' f') (b.delTag s' t n' f') s f n := by
  refine ⟨fun x h1 h2 h3 => by simpa using h.1 x h1 h2 h3, fun x h1 h2 h3 => ?_⟩
  rw [Spec.mem_delTag, Spec.mem_delTag, h.2 x h1 h2 h3]

theorem AgreeOnN.delDecl {a b : Spec} {s : Nat} {f : Flav} {n : Name} (h : AgreeOnN a b s f n)
    (s' : Nat) (n' : Name) (v : Ver) (f' : Flav) : AgreeOnN (a.delDecl s' n' v f') (b.delDecl s' n' v f') s f n := by
  refine ⟨fun x h1 h2 h3 => ?_, fun x h1 h2 h3 => ?_⟩
  · rw [Spec.mem_delDecl_decls, Spec.mem_delDecl_decls, h.1 x h1 h2 h3]
  · rw [Spec.mem_delDecl_tags, Spec.mem_delDecl_tags, h.2 x h1 h2 h3]

/-- `Spec.assign` on two contents that agree on the slice of the tag -/
theorem AgreeOnN.assign {a b : Spec} {s : Nat} {f : Flav} {n : Name} (h : AgreeOnN a b s f n)
    (s' : Nat) (t : Tag) (n' : Name) (f' : Flav) (v : Ver)
    (hk : a.hasDecl s' n' v f' = b.hasDecl s' n' v f') :
    AgreeOnN (a.assign s' t n' f' v) (b.assign s' t n' f' v) s f n := by
  unfold Spec.assign
  rw [hk]
  split
  · exact h.setTag _
  · exact h

/-! ## `memRemove` against `delDecl` -/

/-- no tag of the content points at an undeclared version, within product `n` of (stack `s`, flavor `f`) -/
def NoDanglingN (c : Spec) (s : Nat) (f : Flav) (n : Name) : Prop :=
  ∀ r ∈ c.tags, r.stack = s → r.flav = f → r.name = n → c.hasDecl s n r.ver f = true

theorem NoDangling.toN {c : Spec} (h : NoDangling c) (s : Nat) (f : Flav) (n : Name) : NoDanglingN c s f n := by
  intro r hr h1 h2 h3
  have := h r hr
  rw [h1, h2, h3] at this
  exact this

theorem AgreeOnN.noDanglingN {a b : Spec} {s : Nat} {f : Flav} {n : Name} (h : AgreeOnN a b s f n)
    (hb : NoDanglingN b s f n) : NoDanglingN a s f n := by
  intro r hr h1 h2 h3
  rw [h.hasDecl]
  exact hb r ((h.2 r h1 h2 h3).mp hr) h1 h2 h3

/-- `ProductStack.removeProduct` (with the D1 repair) is extensionally `delDecl` on a content without
dangling tags in the product: the family-deletion clause removes nothing more -/
theorem memRemove_agree (m : Spec) (s : Nat) (n : Name) (v : Ver) (f : Flav) (hnd : NoDanglingN m s f n)
    (s' : Nat) (f' : Flav) (n' : Name) : AgreeOnN (memRemove true m s n v f) (m.delDecl s n v f) s' f' n' := by
  unfold memRemove
  by_cases hd : m.hasDecl s n v f = true
  · simp only [hd, Bool.not_true, Bool.false_eq_true, if_false, if_true]
    split
    · exact AgreeOnN.refl _ _ _ _
    · rename_i hnone
      refine ⟨fun x _ _ _ => Iff.rfl, fun r h1 h2 h3 => ?_⟩
      simp only [Spec.delDecl, List.mem_filter]
      constructor
      · exact fun h => h.1
      · intro h
        refine ⟨h, ?_⟩
        -- a remaining tag of the family would point at a remaining version: there is none
        cases hr : (r.stack == s && r.name == n && r.flav == f) with
        | false => rfl
        | true =>
          exfalso
          simp only [Bool.and_eq_true, beq_iff_eq] at hr
          obtain ⟨⟨e1, e2⟩, e3⟩ := hr
          have hdecl := hnd r h.1 e1 e3 e2
          rw [Spec.hasDecl_iff] at hdecl
          obtain ⟨x, hx, hk⟩ := hdecl
          have hk' := Decl.hasKey_iff.mp hk
          apply hnone
          rw [List.any_eq_true]
          refine ⟨x, List.mem_filter.mpr ⟨hx, ?_⟩, by simp [hk'.1, hk'.2.1, hk'.2.2.2]⟩
          -- x is not the removed version, else the tag would have been removed
          cases hxk : x.hasKey s n v f with
          | false => rfl
          | true =>
            exfalso
            have hxk' := Decl.hasKey_iff.mp hxk
            have : r.pointsAt s n v f = true := by
              rw [TagRec.pointsAt_iff]; exact ⟨e1, e2, e3, hk'.2.2.1 ▸ hxk'.2.2.1⟩
            have h2 := h.2
            rw [this] at h2
            exact Bool.noConfusion h2
  · have hd' : m.hasDecl s n v f = false := by simpa using hd
    simp only [hd', Bool.not_false, if_true]
    -- nothing to remove: `delDecl` removes no declaration, and no tag (none points at an undeclared version)
    refine ⟨fun x _ _ _ => ?_, fun r _ _ _ => ?_⟩
    · rw [Spec.mem_delDecl_decls]
      constructor
      · intro hx
        refine ⟨hx, ?_⟩
        cases hxk : x.hasKey s n v f with
        | false => rfl
        | true => exfalso; exact hd (Spec.hasDecl_iff.mpr ⟨x, hx, hxk⟩)
      · exact fun h => h.1
    · rw [Spec.mem_delDecl_tags]
      constructor
      · intro hr
        refine ⟨hr, ?_⟩
        cases hp : r.pointsAt s n v f with
        | false => rfl
        | true =>
          exfalso
          have hp' := TagRec.pointsAt_iff.mp hp
          have := hnd r hr hp'.1 hp'.2.2.1 hp'.2.1
          rw [hp'.2.2.2] at this
          exact hd this
      · exact fun h => h.1

/-! ## the commutation lemma -/

/-- the slice (stack, flavor, product) an effect works in -/
def Eff.slice : Eff → Option (Nat × Flav × Name)
  | .declare d _ => some (d.stack, d.flav, d.name)
  | .undeclare s n _ f => some (s, f, n)
  | .assign s _ n f _ => some (s, f, n)
  | .unassign s _ n f => some (s, f, n)
  | .rmTree _ => none
  | .copyExtra _ => none

/-- **Commutation.**  If the in-memory stacks `m` agree with the database `db` on a slice, and on the slice
the effect works in, then after the write-through of the effect they agree with the database after the effect
(`ProductStack.addProduct`, `removeProduct` → `ProductFamily.removeVersion` with the D1 repair, `assignTag`,
`unassignTag` against `Database.declare`, `undeclare`, `assignTag`, `unassignTag`). -/
theorem commute (e : Eff) (m db : Spec) (hdb : NoDangling db) (s : Nat) (f : Flav) (n : Name)
    (h : AgreeOnN m db s f n)
    (hown : ∀ s' f' n', e.slice = some (s', f', n') → AgreeOnN m db s' f' n') :
    AgreeOnN (applyMem e m) (applyDb e db) s f n := by
  cases e with
  | declare d tag => exact h.addDecl d tag
  | undeclare s' n' v f' =>
    have hnd : NoDanglingN m s' f' n' := (hown s' f' n' rfl).noDanglingN (hdb.toN s' f' n')
    exact (memRemove_agree m s' n' v f' hnd s f n).trans (h.delDecl s' n' v f')
  | assign s' t n' f' v => exact h.assign s' t n' f' v ((hown s' f' n' rfl).hasDecl v)
  | unassign s' t n' f' => exact h.delTag s' t n' f'
  | rmTree _ => exact h
  | copyExtra _ => exact h

/-- The pinned write-through does not commute: a tag survives, in the in-memory stack, the removal of its
version (D1). -/
theorem commute_fails_pinned :
    let m : Spec := ⟨[⟨0, [112], [49], [76], ⟨0, []⟩, .default⟩, ⟨0, [112], [50], [76], ⟨0, []⟩, .default⟩],
                     [⟨0, current, [112], [76], [49]⟩]⟩
    (applyMemPinned (.undeclare 0 [112] [49] [76]) m).hasTag 0 current [112] [76] = true ∧
    (applyDb (.undeclare 0 [112] [49] [76]) m).hasTag 0 current [112] [76] = false := by decide

/-! ## an effect that does not write leaves the content as it is -/

theorem Spec.delTag_of_not_hasTag {c : Spec} {s : Nat} {t : Tag} {n : Name} {f : Flav}
    (h : c.hasTag s t n f = false) (x : TagRec) : x ∈ (c.delTag s t n f).tags ↔ x ∈ c.tags := by
  rw [Spec.mem_delTag]
  constructor
  · exact fun h => h.1
  · intro hx
    refine ⟨hx, ?_⟩
    cases hk : x.hasKey s t n f with
    | false => rfl
    | true =>
      exfalso
      have : c.hasTag s t n f = true := Spec.hasTag_iff.mpr ⟨x, hx, hk⟩
      rw [h] at this; exact Bool.noConfusion this

/-- one stack, one element per key: `find?` is determined by membership -/
theorem findDecl_agree {a b : Spec} {s : Nat} {f : Flav} {n : Name} (h : AgreeOnN a b s f n) (hb : KeysUnique b)
    (v : Ver) : a.findDecl s n v f = b.findDecl s n v f := by
  unfold Spec.findDecl
  cases ha : a.decls.find? (·.hasKey s n v f) with
  | none =>
    cases hbf : b.decls.find? (·.hasKey s n v f) with
    | none => rfl
    | some y =>
      exfalso
      have hy := List.find?_some hbf
      have k := Decl.hasKey_iff.mp hy
      have hmem := (h.1 y k.1 k.2.2.2 k.2.1).mpr (List.mem_of_find?_eq_some hbf)
      rw [List.find?_eq_none] at ha
      exact ha y hmem hy
  | some x =>
    have hx := List.find?_some ha
    have kx := Decl.hasKey_iff.mp hx
    have hxb := (h.1 x kx.1 kx.2.2.2 kx.2.1).mp (List.mem_of_find?_eq_some ha)
    cases hbf : b.decls.find? (·.hasKey s n v f) with
    | none => rw [List.find?_eq_none] at hbf; exact absurd hx (hbf x hxb)
    | some y =>
      have hy := List.find?_some hbf
      have ky := Decl.hasKey_iff.mp hy
      have : x = y := hb.decl x hxb y (List.mem_of_find?_eq_some hbf)
        (Decl.sameKey_iff.mpr ⟨kx.1.trans ky.1.symm, kx.2.1.trans ky.2.1.symm, kx.2.2.1.trans ky.2.2.1.symm,
          kx.2.2.2.trans ky.2.2.2.symm⟩)
      rw [this]

theorem tagVer_agree {a b : Spec} {s : Nat} {f : Flav} {n : Name} (h : AgreeOnN a b s f n) (hb : KeysUnique b)
    (t : Tag) : a.tagVer s t n f = b.tagVer s t n f := by
  unfold Spec.tagVer
  cases ha : a.tags.find? (·.hasKey s t n f) with
  | none =>
    cases hbf : b.tags.find? (·.hasKey s t n f) with
    | none => rfl
    | some y =>
      exfalso
      have hy := List.find?_some hbf
      have k := TagRec.hasKey_iff.mp hy
      have hmem := (h.2 y k.1 k.2.2.2 k.2.2.1).mpr (List.mem_of_find?_eq_some hbf)
      rw [List.find?_eq_none] at ha
      exact ha y hmem hy
  | some x =>
    have hx := List.find?_some ha
    have kx := TagRec.hasKey_iff.mp hx
    have hxb := (h.2 x kx.1 kx.2.2.2 kx.2.2.1).mp (List.mem_of_find?_eq_some ha)
    cases hbf : b.tags.find? (·.hasKey s t n f) with
    | none => rw [List.find?_eq_none] at hbf; exact absurd hx (hbf x hxb)
    | some y =>
      have hy := List.find?_some hbf
      have ky := TagRec.hasKey_iff.mp hy
      have : x = y := hb.tag x hxb y (List.mem_of_find?_eq_some hbf)
        (TagRec.sameKey_iff.mpr ⟨kx.1.trans ky.1.symm, kx.2.1.trans ky.2.1.symm, kx.2.2.1.trans ky.2.2.1.symm,
          kx.2.2.2.trans ky.2.2.2.symm⟩)
      rw [this]


end EupsModel.Db
