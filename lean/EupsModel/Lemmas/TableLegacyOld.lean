import EupsModel.Lemmas.TableLegacy
/-! C11, legacy clause, old style: `_rewrite` turns `Group:` / `Flavor = f`… / `Common:` / … / `End:` into exactly
the `if` block the group stands for. -/
namespace EupsModel.TableParse
open EupsModel.Cond EupsModel.C11Spec

/-! ## facts shared by the lines of the old style -/

/-- what `_rewrite` needs to know of a stripped line before it tries its keyword -/
structure CoreFacts (raw core : Str) (d : Nat) : Prop where
  strip_eq : strip raw = core
  noNL : raw.all (· != 10) = true
  nonempty : core.isEmpty = false
  head : ∃ c0 rest, core = c0 :: rest ∧ lowerCh c0 = d
  syn : synonyms.foldl (fun l p => replaceAll p.1 p.2 l) core = core

theorem coreFacts_of {w : Wrap} (hw : w.ok = true) {core : Str} {c0 : Nat} {rest : Str} (hl : core = c0 :: rest)
    (hs : Str.isSpace c0 = false) (hall : core.all lineCh = true) : CoreFacts (w.around core) core (lowerCh c0) := by
  have h36 : 36 ∉ core := fun hm => by have := List.all_eq_true.mp hall 36 hm; revert this; decide
  have hcore : coreOK core = true := by
    simp only [coreOK, Bool.and_eq_true]
    refine ⟨by rw [hl]; simp [nsp, hs], List.all_eq_true.mpr fun x hx => ?_⟩
    have := List.all_eq_true.mp hall x hx
    simp only [lineCh, Bool.and_eq_true] at this
    simp [this.1.1, this.1.2]
  have hw' := hw
  simp only [Wrap.ok, Bool.and_eq_true] at hw'
  have h10 : w.indent.all (· != 10) = true := List.all_eq_true.mpr fun a ha => by
    have := hblank_ne hw'.1.1 (d := 10) (by omega); simp only [bne_iff_ne, ne_eq]; intro e; exact this (e ▸ ha)
  have c10 : core.all (· != 10) = true := List.all_eq_true.mpr fun x hx => by
    have := List.all_eq_true.mp hall x hx; simp only [lineCh, Bool.and_eq_true] at this; exact this.1.1
  exact ⟨strip_wrap hw hcore, by simp [Wrap.around, List.all_append, h10, c10, hw'.1.2], by rw [hl]; rfl,
    ⟨c0, rest, hl, rfl⟩, synonyms_absent h36⟩

/-- a keyword line -/
theorem kwLine_facts {target : Str} {d : Nat} {t' : Str} (ht : target = d :: t') (hd : 97 ≤ d ∧ d ≤ 122)
    (hlow : target.all (fun c => Str.isLower c || c == 58) = true) {k : KwLine} (hk : k.ok target = true) :
    CoreFacts k.raw k.core d ∧ lowerPrefix target k.core = some k.after ∧ allSpace k.after = true := by
  simp only [KwLine.ok, Bool.and_eq_true, beq_iff_eq] at hk
  obtain ⟨⟨hw, hkw⟩, ha⟩ := hk
  obtain ⟨c0, cs, hkc, hs, hlc⟩ := head_of_lower (hkw.trans ht) hd
  have hall : k.core.all lineCh = true := by
    have a : k.kw.all lineCh = true := by
      refine List.all_eq_true.mpr fun c hc => ?_
      have hm : lowerCh c ∈ target := by
        rw [← hkw]; simp only [Str.lower, List.mem_map]; exact ⟨c, hc, rfl⟩
      have := List.all_eq_true.mp hlow _ hm
      simp only [lowerCh, Str.isLower, Str.isUpper, Bool.or_eq_true, Bool.and_eq_true, decide_eq_true_eq, beq_iff_eq] at this
      simp only [lineCh, Bool.and_eq_true, bne_iff_ne, ne_eq]
      split at this <;> omega
    simp [KwLine.core, List.all_append, a, lineCh_of_hblank ha]
  have hl : k.core = c0 :: (cs ++ k.after) := by simp [KwLine.core, hkc]
  have cf := coreFacts_of hw hl hs hall
  rw [hlc] at cf
  exact ⟨cf, by simpa [KwLine.core] using lowerPrefix_of_lower hkw k.after, blank_of_hblank ha⟩

theorem takeWhile_append_stop {p : Nat → Bool} : ∀ (v after : Str), v.all p = true → (∀ c ∈ after.head?, p c = false) →
    (v ++ after).takeWhile p = v := by
  intro v
  induction v with
  | nil =>
    intro after _ h
    cases after with
    | nil => rfl
    | cons c cs => simp [List.takeWhile, h c (by simp)]
  | cons c cs ih =>
    intro after hv h
    simp only [List.all_cons, Bool.and_eq_true] at hv
    simp [List.takeWhile, hv.1, ih after hv.2 h]

/-- a `key = value` line -/
theorem eqLine_facts {target : Str} {d : Nat} {t' : Str} (ht : target = d :: t') (hd : 97 ≤ d ∧ d ≤ 122)
    (hlow : target.all Str.isLower = true) {cls : Nat → Bool} (hcls : ∀ c, cls c = true → isTokCh c = true)
    {e : EqLine} (he : e.ok target cls = true) :
    CoreFacts e.raw e.core d ∧ kwEq target e.core = some (e.value ++ e.after) ∧
      (e.value ++ e.after).takeWhile cls = e.value ∧ e.value ≠ [] := by
  simp only [EqLine.ok, Bool.and_eq_true, beq_iff_eq, Bool.not_eq_true', List.isEmpty_eq_false_iff] at he
  obtain ⟨⟨⟨⟨⟨⟨hw, hkw⟩, h1⟩, h2⟩, hne⟩, hval⟩, ha⟩ := he
  obtain ⟨c0, cs, hkc, hs, hlc⟩ := head_of_lower (hkw.trans ht) hd
  have htok : e.value.all isTokCh = true := List.all_eq_true.mpr fun c hc => hcls c (List.all_eq_true.mp hval c hc)
  have hall : e.core.all lineCh = true := by
    have a := lineCh_of_lower hkw hlow
    have b : e.value.all lineCh = true := List.all_eq_true.mpr fun x hx => lineCh_of_tokCh (List.all_eq_true.mp htok x hx)
    simp [EqLine.core, List.all_append, a, b, lineCh_of_hblank h1, lineCh_of_hblank h2, lineCh_of_hblank ha, lineCh_eq]
  have hl : e.core = c0 :: (cs ++ e.s1 ++ [61] ++ e.s2 ++ e.value ++ e.after) := by
    simp [EqLine.core, hkc, List.append_assoc]
  have cf := coreFacts_of hw hl hs hall
  rw [hlc] at cf
  obtain ⟨x, xs, hx⟩ : ∃ x xs, e.value = x :: xs := by
    cases hv : e.value with
    | nil => exact absurd hv hne
    | cons x xs => exact ⟨x, xs, rfl⟩
  have hxt : isTokCh x = true := by rw [hx] at htok; simp only [List.all_cons, Bool.and_eq_true] at htok; exact htok.1
  have hnsp : nsp (e.value ++ e.after) = true := by
    rw [hx]; simp only [List.cons_append, nsp, Bool.not_eq_true']
    cases hsx : Str.isSpace x with
    | false => rfl
    | true => rw [space_not_tokCh hsx] at hxt; cases hxt
  have ecore : e.core = e.kw ++ (e.s1 ++ 61 :: (e.s2 ++ (e.value ++ e.after))) := by simp [EqLine.core, List.append_assoc]
  have hkweq : kwEq target e.core = some (e.value ++ e.after) := by
    rw [ecore]
    simp only [kwEq, lowerPrefix_of_lower hkw, dropSpaces_append (blank_of_hblank h1) (by rfl : nsp (61 :: _) = true),
      dropSpaces_append (blank_of_hblank h2) hnsp]
  have htw : (e.value ++ e.after).takeWhile cls = e.value := by
    apply takeWhile_append_stop _ _ hval
    intro c hc
    have hm : c ∈ e.after := by
      cases hae : e.after with
      | nil => rw [hae] at hc; simp at hc
      | cons y ys => rw [hae] at hc; simp at hc; subst hc; exact List.mem_cons_self ..
    have hsp : Str.isSpace c = true := List.all_eq_true.mp (blank_of_hblank ha) c hm
    cases hcc : cls c with
    | false => rfl
    | true => have := hcls c hcc; rw [space_not_tokCh hsp] at this; cases this
  exact ⟨cf, hkweq, htw, hne⟩

theorem cf_kwEq_none {raw core : Str} {d : Nat} (cf : CoreFacts raw core d) {K : Str} {dK : Nat} {K' : Str}
    (hK : K = dK :: K') (hne : d ≠ dK) : kwEq K core = none := by
  obtain ⟨c0, rest, hl, hc⟩ := cf.head
  exact kwEq_none_head hl hK (by rw [hc]; exact hne)

theorem cf_lp_none {raw core : Str} {d : Nat} (cf : CoreFacts raw core d) {K : Str} {dK : Nat} {K' : Str}
    (hK : K = dK :: K') (hne : d ≠ dK) : lowerPrefix K core = none := by
  obtain ⟨c0, rest, hl, hc⟩ := cf.head
  exact lowerPrefix_none_head hl hK (by rw [hc]; exact hne)

theorem eFile : sFile = 102 :: [105, 108, 101] := rfl
theorem eProduct : sProduct = 112 :: [114, 111, 100, 117, 99, 116] := rfl
theorem eAction : sAction = 97 :: [99, 116, 105, 111, 110] := rfl
theorem eQualifiers : sQualifiers = 113 :: [117, 97, 108, 105, 102, 105, 101, 114, 115] := rfl
theorem eGroupC : sGroupC = 103 :: [114, 111, 117, 112, 58] := rfl
theorem eCommonC : sCommonC = 99 :: [111, 109, 109, 111, 110, 58] := rfl
theorem eEndC : sEndC = 101 :: [110, 100, 58] := rfl
theorem eFlavorKw : sFlavorKw = 102 :: [108, 97, 118, 111, 114] := rfl

/-! ## `_rewrite` line by line -/

theorem rl_group {st : RwState} {k : KwLine} (hk : k.ok sGroupC = true) :
    rewriteLine st k.raw = .ok { st with inGroup := true, cond := [] } := by
  obtain ⟨cf, hlp, hsp⟩ := kwLine_facts eGroupC (by omega) (by decide) hk
  have a1 := cf_kwEq_none cf eFile (by omega)
  have a2 := cf_kwEq_none cf eProduct (by omega)
  have a3 := cf_kwEq_none cf eAction (by omega)
  have a4 := cf_kwEq_none cf eQualifiers (by omega)
  simp [rewriteLine, cf.strip_eq, cf.nonempty, kwEqCap, a1, a2, a3, a4, cf.syn, qualLine, kwLine, hlp, hsp]

theorem rl_common {st : RwState} (hg : st.inGroup = true) {k : KwLine} (hk : k.ok sCommonC = true) :
    rewriteLine st k.raw = .ok { st with out := st.out ++ [sIfOpen ++ st.cond ++ sIfClose] } := by
  obtain ⟨cf, hlp, hsp⟩ := kwLine_facts eCommonC (by omega) (by decide) hk
  have a1 := cf_kwEq_none cf eFile (by omega)
  have a2 := cf_kwEq_none cf eProduct (by omega)
  have a3 := cf_kwEq_none cf eAction (by omega)
  have a4 := cf_kwEq_none cf eQualifiers (by omega)
  have a5 := cf_lp_none cf eGroupC (by omega)
  simp [rewriteLine, cf.strip_eq, cf.nonempty, kwEqCap, a1, a2, a3, a4, a5, cf.syn, qualLine, kwLine, hlp, hsp, hg]

theorem rl_end {st : RwState} (hg : st.inGroup = true) {k : KwLine} (hk : k.ok sEndC = true) :
    rewriteLine st k.raw = .ok { st with inGroup := false, out := st.out ++ [sClose] } := by
  obtain ⟨cf, hlp, hsp⟩ := kwLine_facts eEndC (by omega) (by decide) hk
  have a1 := cf_kwEq_none cf eFile (by omega)
  have a2 := cf_kwEq_none cf eProduct (by omega)
  have a3 := cf_kwEq_none cf eAction (by omega)
  have a4 := cf_kwEq_none cf eQualifiers (by omega)
  have a5 := cf_lp_none cf eGroupC (by omega)
  have a6 := cf_lp_none cf eCommonC (by omega)
  simp [rewriteLine, cf.strip_eq, cf.nonempty, kwEqCap, a1, a2, a3, a4, a5, a6, cf.syn, qualLine, kwLine, hlp, hsp, hg]

theorem kwEqCap_of {kw : Str} {cls : Nat → Bool} {core v rest : Str} (h1 : kwEq kw core = some rest)
    (h2 : rest.takeWhile cls = v) (hne : v ≠ []) : kwEqCap kw cls core = some v := by
  unfold kwEqCap
  rw [h1]
  cases v with
  | nil => exact absurd rfl hne
  | cons a as => simp [h2]

theorem wordCh_tok (c : Nat) (h : isWordCh c = true) : isTokCh c = true := by simp [isTokCh, h]

theorem rl_file {st : RwState} {e : EqLine} (he : e.ok sFile isWordCh = true) (ht : Str.lower e.value = sTable) :
    rewriteLine st e.raw = .ok { st with old := true } := by
  obtain ⟨cf, hkw, htw, hne⟩ := eqLine_facts eFile (by omega) (by decide) wordCh_tok he
  have hcap : kwEqCap sFile isWordCh e.core = some e.value := kwEqCap_of hkw htw hne
  simp [rewriteLine, cf.strip_eq, cf.nonempty, hcap, ht]

theorem rl_product {st : RwState} (ho : st.old = true) {e : EqLine} (he : e.ok sProduct isWordCh = true) :
    rewriteLine st e.raw = .ok st := by
  obtain ⟨cf, hkw, htw, hne⟩ := eqLine_facts eProduct (by omega) (by decide) wordCh_tok he
  have a1 := cf_kwEq_none cf eFile (by omega)
  have hcap : kwEqCap sProduct isWordCh e.core = some e.value := kwEqCap_of hkw htw hne
  have hn1 : kwEqCap sFile isWordCh e.core = none := by simp [kwEqCap, a1]
  simp [rewriteLine, cf.strip_eq, cf.nonempty, hn1, hcap, ho]

theorem rl_action {st : RwState} {e : EqLine} (he : e.ok sAction isTokCh = true)
    (hs : isInfix sSetup (Str.lower e.value) = true) : rewriteLine st e.raw = .ok st := by
  obtain ⟨cf, hkw, htw, hne⟩ := eqLine_facts eAction (by omega) (by decide) (fun _ h => h) he
  have a1 := cf_kwEq_none cf eFile (by omega)
  have a2 := cf_kwEq_none cf eProduct (by omega)
  have hcap : kwEqCap sAction isTokCh e.core = some e.value := kwEqCap_of hkw htw hne
  have hn1 : kwEqCap sFile isWordCh e.core = none := by simp [kwEqCap, a1]
  have hn2 : kwEqCap sProduct isWordCh e.core = none := by simp [kwEqCap, a2]
  simp [rewriteLine, cf.strip_eq, cf.nonempty, hn1, hn2, cf.syn, hcap, hs]

/-- a `Flavor = f` line inside `Group:` … `Common:` -/
theorem rl_flav_in {st : RwState} (hg : st.inGroup = true) {f : FlavLine} (hf : f.ok = true) :
    rewriteLine st f.raw =
      .ok { st with cond := (if st.cond.isEmpty then st.cond else st.cond ++ sBarBar) ++ flavPiece f.flavor } := by
  obtain ⟨h0, _, h1, h2, h3, h4, h5, h6, h7, h8, h9, h10⟩ := flav_core_facts hf
  simp only [rewriteLine, h0, h1, h2, h3, h4, h5, h6, h7, h8, h9, h10, hg, flavPiece]
  cases st.old <;> simp

theorem qual_facts {e : EqLine} (he : qualOK e = true) : CoreFacts e.raw e.core 113 ∧ qualLine e.core = true := by
  simp only [qualOK, Bool.and_eq_true, beq_iff_eq] at he
  obtain ⟨⟨⟨⟨⟨hw, hkw⟩, h1⟩, h2⟩, ha⟩, hval⟩ := he
  obtain ⟨r, hv, hlast, htext⟩ : ∃ r, e.value = 34 :: r ∧ r.getLast? = some 34 ∧
      r.dropLast.all (fun c => c != 34 && c != 10 && c != 35 && c != 36) = true := by
    cases hv : e.value with
    | nil => rw [hv] at hval; cases hval
    | cons c cs =>
      rw [hv] at hval
      split at hval
      · rename_i r heq; cases heq
        simp only [Bool.and_eq_true, beq_iff_eq] at hval
        exact ⟨_, rfl, hval.1, hval.2⟩
      · cases hval
  have hr : r = r.dropLast ++ [34] := by
    have hne : r ≠ [] := by intro e'; rw [e'] at hlast; cases hlast
    have := List.dropLast_concat_getLast hne
    rw [List.getLast?_eq_getLast hne] at hlast
    simp only [Option.some.injEq] at hlast
    rw [hlast] at this; exact this.symm
  obtain ⟨c0, cs, hkc, hs, hlc⟩ := head_of_lower (hkw.trans eQualifiers) (by omega)
  have htx : r.dropLast.all lineCh = true := List.all_eq_true.mpr fun x hx => by
    have := List.all_eq_true.mp htext x hx
    simp only [Bool.and_eq_true] at this
    simp [lineCh, this.1.1.2, this.1.2, this.2]
  have hall : e.core.all lineCh = true := by
    have a := lineCh_of_lower hkw (by decide)
    have q : lineCh 34 = true := by decide
    rw [EqLine.core, hv, hr]
    simp [List.all_append, a, lineCh_of_hblank h1, lineCh_of_hblank h2, lineCh_of_hblank ha, lineCh_eq, q, htx]
  have hl : e.core = c0 :: (cs ++ e.s1 ++ [61] ++ e.s2 ++ e.value ++ e.after) := by
    simp [EqLine.core, hkc, List.append_assoc]
  have cf := coreFacts_of hw hl hs hall
  rw [hlc] at cf
  have ecore : e.core = e.kw ++ (e.s1 ++ 61 :: (e.s2 ++ (34 :: (r.dropLast ++ 34 :: e.after)))) := by
    rw [EqLine.core, hv]; conv => lhs; rw [hr]
    simp [List.append_assoc]
  have hq : qualLine e.core = true := by
    have h34 : ∀ x ∈ r.dropLast, (x != 34) = true := fun x hx => by
      have := List.all_eq_true.mp htext x hx; simp only [Bool.and_eq_true] at this; exact this.1.1.1
    have hdw : (r.dropLast ++ 34 :: e.after).dropWhile (· != 34) = 34 :: e.after := by
      generalize r.dropLast = t at h34
      induction t with
      | nil => simp [List.dropWhile]
      | cons x xs ih =>
        simp only [List.cons_append, List.dropWhile, h34 x (List.mem_cons_self ..)]
        exact ih (fun y hy => h34 y (List.mem_cons_of_mem _ hy))
    rw [ecore]
    simp only [qualLine, kwEq, lowerPrefix_of_lower hkw, dropSpaces_append (blank_of_hblank h1) (by rfl : nsp (61 :: _) = true),
      dropSpaces_append (blank_of_hblank h2) (by rfl : nsp (34 :: _) = true), hdw]
    rfl
  exact ⟨cf, hq⟩

theorem rl_qual {st : RwState} {e : EqLine} (he : qualOK e = true) : rewriteLine st e.raw = .ok st := by
  obtain ⟨cf, hq⟩ := qual_facts he
  have a1 := cf_kwEq_none cf eFile (by omega)
  have a2 := cf_kwEq_none cf eProduct (by omega)
  have a3 := cf_kwEq_none cf eAction (by omega)
  have hn1 : kwEqCap sFile isWordCh e.core = none := by simp [kwEqCap, a1]
  have hn2 : kwEqCap sProduct isWordCh e.core = none := by simp [kwEqCap, a2]
  have hn3 : kwEqCap sAction isTokCh e.core = none := by simp [kwEqCap, a3]
  simp [rewriteLine, cf.strip_eq, cf.nonempty, hn1, hn2, hn3, cf.syn, hq]

/-! ## a group, the groups, the table -/

theorem stripped_eq (ls : List Str) : stripped ls = coresOf ls := rfl

theorem flavPiece_ne (f : Str) : flavPiece f ≠ [] := by
  unfold flavPiece; split <;> simp [sFlavorAny, sFlavorEq]

theorem rl_more : ∀ (more : List FlavLine) (old : Bool) (ng : NewGroup) (cond : Str) (out : List Str), cond ≠ [] →
    more.all FlavLine.ok = true →
    rewriteLines ⟨old, true, ng, cond, out⟩ (more.map FlavLine.raw) =
      .ok ⟨old, true, ng, more.foldl (fun c g => c ++ sBarBar ++ flavPiece g.flavor) cond, out⟩ := by
  intro more
  induction more with
  | nil => intro _ _ _ _ _ _; simp [rewriteLines]
  | cons f fs ih =>
    intro old ng cond out hc hall
    simp only [List.all_cons, Bool.and_eq_true] at hall
    have := rl_flav_in (st := ⟨old, true, ng, cond, out⟩) rfl hall.1
    have he : cond.isEmpty = false := by cases cond with
      | nil => exact absurd rfl hc
      | cons _ _ => rfl
    simp only [he, Bool.false_eq_true, if_false] at this
    simp only [List.map_cons, rewriteLines, this, Res.bind]
    rw [ih _ _ _ _ (by simp [sBarBar]) hall.2]
    simp

theorem rl_opt {st : RwState} {o : Option EqLine} (h : ∀ e, o = some e → rewriteLine st e.raw = .ok st) :
    rewriteLines st (optLine o) = .ok st := by
  cases o with
  | none => rfl
  | some e => simp [optLine, rewriteLines, h e rfl, Res.bind]

/-- `_rewrite` over one old-style group and the lines after it -/
theorem rewriteLines_ogroup {g : OGroup} (hok : g.ok = true) (old : Bool) (ng : NewGroup) (cond : Str) (out : List Str)
    (hn : ng ≠ .inFlavors) :
    rewriteLines ⟨old, false, ng, cond, out⟩ g.raws =
      .ok ⟨old, false, ng, ogCond g.f.flavor (g.more.map FlavLine.flavor), out ++ g.block⟩ := by
  simp only [OGroup.ok, Bool.and_eq_true] at hok
  obtain ⟨⟨⟨⟨⟨⟨⟨⟨hgr, hf⟩, hmore⟩, hq⟩, hco⟩, hac⟩, hbody⟩, hend⟩, hafter⟩ := hok
  have e : g.raws = [g.group.raw] ++ ([g.f.raw] ++ (g.more.map FlavLine.raw ++ (optLine g.qual ++ ([g.common.raw] ++
      (optLine g.action ++ (g.body ++ ([g.end_.raw] ++ g.after))))))) := by simp [OGroup.raws, List.append_assoc]
  have s1 : rewriteLines ⟨old, false, ng, cond, out⟩ [g.group.raw] = .ok ⟨old, true, ng, [], out⟩ := by
    simp [rewriteLines, rl_group hgr, Res.bind]
  have s2 : rewriteLines ⟨old, true, ng, [], out⟩ [g.f.raw] = .ok ⟨old, true, ng, flavPiece g.f.flavor, out⟩ := by
    have := rl_flav_in (st := ⟨old, true, ng, [], out⟩) rfl hf
    simp [rewriteLines, this, Res.bind]
  have hqual : ∀ st : RwState, rewriteLines st (optLine g.qual) = .ok st := fun st => rl_opt (fun e he => by
    rw [he] at hq; exact rl_qual hq)
  have hact : ∀ st : RwState, rewriteLines st (optLine g.action) = .ok st := fun st => rl_opt (fun e he => by
    rw [he] at hac; simp only [Bool.and_eq_true] at hac; exact rl_action hac.1 hac.2)
  rw [e, rewriteLines_append, s1]; simp only [Res.bind]
  rw [rewriteLines_append, s2]; simp only [Res.bind]
  rw [rewriteLines_append, rl_more _ _ _ _ _ (flavPiece_ne _) hmore]; simp only [Res.bind]
  rw [rewriteLines_append, hqual]; simp only [Res.bind]
  rw [rewriteLines_append]
  have s5 := rl_common (st := ⟨old, true, ng, g.more.foldl (fun c g => c ++ sBarBar ++ flavPiece g.flavor) (flavPiece g.f.flavor), out⟩)
    rfl hco
  simp only [rewriteLines, s5, Res.bind]
  rw [rewriteLines_append, hact]; simp only [Res.bind]
  rw [rewriteLines_append, rewriteLines_pass' _ _ hn (passes_of_passesLine hbody)]; simp only [Res.bind]
  rw [rewriteLines_append]
  have s8 := rl_end (st := ⟨old, true, ng, g.more.foldl (fun c g => c ++ sBarBar ++ flavPiece g.flavor) (flavPiece g.f.flavor),
    out ++ [sIfOpen ++ g.more.foldl (fun c g => c ++ sBarBar ++ flavPiece g.flavor) (flavPiece g.f.flavor) ++ sIfClose]
      ++ coresOf g.body⟩) rfl hend
  simp only [rewriteLines, s8, Res.bind]
  rw [rewriteLines_pass' _ _ hn (passes_of_passesLine hafter)]
  simp [OGroup.block, OGroup.ifLine, ogCond, List.foldl_map, stripped_eq, List.append_assoc]

theorem rewriteLines_ogroups : ∀ (gs : List OGroup) (old : Bool) (ng : NewGroup) (cond : Str) (out : List Str),
    ng ≠ .inFlavors → gs.all OGroup.ok = true →
    ∃ c, rewriteLines ⟨old, false, ng, cond, out⟩ (gs.flatMap OGroup.raws) =
      .ok ⟨old, false, ng, c, out ++ gs.flatMap OGroup.block⟩ := by
  intro gs
  induction gs with
  | nil => intro old ng cond out _ _; exact ⟨cond, by simp [rewriteLines]⟩
  | cons g gs ih =>
    intro old ng cond out hn hall
    simp only [List.all_cons, Bool.and_eq_true] at hall
    obtain ⟨c, hc⟩ := ih old ng (ogCond g.f.flavor (g.more.map FlavLine.flavor)) (out ++ g.block) hn hall.2
    refine ⟨c, ?_⟩
    rw [List.flatMap_cons, rewriteLines_append, rewriteLines_ogroup hall.1 old ng cond out hn]
    simp only [Res.bind, hc]
    simp [List.append_assoc]

/-! ## the two texts -/

theorem noNL_ogroups : ∀ (gs : List OGroup), gs.all OGroup.ok = true → ∀ r ∈ gs.flatMap OGroup.raws, r.all (· != 10) = true := by
  intro gs hall r hr
  simp only [List.mem_flatMap] at hr
  obtain ⟨g, hg, hr⟩ := hr
  have hok := List.all_eq_true.mp hall g hg
  simp only [OGroup.ok, Bool.and_eq_true] at hok
  obtain ⟨⟨⟨⟨⟨⟨⟨⟨hgr, hf⟩, hmore⟩, hq⟩, hco⟩, hac⟩, hbody⟩, hend⟩, hafter⟩ := hok
  simp only [OGroup.raws, List.mem_cons, List.mem_append, List.mem_map, List.mem_nil_iff, or_false] at hr
  rcases hr with ((((((rfl | rfl | ⟨f', hf', rfl⟩) | hr) | rfl) | hr) | hr) | rfl) | hr
  · exact (kwLine_facts eGroupC (by omega) (by decide) hgr).1.noNL
  · exact (flav_core_facts hf).2.1
  · exact (flav_core_facts (List.all_eq_true.mp hmore f' hf')).2.1
  · cases hqv : g.qual with
    | none => rw [hqv] at hr; simp [optLine] at hr
    | some e => rw [hqv] at hr hq; simp [optLine] at hr; rw [hr]; exact (qual_facts hq).1.noNL
  · exact (kwLine_facts eCommonC (by omega) (by decide) hco).1.noNL
  · cases hav : g.action with
    | none => rw [hav] at hr; simp [optLine] at hr
    | some e =>
      rw [hav] at hr hac; simp [optLine] at hr; rw [hr]
      simp only [Bool.and_eq_true] at hac
      exact (eqLine_facts eAction (by omega) (by decide) (fun _ h => h) hac.1).1.noNL
  · exact noNL_pre hbody r hr
  · exact (kwLine_facts eEndC (by omega) (by decide) hend).1.noNL
  · exact noNL_pre hafter r hr

theorem rl_header {h : Option OHeader} (hh : ∀ x, h = some x → x.ok = true) :
    ∃ old, rewriteLines {} (hdrLines h) = .ok ⟨old, false, .no, [], []⟩ ∧ ∀ r ∈ hdrLines h, r.all (· != 10) = true := by
  cases h with
  | none => exact ⟨false, rfl, fun r hr => by simp [hdrLines] at hr⟩
  | some x =>
    have hx := hh x rfl
    simp only [OHeader.ok, Bool.and_eq_true, beq_iff_eq] at hx
    obtain ⟨⟨hf, ht⟩, hp⟩ := hx
    refine ⟨true, ?_, ?_⟩
    · have s1 := rl_file (st := {}) hf ht
      have s2 := rl_product (st := ⟨true, false, .no, [], []⟩) rfl hp
      simp only [hdrLines, rewriteLines, s1, Res.bind]
      exact by simpa [rewriteLines, Res.bind] using congrArg (fun r => r.bind fun st' => Res.ok st') s2
    · intro r hr
      simp only [hdrLines, List.mem_cons, List.mem_nil_iff, or_false] at hr
      rcases hr with rfl | rfl
      · exact (eqLine_facts eFile (by omega) (by decide) wordCh_tok hf).1.noNL
      · exact (eqLine_facts eProduct (by omega) (by decide) wordCh_tok hp).1.noNL

/-- `_rewrite` on an old-style legacy table: the lines outside the groups, then every group as its `if` block -/
theorem rewrite_old_legacy (h : Option OHeader) (pre : List Str) (gs : List OGroup) (nl : Bool)
    (hh : ∀ x, h = some x → x.ok = true) (hpre : pre.all passesLine = true) (hgs : gs.all OGroup.ok = true) :
    rewrite (oldLegacyText h pre gs nl) = .ok (coresOf pre ++ gs.flatMap OGroup.block) := by
  obtain ⟨old, hhdr, hhnl⟩ := rl_header hh
  have hnl : ∀ r ∈ hdrLines h ++ pre ++ gs.flatMap OGroup.raws, r.all (· != 10) = true := by
    intro r hr
    rcases List.mem_append.mp hr with hr | hr
    · rcases List.mem_append.mp hr with hr | hr
      · exact hhnl r hr
      · exact noNL_pre hpre r hr
    · exact noNL_ogroups gs hgs r hr
  obtain ⟨extra, hs, hx⟩ := splitLines_joinNL _ hnl nl
  obtain ⟨c, hc⟩ := rewriteLines_ogroups gs old .no [] ([] ++ coresOf pre) (by decide) hgs
  simp only [rewrite, oldLegacyText, hs]
  rw [List.append_assoc, List.append_assoc, rewriteLines_append, hhdr]
  simp only [Res.bind]
  rw [rewriteLines_append, rewriteLines_pass' pre _ (by simp) (passes_of_passesLine hpre)]
  simp only [Res.bind]
  rw [rewriteLines_append, hc]
  simp only [Res.bind, rewriteLines_extra hx]
  simp

theorem lineCh_ogCond {f : Str} (hf : f.all isTokCh = true) : ∀ (gs : List Str) (acc : Str), acc.all lineCh = true →
    (∀ g ∈ gs, g.all isTokCh = true) →
    (gs.foldl (fun c g => c ++ sBarBar ++ flavPiece g) acc).all lineCh = true := by
  intro gs
  induction gs with
  | nil => intro acc h _; exact h
  | cons g gs ih =>
    intro acc h hg
    apply ih
    · have a : sBarBar.all lineCh = true := by decide
      have c : (flavPiece g).all lineCh = true := by
        unfold flavPiece; split
        · decide
        · have b : sFlavorEq.all lineCh = true := by decide
          have d : g.all lineCh = true := List.all_eq_true.mpr fun x hx =>
            lineCh_of_tokCh (List.all_eq_true.mp (hg g (List.mem_cons_self ..)) x hx)
          simp [List.all_append, b, d]
      simp [List.all_append, h, a, c]
    · exact fun q hq => hg q (List.mem_cons_of_mem _ hq)

theorem fixed_oifLine {g : OGroup} (hok : g.ok = true) : Fixed g.ifLine := by
  simp only [OGroup.ok, Bool.and_eq_true] at hok
  obtain ⟨⟨⟨⟨⟨⟨⟨⟨_, hf⟩, hmore⟩, _⟩, _⟩, _⟩, _⟩, _⟩, _⟩ := hok
  have tokOf : ∀ {f : FlavLine}, f.ok = true → f.flavor.all isTokCh = true := by
    intro f h; simp only [FlavLine.ok, Bool.and_eq_true] at h; exact h.1.2
  have hacc : (flavPiece g.f.flavor).all lineCh = true := by
    unfold flavPiece; split
    · decide
    · have b : sFlavorEq.all lineCh = true := by decide
      have c : g.f.flavor.all lineCh = true := List.all_eq_true.mpr fun x hx =>
        lineCh_of_tokCh (List.all_eq_true.mp (tokOf hf) x hx)
      simp [List.all_append, b, c]
  have hc := lineCh_ogCond (tokOf hf) (g.more.map FlavLine.flavor) _ hacc (by
    intro q hq
    simp only [List.mem_map] at hq
    obtain ⟨f', hf', rfl⟩ := hq
    exact tokOf (List.all_eq_true.mp hmore f' hf'))
  have hall : g.ifLine.all lineCh = true := by
    have a : sIfOpen.all lineCh = true := by decide
    have b : sIfClose.all lineCh = true := by decide
    simp only [OGroup.ifLine, ogCond, List.all_append, a, b, hc]; rfl
  have hl : g.ifLine = 105 :: ([102, 32, 40] ++ ogCond g.f.flavor (g.more.map FlavLine.flavor) ++ sIfClose) := by
    simp [OGroup.ifLine, sIfOpen]
  exact fixed_of_facts (core_facts hl hall (by decide) (by decide))

theorem fixed_oblock {g : OGroup} (hok : g.ok = true) : ∀ l ∈ g.block, Fixed l := by
  intro l hl
  have hok' := hok
  simp only [OGroup.ok, Bool.and_eq_true] at hok'
  obtain ⟨⟨⟨_, hbody⟩, _⟩, hafter⟩ := hok'
  simp only [OGroup.block, List.mem_cons, List.mem_append, List.mem_nil_iff, or_false, stripped_eq] at hl
  rcases hl with ((rfl | hl) | rfl) | hl
  · exact fixed_oifLine hok
  · exact fixed_cores _ (passes_of_passesLine hbody) l hl
  · exact fixed_close
  · exact fixed_cores _ (passes_of_passesLine hafter) l hl

theorem rewrite_old_asIf (pre : List Str) (gs : List OGroup) (nl : Bool) (hpre : pre.all passesLine = true)
    (hgs : gs.all OGroup.ok = true) :
    rewrite (oldLegacyAsIfText pre gs nl) = .ok (coresOf pre ++ gs.flatMap OGroup.block) := by
  have hfix : ∀ l ∈ gs.flatMap OGroup.block, Fixed l := by
    intro l hl
    simp only [List.mem_flatMap] at hl
    obtain ⟨g, hg, hl⟩ := hl
    exact fixed_oblock (List.all_eq_true.mp hgs g hg) l hl
  obtain ⟨hco, hpa⟩ := coresOf_fixed _ hfix
  have hnl : ∀ r ∈ pre ++ gs.flatMap OGroup.block, r.all (· != 10) = true := by
    intro r hr
    rcases List.mem_append.mp hr with hr | hr
    · exact noNL_pre hpre r hr
    · exact (hfix r hr).1
  obtain ⟨extra, hs, hx⟩ := splitLines_joinNL _ hnl nl
  have hall : (pre ++ gs.flatMap OGroup.block).all passes = true := by
    simp [List.all_append, passes_of_passesLine hpre, hpa]
  simp only [rewrite, oldLegacyAsIfText, hs]
  rw [rewriteLines_append, rewriteLines_pass' _ {} (by decide) hall]
  simp only [Res.bind, rewriteLines_extra hx]
  simp [coresOf_append, hco]

end EupsModel.TableParse
