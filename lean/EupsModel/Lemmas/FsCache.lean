import EupsModel.Model.FsCache
import EupsModel.Lemmas.FsEff
import EupsModel.Lemmas.FsTab
/-! Lemmas for the product cache under a kill (C08): the record part of the extended effect list is the effect list of
`Model/FsEff.lean`; with the order *close, then rename* every prefix keeps every cache file in place complete. -/
set_option linter.unusedSimpArgs false
set_option linter.unusedVariables false
namespace EupsModel.FsEff

/-! ## The three components -/

def recPart : List Eff3 → List Eff
  | [] => []
  | .onRec e :: r => e :: recPart r
  | _ :: r => recPart r

def cachePart : List Eff3 → List CEff
  | [] => []
  | .onCache e :: r => e :: cachePart r
  | _ :: r => cachePart r

theorem recPart_append (a b : List Eff3) : recPart (a ++ b) = recPart a ++ recPart b := by
  induction a with
  | nil => rfl
  | cons x r ih => cases x <;> simp [recPart, ih]

theorem cachePart_append (a b : List Eff3) : cachePart (a ++ b) = cachePart a ++ cachePart b := by
  induction a with
  | nil => rfl
  | cons x r ih => cases x <;> simp [cachePart, ih]

theorem recPart_map_rec (es : List Eff) : recPart (es.map .onRec) = es := by
  induction es with
  | nil => rfl
  | cons e r ih => simp [recPart, ih]

theorem recPart_map_cache (es : List CEff) : recPart (es.map .onCache) = [] := by
  induction es with
  | nil => rfl
  | cons e r ih => simp [recPart, ih]

theorem recPart_map_tab (es : List TEff) : recPart (es.map .onTab) = [] := by
  induction es with
  | nil => rfl
  | cons e r ih => simp [recPart, ih]

theorem cachePart_map_rec (es : List Eff) : cachePart (es.map .onRec) = [] := by
  induction es with
  | nil => rfl
  | cons e r ih => simp [cachePart, ih]

theorem cachePart_map_cache (es : List CEff) : cachePart (es.map .onCache) = es := by
  induction es with
  | nil => rfl
  | cons e r ih => simp [cachePart, ih]

theorem cachePart_map_tab (es : List TEff) : cachePart (es.map .onTab) = [] := by
  induction es with
  | nil => rfl
  | cons e r ih => simp [cachePart, ih]

theorem applyAll3_fs (db : Db3) (es : List Eff3) : (applyAll3 db es).fs = applyAll db.fs (recPart es) := by
  induction es generalizing db with
  | nil => rfl
  | cons x r ih =>
    simp only [applyAll3, List.foldl_cons] at ih ⊢
    rw [ih]
    cases x <;> simp [recPart, applyEff3, applyAll]

theorem applyAll3_cache (db : Db3) (es : List Eff3) : (applyAll3 db es).cache = applyCAll db.cache (cachePart es) := by
  induction es generalizing db with
  | nil => rfl
  | cons x r ih =>
    simp only [applyAll3, List.foldl_cons] at ih ⊢
    rw [ih]
    cases x <;> simp [cachePart, applyEff3, applyCAll]

/-- the record part of a prefix is a prefix of the record part -/
theorem recPart_take (es : List Eff3) (k : Nat) :
    recPart (es.take k) = (recPart es).take (recPart (es.take k)).length := by
  have h : recPart es = recPart (es.take k) ++ recPart (es.drop k) := by
    rw [← recPart_append, List.take_append_drop]
  rw [h, List.take_left']
  rfl

theorem cachePart_take (es : List Eff3) (k : Nat) :
    cachePart (es.take k) = (cachePart es).take (cachePart (es.take k)).length := by
  have h : cachePart es = cachePart (es.take k) ++ cachePart (es.drop k) := by
    rw [← cachePart_append, List.take_append_drop]
  rw [h, List.take_left']
  rfl

/-! ## The record part is the plain effect list -/

theorem expandAll_append (atomic : Bool) (a b : List Step) : ∀ fs : Fs,
    expandAll atomic fs (a ++ b) = expandAll atomic fs a ++ expandAll atomic (applySteps fs a) b := by
  induction a with
  | nil => intro fs; rfl
  | cons s r ih =>
    intro fs
    simp only [List.cons_append, expandAll, ih, List.append_assoc]
    rfl

theorem recPart_effectsG (cfg : Cfg3) (flavors : List Id) (gs : List (List Step)) :
    ∀ (fs : Fs) (i0 gen : Nat), recPart (effectsG cfg flavors fs gs i0 gen) = expandAll cfg.atomic fs gs.flatten := by
  induction gs with
  | nil => intro fs i0 gen; rfl
  | cons g r ih =>
    intro fs i0 gen
    simp only [effectsG, recPart_append, recPart_map_rec, List.flatten_cons, expandAll_append, ih]
    split <;> simp [recPart_map_cache, recPart]

theorem groups_flatten (fs : Fs) (c : Cmd) : (groups fs c).flatten = steps fs c := by
  cases c with
  | declare p v f tag force =>
    simp only [groups, steps]
    cases declareTag fs p f tag with
    | none => simp
    | some t =>
      simp only [List.flatten_cons, List.flatten_nil, List.append_nil]
      generalize htv : taggedVersion (applySteps fs (if (!hasFlavorV (vread fs p v) f || force) = true then
        dbDeclare fs p v f (some t) else [])) t p f = tv
      cases tv <;> rfl
  | untag t p f v => simp [groups]
  | undeclare p v f => simp [groups]
  | undeclareAny p f => simp [groups]

theorem recPart_effects3 (cfg : Cfg3) (flavors : List Id) (db : Db3) (c : Cmd2) :
    recPart (effects3 cfg flavors db c) = effects { atomic := cfg.atomic } db.fs c.onRecords := by
  simp only [effects3, recPart_append, recPart_effectsG, groups_flatten, recPart_map_tab, List.append_nil, effects]

/-! ## The cache files -/

theorem cget_cset (t : CacheFs) (f g : CPath) (c : CFile) :
    cget (cset t f c) g = if g = f then some c else cget t g := by
  induction t with
  | nil =>
    by_cases h : g = f
    · subst h; simp [cset, cget]
    · have : ¬ f = g := fun e => h e.symm
      simp [cset, cget, h, this]
  | cons x r ih =>
    obtain ⟨a, d⟩ := x
    by_cases ha : a = f
    · subst ha
      by_cases h : g = a
      · subst h; simp [cset, cget]
      · have : ¬ a = g := fun e => h e.symm
        simp [cset, cget, h, this]
    · by_cases hg : a = g
      · subst hg
        simp [cset, cget, ha]
      · simp only [cset, ha, if_false]
        have e1 : cget ((a, d) :: cset r f c) g = cget (cset r f c) g := by simp [cget, hg]
        have e2 : cget ((a, d) :: r) g = cget r g := by simp [cget, hg]
        rw [e1, e2, ih]

theorem cget_cdel (t : CacheFs) (f g : CPath) :
    cget (cdel t f) g = if g = f then none else cget t g := by
  induction t with
  | nil => by_cases h : g = f <;> simp [cdel, cget, h]
  | cons x r ih =>
    obtain ⟨a, d⟩ := x
    by_cases ha : a = f
    · subst ha
      simp only [cdel, if_true]
      rw [ih]
      by_cases h : g = a
      · simp [h]
      · have : ¬ a = g := fun e => h e.symm
        simp [h, cget, this]
    · simp only [cdel, ha, if_false]
      by_cases hg : a = g
      · subst hg
        simp [cget, ha]
      · have e1 : cget ((a, d) :: cdel r f) g = cget (cdel r f) g := by simp [cget, hg]
        have e2 : cget ((a, d) :: r) g = cget r g := by simp [cget, hg]
        rw [e1, e2, ih]

/-- no cache file in place is empty -/
def CacheOK (t : CacheFs) : Prop := ∀ f, cget t (.main f) ≠ some .empty

/-- every prefix of the effects, from every state whose cache files are complete, leaves them complete -/
def Safe (es : List CEff) : Prop := ∀ t, CacheOK t → ∀ j, CacheOK (applyCAll t (es.take j))

theorem safe_nil : Safe [] := by
  intro t h j
  simpa [applyCAll] using h

theorem applyCAll_append (t : CacheFs) (a b : List CEff) : applyCAll t (a ++ b) = applyCAll (applyCAll t a) b := by
  simp [applyCAll, List.foldl_append]

theorem safe_append (a b : List CEff) (ha : Safe a) (hb : Safe b) : Safe (a ++ b) := by
  intro t h j
  rw [List.take_append]
  by_cases hj : j ≤ a.length
  · have : j - a.length = 0 := by omega
    simp only [this, List.take_zero, List.append_nil]
    exact ha t h j
  · have hj' : a.length ≤ j := by omega
    rw [List.take_of_length_le hj', applyCAll_append]
    apply hb
    have := ha t h a.length
    rwa [List.take_length] at this

/-- **close, then rename**: one `AtomicFile` keeps the cache files in place complete at every crash point -/
theorem safe_atomicFile (i gen : Nat) (f : Id) : Safe (atomicFile false i gen f) := by
  intro t h j g
  have hne : ∀ g', CPath.main g' ≠ CPath.tmp i := by intro g' e; cases e
  simp only [atomicFile, Bool.false_eq_true, if_false]
  rcases j with _ | _ | _ | _ | _ | j
  · simpa [applyCAll] using h g
  · simpa [applyCAll, applyCEff, cget_cset, hne] using h g
  · simpa [applyCAll, applyCEff, cget_cset, hne] using h g
  · simpa [applyCAll, applyCEff, cget_cset, hne] using h g
  · simpa [applyCAll, applyCEff, cget_cset, hne] using h g
  · -- after the rename: the file in place holds what the closed temporary file held
    simp only [List.take_succ_cons, List.take_nil, applyCAll, List.foldl_cons, List.foldl_nil, applyCEff, cget_cset,
      if_true, cget_cdel]
    by_cases hg : CPath.main g = CPath.main f
    · simp [hg]
    · simp only [hg, if_false, hne g]
      simpa [cget_cset, hne] using h g

theorem safe_saveEffects (gen : Nat) (fl : List Id) : ∀ i0, Safe (saveEffects false i0 gen fl) := by
  induction fl with
  | nil => intro i0; exact safe_nil
  | cons f r ih => intro i0; exact safe_append _ _ (safe_atomicFile i0 gen f) (ih (i0 + 1))

theorem safe_cachePart_effectsG (atomic : Bool) (flavors : List Id) (gs : List (List Step)) :
    ∀ (fs : Fs) (i0 gen : Nat), Safe (cachePart (effectsG { atomic := atomic, renameFirst := false } flavors fs gs i0 gen)) := by
  induction gs with
  | nil => intro fs i0 gen; exact safe_nil
  | cons g r ih =>
    intro fs i0 gen
    simp only [effectsG, cachePart_append, cachePart_map_rec, List.nil_append]
    refine safe_append _ _ ?_ (ih _ _ _)
    split
    · exact safe_nil
    · rw [cachePart_map_cache]; exact safe_saveEffects _ _ _

theorem safe_cachePart_effects3 (atomic : Bool) (flavors : List Id) (db : Db3) (c : Cmd2) :
    Safe (cachePart (effects3 { atomic := atomic, renameFirst := false } flavors db c)) := by
  simp only [effects3, cachePart_append, cachePart_map_tab, List.append_nil]
  exact safe_cachePart_effectsG atomic flavors _ _ _ _

end EupsModel.FsEff
