import EupsModel.Lemmas.RecordText
/-! Text-level round trip of version files whose flavor names may carry a qualifier (`base:qual`) (C16).

`VersionFile.write` prints a key `base:qual` as `FLAVOR = base` + `QUALIFIERS = "qual"`; `_read` opens (or re-uses!) the
block `base` on the `FLAVOR` line and renames it to `base:qual` when it meets the non-empty `QUALIFIERS` line.  The
round trip therefore holds exactly when no block named `base` is already in the dictionary at that moment:
`QualOrder` = the keys are distinct and no unqualified flavor precedes a qualified one of the same base. -/
set_option linter.unusedSimpArgs false
set_option linter.unusedVariables false
namespace EupsModel.Record

/-- the part of a flavor key before the first `:` -/
def baseOf (fq : Str) : Str := fq.takeWhile (· != 58)

/-- a flavor key of the extended round trip: a clean unqualified name, or `base:qual` with `base` such a name and
`qual` clean and not starting with another `:` (the writer's pattern swallows a second colon) -/
def QualKey (fq : Str) : Prop :=
  CleanKey fq ∨ ∃ f q, fq = f ++ 58 :: q ∧ CleanKey f ∧ Clean q ∧ q.head? ≠ some 58

/-- the keys are distinct, and no unqualified flavor precedes a qualified flavor of the same base -/
def QualOrder (keys : List Str) : Prop :=
  keys.Pairwise (fun a b => a ≠ b ∧ (58 ∈ b → a ≠ baseOf b))

instance (keys : List Str) : Decidable (QualOrder keys) := by unfold QualOrder; infer_instance

theorem baseOf_plain (fq : Str) (h : 58 ∉ fq) : baseOf fq = fq := by
  apply takeWhile_all
  intro x hx
  have : x ≠ 58 := fun e => h (e ▸ hx)
  simp [this]

theorem baseOf_qual (f q : Str) (h : 58 ∉ f) : baseOf (f ++ 58 :: q) = f := by
  apply takeWhile_append_stop
  · intro x hx
    have : x ≠ 58 := fun e => h (e ▸ hx)
    simp [this]
  · simp

theorem splitFlavor_qual (f q : Str) (hf : CleanKey f) (hq : q.head? ≠ some 58) :
    splitFlavor (f ++ 58 :: q) = some (f, q) := by
  have hp : ∀ x ∈ f, (x != 58) = true := by
    intro x hx
    have : x ≠ 58 := fun e => hf.no58 (e ▸ hx)
    simp [this]
  have h1 : (f ++ 58 :: q).takeWhile (· != 58) = f := takeWhile_append_stop f 58 q hp (by simp)
  have h2 : (f ++ 58 :: q).dropWhile (· != 58) = 58 :: q := dropWhile_append_stop f 58 q hp (by simp)
  have h3 : f.isEmpty = false := by have := hf.clean.ne; cases f <;> simp_all
  unfold splitFlavor
  simp only [h1, h2, h3, Bool.false_eq_true, if_false]
  cases q with
  | nil => rfl
  | cons c r =>
    have : c ≠ 58 := fun e => hq (by simp [e])
    split
    · rename_i heq; simp at heq; exact absurd heq.1 this
    · rename_i heq; cases heq; rfl
    · rename_i h1 h2; exact (h2 _ rfl).elim

/-- `vStep_kv` with exactly the facts about the value it needs (the value may hold quote characters) -/
theorem vStep_kv' (st : VState) (n : Nat) (c : Nat) (K v : Str) (hK : Word (c :: K)) (h69 : c ≠ 69) (h71 : c ≠ 71)
    (hne : v ≠ []) (hlast : ∀ c, v.getLast? = some c → Str.isSpace c = false) (hno35 : 35 ∉ v)
    (hhead : ∀ c, v.head? = some c → Str.isSpace c = false) (hno10 : 10 ∉ v) :
    vStep st (List.replicate n 32 ++ ((c :: K) ++ 32 :: 61 :: 32 :: v)) = vKeyVal st (c :: K) v := by
  have hs := strip_kv n (c :: K) v hK (by simp) hne hlast
  have h35 : 35 ∉ (c :: K) ++ 32 :: 61 :: 32 :: v := by
    intro h
    simp only [List.mem_append, List.mem_cons] at h
    rcases h with h | h | h | h | h
    · exact word_no35 _ hK (by simpa using h)
    · cases h
    · cases h
    · cases h
    · exact hno35 h
  have hr := removeComment_id _ h35
  have hg := isGroupEnd_kv c K (32 :: 61 :: 32 :: v) h69 h71
  have hk := keyVal_kv (c :: K) v hK (by simp) hhead hno10
  simp only [vStep, hs, hr]
  simp only [List.cons_append] at hg hk ⊢
  simp [hg, hk]

theorem stripQuotePair_quoted (q : Str) : stripQuotePair (34 :: (q ++ [34])) = q := by
  simp [stripQuotePair, List.getLast?_append, List.dropLast_concat]

theorem ddel_none {β : Type} (l : List (Str × β)) (k : Str) (h : dget l k = none) : ddel l k = l := by
  induction l with
  | nil => rfl
  | cons x r ih =>
    obtain ⟨a, b⟩ := x
    by_cases ha : a = k
    · simp [dget, ha] at h
    · simp [dget, ha] at h
      have := ih h
      have hne : (a != k) = true := by simp [ha]
      simp only [ddel] at this ⊢
      simp [List.filter, hne, this]

theorem ddel_append {β : Type} (a b : List (Str × β)) (k : Str) : ddel (a ++ b) k = ddel a k ++ ddel b k := by
  simp [ddel]

theorem dset_append_two {β : Type} (l : List (Str × β)) (f k : Str) (v w : β) (h : dget l k = none) (hne : f ≠ k) :
    dset (l ++ [(f, v)]) k w = l ++ [(f, v), (k, w)] := by
  induction l with
  | nil => simp [dset, hne]
  | cons x r ih =>
    obtain ⟨a, b⟩ := x
    by_cases ha : a = k
    · simp [dget, ha] at h
    · simp [dget, ha] at h; simp [dset, ha, ih h]

/-- reading the printed block of a qualified flavor `f:q` appends it, provided neither `f:q` nor `f` is a key yet -/
theorem vLines_block_qual (st : VState) (f q : Str) (i : Info) (rest : List Str) (hf : CleanKey f) (hq : Clean q)
    (hq58 : q.head? ≠ some 58) (hi : GoodInfo i) (hprev : PrevOK st)
    (hfresh : dget st.cur.flavors (f ++ 58 :: q) = none) (hbase : dget st.cur.flavors f = none) :
    blockLines (f ++ 58 :: q) i = .ok ([[], lGroup, lFlavor ++ f, lQualifiers ++ q ++ [34]] ++ infoLines i) ∧
    vLines st (([[], lGroup, lFlavor ++ f, lQualifiers ++ q ++ [34]] ++ infoLines i) ++ rest) =
      vLines { cur := { st.cur with flavors := st.cur.flavors ++ [(f ++ 58 :: q, i)] }, flavor := some (f ++ 58 :: q) } rest := by
  constructor
  · simp [blockLines, splitFlavor_qual f q hf hq58, hasNone_good i hi.fields]
  · have h0 : vStep st [] = .ok st := vStep_skip st [] (by decide)
    have hG : vStep st lGroup = .ok st := by
      apply vStep_groupend st lGroup lGroup (by decide) (by decide) (by decide)
      exact hprev
    -- `FLAVOR = f`
    have hF : vStep st (lFlavor ++ f) = .ok { cur := { st.cur with flavors := st.cur.flavors ++ [(f, {})] }, flavor := some f } := by
      have hline : lFlavor ++ f = List.replicate 3 32 ++ ((70 :: [76, 65, 86, 79, 82]) ++ 32 :: 61 :: 32 :: f) := by
        simp [lFlavor]
      rw [hline, vStep_kv st 3 70 _ f (by decide) (by decide) (by decide) hf.clean]
      rw [vKeyVal_flavor st _ f (by decide) hf.clean.no34]
      simp [hbase]
    -- `QUALIFIERS = "q"`
    have hne : f ≠ f ++ 58 :: q := by
      intro e
      have := congrArg List.length e
      simp at this
    have hQ : vStep { cur := { st.cur with flavors := st.cur.flavors ++ [(f, {})] }, flavor := some f }
          (lQualifiers ++ q ++ [34])
        = .ok { cur := { st.cur with flavors := st.cur.flavors ++ [(f ++ 58 :: q, {})] }, flavor := some (f ++ 58 :: q) } := by
      have hline : lQualifiers ++ q ++ [34]
          = List.replicate 3 32 ++ ((81 :: [85, 65, 76, 73, 70, 73, 69, 82, 83]) ++ 32 :: 61 :: 32 :: (34 :: (q ++ [34]))) := by
        simp [lQualifiers]
      rw [hline, vStep_kv' _ 3 81 _ (34 :: (q ++ [34])) (by decide) (by decide) (by decide) (by simp)
        (by intro c hc
            have : (34 :: (q ++ [34])).getLast? = some 34 := by
              have : (34 :: (q ++ [34])) = (34 :: q) ++ [34] := by simp
              rw [this, List.getLast?_append]; simp
            rw [this] at hc; cases hc; decide)
        (by intro h
            simp only [List.mem_cons, List.mem_append, List.not_mem_nil, or_false] at h
            rcases h with h | h | h
            · cases h
            · exact hq.no35 h
            · cases h)
        (by intro c hc; simp at hc; subst hc; decide)
        (by intro h
            simp only [List.mem_cons, List.mem_append, List.not_mem_nil, or_false] at h
            rcases h with h | h | h
            · cases h
            · exact hq.no10 h
            · cases h)]
      have hlow : lowerS (81 :: [85, 65, 76, 73, 70, 73, 69, 82, 83]) = kQualifiers := by decide
      have e1 : kQualifiers ≠ kFile := by decide
      have e2 : kQualifiers ≠ kProduct := by decide
      have e3 : kQualifiers ≠ kVersion := by decide
      have e4 : kQualifiers ≠ kFlavor := by decide
      have hqe : q.isEmpty = false := by have := hq.ne; cases q <;> simp_all
      have hget : dget (st.cur.flavors ++ [(f, ({} : Info))]) f = some {} := dget_append_new _ _ _ hbase
      have hset : dset (st.cur.flavors ++ [(f, ({} : Info))]) (f ++ 58 :: q) {} =
          st.cur.flavors ++ [(f, ({} : Info)), (f ++ 58 :: q, ({} : Info))] := dset_append_two _ _ _ _ _ hfresh hne
      have hdel : ddel (st.cur.flavors ++ [(f, ({} : Info)), (f ++ 58 :: q, {})]) f
          = st.cur.flavors ++ [(f ++ 58 :: q, ({} : Info))] := by
        rw [ddel_append, ddel_none _ _ hbase]
        have : ((f ++ 58 :: q) != f) = true := by
          have : ¬ (f ++ 58 :: q = f) := fun e => hne e.symm
          simp [this]
        simp [ddel, List.filter, this]
      simp only [vKeyVal, hlow, e1, e2, e3, e4, if_false, stripQuotePair_quoted, hqe, Bool.false_eq_true, hget, hset, hdel,
        beq_self_eq_true, Bool.true_and]
      simp
    simp only [List.append_assoc, List.cons_append, List.nil_append, vLines, h0, hG, hF]
    rw [List.append_assoc] at hQ
    rw [hQ]
    simp only []
    have hspec := vLines_specs (fieldSpecs i) (f ++ 58 :: q) rest (fieldSpecs_ok i hi.fields)
      { cur := { st.cur with flavors := st.cur.flavors ++ [(f ++ 58 :: q, {})] }, flavor := some (f ++ 58 :: q) } {} rfl
      (dget_append_new _ _ _ hfresh)
    rw [infoLines_eq, hspec]
    simp only [specFold_fieldSpecs i hi.fields, dset_append_new _ _ _ _ hfresh]

theorem block_no10_qual (f q : Str) (i : Info) (hf : CleanKey f) (hq : Clean q) (hi : GoodInfo i) :
    ∀ l ∈ [[], lGroup, lFlavor ++ f, lQualifiers ++ q ++ [34]] ++ infoLines i, 10 ∉ l := by
  intro l hl
  simp only [List.mem_append, List.mem_cons, List.not_mem_nil, or_false] at hl
  rcases hl with (h | h | h | h) | h
  · subst h; simp
  · subst h; decide
  · subst h
    intro hm
    rcases List.mem_append.mp hm with h | h
    · revert h; decide
    · exact hf.clean.no10 h
  · subst h
    intro hm
    simp only [List.mem_append, List.mem_cons, List.not_mem_nil, or_false] at hm
    rcases hm with (h | h) | h
    · revert h; decide
    · exact hq.no10 h
    · cases h
  · exact infoLines_no10 i hi.fields l h

theorem mem58_qual (f q : Str) : 58 ∈ f ++ 58 :: q := by simp

/-- reading the printed blocks of a list of (possibly qualified) flavors appends them all -/
theorem vLines_blocks_qual (fl : List (Str × Info)) (rest : List Str) :
    ∀ st : VState, PrevOK st → (∀ x ∈ fl, QualKey x.1 ∧ GoodInfo x.2) → QualOrder (fl.map (·.1)) →
      (∀ x ∈ fl, dget st.cur.flavors x.1 = none ∧ (58 ∈ x.1 → dget st.cur.flavors (baseOf x.1) = none)) →
      ∃ ls, blocksLines fl = .ok ls ∧ (∀ l ∈ ls, 10 ∉ l) ∧ ∃ st' : VState, vLines st (ls ++ rest) = vLines st' rest ∧
        st'.cur = { st.cur with flavors := st.cur.flavors ++ fl } ∧ PrevOK st' := by
  induction fl with
  | nil =>
    intro st hp _ _ _
    exact ⟨[], rfl, by simp, st, rfl, by simp, hp⟩
  | cons x r ih =>
    intro st hp hgood hord hfresh
    obtain ⟨fq, i⟩ := x
    have hx := hgood (fq, i) (by simp)
    simp only [QualOrder, List.map_cons, List.pairwise_cons] at hord
    have hfq := hfresh (fq, i) (by simp)
    simp only at hfq
    -- the lines of the first block and the state after it, for either kind of key
    have hblock : ∃ bls, blockLines fq i = .ok bls ∧ (∀ l ∈ bls, 10 ∉ l) ∧ fq ≠ [] ∧
        ∀ rest', vLines st (bls ++ rest') =
          vLines { cur := { st.cur with flavors := st.cur.flavors ++ [(fq, i)] }, flavor := some fq } rest' := by
      rcases hx.1 with hk | ⟨f, q, rfl, hf, hq, hq58⟩
      · refine ⟨_, (vLines_block st fq i [] hk hx.2 hp hfq.1).1, block_no10 fq i hk hx.2, hk.clean.ne, ?_⟩
        intro rest'
        exact (vLines_block st fq i rest' hk hx.2 hp hfq.1).2
      · have hb : dget st.cur.flavors f = none := by
          have := hfq.2 (mem58_qual f q)
          rwa [baseOf_qual f q hf.no58] at this
        refine ⟨_, (vLines_block_qual st f q i [] hf hq hq58 hx.2 hp hfq.1 hb).1, block_no10_qual f q i hf hq hx.2,
          by simp, ?_⟩
        intro rest'
        exact (vLines_block_qual st f q i rest' hf hq hq58 hx.2 hp hfq.1 hb).2
    obtain ⟨bls, hbl, hbno, hfqne, hbv⟩ := hblock
    have hp1 : PrevOK { cur := { st.cur with flavors := st.cur.flavors ++ [(fq, i)] }, flavor := some fq } := by
      right
      exact ⟨fq, i, rfl, hfqne, dget_append_new _ _ _ hfq.1, fixup_good i hx.2⟩
    have hfresh1 : ∀ y ∈ r, dget (st.cur.flavors ++ [(fq, i)]) y.1 = none ∧
        (58 ∈ y.1 → dget (st.cur.flavors ++ [(fq, i)]) (baseOf y.1) = none) := by
      intro y hy
      have hrel := hord.1 y.1 (List.mem_map_of_mem hy)
      have hy' := hfresh y (by simp [hy])
      constructor
      · rw [dget_append_old _ _ _ _ (fun e => hrel.1 e.symm)]
        exact hy'.1
      · intro h58
        rw [dget_append_old _ _ _ _ (fun e => hrel.2 h58 e.symm)]
        exact hy'.2 h58
    obtain ⟨ls, hls, hno, st', hst', hcur, hp'⟩ := ih { cur := { st.cur with flavors := st.cur.flavors ++ [(fq, i)] }, flavor := some fq }
      hp1 (fun y hy => hgood y (by simp [hy])) hord.2 hfresh1
    refine ⟨bls ++ ls, ?_, ?_, st', ?_, ?_, hp'⟩
    · simp only [blocksLines, hbl, hls]
    · intro l hl
      rcases List.mem_append.mp hl with h | h
      · exact hbno l h
      · exact hno l h
    · rw [List.append_assoc, hbv, hst']
    · rw [hcur]; simp

/-- a version record as the extended round-trip theorem covers it: as `GoodVRec`, but the flavor names may be
qualified, in an order that satisfies `QualOrder` -/
structure GoodVRecQ (r : VRec) : Prop where
  name : ∃ n, r.name = some n ∧ Clean n
  version : ∃ v, r.version = some v ∧ Clean v
  nonempty : r.flavors ≠ []
  order : QualOrder (r.flavors.map (·.1))
  blocks : ∀ x ∈ r.flavors, QualKey x.1 ∧ GoodInfo x.2

/-- **Version file round trip with qualified flavors**, text level. -/
theorem text_roundtrip_version_qual (r : VRec) (h : GoodVRecQ r) (nm vs : Option Str)
    (hnm : nm = none ∨ nm = r.name) (hvs : vs = none ∨ vs = r.version) :
    ∃ text, printVersion r = .ok (some text) ∧ parseVersion nm vs text = .ok r := by
  obtain ⟨n, hn, hcn⟩ := h.name
  obtain ⟨v, hv, hcv⟩ := h.version
  obtain ⟨rn, rv, fl⟩ := r
  simp only at hn hv
  subst hn hv
  obtain ⟨ls, hp, hno, st, hst, hcur⟩ := vLines_record_core n v fl hcn hcv h.nonempty
    (vLines_blocks_qual fl ([lEnd] ++ [[]])
      { cur := { name := some n, version := some v, flavors := [] }, flavor := none } (Or.inl rfl) h.blocks h.order
      (by intro x _; simp [dget])) nm vs hnm hvs
  refine ⟨unlines ls, by simp [printVersion, hp], ?_⟩
  simp only [parseVersion, splitOn_unlines ls hno, hst, hcur]

/-- the unqualified alphabet is the special case: distinct keys without `:` are in `QualOrder` -/
theorem qualOrder_of_plain (keys : List Str) (hnd : keys.Nodup) (hp : ∀ k ∈ keys, 58 ∉ k) : QualOrder keys := by
  unfold QualOrder
  induction keys with
  | nil => exact List.Pairwise.nil
  | cons a r ih =>
    simp only [List.nodup_cons] at hnd
    refine List.Pairwise.cons ?_ (ih hnd.2 (fun k hk => hp k (by simp [hk])))
    intro b hb
    exact ⟨fun e => hnd.1 (e ▸ hb), fun h58 => absurd h58 (hp b (by simp [hb]))⟩

theorem goodVRecQ_of_good (r : VRec) (h : GoodVRec r) : GoodVRecQ r :=
  ⟨h.name, h.version, h.nonempty,
   qualOrder_of_plain _ h.nodup (by
     intro k hk
     obtain ⟨x, hx, rfl⟩ := List.mem_map.mp hk
     exact (h.blocks x hx).1.no58),
   fun x hx => ⟨Or.inl (h.blocks x hx).1, (h.blocks x hx).2⟩⟩

/-! ## Chain files with qualified flavors -/

theorem cStep_kv' (st : CState) (n : Nat) (c : Nat) (K v : Str) (hK : Word (c :: K))
    (hhead : ∀ c, v.head? = some c → Str.isSpace c = false) (hno10 : 10 ∉ v) :
    cStep st (List.replicate n 32 ++ ((c :: K) ++ 32 :: 61 :: 32 :: v)) = cKeyVal st (c :: K) v := by
  have hc : Str.isSpace c = false := isWord_not_space c (hK c (by simp))
  have hs : stripL (List.replicate n 32 ++ ((c :: K) ++ 32 :: 61 :: 32 :: v)) = (c :: K) ++ 32 :: 61 :: 32 :: v := by
    unfold stripL
    have := dropWhile_append_stop (p := Str.isSpace) (List.replicate n 32) c (K ++ 32 :: 61 :: 32 :: v)
      (by intro x hx; simp at hx; rw [hx.2]; decide) hc
    simpa using this
  have hk := keyVal_kv (c :: K) v hK (by simp) hhead hno10
  have hc35 : c ≠ 35 := by
    intro e; subst e
    have := hK 35 (by simp)
    revert this; decide
  simp only [cStep, hs]
  simp only [List.cons_append] at hk ⊢
  simp [hk, hc35]

theorem stripQuotesAll_quoted (q : Str) (h : 34 ∉ q) : stripQuotesAll (34 :: (q ++ [34])) = q := by
  by_cases hq : q = []
  · subst hq; decide
  have h1 : (34 :: (q ++ [34])).dropWhile (· == 34) = q ++ [34] := by
    cases q with
    | nil => exact absurd rfl hq
    | cons c r =>
      have : c ≠ 34 := fun e => h (by simp [e])
      simp [List.dropWhile, this]
  have h2 : ((q ++ [34]).reverse).dropWhile (· == 34) = q.reverse := by
    rw [List.reverse_append]
    simp only [List.reverse_cons, List.reverse_nil, List.nil_append, List.singleton_append, List.dropWhile]
    simp only [beq_self_eq_true]
    apply dropWhile_head
    intro c hc
    have hm : c ∈ q := by
      have := List.mem_of_mem_head? hc
      simpa using this
    have : c ≠ 34 := fun e => h (e ▸ hm)
    simp [this]
  unfold stripQuotesAll
  rw [h1, h2, List.reverse_reverse]

/-- reading the printed chain block of a qualified flavor `f:q` appends it -/
theorem cLines_block_qual (st : CState) (f q v : Str) (i : CInfo) (rest : List Str) (hf : CleanKey f) (hq : Clean q)
    (hq58 : q.head? ≠ some 58) (hi : GoodCInfo i) (hv : i.version = .val v) (hcv : Clean v)
    (hfresh : dget st.cur.flavors (f ++ 58 :: q) = none) (hbase : dget st.cur.flavors f = none) :
    cBlockLines (f ++ 58 :: q) i = .ok ([[], lHGroup, lFlavor ++ f, lIVersion ++ v, lQualifiers ++ q ++ [34]] ++ cInfoLines i ++ [lHEnd]) ∧
    cLines st (([[], lHGroup, lFlavor ++ f, lIVersion ++ v, lQualifiers ++ q ++ [34]] ++ cInfoLines i ++ [lHEnd]) ++ rest) =
      cLines { cur := { st.cur with flavors := st.cur.flavors ++ [(f ++ 58 :: q, i)] }, flavor := some (f ++ 58 :: q) } rest := by
  constructor
  · simp [cBlockLines, splitFlavor_qual f q hf hq58, hv]
  · have h0 : ∀ st' : CState, cStep st' [] = .ok st' := fun st' => cStep_skip st' [] (by decide)
    have hG : ∀ st' : CState, cStep st' lHGroup = .ok st' := fun st' => cStep_skip st' lHGroup (by decide)
    have hE : ∀ st' : CState, cStep st' lHEnd = .ok st' := fun st' => cStep_skip st' lHEnd (by decide)
    have hF : cStep st (lFlavor ++ f) = .ok { cur := { st.cur with flavors := st.cur.flavors ++ [(f, {})] }, flavor := some f } := by
      have hline : lFlavor ++ f = List.replicate 3 32 ++ ((70 :: [76, 65, 86, 79, 82]) ++ 32 :: 61 :: 32 :: f) := by
        simp [lFlavor]
      rw [hline, cStep_kv st 3 70 _ f (by decide) hf.clean, cKeyVal_flavor st _ f (by decide) hf.clean.no34,
        dset_absent _ _ _ hbase]
    have hne : f ≠ f ++ 58 :: q := by
      intro e
      have := congrArg List.length e
      simp at this
    -- `QUALIFIERS = "q"` renames the block
    have hQ : ∀ j : CInfo, cStep { cur := { st.cur with flavors := st.cur.flavors ++ [(f, j)] }, flavor := some f }
          (lQualifiers ++ q ++ [34])
        = .ok { cur := { st.cur with flavors := st.cur.flavors ++ [(f ++ 58 :: q, j)] }, flavor := some (f ++ 58 :: q) } := by
      intro j
      have hline : lQualifiers ++ q ++ [34]
          = List.replicate 3 32 ++ ((81 :: [85, 65, 76, 73, 70, 73, 69, 82, 83]) ++ 32 :: 61 :: 32 :: (34 :: (q ++ [34]))) := by
        simp [lQualifiers]
      rw [hline, cStep_kv' _ 3 81 _ (34 :: (q ++ [34])) (by decide)
        (by intro c hc; simp at hc; subst hc; decide)
        (by intro h
            simp only [List.mem_cons, List.mem_append, List.not_mem_nil, or_false] at h
            rcases h with h | h | h
            · cases h
            · exact hq.no10 h
            · cases h)]
      have hlow : lowerS (81 :: [85, 65, 76, 73, 70, 73, 69, 82, 83]) = kQualifiers := by decide
      have e1 : kQualifiers ≠ kFile := by decide
      have e2 : kQualifiers ≠ kProduct := by decide
      have e3 : kQualifiers ≠ kChain := by decide
      have e4 : kQualifiers ≠ kFlavor := by decide
      have hqe : q.isEmpty = false := by have := hq.ne; cases q <;> simp_all
      have hget : dget (st.cur.flavors ++ [(f, j)]) f = some j := dget_append_new _ _ _ hbase
      have hset : dset (st.cur.flavors ++ [(f, j)]) (f ++ 58 :: q) j =
          st.cur.flavors ++ [(f, j), (f ++ 58 :: q, j)] := dset_append_two _ _ _ _ _ hfresh hne
      have hdel : ddel (st.cur.flavors ++ [(f, j), (f ++ 58 :: q, j)]) f
          = st.cur.flavors ++ [(f ++ 58 :: q, j)] := by
        rw [ddel_append, ddel_none _ _ hbase]
        have : ((f ++ 58 :: q) != f) = true := by
          have : ¬ (f ++ 58 :: q = f) := fun e => hne e.symm
          simp [this]
        simp [ddel, List.filter, this]
      simp only [cKeyVal, hlow, e1, e2, e3, e4, if_false, stripQuotesAll_quoted q hq.no34, hqe, Bool.false_eq_true, hget,
        hset, hdel, beq_self_eq_true, Bool.true_and]
      simp
    simp only [List.append_assoc, List.cons_append, List.nil_append, cLines, h0, hG, hF]
    -- VERSION = v
    have hget0 : dget (st.cur.flavors ++ [(f, ({} : CInfo))]) f = some {} := dget_append_new _ _ _ hbase
    have hVer := cStep_fld { cur := { st.cur with flavors := st.cur.flavors ++ [(f, {})] }, flavor := some f } f {}
      lIVersion kVersion v clabelOK_version rfl hget0 hcv
    simp only [] at hVer
    rw [hVer]
    simp only [dset_append_new _ _ _ _ hbase]
    have hQ1 := hQ (({} : CInfo).set kVersion v)
    rw [List.append_assoc] at hQ1
    rw [hQ1]
    simp only []
    have hget1 : dget (st.cur.flavors ++ [(f ++ 58 :: q, ({} : CInfo).set kVersion v)]) (f ++ 58 :: q)
        = some (({} : CInfo).set kVersion v) := dget_append_new _ _ _ hfresh
    have hspec := cLines_specs (cfieldSpecs i) (f ++ 58 :: q) ([lHEnd] ++ rest) (cfieldSpecs_ok i hi)
      { cur := { st.cur with flavors := st.cur.flavors ++ [(f ++ 58 :: q, ({} : CInfo).set kVersion v)] },
        flavor := some (f ++ 58 :: q) }
      (({} : CInfo).set kVersion v) rfl hget1
    rw [cInfoLines_eq]
    simp only [List.append_assoc, List.cons_append, List.nil_append] at hspec ⊢
    rw [hspec]
    simp only [cspecFold_cfieldSpecs i hi v hv, dset_append_new _ _ _ _ hfresh, cLines, hE]

theorem cblock_no10_qual (f q v : Str) (i : CInfo) (hf : CleanKey f) (hq : Clean q) (hi : GoodCInfo i) (hcv : Clean v) :
    ∀ l ∈ [[], lHGroup, lFlavor ++ f, lIVersion ++ v, lQualifiers ++ q ++ [34]] ++ cInfoLines i ++ [lHEnd], 10 ∉ l := by
  intro l hl
  simp only [List.mem_append, List.mem_cons, List.not_mem_nil, or_false] at hl
  rcases hl with ((h | h | h | h | h) | h) | h
  · subst h; simp
  · subst h; decide
  · subst h
    intro hm
    rcases List.mem_append.mp hm with h | h
    · revert h; decide
    · exact hf.clean.no10 h
  · subst h
    intro hm
    rcases List.mem_append.mp hm with h | h
    · revert h; decide
    · exact hcv.no10 h
  · subst h
    intro hm
    simp only [List.mem_append, List.mem_cons, List.not_mem_nil, or_false] at hm
    rcases hm with (h | h) | h
    · revert h; decide
    · exact hq.no10 h
    · cases h
  · rw [cInfoLines_eq] at h
    simp only [cspecLines, List.mem_flatMap] at h
    obtain ⟨s, hs, hls⟩ := h
    have := cfieldSpecs_ok i hi s hs
    exact cfldLine_no10 s.1 s.2.1 s.2.2.1 s.2.2.2 this.1 this.2 l hls
  · subst h; decide

theorem cLines_blocks_qual (fl : List (Str × CInfo)) (rest : List Str) :
    ∀ st : CState, (∀ x ∈ fl, QualKey x.1 ∧ GoodCInfo x.2) → QualOrder (fl.map (·.1)) →
      (∀ x ∈ fl, dget st.cur.flavors x.1 = none ∧ (58 ∈ x.1 → dget st.cur.flavors (baseOf x.1) = none)) →
      ∃ ls, cBlocksLines fl = .ok ls ∧ (∀ l ∈ ls, 10 ∉ l) ∧ ∃ st' : CState, cLines st (ls ++ rest) = cLines st' rest ∧
        st'.cur = { st.cur with flavors := st.cur.flavors ++ fl } := by
  induction fl with
  | nil =>
    intro st _ _ _
    exact ⟨[], rfl, by simp, st, rfl, by simp⟩
  | cons x r ih =>
    intro st hgood hord hfresh
    obtain ⟨fq, i⟩ := x
    have hx := hgood (fq, i) (by simp)
    obtain ⟨v, hv, hcv⟩ := hx.2.version
    simp only [QualOrder, List.map_cons, List.pairwise_cons] at hord
    have hfq := hfresh (fq, i) (by simp)
    simp only at hfq
    have hblock : ∃ bls, cBlockLines fq i = .ok bls ∧ (∀ l ∈ bls, 10 ∉ l) ∧
        ∀ rest', cLines st (bls ++ rest') =
          cLines { cur := { st.cur with flavors := st.cur.flavors ++ [(fq, i)] }, flavor := some fq } rest' := by
      rcases hx.1 with hk | ⟨f, q, rfl, hf, hq, hq58⟩
      · refine ⟨_, (cLines_block st fq v i [] hk hx.2 hv hcv hfq.1).1, cblock_no10 fq v i hk hx.2 hcv, ?_⟩
        intro rest'
        exact (cLines_block st fq v i rest' hk hx.2 hv hcv hfq.1).2
      · have hb : dget st.cur.flavors f = none := by
          have := hfq.2 (mem58_qual f q)
          rwa [baseOf_qual f q hf.no58] at this
        refine ⟨_, (cLines_block_qual st f q v i [] hf hq hq58 hx.2 hv hcv hfq.1 hb).1,
          cblock_no10_qual f q v i hf hq hx.2 hcv, ?_⟩
        intro rest'
        exact (cLines_block_qual st f q v i rest' hf hq hq58 hx.2 hv hcv hfq.1 hb).2
    obtain ⟨bls, hbl, hbno, hbv⟩ := hblock
    have hfresh1 : ∀ y ∈ r, dget (st.cur.flavors ++ [(fq, i)]) y.1 = none ∧
        (58 ∈ y.1 → dget (st.cur.flavors ++ [(fq, i)]) (baseOf y.1) = none) := by
      intro y hy
      have hrel := hord.1 y.1 (List.mem_map_of_mem hy)
      have hy' := hfresh y (by simp [hy])
      constructor
      · rw [dget_append_old _ _ _ _ (fun e => hrel.1 e.symm)]
        exact hy'.1
      · intro h58
        rw [dget_append_old _ _ _ _ (fun e => hrel.2 h58 e.symm)]
        exact hy'.2 h58
    obtain ⟨ls, hls, hno, st', hst', hcur⟩ := ih { cur := { st.cur with flavors := st.cur.flavors ++ [(fq, i)] }, flavor := some fq }
      (fun y hy => hgood y (by simp [hy])) hord.2 hfresh1
    refine ⟨bls ++ ls, ?_, ?_, st', ?_, ?_⟩
    · simp only [cBlocksLines, hbl, hls]
    · intro l hl
      rcases List.mem_append.mp hl with h | h
      · exact hbno l h
      · exact hno l h
    · rw [List.append_assoc, hbv, hst']
    · rw [hcur]; simp

/-- a chain record as the extended round-trip theorem covers it -/
structure GoodCRecQ (r : CRec) : Prop where
  name : ∃ n, r.name = some n ∧ Clean n
  tag : ∃ t, r.tag = some t ∧ Clean t
  nonempty : r.flavors ≠ []
  order : QualOrder (r.flavors.map (·.1))
  blocks : ∀ x ∈ r.flavors, QualKey x.1 ∧ GoodCInfo x.2

/-- **Chain file round trip with qualified flavors**, text level. -/
theorem text_roundtrip_chain_qual (r : CRec) (h : GoodCRecQ r) (nm tg : Option Str)
    (hnm : nm = none ∨ nm = r.name) (htg : tg = none ∨ tg = r.tag) :
    ∃ text, printChain r = .ok (some text) ∧ parseChain nm tg text = .ok r := by
  obtain ⟨n, hn, hcn⟩ := h.name
  obtain ⟨t, ht, hct⟩ := h.tag
  obtain ⟨rn, rt, fl⟩ := r
  simp only at hn ht
  subst hn ht
  obtain ⟨ls, hp, hno, st, hst, hcur⟩ := cLines_record_core n t fl hcn hct h.nonempty
    (cLines_blocks_qual fl [[]]
      { cur := { name := some n, tag := some t, flavors := [] }, flavor := none } h.blocks h.order
      (by intro x _; simp [dget])) nm tg hnm htg
  refine ⟨unlines ls, by simp [printChain, hp], ?_⟩
  simp only [parseChain, splitOn_unlines ls hno, hst, hcur]

theorem goodCRecQ_of_good (r : CRec) (h : GoodCRec r) : GoodCRecQ r :=
  ⟨h.name, h.tag, h.nonempty,
   qualOrder_of_plain _ h.nodup (by
     intro k hk
     obtain ⟨x, hx, rfl⟩ := List.mem_map.mp hk
     exact (h.blocks x hx).1.no58),
   fun x hx => ⟨Or.inl (h.blocks x hx).1, (h.blocks x hx).2⟩⟩

end EupsModel.Record
