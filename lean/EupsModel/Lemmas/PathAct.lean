import EupsModel.Lemmas.PathAlgMulti
import EupsModel.Model.PathAct
/-! Lemmas about `Model/PathAct.lean`: literal substitution (`replaceAll`), the product macros
(`expandMacros`, `legacySyn`), and the execution of table actions on the `Eups` state (`exec`). -/
namespace EupsModel.PathAct
open EupsModel EupsModel.PathAlg

/-! ## A. literal substitution -/

theorem replaceAllGo_nil (pat repl : Str) (k : Nat) : replaceAllGo pat repl k [] = [] := by
  cases k <;> simp [replaceAllGo]

/-- a character different from the first character of the pattern is copied -/
theorem replaceAllGo_cons_ne (c x : Nat) (ps repl xs : Str) (h : x ≠ c) :
    replaceAllGo (c :: ps) repl 0 (x :: xs) = x :: replaceAllGo (c :: ps) repl 0 xs := by
  simp [replaceAllGo, isPrefixOf_head_ne c x ps xs h]

/-- a position where the pattern does not match is copied -/
theorem replaceAllGo_cons_nomatch (pat repl : Str) (x : Nat) (xs : Str)
    (h : pat.isPrefixOf (x :: xs) = false) :
    replaceAllGo pat repl 0 (x :: xs) = x :: replaceAllGo pat repl 0 xs := by
  simp [replaceAllGo, h]

theorem replaceAllGo_free (c : Nat) (ps repl t rest : Str) (h : c ∉ t) :
    replaceAllGo (c :: ps) repl 0 (t ++ rest) = t ++ replaceAllGo (c :: ps) repl 0 rest := by
  induction t with
  | nil => simp
  | cons x xs ih =>
    have hx : x ≠ c := fun e => h (by simp [e])
    have hxs : c ∉ xs := fun e => h (by simp [e])
    rw [List.cons_append, replaceAllGo_cons_ne c x ps repl _ hx, ih hxs]
    simp

theorem replaceAll_no_head (c : Nat) (ps repl s : Str) (h : c ∉ s) : replaceAll (c :: ps) repl s = s := by
  have := replaceAllGo_free c ps repl s [] h
  simpa [replaceAll, replaceAllGo_nil] using this

theorem replaceAllGo_skip (pat repl ds rest : Str) :
    replaceAllGo pat repl ds.length (ds ++ rest) = replaceAllGo pat repl 0 rest := by
  induction ds with
  | nil => simp
  | cons y ys ih => simp [replaceAllGo, ih]

theorem replaceAll_prefix (c : Nat) (ps repl rest : Str) :
    replaceAll (c :: ps) repl ((c :: ps) ++ rest) = repl ++ replaceAll (c :: ps) repl rest := by
  have hp : (c :: ps).isPrefixOf (c :: (ps ++ rest)) = true := isPrefixOf_append_self (c :: ps) rest
  unfold replaceAll
  rw [List.cons_append, replaceAllGo, if_pos hp]
  simp only [List.length_cons, Nat.add_sub_cancel]
  rw [replaceAllGo_skip]

/-- the substitution distributes over a text free of the pattern's first character followed by an occurrence -/
theorem replaceAll_free_then_prefix (c : Nat) (ps repl t rest : Str) (h : c ∉ t) :
    replaceAll (c :: ps) repl (t ++ (c :: ps) ++ rest) = t ++ repl ++ replaceAll (c :: ps) repl rest := by
  have := replaceAll_prefix c ps repl rest
  unfold replaceAll at *
  rw [List.append_assoc, replaceAllGo_free c ps repl t _ h, this]
  simp

/-- only the head of the text is the pattern's first character, and the pattern does not match there -/
theorem replaceAll_head_only (c : Nat) (ps repl : Str) (x : Nat) (xs : Str)
    (hnp : (c :: ps).isPrefixOf (x :: xs) = false) (h : c ∉ xs) :
    replaceAll (c :: ps) repl (x :: xs) = x :: xs := by
  unfold replaceAll
  rw [replaceAllGo_cons_nomatch _ _ _ _ hnp]
  have := replaceAll_no_head c ps repl xs h
  unfold replaceAll at this
  rw [this]

end EupsModel.PathAct
