import EupsModel.Lemmas.PathAlgMulti
import EupsModel.Model.PathAct
/-! Lemmas about `Model/PathAct.lean`: literal substitution (`replaceAll`), the product macros
(`expandMacros`, `legacySyn`), and the execution of table actions on the `Eups` state (`exec`). -/
namespace EupsModel.PathAct
open EupsModel EupsModel.PathAlg

/-! ## A. literal substitution -/

theorem replaceAllGo_nil (pat repl : Str) (k : Nat) : replaceAllGo pat repl k [] = [] := by
  cases k <;> simp [replaceAllGo]

/-- a character different from the first character of the pattern is copied -/
theorem replaceAllGo_cons_ne (c x : Nat) (ps repl xs : Str) (h : x ≠ c) :
    replaceAllGo (c :: ps) repl 0 (x :: xs) = x :: replaceAllGo (c :: ps) repl 0 xs := by
  simp [replaceAllGo, isPrefixOf_head_ne c x ps xs h]

/-- a position where the pattern does not match is copied -/
theorem replaceAllGo_cons_nomatch (pat repl : Str) (x : Nat) (xs : Str)
    (h : pat.isPrefixOf (x :: xs) = false) :
    replaceAllGo pat repl 0 (x :: xs) = x :: replaceAllGo pat repl 0 xs := by
  simp [replaceAllGo, h]

theorem replaceAllGo_free (c : Nat) (ps repl t rest : Str) (h : c ∉ t) :
    replaceAllGo (c :: ps) repl 0 (t ++ rest) = t ++ replaceAllGo (c :: ps) repl 0 rest := by
  induction t with
  | nil => simp
  | cons x xs ih =>
    have hx : x ≠ c := fun e => h (by simp [e])
    have hxs : c ∉ xs := fun e => h (by simp [e])
    rw [List.cons_append, replaceAllGo_cons_ne c x ps repl _ hx, ih hxs]
    simp

theorem replaceAll_no_head (c : Nat) (ps repl s : Str) (h : c ∉ s) : replaceAll (c :: ps) repl s = s := by
  have := replaceAllGo_free c ps repl s [] h
  simpa [replaceAll, replaceAllGo_nil] using this

theorem replaceAllGo_skip (pat repl ds rest : Str) :
    replaceAllGo pat repl ds.length (ds ++ rest) = replaceAllGo pat repl 0 rest := by
  induction ds with
  | nil => simp
  | cons y ys ih => simp [replaceAllGo, ih]

theorem replaceAll_prefix (c : Nat) (ps repl rest : Str) :
    replaceAll (c :: ps) repl ((c :: ps) ++ rest) = repl ++ replaceAll (c :: ps) repl rest := by
  have hp : (c :: ps).isPrefixOf (c :: (ps ++ rest)) = true := isPrefixOf_append_self (c :: ps) rest
  unfold replaceAll
  rw [List.cons_append, replaceAllGo, if_pos hp]
  simp only [List.length_cons, Nat.add_sub_cancel]
  rw [replaceAllGo_skip]

/-- the substitution distributes over a text free of the pattern's first character followed by an occurrence -/
theorem replaceAll_free_then_prefix (c : Nat) (ps repl t rest : Str) (h : c ∉ t) :
    replaceAll (c :: ps) repl (t ++ (c :: ps) ++ rest) = t ++ repl ++ replaceAll (c :: ps) repl rest := by
  have := replaceAll_prefix c ps repl rest
  unfold replaceAll at *
  rw [List.append_assoc, replaceAllGo_free c ps repl t _ h, this]
  simp

/-- only the head of the text is the pattern's first character, and the pattern does not match there -/
theorem replaceAll_head_only (c : Nat) (ps repl : Str) (x : Nat) (xs : Str)
    (hnp : (c :: ps).isPrefixOf (x :: xs) = false) (h : c ∉ xs) :
    replaceAll (c :: ps) repl (x :: xs) = x :: xs := by
  unfold replaceAll
  rw [replaceAllGo_cons_nomatch _ _ _ _ hnp]
  have := replaceAll_no_head c ps repl xs h
  unfold replaceAll at this
  rw [this]

/-! ## B. the macros leave `$`-free text alone -/

theorem mPRODUCTS_eq : mPRODUCTS = [36,123,80,82,79,68,85,67,84,83,125] := by decide
theorem mDIR_eq : mDIR = [36,123,80,82,79,68,85,67,84,95,68,73,82,125] := by decide
theorem mDIRopt_eq : mDIRopt = [36,63,123,80,82,79,68,85,67,84,95,68,73,82,125] := by decide
theorem mEXTRA_eq : mEXTRA = [36,123,80,82,79,68,85,67,84,95,68,73,82,95,69,88,84,82,65,125] := by decide
theorem mEXTRAopt_eq : mEXTRAopt = [36,63,123,80,82,79,68,85,67,84,95,68,73,82,95,69,88,84,82,65,125] := by decide
theorem mFLAVOR_eq : mFLAVOR = [36,123,80,82,79,68,85,67,84,95,70,76,65,86,79,82,125] := by decide
theorem mNAME_eq : mNAME = [36,123,80,82,79,68,85,67,84,95,78,65,77,69,125] := by decide
theorem mVERSION_eq : mVERSION = [36,123,80,82,79,68,85,67,84,95,86,69,82,83,73,79,78,125] := by decide
theorem mUPS_eq : mUPS = [36,123,85,80,83,95,68,73,82,125] := by decide
theorem mNameDir_eq (name : Str) : mNameDir name = 36 :: 123 :: (upper name ++ Str.ofString "_DIR}") := rfl

/-- a pattern that starts with `$` does nothing to a text without `$` -/
theorem replaceAll_no_dollar (pat repl s : Str) (hp : pat.head? = some 36) (h : 36 ∉ s) :
    replaceAll pat repl s = s := by
  cases pat with
  | nil => simp at hp
  | cons c ps =>
    simp at hp; subst hp
    exact replaceAll_no_head 36 ps repl s h

theorem pdirAt_ne (c : Nat) (cs : Str) (h : c ≠ 36) : pdirAt (c :: cs) = none := by
  unfold pdirAt
  rw [mDIR_eq, mDIRopt_eq, mEXTRA_eq, mEXTRAopt_eq]
  simp [isPrefixOf_head_ne 36 c _ cs h]

theorem firstPdir_no_dollar (s : Str) (h : 36 ∉ s) : firstPdir s = none := by
  induction s with
  | nil => rfl
  | cons c cs ih =>
    have hc : c ≠ 36 := fun e => h (by simp [e])
    have hcs : 36 ∉ cs := fun e => h (by simp [e])
    simp [firstPdir, pdirAt_ne c cs hc, ih hcs]

theorem expandPdir_no_dollar (p : ProdInfo) (s : Str) (h : 36 ∉ s) : expandPdir p s = s := by
  simp [expandPdir, firstPdir_no_dollar s h]

/-- one conditional step of `expandEupsVariables`: `if o: value = re.sub(pat, o, value)` -/
def optRepl (pat : Str) (o : Option Str) (v : Str) : Str :=
  match truthy o with
  | some r => replaceAll pat r v
  | none => v

theorem optRepl_id (pat : Str) (o : Option Str) (v : Str) (h : ∀ r, replaceAll pat r v = v) :
    optRepl pat o v = v := by
  unfold optRepl; split
  · exact h _
  · rfl

/-- `expandMacros` as a pipeline of its seven steps -/
theorem expandMacros_eq (p : ProdInfo) (v : Str) :
    expandMacros p v =
      replaceAll mUPS p.upsDir (optRepl mVERSION p.version (replaceAll mNAME p.name
        (optRepl mFLAVOR p.flavor (optRepl (mNameDir p.name) p.dir
          (expandPdir p (optRepl mPRODUCTS p.root v)))))) := rfl

theorem head_mPRODUCTS : mPRODUCTS.head? = some 36 := by decide
theorem head_mFLAVOR : mFLAVOR.head? = some 36 := by decide
theorem head_mNAME : mNAME.head? = some 36 := by decide
theorem head_mVERSION : mVERSION.head? = some 36 := by decide
theorem head_mUPS : mUPS.head? = some 36 := by decide
theorem head_mNameDir (name : Str) : (mNameDir name).head? = some 36 := rfl

/-- the steps after the PRODUCT_DIR step leave `$`-free text alone -/
theorem tailSteps_no_dollar (p : ProdInfo) (s : Str) (h : 36 ∉ s) :
    replaceAll mUPS p.upsDir (optRepl mVERSION p.version (replaceAll mNAME p.name
        (optRepl mFLAVOR p.flavor (optRepl (mNameDir p.name) p.dir s)))) = s := by
  have r : ∀ pat repl, pat.head? = some 36 → replaceAll pat repl s = s :=
    fun pat repl hp => replaceAll_no_dollar pat repl s hp h
  rw [optRepl_id _ _ _ (fun x => r _ x (head_mNameDir p.name)),
    optRepl_id _ _ _ (fun x => r _ x head_mFLAVOR), r _ _ head_mNAME,
    optRepl_id _ _ _ (fun x => r _ x head_mVERSION), r _ _ head_mUPS]

theorem expandMacros_no_dollar (p : ProdInfo) (s : Str) (h : 36 ∉ s) : expandMacros p s = s := by
  have r : ∀ pat repl, pat.head? = some 36 → replaceAll pat repl s = s :=
    fun pat repl hp => replaceAll_no_dollar pat repl s hp h
  rw [expandMacros_eq, optRepl_id _ _ _ (fun x => r _ x head_mPRODUCTS), expandPdir_no_dollar p s h,
    tailSteps_no_dollar p s h]

theorem legacySyn_no_dollar (s : Str) (h : 36 ∉ s) : legacySyn s = s := by
  have r : ∀ pat repl, pat.head? = some 36 → replaceAll pat repl s = s :=
    fun pat repl hp => replaceAll_no_dollar pat repl s hp h
  unfold legacySyn
  simp only [r _ _ (show (Str.ofString "${PROD_DIR}").head? = some 36 by decide),
    r _ _ (show (Str.ofString "${UPS_PROD_DIR}").head? = some 36 by decide),
    r _ _ (show (Str.ofString "${UPS_PROD_FLAVOR}").head? = some 36 by decide),
    r _ _ (show (Str.ofString "${UPS_PROD_NAME}").head? = some 36 by decide),
    r _ _ (show (Str.ofString "${UPS_PROD_VERSION}").head? = some 36 by decide),
    r _ _ (show (Str.ofString "${UPS_DB}").head? = some 36 by decide),
    r _ _ (show (Str.ofString "${UPS_UPS_DIR}").head? = some 36 by decide)]

/-! ## C. `${PRODUCT_DIR}` and `$?{PRODUCT_DIR}` -/

/-- a `${...}` pattern does not match at `$?{...` / at another macro; the rest of the text is `$`-free -/
theorem replaceAll_dollar_head_only (pat repl xs : Str) (hp : pat.head? = some 36)
    (hnp : pat.isPrefixOf (36 :: xs) = false) (h : 36 ∉ xs) :
    replaceAll pat repl (36 :: xs) = 36 :: xs := by
  cases pat with
  | nil => simp at hp
  | cons c ps =>
    simp at hp; subst hp
    exact replaceAll_head_only 36 ps repl 36 xs hnp h

/-- `${PRODUCT_DIR}` without its `$` -/
def dirTail : Str := [123,80,82,79,68,85,67,84,95,68,73,82,125]
/-- `$?{PRODUCT_DIR}` without its `$` -/
def dirOptTail : Str := [63,123,80,82,79,68,85,67,84,95,68,73,82,125]

theorem mDIR_cons : mDIR = 36 :: dirTail := by decide
theorem mDIRopt_cons : mDIRopt = 36 :: dirOptTail := by decide
theorem dirTail_no_dollar : 36 ∉ dirTail := by decide
theorem dirOptTail_no_dollar : 36 ∉ dirOptTail := by decide

theorem firstPdir_mDIR (tail : Str) : firstPdir (mDIR ++ tail) = some (false, false, mDIR) := by
  have hp : mDIR.isPrefixOf (mDIR ++ tail) = true := isPrefixOf_append_self mDIR tail
  have hc : mDIR ++ tail = 36 :: (dirTail ++ tail) := by rw [mDIR_cons]; rfl
  rw [hc] at hp ⊢
  simp [firstPdir, pdirAt, hp]

theorem firstPdir_mDIRopt (tail : Str) : firstPdir (mDIRopt ++ tail) = some (true, false, mDIRopt) := by
  have hp : mDIRopt.isPrefixOf (mDIRopt ++ tail) = true := isPrefixOf_append_self mDIRopt tail
  have hc : mDIRopt ++ tail = 36 :: (dirOptTail ++ tail) := by rw [mDIRopt_cons]; rfl
  have hn : mDIR.isPrefixOf (36 :: (dirOptTail ++ tail)) = false := by
    rw [mDIR_eq]; simp [dirOptTail, List.isPrefixOf]
  rw [hc] at hp ⊢
  simp [firstPdir, pdirAt, hp, hn]

theorem truthy_some_ne (d : Str) (h : d ≠ []) : truthy (some d) = some d := by
  cases d with
  | nil => exact absurd rfl h
  | cons c cs => rfl

/-- `${PRODUCT_DIR}` denotes the product's directory -/
theorem expandMacros_product_dir (p : ProdInfo) (d tail : Str) (hd : p.dir = some d) (hne : d ≠ [])
    (hd36 : 36 ∉ d) (ht : 36 ∉ tail) : expandMacros p (mDIR ++ tail) = d ++ tail := by
  have hrest : 36 ∉ dirTail ++ tail := by
    simp only [List.mem_append, not_or]; exact ⟨dirTail_no_dollar, ht⟩
  have hc : mDIR ++ tail = 36 :: (dirTail ++ tail) := by rw [mDIR_cons]; rfl
  -- the `${PRODUCTS}` step
  have h1 : optRepl mPRODUCTS p.root (mDIR ++ tail) = mDIR ++ tail := by
    apply optRepl_id
    intro r
    rw [hc]
    apply replaceAll_dollar_head_only _ _ _ head_mPRODUCTS _ hrest
    rw [mPRODUCTS_eq]; simp [dirTail, List.isPrefixOf]
  -- the PRODUCT_DIR step
  have h2 : expandPdir p (mDIR ++ tail) = d ++ tail := by
    unfold expandPdir
    rw [firstPdir_mDIR]
    simp only [hd, truthy_some_ne d hne, Bool.false_and, Bool.false_eq_true, if_false]
    have hm : mDIR = 36 :: dirTail := mDIR_cons
    rw [hm, replaceAll_prefix, replaceAll_no_head 36 _ _ _ ht]
  have hdt : 36 ∉ d ++ tail := by
    simp only [List.mem_append, not_or]; exact ⟨hd36, ht⟩
  rw [expandMacros_eq, h1, h2, tailSteps_no_dollar p _ hdt]

/-- every occurrence is replaced, e.g. `${PRODUCT_DIR}/lib:${PRODUCT_DIR}/lib64` -/
theorem expandPdir_two (p : ProdInfo) (d t1 t2 : Str) (hd : p.dir = some d) (hne : d ≠ [])
    (h1 : 36 ∉ t1) (h2 : 36 ∉ t2) :
    expandPdir p (mDIR ++ t1 ++ mDIR ++ t2) = d ++ t1 ++ d ++ t2 := by
  unfold expandPdir
  rw [List.append_assoc, List.append_assoc, firstPdir_mDIR]
  simp only [hd, truthy_some_ne d hne, Bool.false_and, Bool.false_eq_true, if_false]
  have hm : mDIR = 36 :: dirTail := mDIR_cons
  rw [hm, replaceAll_prefix, ← List.append_assoc t1,
    replaceAll_free_then_prefix 36 _ _ _ _ h1, replaceAll_no_head 36 _ _ _ h2]
  simp

/-- `$?{PRODUCT_DIR}` stays as written when the product has no directory (`None`, `""` or `"none"`) -/
theorem expandMacros_optional_dir_none (p : ProdInfo) (tail : Str)
    (hd : p.dir = some sNone ∨ truthy p.dir = none) (ht : 36 ∉ tail) :
    expandMacros p (mDIRopt ++ tail) = mDIRopt ++ tail := by
  have hrest : 36 ∉ dirOptTail ++ tail := by
    simp only [List.mem_append, not_or]; exact ⟨dirOptTail_no_dollar, ht⟩
  have hc : mDIRopt ++ tail = 36 :: (dirOptTail ++ tail) := by rw [mDIRopt_cons]; rfl
  -- a pattern `${...` does not match at `$?{`
  have stay : ∀ (pat repl : Str), pat.head? = some 36 → pat.tail.head? = some 123 →
      replaceAll pat repl (36 :: (dirOptTail ++ tail)) = 36 :: (dirOptTail ++ tail) := by
    intro pat repl hp hq
    apply replaceAll_dollar_head_only _ _ _ hp _ hrest
    match pat, hp, hq with
    | a :: b :: ps, hp, hq =>
      simp at hp hq; subst hp; subst hq
      simp [dirOptTail, List.isPrefixOf]
  have h2 : expandPdir p (mDIRopt ++ tail) = mDIRopt ++ tail := by
    unfold expandPdir
    rw [firstPdir_mDIRopt]
    rcases hd with hd | hd
    · simp [hd]
    · simp [hd]
  rw [expandMacros_eq, hc] at *
  rw [optRepl_id _ _ _ (fun x => stay _ x head_mPRODUCTS (by decide)), h2,
    optRepl_id _ _ _ (fun x => stay _ x (head_mNameDir p.name) rfl),
    optRepl_id _ _ _ (fun x => stay _ x head_mFLAVOR (by decide)),
    stay _ _ head_mNAME (by decide),
    optRepl_id _ _ _ (fun x => stay _ x head_mVERSION (by decide)),
    stay _ _ head_mUPS (by decide)]

/-- ... and `expandEnvironmentalVariable` then ignores the line when `PRODUCT_DIR` is not in the environment -/
theorem optional_dir_none_skips (env : Env) (tail : Str)
    (hundef : env.get (Str.ofString "PRODUCT_DIR") = none) : expand env (mDIRopt ++ tail) = .skip := by
  have hk : ∀ ch ∈ Str.ofString "PRODUCT_DIR", ch ≠ 45 ∧ ch ≠ 125 := by decide
  have htw : ∀ (k : Str), (∀ ch ∈ k, ch ≠ 45 ∧ ch ≠ 125) →
      takeWhileNot (fun c => c == 45 || c == 125) (k ++ 125 :: tail) = (k, 125 :: tail) := by
    intro k hk
    induction k with
    | nil => simp [takeWhileNot]
    | cons a as ih =>
      have ha := hk a (by simp)
      have := ih (fun ch hch => hk ch (by simp [hch]))
      simp [takeWhileNot, ha.1, ha.2, this]
  have hc : mDIRopt ++ tail = 36 :: 63 :: 123 :: (Str.ofString "PRODUCT_DIR" ++ 125 :: tail) := by
    have : mDIRopt = 36 :: 63 :: 123 :: (Str.ofString "PRODUCT_DIR" ++ [125]) := by decide
    rw [this]; simp
  rw [hc]
  simp [expand, expandGo, varAt, htw _ hk, hundef]

/-- so the whole `envPrepend`/`envAppend` action is a no-op, in either direction -/
theorem exec_path_optional_dir_none (fwd app : Bool) (var tail delim : Str) (s : St)
    (hpre : startsWith (mDIRopt ++ tail) delim = false) (hend : endsWith (mDIRopt ++ tail) delim = false)
    (hundef : s.env.get (Str.ofString "PRODUCT_DIR") = none) :
    exec fwd (.path app var (mDIRopt ++ tail) delim) s = .ok s := by
  have hs := optional_dir_none_skips s.env tail hundef
  have h1 : envPrepend app fwd var (mDIRopt ++ tail) delim s.env = .ok s.env := by
    unfold envPrepend; simp [hpre, hend, hs]
  have h2 : exec.expandSkips app fwd var (mDIRopt ++ tail) delim s.env = true := by
    unfold exec.expandSkips; simp [hpre, hend, hs]
  unfold exec
  simp only [h1, h2]

/-- the mild conditions of `exec_path_optional_dir_none` for a one-character delimiter -/
theorem startsWith_mDIRopt (c : Nat) (tail : Str) (hc : c ≠ 36) : startsWith (mDIRopt ++ tail) [c] = false := by
  rw [mDIRopt_cons]
  exact isPrefixOf_head_ne c 36 [] _ (Ne.symm hc)

/-! ## D. execution -/

/-! ### the three outcomes of the path algebra -/

theorem envPrepend_cases (append fwd : Bool) (var value delim : Str) (env : Env) :
    envPrepend append fwd var value delim env = .runtimeError ∨
    envPrepend append fwd var value delim env = .ok env ∨
    ∃ x, envPrepend append fwd var value delim env = .ok (env.set var x) := by
  unfold envPrepend
  dsimp only
  split
  · exact Or.inl rfl
  · exact Or.inr (Or.inl rfl)
  · exact Or.inr (Or.inr ⟨_, rfl⟩)

theorem envSet_cases (fwd : Bool) (var value : Str) (env : Env) :
    envSet fwd var value env = .runtimeError ∨
    envSet fwd var value env = .ok env ∨
    (∃ x, envSet fwd var value env = .ok (env.set var x)) ∨
    envSet fwd var value env = .ok (env.unset var) := by
  unfold envSet
  split
  · split
    · exact Or.inr (Or.inl rfl)
    · exact Or.inr (Or.inr (Or.inl ⟨_, rfl⟩))
    · exact Or.inr (Or.inl rfl)
    · exact Or.inl rfl
  · exact Or.inr (Or.inr (Or.inr rfl))

theorem envPrepend_frame (append fwd : Bool) (var value delim : Str) (env env' : Env)
    (h : envPrepend append fwd var value delim env = .ok env') (k : Str) (hk : k ≠ var) :
    env'.get k = env.get k := by
  rcases envPrepend_cases append fwd var value delim env with h' | h' | ⟨x, h'⟩ <;> rw [h'] at h
  · cases h
  · injection h with h; subst h; rfl
  · injection h with h; subst h; exact Env.get_set_other _ _ _ _ hk

theorem envSet_frame (fwd : Bool) (var value : Str) (env env' : Env)
    (h : envSet fwd var value env = .ok env') (k : Str) (hk : k ≠ var) : env'.get k = env.get k := by
  rcases envSet_cases fwd var value env with h' | h' | ⟨x, h'⟩ | h' <;> rw [h'] at h
  · cases h
  · injection h with h; subst h; rfl
  · injection h with h; subst h; exact Env.get_set_other _ _ _ _ hk
  · injection h with h; subst h; exact Env.get_unset_other _ _ _ hk

theorem envUnset_frame (fwd : Bool) (var : Str) (env env' : Env)
    (h : envUnset fwd var env = .ok env') (k : Str) (hk : k ≠ var) : env'.get k = env.get k := by
  unfold envUnset at h
  split at h
  · injection h with h; subst h; exact Env.get_unset_other _ _ _ hk
  · injection h with h; subst h; rfl

/-! ### `forgetEnv` touches only `oldEnv` -/

@[simp] theorem forgetEnv_env (s : St) (var : Str) : (forgetEnv s var).env = s.env := by
  unfold forgetEnv; split <;> rfl
@[simp] theorem forgetEnv_aliases (s : St) (var : Str) : (forgetEnv s var).aliases = s.aliases := by
  unfold forgetEnv; split <;> rfl
@[simp] theorem forgetEnv_oldAliases (s : St) (var : Str) : (forgetEnv s var).oldAliases = s.oldAliases := by
  unfold forgetEnv; split <;> rfl
@[simp] theorem forgetEnv_force (s : St) (var : Str) : (forgetEnv s var).force = s.force := by
  unfold forgetEnv; split <;> rfl
theorem forgetEnv_noforce (s : St) (var : Str) (hf : s.force = false) : forgetEnv s var = s := by
  simp [forgetEnv, hf]
theorem forgetEnv_force_in (s : St) (var : Str) (hf : s.force = true) (hin : s.oldEnv.has var = true) :
    forgetEnv s var = { s with oldEnv := s.oldEnv.setNone var } := by
  simp [forgetEnv, hf, hin]

/-! ### `exec` by command -/

theorem exec_path_eq (fwd app : Bool) (var value delim : Str) (s : St) :
    exec fwd (.path app var value delim) s =
      match envPrepend app fwd var value delim s.env, exec.expandSkips app fwd var value delim s.env with
      | .runtimeError, _ => .runtimeError
      | .ok _, true => .ok s
      | .ok env', false => .ok { forgetEnv s var with env := env' } := rfl

theorem exec_set_eq (fwd : Bool) (var value : Str) (s : St) :
    exec fwd (.set var value) s =
      match envSet fwd var value (forgetEnv s var).env with
      | .ok env' => .ok { forgetEnv s var with env := env' }
      | .runtimeError => .runtimeError := rfl

theorem exec_unset_eq (fwd : Bool) (var : Str) (s : St) :
    exec fwd (.unset var) s =
      match envUnset fwd var s.env with
      | .ok env' => .ok { s with env := env' }
      | .runtimeError => .runtimeError := rfl

/-- the outcomes of a path action, as states -/
theorem exec_path_cases (fwd app : Bool) (var value delim : Str) (s s' : St)
    (h : exec fwd (.path app var value delim) s = .ok s') :
    s' = s ∨ ∃ env', envPrepend app fwd var value delim s.env = .ok env' ∧
      s' = { forgetEnv s var with env := env' } := by
  rw [exec_path_eq] at h
  split at h
  · cases h
  · injection h with h; exact Or.inl h.symm
  · rename_i env' heq _
    injection h with h; exact Or.inr ⟨env', heq, h.symm⟩

theorem exec_set_cases (fwd : Bool) (var value : Str) (s s' : St)
    (h : exec fwd (.set var value) s = .ok s') :
    ∃ env', envSet fwd var value s.env = .ok env' ∧ s' = { forgetEnv s var with env := env' } := by
  rw [exec_set_eq] at h
  split at h
  · rename_i env' heq
    injection h with h
    rw [forgetEnv_env] at heq
    exact ⟨env', heq, h.symm⟩
  · cases h

theorem exec_unset_cases (fwd : Bool) (var : Str) (s s' : St)
    (h : exec fwd (.unset var) s = .ok s') :
    ∃ env', envUnset fwd var s.env = .ok env' ∧ s' = { s with env := env' } := by
  rw [exec_unset_eq] at h
  split at h
  · rename_i env' heq
    injection h with h
    exact ⟨env', heq, h.symm⟩
  · cases h

/-- the variable an action is about (an alias action is about no variable: `exec_alias_env`) -/
def Act.target : Act → Str
  | .path _ var _ _ => var
  | .set var _ => var
  | .unset var => var
  | .alias _ _ => []

/-- an alias action never touches the environment -/
theorem exec_alias_env (fwd : Bool) (key : Str) (ws : List Str) (s s' : St)
    (h : exec fwd (.alias key ws) s = .ok s') : s'.env = s.env ∧ s'.oldEnv = s.oldEnv := by
  unfold exec at h
  dsimp only at h
  split at h
  · injection h with h; subst h; split <;> exact ⟨rfl, rfl⟩
  · injection h with h; subst h; split <;> exact ⟨rfl, rfl⟩

/-- frame: an action changes no variable but its own -/
theorem exec_other_var (fwd : Bool) (a : Act) (s s' : St) (k : Str)
    (h : exec fwd a s = .ok s') (hk : k ≠ a.target) : s'.env.get k = s.env.get k := by
  cases a with
  | path app var value delim =>
    rcases exec_path_cases fwd app var value delim s s' h with rfl | ⟨env', he, rfl⟩
    · rfl
    · exact envPrepend_frame app fwd var value delim s.env env' he k hk
  | set var value =>
    obtain ⟨env', he, rfl⟩ := exec_set_cases fwd var value s s' h
    exact envSet_frame fwd var value s.env env' he k hk
  | unset var =>
    obtain ⟨env', he, rfl⟩ := exec_unset_cases fwd var s s' h
    exact envUnset_frame fwd var s.env env' he k hk
  | alias key ws => rw [(exec_alias_env fwd key ws s s' h).1]

/-! ### `OMap` -/

theorem OMap.get_del_same (m : OMap) (k : Str) : (OMap.del m k).get k = none := by
  induction m with
  | nil => rfl
  | cons p rest ih =>
    obtain ⟨k', v⟩ := p
    by_cases h : k' = k
    · simpa [OMap.del, List.filter_cons, h] using ih
    · simpa [OMap.del, List.filter_cons, h, OMap.get] using ih

theorem OMap.get_del_other (m : OMap) (k k2 : Str) (h : k2 ≠ k) : (OMap.del m k).get k2 = m.get k2 := by
  induction m with
  | nil => rfl
  | cons p rest ih =>
    obtain ⟨k', v⟩ := p
    by_cases h1 : k' = k
    · subst h1
      have : k' ≠ k2 := fun e => h e.symm
      simpa [OMap.del, List.filter_cons, OMap.get, this] using ih
    · by_cases h2 : k' = k2
      · subst h2; simp [OMap.del, h1, OMap.get]
      · simpa [OMap.del, List.filter_cons, h1, OMap.get, h2] using ih

theorem OMap.get_setNone_same (m : OMap) (k : Str) : (OMap.setNone m k).get k = some none := by
  induction m with
  | nil => simp [OMap.setNone, OMap.get]
  | cons p rest ih =>
    obtain ⟨k', v⟩ := p
    by_cases h : k' = k
    · simp [OMap.setNone, h, OMap.get]
    · simp [OMap.setNone, h, OMap.get, ih]

theorem OMap.get_setNone_other (m : OMap) (k k2 : Str) (h : k2 ≠ k) :
    (OMap.setNone m k).get k2 = m.get k2 := by
  induction m with
  | nil => simp [OMap.setNone, OMap.get, Ne.symm h]
  | cons p rest ih =>
    obtain ⟨k', v⟩ := p
    by_cases h1 : k' = k
    · subst h1
      simp [OMap.setNone, OMap.get, Ne.symm h, OMap.get_del_other rest k' k2 h]
    · by_cases h2 : k' = k2
      · subst h2; simp [OMap.setNone, h1, OMap.get]
      · simp [OMap.setNone, h1, OMap.get, h2, ih]

theorem OMap.has_iff_get (m : OMap) (k : Str) : m.has k = (m.get k).isSome := by
  induction m with
  | nil => rfl
  | cons p rest ih =>
    obtain ⟨k', v⟩ := p
    by_cases h : k' = k
    · simp [OMap.has, OMap.get, h]
    · have ih' : rest.any (fun p => p.1 == k) = (OMap.get rest k).isSome := ih
      simp [OMap.has, OMap.get, h, ih']

/-! ### aliases -/

theorem exec_alias_setup (key : Str) (ws : List Str) (s : St) :
    ∃ s', exec true (.alias key ws) s = .ok s' ∧ s'.aliases.get key = some (joinWords ws) ∧
      (∀ k, k ≠ key → s'.aliases.get k = s.aliases.get k) ∧ s'.env = s.env := by
  refine ⟨_, rfl, ?_, ?_, ?_⟩
  · exact Env.get_set_same _ _ _
  · intro k hk
    dsimp only
    rw [Env.get_set_other _ _ _ _ hk]
    split <;> rfl
  · dsimp only; split <;> rfl

theorem exec_alias_unsetup (key : Str) (ws : List Str) (s : St) :
    ∃ s', exec false (.alias key ws) s = .ok s' ∧ s'.aliases.get key = none ∧
      (∀ k, k ≠ key → s'.aliases.get k = s.aliases.get k) ∧ s'.oldAliases.get key = some none := by
  refine ⟨_, rfl, ?_, ?_, ?_⟩
  · exact Env.get_unset_same _ _
  · intro k hk
    dsimp only
    rw [Env.get_unset_other _ _ _ hk]
    split <;> rfl
  · exact OMap.get_setNone_same _ _

/-- without `--force` a forward alias action leaves `oldAliases` alone; with `--force` the saved alias is forgotten -/
theorem exec_alias_setup_force (key : Str) (ws : List Str) (s s' : St) (hf : s.force = true)
    (h : exec true (.alias key ws) s = .ok s') : s'.oldAliases.get key = none := by
  unfold exec at h
  dsimp only at h
  injection h with h; subst h
  by_cases hin : s.oldAliases.has key = true
  · simp [hf, hin, OMap.get_del_same]
  · have hg : s.oldAliases.get key = none := by
      have := OMap.has_iff_get s.oldAliases key
      cases hgk : s.oldAliases.get key with
      | none => rfl
      | some v => rw [hgk] at this; exact absurd this (by simpa using hin)
    simp [hf, hin, hg]

/-- path/set/unset actions never touch the aliases -/
theorem exec_aliases_untouched (fwd : Bool) (a : Act) (s s' : St) (h : exec fwd a s = .ok s')
    (ha : ∀ k ws, a ≠ .alias k ws) : s'.aliases = s.aliases ∧ s'.oldAliases = s.oldAliases := by
  cases a with
  | path app var value delim =>
    rcases exec_path_cases fwd app var value delim s s' h with rfl | ⟨env', _, rfl⟩
    · exact ⟨rfl, rfl⟩
    · exact ⟨forgetEnv_aliases s var, forgetEnv_oldAliases s var⟩
  | set var value =>
    obtain ⟨env', _, rfl⟩ := exec_set_cases fwd var value s s' h
    exact ⟨forgetEnv_aliases s var, forgetEnv_oldAliases s var⟩
  | unset var =>
    obtain ⟨env', _, rfl⟩ := exec_unset_cases fwd var s s' h
    exact ⟨rfl, rfl⟩
  | alias key ws => exact absurd rfl (ha key ws)

/-- no action changes the `--force` flag -/
theorem exec_force (fwd : Bool) (a : Act) (s s' : St) (h : exec fwd a s = .ok s') : s'.force = s.force := by
  cases a with
  | path app var value delim =>
    rcases exec_path_cases fwd app var value delim s s' h with rfl | ⟨env', _, rfl⟩
    · rfl
    · exact forgetEnv_force s var
  | set var value =>
    obtain ⟨env', _, rfl⟩ := exec_set_cases fwd var value s s' h
    exact forgetEnv_force s var
  | unset var =>
    obtain ⟨env', _, rfl⟩ := exec_unset_cases fwd var s s' h
    rfl
  | alias key ws =>
    unfold exec at h
    dsimp only at h
    split at h <;> (injection h with h; subst h; split <;> rfl)

/-! ### `--force` bookkeeping -/

theorem exec_noforce_oldEnv (fwd : Bool) (a : Act) (s s' : St) (hf : s.force = false)
    (h : exec fwd a s = .ok s') : s'.oldEnv = s.oldEnv := by
  cases a with
  | path app var value delim =>
    rcases exec_path_cases fwd app var value delim s s' h with rfl | ⟨env', _, rfl⟩
    · rfl
    · rw [forgetEnv_noforce s var hf]
  | set var value =>
    obtain ⟨env', _, rfl⟩ := exec_set_cases fwd var value s s' h
    rw [forgetEnv_noforce s var hf]
  | unset var =>
    obtain ⟨env', _, rfl⟩ := exec_unset_cases fwd var s s' h
    rfl
  | alias key ws => exact (exec_alias_env fwd key ws s s' h).2

theorem exec_noforce_oldAliases_setup (a : Act) (s s' : St) (hf : s.force = false)
    (h : exec true a s = .ok s') : s'.oldAliases = s.oldAliases := by
  cases a with
  | alias key ws =>
    unfold exec at h
    dsimp only at h
    injection h with h; subst h
    simp [hf]
  | path app var value delim => exact (exec_aliases_untouched true _ s s' h (by intro k ws e; cases e)).2
  | set var value => exact (exec_aliases_untouched true _ s s' h (by intro k ws e; cases e)).2
  | unset var => exact (exec_aliases_untouched true _ s s' h (by intro k ws e; cases e)).2

/-- `envSet` under `--force`: the saved value of the variable is forgotten (even when the value then turns out to
be empty or skipped) -/
theorem exec_set_force_forgets (fwd : Bool) (var value : Str) (s s' : St) (hf : s.force = true)
    (hin : s.oldEnv.has var = true) (h : exec fwd (.set var value) s = .ok s') :
    s'.oldEnv.get var = some none := by
  obtain ⟨env', _, rfl⟩ := exec_set_cases fwd var value s s' h
  rw [forgetEnv_force_in s var hf hin]
  exact OMap.get_setNone_same _ _

/-- ... and of no other variable -/
theorem exec_set_force_others (fwd : Bool) (var value : Str) (s s' : St) (k : Str) (hk : k ≠ var)
    (h : exec fwd (.set var value) s = .ok s') : s'.oldEnv.get k = s.oldEnv.get k := by
  obtain ⟨env', _, rfl⟩ := exec_set_cases fwd var value s s' h
  show (forgetEnv s var).oldEnv.get k = _
  unfold forgetEnv; split
  · exact OMap.get_setNone_other _ _ _ hk
  · rfl

/-- a path action under `--force` forgets the saved value only when it gets as far as `setEnv` -/
theorem exec_path_force_forgets (fwd app : Bool) (var value delim : Str) (s s' : St) (hf : s.force = true)
    (hin : s.oldEnv.has var = true) (hns : exec.expandSkips app fwd var value delim s.env = false)
    (h : exec fwd (.path app var value delim) s = .ok s') : s'.oldEnv.get var = some none := by
  rw [exec_path_eq, hns] at h
  split at h
  · cases h
  · rename_i hh; cases hh
  · injection h with h; subst h
    rw [forgetEnv_force_in s var hf hin]
    exact OMap.get_setNone_same _ _

theorem exec_path_skip_keeps (fwd app : Bool) (var value delim : Str) (s s' : St)
    (hs : exec.expandSkips app fwd var value delim s.env = true)
    (h : exec fwd (.path app var value delim) s = .ok s') : s' = s := by
  rw [exec_path_eq, hs] at h
  split at h
  · cases h
  · injection h with h; exact h.symm
  · rename_i hh; cases hh

/-! ### `envUnset` -/

theorem exec_unset (var : Str) (s : St) : exec true (.unset var) s = .ok { s with env := s.env.unset var } := rfl

theorem exec_unset_unsetup (var : Str) (s : St) : exec false (.unset var) s = .ok s := rfl

theorem exec_unset_get (var : Str) (s : St) :
    ∃ s', exec true (.unset var) s = .ok s' ∧ s'.env.get var = none ∧ s'.oldEnv = s.oldEnv :=
  ⟨_, rfl, Env.get_unset_same _ _, rfl⟩

/-! ### the rule of the table reader -/

theorem readFilter_other (name var : Str) (h1 : var ≠ Str.ofString "PRODUCT_DIR")
    (h2 : var ≠ upper name ++ Str.ofString "_DIR") : readFilter name (.unset var) = none := by
  simp [readFilter, h1, h2]

theorem readFilter_product_dir (name : Str) :
    readFilter name (.unset (Str.ofString "PRODUCT_DIR")) = some (.unset (upper name ++ Str.ofString "_DIR")) := by
  simp [readFilter]

theorem readFilter_own_dir (name : Str) :
    readFilter name (.unset (upper name ++ Str.ofString "_DIR"))
      = some (.unset (upper name ++ Str.ofString "_DIR")) := by
  unfold readFilter
  dsimp only
  split
  · rfl
  · simp

theorem readFilter_path (name : Str) (app : Bool) (var value delim : Str) :
    readFilter name (.path app var value delim) = some (.path app var value delim) := rfl
theorem readFilter_set (name var value : Str) : readFilter name (.set var value) = some (.set var value) := rfl
theorem readFilter_alias (name key : Str) (ws : List Str) :
    readFilter name (.alias key ws) = some (.alias key ws) := rfl

/-- whatever the reader keeps of an `envUnset` line is about the product's own `<NAME>_DIR` -/
theorem readFilter_unset_target (name var : Str) (a : Act) (h : readFilter name (.unset var) = some a) :
    a = .unset (upper name ++ Str.ofString "_DIR") := by
  unfold readFilter at h
  dsimp only at h
  split at h
  · injection h with h; exact h.symm
  · split at h
    · rename_i hv; injection h with h; rw [← h, hv]
    · cases h

/-! ## E. end to end: `envPrepend(VAR, ${PRODUCT_DIR}/bin)` -/

theorem expandSkips_good (c : Nat) (app fwd : Bool) (var v : Str) (env : Env) (hv : GoodPiece c v) :
    exec.expandSkips app fwd var v [c] env = false := by
  unfold exec.expandSkips
  simp [startsWith_good c v hv, endsWith_good c v hv, expand_no_dollar env v hv.2.2]

/-- a path action whose (already expanded) value is one well-formed piece: the list operation, plus the
`--force` bookkeeping -/
theorem exec_path_good (c : Nat) (hc : c ≠ 36) (app fwd : Bool) (var v : Str) (oldl : List Str) (s : St)
    (hold : ∀ e ∈ oldl, GoodPiece c e) (hv : GoodPiece c v)
    (henv : (s.env.get var).getD [] = join [c] oldl) :
    exec fwd (.path app var v [c]) s
      = .ok { forgetEnv s var with env := s.env.set var (join [c] (applyL app fwd [v] oldl)) } := by
  rw [exec_path_eq, envPrepend_lifts c hc app fwd var v oldl s.env hold hv henv,
    expandSkips_good c app fwd var v s.env hv]

/-- `envPrepend(VAR, ${PRODUCT_DIR}/bin)` of a product with directory `d` prepends `d/bin` -/
theorem exec_path_product_dir (c : Nat) (hc : c ≠ 36) (p : ProdInfo) (app fwd : Bool) (var d tail : Str)
    (oldl : List Str) (s : St) (hd : p.dir = some d) (hne : d ≠ []) (hvar : 36 ∉ var)
    (hold : ∀ e ∈ oldl, GoodPiece c e) (hv : GoodPiece c (d ++ tail))
    (henv : (s.env.get var).getD [] = join [c] oldl) :
    exec fwd ((Act.path app var (mDIR ++ tail) [c]).expandMacros p) s
      = .ok { forgetEnv s var with env := s.env.set var (join [c] (applyL app fwd [d ++ tail] oldl)) } := by
  have h36 : 36 ∉ d ∧ 36 ∉ tail := by
    have := hv.2.2
    simpa [List.mem_append, not_or] using this
  have hcc : (36 : Nat) ∉ [c] := by simpa using Ne.symm hc
  have ha : (Act.path app var (mDIR ++ tail) [c]).expandMacros p = .path app var (d ++ tail) [c] := by
    show Act.path app (expandMacros p var) (expandMacros p (mDIR ++ tail)) (expandMacros p [c]) = _
    rw [expandMacros_no_dollar p var hvar, expandMacros_no_dollar p [c] hcc,
      expandMacros_product_dir p d tail hd hne h36.1 h36.2]
  rw [ha]
  exact exec_path_good c hc app fwd var (d ++ tail) oldl s hold hv henv

/-- ... so afterwards the variable starts with `d/bin` (forward, prepend) -/
theorem exec_path_product_dir_get (c : Nat) (hc : c ≠ 36) (p : ProdInfo) (var d tail : Str)
    (oldl : List Str) (s : St) (hd : p.dir = some d) (hne : d ≠ []) (hvar : 36 ∉ var)
    (hold : ∀ e ∈ oldl, GoodPiece c e) (hv : GoodPiece c (d ++ tail))
    (henv : (s.env.get var).getD [] = join [c] oldl) :
    ∃ s', exec true ((Act.path false var (mDIR ++ tail) [c]).expandMacros p) s = .ok s' ∧
      s'.env.get var = some (join [c] ((d ++ tail) :: (uniq oldl).filter (fun x => decide (x ≠ d ++ tail)))) := by
  refine ⟨_, exec_path_product_dir c hc p false true var d tail oldl s hd hne hvar hold hv henv, ?_⟩
  dsimp only
  rw [Env.get_set_same, applyL_prepend_single]
  congr 3
  apply List.filter_congr
  intro x _
  by_cases hx : x = d ++ tail
  · subst hx; simp
  · simp [hx]

/-- a whole action without `$` is not changed by macro expansion -/
theorem Act.expandMacros_no_dollar (p : ProdInfo) (a : Act)
    (h : match a with
      | .path _ var value delim => 36 ∉ var ∧ 36 ∉ value ∧ 36 ∉ delim
      | .set var value => 36 ∉ var ∧ 36 ∉ value
      | .unset var => 36 ∉ var
      | .alias key ws => 36 ∉ key ∧ ∀ w ∈ ws, 36 ∉ w) : a.expandMacros p = a := by
  cases a with
  | path app var value delim =>
    show Act.path app (PathAct.expandMacros p var) (PathAct.expandMacros p value) (PathAct.expandMacros p delim) = _
    rw [PathAct.expandMacros_no_dollar p _ h.1, PathAct.expandMacros_no_dollar p _ h.2.1,
      PathAct.expandMacros_no_dollar p _ h.2.2]
  | set var value =>
    show Act.set (PathAct.expandMacros p var) (PathAct.expandMacros p value) = _
    rw [PathAct.expandMacros_no_dollar p _ h.1, PathAct.expandMacros_no_dollar p _ h.2]
  | unset var =>
    show Act.unset (PathAct.expandMacros p var) = _
    rw [PathAct.expandMacros_no_dollar p _ h]
  | alias key ws =>
    show Act.alias (PathAct.expandMacros p key) (ws.map (PathAct.expandMacros p)) = _
    rw [PathAct.expandMacros_no_dollar p _ h.1]
    congr 1
    conv => rhs; rw [← List.map_id ws]
    apply List.map_congr_left
    intro w hw
    exact PathAct.expandMacros_no_dollar p w (h.2 w hw)

/-! ## non-vacuity -/

/-- a product `p 1` of flavor `F` declared in `/st/p/1` -/
def exProd : ProdInfo :=
  ⟨some (Str.ofString "/st"), some (Str.ofString "/st/p/1"), [], false, Str.ofString "p",
    some (Str.ofString "F"), some (Str.ofString "1"), Str.ofString "/st/p/1/ups"⟩

example : expandMacros exProd (Str.ofString "${PRODUCT_DIR}/bin") = Str.ofString "/st/p/1/bin" := by decide
example : expandMacros exProd (Str.ofString "${P_DIR}/bin") = Str.ofString "/st/p/1/bin" := by decide
example : expandMacros exProd (Str.ofString "${PRODUCTS}/${PRODUCT_NAME}/${PRODUCT_VERSION}/${PRODUCT_FLAVOR}")
    = Str.ofString "/st/p/1/F" := by decide
example : expandMacros exProd (Str.ofString "${UPS_DIR}/x") = Str.ofString "/st/p/1/ups/x" := by decide
example : expandMacros { exProd with dir := some sNone } (Str.ofString "$?{PRODUCT_DIR}/bin")
    = Str.ofString "$?{PRODUCT_DIR}/bin" := by decide
example : expandMacros { exProd with dir := none } (Str.ofString "$?{PRODUCT_DIR}/bin")
    = Str.ofString "$?{PRODUCT_DIR}/bin" := by decide
example : expand [] (mDIRopt ++ Str.ofString "/bin") = .skip := by decide
example : legacySyn (Str.ofString "${UPS_PROD_DIR}/bin:${UPS_DB}") = Str.ofString "${PRODUCT_DIR}/bin:${PRODUCTS}" := by
  decide
example : replaceAll (Str.ofString "ab") (Str.ofString "X") (Str.ofString "aabab.ab") = Str.ofString "aXX.X" := by
  decide
example : GoodPiece 58 (Str.ofString "/st/p/1" ++ Str.ofString "/bin") := by unfold GoodPiece; decide
example :
    exec true ((Act.path false (Str.ofString "PATH") (Str.ofString "${PRODUCT_DIR}/bin") [58]).expandMacros exProd)
      ⟨[(Str.ofString "PATH", Str.ofString "/usr/bin")], [], [], [], false⟩
    = .ok ⟨[(Str.ofString "PATH", Str.ofString "/st/p/1/bin:/usr/bin")], [], [], [], false⟩ := by decide
example :
    exec true (.set (Str.ofString "X") (Str.ofString "1"))
      ⟨[], [(Str.ofString "X", some (Str.ofString "0"))], [], [], true⟩
    = .ok ⟨[(Str.ofString "X", Str.ofString "1")], [(Str.ofString "X", none)], [], [], true⟩ := by decide
example :
    exec false (.alias (Str.ofString "ll") [Str.ofString "ls", Str.ofString "-l"])
      ⟨[], [], [(Str.ofString "ll", Str.ofString "ls -l")], [], false⟩
    = .ok ⟨[], [], [], [(Str.ofString "ll", none)], false⟩ := by decide
example : readFilter (Str.ofString "p") (.unset (Str.ofString "PRODUCT_DIR")) = some (.unset (Str.ofString "P_DIR")) := by
  decide
example : readFilter (Str.ofString "p") (.unset (Str.ofString "HOME")) = none := by decide

end EupsModel.PathAct
