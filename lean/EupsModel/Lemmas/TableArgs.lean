import EupsModel.Lemmas.CondLex
/-! C11, argument clause: the argument tokeniser of `_read` on an argument list as written. -/
namespace EupsModel.TableParse
open EupsModel.Cond EupsModel.C11Spec

/-! ## the argument list after `\"` has been protected -/

inductive A2 | plain (w : Str) | quoted (v : Str)
  deriving Repr

def A2.text : A2 → Str
  | .plain w => w
  | .quoted v => 34 :: v ++ [34]

def tail2 (rest : List (Str × A2)) (pad2 : Str) : Str := rest.flatMap (fun p => p.1 ++ p.2.text) ++ pad2
def text2 (pad1 : Str) (first : A2) (rest : List (Str × A2)) (pad2 : Str) : Str := pad1 ++ first.text ++ tail2 rest pad2

theorem tail2_cons (s : Str) (a : A2) (rest : List (Str × A2)) (pad2 : Str) :
    tail2 ((s, a) :: rest) pad2 = s ++ (a.text ++ tail2 rest pad2) := by simp [tail2, List.append_assoc]

def A2.mapQ (f : Nat → Nat) : A2 → A2
  | .plain w => .plain w
  | .quoted v => .quoted (v.map f)

def mapRest (f : Nat → Nat) (rest : List (Str × A2)) : List (Str × A2) := rest.map fun p => (p.1, p.2.mapQ f)

/-- made of blanks and commas -/
def sepCh (s : Str) : Prop := ∀ c ∈ s, c = 32 ∨ c = 44

/-- an argument in the middle of the pipeline: nothing that could end it early -/
def A2.good : A2 → Prop
  | .plain w => w ≠ [] ∧ ∀ c ∈ w, c ≠ 32 ∧ c ≠ 44 ∧ c ≠ 34
  | .quoted v => 34 ∉ v

def restGood (rest : List (Str × A2)) : Prop := ∀ p ∈ rest, sepCh p.1 ∧ p.1 ≠ [] ∧ p.2.good

/-! ## `mapQuoted` -/

theorem mq_noq {f : Nat → Nat} {s : Str} (hs : 34 ∉ s) (x : Str) :
    mapQuoted true f none (s ++ x) = s ++ mapQuoted true f none x := by
  induction s with
  | nil => rfl
  | cons c cs ih =>
    have hc : (c == 34) = false := by
      have : c ≠ 34 := fun e => hs (e ▸ List.mem_cons_self ..)
      simpa using this
    simp [mapQuoted, hc, ih (fun m => hs (List.mem_cons_of_mem _ m))]

theorem mq_run {f : Nat → Nat} {w : Str} (hw : 34 ∉ w) (run x : Str) :
    mapQuoted true f (some run) (w ++ x) = mapQuoted true f (some (run ++ w)) x := by
  induction w generalizing run with
  | nil => simp
  | cons c cs ih =>
    have hc : (c == 34) = false := by
      have : c ≠ 34 := fun e => hw (e ▸ List.mem_cons_self ..)
      simpa using this
    simp [mapQuoted, hc, ih (fun m => hw (List.mem_cons_of_mem _ m))]

theorem mq_quoted {f : Nat → Nat} {v : Str} (hv : 34 ∉ v) (x : Str) :
    mapQuoted true f none (34 :: v ++ 34 :: x) = 34 :: v.map f ++ 34 :: mapQuoted true f none x := by
  have h1 : mapQuoted true f none (34 :: (v ++ 34 :: x)) = mapQuoted true f (some []) (v ++ 34 :: x) := by simp [mapQuoted]
  rw [List.cons_append, h1, mq_run hv]
  simp [mapQuoted]

theorem sepCh_noq {s : Str} (h : sepCh s) : 34 ∉ s := fun m => by rcases h 34 m with e | e <;> omega

theorem mq_arg {f : Nat → Nat} {a : A2} (ha : a.good) (x : Str) :
    mapQuoted true f none (a.text ++ x) = (a.mapQ f).text ++ mapQuoted true f none x := by
  cases a with
  | plain w =>
    have : 34 ∉ w := fun m => (ha.2 34 m).2.2 rfl
    simpa [A2.text, A2.mapQ] using mq_noq this x
  | quoted v =>
    have := mq_quoted (f := f) ha x
    simpa [A2.text, A2.mapQ, List.append_assoc] using this

theorem mq_tail {f : Nat → Nat} {pad2 : Str} (hp : sepCh pad2) : ∀ (rest : List (Str × A2)), restGood rest →
    mapQuoted true f none (tail2 rest pad2) = tail2 (mapRest f rest) pad2 := by
  intro rest
  induction rest with
  | nil =>
    intro _
    have := mq_noq (f := f) (sepCh_noq hp) []
    simpa [tail2, mapRest, mapQuoted] using this
  | cons p ps ih =>
    intro h
    obtain ⟨s, a⟩ := p
    have hp' := h (s, a) (List.mem_cons_self ..)
    have hrest : restGood ps := fun q hq => h q (List.mem_cons_of_mem _ hq)
    rw [tail2_cons, mq_noq (sepCh_noq hp'.1), mq_arg hp'.2.2, ih hrest]
    simp [mapRest, tail2_cons]

theorem mq_text {f : Nat → Nat} {pad1 pad2 : Str} {first : A2} {rest : List (Str × A2)} (h1 : sepCh pad1) (h2 : sepCh pad2)
    (hf : first.good) (hr : restGood rest) :
    mapQuoted true f none (text2 pad1 first rest pad2) = text2 pad1 (first.mapQ f) (mapRest f rest) pad2 := by
  simp only [text2, List.append_assoc]
  rw [mq_noq (sepCh_noq h1), mq_arg hf, mq_tail h2 rest hr]

/-! ## `splitArgs` -/

theorem sa_tok {t : Str} (ht : ∀ c ∈ t, c ≠ 32 ∧ c ≠ 44) (cur x : Str) :
    splitArgs cur (t ++ x) = splitArgs (cur ++ t) x := by
  induction t generalizing cur with
  | nil => simp
  | cons c cs ih =>
    have hc := ht c (List.mem_cons_self ..)
    have : (c == 44 || c == 32) = false := by simp [hc.1, hc.2]
    simp [splitArgs, this, ih (fun d hd => ht d (List.mem_cons_of_mem _ hd))]

theorem sa_sep_empty {s : Str} (hs : sepCh s) (x : Str) : splitArgs [] (s ++ x) = splitArgs [] x := by
  induction s with
  | nil => rfl
  | cons c cs ih =>
    have : (c == 44 || c == 32) = true := by rcases hs c (List.mem_cons_self ..) with e | e <;> simp [e]
    simp [splitArgs, this, ih (fun d hd => hs d (List.mem_cons_of_mem _ hd))]

theorem sa_sep_cur {s : Str} (hs : sepCh s) (hne : s ≠ []) {cur : Str} (hc : cur ≠ []) (x : Str) :
    splitArgs cur (s ++ x) = cur :: splitArgs [] x := by
  cases s with
  | nil => exact absurd rfl hne
  | cons c cs =>
    have : (c == 44 || c == 32) = true := by rcases hs c (List.mem_cons_self ..) with e | e <;> simp [e]
    have he : cur.isEmpty = false := by cases cur with
      | nil => exact absurd rfl hc
      | cons _ _ => rfl
    simp [splitArgs, this, he, sa_sep_empty (fun d hd => hs d (List.mem_cons_of_mem _ hd))]

/-- nothing in it that splits -/
def tokText (t : Str) : Prop := t ≠ [] ∧ ∀ c ∈ t, c ≠ 32 ∧ c ≠ 44

theorem sa_tail {pad2 : Str} (hp : sepCh pad2) : ∀ (rest : List (Str × A2)),
    (∀ p ∈ rest, sepCh p.1 ∧ p.1 ≠ [] ∧ tokText p.2.text) → ∀ (cur : Str), cur ≠ [] →
    splitArgs cur (tail2 rest pad2) = cur :: rest.map (·.2.text) := by
  intro rest
  induction rest with
  | nil =>
    intro _ cur hc
    cases hpe : pad2 with
    | nil =>
      have he : cur.isEmpty = false := by cases cur with
        | nil => exact absurd rfl hc
        | cons _ _ => rfl
      simp [tail2, splitArgs, he]
    | cons d ds =>
      have := sa_sep_cur (s := pad2) hp (by rw [hpe]; simp) hc []
      simpa [tail2, hpe, splitArgs] using this
  | cons p ps ih =>
    intro h cur hc
    obtain ⟨s, a⟩ := p
    have hp' := h (s, a) (List.mem_cons_self ..)
    rw [tail2_cons, sa_sep_cur hp'.1 hp'.2.1 hc, sa_tok hp'.2.2.2, List.nil_append,
      ih (fun q hq => h q (List.mem_cons_of_mem _ hq)) _ hp'.2.2.1]
    simp

theorem sa_text {pad1 pad2 : Str} {first : A2} {rest : List (Str × A2)} (h1 : sepCh pad1) (h2 : sepCh pad2)
    (hf : tokText first.text) (hr : ∀ p ∈ rest, sepCh p.1 ∧ p.1 ≠ [] ∧ tokText p.2.text) :
    splitArgs [] (text2 pad1 first rest pad2) = first.text :: rest.map (·.2.text) := by
  simp only [text2, List.append_assoc]
  rw [sa_sep_empty h1, sa_tok hf.2, List.nil_append, sa_tail h2 rest hr _ hf.1]

/-! ## the last pass: quotes off, protection characters back -/

theorem stripOuter_plain {w : Str} (h : w.head? ≠ some 34) : stripOuter false w = w := by
  cases w with
  | nil => rfl
  | cons c cs =>
    have : c ≠ 34 := fun e => h (by simp [e])
    unfold stripOuter
    split
    · rename_i r heq; cases heq; exact absurd rfl this
    · rfl

theorem stripOuter_quoted (u : Str) : stripOuter false (34 :: u ++ [34]) = u := by
  simp [stripOuter, List.getLast?_append, List.dropLast_append_of_ne_nil]

/-! ## protecting `\"` -/

/-- `"` → `\x02` -/
def q2 (c : Nat) : Nat := if c == 34 then 2 else c

theorem rg_no92 {s : Str} (hs : 92 ∉ s) (x : Str) :
    replGo [92, 34] [2] 0 (s ++ x) = s ++ replGo [92, 34] [2] 0 x := by
  induction s with
  | nil => rfl
  | cons c cs ih =>
    have hc : c ≠ 92 := fun e => hs (e ▸ List.mem_cons_self ..)
    have : List.isPrefixOf [92, 34] (c :: (cs ++ x)) = false := by simp [List.isPrefixOf, Ne.symm hc]
    simp [replGo, this, ih (fun m => hs (List.mem_cons_of_mem _ m))]

theorem rg_esc {v : Str} (hv : 92 ∉ v) (x : Str) :
    replGo [92, 34] [2] 0 (escQ v ++ x) = v.map q2 ++ replGo [92, 34] [2] 0 x := by
  induction v with
  | nil => rfl
  | cons c cs ih =>
    have hc : c ≠ 92 := fun e => hv (e ▸ List.mem_cons_self ..)
    have ih' := ih (fun m => hv (List.mem_cons_of_mem _ m))
    by_cases h34 : c = 34
    · subst h34
      have : escQ (34 :: cs) ++ x = 92 :: 34 :: (escQ cs ++ x) := by simp [escQ]
      rw [this]
      simp [replGo, List.isPrefixOf, ih', q2]
    · have e1 : escQ (c :: cs) ++ x = c :: (escQ cs ++ x) := by simp [escQ, h34]
      have e2 : List.isPrefixOf [92, 34] (c :: (escQ cs ++ x)) = false := by simp [List.isPrefixOf, Ne.symm hc]
      rw [e1]
      simp [replGo, e2, ih', q2, h34]

/-! ## from the written list to the tokeniser's result -/

def f4 (c : Nat) : Nat := if c == 32 then 1 else c
def f5 (c : Nat) : Nat := if c == 44 then 3 else c

def toA2 (a : WArg) : A2 := if a.quoted then .quoted (a.val.map q2) else .plain a.val

/-- everything the later passes need of an argument -/
def fine : A2 → Prop
  | .plain w => w ≠ [] ∧ ∀ c ∈ w, c ≠ 32 ∧ c ≠ 44 ∧ c ≠ 34 ∧ c ≠ 1 ∧ c ≠ 2 ∧ c ≠ 3
  | .quoted v => 34 ∉ v

/-- the argument the tokeniser returns -/
def fin : A2 → Str
  | .plain w => w
  | .quoted v => v.map fun c => unprotect (f5 (f4 c))

theorem fine_good {a : A2} (h : fine a) : a.good := by
  cases a with
  | plain w => exact ⟨h.1, fun c hc => ⟨(h.2 c hc).1, (h.2 c hc).2.1, (h.2 c hc).2.2.1⟩⟩
  | quoted v => exact h

theorem fine_mapQ {f : Nat → Nat} (hf : ∀ c, f c = 34 → c = 34) {a : A2} (h : fine a) : fine (a.mapQ f) := by
  cases a with
  | plain w => exact h
  | quoted v =>
    intro m
    simp only [A2.mapQ, List.mem_map] at m
    obtain ⟨c, hc, e⟩ := m
    exact h (hf c e ▸ hc)

theorem f4_34 (c : Nat) (h : f4 c = 34) : c = 34 := by unfold f4 at h; split at h <;> omega
theorem f5_34 (c : Nat) (h : f5 c = 34) : c = 34 := by unfold f5 at h; split at h <;> omega

theorem tok_final {a : A2} (h : fine a) : tokText ((a.mapQ f4).mapQ f5).text := by
  cases a with
  | plain w => exact ⟨h.1, fun c hc => ⟨(h.2 c hc).1, (h.2 c hc).2.1⟩⟩
  | quoted v =>
    refine ⟨by simp [A2.mapQ, A2.text], ?_⟩
    intro c hc
    simp only [A2.mapQ, A2.text, List.map_map, List.cons_append, List.mem_cons, List.mem_append, List.mem_map,
      Function.comp, List.mem_nil_iff, or_false] at hc
    rcases hc with rfl | ⟨d, _, rfl⟩ | rfl
    · omega
    · unfold f5 f4; split <;> split <;> simp_all <;> omega
    · omega

theorem g_final {a : A2} (h : fine a) :
    (stripOuter false ((a.mapQ f4).mapQ f5).text).map unprotect = fin a := by
  cases a with
  | plain w =>
    have hh : w.head? ≠ some 34 := by
      cases w with
      | nil => simp
      | cons c cs => have := (h.2 c (List.mem_cons_self ..)).2.2.1; simpa using this
    simp only [A2.mapQ, A2.text, stripOuter_plain hh, fin]
    have : ∀ c ∈ w, unprotect c = c := by
      intro c hc
      have := h.2 c hc
      simp [unprotect, this.2.2.2.1, this.2.2.2.2.1, this.2.2.2.2.2]
    exact (List.map_congr_left this).trans (List.map_id w)
  | quoted v =>
    have e : ((A2.quoted v).mapQ f4 |>.mapQ f5).text = 34 :: (v.map f4).map f5 ++ [34] := rfl
    rw [e, stripOuter_quoted]
    simp [fin, List.map_map, Function.comp]

theorem q2_ne34 (c : Nat) : q2 c ≠ 34 := by unfold q2; split <;> simp_all

theorem unprot_q2 {c : Nat} (h : c ≠ 92 ∧ c ≠ 1 ∧ c ≠ 2 ∧ c ≠ 3) : unprotect (f5 (f4 (q2 c))) = c := by
  unfold q2 f4 f5 unprotect
  by_cases a : c = 34
  · subst a; decide
  · by_cases b : c = 32
    · subst b; decide
    · by_cases d : c = 44
      · subst d; decide
      · simp [a, b, d, h.2.1, h.2.2.1, h.2.2.2]

theorem toA2_props {a : WArg} (h : a.ok = true) : fine (toA2 a) ∧ fin (toA2 a) = a.val := by
  cases hq : a.quoted with
  | false =>
    simp only [WArg.ok, hq, Bool.false_eq_true, if_false, plainVal, Bool.and_eq_true, Bool.not_eq_true',
      List.isEmpty_eq_false_iff] at h
    have hc : ∀ c ∈ a.val, Str.isSpace c = false ∧ c ≠ 44 ∧ c ≠ 34 ∧ c ≠ 92 ∧ c ≠ 1 ∧ c ≠ 2 ∧ c ≠ 3 := by
      intro c hc
      have := List.all_eq_true.mp h.2 c hc
      simpa [Bool.and_eq_true, and_assoc] using this
    have e : toA2 a = .plain a.val := by simp [toA2, hq]
    rw [e]
    refine ⟨⟨h.1, fun c m => ?_⟩, rfl⟩
    have := hc c m
    refine ⟨?_, this.2.1, this.2.2.1, this.2.2.2.2.1, this.2.2.2.2.2.1, this.2.2.2.2.2.2⟩
    intro e32; subst e32; exact absurd this.1 (by decide)
  | true =>
    simp only [WArg.ok, hq, if_true, quotedVal] at h
    have hc : ∀ c ∈ a.val, c ≠ 92 ∧ c ≠ 1 ∧ c ≠ 2 ∧ c ≠ 3 := by
      intro c m
      have := List.all_eq_true.mp h c m
      simpa [Bool.and_eq_true, and_assoc] using this
    have e : toA2 a = .quoted (a.val.map q2) := by simp [toA2, hq]
    have h34 : 34 ∉ a.val.map q2 := by
      intro m; simp only [List.mem_map] at m; obtain ⟨c, _, e⟩ := m; exact q2_ne34 c e
    rw [e]
    refine ⟨h34, ?_⟩
    simp only [fin, List.map_map]
    have : ∀ c ∈ a.val, (fun c => unprotect (f5 (f4 c))) (q2 c) = c := fun c m => unprot_q2 (hc c m)
    exact (List.map_congr_left this).trans (List.map_id _)

/-! ## the first two passes on the written text -/

def restA2 (rest : List (Str × WArg)) : List (Str × A2) := rest.map fun p => (p.1, toA2 p.2)

theorem no92_of_sep {s : Str} (h : ∀ c ∈ s, c = 32 ∨ c = 44) : 92 ∉ s := fun m => by rcases h 92 m with e | e <;> omega

theorem sepOK_sepCh {s : Str} (h : sepOK s = true) : sepCh s ∧ s ≠ [] := by
  simp only [sepOK, Bool.and_eq_true, Bool.not_eq_true', List.isEmpty_eq_false_iff] at h
  refine ⟨fun c hc => ?_, h.1⟩
  have := List.all_eq_true.mp h.2 c hc
  simpa using this

theorem padOK_32 {s : Str} (h : padOK s = true) : ∀ c ∈ s, c = 32 := fun c hc => by
  have := List.all_eq_true.mp h c hc
  simpa using this

theorem rg_warg {a : WArg} (h : a.ok = true) (x : Str) :
    replGo [92, 34] [2] 0 (a.text ++ x) = (toA2 a).text ++ replGo [92, 34] [2] 0 x := by
  cases hq : a.quoted with
  | false =>
    have h' := h
    simp only [WArg.ok, hq, Bool.false_eq_true, if_false, plainVal, Bool.and_eq_true] at h'
    have h92 : 92 ∉ a.val := fun m => by
      have := List.all_eq_true.mp h'.2 92 m; simp at this
    simpa [WArg.text, toA2, hq, A2.text] using rg_no92 h92 x
  | true =>
    have h' := h
    simp only [WArg.ok, hq, if_true, quotedVal] at h'
    have h92 : 92 ∉ a.val := fun m => by
      have := List.all_eq_true.mp h' 92 m; simp at this
    have e1 : a.text ++ x = [34] ++ (escQ a.val ++ ([34] ++ x)) := by simp [WArg.text, hq]
    rw [e1, rg_no92 (by decide), rg_esc h92, rg_no92 (by decide)]
    simp [toA2, hq, A2.text]

theorem rg_tail {pad2 : Str} (hp : padOK pad2 = true) : ∀ (rest : List (Str × WArg)),
    (∀ p ∈ rest, sepOK p.1 = true ∧ p.2.ok = true) →
    replGo [92, 34] [2] 0 (rest.flatMap (fun p => p.1 ++ p.2.text) ++ pad2) = tail2 (restA2 rest) pad2 := by
  intro rest
  induction rest with
  | nil =>
    intro _
    have := rg_no92 (no92_of_sep (fun c hc => Or.inl (padOK_32 hp c hc))) []
    simpa [tail2, restA2, replGo] using this
  | cons p ps ih =>
    intro h
    obtain ⟨s, a⟩ := p
    have hp' := h (s, a) (List.mem_cons_self ..)
    have e : ((s, a) :: ps).flatMap (fun p => p.1 ++ p.2.text) ++ pad2
        = s ++ (a.text ++ (ps.flatMap (fun p => p.1 ++ p.2.text) ++ pad2)) := by simp [List.append_assoc]
    rw [e, rg_no92 (no92_of_sep (sepOK_sepCh hp'.1).1), rg_warg hp'.2, ih (fun q hq => h q (List.mem_cons_of_mem _ hq))]
    simp [restA2, tail2_cons]

theorem rg_text {pad1 pad2 : Str} {first : WArg} {rest : List (Str × WArg)} (h1 : padOK pad1 = true) (h2 : padOK pad2 = true)
    (hf : first.ok = true) (hr : ∀ p ∈ rest, sepOK p.1 = true ∧ p.2.ok = true) :
    replaceAll [92, 34] [2] (argsText pad1 first rest pad2) = text2 pad1 (toA2 first) (restA2 rest) pad2 := by
  simp only [replaceAll, argsText, text2, List.append_assoc]
  rw [rg_no92 (no92_of_sep (fun c hc => Or.inl (padOK_32 h1 c hc))), rg_warg hf, rg_tail h2 rest hr]

/-- the strict whole-list pattern leaves alone what is not one quote-free quoted string -/
theorem stripOuter_id {s : Str} (h : s.head? ≠ some 34 ∨ ∃ r, s = 34 :: r ∧ r.dropLast.contains 34 = true) :
    stripOuter true s = s := by
  rcases h with h | ⟨r, rfl, hr⟩
  · cases s with
    | nil => rfl
    | cons c cs =>
      have : c ≠ 34 := fun e => h (by simp [e])
      unfold stripOuter
      split
      · rename_i r heq; cases heq; exact absurd rfl this
      · rfl
  · unfold stripOuter
    simp only [Bool.true_and, hr, if_true]
    split <;> rfl

theorem escQ_contains {v : Str} (h : v.contains 34 = true) : (escQ v).contains 34 = true := by
  simp only [List.contains_iff_mem] at h ⊢
  simp only [escQ, List.mem_flatMap]
  exact ⟨34, h, by simp⟩

theorem text_head {a : WArg} (h : a.ok = true) (hq : a.quoted = false) (x : Str) : (a.text ++ x).head? ≠ some 34 := by
  simp only [WArg.ok, hq, Bool.false_eq_true, if_false, plainVal, Bool.and_eq_true, Bool.not_eq_true',
    List.isEmpty_eq_false_iff] at h
  cases hv : a.val with
  | nil => exact absurd hv h.1
  | cons c cs =>
    have := List.all_eq_true.mp h.2 c (by rw [hv]; exact List.mem_cons_self ..)
    simp only [Bool.and_eq_true, bne_iff_ne, ne_eq] at this
    simp [WArg.text, hq, hv]
    exact this.1.1.1.1.2

theorem tail_nil {rest : List (Str × WArg)} {pad2 : Str} (hr : ∀ p ∈ rest, sepOK p.1 = true)
    (h : rest.flatMap (fun p => p.1 ++ p.2.text) ++ pad2 = []) : rest = [] ∧ pad2 = [] := by
  cases rest with
  | nil => exact ⟨rfl, by simpa using h⟩
  | cons p ps =>
    have := (sepOK_sepCh (hr p (List.mem_cons_self ..))).2
    simp only [List.flatMap_cons, List.append_assoc, List.append_eq_nil_iff] at h
    exact absurd h.1 this

theorem strip_args {pad1 pad2 : Str} {first : WArg} {rest : List (Str × WArg)} (h1 : padOK pad1 = true)
    (hf : first.ok = true) (hr : ∀ p ∈ rest, sepOK p.1 = true) (hw : wholeQuoted pad1 first rest pad2 = false) :
    stripOuter true (argsText pad1 first rest pad2) = argsText pad1 first rest pad2 := by
  apply stripOuter_id
  cases hp : pad1 with
  | cons c cs =>
    left
    have : c = 32 := padOK_32 h1 c (by rw [hp]; exact List.mem_cons_self ..)
    simp [argsText, this]
  | nil =>
    cases hq : first.quoted with
    | false =>
      left
      have := text_head hf hq (rest.flatMap (fun p => p.1 ++ p.2.text) ++ pad2)
      simpa only [argsText, List.nil_append, List.append_assoc] using this
    | true =>
      right
      refine ⟨escQ first.val ++ [34] ++ (rest.flatMap (fun p => p.1 ++ p.2.text) ++ pad2),
        by simp [argsText, WArg.text, hq, List.append_assoc], ?_⟩
      by_cases ht : rest.flatMap (fun p => p.1 ++ p.2.text) ++ pad2 = []
      · obtain ⟨hrest, hpad⟩ := tail_nil hr ht
        have hc : first.val.contains 34 = true := by
          simpa [wholeQuoted, hp, hpad, hrest, hq] using hw
        rw [ht, List.append_nil, List.dropLast_concat]
        exact escQ_contains hc
      · rw [List.dropLast_append_of_ne_nil ht]
        simp [List.contains_iff_mem]

theorem repaired_d20 : repaired.d20 = true := rfl
theorem repaired_d32 : repaired.d32 = true := rfl
theorem repaired_d33 : repaired.d33 = true := rfl

/-- the argument tokeniser on an argument list as written, when the list is not one wholly quoted word list -/
theorem parseArgs_written {pad1 pad2 : Str} {first : WArg} {rest : List (Str × WArg)} (h1 : padOK pad1 = true)
    (h2 : padOK pad2 = true) (hf : first.ok = true) (hr : ∀ p ∈ rest, sepOK p.1 = true ∧ p.2.ok = true)
    (hw : wholeQuoted pad1 first rest pad2 = false) :
    parseArgs repaired (argsText pad1 first rest pad2) = first.val :: rest.map (·.2.val) := by
  have hsep1 : sepCh pad1 := fun c hc => Or.inl (padOK_32 h1 c hc)
  have hsep2 : sepCh pad2 := fun c hc => Or.inl (padOK_32 h2 c hc)
  obtain ⟨ffine, ffin⟩ := toA2_props hf
  have hR : ∀ p ∈ restA2 rest, sepCh p.1 ∧ p.1 ≠ [] ∧ fine p.2 := by
    intro p hp
    simp only [restA2, List.mem_map] at hp
    obtain ⟨q, hq, rfl⟩ := hp
    have := hr q hq
    have hs := sepOK_sepCh this.1
    exact ⟨hs.1, hs.2, (toA2_props this.2).1⟩
  have e4 : (fun c : Nat => if c == 32 then 1 else c) = f4 := rfl
  have e5 : (fun c : Nat => if c == 44 then 3 else c) = f5 := rfl
  have good1 : restGood (restA2 rest) := fun p hp => ⟨(hR p hp).1, (hR p hp).2.1, fine_good (hR p hp).2.2⟩
  have fine4 : ∀ p ∈ mapRest f4 (restA2 rest), sepCh p.1 ∧ p.1 ≠ [] ∧ fine p.2 := by
    intro p hp
    simp only [mapRest, List.mem_map] at hp
    obtain ⟨q, hq, rfl⟩ := hp
    exact ⟨(hR q hq).1, (hR q hq).2.1, fine_mapQ f4_34 (hR q hq).2.2⟩
  have good4 : restGood (mapRest f4 (restA2 rest)) := fun p hp => ⟨(fine4 p hp).1, (fine4 p hp).2.1, fine_good (fine4 p hp).2.2⟩
  have tok5 : ∀ p ∈ mapRest f5 (mapRest f4 (restA2 rest)), sepCh p.1 ∧ p.1 ≠ [] ∧ tokText p.2.text := by
    intro p hp
    simp only [mapRest, List.mem_map, List.map_map] at hp
    obtain ⟨q, hq, rfl⟩ := hp
    exact ⟨(hR q hq).1, (hR q hq).2.1, tok_final (hR q hq).2.2⟩
  simp only [parseArgs, repaired_d20, repaired_d32, repaired_d33, if_true]
  rw [strip_args h1 hf (fun p hp => (hr p hp).1) hw, rg_text h1 h2 hf hr, e4, e5,
    mq_text hsep1 hsep2 (fine_good ffine) good1,
    mq_text hsep1 hsep2 (fine_good (fine_mapQ f4_34 ffine)) good4,
    sa_text hsep1 hsep2 (tok_final ffine) tok5]
  simp only [List.map_cons, g_final ffine, ffin, List.cons.injEq, true_and]
  have : (mapRest f5 (mapRest f4 (restA2 rest))).map (·.2.text)
      = (restA2 rest).map (fun p => ((p.2.mapQ f4).mapQ f5).text) := by
    simp [mapRest, List.map_map, Function.comp]
  rw [this, List.map_map]
  have step : (restA2 rest).map ((fun s => (stripOuter false s).map unprotect) ∘ fun p => ((p.2.mapQ f4).mapQ f5).text)
      = (restA2 rest).map (fun p => fin p.2) :=
    List.map_congr_left fun p hp => g_final (hR p hp).2.2
  rw [step]
  simp only [restA2, List.map_map]
  exact List.map_congr_left fun p hp => (toA2_props (hr p hp).2).2

/-! ## the classic spelling: the whole list between one pair of quotes -/

theorem escQ_noquote {v : Str} (h : 34 ∉ v) : escQ v = v := by
  induction v with
  | nil => rfl
  | cons c cs ih =>
    have hc : c ≠ 34 := fun e => h (e ▸ List.mem_cons_self ..)
    have := ih (fun m => h (List.mem_cons_of_mem _ m))
    simp only [escQ, beq_iff_eq] at this
    simp [escQ, hc, this]

theorem splitArgs_mem : ∀ (s cur t : Str), t ∈ splitArgs cur s → ∀ c ∈ t, c ∈ cur ∨ c ∈ s := by
  intro s
  induction s with
  | nil =>
    intro cur t ht c hc
    simp only [splitArgs] at ht
    split at ht
    · cases ht
    · simp only [List.mem_cons, List.mem_nil_iff, or_false] at ht; subst ht; exact Or.inl hc
  | cons d ds ih =>
    intro cur t ht c hc
    simp only [splitArgs] at ht
    split at ht
    · split at ht
      · rcases ih [] t ht c hc with h | h
        · cases h
        · exact Or.inr (List.mem_cons_of_mem _ h)
      · rcases List.mem_cons.mp ht with rfl | ht
        · exact Or.inl hc
        · rcases ih [] t ht c hc with h | h
          · cases h
          · exact Or.inr (List.mem_cons_of_mem _ h)
    · rcases ih (cur ++ [d]) t ht c hc with h | h
      · rcases List.mem_append.mp h with h | h
        · exact Or.inl h
        · simp only [List.mem_cons, List.mem_nil_iff, or_false] at h; subst h; exact Or.inr (List.mem_cons_self ..)
      · exact Or.inr (List.mem_cons_of_mem _ h)

/-- one pair of quotes around a quote-free list: the words inside -/
theorem parseArgs_whole {v : Str} (h34 : 34 ∉ v) (hv : ∀ c ∈ v, c ≠ 92 ∧ c ≠ 1 ∧ c ≠ 2 ∧ c ≠ 3) :
    parseArgs repaired (34 :: v ++ [34]) = splitArgs [] v := by
  have h1 : stripOuter true (34 :: v ++ [34]) = v := by
    have hc : v.contains 34 = false := by
      cases h : v.contains 34 with
      | false => rfl
      | true => exact absurd (List.contains_iff_mem.mp h) h34
    simp [stripOuter, List.getLast?_append, List.dropLast_append_of_ne_nil, hc, h34]
  have h2 : replaceAll [92, 34] [2] v = v := by
    have := rg_no92 (s := v) (fun m => (hv 92 m).1 rfl) []
    simpa [replaceAll, replGo] using this
  have h4 : ∀ f, mapQuoted true f none v = v := by
    intro f
    have := mq_noq (f := f) h34 []
    simpa [mapQuoted] using this
  simp only [parseArgs, repaired_d20, repaired_d32, repaired_d33, if_true, h1, h2, h4]
  have : ∀ t ∈ splitArgs [] v, (stripOuter false t).map unprotect = t := by
    intro t ht
    have hm : ∀ c ∈ t, c ∈ v := fun c hc => by
      rcases splitArgs_mem v [] t ht c hc with h | h
      · cases h
      · exact h
    have hh : t.head? ≠ some 34 := by
      cases t with
      | nil => simp
      | cons c cs =>
        have : c ≠ 34 := fun e => h34 (e ▸ hm c (List.mem_cons_self ..))
        simpa using this
    rw [stripOuter_plain hh]
    have : ∀ c ∈ t, unprotect c = c := by
      intro c hc
      have := hv c (hm c hc)
      simp [unprotect, this.2.1, this.2.2.1, this.2.2.2]
    exact (List.map_congr_left this).trans (List.map_id t)
  exact (List.map_congr_left this).trans (List.map_id _)

/-! ## the command pattern -/

theorem takeWhile_word {name rest : Str} (hn : name.all isWordCh = true) (hr : rest.head?.all (fun c => !isWordCh c) = true) :
    (name ++ rest).takeWhile isWordCh = name ∧ (name ++ rest).dropWhile isWordCh = rest := by
  induction name with
  | nil =>
    cases rest with
    | nil => exact ⟨rfl, rfl⟩
    | cons c cs =>
      simp only [List.head?_cons, Option.all_some, Bool.not_eq_true'] at hr
      simp [List.takeWhile, List.dropWhile, hr]
  | cons c cs ih =>
    simp only [List.all_cons, Bool.and_eq_true] at hn
    have := ih hn.2
    simp [List.takeWhile, List.dropWhile, hn.1, this.1, this.2]

/-- `^(\w+)\s*\((.*)\)\s*;?\s*$` on a command as written -/
theorem cmdLine_written {name gap argText tl : Str} (hne : name ≠ []) (hn : name.all isWordCh = true)
    (hg : blank gap = true) (ht : cmdTail tl = true) (h41 : 41 ∉ tl) :
    cmdLine (name ++ gap ++ [40] ++ argText ++ [41] ++ tl) = some (name, argText) := by
  have e : name ++ gap ++ [40] ++ argText ++ [41] ++ tl = name ++ (gap ++ 40 :: (argText ++ 41 :: tl)) := by
    simp [List.append_assoc]
  have hr : (gap ++ 40 :: (argText ++ 41 :: tl)).head?.all (fun c => !isWordCh c) = true := by
    cases gap with
    | nil => simp [isWordCh, Str.isAlnum, Str.isAlpha, Str.isUpper, Str.isLower, Str.isDigit]
    | cons c cs =>
      have : Str.isSpace c = true := by simp only [blank, List.all_cons, Bool.and_eq_true] at hg; exact hg.1
      have h := space_not_tokCh this
      simp only [isTokCh, Bool.or_eq_false_iff] at h
      simp [h.1.1]
  obtain ⟨t1, t2⟩ := takeWhile_word hn hr
  obtain ⟨c0, cs0, hc0⟩ : ∃ c cs, name = c :: cs := by
    cases name with
    | nil => exact absurd rfl hne
    | cons c cs => exact ⟨c, cs, rfl⟩
  rw [e]
  simp only [cmdLine, t1, t2]
  rw [hc0] at t1 ⊢
  have hd : dropSpaces (gap ++ 40 :: (argText ++ 41 :: tl)) = 40 :: (argText ++ 41 :: tl) :=
    dropSpaces_append' hg
  simp only [hd, splitLast_append' argText h41]
  unfold cmdTail at ht
  split at ht <;> simp_all
where
  dropSpaces_append' {sp x : Str} (hsp : blank sp = true) : dropSpaces (sp ++ 40 :: x) = 40 :: x := by
    induction sp with
    | nil => simp [dropSpaces, List.dropWhile, Str.isSpace]
    | cons c cs ih =>
      simp only [blank, List.all_cons, Bool.and_eq_true] at hsp
      simp only [dropSpaces, List.cons_append, List.dropWhile, hsp.1]
      exact ih (by simpa [blank] using hsp.2)
  splitLast_append' {c : Nat} (x : Str) {y : Str} (h : c ∉ y) : splitLast c (x ++ c :: y) = some (x, y) := by
    have hnone : ∀ (z : Str), c ∉ z → splitLast c z = none := by
      intro z
      induction z with
      | nil => intro _; rfl
      | cons a as ih =>
        intro hz
        have h1 : a ≠ c := fun e => hz (e ▸ List.mem_cons_self ..)
        simp [splitLast, ih (fun m => hz (List.mem_cons_of_mem _ m)), h1]
    induction x with
    | nil => simp [splitLast, hnone y h]
    | cons a as ih => simp [splitLast, ih]

end EupsModel.TableParse
