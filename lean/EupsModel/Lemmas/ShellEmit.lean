import EupsModel.Model.ShellEmit
/-! Helper lemmas for C05: what `feed`/`shEval` do with the text of emitted commands, and what the emitted
command list does to an environment. -/
namespace EupsModel.ShellEmit

/-- the claimed alphabet of values -/
def InAlphabet (v : Str) : Prop := ∀ c ∈ v, isSafe c = true ∨ isShMeta c = true

/-- the values the claim is about: over the alphabet, or — the class `app.setup` single-quotes — any value without a
single quote that is not already wrapped in quotes and holds a character of `[\s<>|&;()]`.  Inside the single
quotes `$NAME`, `${NAME}`, backquotes, backslashes, double quotes, `~`, braces and glob characters are literal. -/
def Writable (v : Str) : Prop :=
  InAlphabet v ∨ (v.any needsQuote = true ∧ wrapped v = false ∧ ∀ c ∈ v, c ≠ 39)

/-- equality of environments as maps -/
def SameEnv (a b : Env) : Prop := ∀ k, a.get k = b.get k

/-- effect of an emitted command on the exported environment (shell functions are not part of it) -/
def Cmd.apply : Cmd → Env → Env
  | .setVar k v, e => e.set k v
  | .unsetVar k, e => e.unset k
  | .aliasDef _ _, e => e
  | .aliasDel _, e => e

/-- the effects of a command list, in order -/
def applyAll (cmds : List Cmd) (e : Env) : Env := cmds.foldl (fun e c => c.apply e) e

theorem applyAll_nil (e : Env) : applyAll [] e = e := rfl
theorem applyAll_cons (c : Cmd) (r : List Cmd) (e : Env) : applyAll (c :: r) e = applyAll r (c.apply e) := rfl
theorem applyAll_append (a b : List Cmd) (e : Env) : applyAll (a ++ b) e = applyAll b (applyAll a e) := by
  simp [applyAll, List.foldl_append]
theorem apply_setVar (k v : Str) (e : Env) : (Cmd.setVar k v).apply e = e.set k v := rfl
theorem apply_unsetVar (k : Str) (e : Env) : (Cmd.unsetVar k).apply e = e.unset k := rfl

/-- text of a command in the `sh` dialect without `-n` -/
def Cmd.text : Cmd → Str
  | .setVar k v => sExport ++ [32] ++ k ++ [61] ++ emitVal v
  | .unsetVar k => sUnset ++ [32] ++ k
  | .aliasDef k v => k ++ [40, 41, 32, 123, 32] ++ v ++ [32, 59, 32, 125]
  | .aliasDel k => sUnset ++ [32] ++ sDashF ++ [32] ++ k

/-- commands whose evaluation `shEval` covers -/
def Cmd.Good : Cmd → Prop
  | .setVar k v => isIdent k = true ∧ Writable v
  | .unsetVar k => isIdent k = true
  | .aliasDel k => isIdent k = true
  | _ => False

/-! ### characters -/

theorem safe_facts {c : Nat} (h : isSafe c = true) :
    c ≠ 39 ∧ c ≠ 32 ∧ c ≠ 9 ∧ c ≠ 10 ∧ c ≠ 59 ∧ c ≠ 34 ∧ needsQuote c = false := by
  simp only [isSafe, Str.isAlnum, Str.isAlpha, Str.isUpper, Str.isLower, Str.isDigit, Bool.or_eq_true,
    Bool.and_eq_true, decide_eq_true_eq, beq_iff_eq] at h
  simp only [needsQuote, isPySpace, Bool.or_eq_false_iff, Bool.and_eq_false_iff, decide_eq_false_iff_not,
    beq_eq_false_iff_ne]
  omega

theorem meta_facts {c : Nat} (h : isShMeta c = true) : c ≠ 39 ∧ c ≠ 34 ∧ needsQuote c = true := by
  simp only [isShMeta, Bool.or_eq_true, beq_iff_eq] at h
  simp only [needsQuote, isPySpace, Bool.or_eq_true, Bool.and_eq_true, decide_eq_true_eq, beq_iff_eq]
  omega

theorem ident_safe {k : Str} (h : isIdent k = true) : ∀ c ∈ k, isSafe c = true := by
  cases k with
  | nil => simp [isIdent] at h
  | cons a r =>
    simp only [isIdent, Bool.and_eq_true, Bool.or_eq_true, beq_iff_eq, List.all_eq_true] at h
    intro c hc
    have key : ∀ d, (Str.isAlnum d = true ∨ d = 95) → isSafe d = true := by
      intro d hd
      simp only [isSafe, Bool.or_eq_true, beq_iff_eq]
      rcases hd with hd | hd
      · simp [hd]
      · simp [hd]
    rcases List.mem_cons.mp hc with rfl | hc
    · apply key
      rcases h.1 with h1 | h1
      · left; simp [Str.isAlnum, h1]
      · right; exact h1
    · exact key c (h.2 c hc)

theorem ident_no_eq {k : Str} (h : isIdent k = true) : ∀ c ∈ k, c ≠ 61 := by
  cases k with
  | nil => simp [isIdent] at h
  | cons a r =>
    simp only [isIdent, Bool.and_eq_true, Bool.or_eq_true, beq_iff_eq, List.all_eq_true, Str.isAlnum, Str.isAlpha,
      Str.isUpper, Str.isLower, Str.isDigit, decide_eq_true_eq] at h
    intro c hc
    rcases List.mem_cons.mp hc with rfl | hc
    · have := h.1; omega
    · have := h.2 c hc; omega

/-! ### the emitter's quoting decision on the alphabet -/

theorem wrapped_alpha {v : Str} (h : InAlphabet v) : wrapped v = false := by
  cases v with
  | nil => rfl
  | cons c r =>
    have hc : isQuoteCh c = false := by
      rcases h c (by simp) with h1 | h1
      · have := safe_facts h1; simp [isQuoteCh]; omega
      · have := meta_facts h1; simp [isQuoteCh]; omega
    simp [wrapped, hc]

theorem alpha_no_sq {v : Str} (h : InAlphabet v) : ∀ c ∈ v, c ≠ 39 := by
  intro c hc
  rcases h c hc with h1 | h1
  · exact (safe_facts h1).1
  · exact (meta_facts h1).1

/-- on the alphabet the emitter quotes exactly the values containing a metacharacter; the unquoted ones are safe -/
theorem emitVal_alpha {v : Str} (h : InAlphabet v) :
    (emitVal v = 39 :: (v ++ [39])) ∨ (emitVal v = v ∧ ∀ c ∈ v, isSafe c = true) := by
  unfold emitVal
  rw [wrapped_alpha h]
  by_cases hm : v.any needsQuote = true
  · left
    have : v.isEmpty = false := by cases v with
      | nil => simp at hm
      | cons _ _ => rfl
    simp [this, hm]
  · right
    have hm' : v.any needsQuote = false := by simpa using hm
    refine ⟨by simp [hm'], ?_⟩
    intro c hc
    rcases h c hc with h1 | h1
    · exact h1
    · exact absurd (List.any_eq_true.mpr ⟨c, hc, (meta_facts h1).2.2⟩) hm

theorem alpha_writable {v : Str} (h : InAlphabet v) : Writable v := Or.inl h

/-- the emitter's decision on a writable value: single-quoted (and then free of single quotes), or written as it is
(and then made of safe characters) -/
theorem emitVal_writable {v : Str} (h : Writable v) :
    (emitVal v = 39 :: (v ++ [39]) ∧ ∀ c ∈ v, c ≠ 39) ∨ (emitVal v = v ∧ ∀ c ∈ v, isSafe c = true) := by
  rcases h with h | ⟨hany, hw, hq⟩
  · rcases emitVal_alpha h with h1 | h1
    · exact Or.inl ⟨h1, alpha_no_sq h⟩
    · exact Or.inr h1
  · left
    refine ⟨?_, hq⟩
    have : v.isEmpty = false := by
      cases v with
      | nil => simp at hany
      | cons _ _ => rfl
    simp [emitVal, this, hw, hany]

/-! ### feeding characters -/

theorem feed_nil (st : Sh) : feed st [] = some st := rfl

theorem feed_cons (st : Sh) (c : Nat) (r : Str) : feed st (c :: r) = (stepChar st c).bind fun s => feed s r := by
  simp [feed, List.foldlM_cons]

theorem feed_append (st : Sh) (a b : Str) : feed st (a ++ b) = (feed st a).bind fun s => feed s b := by
  simp [feed, List.foldlM_append]

theorem stepChar_safe {st : Sh} {c : Nat} (hq : st.inq = false) (hc : isSafe c = true) :
    stepChar st c = some { st with cur := push st.cur c } := by
  have f := safe_facts hc
  simp [stepChar, hq, hc, f.1, f.2.1, f.2.2.1, f.2.2.2.1, f.2.2.2.2.1]

/-- unquoted safe characters extend the current word -/
theorem feed_safe (w : Str) : ∀ (st : Sh), st.inq = false → (∀ c ∈ w, isSafe c = true) → w ≠ [] →
    feed st w = some { st with cur := some (st.cur.getD [] ++ w) } := by
  induction w with
  | nil => intro st _ _ h; exact absurd rfl h
  | cons c r ih =>
    intro st hq hs _
    rw [feed_cons, stepChar_safe hq (hs c (by simp))]
    by_cases hr : r = []
    · subst hr; simp [feed_nil, push]
    · have := ih { st with cur := push st.cur c } hq (fun d hd => hs d (by simp [hd])) hr
      simp only [Option.bind_some] at this ⊢
      rw [this]
      simp [push]

/-- inside single quotes everything up to the closing quote is taken literally -/
theorem feed_quoted (v : Str) : ∀ (st : Sh) (a : Str), st.inq = true → st.cur = some a → (∀ c ∈ v, c ≠ 39) →
    feed st (v ++ [39]) = some { st with inq := false, cur := some (a ++ v) } := by
  induction v with
  | nil =>
    intro st a hq hc _
    simp [feed_cons, feed_nil, stepChar, hq, hc]
  | cons c r ih =>
    intro st a hq hc hv
    have hne : c ≠ 39 := hv c (by simp)
    rw [List.cons_append, feed_cons]
    have : stepChar st c = some { st with cur := some (a ++ [c]) } := by
      simp [stepChar, hq, hne, push, hc]
    rw [this]
    simp only [Option.bind_some]
    rw [ih { st with cur := some (a ++ [c]) } (a ++ [c]) hq rfl (fun d hd => hv d (by simp [hd]))]
    simp

/-! ### one emitted command -/

theorem splitEq_ident (k v : Str) (h : ∀ c ∈ k, c ≠ 61) : splitEq (k ++ 61 :: v) = some (k, v) := by
  induction k with
  | nil => simp [splitEq]
  | cons c r ih =>
    have hc : c ≠ 61 := h c (by simp)
    simp [splitEq, hc, ih (fun d hd => h d (by simp [hd]))]

/-- state after the words of a command have been read, before its terminator -/
def mid (env : Env) (ws : List Str) (w1 : Str) : Sh := { env := env, args := ws, cur := some w1, inq := false }

theorem feed_keyword (env : Env) (kw : Str) (hkw : ∀ c ∈ kw, isSafe c = true) (hne : kw ≠ []) :
    feed (clean env) (kw ++ [32]) = some { env := env, args := [kw], cur := none, inq := false } := by
  rw [feed_append, feed_safe kw (clean env) rfl hkw hne]
  simp [feed_cons, feed_nil, stepChar, clean, endWord]

theorem feed_setVar (env : Env) (k v : Str) (hk : isIdent k = true) (hv : Writable v) :
    feed (clean env) (Cmd.text (.setVar k v)) = some (mid env [sExport] (k ++ 61 :: v)) := by
  have hks := ident_safe hk
  have hkne : k ≠ [] := by intro h; subst h; simp [isIdent] at hk
  have hk61 : ∀ c ∈ k ++ [61], isSafe c = true := by
    intro c hc
    rcases List.mem_append.mp hc with h | h
    · exact hks c h
    · simp at h; subst h; decide
  simp only [Cmd.text]
  rw [show sExport ++ [32] ++ k ++ [61] ++ emitVal v = (sExport ++ [32]) ++ ((k ++ [61]) ++ emitVal v) by simp,
    feed_append, feed_keyword env sExport (by decide) (by decide)]
  simp only [Option.bind_some]
  rw [feed_append, feed_safe (k ++ [61]) _ rfl hk61 (by simp)]
  simp only [Option.bind_some, Option.getD_none, List.nil_append]
  rcases emitVal_writable hv with ⟨h, hnq⟩ | ⟨h, hsafe⟩
  · rw [h, feed_cons]
    have : stepChar { env := env, args := [sExport], cur := some (k ++ [61]), inq := false } 39 =
        some { env := env, args := [sExport], cur := some (k ++ [61]), inq := true } := by
      simp [stepChar]
    rw [this]
    simp only [Option.bind_some]
    rw [feed_quoted v _ (k ++ [61]) rfl rfl hnq]
    simp [mid]
  · rw [h]
    by_cases hve : v = []
    · subst hve; simp [feed_nil, mid]
    · rw [feed_safe v _ rfl hsafe hve]
      simp [mid]

theorem feed_unsetVar (env : Env) (k : Str) (hk : isIdent k = true) :
    feed (clean env) (Cmd.text (.unsetVar k)) = some (mid env [sUnset] k) := by
  have hks := ident_safe hk
  have hkne : k ≠ [] := by intro h; subst h; simp [isIdent] at hk
  simp only [Cmd.text]
  rw [feed_append, feed_keyword env sUnset (by decide) (by decide)]
  simp only [Option.bind_some]
  rw [feed_safe k _ rfl hks hkne]
  simp [mid]

theorem exec_export (env : Env) (k v : Str) (hk : isIdent k = true) :
    exec env [sExport, k ++ 61 :: v] = some (env.set k v) := by
  simp [exec, exportArg, splitEq_ident k v (ident_no_eq hk), hk]

theorem ident_ne_dashF {k : Str} (hk : isIdent k = true) : k ≠ sDashF := by
  intro e; subst e; revert hk; decide

theorem exec_unset (env : Env) (k : Str) (hk : isIdent k = true) :
    exec env [sUnset, k] = some (env.unset k) := by
  have : (sUnset == sExport) = false := by decide
  simp [exec, this, unsetArg, hk, ident_ne_dashF hk]

theorem feed_aliasDel (env : Env) (k : Str) (hk : isIdent k = true) :
    feed (clean env) (Cmd.text (.aliasDel k)) = some (mid env [sUnset, sDashF] k) := by
  have hks := ident_safe hk
  have hkne : k ≠ [] := by intro h; subst h; simp [isIdent] at hk
  simp only [Cmd.text]
  rw [show sUnset ++ [32] ++ sDashF ++ [32] ++ k = (sUnset ++ [32]) ++ ((sDashF ++ [32]) ++ k) by simp,
    feed_append, feed_keyword env sUnset (by decide) (by decide)]
  simp only [Option.bind_some]
  rw [feed_append, feed_append, feed_safe sDashF _ rfl (by decide) (by decide)]
  simp only [Option.bind_some, Option.getD_none, List.nil_append]
  have : feed { env := env, args := [sUnset], cur := some sDashF, inq := false } [32] =
      some { env := env, args := [sUnset, sDashF], cur := none, inq := false } := by
    simp [feed_cons, feed_nil, stepChar, endWord]
  rw [this]
  simp only [Option.bind_some]
  rw [feed_safe k _ rfl hks hkne]
  simp [mid]

theorem exec_unset_f (env : Env) (k : Str) (hk : isIdent k = true) :
    exec env [sUnset, sDashF, k] = some env := by
  have : (sUnset == sExport) = false := by decide
  simp [exec, this, hk]

/-- a good command leaves the reader with words whose execution is the command's effect -/
theorem feed_good (env : Env) (c : Cmd) (h : c.Good) :
    ∃ ws w1, feed (clean env) c.text = some (mid env ws w1) ∧ exec env (ws ++ [w1]) = some (c.apply env) := by
  cases c with
  | setVar k v => exact ⟨_, _, feed_setVar env k v h.1 h.2, exec_export env k v h.1⟩
  | unsetVar k => exact ⟨_, _, feed_unsetVar env k h, exec_unset env k h⟩
  | aliasDef k v => exact absurd h (by simp [Cmd.Good])
  | aliasDel k => exact ⟨_, _, feed_aliasDel env k h, exec_unset_f env k h⟩

theorem step_semicolon (env : Env) (ws : List Str) (w1 : Str) (e' : Env) (h : exec env (ws ++ [w1]) = some e') :
    stepChar (mid env ws w1) 59 = some (clean e') := by
  simp [stepChar, mid, endWord, h]

theorem step_newline_mid (env : Env) (ws : List Str) (w1 : Str) (e' : Env) (h : exec env (ws ++ [w1]) = some e') :
    stepChar (mid env ws w1) 10 = some (clean e') := by
  simp [stepChar, mid, endWord, h]

theorem step_newline_clean (env : Env) : stepChar (clean env) 10 = some (clean env) := by
  simp [stepChar, clean, endWord, exec]

theorem finish_mid (env : Env) (ws : List Str) (w1 : Str) : finish (mid env ws w1) = exec env (ws ++ [w1]) := by
  simp [finish, mid, endWord]

theorem finish_clean (env : Env) : finish (clean env) = some env := by
  simp [finish, clean, endWord, exec]

/-- `";\n".join` of good commands, optionally followed by the newline `print` adds: the shell's environment is
the commands' effects applied in order -/
theorem shEval_join (cmds : List Cmd) (hg : ∀ c ∈ cmds, c.Good) (nl : Bool) : ∀ env : Env,
    shEval env (join (cmds.map Cmd.text) ++ (if nl then [10] else [])) =
      some (applyAll cmds env) := by
  induction cmds with
  | nil =>
    intro env
    cases nl
    · simp [join, shEval, feed_nil, finish_clean, applyAll_nil]
    · simp [join, shEval, feed_cons, feed_nil, step_newline_clean, finish_clean, applyAll_nil]
  | cons c rest ih =>
    intro env
    obtain ⟨ws, w1, hf, he⟩ := feed_good env c (hg c (by simp))
    cases rest with
    | nil =>
      simp only [List.map_cons, List.map_nil, join, applyAll_cons, applyAll_nil]
      cases nl
      · simp [shEval, hf, finish_mid, he]
      · simp [shEval, feed_append, hf, feed_cons, feed_nil, step_newline_mid _ _ _ _ he, finish_clean]
    | cons c2 rest2 =>
      have ih' := ih (fun d hd => hg d (by simp [hd])) (c.apply env)
      simp only [List.map_cons, join, applyAll_cons] at ih' ⊢
      simp only [shEval] at ih' ⊢
      rw [List.append_assoc, List.append_assoc, feed_append, hf]
      simp only [Option.bind_some, List.cons_append, List.nil_append]
      rw [feed_cons, step_semicolon _ _ _ _ he]
      simp only [Option.bind_some]
      rw [feed_cons, step_newline_clean]
      simp only [Option.bind_some]
      exact ih'

/-! ### what the emitted commands do to the caller's environment -/

/-- `old` is the caller's environment `base` with some values forgotten (`--force`) -/
def Tracks (old : OldEnv) (base : Env) : Prop :=
  old.map (·.1) = base.map (·.1) ∧ ∀ k v, old.lookup k = some (some v) → base.get k = some v

theorem tracks_ofEnv (base : Env) : Tracks (OldEnv.ofEnv base) base := by
  constructor
  · simp [OldEnv.ofEnv, List.map_map, Function.comp_def]
  · induction base with
    | nil => intro k v h; simp [OldEnv.ofEnv, OldEnv.lookup] at h
    | cons p rest ih =>
      obtain ⟨k', v'⟩ := p
      intro k v h
      simp only [OldEnv.ofEnv, List.map_cons, OldEnv.lookup] at h
      by_cases hk : k' = k
      · simp only [hk, if_true, Option.some.injEq] at h
        simp [Env.get, hk, h]
      · simp only [hk, if_false] at h
        simp only [Env.get, hk, if_false]
        exact ih k v h

theorem lookup_forget (o : OldEnv) (k k2 : Str) (v : Str) (h : (o.forget k).lookup k2 = some (some v)) :
    o.lookup k2 = some (some v) := by
  induction o with
  | nil => simp [OldEnv.forget, OldEnv.lookup] at h
  | cons p rest ih =>
    obtain ⟨k', v'⟩ := p
    simp only [OldEnv.forget, List.map_cons] at h
    by_cases hk : k' = k
    · simp only [hk, if_true, OldEnv.lookup] at h ⊢
      by_cases hk2 : k = k2
      · simp [hk2] at h
      · simp only [hk2, if_false] at h ⊢
        exact ih h
    · simp only [hk, if_false, OldEnv.lookup] at h ⊢
      by_cases hk2 : k' = k2
      · simpa [hk2] using h
      · simp only [hk2, if_false] at h ⊢
        exact ih h

theorem tracks_forget {old : OldEnv} {base : Env} (h : Tracks old base) (k : Str) : Tracks (old.forget k) base := by
  constructor
  · rw [← h.1]
    simp only [OldEnv.forget, List.map_map]
    apply List.map_congr_left
    intro p _
    simp only [Function.comp]
    split <;> rfl
  · intro k2 v hl
    exact h.2 k2 v (lookup_forget old k k2 v hl)

/-- the `export` part: after it every variable of `new` has its new value and the others are untouched -/
theorem exports_spec (o : Opts) (hh : o.noaction = false) (old : OldEnv) (new : Env)
    (hnd : (new.map (·.1)).Nodup) : ∀ e : Env,
    (∀ p ∈ new, old.lookup p.1 = some (some p.2) → e.get p.1 = some p.2) →
    ∀ k, (applyAll (new.filterMap (setCmd? o old)) e).get k =
      (match Env.get new k with | some v => some v | none => e.get k) := by
  induction new with
  | nil => intro e _ k; simp [Env.get, applyAll_nil]
  | cons p rest ih =>
    obtain ⟨k0, v0⟩ := p
    intro e hskip k
    have hnd' : (rest.map (·.1)).Nodup := (List.nodup_cons.mp hnd).2
    have hk0 : k0 ∉ rest.map (·.1) := (List.nodup_cons.mp hnd).1
    have hget0 : Env.get rest k0 = none := by
      clear ih hskip hnd hnd'
      induction rest with
      | nil => rfl
      | cons q r ihr =>
        obtain ⟨kq, vq⟩ := q
        have : kq ≠ k0 := fun h => hk0 (by simp [h])
        simp only [Env.get, this, if_false]
        exact ihr (fun hm => hk0 (by simp [hm]))
    have hhid : hidden o k0 = false := by simp [hidden, hh]
    by_cases hs : old.lookup k0 = some (some v0)
    · -- unchanged: nothing emitted
      have : setCmd? o old (k0, v0) = none := by simp [setCmd?, hs]
      simp only [List.filterMap_cons, this]
      rw [ih hnd' e (fun q hq => hskip q (by simp [hq])) k]
      by_cases hk : k0 = k
      · subst hk
        simp [Env.get, hget0, hskip (k0, v0) (by simp) hs]
      · simp [Env.get, hk]
    · have : setCmd? o old (k0, v0) = some (Cmd.setVar k0 v0) := by simp [setCmd?, hs, hhid]
      simp only [List.filterMap_cons, this, applyAll_cons, apply_setVar]
      have hskip' : ∀ q ∈ rest, old.lookup q.1 = some (some q.2) → (e.set k0 v0).get q.1 = some q.2 := by
        intro q hq hl
        have hne : q.1 ≠ k0 := fun h => hk0 (List.mem_map.mpr ⟨q, hq, h⟩)
        rw [Env.get_set_other e k0 v0 q.1 hne]
        exact hskip q (by simp [hq]) hl
      rw [ih hnd' (e.set k0 v0) hskip' k]
      by_cases hk : k0 = k
      · subst hk
        simp [Env.get, hget0, Env.get_set_same]
      · simp only [Env.get, hk, if_false]
        rw [Env.get_set_other e k0 v0 k (fun h => hk h.symm)]

/-- the `unset` part -/
theorem unsets_spec (o : Opts) (new : Env) (old : OldEnv) : ∀ (e : Env) (k : Str),
    (applyAll (old.filterMap (unsetCmd? o new)) e).get k =
      if old.any (fun p => p.1 == k && (unsetCmd? o new p).isSome) then none else e.get k := by
  induction old with
  | nil => intro e k; simp [applyAll_nil]
  | cons p rest ih =>
    intro e k
    cases hc : unsetCmd? o new p with
    | none =>
      simp only [List.filterMap_cons, hc, List.any_cons, Option.isSome_none, Bool.and_false, Bool.false_or]
      exact ih e k
    | some c =>
      have hcv : c = Cmd.unsetVar p.1 := by
        simp only [unsetCmd?] at hc
        split at hc; · cases hc
        split at hc; · cases hc
        split at hc; · cases hc
        exact (Option.some.inj hc).symm
      subst hcv
      simp only [List.filterMap_cons, hc, applyAll_cons, apply_unsetVar, List.any_cons, Option.isSome_some,
        Bool.and_true]
      rw [ih (e.unset p.1) k]
      by_cases hk : p.1 = k
      · subst hk
        simp [Env.get_unset_same]
      · have : (p.1 == k) = false := by simpa using hk
        simp only [this, Bool.false_or]
        rw [Env.get_unset_other e p.1 k (fun h => hk h.symm)]

theorem get_isSome_mem_keys (e : Env) (k : Str) (h : (e.get k).isSome = true) : k ∈ e.map (·.1) := by
  induction e with
  | nil => simp [Env.get] at h
  | cons p rest ih =>
    obtain ⟨k', v'⟩ := p
    by_cases hk : k' = k
    · simp [hk]
    · simp only [Env.get, hk, if_false] at h
      simp [ih h]

/-- the whole command list, applied to the caller's environment, yields the computed environment -/
theorem emitVars_apply (old : OldEnv) (base new : Env) (ht : Tracks old base)
    (hnd : (new.map (·.1)).Nodup)
    (hprot : ∀ k, isProtected k = true → base.has k = true → new.has k = true) :
    SameEnv (applyAll (emitVarsOn {} old new) base) new := by
  intro k
  simp only [emitVarsOn, applyAll_append]
  rw [unsets_spec, exports_spec {} rfl old new hnd base (fun p _ hl => ht.2 p.1 p.2 hl) k]
  cases hn : new.get k with
  | some v =>
    have : old.any (fun p => p.1 == k && (unsetCmd? {} new p).isSome) = false := by
      apply List.any_eq_false.mpr
      intro p _
      by_cases hk : p.1 = k
      · subst hk
        simp [unsetCmd?, Env.has, hn]
      · simp [hk]
    simp [this]
  | none =>
    simp only
    split
    · rfl
    · rename_i hany
      cases hb : base.get k with
      | none => rfl
      | some vb =>
        exfalso
        apply hany
        have hmem : k ∈ old.map (·.1) := by
          rw [ht.1]; exact get_isSome_mem_keys base k (by simp [hb])
        obtain ⟨p, hp, hpk⟩ := List.mem_map.mp hmem
        apply List.any_eq_true.mpr
        refine ⟨p, hp, ?_⟩
        have hnh : new.has k = false := by simp [Env.has, hn]
        have hpr : isProtected k = false := by
          cases hx : isProtected k with
          | false => rfl
          | true => rw [hprot k hx (by simp [Env.has, hb])] at hnh; cases hnh
        simp [unsetCmd?, hpk, hnh, hpr, hidden]

/-! ### the text `emitText` is the join of the commands' texts, and every command is good -/

theorem render_default (c : Cmd) : render {} c = some c.text := by
  cases c <;> simp [render, echoWrap, Cmd.text]

theorem emitText_eq (old : OldEnv) (new : Env) :
    emitText old new = join ((emitVarsOn {} old new).map Cmd.text) := by
  have : ∀ l : List Cmd, l.filterMap (render {}) = l.map Cmd.text := by
    intro l
    induction l with
    | nil => rfl
    | cons c r ih => simp [render_default, ih]
  simp [emitText, emitVars, finalEnv, this]

theorem lookup_ofEnv (base : Env) (k : Str) : (OldEnv.ofEnv base).lookup k = (base.get k).map some := by
  induction base with
  | nil => rfl
  | cons p rest ih =>
    obtain ⟨k', v'⟩ := p
    by_cases hk : k' = k
    · simp [OldEnv.ofEnv, OldEnv.lookup, Env.get, hk]
    · simp only [OldEnv.ofEnv, List.map_cons, OldEnv.lookup, Env.get, hk, if_false]
      exact ih

theorem emitVars_good (old : OldEnv) (base new : Env) (ht : Tracks old base)
    (hidb : ∀ p ∈ base, isIdent p.1 = true) (hidn : ∀ p ∈ new, isIdent p.1 = true)
    (halpha : ∀ p ∈ new, old.lookup p.1 ≠ some (some p.2) → Writable p.2) :
    ∀ c ∈ emitVarsOn {} old new, c.Good := by
  intro c hc
  simp only [emitVarsOn, List.mem_append, List.mem_filterMap] at hc
  rcases hc with ⟨p, hp, hpc⟩ | ⟨p, hp, hpc⟩
  · simp only [setCmd?] at hpc
    split at hpc; · cases hpc
    rename_i hl
    split at hpc; · cases hpc
    cases hpc
    exact ⟨hidn p hp, halpha p hp (by simpa using hl)⟩
  · simp only [unsetCmd?] at hpc
    split at hpc; · cases hpc
    split at hpc; · cases hpc
    split at hpc; · cases hpc
    cases hpc
    have : p.1 ∈ base.map (·.1) := by rw [← ht.1]; exact List.mem_map.mpr ⟨p, hp, rfl⟩
    obtain ⟨q, hq, hqk⟩ := List.mem_map.mp this
    show isIdent p.1 = true
    rw [← hqk]; exact hidb q hq

/-- C05 in its general form: `old` is the caller's environment with any set of values forgotten -/
theorem roundtrip_tracks (old : OldEnv) (base new : Env) (ht : Tracks old base)
    (hidb : ∀ p ∈ base, isIdent p.1 = true) (hidn : ∀ p ∈ new, isIdent p.1 = true)
    (hnd : (new.map (·.1)).Nodup)
    (halpha : ∀ p ∈ new, old.lookup p.1 ≠ some (some p.2) → Writable p.2)
    (hprot : ∀ k, isProtected k = true → base.has k = true → new.has k = true) (nl : Bool) :
    ∃ e, shEval base (emitText old new ++ (if nl then [10] else [])) = some e ∧ SameEnv e new := by
  refine ⟨applyAll (emitVarsOn {} old new) base, ?_, emitVars_apply old base new ht hnd hprot⟩
  rw [emitText_eq]
  exact shEval_join _ (emitVars_good old base new ht hidb hidn halpha) nl base

theorem tracks_run (base : Env) (a : Act) (s : SetupSt) (h : Tracks s.old base) : Tracks (a.run false s).old base := by
  cases a with
  | envSet f d k v =>
    simp only [Act.run, envSetAct, Bool.false_eq_true, if_false]
    cases f <;> cases d <;> simp only [if_true, Bool.false_eq_true, if_false] <;> (try split) <;>
      first | exact h | exact tracks_forget h k
  | path f k v =>
    simp only [Act.run, pathAct, Bool.false_eq_true, if_false]
    cases f
    · exact h
    · exact tracks_forget h k
  | unset k => exact h
  | alias f d k v =>
    simp only [Act.run, aliasAct]
    split <;> exact h
  | push => exact h
  | pop =>
    simp only [Act.run, popAct]
    split <;> exact h
  | drop => exact h

theorem tracks_runActs (acts : List Act) (base : Env) : Tracks (runActs false acts base).old base := by
  have : ∀ (s : SetupSt), Tracks s.old base → Tracks (acts.foldl (fun s a => a.run false s) s).old base := by
    induction acts with
    | nil => intro s h; exact h
    | cons a r ih => intro s h; exact ih _ (tracks_run base a s h)
  exact this _ (tracks_ofEnv base)

/-! ### unquoted text never establishes a value that contains a metacharacter -/

theorem safe_not_meta {c : Nat} (h : isSafe c = true) : isShMeta c = false := by
  simp only [isSafe, Str.isAlnum, Str.isAlpha, Str.isUpper, Str.isLower, Str.isDigit, Bool.or_eq_true,
    Bool.and_eq_true, decide_eq_true_eq, beq_iff_eq] at h
  simp only [isShMeta, Bool.or_eq_false_iff, beq_eq_false_iff_ne]
  omega

def NoMeta (w : Str) : Prop := ∀ c ∈ w, isShMeta c = false

theorem splitEq_mem (w a b : Str) (h : splitEq w = some (a, b)) : ∀ c ∈ b, c ∈ w := by
  induction w generalizing a with
  | nil => simp [splitEq] at h
  | cons d r ih =>
    simp only [splitEq] at h
    split at h
    · cases h; intro c hc; simp [hc]
    · cases hs : splitEq r with
      | none => simp [hs] at h
      | some p =>
        simp only [hs, Option.map_some, Option.some.injEq, Prod.mk.injEq] at h
        intro c hc
        have := ih p.1 (by rw [← h.2, hs]) c hc
        simp [this]

theorem foldlM_inv {α β : Type} (P : α → Prop) (f : α → β → Option α) (l : List β) :
    ∀ a a', (∀ x ∈ l, ∀ e e', P e → f e x = some e' → P e') → P a → l.foldlM f a = some a' → P a' := by
  induction l with
  | nil => intro a a' _ hp h; simp [List.foldlM] at h; exact h ▸ hp
  | cons x r ih =>
    intro a a' hstep hp h
    simp only [List.foldlM_cons] at h
    cases hx : f a x with
    | none => simp [hx] at h
    | some a1 =>
      simp only [hx, Option.bind_eq_bind, Option.bind_some] at h
      exact ih a1 a' (fun y hy => hstep y (by simp [hy])) (hstep x (by simp) a a1 hp hx) h

section quote
variable (k v : Str) (hm : v.any isShMeta = true)
include hm

theorem noMeta_ne (w : Str) (hw : NoMeta w) : w ≠ v := by
  intro h; subst h
  obtain ⟨c, hc, hcm⟩ := List.any_eq_true.mp hm
  rw [hw c hc] at hcm; cases hcm

theorem exportArg_inv (env e : Env) (w : Str) (hw : NoMeta w) (hp : env.get k ≠ some v)
    (h : exportArg env w = some e) : e.get k ≠ some v := by
  simp only [exportArg] at h
  cases hs : splitEq w with
  | none =>
    simp only [hs] at h
    split at h
    · cases h; exact hp
    · cases h
  | some p =>
    obtain ⟨a, b⟩ := p
    simp only [hs] at h
    split at h
    · cases h
      by_cases hk : k = a
      · subst hk
        rw [Env.get_set_same]
        intro hh
        exact noMeta_ne v hm b (fun c hc => hw c (splitEq_mem w k b hs c hc)) (Option.some.inj hh)
      · rw [Env.get_set_other env a b k hk]; exact hp
    · cases h

omit hm in
theorem unsetArg_inv (env e : Env) (w : Str) (hp : env.get k ≠ some v) (h : unsetArg env w = some e) :
    e.get k ≠ some v := by
  simp only [unsetArg] at h
  split at h
  · cases h
    by_cases hk : k = w
    · subst hk; simp [Env.get_unset_same]
    · rw [Env.get_unset_other env w k hk]; exact hp
  · cases h

theorem exec_inv (env e : Env) (args : List Str) (ha : ∀ w ∈ args, NoMeta w) (hp : env.get k ≠ some v)
    (h : exec env args = some e) : e.get k ≠ some v := by
  cases args with
  | nil => simp [exec] at h; exact h ▸ hp
  | cons w r =>
    simp only [exec] at h
    split at h
    · split at h
      · cases h
      · exact foldlM_inv (fun e => e.get k ≠ some v) exportArg r env e
          (fun x hx e1 e2 hp1 hx1 => exportArg_inv k v hm e1 e2 x (ha x (by simp [hx])) hp1 hx1) hp h
    · split at h
      · split at h
        · split at h
          · cases h; exact hp
          · cases h
        · exact foldlM_inv (fun e => e.get k ≠ some v) unsetArg r env e
            (fun x _ e1 e2 hp1 hx1 => unsetArg_inv k v e1 e2 x hp1 hx1) hp h
      · split at h
        · cases h; exact hp
        · cases h

/-- invariant of the reader on text without quotes -/
def QInv (st : Sh) : Prop :=
  st.inq = false ∧ (∀ w ∈ st.args, NoMeta w) ∧ (∀ w, st.cur = some w → NoMeta w) ∧ st.env.get k ≠ some v

omit hm in
theorem endWord_args (st : Sh) (h1 : ∀ w ∈ st.args, NoMeta w) (h2 : ∀ w, st.cur = some w → NoMeta w) :
    ∀ w ∈ (endWord st).args, NoMeta w := by
  unfold endWord
  cases hc : st.cur with
  | none => simpa using h1
  | some w0 =>
    intro w hw
    simp only [List.mem_append, List.mem_singleton] at hw
    rcases hw with hw | hw
    · exact h1 w hw
    · subst hw; exact h2 w hc

theorem stepChar_inv (st st' : Sh) (c : Nat) (hc : c ≠ 39) (hi : QInv k v st) (h : stepChar st c = some st') :
    QInv k v st' := by
  obtain ⟨hq, ha, hcur, hp⟩ := hi
  simp only [stepChar, hq, Bool.false_eq_true, if_false, beq_iff_eq, hc] at h
  split at h
  · cases h
    refine ⟨?_, endWord_args st ha hcur, ?_, ?_⟩
    · unfold endWord; split <;> simp [hq]
    · unfold endWord; split
      · exact hcur
      · intro w hw; cases hw
    · unfold endWord; split <;> exact hp
  · split at h
    · cases he : exec st.env (endWord st).args with
      | none => simp [he] at h
      | some e =>
        simp only [he, Option.map_some, Option.some.injEq] at h
        subst h
        exact ⟨rfl, by simp [clean], by simp [clean],
          exec_inv k v hm st.env e _ (endWord_args st ha hcur) hp he⟩
    · split at h
      · split at h
        · cases h
        · cases he : exec st.env (endWord st).args with
          | none => simp [he] at h
          | some e =>
            simp only [he, Option.map_some, Option.some.injEq] at h
            subst h
            exact ⟨rfl, by simp [clean], by simp [clean],
              exec_inv k v hm st.env e _ (endWord_args st ha hcur) hp he⟩
      · split at h
        · rename_i hs
          cases h
          refine ⟨rfl, ha, ?_, hp⟩
          intro w hw
          simp only [push, Option.some.injEq] at hw
          subst hw
          intro d hd
          simp only [List.mem_append, List.mem_singleton] at hd
          rcases hd with hd | hd
          · cases hcc : st.cur with
            | none => simp [hcc] at hd
            | some w0 => simp only [hcc, Option.getD_some] at hd; exact hcur w0 hcc d hd
          · subst hd; exact safe_not_meta hs
        · cases h

theorem feed_inv (text : Str) (hq : ∀ c ∈ text, c ≠ 39) : ∀ st st', QInv k v st → feed st text = some st' →
    QInv k v st' := by
  induction text with
  | nil => intro st st' hi h; simp [feed_nil] at h; exact h ▸ hi
  | cons c r ih =>
    intro st st' hi h
    rw [feed_cons] at h
    cases hs : stepChar st c with
    | none => simp [hs] at h
    | some s1 =>
      simp only [hs, Option.bind_some] at h
      exact ih (fun d hd => hq d (by simp [hd])) s1 st' (stepChar_inv k v hm st s1 c (hq c (by simp)) hi hs) h

/-- unquoted text never gives a variable a value that contains a metacharacter -/
theorem unquoted_never_meta (env : Env) (text : Str) (hq : ∀ c ∈ text, c ≠ 39) (h0 : env.get k ≠ some v) :
    ∀ e, shEval env text = some e → e.get k ≠ some v := by
  intro e h
  simp only [shEval] at h
  cases hf : feed (clean env) text with
  | none => simp [hf] at h
  | some st =>
    simp only [hf, Option.bind_some] at h
    have hi : QInv k v st := feed_inv k v hm text hq (clean env) st
      ⟨rfl, by simp [clean], by simp [clean], h0⟩ hf
    simp only [finish, hi.1, Bool.false_eq_true, if_false] at h
    exact exec_inv k v hm st.env e _ (endWord_args st hi.2.1 hi.2.2.1) hi.2.2.2 h

end quote

end EupsModel.ShellEmit

namespace EupsModel.ShellEmit

/-! ### removed aliases -/

theorem mapM_render_default (l : List Cmd) : l.mapM (render {}) = some (l.map Cmd.text) := by
  induction l with
  | nil => rfl
  | cons c r ih => simp [List.mapM_cons, render_default, ih]

theorem emitAliases_nil (oa : List (Str × Option Str)) :
    emitAliases [] oa = oa.map fun p => Cmd.aliasDel p.1 := by
  simp only [emitAliases, List.filterMap_nil, List.nil_append, List.any_nil, Bool.false_eq_true, if_false]
  induction oa with
  | nil => rfl
  | cons p r ih => simp only [List.filterMap_cons, List.map_cons, ih]

theorem applyAll_aliasDels (oa : List (Str × Option Str)) (e : Env) :
    applyAll (oa.map fun p => Cmd.aliasDel p.1) e = e := by
  induction oa with
  | nil => rfl
  | cons p r ih => simp only [List.map_cons, applyAll_cons, Cmd.apply]; exact ih

end EupsModel.ShellEmit

namespace EupsModel.ShellEmit

/-! ### `unsetup eups`: any options without `-n` -/

/-- `emitVars_apply` for any options without `-n`: when the product is eups itself no variable is protected -/
theorem emitVarsOn_apply (o : Opts) (hna : o.noaction = false) (old : OldEnv) (base new : Env) (ht : Tracks old base)
    (hnd : (new.map (·.1)).Nodup)
    (hprot : o.isEups = true ∨ ∀ k, isProtected k = true → base.has k = true → new.has k = true) :
    SameEnv (applyAll (emitVarsOn o old new) base) new := by
  intro k
  have hhid : ∀ x, hidden o x = false := fun x => by simp [hidden, hna]
  simp only [emitVarsOn, applyAll_append]
  rw [unsets_spec, exports_spec o hna old new hnd base (fun p _ hl => ht.2 p.1 p.2 hl) k]
  cases hn : new.get k with
  | some v =>
    have : old.any (fun p => p.1 == k && (unsetCmd? o new p).isSome) = false := by
      apply List.any_eq_false.mpr
      intro p _
      by_cases hk : p.1 = k
      · subst hk
        simp [unsetCmd?, Env.has, hn]
      · simp [hk]
    simp [this]
  | none =>
    simp only
    split
    · rfl
    · rename_i hany
      cases hb : base.get k with
      | none => rfl
      | some vb =>
        exfalso
        apply hany
        have hmem : k ∈ old.map (·.1) := by
          rw [ht.1]; exact get_isSome_mem_keys base k (by simp [hb])
        obtain ⟨p, hp, hpk⟩ := List.mem_map.mp hmem
        apply List.any_eq_true.mpr
        refine ⟨p, hp, ?_⟩
        have hnh : new.has k = false := by simp [Env.has, hn]
        have hpr : (!o.isEups && isProtected k) = false := by
          rcases hprot with h | h
          · simp [h]
          · cases hx : isProtected k with
            | false => simp
            | true => rw [h k hx (by simp [Env.has, hb])] at hnh; cases hnh
        simp [unsetCmd?, hpk, hnh, hpr, hhid]

theorem emitVarsOn_good (o : Opts) (old : OldEnv) (base new : Env) (ht : Tracks old base)
    (hidb : ∀ p ∈ base, isIdent p.1 = true) (hidn : ∀ p ∈ new, isIdent p.1 = true)
    (halpha : ∀ p ∈ new, old.lookup p.1 ≠ some (some p.2) → Writable p.2) :
    ∀ c ∈ emitVarsOn o old new, c.Good := by
  intro c hc
  simp only [emitVarsOn, List.mem_append, List.mem_filterMap] at hc
  rcases hc with ⟨p, hp, hpc⟩ | ⟨p, hp, hpc⟩
  · simp only [setCmd?] at hpc
    split at hpc; · cases hpc
    rename_i hl
    split at hpc; · cases hpc
    cases hpc
    exact ⟨hidn p hp, halpha p hp (by simpa using hl)⟩
  · simp only [unsetCmd?] at hpc
    split at hpc; · cases hpc
    split at hpc; · cases hpc
    split at hpc; · cases hpc
    cases hpc
    have : p.1 ∈ base.map (·.1) := by rw [← ht.1]; exact List.mem_map.mpr ⟨p, hp, rfl⟩
    obtain ⟨q, hq, hqk⟩ := List.mem_map.mp this
    show isIdent p.1 = true
    rw [← hqk]; exact hidb q hq

/-- the options of `unsetup eups` -/
def unsetupEups : Opts := { isEups := true, fwd := false }

theorem render_unsetupEups (c : Cmd) : render unsetupEups c = some c.text := by
  cases c <;> simp [render, echoWrap, Cmd.text, unsetupEups]

theorem mapM_render_unsetupEups (l : List Cmd) : l.mapM (render unsetupEups) = some (l.map Cmd.text) := by
  induction l with
  | nil => rfl
  | cons c r ih => simp [List.mapM_cons, render_unsetupEups, ih]

end EupsModel.ShellEmit
