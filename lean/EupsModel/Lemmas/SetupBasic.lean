import EupsModel.Model.Setup
import EupsModel.Lemmas.PathAlg
/-! Basic lemmas for the setup model: association lists, `uniq`, environment updates, database lookups. -/
namespace EupsModel.Setup

/-! ## association lists -/
section AList
variable {κ β : Type} [DecidableEq κ]

theorem aget_aunset_same (l : List (κ × β)) (k : κ) : aget (aunset l k) k = none := by
  induction l with
  | nil => simp [aunset, aget]
  | cons p rest ih =>
    obtain ⟨k', v'⟩ := p
    by_cases h : k' = k
    · simpa [aunset, List.filter_cons, h] using ih
    · simpa [aunset, List.filter_cons, h, aget] using ih

theorem aget_aunset_other (l : List (κ × β)) (k k2 : κ) (h : k2 ≠ k) : aget (aunset l k) k2 = aget l k2 := by
  induction l with
  | nil => simp [aunset, aget]
  | cons p rest ih =>
    obtain ⟨k', v'⟩ := p
    by_cases h1 : k' = k
    · subst h1
      have : k' ≠ k2 := fun e => h e.symm
      simpa [aunset, List.filter_cons, aget, this] using ih
    · by_cases h2 : k' = k2
      · subst h2; simp [aunset, h1, aget]
      · simpa [aunset, List.filter_cons, h1, aget, h2] using ih

theorem aget_aset_same (l : List (κ × β)) (k : κ) (v : β) : aget (aset l k v) k = some v := by
  simp [aset, aget]

theorem aget_aset_other (l : List (κ × β)) (k k2 : κ) (v : β) (h : k2 ≠ k) : aget (aset l k v) k2 = aget l k2 := by
  have : k ≠ k2 := fun e => h e.symm
  simp [aset, aget, this, aget_aunset_other l k k2 h]

theorem aget_aunset_some (l : List (κ × β)) (k k2 : κ) (x : β) (h : aget (aunset l k) k2 = some x) :
    aget l k2 = some x ∧ k2 ≠ k := by
  by_cases hk : k2 = k
  · subst hk; rw [aget_aunset_same] at h; cases h
  · rw [aget_aunset_other l k k2 hk] at h; exact ⟨h, hk⟩

theorem aget_mem (l : List (κ × β)) (k : κ) (v : β) (h : aget l k = some v) : (k, v) ∈ l := by
  induction l with
  | nil => simp [aget] at h
  | cons p rest ih =>
    obtain ⟨k', v'⟩ := p
    by_cases h1 : k' = k
    · subst h1; simp [aget] at h; subst h; simp
    · simp [aget, h1] at h; exact List.mem_cons_of_mem _ (ih h)

end AList

/-! ## environments -/

@[simp] theorem addPath_recs (e : Env) (var : Str) (x : Elem) (b : Bool) : (e.addPath var x b).recs = e.recs := rfl
@[simp] theorem addPath_dirs (e : Env) (var : Str) (x : Elem) (b : Bool) : (e.addPath var x b).dirs = e.dirs := rfl
@[simp] theorem addPath_vars (e : Env) (var : Str) (x : Elem) (b : Bool) : (e.addPath var x b).vars = e.vars := rfl
@[simp] theorem removePath_recs (e : Env) (var : Str) (x : Elem) : (e.removePath var x).recs = e.recs := rfl
@[simp] theorem removePath_dirs (e : Env) (var : Str) (x : Elem) : (e.removePath var x).dirs = e.dirs := rfl
@[simp] theorem removePath_vars (e : Env) (var : Str) (x : Elem) : (e.removePath var x).vars = e.vars := rfl
@[simp] theorem addPath_rec? (e : Env) (var : Str) (x : Elem) (b : Bool) (n : Name) :
    (e.addPath var x b).rec? n = e.rec? n := rfl
@[simp] theorem removePath_rec? (e : Env) (var : Str) (x : Elem) (n : Name) :
    (e.removePath var x).rec? n = e.rec? n := rfl

theorem pathOf_addPath_other (e : Env) (var var2 : Str) (x : Elem) (b : Bool) (h : var2 ≠ var) :
    (e.addPath var x b).pathOf var2 = e.pathOf var2 := by
  simp [Env.addPath, Env.pathOf, aget_aset_other _ _ _ _ h]

theorem mem_pathOf_addPath_same (e : Env) (var : Str) (x y : Elem) (b : Bool) :
    y ∈ (e.addPath var x b).pathOf var ↔ y = x ∨ y ∈ e.pathOf var := by
  have : (e.addPath var x b).pathOf var =
      PathAlg.uniq (if b then e.pathOf var ++ [x] else x :: e.pathOf var) := by
    cases b <;> simp [Env.addPath, Env.pathOf, aget_aset_same, PathAlg.applyL, PathAlg.appendL, PathAlg.prependL]
  rw [this, PathAlg.mem_uniq]
  cases b <;> simp [or_comm]

theorem mem_pathOf_addPath (e : Env) (var var2 : Str) (x y : Elem) (b : Bool)
    (h : y ∈ (e.addPath var x b).pathOf var2) : (var2 = var ∧ y = x) ∨ y ∈ e.pathOf var2 := by
  by_cases hv : var2 = var
  · subst hv
    rcases (mem_pathOf_addPath_same e var2 x y b).1 h with h | h
    · exact Or.inl ⟨rfl, h⟩
    · exact Or.inr h
  · rw [pathOf_addPath_other e var var2 x b hv] at h; exact Or.inr h

theorem pathOf_removePath_other (e : Env) (var var2 : Str) (x : Elem) (h : var2 ≠ var) :
    (e.removePath var x).pathOf var2 = e.pathOf var2 := by
  simp [Env.removePath, Env.pathOf, aget_aset_other _ _ _ _ h]

theorem mem_pathOf_removePath_same (e : Env) (var : Str) (x y : Elem) :
    y ∈ (e.removePath var x).pathOf var ↔ y ∈ e.pathOf var ∧ y ≠ x := by
  have : (e.removePath var x).pathOf var = PathAlg.uniq ((e.pathOf var).filter (· != x)) := by
    simp [Env.removePath, Env.pathOf, aget_aset_same, PathAlg.applyL, PathAlg.removeL]
  rw [this, PathAlg.mem_uniq]; simp

theorem mem_pathOf_removePath (e : Env) (var var2 : Str) (x y : Elem)
    (h : y ∈ (e.removePath var x).pathOf var2) : y ∈ e.pathOf var2 ∧ (var2 = var → y ≠ x) := by
  by_cases hv : var2 = var
  · subst hv
    have := (mem_pathOf_removePath_same e var2 x y).1 h
    exact ⟨this.1, fun _ => this.2⟩
  · rw [pathOf_removePath_other e var var2 x hv] at h; exact ⟨h, fun e => absurd e hv⟩

/-! ## database -/

theorem lookup_some (db : Db) (p : Prod) (d : Decl) (h : db.lookup p = some d) :
    d ∈ db.decls ∧ d.name = p.1 ∧ d.ver = p.2 := by
  unfold Db.lookup at h
  have h1 := List.mem_of_find?_eq_some h
  have h2 := List.find?_some h
  simp at h2
  exact ⟨h1, h2.1, h2.2⟩

/-- the declaration is the one the database returns for its own (name, version) -/
def Canon (db : Db) (d : Decl) : Prop := db.lookup d.prod = some d

theorem lookup_canon (db : Db) (p : Prod) (d : Decl) (h : db.lookup p = some d) : Canon db d ∧ d.prod = p := by
  obtain ⟨_, h1, h2⟩ := lookup_some db p d h
  have hp : d.prod = p := by unfold Decl.prod; rw [h1, h2]
  exact ⟨by unfold Canon; rw [hp]; exact h, hp⟩

theorem setupProd_some (db : Db) (e : Env) (n : Name) (d : Decl) (h : setupProd db e n = some d) :
    Canon db d ∧ d.name = n ∧ e.rec? n = some d.ver := by
  unfold setupProd at h
  split at h
  · rename_i v hv
    obtain ⟨hc, hp⟩ := lookup_canon db (n, v) d h
    have h1 : d.name = n := congrArg Prod.fst hp
    have h2 : d.ver = v := congrArg Prod.snd hp
    exact ⟨hc, h1, by rw [hv, h2]⟩
  · cases h

theorem mem_actions (d : Decl) (exact : Bool) (a : Act) (h : a ∈ d.actions exact) : ∃ g, (g, a) ∈ d.table := by
  unfold Decl.actions at h
  simp only [List.mem_map, List.mem_filter] at h
  obtain ⟨⟨g, a'⟩, ⟨hm, _⟩, rfl⟩ := h
  exact ⟨g, hm⟩

end EupsModel.Setup
