import EupsModel.Model.Setup
import EupsModel.Lemmas.PathAlg
/-! Basic lemmas for the setup model: association lists, `uniq`, environment updates, database lookups. -/
namespace EupsModel.Setup

/-! ## association lists -/
section AList
variable {κ β : Type} [DecidableEq κ]

theorem aget_aunset_same (l : List (κ × β)) (k : κ) : aget (aunset l k) k = none := by
  induction l with
  | nil => simp [aunset, aget]
  | cons p rest ih =>
    obtain ⟨k', v'⟩ := p
    by_cases h : k' = k
    · simpa [aunset, List.filter_cons, h] using ih
    · simpa [aunset, List.filter_cons, h, aget] using ih

theorem aget_aunset_other (l : List (κ × β)) (k k2 : κ) (h : k2 ≠ k) : aget (aunset l k) k2 = aget l k2 := by
  induction l with
  | nil => simp [aunset, aget]
  | cons p rest ih =>
    obtain ⟨k', v'⟩ := p
    by_cases h1 : k' = k
    · subst h1
      have : k' ≠ k2 := fun e => h e.symm
      simpa [aunset, List.filter_cons, aget, this] using ih
    · by_cases h2 : k' = k2
      · subst h2; simp [aunset, h1, aget]
      · simpa [aunset, List.filter_cons, h1, aget, h2] using ih

theorem aget_aset_same (l : List (κ × β)) (k : κ) (v : β) : aget (aset l k v) k = some v := by
  simp [aset, aget]

theorem aget_aset_other (l : List (κ × β)) (k k2 : κ) (v : β) (h : k2 ≠ k) : aget (aset l k v) k2 = aget l k2 := by
  have : k ≠ k2 := fun e => h e.symm
  simp [aset, aget, this, aget_aunset_other l k k2 h]

theorem aget_aunset_some (l : List (κ × β)) (k k2 : κ) (x : β) (h : aget (aunset l k) k2 = some x) :
    aget l k2 = some x ∧ k2 ≠ k := by
  by_cases hk : k2 = k
  · subst hk; rw [aget_aunset_same] at h; cases h
  · rw [aget_aunset_other l k k2 hk] at h; exact ⟨h, hk⟩

theorem aget_mem (l : List (κ × β)) (k : κ) (v : β) (h : aget l k = some v) : (k, v) ∈ l := by
  induction l with
  | nil => simp [aget] at h
  | cons p rest ih =>
    obtain ⟨k', v'⟩ := p
    by_cases h1 : k' = k
    · subst h1; simp [aget] at h; subst h; simp
    · simp [aget, h1] at h; exact List.mem_cons_of_mem _ (ih h)

end AList

/-! ## environments -/

@[simp] theorem addPath_recs (e : Env) (var : Str) (xs : List Elem) (b : Bool) : (e.addPath var xs b).recs = e.recs := rfl
@[simp] theorem addPath_dirs (e : Env) (var : Str) (xs : List Elem) (b : Bool) : (e.addPath var xs b).dirs = e.dirs := rfl
@[simp] theorem addPath_vars (e : Env) (var : Str) (xs : List Elem) (b : Bool) : (e.addPath var xs b).vars = e.vars := rfl
@[simp] theorem removePath_recs (e : Env) (var : Str) (xs : List Elem) : (e.removePath var xs).recs = e.recs := rfl
@[simp] theorem removePath_dirs (e : Env) (var : Str) (xs : List Elem) : (e.removePath var xs).dirs = e.dirs := rfl
@[simp] theorem removePath_vars (e : Env) (var : Str) (xs : List Elem) : (e.removePath var xs).vars = e.vars := rfl
@[simp] theorem addPath_rec? (e : Env) (var : Str) (xs : List Elem) (b : Bool) (n : Name) :
    (e.addPath var xs b).rec? n = e.rec? n := rfl
@[simp] theorem removePath_rec? (e : Env) (var : Str) (xs : List Elem) (n : Name) :
    (e.removePath var xs).rec? n = e.rec? n := rfl

/-- the loop of `execute_envPrepend` over the pieces of the value, setup direction -/
def addAll (app : Bool) (xs old : List Elem) : List Elem :=
  xs.foldl (fun np v => if app then PathAlg.appendL v np else PathAlg.prependL v np) old
/-- … and unsetup direction -/
def removeAll (xs old : List Elem) : List Elem := xs.foldl (fun np v => PathAlg.removeL v np) old

theorem applyL_true (app : Bool) (xs old : List Elem) :
    PathAlg.applyL app true xs old = PathAlg.uniq (addAll app (PathAlg.loopVals app true xs) old) := by
  simp [PathAlg.applyL, addAll]

theorem applyL_false (app : Bool) (xs old : List Elem) : PathAlg.applyL app false xs old = PathAlg.uniq (removeAll xs old) := by
  simp [PathAlg.applyL, PathAlg.loopVals, removeAll]

theorem mem_addAll (app : Bool) (xs : List Elem) : ∀ old y, y ∈ addAll app xs old ↔ y ∈ xs ∨ y ∈ old := by
  induction xs with
  | nil => intro old y; simp [addAll]
  | cons x xs ih =>
    intro old y
    have : addAll app (x :: xs) old = addAll app xs (if app then PathAlg.appendL x old else PathAlg.prependL x old) := rfl
    rw [this, ih]
    cases app
    · simp only [Bool.false_eq_true, if_false, PathAlg.prependL, List.mem_cons]
      constructor
      · rintro (h | h | h)
        · exact Or.inl (Or.inr h)
        · exact Or.inl (Or.inl h)
        · exact Or.inr h
      · rintro ((h | h) | h)
        · exact Or.inr (Or.inl h)
        · exact Or.inl h
        · exact Or.inr (Or.inr h)
    · simp only [if_true, PathAlg.appendL, List.mem_cons, List.mem_append, List.mem_filter, List.not_mem_nil, or_false]
      by_cases hyx : y = x
      · subst hyx; simp
      · simp only [hyx, bne_iff_ne, ne_eq, not_false_eq_true, and_true, or_false, false_or]

theorem mem_removeAll (xs : List Elem) : ∀ old y, y ∈ removeAll xs old ↔ y ∈ old ∧ y ∉ xs := by
  induction xs with
  | nil => intro old y; simp [removeAll]
  | cons x xs ih =>
    intro old y
    have : removeAll (x :: xs) old = removeAll xs (PathAlg.removeL x old) := rfl
    rw [this, ih]
    simp [PathAlg.removeL]
    constructor
    · rintro ⟨⟨h1, h2⟩, h3⟩; exact ⟨h1, h2, h3⟩
    · rintro ⟨h1, h2, h3⟩; exact ⟨⟨h1, h2⟩, h3⟩

theorem filter_addAll (f : Elem → Bool) (app : Bool) (xs : List Elem) (hx : ∀ x ∈ xs, f x = false) :
    ∀ old, (addAll app xs old).filter f = old.filter f := by
  induction xs with
  | nil => intro old; rfl
  | cons x xs ih =>
    intro old
    have : addAll app (x :: xs) old = addAll app xs (if app then PathAlg.appendL x old else PathAlg.prependL x old) := rfl
    rw [this, ih (fun y hy => hx y (List.mem_cons_of_mem _ hy))]
    have hfx := hx x (by simp)
    cases app
    · simp [PathAlg.prependL, hfx]
    · simp only [if_true, PathAlg.appendL, List.filter_append, List.filter_filter]
      have hx1 : [x].filter f = [] := by simp [hfx]
      rw [hx1, List.append_nil]
      apply List.filter_congr
      intro a _
      by_cases ha : a = x
      · subst ha; simp [hfx]
      · simp [ha]

theorem filter_removeAll (f : Elem → Bool) (xs : List Elem) (hx : ∀ x ∈ xs, f x = false) :
    ∀ old, (removeAll xs old).filter f = old.filter f := by
  induction xs with
  | nil => intro old; rfl
  | cons x xs ih =>
    intro old
    have : removeAll (x :: xs) old = removeAll xs (PathAlg.removeL x old) := rfl
    rw [this, ih (fun y hy => hx y (List.mem_cons_of_mem _ hy))]
    have hfx := hx x (by simp)
    simp only [PathAlg.removeL, List.filter_filter]
    apply List.filter_congr
    intro a _
    by_cases ha : a = x
    · subst ha; simp [hfx]
    · simp [ha]

theorem pathOf_addPath_same (e : Env) (var : Str) (xs : List Elem) (b : Bool) :
    (e.addPath var xs b).pathOf var = PathAlg.uniq (addAll b (PathAlg.loopVals b true xs) (e.pathOf var)) := by
  simp [Env.addPath, Env.pathOf, aget_aset_same, applyL_true]

theorem pathOf_removePath_same (e : Env) (var : Str) (xs : List Elem) :
    (e.removePath var xs).pathOf var = PathAlg.uniq (removeAll xs (e.pathOf var)) := by
  simp [Env.removePath, Env.pathOf, aget_aset_same, applyL_false]

theorem pathOf_addPath_other (e : Env) (var var2 : Str) (xs : List Elem) (b : Bool) (h : var2 ≠ var) :
    (e.addPath var xs b).pathOf var2 = e.pathOf var2 := by
  simp [Env.addPath, Env.pathOf, aget_aset_other _ _ _ _ h]

theorem mem_pathOf_addPath_same (e : Env) (var : Str) (xs : List Elem) (y : Elem) (b : Bool) :
    y ∈ (e.addPath var xs b).pathOf var ↔ y ∈ xs ∨ y ∈ e.pathOf var := by
  rw [pathOf_addPath_same, PathAlg.mem_uniq, mem_addAll]
  cases b <;> simp [PathAlg.loopVals]

theorem mem_pathOf_addPath (e : Env) (var var2 : Str) (xs : List Elem) (y : Elem) (b : Bool)
    (h : y ∈ (e.addPath var xs b).pathOf var2) : (var2 = var ∧ y ∈ xs) ∨ y ∈ e.pathOf var2 := by
  by_cases hv : var2 = var
  · subst hv
    rcases (mem_pathOf_addPath_same e var2 xs y b).1 h with h | h
    · exact Or.inl ⟨rfl, h⟩
    · exact Or.inr h
  · rw [pathOf_addPath_other e var var2 xs b hv] at h; exact Or.inr h

theorem pathOf_removePath_other (e : Env) (var var2 : Str) (xs : List Elem) (h : var2 ≠ var) :
    (e.removePath var xs).pathOf var2 = e.pathOf var2 := by
  simp [Env.removePath, Env.pathOf, aget_aset_other _ _ _ _ h]

theorem mem_pathOf_removePath_same (e : Env) (var : Str) (xs : List Elem) (y : Elem) :
    y ∈ (e.removePath var xs).pathOf var ↔ y ∈ e.pathOf var ∧ y ∉ xs := by
  rw [pathOf_removePath_same, PathAlg.mem_uniq, mem_removeAll]

theorem mem_pathOf_removePath (e : Env) (var var2 : Str) (xs : List Elem) (y : Elem)
    (h : y ∈ (e.removePath var xs).pathOf var2) : y ∈ e.pathOf var2 ∧ (var2 = var → y ∉ xs) := by
  by_cases hv : var2 = var
  · subst hv
    have := (mem_pathOf_removePath_same e var2 xs y).1 h
    exact ⟨this.1, fun _ => this.2⟩
  · rw [pathOf_removePath_other e var var2 xs hv] at h; exact ⟨h, fun e => absurd e hv⟩

/-! ## database -/

theorem lookup_some (db : Db) (p : Prod) (d : Decl) (h : db.lookup p = some d) :
    d ∈ db.decls ∧ d.name = p.1 ∧ d.ver = p.2 := by
  unfold Db.lookup at h
  have h1 := List.mem_of_find?_eq_some h
  have h2 := List.find?_some h
  simp at h2
  exact ⟨h1, h2.1, h2.2⟩

/-- the declaration is the one the database returns for its own (name, version) -/
def Canon (db : Db) (d : Decl) : Prop := db.lookup d.prod = some d

theorem lookup_canon (db : Db) (p : Prod) (d : Decl) (h : db.lookup p = some d) : Canon db d ∧ d.prod = p := by
  obtain ⟨_, h1, h2⟩ := lookup_some db p d h
  have hp : d.prod = p := by unfold Decl.prod; rw [h1, h2]
  exact ⟨by unfold Canon; rw [hp]; exact h, hp⟩

theorem setupProd_some (db : Db) (e : Env) (n : Name) (d : Decl) (h : setupProd db e n = some d) :
    Canon db d ∧ d.name = n ∧ e.rec? n = some d.ver := by
  unfold setupProd at h
  split at h
  · rename_i v hv
    obtain ⟨hc, hp⟩ := lookup_canon db (n, v) d h
    have h1 : d.name = n := congrArg Prod.fst hp
    have h2 : d.ver = v := congrArg Prod.snd hp
    exact ⟨hc, h1, by rw [hv, h2]⟩
  · cases h

theorem mem_actions (d : Decl) (exact : Bool) (a : Act) (h : a ∈ d.actions exact) : ∃ g, (g, a) ∈ d.table := by
  unfold Decl.actions at h
  simp only [List.mem_map, List.mem_filter] at h
  obtain ⟨⟨g, a'⟩, ⟨hm, _⟩, rfl⟩ := h
  exact ⟨g, hm⟩

end EupsModel.Setup
