/-! Generic comparator lemmas for C10: a comparator (`α → α → Int`, sign convention of Python's `cmp`) is
`GoodOn` a set when it is reflexive, antisymmetric and transitive there; lexicographic lists (shorter
prefix first), lexicographic pairs, pull-backs, agreement on the set and the "absent is the top / the
bottom" extensions preserve it.  Import-free. -/
set_option linter.unusedVariables false
set_option linter.unusedSimpArgs false
namespace EupsModel.Order

structure GoodOn {α : Type} (P : α → Prop) (cmp : α → α → Int) : Prop where
  refl : ∀ a, P a → cmp a a = 0
  antisym : ∀ a b, P a → P b → cmp a b = - cmp b a
  trans : ∀ a b c, P a → P b → P c → cmp a b ≤ 0 → cmp b c ≤ 0 → cmp a c ≤ 0

/-- consequences used by the lexicographic constructions -/
theorem GoodOn.eq_trans {α} {P : α → Prop} {cmp} (g : GoodOn P cmp) {a b c : α} (ha : P a) (hb : P b) (hc : P c)
    (h1 : cmp a b = 0) (h2 : cmp b c = 0) : cmp a c = 0 := by
  have l := g.trans a b c ha hb hc (by omega) (by omega)
  have r := g.trans c b a hc hb ha (by rw [g.antisym c b hc hb]; omega) (by rw [g.antisym b a hb ha]; omega)
  rw [g.antisym c a hc ha] at r; omega

theorem GoodOn.eq_left {α} {P : α → Prop} {cmp} (g : GoodOn P cmp) {a b c : α} (ha : P a) (hb : P b) (hc : P c)
    (h1 : cmp a b = 0) : (cmp a c ≤ 0 ↔ cmp b c ≤ 0) := by
  constructor
  · intro h; exact g.trans b a c hb ha hc (by rw [g.antisym b a hb ha]; omega) h
  · intro h; exact g.trans a b c ha hb hc (by omega) h

theorem GoodOn.lt_of_lt_le {α} {P : α → Prop} {cmp} (g : GoodOn P cmp) {a b c : α} (ha : P a) (hb : P b) (hc : P c)
    (h1 : cmp a b < 0) (h2 : cmp b c ≤ 0) : cmp a c < 0 := by
  have l := g.trans a b c ha hb hc (by omega) h2
  by_cases e : cmp a c = 0
  · -- then c ≤ a, and b ≤ c, so b ≤ a, contradicting a < b
    have hca : cmp c a ≤ 0 := by rw [g.antisym c a hc ha]; omega
    have := g.trans b c a hb hc ha h2 hca
    rw [g.antisym b a hb ha] at this; omega
  · omega

theorem GoodOn.lt_of_le_lt {α} {P : α → Prop} {cmp} (g : GoodOn P cmp) {a b c : α} (ha : P a) (hb : P b) (hc : P c)
    (h1 : cmp a b ≤ 0) (h2 : cmp b c < 0) : cmp a c < 0 := by
  have l := g.trans a b c ha hb hc h1 (by omega)
  by_cases e : cmp a c = 0
  · have hca : cmp c a ≤ 0 := by rw [g.antisym c a hc ha]; omega
    have := g.trans c a b hc ha hb hca h1
    rw [g.antisym c b hc hb] at this; omega
  · omega

/-- lexicographic comparison of lists; when one is a prefix of the other the shorter sorts first -/
def lexList {α : Type} (cmp : α → α → Int) : List α → List α → Int
  | [], [] => 0
  | [], _ :: _ => -1
  | _ :: _, [] => 1
  | a :: as, b :: bs => if cmp a b ≠ 0 then cmp a b else lexList cmp as bs

theorem good_lexList {α} {P : α → Prop} {cmp : α → α → Int} (g : GoodOn P cmp) :
    GoodOn (fun l : List α => ∀ x ∈ l, P x) (lexList cmp) := by
  refine ⟨?_, ?_, ?_⟩
  · intro l hl
    induction l with
    | nil => rfl
    | cons a as ih => simp [lexList, g.refl a (hl a (by simp)), ih (fun x hx => hl x (by simp [hx]))]
  · intro l
    induction l with
    | nil => intro m _ _; cases m <;> simp [lexList]
    | cons a as ih =>
      intro m hl hm
      cases m with
      | nil => simp [lexList]
      | cons b bs =>
        have hab := g.antisym a b (hl a (by simp)) (hm b (by simp))
        have ih' := ih bs (fun x hx => hl x (by simp [hx])) (fun x hx => hm x (by simp [hx]))
        simp only [lexList]
        by_cases h : cmp a b = 0
        · have : cmp b a = 0 := by omega
          simp [h, this, ih']
        · have : cmp b a ≠ 0 := by omega
          simp [h, this, hab]
  · intro l
    induction l with
    | nil => intro m n _ _ _ _ _; cases n <;> simp [lexList]
    | cons a as ih =>
      intro m n hl hm hn h1 h2
      cases m with
      | nil => simp [lexList] at h1
      | cons b bs =>
        cases n with
        | nil => simp [lexList] at h2
        | cons c cs =>
          have pa := hl a (by simp); have pb := hm b (by simp); have pc := hn c (by simp)
          have ih' := ih bs cs (fun x hx => hl x (by simp [hx])) (fun x hx => hm x (by simp [hx]))
            (fun x hx => hn x (by simp [hx]))
          simp only [lexList] at h1 h2 ⊢
          by_cases hab : cmp a b = 0
          · by_cases hbc : cmp b c = 0
            · have hac := g.eq_trans pa pb pc hab hbc
              simp [hab] at h1; simp [hbc] at h2; simp [hac]; exact ih' h1 h2
            · simp [hab] at h1; simp [hbc] at h2
              have : cmp a c < 0 := by
                have hbc' : cmp b c < 0 := by omega
                have := (g.eq_left pa pb pc hab).mpr (by omega)
                by_cases e : cmp a c = 0
                · have : cmp b c = 0 := by
                    have hba : cmp b a = 0 := by rw [g.antisym b a pb pa]; omega
                    exact g.eq_trans pb pa pc hba e
                  omega
                · omega
              have hne : cmp a c ≠ 0 := by omega
              simp [hne]; omega
          · simp [hab] at h1
            have hab' : cmp a b < 0 := by omega
            by_cases hbc : cmp b c = 0
            · simp [hbc] at h2
              have := g.lt_of_lt_le pa pb pc hab' (by omega)
              have hne : cmp a c ≠ 0 := by omega
              simp [hne]; omega
            · simp [hbc] at h2
              have := g.lt_of_lt_le pa pb pc hab' h2
              have hne : cmp a c ≠ 0 := by omega
              simp [hne]; omega

/-- lexicographic pair -/
def lexPair {α β : Type} (c1 : α → α → Int) (c2 : β → β → Int) (x y : α × β) : Int :=
  if c1 x.1 y.1 ≠ 0 then c1 x.1 y.1 else c2 x.2 y.2

theorem good_lexPair {α β} {P : α → Prop} {Q : β → Prop} {c1 : α → α → Int} {c2 : β → β → Int}
    (g1 : GoodOn P c1) (g2 : GoodOn Q c2) : GoodOn (fun x : α × β => P x.1 ∧ Q x.2) (lexPair c1 c2) := by
  refine ⟨?_, ?_, ?_⟩
  · intro x hx; simp [lexPair, g1.refl _ hx.1, g2.refl _ hx.2]
  · intro x y hx hy
    have h1 := g1.antisym x.1 y.1 hx.1 hy.1
    have h2 := g2.antisym x.2 y.2 hx.2 hy.2
    simp only [lexPair]
    by_cases h : c1 x.1 y.1 = 0
    · have : c1 y.1 x.1 = 0 := by omega
      simp [h, this, h2]
    · have : c1 y.1 x.1 ≠ 0 := by omega
      simp [h, this, h1]
  · intro x y z hx hy hz h1 h2
    simp only [lexPair] at h1 h2 ⊢
    by_cases hab : c1 x.1 y.1 = 0
    · by_cases hbc : c1 y.1 z.1 = 0
      · have hac := g1.eq_trans hx.1 hy.1 hz.1 hab hbc
        simp [hab] at h1; simp [hbc] at h2; simp [hac]
        exact g2.trans _ _ _ hx.2 hy.2 hz.2 h1 h2
      · simp [hab] at h1; simp [hbc] at h2
        have hlt : c1 x.1 z.1 < 0 := by
          have hle := (g1.eq_left hx.1 hy.1 hz.1 hab).mpr (by omega)
          by_cases e : c1 x.1 z.1 = 0
          · have hba : c1 y.1 x.1 = 0 := by rw [g1.antisym y.1 x.1 hy.1 hx.1]; omega
            have := g1.eq_trans hy.1 hx.1 hz.1 hba e
            omega
          · omega
        have hne : c1 x.1 z.1 ≠ 0 := by omega
        simp [hne]; omega
    · simp [hab] at h1
      have hab' : c1 x.1 y.1 < 0 := by omega
      by_cases hbc : c1 y.1 z.1 = 0
      · simp [hbc] at h2
        have := g1.lt_of_lt_le hx.1 hy.1 hz.1 hab' (by omega)
        have hne : c1 x.1 z.1 ≠ 0 := by omega
        simp [hne]; omega
      · simp [hbc] at h2
        have := g1.lt_of_lt_le hx.1 hy.1 hz.1 hab' h2
        have hne : c1 x.1 z.1 ≠ 0 := by omega
        simp [hne]; omega

/-- pull-back along a key function -/
theorem good_pullback {α β} {Q : β → Prop} {c : β → β → Int} (g : GoodOn Q c) (key : α → β) :
    GoodOn (fun a => Q (key a)) (fun a b => c (key a) (key b)) :=
  ⟨fun a h => g.refl _ h, fun a b ha hb => g.antisym _ _ ha hb, fun a b d ha hb hd => g.trans _ _ _ ha hb hd⟩

/-- a comparator that agrees, on a set, with a good one is good there -/
theorem good_congr {α} {P : α → Prop} {c c' : α → α → Int} (g : GoodOn P c)
    (h : ∀ a b, P a → P b → c' a b = c a b) : GoodOn P c' :=
  ⟨fun a ha => by rw [h a a ha ha]; exact g.refl a ha,
   fun a b ha hb => by rw [h a b ha hb, h b a hb ha]; exact g.antisym a b ha hb,
   fun a b d ha hb hd h1 h2 => by
     rw [h a b ha hb] at h1; rw [h b d hb hd] at h2; rw [h a d ha hd]; exact g.trans a b d ha hb hd h1 h2⟩

/-- restriction to a smaller set -/
theorem GoodOn.mono {α} {P Q : α → Prop} {c : α → α → Int} (g : GoodOn P c) (h : ∀ a, Q a → P a) : GoodOn Q c :=
  ⟨fun a ha => g.refl a (h a ha), fun a b ha hb => g.antisym a b (h a ha) (h b hb),
   fun a b d ha hb hd => g.trans a b d (h a ha) (h b hb) (h d hd)⟩

/-- every comparison is decided one way or the other -/
theorem GoodOn.total {α} {P : α → Prop} {c : α → α → Int} (g : GoodOn P c) {a b : α} (ha : P a) (hb : P b) :
    c a b ≤ 0 ∨ c b a ≤ 0 := by
  have := g.antisym a b ha hb
  omega

/-- "present" elements compared by `c`, an absent one above every present one -/
def absentTop {α : Type} (present : α → Bool) (c : α → α → Int) (x y : α) : Int :=
  if present x && present y then c x y else if present x then -1 else if present y then 1 else 0

theorem good_absentTop {α} {P : α → Prop} {c : α → α → Int} (present : α → Bool) (g : GoodOn P c) :
    GoodOn P (absentTop present c) := by
  refine ⟨?_, ?_, ?_⟩
  · intro a ha
    cases h : present a <;> simp [absentTop, h, g.refl a ha]
  · intro a b ha hb
    have := g.antisym a b ha hb
    cases h1 : present a <;> cases h2 : present b <;> simp [absentTop, h1, h2, this]
  · intro a b d ha hb hd
    have := g.trans a b d ha hb hd
    cases h1 : present a <;> cases h2 : present b <;> cases h3 : present d <;>
      simp [absentTop, h1, h2, h3] <;> assumption

end EupsModel.Order
