import EupsModel.Lemmas.CacheInv
/-! Path-wide uniqueness of a tag: `declare -t` removes the tag from every stack of the path before it assigns
it ("Delete all old occurrences of this tag", stack by stack), so a tag (tag, product, flavor) sits in at most one
stack — as long as nobody calls `Eups.assignTag` directly (D32) and no `declare` is killed between its
`Database.declare` and the end of the purge. -/
namespace EupsModel.Db

/-- a tag (tag, product, flavor) is assigned in at most one stack -/
def OnePlace (db : Spec) : Prop :=
  ∀ r ∈ db.tags, ∀ q ∈ db.tags, r.tag = q.tag → r.name = q.name → r.flav = q.flav → r.stack = q.stack

/-- every tag record lies in a stack of the path -/
def TagsInPath (nst : Nat) (db : Spec) : Prop := ∀ r ∈ db.tags, r.stack < nst

/-! ## the process: view and files agree on the native flavor while the command runs -/

def PInv (nst : Nat) (self : Flav) (p : Proc) : Prop :=
  DbInv p.db ∧ ∀ s, s < nst → AgreeOn p.mem p.db s self

theorem PInv.emit {nst : Nat} {self : Flav} {p : Proc} (h : PInv nst self p) (e : Eff) : PInv nst self (p.emit e) := by
  refine ⟨by rw [Proc.db_emit]; exact h.1.apply e, ?_⟩
  intro s hs n
  rw [Proc.db_emit, Proc.mem_emit]
  exact EupsModel.Cache.commute_all e p.mem p.db h.1.nd s self n (h.2 s hs n)

/-! ## effects that assign no tag -/

/-- the effect adds no tag record -/
def NoTagAdded : Eff → Prop
  | .declare _ (some _) => False
  | .assign .. => False
  | _ => True

theorem applyDb_tags_subset {e : Eff} (h : NoTagAdded e) (c : Spec) : ∀ r ∈ (applyDb e c).tags, r ∈ c.tags := by
  intro r hr
  cases e with
  | declare d tag =>
    cases tag with
    | none => simpa [applyDb] using hr
    | some t => exact absurd h (by simp [NoTagAdded])
  | undeclare s n v f => exact (Spec.mem_delDecl_tags.mp hr).1
  | assign s t n f v => exact absurd h (by simp [NoTagAdded])
  | unassign s t n f => exact (Spec.mem_delTag.mp hr).1
  | rmTree _ => exact hr
  | copyExtra _ => exact hr

theorem OnePlace.of_subset {a b : Spec} (h : OnePlace b) (hs : ∀ r ∈ a.tags, r ∈ b.tags) : OnePlace a :=
  fun r hr q hq => h r (hs r hr) q (hs q hq)

theorem foldl_tags_subset (es : List Eff) (h : ∀ e ∈ es, NoTagAdded e) (c : Spec) :
    ∀ r ∈ (es.foldl (fun c e => applyDb e c) c).tags, r ∈ c.tags := by
  induction es generalizing c with
  | nil => intro r hr; exact hr
  | cons e es ih =>
    intro r hr
    simp only [List.foldl_cons] at hr
    exact applyDb_tags_subset (h e (by simp)) c r (ih (fun e' he' => h e' (by simp [he'])) _ r hr)

/-! ### the commands other than `declare` and `assignTag` add no tag -/

theorem doUnassign_noAdd {f : Flav} {t : Tag} {n : Name} {s : Nat} {na : Bool} {p : Proc} (h : TrOK NoTagAdded p) :
    TrOK NoTagAdded (doUnassign f t n s na p).2 := by
  unfold doUnassign; split
  · exact h
  · exact h.emit (by simp [NoTagAdded])

theorem unassignTag_noAdd {nst : Nat} {f : Flav} {t : Tag} {n : Name} {v : Option Ver} {st : Option Nat} {na : Bool}
    {p : Proc} (h : TrOK NoTagAdded p) : TrOK NoTagAdded (unassignTag nst f t n v st na p).2 := by
  unfold unassignTag
  split
  · split
    · exact h
    · split
      · exact doUnassign_noAdd h
      · exact h
  · split
    · exact doUnassign_noAdd h
    · split
      · exact doUnassign_noAdd h
      · split <;> exact h

theorem undeclareVersion_noAdd {nst : Nat} {a : UndeclareArgs} {ver : Option Ver} {p : Proc} (h : TrOK NoTagAdded p) :
    TrOK NoTagAdded (undeclareVersion nst a ver p).2 := by
  unfold undeclareVersion
  split
  · exact h
  · split
    · exact h
    · split
      · exact h
      · have h1 : ∀ v s, TrOK NoTagAdded (untagFirst nst a v s p) := by
          intro v s
          unfold untagFirst; split
          · exact unassignTag_noAdd h
          · exact h
        have h2 : ∀ v s q, TrOK NoTagAdded q → TrOK NoTagAdded (removeVersion a v s q).2 := by
          intro v s q hq
          unfold removeVersion
          split
          · exact hq
          · split
            · exact hq
            · exact hq.emit (by simp [NoTagAdded])
        exact h2 _ _ _ (h1 _ _)

theorem undeclare_noAdd {nst : Nat} {a : UndeclareArgs} {p : Proc} (h : TrOK NoTagAdded p) :
    TrOK NoTagAdded (undeclare nst a p).2 := by
  unfold undeclare
  split
  · exact undeclareVersion_noAdd h
  · split
    · exact undeclareVersion_noAdd h
    · exact unassignTag_noAdd h

theorem remove_noAdd {nst : Nat} {f : Flav} {n : Name} {v : Ver} {rc na fo : Bool} {su : Option (Ver × Flav × Nat)}
    {p : Proc} (h : TrOK NoTagAdded p) : TrOK NoTagAdded (remove nst f n v rc na fo su p).2 := by
  unfold remove
  split
  · exact h
  · split
    · exact h
    have hu := undeclare_noAdd (nst := nst) (a := ⟨f, n, some v, none, none, false, na, fo, su⟩) h
    split
    · rename_i p1 heq
      rw [heq] at hu
      split
      · exact hu
      · split
        · exact hu.emit (by simp [NoTagAdded])
        · exact hu
    · exact hu

/-! ## the first stack that answers -/

theorem findSome?_range_first {α : Type} (g : Nat → Option α) (n : Nat) (w : α)
    (h : (List.range n).findSome? g = some w) : ∃ s0, s0 < n ∧ g s0 = some w ∧ ∀ x, x < s0 → g x = none := by
  induction n with
  | zero => simp at h
  | succ n ih =>
    rw [List.range_succ, List.findSome?_append] at h
    cases hn : (List.range n).findSome? g with
    | some w' =>
      rw [hn] at h
      simp only [Option.some_or] at h
      cases h
      obtain ⟨s0, hs0, hg, hlt⟩ := ih hn
      exact ⟨s0, Nat.lt_succ_of_lt hs0, hg, hlt⟩
    | none =>
      rw [hn] at h
      simp only [Option.none_or, List.findSome?_cons, List.findSome?_nil] at h
      rw [List.findSome?_eq_none_iff] at hn
      refine ⟨n, Nat.lt_succ_self n, ?_, fun x hx => hn x (List.mem_range.mpr hx)⟩
      cases hg : g n with
      | none => rw [hg] at h; cases h
      | some w' => rw [hg] at h; simpa using h

theorem uniqNVF_covers {l : List Decl} {x : Decl} (h : x ∈ l) :
    ∃ y ∈ uniqNVF l, y.name = x.name ∧ y.ver = x.ver ∧ y.flav = x.flav := by
  induction l with
  | nil => cases h
  | cons z zs ih =>
    simp only [uniqNVF]
    rcases List.mem_cons.mp h with rfl | h
    · exact ⟨x, by simp, rfl, rfl, rfl⟩
    · obtain ⟨y, hy, h1, h2, h3⟩ := ih h
      by_cases hz : y.name = z.name ∧ y.ver = z.ver ∧ y.flav = z.flav
      · exact ⟨z, by simp, hz.1 ▸ h1, hz.2.1 ▸ h2, hz.2.2 ▸ h3⟩
      · refine ⟨y, ?_, h1, h2, h3⟩
        simp only [List.mem_cons, List.mem_filter]
        refine Or.inr ⟨hy, ?_⟩
        simp only [Bool.not_eq_true', Bool.and_eq_false_iff, beq_eq_false_iff_ne, ne_eq]
        by_cases a : y.name = z.name
        · by_cases b : y.ver = z.ver
          · exact Or.inr (fun c => hz ⟨a, b, c⟩)
          · exact Or.inl (Or.inr b)
        · exact Or.inl (Or.inl a)

theorem Spec.tagVer_some_iff {c : Spec} {s : Nat} {t : Tag} {n : Name} {f : Flav} :
    (c.tagVer s t n f).isSome = c.hasTag s t n f := by
  unfold Spec.tagVer Spec.hasTag
  cases hf : c.tags.find? (·.hasKey s t n f) with
  | none =>
    rw [List.find?_eq_none] at hf
    simp only [Option.map_none, Option.isSome_none]
    symm
    rw [Bool.eq_false_iff]
    intro hany
    obtain ⟨r, hr, hk⟩ := List.any_eq_true.mp hany
    exact hf r hr hk
  | some r =>
    simp only [Option.map_some, Option.isSome_some]
    symm
    have hk : r.hasKey s t n f = true := by have := List.find?_some hf; exact this
    exact List.any_eq_true.mpr ⟨r, List.mem_of_find?_eq_some hf, hk⟩

/-- `findTagged` over the whole path answers from the first stack that carries the tag on a version it holds;
when the stacks before `s` do not carry the tag at all and `s` does, on a declared version, it answers from `s` -/
theorem findTagged_first {m : Spec} {nst : Nat} {n : Name} {t : Tag} {f : Flav} {y : Decl} {s : Nat}
    (h : m.findTagged (allStacks nst) n t f = some y)
    (hbefore : ∀ s', s' < s → m.hasTag s' t n f = false)
    (hs : ∃ v, m.tagVer s t n f = some v ∧ (m.findDecl s n v f).isSome) : y.stack = s := by
  unfold Spec.findTagged allStacks at h
  obtain ⟨s0, _, hg, hlt⟩ := findSome?_range_first _ nst y h
  -- the stack of the answer
  have hy : y.stack = s0 ∧ m.hasTag s0 t n f = true := by
    cases htv : m.tagVer s0 t n f with
    | none => rw [htv] at hg; cases hg
    | some v =>
      rw [htv] at hg
      dsimp only at hg
      exact ⟨(findDecl_some hg).2.1, by rw [← Spec.tagVer_some_iff, htv]; rfl⟩
  rw [hy.1]
  obtain ⟨v, htv, hfd⟩ := hs
  have h1 : ¬ s < s0 := by
    intro hlt'
    have := hlt s hlt'
    rw [htv] at this
    dsimp only at this
    rw [this] at hfd
    cases hfd
  have h2 : ¬ s0 < s := by
    intro hlt'
    have := hbefore s0 hlt'
    rw [hy.2] at this
    cases this
  exact Nat.le_antisymm (Nat.le_of_not_lt h1) (Nat.le_of_not_lt h2)

theorem Spec.findDecl_isSome_of_hasDecl {c : Spec} {s : Nat} {n : Name} {v : Ver} {f : Flav}
    (h : c.hasDecl s n v f = true) : (c.findDecl s n v f).isSome = true := by
  obtain ⟨d, hd, hk⟩ := Spec.hasDecl_iff.mp h
  unfold Spec.findDecl
  cases hf : c.decls.find? (·.hasKey s n v f) with
  | none => rw [List.find?_eq_none] at hf; exact absurd hk (hf d hd)
  | some _ => rfl

/-- **The purge reaches the stack.**  When the in-memory view shows the tag in stack `s` (on a version the view
holds, which it does when it agrees with files that have no dangling tag) and in no stack before `s`, the listing
`findProducts(name, None, [tag], s)` that the purge walks holds a product of stack `s`. -/
theorem findProducts_covers {m : Spec} {nst s : Nat} {n : Name} {t : Tag} {f : Flav}
    (hnd : NoDanglingN m s f n) (htag : m.hasTag s t n f = true)
    (hbefore : ∀ s', s' < s → m.hasTag s' t n f = false) :
    ∃ d ∈ findProducts m nst f n (some t) [s], d.stack = s := by
  -- the tag record the view answers with, and the declaration it names
  have hsome : (m.tagVer s t n f).isSome = true := by rw [Spec.tagVer_some_iff]; exact htag
  cases htv : m.tagVer s t n f with
  | none => rw [htv] at hsome; cases hsome
  | some v0 =>
    have hr0 : ∃ r0 ∈ m.tags, r0.hasKey s t n f = true ∧ r0.ver = v0 := by
      unfold Spec.tagVer at htv
      cases hf : m.tags.find? (·.hasKey s t n f) with
      | none => rw [hf] at htv; cases htv
      | some r0 =>
        rw [hf] at htv
        have hk : r0.hasKey s t n f = true := by have := List.find?_some hf; exact this
        exact ⟨r0, List.mem_of_find?_eq_some hf, hk, by simpa using htv⟩
    obtain ⟨r0, hr0m, hr0k, hr0v⟩ := hr0
    have k0 := TagRec.hasKey_iff.mp hr0k
    have hdecl : m.hasDecl s n v0 f = true := by
      have := hnd r0 hr0m k0.1 k0.2.2.2 k0.2.2.1
      rw [hr0v] at this; exact this
    obtain ⟨x, hx, hxk⟩ := Spec.hasDecl_iff.mp hdecl
    have kx := Decl.hasKey_iff.mp hxk
    have hxv : x ∈ m.versionsOf s n f := mem_versionsOf.mpr ⟨hx, kx.1, kx.2.1, kx.2.2.2⟩
    have hxt : (m.tagsOf x).contains t = true := by
      rw [List.contains_iff_mem]
      simp only [Spec.tagsOf, List.mem_map, List.mem_filter]
      refine ⟨r0, ⟨hr0m, ?_⟩, k0.2.1⟩
      rw [TagRec.pointsAt_iff]
      exact ⟨k0.1.trans kx.1.symm, k0.2.2.1.trans kx.2.1.symm, k0.2.2.2.trans kx.2.2.2.symm, hr0v.trans kx.2.2.1.symm⟩
    have hne : (m.versionsOf s n f).isEmpty = false := by
      cases hl : m.versionsOf s n f with
      | nil => rw [hl] at hxv; cases hxv
      | cons _ _ => rfl
    -- x is in the raw listing of stack s
    have hraw : x ∈ [s].flatMap fun s => (fallbacks f).flatMap fun fl =>
        if (m.versionsOf s n fl).isEmpty = true then [] else
          match (some t : Option Tag) with
          | none => m.versionsOf s n fl
          | some t => (m.findTagged (allStacks nst) n t f).toList ++
              (m.versionsOf s n fl).filter fun d => (m.tagsOf d).contains t := by
      simp only [List.flatMap_cons, List.flatMap_nil, List.append_nil, fallbacks, List.mem_append]
      left
      have hxt' : t ∈ m.tagsOf x := by simpa using hxt
      simp [hne, hxv, hxt']
    obtain ⟨y, hy, h1, h2, h3⟩ := uniqNVF_covers hraw
    refine ⟨y, hy, ?_⟩
    -- whichever way y entered the listing, it is a product of stack s
    have hyraw := mem_uniqNVF hy
    simp only [List.flatMap_cons, List.flatMap_nil, List.append_nil, fallbacks, List.mem_append] at hyraw
    have hcase : ∀ fl, y ∈ (if (m.versionsOf s n fl).isEmpty = true then [] else
          (m.findTagged (allStacks nst) n t f).toList ++
            (m.versionsOf s n fl).filter fun d => (m.tagsOf d).contains t) → y.stack = s := by
      intro fl hin
      split at hin
      · cases hin
      · simp only [List.mem_append, Option.mem_toList, List.mem_filter] at hin
        rcases hin with hin | hin
        · exact findTagged_first hin hbefore ⟨v0, htv, Spec.findDecl_isSome_of_hasDecl hdecl⟩
        · exact (mem_versionsOf.mp hin.1).2.1
    rcases hyraw with hyraw | hyraw
    · exact hcase f hyraw
    · exact hcase generic hyraw

/-! ## the purge -/

theorem Spec.hasTag_delTag_self (c : Spec) (s : Nat) (t : Tag) (n : Name) (f : Flav) :
    (c.delTag s t n f).hasTag s t n f = false := by
  cases h : (c.delTag s t n f).hasTag s t n f with
  | false => rfl
  | true =>
    exfalso
    obtain ⟨r, hr, hk⟩ := Spec.hasTag_iff.mp h
    have := (Spec.mem_delTag.mp hr).2
    rw [hk] at this; cases this

theorem hasTag_false_of_subset {a b : Spec} (hs : ∀ r ∈ a.tags, r ∈ b.tags) {s : Nat} {t : Tag} {n : Name} {f : Flav}
    (h : b.hasTag s t n f = false) : a.hasTag s t n f = false := by
  cases ha : a.hasTag s t n f with
  | false => rfl
  | true =>
    exfalso
    obtain ⟨r, hr, hk⟩ := Spec.hasTag_iff.mp ha
    have : b.hasTag s t n f = true := Spec.hasTag_iff.mpr ⟨r, hs r hr, hk⟩
    rw [h] at this; cases this

/-- what the purge loop over a listing does: the view keeps agreeing with the files, only tags go, and the tag
is gone from the stack of every listed product -/
theorem purge_spec {nst : Nat} {self : Flav} (t : Tag) (n : Name) (ds : List Decl) {p : Proc} (h : PInv nst self p) :
    PInv nst self (purge self t n ds p) ∧
    (∀ r ∈ (purge self t n ds p).db.tags, r ∈ p.db.tags) ∧
    (purge self t n ds p).db.decls = p.db.decls ∧
    ∀ d ∈ ds, (purge self t n ds p).db.hasTag d.stack t n self = false := by
  induction ds generalizing p with
  | nil => exact ⟨h, fun r hr => hr, rfl, fun d hd => by cases hd⟩
  | cons d ds ih =>
    simp only [purge]
    have hstep : (doUnassign self t n d.stack false p).2 = p.emit (.unassign d.stack t n self) := by
      simp [doUnassign]
    rw [hstep]
    obtain ⟨h1, h2, h3, h4⟩ := ih (h.emit (.unassign d.stack t n self))
    have hdb : (p.emit (.unassign d.stack t n self)).db = p.db.delTag d.stack t n self := by
      rw [Proc.db_emit]; rfl
    refine ⟨h1, ?_, ?_, ?_⟩
    · intro r hr
      have := h2 r hr
      rw [hdb] at this
      exact (Spec.mem_delTag.mp this).1
    · rw [h3, hdb]; rfl
    · intro d' hd'
      rcases List.mem_cons.mp hd' with rfl | hd'
      · apply hasTag_false_of_subset h2
        rw [hdb]
        exact Spec.hasTag_delTag_self _ _ _ _ _
      · exact h4 d' hd'

/-- **"Delete all old occurrences of this tag"** over the stacks of the path in order: afterwards no stack of the
path carries the tag for the product and flavor, in the files -/
theorem purgeAll_spec {nst : Nat} {self : Flav} (t : Tag) (n : Name) (ss : List Nat) {p : Proc}
    (h : PInv nst self p) (hpw : ss.Pairwise (· < ·)) (hlt : ∀ s ∈ ss, s < nst)
    (hpre : ∀ s', s' < nst → s' ∉ ss → p.db.hasTag s' t n self = false) :
    PInv nst self (purgeAll nst self t n ss p) ∧
    (∀ r ∈ (purgeAll nst self t n ss p).db.tags, r ∈ p.db.tags) ∧
    (purgeAll nst self t n ss p).db.decls = p.db.decls ∧
    ∀ s', s' < nst → (purgeAll nst self t n ss p).db.hasTag s' t n self = false := by
  induction ss generalizing p with
  | nil => exact ⟨h, fun r hr => hr, rfl, fun s' hs' => hpre s' hs' (by simp)⟩
  | cons s ss ih =>
    simp only [purgeAll]
    obtain ⟨hgt, hpw'⟩ := List.pairwise_cons.mp hpw
    have hs : s < nst := hlt s (by simp)
    obtain ⟨h1, h2, h3, h4⟩ := purge_spec t n (findProducts p.mem nst self n (some t) [s]) h
    -- the tag is gone from stack s
    have hgone : (purge self t n (findProducts p.mem nst self n (some t) [s]) p).db.hasTag s t n self = false := by
      cases hdb : p.db.hasTag s t n self with
      | false => exact hasTag_false_of_subset h2 hdb
      | true =>
        have hag := h.2 s hs n
        have hmem : p.mem.hasTag s t n self = true := by rw [hag.hasTag]; exact hdb
        have hnd : NoDanglingN p.mem s self n := hag.noDanglingN (h.1.nd.toN s self n)
        have hbefore : ∀ s', s' < s → p.mem.hasTag s' t n self = false := by
          intro s' hs'
          have hs'n : s' < nst := Nat.lt_trans hs' hs
          rw [(h.2 s' hs'n n).hasTag]
          apply hpre s' hs'n
          intro hin
          rcases List.mem_cons.mp hin with rfl | hin
          · exact Nat.lt_irrefl _ hs'
          · exact Nat.lt_asymm hs' (hgt s' hin)
        obtain ⟨d, hd, hds⟩ := findProducts_covers (nst := nst) hnd hmem hbefore
        have := h4 d hd
        rw [hds] at this
        exact this
    obtain ⟨k1, k2, k3, k4⟩ := ih h1 hpw' (fun x hx => hlt x (by simp [hx])) (by
      intro s' hs' hnin
      by_cases hss : s' = s
      · rw [hss]; exact hgone
      · exact hasTag_false_of_subset h2 (hpre s' hs' (by simp [hss, hnin])))
    exact ⟨k1, fun r hr => h2 r (k2 r hr), k3.trans h3, k4⟩

/-! ## `declare` keeps a tag in one place -/

theorem resolveDeclare_target_lt {nst : Nat} (hn : 0 < nst) {a : DeclareArgs} {p : Proc} {r : Resolved}
    (hstack : ∀ s, a.stack = some s → s < nst) (h : resolveDeclare nst a p = some r) : r.target < nst := by
  rw [resolveDeclare_some h]
  unfold targetOf
  split
  · rename_i s hs; exact hstack s hs
  · split
    · rename_i hlt; exact hlt
    · exact hn

theorem assignTag_db (f : Flav) (t : Tag) (n : Name) (v : Ver) (s : Nat) (p : Proc) :
    (assignTag f t n v [s] p).2.db = p.db ∨ (assignTag f t n v [s] p).2.db = p.db.setTag ⟨s, t, n, f, v⟩ := by
  unfold assignTag
  cases hf : p.mem.findIn [s] n v f with
  | none => exact Or.inl rfl
  | some prod =>
    dsimp only
    have hs : prod.stack = s := findIn_singleton hf
    by_cases hd : p.db.hasDecl prod.stack n v f = true
    · right
      simp only [hd, Bool.not_true, Bool.false_eq_true, if_false, Proc.db_emit, applyDb, Spec.assign, if_true]
      rw [hs]
    · left
      simp only [hd, Bool.not_false, if_true]

/-- the tag records with another (tag, product, flavor), or all of them: what may be said of two contents -/
def SameOtherTags (t : Tag) (n : Name) (f : Flav) (a b : Spec) : Prop :=
  ∀ r ∈ a.tags, (r.tag = t ∧ r.name = n ∧ r.flav = f) ∨ r ∈ b.tags

theorem onePlace_of {t : Tag} {n : Name} {f : Flav} {a b : Spec} (hb : OnePlace b) (hsame : SameOtherTags t n f a b)
    (hk : ∀ r ∈ a.tags, ∀ q ∈ a.tags, r.tag = t → r.name = n → r.flav = f → q.tag = t → q.name = n → q.flav = f →
      r.stack = q.stack) : OnePlace a := by
  intro r hr q hq h1 h2 h3
  by_cases hrk : r.tag = t ∧ r.name = n ∧ r.flav = f
  · exact hk r hr q hq hrk.1 hrk.2.1 hrk.2.2 (h1 ▸ hrk.1) (h2 ▸ hrk.2.1) (h3 ▸ hrk.2.2)
  · have hqk : ¬ (q.tag = t ∧ q.name = n ∧ q.flav = f) := fun hq' => hrk ⟨h1 ▸ hq'.1, h2 ▸ hq'.2.1, h3 ▸ hq'.2.2⟩
    have hr' := (hsame r hr).resolve_left hrk
    have hq' := (hsame q hq).resolve_left hqk
    exact hb r hr' q hq' h1 h2 h3

/-- **`declare` keeps every tag in one stack of the path.**  From a process whose view agrees with the files on
the native flavor: if every (tag, product, flavor) is assigned in at most one stack, and only in stacks of the
path, the same holds after a complete `declare` — with or without tag, written or not, refused or not. -/
theorem declare_onePlace {nst : Nat} (hn : 0 < nst) {a : DeclareArgs} {p : Proc} (hp : PInv nst a.self p)
    (hstack : ∀ s, a.stack = some s → s < nst) (hone : OnePlace p.db) (hin : TagsInPath nst p.db) :
    OnePlace (declare nst a p).2.db ∧ TagsInPath nst (declare nst a p).2.db := by
  rcases declare_cases nst a p with hc | ⟨r, rd, hr, _, _, hc⟩
  · rw [hc]; exact ⟨hone, hin⟩
  · rw [hc, declareFinish_db]
    have htl := resolveDeclare_target_lt hn hstack hr
    unfold declareCore
    generalize declareTag nst a p.mem = tag
    cases tag with
    | none =>
      dsimp only
      split
      · rw [Proc.db_emit]
        exact ⟨hone.of_subset (by intro x hx; simpa [applyDb] using hx), by intro x hx; exact hin x (by simpa [applyDb] using hx)⟩
      · exact ⟨hone, hin⟩
    | some t =>
      dsimp only
      by_cases hna : a.noaction = true
      · simp only [hna, Bool.not_true, Bool.and_false, Bool.false_eq_true, if_false, if_true]
        exact ⟨hone, hin⟩
      · have hna' : a.noaction = false := by simpa using hna
        simp only [hna', Bool.not_false, Bool.and_true, Bool.false_eq_true, if_false]
        -- p1: after the version record (and its tag) is written, if it is
        generalize hp1 : (if (rd == .write) = true then
            p.emit (.declare ⟨r.target, a.name, a.ver, a.self, r.d, r.table⟩ (some t)) else p) = p1
        have hp1inv : PInv nst a.self p1 := by
          rw [← hp1]; split
          · exact hp.emit _
          · exact hp
        have hp1tags : ∀ x ∈ p1.db.tags,
            (x.tag = t ∧ x.name = a.name ∧ x.flav = a.self ∧ x.stack = r.target) ∨ x ∈ p.db.tags := by
          rw [← hp1]
          intro x hx
          split at hx
          · rw [Proc.db_emit] at hx
            simp only [applyDb, Spec.addDecl] at hx
            rcases Spec.mem_setTag.mp hx with rfl | ⟨hx, _⟩
            · exact Or.inl ⟨rfl, rfl, rfl, rfl⟩
            · exact Or.inr (by simpa using hx)
          · exact Or.inr hx
        -- p2: after the purge
        obtain ⟨h2inv, h2sub, _, h2none⟩ := purgeAll_spec t a.name (allStacks nst) hp1inv
          (by unfold allStacks; exact List.pairwise_lt_range) (by intro s hs; simpa [allStacks] using hs)
          (by intro s' hs' hnin; exact absurd (by simpa [allStacks] using hs') hnin)
        generalize purgeAll nst a.self t a.name (allStacks nst) p1 = p2 at h2inv h2sub h2none
        have h2in : TagsInPath nst p2.db := by
          intro x hx
          rcases hp1tags x (h2sub x hx) with ⟨_, _, _, hs⟩ | hx'
          · rw [hs]; exact htl
          · exact hin x hx'
        have h2noK : ∀ x ∈ p2.db.tags, ¬ (x.tag = t ∧ x.name = a.name ∧ x.flav = a.self) := by
          intro x hx hk
          have := h2none x.stack (h2in x hx)
          have hh : p2.db.hasTag x.stack t a.name a.self = true :=
            Spec.hasTag_iff.mpr ⟨x, hx, TagRec.hasKey_iff.mpr ⟨rfl, hk.1, hk.2.1, hk.2.2⟩⟩
          rw [this] at hh; cases hh
        have h2other : SameOtherTags t a.name a.self p2.db p.db := by
          intro x hx
          rcases hp1tags x (h2sub x hx) with ⟨h1, h2, h3, _⟩ | hx'
          · exact Or.inl ⟨h1, h2, h3⟩
          · exact Or.inr hx'
        rcases assignTag_db a.self t a.name a.ver r.target p2 with hdb | hdb <;> rw [hdb]
        · exact ⟨onePlace_of hone h2other (fun x hx _ _ h1 h2 h3 _ _ _ => absurd ⟨h1, h2, h3⟩ (h2noK x hx)), h2in⟩
        · constructor
          · refine onePlace_of (t := t) (n := a.name) (f := a.self) hone ?_ ?_
            · intro x hx
              rcases Spec.mem_setTag.mp hx with rfl | ⟨hx, _⟩
              · exact Or.inl ⟨rfl, rfl, rfl⟩
              · exact h2other x hx
            · intro x hx y hy h1 h2 h3 k1 k2 k3
              rcases Spec.mem_setTag.mp hx with rfl | ⟨hx, _⟩
              · rcases Spec.mem_setTag.mp hy with rfl | ⟨hy, _⟩
                · rfl
                · exact absurd ⟨k1, k2, k3⟩ (h2noK y hy)
              · exact absurd ⟨h1, h2, h3⟩ (h2noK x hx)
          · intro x hx
            rcases Spec.mem_setTag.mp hx with rfl | ⟨hx, _⟩
            · exact htl
            · exact h2in x hx

theorem Spec.tagVer_some {c : Spec} {s : Nat} {t : Tag} {n : Name} {f : Flav} {v : Ver}
    (h : c.tagVer s t n f = some v) : ∃ r ∈ c.tags, r.stack = s ∧ r.tag = t ∧ r.name = n ∧ r.flav = f ∧ r.ver = v := by
  unfold Spec.tagVer at h
  cases hf : c.tags.find? (·.hasKey s t n f) with
  | none => rw [hf] at h; cases h
  | some r =>
    rw [hf] at h
    have hk : r.hasKey s t n f = true := by have := List.find?_some hf; exact this
    have k := TagRec.hasKey_iff.mp hk
    exact ⟨r, List.mem_of_find?_eq_some hf, k.1, k.2.1, k.2.2.1, k.2.2.2, by simpa using h⟩

/-- the answer of `findTagged` is a version that the tag names in the stack of the answer -/
theorem findTagged_tagVer {c : Spec} {stacks : List Nat} {n : Name} {t : Tag} {f : Flav} {d : Decl}
    (h : c.findTagged stacks n t f = some d) : c.tagVer d.stack t n f = some d.ver := by
  unfold Spec.findTagged at h
  obtain ⟨s, _, hd⟩ := List.exists_of_findSome?_eq_some h
  cases htv : c.tagVer s t n f with
  | none => rw [htv] at hd; cases hd
  | some v =>
    rw [htv] at hd
    dsimp only at hd
    have := findDecl_some hd
    rw [this.2.1, this.2.2.2.1]
    exact htv

end EupsModel.Db

namespace EupsModel.Cache
open EupsModel.Db

/-- the commands `C06_tag_unique_on_path_partial` is about: no direct `Eups.assignTag` (D32), no `declare` killed
half way (it assigns the tag in its stack before it purges the others), stack arguments on the path -/
def Plain (nst : Nat) : WCmd → Prop
  | .run _ (.assignTag ..) _ => False
  | .run _ (.declare a) crash => crash = none ∧ ∀ s, a.stack = some s → s < nst
  | _ => True

theorem run_noAdd (nst : Nat) (c : Cmd) (hc : ∀ a, c ≠ .declare a) (hc' : ∀ f t n v st, c ≠ .assignTag f t n v st)
    (p : Proc) (h : TrOK NoTagAdded p) : TrOK NoTagAdded (run nst c p).2 := by
  cases c with
  | declare a => exact absurd rfl (hc a)
  | undeclare a => exact undeclare_noAdd h
  | assignTag f t n v st => exact absurd rfl (hc' f t n v st)
  | unassignTag f t n v st na => exact unassignTag_noAdd h
  | remove f n v rc na fo su => exact remove_noAdd h
  | query f => exact h

/-- one step of a plain history keeps every tag in one stack of the path -/
theorem step_onePlace {w : World} (hn : 0 < w.nst) (hinv : CacheInv w) (hone : OnePlace w.db)
    (hin : TagsInPath w.nst w.db) (c : WCmd) (hc : Plain w.nst c) :
    OnePlace (step w c).db ∧ TagsInPath w.nst (step w c).db := by
  have hother : ∀ (u : User) (c : Cmd) (crash : Option Nat), (∀ a, c ≠ .declare a) →
      (∀ f t n v st, c ≠ .assignTag f t n v st) →
      OnePlace (step w (.run u c crash)).db ∧ TagsInPath w.nst (step w (.run u c crash)).db := by
    intro u c crash h1 h2
    obtain ⟨m, dirs, ex, es, hs, he⟩ := step_db true w u c crash
    have hno : ∀ e ∈ es, NoTagAdded e := by
      intro e he'
      exact run_noAdd w.nst c h1 h2 ⟨w.db, m, dirs, [], ex, w.tfiles⟩ (by intro e h; simp at h) e (hs.subset he')
    unfold step
    rw [he]
    have hsub := foldl_tags_subset es hno w.db
    exact ⟨hone.of_subset hsub, fun r hr => hin r (hsub r hr)⟩
  cases c with
  | rmCache u s f => exact ⟨hone, hin⟩
  | clearCache u => exact ⟨hone, hin⟩
  | envRmDir d => exact ⟨hone, hin⟩
  | adminBuild u self =>
    unfold step
    rw [(step_adminBuild_db true w u self).1]
    exact ⟨hone, hin⟩
  | run u c crash =>
    cases c with
    | assignTag f t n v st => exact absurd hc (by simp [Plain])
    | declare a =>
      obtain ⟨rfl, hstack⟩ := hc
      obtain ⟨m, hv, _, hdb⟩ := step_run hinv u (.declare a)
      unfold step
      rw [hdb]
      simp only [run]
      have hp : PInv w.nst a.self (⟨w.db, m, w.dirs, [], w.extras, w.tfiles⟩ : Proc) := ⟨hinv.dbinv, hv⟩
      exact declare_onePlace hn hp hstack hone hin
    | undeclare a => exact hother u _ crash (by intro a' h; cases h) (by intro f t n v st h; cases h)
    | unassignTag f t n v st na => exact hother u _ crash (by intro a' h; cases h) (by intro f t n v st h; cases h)
    | remove f n v rc na fo su => exact hother u _ crash (by intro a' h; cases h) (by intro f t n v st h; cases h)
    | query f => exact hother u _ crash (by intro a' h; cases h) (by intro f t n v st h; cases h)

theorem history_onePlace (nst : Nat) (hn : 0 < nst) (dirs : List DirEnt) (tfs : List TFile) (h : List WCmd) (hp : ∀ c ∈ h, Plain nst c) :
    OnePlace (runHistory (World.init nst dirs tfs) h).db ∧ TagsInPath nst (runHistory (World.init nst dirs tfs) h).db := by
  unfold runHistory
  suffices ∀ w : World, w.nst = nst → CacheInv w → OnePlace w.db → TagsInPath nst w.db →
      OnePlace (h.foldl step w).db ∧ TagsInPath nst (h.foldl step w).db from
    this _ rfl (cacheInv_init nst dirs tfs) (by intro r hr; simp [World.init, Spec.empty] at hr)
      (by intro r hr; simp [World.init, Spec.empty] at hr)
  induction h with
  | nil => intro w _ _ h1 h2; exact ⟨h1, h2⟩
  | cons c cs ih =>
    intro w hw hinv h1 h2
    simp only [List.foldl_cons]
    obtain ⟨k1, k2⟩ := step_onePlace (hw ▸ hn) hinv h1 (hw ▸ h2) c (hw ▸ hp c (by simp))
    exact ih (fun c' hc' => hp c' (by simp [hc'])) _ ((step_nst w c).trans hw) (step_inv hinv c) k1 (hw ▸ k2)

end EupsModel.Cache
