import EupsModel.Lemmas.SetupBasic
/-! What the proofs use of resolution: the product returned is a declaration of the requested name
(provided `alreadySetupProducts` holds declarations filed under their own names). -/
namespace EupsModel.Setup

def AlreadyOK (db : Db) (al : Already) : Prop :=
  ∀ n d r, aget al n = some (d, r) → Canon db d ∧ d.name = n

theorem lookup_named (db : Db) (n : Name) (v : Ver) (d : Decl) (h : db.lookup (n, v) = some d) :
    Canon db d ∧ d.name = n := by
  obtain ⟨hc, hp⟩ := lookup_canon db (n, v) d h
  exact ⟨hc, congrArg Prod.fst hp⟩

theorem findVer_named (db : Db) (path : List Nat) (n : Name) (v : VStr) (d : Decl)
    (h : db.findVer path n v = some d) : Canon db d ∧ d.name = n ∧ d.ver.1 = v := by
  unfold Db.findVer at h
  obtain ⟨k, _, hk⟩ := List.exists_of_findSome?_eq_some h
  obtain ⟨hc, hn⟩ := lookup_named db n (v, k) d hk
  exact ⟨hc, hn, by rw [(lookup_some db _ d hk).2.2]⟩

theorem tagged_named (db : Db) (path : List Nat) (t : Str) (n : Name) (d : Decl)
    (h : db.tagged path t n = some d) : Canon db d ∧ d.name = n := by
  unfold Db.tagged at h
  obtain ⟨k, _, hk⟩ := List.exists_of_findSome?_eq_some h
  cases hf : db.tags.find? (fun x => x.1 = t ∧ x.2.1 = n ∧ x.2.2.2 = k) with
  | none => rw [hf] at hk; cases hk
  | some x => rw [hf] at hk; exact lookup_named db n x.2.2 d hk

theorem walk_spec (db : Db) (path : List Nat) (al : Already) (hal : AlreadyOK db al) (name : Name)
    (version : Option VerReq) (depth : Nat) (vro : List VroEnt) :
    ∀ vexpr d r e0, walk db path al name version depth vexpr vro = some (d, r, e0) → Canon db d ∧ d.name = name := by
  induction vro with
  | nil => intro vexpr d r e0 h; simp [walk] at h
  | cons ent post ih =>
    intro vexpr d r e0 h
    cases ent with
    | path => simp only [walk] at h; exact ih _ _ _ _ h
    | typeExact => simp only [walk] at h; exact ih _ _ _ _ h
    | warn => simp only [walk] at h; exact ih _ _ _ _ h
    | keep =>
      simp only [walk] at h
      split at h
      · split at h
        · rename_i d' r' hg
          simp at h; obtain ⟨rfl, _, _⟩ := h
          exact hal _ _ _ hg
        · exact ih _ _ _ _ h
      · exact ih _ _ _ _ h
    | commandLine =>
      simp only [walk] at h
      split at h
      · rename_i d' hg
        simp at h; obtain ⟨rfl, _, _⟩ := h
        exact hal _ _ _ hg
      · exact ih _ _ _ _ h
    | tag t =>
      simp only [walk] at h
      split at h
      · rename_i d' hl
        simp at h; obtain ⟨rfl, _, _⟩ := h
        exact tagged_named db path t name _ hl
      · exact ih _ _ _ _ h
    | version =>
      simp only [walk] at h
      split at h
      · exact ih _ _ _ _ h
      · rename_i req
        split at h
        · exact ih _ _ _ _ h
        · cases h
        · split at h
          · rename_i d' hb
            simp at h; obtain ⟨rfl, _, _⟩ := h
            simp at hb
          · split at h
            · rename_i d' hb
              simp at h; obtain ⟨rfl, _, _⟩ := h
              cases req with
              | explicit v => exact ⟨(findVer_named db path name v _ hb).1, (findVer_named db path name v _ hb).2.1⟩
              | expr e => cases hb
            · split at h
              · exact ih _ _ _ _ h
              · cases h
    | versionBang =>
      simp only [walk] at h
      split at h
      · exact ih _ _ _ _ h
      · rename_i req
        split at h
        · exact ih _ _ _ _ h
        · cases h
        · split at h
          · rename_i d' hb
            simp at h; obtain ⟨rfl, _, _⟩ := h
            simp at hb
          · split at h
            · rename_i d' hb
              simp at h; obtain ⟨rfl, _, _⟩ := h
              cases req with
              | explicit v => exact ⟨(findVer_named db path name v _ hb).1, (findVer_named db path name v _ hb).2.1⟩
              | expr e => cases hb
            · split at h
              · exact ih _ _ _ _ h
              · cases h
    | versionExpr =>
      simp only [walk] at h
      split at h
      · exact ih _ _ _ _ h
      · rename_i req
        split at h
        · exact ih _ _ _ _ h
        · cases h
        · split at h
          · rename_i d' hb
            simp at h; obtain ⟨rfl, _, _⟩ := h
            simp only [if_true] at hb
            split at hb
            · split at hb
              · exact ⟨(findVer_named db path name _ _ hb).1, (findVer_named db path name _ _ hb).2.1⟩
              · cases hb
            · cases hb
          · split at h
            · rename_i d' hb
              simp at h; obtain ⟨rfl, _, _⟩ := h
              cases req with
              | explicit v => exact ⟨(findVer_named db path name v _ hb).1, (findVer_named db path name v _ hb).2.1⟩
              | expr e => cases hb
            · split at h
              · exact ih _ _ _ _ h
              · cases h

theorem find_spec (db : Db) (path : List Nat) (al : Already) (hal : AlreadyOK db al) (name : Name)
    (version : Option VerReq) (vexpr : Option VExpr) (depth : Nat) (vro : List VroEnt) (d : Decl) (r : VroEnt)
    (h : find db path al name version vexpr depth vro = some (d, r)) : Canon db d ∧ d.name = name := by
  unfold find at h
  split at h
  · cases h
  · rename_i d' r' e0 hw
    have hd' := walk_spec db path al hal name version depth vro vexpr d' r' e0 hw
    split at h
    · rename_i od oreason hg
      split at h
      · simp at h; obtain ⟨rfl, _⟩ := h; exact hal _ _ _ hg
      · simp at h; obtain ⟨rfl, _⟩ := h; exact hd'
    · simp at h; obtain ⟨rfl, _⟩ := h; exact hd'

theorem resolve_spec (db : Db) (path : List Nat) (keep : Bool) (al : Already) (hal : AlreadyOK db al) (name : Name)
    (version : Option VerReq) (vexpr : Option VExpr) (depth : Nat) :
    ∀ k vro d r, resolve db path keep al name version vexpr depth k vro = .found d r → Canon db d ∧ d.name = name := by
  intro k
  induction k with
  | zero => intro vro d r h; simp [resolve] at h
  | succ k ih =>
    intro vro d r h
    simp only [resolve] at h
    split at h
    · cases h
    · split at h
      · cases h
      · rename_i d' reason hr
        have hd' : Canon db d' ∧ d'.name = name := by
          split at hr
          · rename_i d'' r'' hf
            simp at hr; obtain ⟨rfl, _⟩ := hr
            exact find_spec db path al hal name version vexpr depth vro _ _ hf
          · split at hr
            · rename_i d'' r'' hg
              split at hr
              · cases hr
              · simp at hr; obtain ⟨rfl, _⟩ := hr; exact hal _ _ _ hg
            · cases hr
        split at h
        · split at h
          · split at h
            · cases h
            · split at h
              · exact ih _ _ _ h
              · cases h
          · simp at h; obtain ⟨rfl, _⟩ := h; exact hd'
        · simp at h; obtain ⟨rfl, _⟩ := h; exact hd'

/-- the product cache hands out a declaration of the same name and version name -/
theorem pickDecl_spec (db : Db) (c : PCache) (d : Decl) (n : Name) (hc : Canon db d) (hn : d.name = n) :
    Canon db (pickDecl db c d) ∧ (pickDecl db c d).name = n := by
  unfold pickDecl
  cases hg : aget c (d.name, d.ver.1, d.ver.2) with
  | none => exact ⟨hc, hn⟩
  | some k =>
    simp only
    cases hl : db.lookup (d.name, (d.ver.1, k)) with
    | none => simpa using ⟨hc, hn⟩
    | some d' =>
      obtain ⟨h1, h2⟩ := lookup_named db d.name (d.ver.1, k) d' hl
      simpa using ⟨h1, by rw [h2]; exact hn⟩

theorem pickDecl_ver (db : Db) (c : PCache) (d : Decl) : (pickDecl db c d).ver.1 = d.ver.1 := by
  unfold pickDecl
  cases hg : aget c (d.name, d.ver.1, d.ver.2) with
  | none => rfl
  | some k =>
    simp only
    cases hl : db.lookup (d.name, (d.ver.1, k)) with
    | none => rfl
    | some d' => simp; rw [(lookup_some db _ d' hl).2.2]

/-- `alreadySetupProducts` as rebuilt from the environment at depth 0 -/
theorem alreadyOfEnv_ok (db : Db) (e : Env) : AlreadyOK db (alreadyOfEnv db e) := by
  intro n d r h
  have hm := aget_mem _ _ _ h
  unfold alreadyOfEnv at hm
  simp only [List.mem_filterMap] at hm
  obtain ⟨⟨n', v'⟩, _, hx⟩ := hm
  cases hl : db.lookup (n', v') with
  | none => simp [hl] at hx
  | some d' =>
    simp [hl] at hx
    obtain ⟨rfl, rfl, _⟩ := hx
    exact lookup_named db n' v' d' hl

theorem alreadyOK_aset (db : Db) (al : Already) (hal : AlreadyOK db al) (d : Decl) (r : Option VroEnt)
    (hc : Canon db d) : AlreadyOK db (aset al d.name (d, r)) := by
  intro n d' r' h
  by_cases hn : n = d.name
  · subst hn
    rw [aget_aset_same] at h
    simp at h; obtain ⟨rfl, _⟩ := h
    exact ⟨hc, rfl⟩
  · rw [aget_aset_other _ _ _ _ hn] at h
    exact hal _ _ _ h

end EupsModel.Setup
