import EupsModel.Model.SetupType
/-! Lemmas about the model of the setup-type glue: a `--type` option made of words separated by runs of blanks and
commas names exactly those words. -/
namespace EupsModel.SetupType
open EupsModel.Cond

def noSep (w : Str) : Bool := w.all fun c => !sepCh c

theorem splitRuns_word : ∀ (w : Str) (c : Nat) (cur cs : Str) (flag : Bool), noSep (c :: w) = true →
    splitRuns cur (c :: w ++ cs) flag = splitRuns (cur ++ c :: w) cs false := by
  intro w
  induction w with
  | nil =>
    intro c cur cs flag h
    simp only [noSep, List.all_cons, List.all_nil, Bool.and_true, Bool.not_eq_true'] at h
    simp [splitRuns, h]
  | cons d w ih =>
    intro c cur cs flag h
    simp only [noSep, List.all_cons, Bool.and_eq_true, Bool.not_eq_true'] at h
    have hd : noSep (d :: w) = true := by simp [noSep, h.2.1, h.2.2]
    have := ih d (cur ++ [c]) cs false hd
    simp only [List.cons_append, splitRuns, h.1, Bool.false_eq_true, if_false] at this ⊢
    rw [this]; simp

theorem splitRuns_skip : ∀ (s cs : Str), s.all sepCh = true → splitRuns [] (s ++ cs) true = splitRuns [] cs true := by
  intro s
  induction s with
  | nil => intro cs _; rfl
  | cons c s ih =>
    intro cs h
    simp only [List.all_cons, Bool.and_eq_true] at h
    simp [splitRuns, h.1, ih cs h.2]

theorem splitRuns_sep (c : Nat) (s cs cur : Str) (hc : sepCh c = true) (hs : s.all sepCh = true) :
    splitRuns cur (c :: s ++ cs) false = cur :: splitRuns [] cs true := by
  simp [splitRuns, hc, splitRuns_skip s cs hs]

/-- a separator: a non-empty run of blanks and commas; a word: non-empty, none of them inside -/
def sepOK (s : Str) : Bool := !s.isEmpty && s.all sepCh
def wordOK (w : Str) : Bool := !w.isEmpty && noSep w

theorem splitRuns_words : ∀ (rest : List (Str × Str)) (cur : Str),
    (∀ p ∈ rest, sepOK p.1 = true ∧ wordOK p.2 = true) →
    splitRuns cur (rest.flatMap fun p => p.1 ++ p.2) false = cur :: rest.map (·.2) := by
  intro rest
  induction rest with
  | nil => intro cur _; rfl
  | cons p tail ih =>
    intro cur h
    obtain ⟨hs, hw⟩ := h p (by simp)
    obtain ⟨s, w⟩ := p
    simp only [sepOK, wordOK, Bool.and_eq_true, Bool.not_eq_true', List.isEmpty_eq_false_iff] at hs hw
    cases s with
    | nil => exact absurd rfl hs.1
    | cons c s' =>
      cases w with
      | nil => exact absurd rfl hw.1
      | cons d w' =>
        have hs' := hs.2
        simp only [List.all_cons, Bool.and_eq_true] at hs'
        have e : (List.flatMap (fun p => p.1 ++ p.2) ((c :: s', d :: w') :: tail))
            = c :: s' ++ (d :: w' ++ tail.flatMap fun p => p.1 ++ p.2) := by simp
        rw [e, splitRuns_sep c s' _ cur hs'.1 hs'.2, splitRuns_word w' d [] _ true hw.2,
          List.nil_append, ih _ (fun q hq => h q (by simp [hq]))]
        rfl

/-- **the words of a `--type` option.** -/
theorem argTypes_words (first : Str) (rest : List (Str × Str)) (hf : wordOK first = true)
    (hr : ∀ p ∈ rest, sepOK p.1 = true ∧ wordOK p.2 = true) :
    argTypes (.str (first ++ rest.flatMap fun p => p.1 ++ p.2)) = first :: rest.map (·.2) := by
  simp only [wordOK, Bool.and_eq_true, Bool.not_eq_true', List.isEmpty_eq_false_iff] at hf
  cases first with
  | nil => exact absurd rfl hf.1
  | cons d w =>
    have hsplit : splitRuns [] (d :: w ++ rest.flatMap fun p => p.1 ++ p.2) false = (d :: w) :: rest.map (·.2) := by
      rw [splitRuns_word w d [] _ false hf.2, List.nil_append, splitRuns_words rest _ hr]
    simp only [argTypes, List.cons_append, List.isEmpty_cons, Bool.false_eq_true, if_false]
    split
    · exact hsplit
    · rename_i hany
      cases rest with
      | nil => simp
      | cons p tail =>
        exfalso
        obtain ⟨hs, _⟩ := hr p (by simp)
        obtain ⟨s, w2⟩ := p
        simp only [sepOK, Bool.and_eq_true, Bool.not_eq_true', List.isEmpty_eq_false_iff] at hs
        cases s with
        | nil => exact absurd rfl hs.1
        | cons c s' =>
          have hs' := hs.2
          simp only [List.all_cons, Bool.and_eq_true] at hs'
          apply hany
          simp [List.any_append, hs'.1]

theorem contains_filter_ne (ts : List Str) (x w : Str) :
    (ts.filter (· != x)).contains w = (ts.contains w && w != x) := by
  induction ts with
  | nil => simp
  | cons t rest ih =>
    by_cases htx : t = x
    · subst htx
      by_cases hw : w = t
      · subst hw; simp [List.filter_cons, ih]
      · have : (w == t) = false := by simpa using hw
        simp [List.filter_cons, ih, List.contains_cons, this, hw]
    · have h1 : (t != x) = true := by simpa using htx
      simp only [List.filter_cons, h1, if_true, List.contains_cons, ih]
      by_cases hw : w = t
      · subst hw; simp [htx]
      · have : (w == t) = false := by simpa using hw
        simp [this]

/-! ### `str.split()` -/

def noWs (w : Str) : Bool := w.all fun c => !Str.isSpace c

theorem splitWs_word : ∀ (w : Str) (c : Nat) (cur cs : Str), noWs (c :: w) = true →
    splitWs cur (c :: w ++ cs) = splitWs (cur ++ c :: w) cs := by
  intro w
  induction w with
  | nil =>
    intro c cur cs h
    simp only [noWs, List.all_cons, List.all_nil, Bool.and_true, Bool.not_eq_true'] at h
    simp [splitWs, h]
  | cons d w ih =>
    intro c cur cs h
    simp only [noWs, List.all_cons, Bool.and_eq_true, Bool.not_eq_true'] at h
    have hd : noWs (d :: w) = true := by simp [noWs, h.2.1, h.2.2]
    have := ih d (cur ++ [c]) cs hd
    simp only [List.cons_append, splitWs, h.1, Bool.false_eq_true, if_false] at this ⊢
    rw [this]; simp

theorem splitWs_skip : ∀ (s cs : Str), s.all Str.isSpace = true → splitWs [] (s ++ cs) = splitWs [] cs := by
  intro s
  induction s with
  | nil => intro cs _; rfl
  | cons c s ih =>
    intro cs h
    simp only [List.all_cons, Bool.and_eq_true] at h
    simp [splitWs, h.1, ih cs h.2]

theorem splitWs_sep (c : Nat) (s cs cur : Str) (hcur : cur ≠ []) (hc : Str.isSpace c = true) (hs : s.all Str.isSpace = true) :
    splitWs cur (c :: s ++ cs) = cur :: splitWs [] cs := by
  have : cur.isEmpty = false := by simpa using hcur
  simp [splitWs, hc, this, splitWs_skip s cs hs]

/-- between two words: a non-empty run of white space; a word: non-empty, no white space inside (a comma is part of
a word here) -/
def wsSep (s : Str) : Bool := !s.isEmpty && s.all Str.isSpace
def wsWord (w : Str) : Bool := !w.isEmpty && noWs w

theorem splitWs_words : ∀ (rest : List (Str × Str)) (cur pad : Str), cur ≠ [] → pad.all Str.isSpace = true →
    (∀ p ∈ rest, wsSep p.1 = true ∧ wsWord p.2 = true) →
    splitWs cur ((rest.flatMap fun p => p.1 ++ p.2) ++ pad) = cur :: rest.map (·.2) := by
  intro rest
  induction rest with
  | nil =>
    intro cur pad hcur hpad _
    have hne : cur.isEmpty = false := by simpa using hcur
    cases pad with
    | nil => simp [splitWs, hne]
    | cons c s =>
      simp only [List.all_cons, Bool.and_eq_true] at hpad
      have := splitWs_sep c s [] cur hcur hpad.1 hpad.2
      simpa [splitWs] using this
  | cons p tail ih =>
    intro cur pad hcur hpad h
    obtain ⟨hs, hw⟩ := h p (by simp)
    obtain ⟨s, w⟩ := p
    simp only [wsSep, wsWord, Bool.and_eq_true, Bool.not_eq_true', List.isEmpty_eq_false_iff] at hs hw
    cases s with
    | nil => exact absurd rfl hs.1
    | cons c s' =>
      cases w with
      | nil => exact absurd rfl hw.1
      | cons d w' =>
        have hs' := hs.2
        simp only [List.all_cons, Bool.and_eq_true] at hs'
        have e : (List.flatMap (fun p => p.1 ++ p.2) ((c :: s', d :: w') :: tail)) ++ pad
            = c :: s' ++ (d :: w' ++ ((tail.flatMap fun p => p.1 ++ p.2) ++ pad)) := by simp
        rw [e, splitWs_sep c s' _ cur hcur hs'.1 hs'.2, splitWs_word w' d [] _ hw.2,
          List.nil_append, ih _ pad (by simp) hpad (fun q hq => h q (by simp [hq]))]
        rfl

/-- **the words of an `eups <cmd> -T` option** (`str.split()`): blanks before, between and after the words -/
theorem cmdArg_words (pad1 first : Str) (rest : List (Str × Str)) (pad2 : Str) (h1 : pad1.all Str.isSpace = true)
    (hf : wsWord first = true) (hr : ∀ p ∈ rest, wsSep p.1 = true ∧ wsWord p.2 = true) (h2 : pad2.all Str.isSpace = true) :
    cmdArg (pad1 ++ first ++ (rest.flatMap fun p => p.1 ++ p.2) ++ pad2) = .list (first :: rest.map (·.2)) := by
  simp only [wsWord, Bool.and_eq_true, Bool.not_eq_true', List.isEmpty_eq_false_iff] at hf
  cases first with
  | nil => exact absurd rfl hf.1
  | cons d w =>
    simp only [cmdArg, List.append_assoc]
    rw [splitWs_skip pad1 _ h1]
    have : d :: w ++ ((rest.flatMap fun p => p.1 ++ p.2) ++ pad2) = d :: w ++ ((rest.flatMap fun p => p.1 ++ p.2) ++ pad2) := rfl
    rw [splitWs_word w d [] _ hf.2, List.nil_append, splitWs_words rest _ pad2 (by simp) h2 hr]

/-! ### sequences on one `Eups` object -/

theorem stepOut_state (ex : Bool) (pdir : Option Str) (fl text : Str) (ts : List Str) (st : Step) :
    (stepOut ex pdir fl text ts st).2 = ts ∧ (stepOut ex pdir fl text ts st).1.state = ts := by
  cases st <;> exact ⟨rfl, rfl⟩

/-- no step changes the setup types of the object: every step of a sequence is evaluated for the initial types -/
theorem runSeq_stable (ex : Bool) (pdir : Option Str) (fl text : Str) : ∀ (steps : List Step) (ts : List Str),
    runSeq ex pdir fl text ts steps = steps.map fun st => (stepOut ex pdir fl text ts st).1 := by
  intro steps
  induction steps with
  | nil => intro ts; rfl
  | cons st r ih =>
    intro ts
    simp only [runSeq, List.map_cons, (stepOut_state ex pdir fl text ts st).1, ih]

end EupsModel.SetupType
