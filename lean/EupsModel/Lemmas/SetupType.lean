import EupsModel.Model.SetupType
/-! Lemmas about the model of the setup-type glue: a `--type` option made of words separated by runs of blanks and
commas names exactly those words. -/
namespace EupsModel.SetupType
open EupsModel.Cond

def noSep (w : Str) : Bool := w.all fun c => !sepCh c

theorem splitRuns_word : ∀ (w : Str) (c : Nat) (cur cs : Str) (flag : Bool), noSep (c :: w) = true →
    splitRuns cur (c :: w ++ cs) flag = splitRuns (cur ++ c :: w) cs false := by
  intro w
  induction w with
  | nil =>
    intro c cur cs flag h
    simp only [noSep, List.all_cons, List.all_nil, Bool.and_true, Bool.not_eq_true'] at h
    simp [splitRuns, h]
  | cons d w ih =>
    intro c cur cs flag h
    simp only [noSep, List.all_cons, Bool.and_eq_true, Bool.not_eq_true'] at h
    have hd : noSep (d :: w) = true := by simp [noSep, h.2.1, h.2.2]
    have := ih d (cur ++ [c]) cs false hd
    simp only [List.cons_append, splitRuns, h.1, Bool.false_eq_true, if_false] at this ⊢
    rw [this]; simp

theorem splitRuns_skip : ∀ (s cs : Str), s.all sepCh = true → splitRuns [] (s ++ cs) true = splitRuns [] cs true := by
  intro s
  induction s with
  | nil => intro cs _; rfl
  | cons c s ih =>
    intro cs h
    simp only [List.all_cons, Bool.and_eq_true] at h
    simp [splitRuns, h.1, ih cs h.2]

theorem splitRuns_sep (c : Nat) (s cs cur : Str) (hc : sepCh c = true) (hs : s.all sepCh = true) :
    splitRuns cur (c :: s ++ cs) false = cur :: splitRuns [] cs true := by
  simp [splitRuns, hc, splitRuns_skip s cs hs]

/-- a separator: a non-empty run of blanks and commas; a word: non-empty, none of them inside -/
def sepOK (s : Str) : Bool := !s.isEmpty && s.all sepCh
def wordOK (w : Str) : Bool := !w.isEmpty && noSep w

theorem splitRuns_words : ∀ (rest : List (Str × Str)) (cur : Str),
    (∀ p ∈ rest, sepOK p.1 = true ∧ wordOK p.2 = true) →
    splitRuns cur (rest.flatMap fun p => p.1 ++ p.2) false = cur :: rest.map (·.2) := by
  intro rest
  induction rest with
  | nil => intro cur _; rfl
  | cons p tail ih =>
    intro cur h
    obtain ⟨hs, hw⟩ := h p (by simp)
    obtain ⟨s, w⟩ := p
    simp only [sepOK, wordOK, Bool.and_eq_true, Bool.not_eq_true', List.isEmpty_eq_false_iff] at hs hw
    cases s with
    | nil => exact absurd rfl hs.1
    | cons c s' =>
      cases w with
      | nil => exact absurd rfl hw.1
      | cons d w' =>
        have hs' := hs.2
        simp only [List.all_cons, Bool.and_eq_true] at hs'
        have e : (List.flatMap (fun p => p.1 ++ p.2) ((c :: s', d :: w') :: tail))
            = c :: s' ++ (d :: w' ++ tail.flatMap fun p => p.1 ++ p.2) := by simp
        rw [e, splitRuns_sep c s' _ cur hs'.1 hs'.2, splitRuns_word w' d [] _ true hw.2,
          List.nil_append, ih _ (fun q hq => h q (by simp [hq]))]
        rfl

/-- **the words of a `--type` option.** -/
theorem argTypes_words (first : Str) (rest : List (Str × Str)) (hf : wordOK first = true)
    (hr : ∀ p ∈ rest, sepOK p.1 = true ∧ wordOK p.2 = true) :
    argTypes (.str (first ++ rest.flatMap fun p => p.1 ++ p.2)) = first :: rest.map (·.2) := by
  simp only [wordOK, Bool.and_eq_true, Bool.not_eq_true', List.isEmpty_eq_false_iff] at hf
  cases first with
  | nil => exact absurd rfl hf.1
  | cons d w =>
    have hsplit : splitRuns [] (d :: w ++ rest.flatMap fun p => p.1 ++ p.2) false = (d :: w) :: rest.map (·.2) := by
      rw [splitRuns_word w d [] _ false hf.2, List.nil_append, splitRuns_words rest _ hr]
    simp only [argTypes, List.cons_append, List.isEmpty_cons, Bool.false_eq_true, if_false]
    split
    · exact hsplit
    · rename_i hany
      cases rest with
      | nil => simp
      | cons p tail =>
        exfalso
        obtain ⟨hs, _⟩ := hr p (by simp)
        obtain ⟨s, w2⟩ := p
        simp only [sepOK, Bool.and_eq_true, Bool.not_eq_true', List.isEmpty_eq_false_iff] at hs
        cases s with
        | nil => exact absurd rfl hs.1
        | cons c s' =>
          have hs' := hs.2
          simp only [List.all_cons, Bool.and_eq_true] at hs'
          apply hany
          simp [List.any_append, hs'.1]

theorem contains_filter_ne (ts : List Str) (x w : Str) :
    (ts.filter (· != x)).contains w = (ts.contains w && w != x) := by
  induction ts with
  | nil => simp
  | cons t rest ih =>
    by_cases htx : t = x
    · subst htx
      by_cases hw : w = t
      · subst hw; simp [List.filter_cons, ih]
      · have : (w == t) = false := by simpa using hw
        simp [List.filter_cons, ih, List.contains_cons, this, hw]
    · have h1 : (t != x) = true := by simpa using htx
      simp only [List.filter_cons, h1, if_true, List.contains_cons, ih]
      by_cases hw : w = t
      · subst hw; simp [htx]
      · have : (w == t) = false := by simpa using hw
        simp [this]

end EupsModel.SetupType
