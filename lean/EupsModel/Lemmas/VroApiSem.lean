import EupsModel.Model.VroApi
import EupsModel.Lemmas.Vro
/-! What the older entry points (`Model/VroApi.lean`) answer: `findProduct` with an explicit version, a tag file,
the preferred-tags walk. -/
namespace EupsModel.Vro

/-- `findProduct(name, "<explicit version>")` is the explicit-version lookup of the VRO walk -/
theorem findProductApi_explicit (C : Ctx) (q : ApiReq) (v : Str) (hv : v.isEmpty = false)
    (hi : q.ignoreVersions = false) (hex : isExpr v = .ok false) :
    findProductApi C q (some v) = .ok (lookupVersion C.db q.name v q.flavor) := by
  simp [findProductApi, hv, hi, hex]

/-- a tag file that does not list the product designates nothing -/
theorem findTaggedFromFile_not_listed (C : Ctx) (q : ApiReq) (content : Str)
    (h : tagFileVersion content q.name = .ok none) : findTaggedFromFile C q content = .ok none := by
  simp [findTaggedFromFile, h]

/-- an ill-formed line in front of the product's line is reported, not skipped -/
theorem findTaggedFromFile_bad_line (C : Ctx) (q : ApiReq) (content : Str) (e : FileErr)
    (h : tagFileVersion content q.name = .error e) : findTaggedFromFile C q content = .error (.file e) := by
  simp [findTaggedFromFile, h]

/-- a tag file listing an explicit version `v` for the product: the answer is `v` from the first stack declaring
it; when no stack declares it, a `LOCAL:` directory that exists, else a loud failure (nothing with `--force`) -/
theorem findTaggedFromFile_explicit (C : Ctx) (q : ApiReq) (content v : Str)
    (h : tagFileVersion content q.name = .ok (some v)) (hv : v.isEmpty = false)
    (hi : q.ignoreVersions = false) (hex : isExpr v = .ok false) :
    findTaggedFromFile C q content =
      match lookupVersion C.db q.name v q.flavor with
      | some p => .ok (some p)
      | none =>
        match localProd C v with
        | some p => .ok (some p)
        | none => if q.force then .ok none else .error .notFound := by
  simp only [findTaggedFromFile, h, findProductApi_explicit C q v hv hi hex]
  cases lookupVersion C.db q.name v q.flavor <;> rfl

/-- an entry of the preferred tags that `findPreferredProduct` passes over -/
def passedOver (e : Str) : Bool := e == [colon] || allDigits e || hasInfix kTypeColon e

theorem findPreferred_nil (C : Ctx) (q : ApiReq) : findPreferred C q [] = .ok none := rfl

theorem findPreferred_cons_skip {C : Ctx} {q : ApiReq} {e : Str} (rest : List Str) (h : passedOver e = true) :
    findPreferred C q (e :: rest) = findPreferred C q rest := by
  unfold passedOver at h
  rw [findPreferred]
  simp only [h, if_true]

theorem findPreferred_cons_none {C : Ctx} {q : ApiReq} {e key : Str} (rest : List Str) (h : passedOver e = false)
    (hk : C.tagKey e = some key) (hf : findTagged C q key = .ok none) :
    findPreferred C q (e :: rest) = findPreferred C q rest := by
  unfold passedOver at h
  rw [findPreferred]
  simp only [h, Bool.false_eq_true, if_false, hk, hf]

theorem findPreferred_cons_hit {C : Ctx} {q : ApiReq} {e key : Str} {p : Prod} (rest : List Str) (h : passedOver e = false)
    (hk : C.tagKey e = some key) (hf : findTagged C q key = .ok (some p)) :
    findPreferred C q (e :: rest) = .ok (some p) := by
  unfold passedOver at h
  rw [findPreferred]
  simp only [h, Bool.false_eq_true, if_false, hk, hf]

/-- `findPreferredProduct` answers with the first preferred tag that designates a version: everything in front of it is
passed over (`:`, digits, `type:…`) or is a tag that designates nothing -/
theorem findPreferred_hit_iff (C : Ctx) (q : ApiReq) (l : List Str) (p : Prod) :
    findPreferred C q l = .ok (some p) ↔
      ∃ pre e post key, l = pre ++ e :: post ∧ passedOver e = false ∧ C.tagKey e = some key ∧
        findTagged C q key = .ok (some p) ∧
        ∀ x ∈ pre, passedOver x = true ∨ ∃ k, C.tagKey x = some k ∧ findTagged C q k = .ok none := by
  induction l with
  | nil =>
    simp only [findPreferred_nil]
    constructor
    · intro h; cases h
    · rintro ⟨pre, e, post, key, h, _⟩
      cases pre <;> cases h
  | cons e rest ih =>
    by_cases hp : passedOver e = true
    · rw [findPreferred_cons_skip rest hp, ih]
      constructor
      · rintro ⟨pre, e', post, key, rfl, h1, h2, h3, h4⟩
        refine ⟨e :: pre, e', post, key, rfl, h1, h2, h3, ?_⟩
        intro x hx
        rcases List.mem_cons.mp hx with rfl | hx
        · exact Or.inl hp
        · exact h4 x hx
      · rintro ⟨pre, e', post, key, hl, h1, h2, h3, h4⟩
        cases pre with
        | nil =>
          simp only [List.nil_append, List.cons.injEq] at hl
          obtain ⟨rfl, _⟩ := hl
          rw [hp] at h1; cases h1
        | cons x pre =>
          simp only [List.cons_append, List.cons.injEq] at hl
          obtain ⟨rfl, rfl⟩ := hl
          exact ⟨pre, e', post, key, rfl, h1, h2, h3, fun y hy => h4 y (List.mem_cons_of_mem _ hy)⟩
    · have hp' : passedOver e = false := by simpa using hp
      cases hk : C.tagKey e with
      | none =>
        have : findPreferred C q (e :: rest) = .error .tagNotRecognized := by
          unfold passedOver at hp'
          rw [findPreferred]
          simp only [hp', Bool.false_eq_true, if_false, hk]
        rw [this]
        constructor
        · intro h; cases h
        · rintro ⟨pre, e', post, key, hl, h1, h2, h3, h4⟩
          cases pre with
          | nil =>
            simp only [List.nil_append, List.cons.injEq] at hl
            obtain ⟨rfl, _⟩ := hl
            rw [hk] at h2; cases h2
          | cons x pre =>
            simp only [List.cons_append, List.cons.injEq] at hl
            obtain ⟨rfl, _⟩ := hl
            rcases h4 e (by simp) with h | ⟨k, h, _⟩
            · rw [hp'] at h; cases h
            · rw [hk] at h; cases h
      | some key =>
        cases hf : findTagged C q key with
        | error err =>
          have : findPreferred C q (e :: rest) = .error err := by
            unfold passedOver at hp'
            rw [findPreferred]
            simp only [hp', Bool.false_eq_true, if_false, hk, hf]
          rw [this]
          constructor
          · intro h; cases h
          · rintro ⟨pre, e', post, key', hl, h1, h2, h3, h4⟩
            cases pre with
            | nil =>
              simp only [List.nil_append, List.cons.injEq] at hl
              obtain ⟨rfl, _⟩ := hl
              rw [hk] at h2; cases h2
              rw [hf] at h3; cases h3
            | cons x pre =>
              simp only [List.cons_append, List.cons.injEq] at hl
              obtain ⟨rfl, _⟩ := hl
              rcases h4 e (by simp) with h | ⟨k, h, h'⟩
              · rw [hp'] at h; cases h
              · rw [hk] at h; cases h
                rw [hf] at h'; cases h'
        | ok o =>
          cases o with
          | none =>
            rw [findPreferred_cons_none rest hp' hk hf, ih]
            constructor
            · rintro ⟨pre, e', post, key', rfl, h1, h2, h3, h4⟩
              refine ⟨e :: pre, e', post, key', rfl, h1, h2, h3, ?_⟩
              intro x hx
              rcases List.mem_cons.mp hx with rfl | hx
              · exact Or.inr ⟨key, hk, hf⟩
              · exact h4 x hx
            · rintro ⟨pre, e', post, key', hl, h1, h2, h3, h4⟩
              cases pre with
              | nil =>
                simp only [List.nil_append, List.cons.injEq] at hl
                obtain ⟨rfl, _⟩ := hl
                rw [hk] at h2; cases h2
                rw [hf] at h3; cases h3
              | cons x pre =>
                simp only [List.cons_append, List.cons.injEq] at hl
                obtain ⟨rfl, rfl⟩ := hl
                exact ⟨pre, e', post, key', rfl, h1, h2, h3, fun y hy => h4 y (List.mem_cons_of_mem _ hy)⟩
          | some p' =>
            rw [findPreferred_cons_hit rest hp' hk hf]
            constructor
            · intro h
              cases h
              exact ⟨[], e, rest, key, rfl, hp', hk, hf, by simp⟩
            · rintro ⟨pre, e', post, key', hl, h1, h2, h3, h4⟩
              cases pre with
              | nil =>
                simp only [List.nil_append, List.cons.injEq] at hl
                obtain ⟨rfl, _⟩ := hl
                rw [hk] at h2; cases h2
                rw [hf] at h3; cases h3
                rfl
              | cons x pre =>
                simp only [List.cons_append, List.cons.injEq] at hl
                obtain ⟨rfl, _⟩ := hl
                rcases h4 e (by simp) with h | ⟨k, h, h'⟩
                · rw [hp'] at h; cases h
                · rw [hk] at h; cases h
                  rw [hf] at h'; cases h'

/-! ## tag files on the VRO -/

/-- without tag files the extended walk is the walk -/
theorem walkF_nil (C : Ctx) (q : ApiReq) (r : Req) (vro : List Str) :
    walkF C [] q r vro = (match walk C r vro with | .error e => .error (.walk e) | .ok o => .ok o) := by
  induction vro with
  | nil => rfl
  | cons e post ih =>
    have hl : (if isDirective r e then none else lookupKey e ([] : List (Str × Str))) = none := by
      split <;> rfl
    simp only [walkF, walk, lookupEntryF, hl]
    cases lookupEntry C r e post with
    | error err => rfl
    | ok o =>
      cases o with
      | skip => simpa using ih
      | abort => rfl
      | hit p reason => rfl

theorem findF_nil (C : Ctx) (q : ApiReq) (r : Req) (vro : List Str) :
    findF C [] q r vro = (match find C r vro with | .error e => .error (.walk e) | .ok o => .ok o) := by
  unfold findF find
  rw [walkF_nil]
  cases walk C r vro with
  | error err => rfl
  | ok o => cases o <;> rfl

/-- an entry that names a tag file (and is not a directive) answers as the file says: the version listed for the product,
from the first stack declaring it — reason: the entry; "not listed" is "continue"; an error leaves the walk -/
theorem lookupEntryF_file (C : Ctx) (files : List (Str × Str)) (q : ApiReq) (r : Req) (e : Str) (post : List Str)
    (content : Str) (hd : isDirective r e = false) (hf : lookupKey e files = some content) :
    lookupEntryF C files q r e post =
      match findTaggedFromFile C q content with
      | .error err => .error err
      | .ok (some p) => .ok (.hit p e)
      | .ok none => .ok .skip := by
  simp only [lookupEntryF, hd, Bool.false_eq_true, if_false, hf]
  cases findTaggedFromFile C q content with
  | error err => rfl
  | ok o => cases o <;> rfl

end EupsModel.Vro
