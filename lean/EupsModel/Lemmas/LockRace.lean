import EupsModel.Model.LockRace
import EupsModel.Lemmas.LockRes
import EupsModel.Lemmas.LockAtomic
/-! C09 — invariant of race-free schedules (behind `C09_classification`).

As long as no step is one of the three races (`Racy`), and `EUPS_LOCK_PID` maps are flat:
an admitted exclusive requester and an unrelated shared requester past its tests never coexist (`exsh`), nor do two
unrelated exclusive requesters past their tests (`exex`); the directory exists while anybody is in flight; nobody runs
unlocked; an exclusive child's lock file is newer than its parent's exclusive file (`order`), and while an exclusive
root is in flight none of its exclusive children is admitted (`rootIn`). -/
namespace EupsModel.Lock

/-- passed every admission test, lock file not yet removed -/
def past : PC → Bool
  | .create | .hold | .isdir | .rexists | .remove => true
  | _ => false

/-- admitted to the lock directory, lock file not yet removed -/
def inAdm : PC → Bool
  | .scan | .scan2 | .create | .hold | .isdir | .rexists | .remove => true
  | _ => false

theorem inAdm_of_inflight {v : PC} (h : inflight v = true) : inAdm v = true := by
  cases v <;> simp_all [inflight, inAdm]
theorem inAdm_of_past {v : PC} (h : past v = true) : inAdm v = true := by
  cases v <;> simp_all [past, inAdm]
theorem inAdm_cases {v : PC} (h : inAdm v = true) : inflight v = true ∨ hasFile v = true := by
  cases v <;> simp_all [inflight, inAdm, hasFile]
theorem past_cases {v : PC} (h : past v = true) : v = .create ∨ hasFile v = true := by
  cases v <;> simp_all [past, hasFile]
theorem past_of_hasFile {v : PC} (h : hasFile v = true) : past v = true := by
  cases v <;> simp_all [past, hasFile]

structure RFInv (s : St) : Prop where
  flat   : Flat s.lp
  res    : ResInv s
  nodup  : s.files.Nodup
  k1     : ∀ p, s.pc p = .existsChk → s.kind p = .sh
  dirIn  : ∀ p, inflight (s.pc p) = true → s.dir = true
  noUnl  : ∀ p, s.pc p ≠ .unlocked
  exsh   : ∀ p q, ¬ related s p q → s.kind p = .ex → s.kind q = .sh → inAdm (s.pc p) = true →
             past (s.pc q) = true → False
  exex   : ∀ p q, p ≠ q → ¬ related s p q → s.kind p = .ex → s.kind q = .ex → past (s.pc p) = true →
             past (s.pc q) = true → False
  order  : ∀ p r, s.lp p = some r → (Kind.ex, p) ∈ s.files → (Kind.ex, r) ∈ s.files →
             List.Sublist [(Kind.ex, p), (Kind.ex, r)] s.files
  rootIn : ∀ r p, inflight (s.pc r) = true → s.kind r = .ex → s.lp p = some r → s.kind p = .ex →
             inAdm (s.pc p) = true → False

theorem rfInv_init (kind : Pid → Kind) (lp : Pid → Option Pid) (tries : Pid → Nat) (hf : Flat lp) :
    RFInv (init kind lp tries) := by
  refine ⟨hf, resInv_init kind lp tries, ?_, ?_, ?_, ?_, ?_, ?_, ?_, ?_⟩ <;>
    simp [init, inflight, inAdm, past]

namespace RFInv
variable {s : St}

theorem dir_of_inAdm (h : RFInv s) {q : Pid} (hq : inAdm (s.pc q) = true) : s.dir = true := by
  rcases inAdm_cases hq with hq | hq
  · exact h.dirIn q hq
  · exact h.res.dir_of_hasFile hq

theorem mem_of_hasFile (h : RFInv s) {q : Pid} (hq : hasFile (s.pc q) = true) : (s.kind q, q) ∈ s.files :=
  h.res.has q hq

theorem ne_of_lp (h : RFInv s) {p r : Pid} (hl : s.lp p = some r) : r ≠ p := by
  intro e; subst e
  have := h.flat _ _ hl
  rw [hl] at this; exact absurd this (by simp)

end RFInv

/-- the newest exclusive file is not `b` when `a`'s exclusive file is newer than `b`'s -/
theorem head_exFiles_ne {fs : List (Kind × Pid)} (hn : fs.Nodup) {a b : Pid} (hab : a ≠ b)
    (hs : List.Sublist [(Kind.ex, a), (Kind.ex, b)] fs) : (exFiles fs).head? ≠ some (Kind.ex, b) := by
  have hn' : (exFiles fs).Nodup := hn.filter _
  have hs' : List.Sublist [(Kind.ex, a), (Kind.ex, b)] (exFiles fs) := by
    have := hs.filter (fun f => f.1 == Kind.ex)
    simpa [exFiles] using this
  intro hh
  cases hx : exFiles fs with
  | nil => rw [hx] at hh; simp at hh
  | cons x xs =>
    rw [hx] at hh hs' hn'
    simp only [List.head?_cons, Option.some.injEq] at hh
    subst hh
    cases hs' with
    | cons _ h2 =>
      have hm : (Kind.ex, b) ∈ xs := h2.subset (by simp)
      exact (List.nodup_cons.mp hn').1 hm
    | cons_cons _ h2 =>
      exact hab rfl

/-- The general update: process `p` moves to `v`, the directory flag becomes `d'`, the file list `fs'`.  Every
membership of `p` in one of the program-counter classes the invariant talks about either existed before or comes with
a proof of the obligations it creates. -/
theorem rfInv_update {s : St} (h : RFInv s) (p : Pid) (v : PC) (d' : Bool) (fs' : List (Kind × Pid))
    (hres : ResInv { s with dir := d', files := fs', pc := upd s.pc p v })
    (hnodup : fs'.Nodup)
    (horder : ∀ a r, s.lp a = some r → (Kind.ex, a) ∈ fs' → (Kind.ex, r) ∈ fs' →
      List.Sublist [(Kind.ex, a), (Kind.ex, r)] fs')
    (hk1 : v = .existsChk → s.kind p = .sh)
    (hdir : ∀ q, inflight (upd s.pc p v q) = true → d' = true)
    (hunl : v ≠ .unlocked)
    (hexsh1 : s.kind p = .ex → inAdm v = true → inAdm (s.pc p) = true ∨
      ∀ q, ¬ related s p q → s.kind q = .sh → past (s.pc q) = true → False)
    (hexsh2 : s.kind p = .sh → past v = true → past (s.pc p) = true ∨
      ∀ q, ¬ related s q p → s.kind q = .ex → inAdm (s.pc q) = true → False)
    (hexex : s.kind p = .ex → past v = true → past (s.pc p) = true ∨
      ∀ q, q ≠ p → ¬ related s p q → s.kind q = .ex → past (s.pc q) = true → False)
    (hroot1 : s.kind p = .ex → inflight v = true → inflight (s.pc p) = true ∨
      ∀ c, s.lp c = some p → s.kind c = .ex → inAdm (s.pc c) = true → False)
    (hroot2 : s.kind p = .ex → inAdm v = true → inAdm (s.pc p) = true ∨
      ∀ r, s.lp p = some r → s.kind r = .ex → inflight (s.pc r) = true → False) :
    RFInv { s with dir := d', files := fs', pc := upd s.pc p v } := by
  refine ⟨h.flat, hres, hnodup, ?_, hdir, ?_, ?_, ?_, horder, ?_⟩
  · intro q hq
    by_cases hqp : q = p
    · subst hqp; simp at hq; exact hk1 hq
    · simp [upd, hqp] at hq; exact h.k1 q hq
  · intro q hq
    by_cases hqp : q = p
    · subst hqp; simp at hq; exact hunl hq
    · simp [upd, hqp] at hq; exact h.noUnl q hq
  · -- exsh
    intro a b hnr ha hb hia hpb
    have hab : a ≠ b := by intro e; subst e; rw [ha] at hb; exact absurd hb (by simp)
    by_cases hap : a = p
    · subst hap
      have hbp : b ≠ a := fun e => hab e.symm
      simp only [upd_same] at hia
      simp only [upd, hbp, if_false] at hpb
      rcases hexsh1 ha hia with hold | hnew
      · exact h.exsh a b hnr ha hb hold hpb
      · exact hnew b hnr hb hpb
    · simp only [upd, hap, if_false] at hia
      by_cases hbp : b = p
      · subst hbp
        simp only [upd_same] at hpb
        rcases hexsh2 hb hpb with hold | hnew
        · exact h.exsh a b hnr ha hb hia hold
        · exact hnew a hnr ha hia
      · simp only [upd, hbp, if_false] at hpb
        exact h.exsh a b hnr ha hb hia hpb
  · -- exex
    intro a b hab hnr ha hb hpa hpb
    by_cases hap : a = p
    · subst hap
      have hbp : b ≠ a := fun e => hab e.symm
      simp only [upd_same] at hpa
      simp only [upd, hbp, if_false] at hpb
      rcases hexex ha hpa with hold | hnew
      · exact h.exex a b hab hnr ha hb hold hpb
      · exact hnew b hbp hnr hb hpb
    · simp only [upd, hap, if_false] at hpa
      by_cases hbp : b = p
      · subst hbp
        simp only [upd_same] at hpb
        rcases hexex hb hpb with hold | hnew
        · exact h.exex a b hab hnr ha hb hpa hold
        · exact hnew a hap (fun hr => hnr (related_symm hr)) ha hpa
      · simp only [upd, hbp, if_false] at hpb
        exact h.exex a b hab hnr ha hb hpa hpb
  · -- rootIn
    intro r c hr hkr hl hkc hc
    have hrc : r ≠ c := h.ne_of_lp hl
    by_cases hrp : r = p
    · subst hrp
      have hcr : c ≠ r := fun e => hrc e.symm
      simp only [upd_same] at hr
      simp only [upd, hcr, if_false] at hc
      rcases hroot1 hkr hr with hold | hnew
      · exact h.rootIn r c hold hkr hl hkc hc
      · exact hnew c hl hkc hc
    · simp only [upd, hrp, if_false] at hr
      by_cases hcp : c = p
      · subst hcp
        simp only [upd_same] at hc
        rcases hroot2 hkc hc with hold | hnew
        · exact h.rootIn r c hr hkr hl hkc hold
        · exact hnew r hl hkr hr
      · simp only [upd, hcp, if_false] at hc
        exact h.rootIn r c hr hkr hl hkc hc

/-- `p` moves to `v` and enters none of the classes; directory and files untouched -/
theorem rfInv_move {s : St} (h : RFInv s) (p : Pid) (v : PC) (hres : ResInv (setPC s p v))
    (hk1 : v = .existsChk → s.kind p = .sh) (hunl : v ≠ .unlocked)
    (hin : inflight v = true → inflight (s.pc p) = true)
    (hadm : inAdm v = true → inAdm (s.pc p) = true)
    (hpast : past v = true → past (s.pc p) = true) : RFInv (setPC s p v) := by
  have := rfInv_update h p v s.dir s.files hres h.nodup h.order hk1
    (by
      intro q hq
      by_cases hqp : q = p
      · subst hqp; simp at hq; exact h.dirIn q (hin hq)
      · simp [upd, hqp] at hq; exact h.dirIn q hq)
    hunl (fun _ hv => Or.inl (hadm hv)) (fun _ hv => Or.inl (hpast hv)) (fun _ hv => Or.inl (hpast hv))
    (fun _ hv => Or.inl (hin hv)) (fun _ hv => Or.inl (hadm hv))
  exact this

theorem not_inflight_of_hasFile {v : PC} (h : hasFile v = true) : inflight v = false := by
  cases v <;> simp_all [hasFile, inflight]

theorem mem_exFiles_of_head? {fs : List (Kind × Pid)} {f : Kind × Pid} (h : (exFiles fs).head? = some f) :
    f ∈ fs ∧ f.1 = .ex := by
  have : f ∈ exFiles fs := List.mem_of_head? h
  exact mem_exFiles.mp this

theorem rfInv_step (s : St) (p : Pid) (h : RFInv s) (hnr : ¬ Racy s p) : RFInv (step s p) := by
  have hres := resInv_step s p h.res
  have dirP : ∀ v, inflight (s.pc p) = true → ∀ q, inflight (upd s.pc p v q) = true → inflight v = true ∨ q ≠ p →
      s.dir = true := by
    intro v hp q _ _; exact h.dirIn p hp
  -- directory flag for pc-only moves of a process that stays in / leaves flight
  have dirKeep : ∀ v, (inflight v = true → s.dir = true) → ∀ q, inflight (upd s.pc p v q) = true → s.dir = true := by
    intro v hv q hq
    by_cases hqp : q = p
    · subst hqp; simp at hq; exact hv hq
    · simp [upd, hqp] at hq; exact h.dirIn q hq
  cases hpc : s.pc p with
  | mkdir l =>
    rw [step_mkdir hpc] at hres ⊢
    by_cases hd : s.dir = true
    · simp only [hd, if_true] at hres ⊢
      by_cases hk : s.kind p = .ex
      · simp only [hk, if_true] at hres ⊢
        exact rfInv_move h p _ hres (by simp) (by simp) (by simp [inflight]) (by simp [inAdm]) (by simp [past])
      · simp only [hk, if_false] at hres ⊢
        have hsh : s.kind p = .sh := by cases hkk : s.kind p <;> simp_all
        exact rfInv_move h p _ hres (fun _ => hsh) (by simp) (by simp [inflight]) (by simp [inAdm]) (by simp [past])
    · have hd' : s.dir = false := by simpa using hd
      simp only [hd', Bool.false_eq_true, if_false] at hres ⊢
      have nobody : ∀ q, inAdm (s.pc q) = true → False := fun q hq => by
        have := h.dir_of_inAdm hq; rw [hd'] at this; exact absurd this (by simp)
      exact rfInv_update h p .scan true s.files hres h.nodup h.order (by simp) (fun _ _ => rfl) (by simp)
        (fun _ _ => Or.inr (fun q _ _ hq => nobody q (inAdm_of_past hq)))
        (fun _ hv => by simp [past] at hv)
        (fun _ hv => by simp [past] at hv)
        (fun _ _ => Or.inr (fun c _ _ hc => nobody c hc))
        (fun _ _ => Or.inr (fun r _ _ hr => nobody r (inAdm_of_inflight hr)))
  | scanAll l =>
    rw [step_scanAll hpc] at hres ⊢
    by_cases hp : parentHolds (s.lp p) s.files = true
    · simp only [hp, if_true] at hres ⊢
      obtain ⟨k, r, hf, hl⟩ := parentHolds_iff.mp hp
      have hnA : ¬ ∃ q, q ≠ p ∧ ¬ related s p q ∧ inflight (s.pc q) = true ∧ (s.kind p = .ex ∨ s.kind q = .ex) :=
        fun hex => hnr (Or.inl ⟨Or.inl ⟨l, hpc, hp⟩, hex⟩)
      have hrfile : hasFile (s.pc r) = true := (h.res.owned k r (by rw [hf]; simp)).1
      have hdirT : s.dir = true := h.res.inDir (by rw [hf]; simp)
      refine rfInv_update h p .scan s.dir s.files hres h.nodup h.order (by simp) (dirKeep _ (fun _ => hdirT))
        (by simp) ?_ (fun _ hv => by simp [past] at hv) (fun _ hv => by simp [past] at hv) ?_ ?_
      · intro hk _; right; intro q hnrel _ hq
        rcases past_cases hq with hq | hq
        · have hqp : q ≠ p := by intro e; subst e; rw [hpc] at hq; simp at hq
          exact hnA ⟨q, hqp, hnrel, by simp [hq, inflight], Or.inl hk⟩
        · have := h.mem_of_hasFile hq
          rw [hf] at this; simp at this
          exact hnrel (Or.inl (by rw [hl, this.2]))
      · intro _ _; right; intro c hlc _ _
        have := h.flat _ _ hlc; rw [hl] at this; simp at this
      · intro _ _; right; intro r' hl' _ hr'
        rw [hl] at hl'; simp at hl'; subst hl'
        rw [not_inflight_of_hasFile hrfile] at hr'; simp at hr'
    · simp only [hp] at hres ⊢
      exact rfInv_move h p _ hres (by simp) (by simp) (by simp [inflight]) (by simp [inAdm]) (by simp [past])
  | scanMsg l =>
    cases l with
    | zero =>
      rw [step_scanMsg_zero hpc] at hres ⊢
      exact rfInv_move h p _ hres (by simp) (by simp) (by simp [inflight]) (by simp [inAdm]) (by simp [past])
    | succ n =>
      rw [step_scanMsg_succ hpc] at hres ⊢
      exact rfInv_move h p _ hres (by simp) (by simp) (by simp [inflight]) (by simp [inAdm]) (by simp [past])
  | existsChk =>
    rw [step_existsChk hpc] at hres ⊢
    have hsh := h.k1 p hpc
    by_cases hd : s.dir = true
    · simp only [hd, if_true] at hres ⊢
      have hne : s.kind p = .ex → False := by intro e; rw [hsh] at e; simp at e
      exact rfInv_update h p .scan s.dir s.files hres h.nodup h.order (by simp) (dirKeep _ (fun _ => hd)) (by simp)
        (fun hk _ => (hne hk).elim) (fun _ hv => by simp [past] at hv) (fun _ hv => by simp [past] at hv)
        (fun hk _ => (hne hk).elim) (fun hk _ => (hne hk).elim)
    · have hd' : s.dir = false := by simpa using hd
      exact absurd (Or.inr (Or.inr ⟨hpc, hd'⟩)) hnr
  | scan =>
    have hinP : inflight (s.pc p) = true := by simp [hpc, inflight]
    rw [step_scan hpc] at hres ⊢
    by_cases h0 : (exFiles s.files).length = 0
    · simp only [h0, if_true] at hres ⊢
      have hnA : ¬ ∃ q, q ≠ p ∧ ¬ related s p q ∧ inflight (s.pc q) = true ∧ (s.kind p = .ex ∨ s.kind q = .ex) :=
        fun hex => hnr (Or.inl ⟨Or.inr (Or.inl ⟨hpc, h0⟩), hex⟩)
      have noEx : ∀ q, s.kind q = .ex → hasFile (s.pc q) = true → False := by
        intro q hk hq
        have hm := h.mem_of_hasFile hq
        rw [hk] at hm
        have : (Kind.ex, q) ∈ exFiles s.files := mem_exFiles.mpr ⟨hm, rfl⟩
        have hnil : exFiles s.files = [] := List.length_eq_zero_iff.mp h0
        rw [hnil] at this; simp at this
      refine rfInv_update h p .create s.dir s.files hres h.nodup h.order (by simp)
        (dirKeep _ (fun _ => h.dirIn p hinP)) (by simp) (fun _ _ => Or.inl (by simp [hpc, inAdm])) ?_ ?_
        (fun _ _ => Or.inl hinP) (fun _ _ => Or.inl (by simp [hpc, inAdm]))
      · intro hk _; right; intro q hnrel hkq hq
        have hqp : q ≠ p := by intro e; subst e; rw [hk] at hkq; simp at hkq
        rcases inAdm_cases hq with hq | hq
        · exact hnA ⟨q, hqp, fun hr => hnrel (related_symm hr), hq, Or.inr hkq⟩
        · exact noEx q hkq hq
      · intro hk _; right; intro q hqp hnrel hkq hq
        rcases past_cases hq with hq | hq
        · exact hnA ⟨q, hqp, hnrel, by simp [hq, inflight], Or.inl hk⟩
        · exact noEx q hkq hq
    · simp only [h0, if_false] at hres ⊢
      by_cases h1 : (exFiles s.files).length = 1
      · simp only [h1, if_true] at hres ⊢
        exact rfInv_move h p _ hres (by simp) (by simp) (fun _ => hinP) (fun _ => by simp [hpc, inAdm]) (by simp [past])
      · simp only [h1, if_false] at hres ⊢
        exact rfInv_move h p _ hres (by simp) (by simp) (by simp [inflight]) (by simp [inAdm]) (by simp [past])
  | scan2 =>
    have hinP : inflight (s.pc p) = true := by simp [hpc, inflight]
    rw [step_scan2 hpc] at hres ⊢
    cases hh : (exFiles s.files).head? with
    | none =>
      simp only [hh] at hres ⊢
      exact rfInv_move h p _ hres (by simp) (by simp) (by simp [inflight]) (by simp [inAdm]) (by simp [past])
    | some f =>
      simp only [hh] at hres ⊢
      by_cases hl : s.lp p = some f.2
      · simp only [hl, if_true] at hres ⊢
        obtain ⟨hfm, hfe⟩ := mem_exFiles_of_head? hh
        have hfeq : f = (Kind.ex, f.2) := by cases f; simp_all
        have hrm : (Kind.ex, f.2) ∈ s.files := by rw [← hfeq]; exact hfm
        have hnA : ¬ ∃ q, q ≠ p ∧ ¬ related s p q ∧ inflight (s.pc q) = true ∧ (s.kind p = .ex ∨ s.kind q = .ex) :=
          fun hex => hnr (Or.inl ⟨Or.inr (Or.inr ⟨hpc, f, hh, hl⟩), hex⟩)
        -- an unrelated exclusive process with a file cannot exist
        have K : ∀ q, ¬ related s p q → s.kind q = .ex → hasFile (s.pc q) = true → False := by
          intro q hnrel hkq hq
          have hqm : (Kind.ex, q) ∈ s.files := by have := h.mem_of_hasFile hq; rwa [hkq] at this
          have hrq : f.2 ≠ q := by intro e; exact hnrel (Or.inl (by rw [hl, e]))
          obtain ⟨hrfile, hkr⟩ := h.res.owned _ _ hrm
          by_cases hrel : related s f.2 q
          · rcases hrel with hrel | hrel
            · have := h.flat _ _ hl; rw [hrel] at this; simp at this
            · have hsub := h.order q f.2 hrel hqm hrm
              have := head_exFiles_ne h.nodup (fun e => hrq e.symm) hsub
              rw [hh, hfeq] at this; exact this rfl
          · exact h.exex f.2 q hrq hrel hkr hkq (past_of_hasFile hrfile) (past_of_hasFile hq)
        refine rfInv_update h p .create s.dir s.files hres h.nodup h.order (by simp)
          (dirKeep _ (fun _ => h.dirIn p hinP)) (by simp) (fun _ _ => Or.inl (by simp [hpc, inAdm])) ?_ ?_
          (fun _ _ => Or.inl hinP) (fun _ _ => Or.inl (by simp [hpc, inAdm]))
        · intro hk _; right; intro q hnrel hkq hq
          have hqp : q ≠ p := by intro e; subst e; rw [hk] at hkq; simp at hkq
          rcases inAdm_cases hq with hq | hq
          · exact hnA ⟨q, hqp, fun hr => hnrel (related_symm hr), hq, Or.inr hkq⟩
          · exact K q (fun hr => hnrel (related_symm hr)) hkq hq
        · intro hk _; right; intro q hqp hnrel hkq hq
          rcases past_cases hq with hq | hq
          · exact hnA ⟨q, hqp, hnrel, by simp [hq, inflight], Or.inl hk⟩
          · exact K q hnrel hkq hq
      · simp only [hl, if_false] at hres ⊢
        exact rfInv_move h p _ hres (by simp) (by simp) (by simp [inflight]) (by simp [inAdm]) (by simp [past])
  | create =>
    have hinP : inflight (s.pc p) = true := by simp [hpc, inflight]
    rw [step_create hpc] at hres ⊢
    by_cases hd : s.dir = true
    · simp only [hd, if_true] at hres ⊢
      by_cases hc : s.files.contains (s.kind p, p) = true
      · simp only [hc, if_true] at hres ⊢
        exact rfInv_move h p _ hres (by simp) (by simp) (by simp [inflight]) (fun _ => by simp [hpc, inAdm])
          (fun _ => by simp [hpc, past])
      · have hc' : s.files.contains (s.kind p, p) = false := by simpa using hc
        simp only [hc', Bool.false_eq_true, if_false] at hres ⊢
        have hnm : (s.kind p, p) ∉ s.files := fun hm => hc (List.contains_iff_mem.mpr hm)
        refine rfInv_update h p .hold true ((s.kind p, p) :: s.files) hres
          (List.nodup_cons.mpr ⟨hnm, h.nodup⟩) ?_ (by simp)
          (fun _ _ => rfl) (by simp)
          (fun _ _ => Or.inl (by simp [hpc, inAdm])) (fun _ _ => Or.inl (by simp [hpc, past]))
          (fun _ _ => Or.inl (by simp [hpc, past])) (fun _ hv => by simp [inflight] at hv)
          (fun _ _ => Or.inl (by simp [hpc, inAdm]))
        intro a r hl ha hr
        simp only [List.mem_cons] at ha hr
        rcases ha with ha | ha
        · simp only [Prod.mk.injEq] at ha
          obtain ⟨hkp, hap⟩ := ha
          rcases hr with hr | hr
          · simp only [Prod.mk.injEq] at hr
            have : r = a := by rw [hr.2, hap]
            exact absurd this (h.ne_of_lp hl)
          · rw [← hkp, ← hap]
            exact List.Sublist.cons_cons _ (List.singleton_sublist.mpr hr)
        · rcases hr with hr | hr
          · simp only [Prod.mk.injEq] at hr
            obtain ⟨hkp, hrp⟩ := hr
            subst hrp
            obtain ⟨hafile, hka⟩ := h.res.owned _ _ ha
            exact (h.rootIn r a hinP hkp.symm hl hka (inAdm_of_past (past_of_hasFile hafile))).elim
          · exact List.Sublist.cons _ (h.order a r hl ha hr)
    · simp only [hd] at hres ⊢
      exact rfInv_move h p _ hres (by simp) (by simp) (by simp [inflight]) (by simp [inAdm]) (by simp [past])
  | hold =>
    rw [step_hold hpc] at hres ⊢
    exact rfInv_move h p _ hres (by simp) (by simp) (by simp [inflight]) (fun _ => by simp [hpc, inAdm])
      (fun _ => by simp [hpc, past])
  | unlocked => exact absurd hpc (h.noUnl p)
  | isdir =>
    rw [step_isdir hpc] at hres ⊢
    by_cases hd : s.dir = true
    · simp only [hd, if_true] at hres ⊢
      exact rfInv_move h p _ hres (by simp) (by simp) (by simp [inflight]) (fun _ => by simp [hpc, inAdm])
        (fun _ => by simp [hpc, past])
    · simp only [hd] at hres ⊢
      exact rfInv_move h p _ hres (by simp) (by simp) (by simp [inflight]) (by simp [inAdm]) (by simp [past])
  | rexists =>
    rw [step_rexists hpc] at hres ⊢
    by_cases hc : s.files.contains (s.kind p, p) = true
    · simp only [hc, if_true] at hres ⊢
      exact rfInv_move h p _ hres (by simp) (by simp) (by simp [inflight]) (fun _ => by simp [hpc, inAdm])
        (fun _ => by simp [hpc, past])
    · simp only [hc] at hres ⊢
      exact rfInv_move h p _ hres (by simp) (by simp) (by simp [inflight]) (by simp [inAdm]) (by simp [past])
  | remove =>
    rw [step_remove hpc] at hres ⊢
    by_cases hc : s.files.contains (s.kind p, p) = true
    · simp only [hc, if_true] at hres ⊢
      refine rfInv_update h p .count s.dir (s.files.filter (· != (s.kind p, p))) hres (h.nodup.filter _) ?_ (by simp)
        (dirKeep _ (fun hv => by simp [inflight] at hv)) (by simp)
        (fun _ hv => by simp [inAdm] at hv) (fun _ hv => by simp [past] at hv) (fun _ hv => by simp [past] at hv)
        (fun _ hv => by simp [inflight] at hv) (fun _ hv => by simp [inAdm] at hv)
      intro a r hl ha hr
      simp only [List.mem_filter] at ha hr
      have := (h.order a r hl ha.1 hr.1).filter (fun x => x != (s.kind p, p))
      simpa [List.filter, ha.2, hr.2] using this
    · simp only [hc] at hres ⊢
      exact rfInv_move h p _ hres (by simp) (by simp) (by simp [inflight]) (by simp [inAdm]) (by simp [past])
  | count =>
    rw [step_count hpc] at hres ⊢
    by_cases hd : s.dir = true
    · simp only [hd, if_true] at hres ⊢
      by_cases he : s.files.isEmpty = true
      · simp only [he, if_true] at hres ⊢
        exact rfInv_move h p _ hres (by simp) (by simp) (by simp [inflight]) (by simp [inAdm]) (by simp [past])
      · simp only [he] at hres ⊢
        exact rfInv_move h p _ hres (by simp) (by simp) (by simp [inflight]) (by simp [inAdm]) (by simp [past])
    · simp only [hd] at hres ⊢
      exact rfInv_move h p _ hres (by simp) (by simp) (by simp [inflight]) (by simp [inAdm]) (by simp [past])
  | rmdir =>
    rw [step_rmdir hpc] at hres ⊢
    by_cases hd : s.dir = true
    · simp only [hd, if_true] at hres ⊢
      by_cases he : s.files.isEmpty = true
      · simp only [he, if_true] at hres ⊢
        have hfs : s.files = [] := by simpa using he
        refine rfInv_update h p .done false s.files hres h.nodup h.order (by simp) ?_ (by simp)
          (fun _ hv => by simp [inAdm] at hv) (fun _ hv => by simp [past] at hv) (fun _ hv => by simp [past] at hv)
          (fun _ hv => by simp [inflight] at hv) (fun _ hv => by simp [inAdm] at hv)
        intro q hq
        by_cases hqp : q = p
        · subst hqp; simp [inflight] at hq
        · simp [upd, hqp] at hq
          exact absurd (Or.inr (Or.inl ⟨hpc, hd, hfs, q, hqp, hq⟩)) hnr
      · simp only [he] at hres ⊢
        exact rfInv_move h p _ hres (by simp) (by simp) (by simp [inflight]) (by simp [inAdm]) (by simp [past])
    · simp only [hd] at hres ⊢
      exact rfInv_move h p _ hres (by simp) (by simp) (by simp [inflight]) (by simp [inAdm]) (by simp [past])
  | done => rw [step_done hpc]; exact h
  | failedAcq e => rw [step_failedAcq hpc]; exact h
  | failedRel e => rw [step_failedRel hpc]; exact h

theorem rfInv_run (s : St) (sched : List Pid) (h : RFInv s) (hrf : RaceFree s sched) : RFInv (run s sched) := by
  induction sched generalizing s with
  | nil => exact h
  | cons p r ih =>
    obtain ⟨hnr, hrest⟩ := hrf
    exact ih (step s p) (rfInv_step s p h hnr) hrest

theorem RFInv.mutex {s : St} (h : RFInv s) : Mutex s := by
  intro i j hij hnrel hi hk
  cases hb : inBody (s.pc j) with
  | false => rfl
  | true =>
    have hj : s.pc j = .hold := by
      have := h.noUnl j
      cases hpc : s.pc j <;> simp_all [inBody]
    cases hkj : s.kind j with
    | ex => exact (h.exex i j hij hnrel hk hkj (by simp [hi, past]) (by simp [hj, past])).elim
    | sh => exact (h.exsh i j hnrel hk hkj (by simp [hi, inAdm]) (by simp [hj, past])).elim

/-! ### deciding race-freedom of concrete schedules (for the non-vacuity examples) -/

def admitsB (s : St) (p : Pid) : Bool :=
  (match s.pc p with | .scanAll _ => parentHolds (s.lp p) s.files | _ => false)
  || (s.pc p == .scan && (exFiles s.files).length == 0)
  || (s.pc p == .scan2 && (match (exFiles s.files).head? with | some f => s.lp p == some f.2 | none => false))

/-- `Racy` with the other process sought among the pids below `n` -/
def racyUpTo (n : Nat) (s : St) (p : Pid) : Bool :=
  (admitsB s p && (List.range n).any fun q =>
      q != p && !decide (related s p q) && inflight (s.pc q) && (s.kind p == .ex || s.kind q == .ex))
  || (s.pc p == .rmdir && s.dir && s.files.isEmpty && (List.range n).any fun q => q != p && inflight (s.pc q))
  || (s.pc p == .existsChk && !s.dir)

def raceFreeUpTo (n : Nat) : St → List Pid → Bool
  | _, [] => true
  | s, p :: r => !racyUpTo n s p && raceFreeUpTo n (step s p) r

theorem admitsB_of_admits {s : St} {p : Pid} (h : admits s p) : admitsB s p = true := by
  rcases h with ⟨l, hpc, hp⟩ | ⟨hpc, h0⟩ | ⟨hpc, f, hh, hl⟩
  · simp [admitsB, hpc, hp]
  · simp [admitsB, hpc, h0]
  · simp [admitsB, hpc, hh, hl]

theorem racyUpTo_of_racy {n : Nat} {s : St} {p : Pid} (hidle : ∀ q, n ≤ q → inflight (s.pc q) = false)
    (h : Racy s p) : racyUpTo n s p = true := by
  have hlt : ∀ q, inflight (s.pc q) = true → q < n := by
    intro q hq
    cases Nat.lt_or_ge q n with
    | inl h => exact h
    | inr h => rw [hidle q h] at hq; simp at hq
  rcases h with ⟨hadm, q, hqp, hnrel, hin, hk⟩ | ⟨hpc, hd, hf, q, hqp, hin⟩ | ⟨hpc, hd⟩
  · have hany : ((List.range n).any fun q =>
        q != p && !decide (related s p q) && inflight (s.pc q) && (s.kind p == .ex || s.kind q == .ex)) = true := by
      rw [List.any_eq_true]
      refine ⟨q, List.mem_range.mpr (hlt q hin), ?_⟩
      rcases hk with hk | hk <;> simp [hqp, hnrel, hin, hk]
    simp [racyUpTo, admitsB_of_admits hadm, hany]
  · have hany : ((List.range n).any fun q => q != p && inflight (s.pc q)) = true := by
      rw [List.any_eq_true]
      exact ⟨q, List.mem_range.mpr (hlt q hin), by simp [hqp, hin]⟩
    simp [racyUpTo, hpc, hd, hf, hany]
  · simp [racyUpTo, hpc, hd]

theorem step_idle_other {s : St} {p q : Pid} (h : q ≠ p) : (step s p).pc q = s.pc q := step_pc_other s p q h

/-- Race-freedom of a concrete schedule over the pids below `n` is decidable: the processes from `n` on are never
scheduled and rest before their `mkdir`. -/
theorem raceFree_of_upTo (n : Nat) (s : St) (sched : List Pid) (hs : ∀ p ∈ sched, p < n)
    (hidle : ∀ q, n ≤ q → inflight (s.pc q) = false) (h : raceFreeUpTo n s sched = true) : RaceFree s sched := by
  induction sched generalizing s with
  | nil => trivial
  | cons p r ih =>
    simp only [raceFreeUpTo, Bool.and_eq_true, Bool.not_eq_true'] at h
    refine ⟨fun hr => ?_, ih (step s p) (fun x hx => hs x (List.mem_cons_of_mem _ hx)) ?_ h.2⟩
    · have := racyUpTo_of_racy hidle hr
      rw [h.1] at this; simp at this
    · intro q hq
      have hp : p < n := hs p (by simp)
      have : q ≠ p := Nat.ne_of_gt (Nat.lt_of_lt_of_le hp hq)
      rw [step_pc_other s p q this]; exact hidle q hq

/-- a violation of `Mutex` at the end of a schedule has a race in its history -/
theorem raceFree_or_racy (s : St) (sched : List Pid) :
    RaceFree s sched ∨ ∃ pre p post, sched = pre ++ p :: post ∧ Racy (run s pre) p := by
  induction sched generalizing s with
  | nil => exact Or.inl trivial
  | cons p r ih =>
    by_cases hr : Racy s p
    · exact Or.inr ⟨[], p, r, rfl, hr⟩
    · rcases ih (step s p) with h | ⟨pre, q, post, he, hq⟩
      · exact Or.inl ⟨hr, h⟩
      · exact Or.inr ⟨p :: pre, q, post, by simp [he], by simpa using hq⟩

end EupsModel.Lock
