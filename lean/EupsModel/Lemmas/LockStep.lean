import EupsModel.Model.Lock
/-! C09 — `Lock.step` program counter by program counter (rewriting lemmas used by every invariant proof). -/
namespace EupsModel.Lock
variable {s : St} {i : Pid}

@[simp] theorem setPC_dir (s : St) (i : Pid) (v : PC) : (setPC s i v).dir = s.dir := rfl
@[simp] theorem setPC_files (s : St) (i : Pid) (v : PC) : (setPC s i v).files = s.files := rfl
@[simp] theorem setPC_kind (s : St) (i : Pid) (v : PC) : (setPC s i v).kind = s.kind := rfl
@[simp] theorem setPC_lp (s : St) (i : Pid) (v : PC) : (setPC s i v).lp = s.lp := rfl
@[simp] theorem setPC_pc (s : St) (i : Pid) (v : PC) : (setPC s i v).pc = upd s.pc i v := rfl

theorem step_mkdir {left : Nat} (h : s.pc i = .mkdir left) :
    step s i = if s.dir then (if s.kind i = .ex then setPC s i (.scanAll left) else setPC s i .existsChk)
      else { s with dir := true, pc := upd s.pc i .scan } := by
  unfold step; simp only [h]
  cases s.kind i <;> simp

theorem step_scanAll {left : Nat} (h : s.pc i = .scanAll left) :
    step s i = if parentHolds (s.lp i) s.files then setPC s i .scan else setPC s i (.scanMsg left) := by
  unfold step; simp only [h]

theorem step_scanMsg_zero (h : s.pc i = .scanMsg 0) : step s i = setPC s i (.failedAcq .runtime) := by
  unfold step; simp only [h]

theorem step_scanMsg_succ {n : Nat} (h : s.pc i = .scanMsg (n + 1)) : step s i = setPC s i (.mkdir n) := by
  unfold step; simp only [h]

theorem step_existsChk (h : s.pc i = .existsChk) :
    step s i = if s.dir then setPC s i .scan else setPC s i .unlocked := by
  unfold step; simp only [h]

theorem step_scan (h : s.pc i = .scan) :
    step s i = if (exFiles s.files).length = 0 then setPC s i .create
      else if (exFiles s.files).length = 1 then setPC s i .scan2
      else setPC s i (.failedAcq .runtime) := by
  unfold step; simp only [h]

theorem step_scan2 (h : s.pc i = .scan2) :
    step s i = match (exFiles s.files).head? with
      | none => setPC s i (.failedAcq .index)
      | some f => if s.lp i = some f.2 then setPC s i .create else setPC s i (.failedAcq .runtime) := by
  unfold step; simp only [h]; rfl

theorem step_create (h : s.pc i = .create) :
    step s i = if s.dir then
        (if s.files.contains (s.kind i, i) then setPC s i .hold
         else { s with files := (s.kind i, i) :: s.files, pc := upd s.pc i .hold })
      else setPC s i (.failedAcq .enoent) := by
  unfold step; simp only [h]

theorem step_hold (h : s.pc i = .hold) : step s i = setPC s i .isdir := by
  unfold step; simp only [h]

theorem step_unlocked (h : s.pc i = .unlocked) : step s i = setPC s i .done := by
  unfold step; simp only [h]

theorem step_isdir (h : s.pc i = .isdir) :
    step s i = if s.dir then setPC s i .rexists else setPC s i .done := by
  unfold step; simp only [h]

theorem step_rexists (h : s.pc i = .rexists) :
    step s i = if s.files.contains (s.kind i, i) then setPC s i .remove else setPC s i .count := by
  unfold step; simp only [h]

theorem step_remove (h : s.pc i = .remove) :
    step s i = if s.files.contains (s.kind i, i) then
        { s with files := s.files.filter (· != (s.kind i, i)), pc := upd s.pc i .count }
      else setPC s i (.failedRel .enoent) := by
  unfold step; simp only [h]

theorem step_count (h : s.pc i = .count) :
    step s i = if s.dir then (if s.files.isEmpty then setPC s i .rmdir else setPC s i .done)
      else setPC s i (.failedRel .stopIter) := by
  unfold step; simp only [h]

theorem step_rmdir (h : s.pc i = .rmdir) :
    step s i = if s.dir then
        (if s.files.isEmpty then { s with dir := false, pc := upd s.pc i .done }
         else setPC s i (.failedRel .enotempty))
      else setPC s i (.failedRel .enoent) := by
  unfold step; simp only [h]

theorem step_done (h : s.pc i = .done) : step s i = s := by
  unfold step; simp only [h]

theorem step_failedAcq {e : Err} (h : s.pc i = .failedAcq e) : step s i = s := by
  unfold step; simp only [h]

theorem step_failedRel {e : Err} (h : s.pc i = .failedRel e) : step s i = s := by
  unfold step; simp only [h]

/-- a step never touches the static description of the processes -/
@[simp] theorem step_kind (s : St) (i : Pid) : (step s i).kind = s.kind := by
  unfold step; repeat' split
  all_goals rfl

@[simp] theorem step_lp (s : St) (i : Pid) : (step s i).lp = s.lp := by
  unfold step; repeat' split
  all_goals rfl

@[simp] theorem run_kind (s : St) (sched : List Pid) : (run s sched).kind = s.kind := by
  induction sched generalizing s with
  | nil => rfl
  | cons i r ih => simp [ih]

@[simp] theorem run_lp (s : St) (sched : List Pid) : (run s sched).lp = s.lp := by
  induction sched generalizing s with
  | nil => rfl
  | cons i r ih => simp [ih]

/-- a step of `i` changes nobody else's program counter -/
theorem step_pc_other (s : St) (i j : Pid) (h : j ≠ i) : (step s i).pc j = s.pc j := by
  unfold step; repeat' split
  all_goals simp [setPC, upd, h]

theorem run_replicate_pc_other (s : St) (i j : Pid) (n : Nat) (h : j ≠ i) :
    (run s (List.replicate n i)).pc j = s.pc j := by
  induction n generalizing s with
  | zero => rfl
  | succ n ih => simp [List.replicate_succ, ih, step_pc_other s i j h]

theorem parentHolds_none (fs : List (Kind × Pid)) : parentHolds none fs = false := by
  simp [parentHolds]

theorem parentHolds_iff {lp : Option Pid} {fs : List (Kind × Pid)} :
    parentHolds lp fs = true ↔ ∃ k q, fs = [(k, q)] ∧ lp = some q := by
  unfold parentHolds
  split
  · rename_i p f
    constructor
    · intro h; exact ⟨f.1, f.2, rfl, by simp at h; simp [h]⟩
    · rintro ⟨k, q, h1, h2⟩; simp at h1 h2; simp [h1, h2]
  · rename_i h
    constructor
    · intro hf; exact absurd hf (by simp)
    · rintro ⟨k, q, h1, h2⟩; exact (h q (k, q) h2 h1).elim

end EupsModel.Lock
