import EupsModel.Lemmas.VersionMatch
/-! C10, through the stacks: `_findLatestProduct` with a minimum version, `_findProductsByExpr`
(`matchesAcross`), and `vers.sort(...)`, `vers[-1]` as "last element of any stable sort". -/
set_option linter.unusedVariables false
set_option linter.unusedSimpArgs false
namespace EupsModel.VersionCmp
open EupsModel EupsModel.Order

/-! ## `lastMax` is the last maximal element -/

/-- the candidate is kept (everything that follows is strictly smaller) or replaced by an element
that everything after it is strictly smaller than -/
theorem lastMax_decomp (xs : List (Str × Lexed)) (b m : Str × Lexed) (h : lastMax (some b) xs = some m) :
    (m = b ∧ ∀ y ∈ xs, cmpSort y.2 b.2 < 0) ∨
    (∃ pre post, xs = pre ++ m :: post ∧ ∀ y ∈ post, cmpSort y.2 m.2 < 0) := by
  induction xs generalizing b with
  | nil => simp only [lastMax, Option.some.injEq] at h; exact Or.inl ⟨h.symm, by simp⟩
  | cons x xs ih =>
    simp only [lastMax] at h
    by_cases hge : cmpSort x.2 b.2 ≥ 0
    · simp only [hge, if_true] at h
      rcases ih x h with ⟨rfl, hall⟩ | ⟨pre, post, rfl, hall⟩
      · exact Or.inr ⟨[], xs, rfl, hall⟩
      · exact Or.inr ⟨x :: pre, post, rfl, hall⟩
    · simp only [hge, if_false] at h
      rcases ih b h with ⟨rfl, hall⟩ | ⟨pre, post, rfl, hall⟩
      · refine Or.inl ⟨rfl, ?_⟩
        intro y hy
        rcases List.mem_cons.mp hy with rfl | hy
        · omega
        · exact hall y hy
      · exact Or.inr ⟨x :: pre, post, rfl, hall⟩

theorem lastMax_none_decomp (xs : List (Str × Lexed)) (m : Str × Lexed) (h : lastMax none xs = some m) :
    ∃ pre post, xs = pre ++ m :: post ∧ ∀ y ∈ post, cmpSort y.2 m.2 < 0 := by
  cases xs with
  | nil => simp [lastMax] at h
  | cons x xs =>
    simp only [lastMax] at h
    rcases lastMax_decomp xs x m h with ⟨rfl, hall⟩ | ⟨pre, post, rfl, hall⟩
    · exact ⟨[], xs, rfl, hall⟩
    · exact ⟨x :: pre, post, rfl, hall⟩

theorem getLast?_filter_of_last {α} (p : α → Bool) (l : List α) (e : α) (hl : l.getLast? = some e) (hp : p e = true) :
    (l.filter p).getLast? = some e := by
  obtain ⟨init, rfl⟩ : ∃ init, l = init ++ [e] := by
    rcases List.eq_nil_or_concat l with rfl | ⟨init, x, rfl⟩
    · simp at hl
    · simp only [List.concat_eq_append, List.getLast?_append, List.getLast?_singleton, Option.some_or,
        Option.some.injEq] at hl
      subst hl; exact ⟨init, by simp⟩
  simp [List.filter_append, hp]

/-- **`vers.sort(); vers[-1]` is `lastMax`**: whatever list `s` a sort returns — a permutation of the
input, ordered by the comparator, elements that compare equal in their original relative order
(stability, stated per equivalence class) — its last element is the one `lastMax` finds. -/
theorem getLast_stableSort (l s : List (Str × Lexed)) (m : Str × Lexed) (hm : lastMax none l = some m)
    (hconv : ∀ p ∈ l, convLexed p.2 = true)
    (hperm : s.Perm l) (hsorted : s.Pairwise (fun a b => cmpSort a.2 b.2 ≤ 0))
    (hstable : s.filter (fun y => cmpSort y.2 m.2 == 0) = l.filter (fun y => cmpSort y.2 m.2 == 0)) :
    s.getLast? = some m := by
  have hne : l ≠ [] := by intro e; subst e; simp [lastMax] at hm
  obtain ⟨m', hm', hmem, hmax⟩ := lastMax_none_spec l hne hconv
  rw [hm] at hm'; cases hm'
  obtain ⟨pre, post, hl, hpost⟩ := lastMax_none_decomp l m hm
  have hsne : s ≠ [] := by
    intro e; subst e
    exact hne (List.Perm.eq_nil (hperm.symm))
  obtain ⟨init, e, rfl⟩ : ∃ init e, s = init ++ [e] := by
    rcases List.eq_nil_or_concat s with rfl | ⟨init, x, rfl⟩
    · exact absurd rfl hsne
    · exact ⟨init, x, by simp⟩
  have he_mem : e ∈ l := hperm.subset (by simp)
  have h1 : cmpSort e.2 m.2 ≤ 0 := hmax e he_mem
  have hm_s : m ∈ init ++ [e] := hperm.symm.subset hmem
  have h2 : cmpSort m.2 e.2 ≤ 0 := by
    rcases List.mem_append.mp hm_s with hi | hi
    · exact (List.pairwise_append.mp hsorted).2.2 m hi e (by simp)
    · simp only [List.mem_singleton] at hi; subst hi; rw [cmpSort_self]; exact Int.le_refl 0
  have h0 : cmpSort e.2 m.2 = 0 := by rw [cmpSort_antisym] at h1; rw [cmpSort_antisym]; omega
  have hls : ((init ++ [e]).filter (fun y => cmpSort y.2 m.2 == 0)).getLast? = some e :=
    getLast?_filter_of_last _ _ e (by simp) (by simp [h0])
  have hll : (l.filter (fun y => cmpSort y.2 m.2 == 0)).getLast? = some m := by
    rw [hl, List.filter_append, List.filter_cons]
    have hpostf : post.filter (fun y => cmpSort y.2 m.2 == 0) = [] := by
      rw [List.filter_eq_nil_iff]
      intro y hy
      have := hpost y hy
      simp only [beq_iff_eq]; omega
    simp [cmpSort_self, hpostf]
  rw [hstable, hll] at hls
  simp only [List.getLast?_append, List.getLast?_singleton, Option.some_or]
  exact hls.symm ▸ rfl

/-! ## `_findLatestProduct` with `minver` -/

/-- `y` is below the minimum (never, when there is none) -/
def BelowMin (lm : Option Lexed) (ly : Lexed) : Prop :=
  match lm with
  | none => False
  | some l => cmpSort ly l < 0

instance (lm : Option Lexed) (ly : Lexed) : Decidable (BelowMin lm ly) := by
  cases lm with
  | none => exact isFalse (by simp [BelowMin])
  | some l => exact inferInstanceAs (Decidable (cmpSort ly l < 0))

/-- what the loop maintains: no candidate — every version seen is below the minimum; a candidate — it
reaches the minimum, was seen, and no version seen exceeds it -/
def AcrossInvMin (lm : Option Lexed) (out : Option (Nat × Str × Lexed)) (seen : List Str) : Prop :=
  match out with
  | none => ∀ y ∈ seen, ∃ ly, lex y = .ok ly ∧ convLexed ly = true ∧ BelowMin lm ly
  | some (_, w, lw) => lex w = .ok lw ∧ convLexed lw = true ∧ w ∈ seen ∧ ¬ BelowMin lm lw ∧
      ∀ y ∈ seen, ∃ ly, lex y = .ok ly ∧ convLexed ly = true ∧ cmpSort ly lw ≤ 0

theorem belowMin_eq (minver : Option Str) (lm : Option Lexed)
    (hmv : match minver, lm with
      | none, none => True
      | some mv, some l => lex mv = .ok l
      | _, _ => False) (l : Lexed) :
    belowMin minver l = .ok (decide (BelowMin lm l)) := by
  cases minver with
  | none =>
    cases lm with
    | none => simp only [belowMin]; congr 1
    | some _ => exact absurd hmv (by simp)
  | some mv =>
    cases lm with
    | none => exact absurd hmv (by simp)
    | some x =>
      simp only at hmv
      simp only [belowMin, hmv]; congr 1

theorem latestAcrossGo_spec_min (minver : Option Str) (lm : Option Lexed)
    (hmv : match minver, lm with
      | none, none => True
      | some mv, some l => lex mv = .ok l
      | _, _ => False)
    (hcm : ∀ l, lm = some l → convLexed l = true) (rest : List (List Str)) :
    ∀ (i : Nat) (out : Option (Nat × Str × Lexed)) (seen : List Str),
      (∀ st ∈ rest, ∀ v ∈ st, convName v = true) → AcrossInvMin lm out seen →
      ∃ out', latestAcrossGo minver i out rest = .ok out' ∧ AcrossInvMin lm out' (seen ++ rest.flatten) := by
  induction rest with
  | nil => intro i out seen _ h; exact ⟨out, rfl, by simpa using h⟩
  | cons st rest ih =>
    intro i out seen hconv hinv
    obtain ⟨ps, hps, hc⟩ := lexPairs_of_conv (hconv st (by simp))
    obtain ⟨hmap, hlex⟩ := lexPairs_spec hps
    have hrest : ∀ st' ∈ rest, ∀ v ∈ st', convName v = true := fun st' h' => hconv st' (by simp [h'])
    have hflat : seen ++ (st :: rest).flatten = (seen ++ st) ++ rest.flatten := by simp
    rw [hflat]
    simp only [latestAcrossGo, hps]
    by_cases hne : ps = []
    · subst hne
      simp only [List.map_nil] at hmap
      subst hmap
      simp only [lastMax, List.append_nil]
      exact ih (i + 1) out seen hrest hinv
    · obtain ⟨m, hm, hmem, hmax⟩ := lastMax_none_spec ps hne hc
      obtain ⟨v, l⟩ := m
      have hvst : v ∈ st := by rw [← hmap]; exact List.mem_map_of_mem (f := Prod.fst) hmem
      have hst : ∀ y ∈ st, ∃ ly, lex y = .ok ly ∧ convLexed ly = true ∧ cmpSort ly l ≤ 0 := by
        intro y hy
        rw [← hmap] at hy
        obtain ⟨p, hp, rfl⟩ := List.mem_map.mp hy
        exact ⟨p.2, hlex p hp, hc p hp, hmax p hp⟩
      have hl : lex v = .ok l := hlex (v, l) hmem
      have hcl : convLexed l = true := hc (v, l) hmem
      simp only [hm, belowMin_eq minver lm hmv l]
      by_cases hb : BelowMin lm l
      · -- the whole stack is below the minimum: passed over
        simp only [hb, decide_true]
        obtain ⟨lmv, rfl⟩ : ∃ x, lm = some x := by
          cases lm with
          | none => exact absurd hb (by simp [BelowMin])
          | some x => exact ⟨x, rfl⟩
        have hcmv := hcm lmv rfl
        simp only [BelowMin] at hb
        have hstb : ∀ y ∈ st, ∃ ly, lex y = .ok ly ∧ convLexed ly = true ∧ cmpSort ly lmv < 0 := by
          intro y hy
          obtain ⟨ly, h1, h2, h3⟩ := hst y hy
          exact ⟨ly, h1, h2, good_cmpSort.lt_of_le_lt h2 hcl hcmv h3 hb⟩
        apply ih (i + 1) out _ hrest
        cases out with
        | none =>
          intro y hy
          rcases List.mem_append.mp hy with hy | hy
          · exact hinv y hy
          · exact hstb y hy
        | some o =>
          obtain ⟨j, w, lw⟩ := o
          obtain ⟨hw, hcw, hwm, hnb, hall⟩ := hinv
          refine ⟨hw, hcw, by simp [hwm], hnb, ?_⟩
          intro y hy
          rcases List.mem_append.mp hy with hy | hy
          · exact hall y hy
          · obtain ⟨ly, h1, h2, h3⟩ := hstb y hy
            simp only [BelowMin] at hnb
            have h4 : cmpSort lmv lw ≤ 0 := by rw [cmpSort_antisym]; omega
            have := good_cmpSort.lt_of_lt_le h2 hcmv hcw h3 h4
            exact ⟨ly, h1, h2, by omega⟩
      · simp only [hb, decide_false]
        cases out with
        | none =>
          apply ih (i + 1) _ _ hrest
          refine ⟨hl, hcl, by simp [hvst], hb, ?_⟩
          intro y hy
          rcases List.mem_append.mp hy with hy | hy
          · -- seen before: below the minimum, which `l` reaches
            obtain ⟨ly, h1, h2, h3⟩ := hinv y hy
            cases lm with
            | none => exact absurd h3 (by simp [BelowMin])
            | some lmv =>
              simp only [BelowMin] at h3 hb
              have hcmv := hcm lmv rfl
              have h4 : cmpSort lmv l ≤ 0 := by rw [cmpSort_antisym]; omega
              have := good_cmpSort.lt_of_lt_le h2 hcmv hcl h3 h4
              exact ⟨ly, h1, h2, by omega⟩
          · exact hst y hy
        | some o =>
          obtain ⟨j, w, lw⟩ := o
          obtain ⟨hw, hcw, hwm, hnb, hall⟩ := hinv
          simp only
          by_cases hgt : cmpSort l lw > 0
          · simp only [hgt, if_true]
            apply ih (i + 1) _ _ hrest
            refine ⟨hl, hcl, by simp [hvst], hb, ?_⟩
            intro y hy
            rcases List.mem_append.mp hy with hy | hy
            · obtain ⟨ly, h1, h2, h3⟩ := hall y hy
              have : cmpSort lw l ≤ 0 := by rw [cmpSort_antisym]; omega
              exact ⟨ly, h1, h2, good_cmpSort.trans ly lw l h2 hcw hcl h3 this⟩
            · exact hst y hy
          · simp only [hgt, if_false]
            apply ih (i + 1) _ _ hrest
            refine ⟨hw, hcw, by simp [hwm], hnb, ?_⟩
            intro y hy
            rcases List.mem_append.mp hy with hy | hy
            · exact hall y hy
            · obtain ⟨ly, h1, h2, h3⟩ := hst y hy
              exact ⟨ly, h1, h2, good_cmpSort.trans ly l lw h2 hcl hcw h3 (by omega)⟩

/-! ## `_findProductsByExpr` -/

/-- one stack: the new entries are the matching versions of the stack not reported before, each once -/
theorem matchesIn_spec (expr : Str) (i : Nat) (vs : List Str) :
    ∀ (acc : List (Nat × Str)), (∀ v ∈ vs, ∃ b, versionMatch v expr = .ok b) →
    ∃ ext, matchesIn expr i vs acc = .ok (acc ++ ext) ∧
      (∀ p ∈ ext, p.1 = i ∧ p.2 ∈ vs ∧ versionMatch p.2 expr = .ok true ∧ p.2 ∉ acc.map Prod.snd) ∧
      (∀ v ∈ vs, versionMatch v expr = .ok true → v ∈ (acc ++ ext).map Prod.snd) ∧
      ((acc.map Prod.snd).Nodup → ((acc ++ ext).map Prod.snd).Nodup) := by
  induction vs with
  | nil => intro acc _; exact ⟨[], by simp [matchesIn], by simp, by simp, by simp⟩
  | cons v vs ih =>
    intro acc hok
    obtain ⟨b, hb⟩ := hok v (by simp)
    have hok' : ∀ x ∈ vs, ∃ b, versionMatch x expr = .ok b := fun x hx => hok x (by simp [hx])
    simp only [matchesIn, hb]
    cases b with
    | false =>
      obtain ⟨ext, h1, h2, h3, h4⟩ := ih acc hok'
      refine ⟨ext, h1, ?_, ?_, h4⟩
      · intro p hp; obtain ⟨a, b', c, d⟩ := h2 p hp; exact ⟨a, by simp [b'], c, d⟩
      · intro x hx hm
        rcases List.mem_cons.mp hx with rfl | hx
        · rw [hb] at hm; cases hm
        · exact h3 x hx hm
    | true =>
      by_cases hin : acc.any (fun p => p.2 == v) = true
      · simp only [hin, if_true]
        have hvacc : v ∈ acc.map Prod.snd := by
          obtain ⟨p, hp, hpv⟩ := List.any_eq_true.mp hin
          exact List.mem_map.mpr ⟨p, hp, by simpa using hpv⟩
        obtain ⟨ext, h1, h2, h3, h4⟩ := ih acc hok'
        refine ⟨ext, h1, ?_, ?_, h4⟩
        · intro p hp; obtain ⟨a, b', c, d⟩ := h2 p hp; exact ⟨a, by simp [b'], c, d⟩
        · intro x hx hm
          rcases List.mem_cons.mp hx with rfl | hx
          · simp only [List.map_append, List.mem_append]; exact Or.inl hvacc
          · exact h3 x hx hm
      · simp only [hin, Bool.false_eq_true, if_false]
        have hvacc : v ∉ acc.map Prod.snd := by
          intro hv
          obtain ⟨p, hp, hpv⟩ := List.mem_map.mp hv
          exact hin (List.any_eq_true.mpr ⟨p, hp, by simp [hpv]⟩)
        obtain ⟨ext, h1, h2, h3, h4⟩ := ih (acc ++ [(i, v)]) hok'
        refine ⟨(i, v) :: ext, by simpa using h1, ?_, ?_, ?_⟩
        · intro p hp
          rcases List.mem_cons.mp hp with rfl | hp
          · exact ⟨rfl, by simp, hb, hvacc⟩
          · obtain ⟨a, b', c, d⟩ := h2 p hp
            refine ⟨a, by simp [b'], c, ?_⟩
            intro hx; exact d (by simp only [List.map_append, List.mem_append]; exact Or.inl hx)
        · intro x hx hm
          have e : acc ++ (i, v) :: ext = (acc ++ [(i, v)]) ++ ext := by simp
          rw [e]
          rcases List.mem_cons.mp hx with rfl | hx
          · simp
          · exact h3 x hx hm
        · intro hnd
          have e : acc ++ (i, v) :: ext = (acc ++ [(i, v)]) ++ ext := by simp
          rw [e]
          apply h4
          simp only [List.map_append, List.map_cons, List.map_nil]
          rw [List.nodup_append]
          refine ⟨hnd, by simp, ?_⟩
          intro a ha b hb' hab
          simp only [List.mem_singleton] at hb'
          subst hb'; subst hab
          exact hvacc ha

/-- what the loop over the stacks maintains (`seen` = the stacks already passed, `seen.length` the
index of the next one) -/
def MatchInv (expr : Str) (acc : List (Nat × Str)) (seen : List (List Str)) : Prop :=
  (∀ p ∈ acc, versionMatch p.2 expr = .ok true ∧ ∃ st, seen[p.1]? = some st ∧ p.2 ∈ st ∧
      ∀ j st', j < p.1 → seen[j]? = some st' → p.2 ∉ st') ∧
  (∀ st ∈ seen, ∀ v ∈ st, versionMatch v expr = .ok true → v ∈ acc.map Prod.snd) ∧
  (acc.map Prod.snd).Nodup

theorem matchesAcrossGo_spec (expr : Str) (rest : List (List Str)) :
    ∀ (seen : List (List Str)) (acc : List (Nat × Str)),
      (∀ st ∈ rest, ∀ v ∈ st, ∃ b, versionMatch v expr = .ok b) → MatchInv expr acc seen →
      ∃ acc', matchesAcrossGo expr seen.length rest acc = .ok acc' ∧ MatchInv expr acc' (seen ++ rest) := by
  induction rest with
  | nil => intro seen acc _ h; exact ⟨acc, rfl, by simpa using h⟩
  | cons st rest ih =>
    intro seen acc hok hinv
    obtain ⟨ext, h1, h2, h3, h4⟩ := matchesIn_spec expr seen.length st acc (hok st (by simp))
    simp only [matchesAcrossGo, h1]
    have e : seen ++ st :: rest = (seen ++ [st]) ++ rest := by simp
    have hlen : seen.length + 1 = (seen ++ [st]).length := by simp
    rw [e, hlen]
    apply ih (seen ++ [st]) (acc ++ ext) (fun s hs => hok s (by simp [hs]))
    obtain ⟨i1, i2, i3⟩ := hinv
    refine ⟨?_, ?_, h4 i3⟩
    · intro p hp
      rcases List.mem_append.mp hp with hp | hp
      · obtain ⟨a, s, hs, hm, hfirst⟩ := i1 p hp
        have hlt : p.1 < seen.length := by
          rcases Nat.lt_or_ge p.1 seen.length with h | h
          · exact h
          · rw [List.getElem?_eq_none h] at hs; cases hs
        refine ⟨a, s, by rw [List.getElem?_append_left hlt]; exact hs, hm, ?_⟩
        intro j st' hj hst'
        rw [List.getElem?_append_left (by omega)] at hst'
        exact hfirst j st' hj hst'
      · obtain ⟨a, b, c, d⟩ := h2 p hp
        refine ⟨c, st, by rw [a]; simp, b, ?_⟩
        intro j st' hj hst' hmem
        rw [a] at hj
        rw [List.getElem?_append_left hj] at hst'
        exact d (i2 st' (List.mem_of_getElem? hst') p.2 hmem c)
    · intro s hs v hv hm
      rcases List.mem_append.mp hs with hs | hs
      · simp only [List.map_append, List.mem_append]; exact Or.inl (i2 s hs v hv hm)
      · simp only [List.mem_singleton] at hs; subst hs; exact h3 v hv hm

/-! ## from names to split names -/

/-- the split form of an accepted name -/
def lexOr (v : Str) : Lexed :=
  match lex v with
  | .ok l => l
  | .error _ => .absent

theorem lexOr_of_lex {v : Str} {l : Lexed} (h : lex v = .ok l) : lexOr v = l := by simp [lexOr, h]

theorem lexPairs_eq_map {names : List Str} {ps : List (Str × Lexed)} (h : lexPairs names = .ok ps) :
    ps = names.map (fun v => (v, lexOr v)) := by
  induction names generalizing ps with
  | nil => simp [lexPairs] at h; subst h; rfl
  | cons v vs ih =>
    simp only [lexPairs] at h
    cases hl : lex v with
    | error e => simp [hl] at h
    | ok l =>
      cases hr : lexPairs vs with
      | error e => simp [hl, hr] at h
      | ok ls =>
        simp only [hl, hr, Except.ok.injEq] at h
        subst h
        simp [ih hr, lexOr_of_lex hl]

theorem stdCompare_lexOr {a b : Str} (ha : ∃ la, lex a = .ok la) (hb : ∃ lb, lex b = .ok lb) :
    stdCompare false a b = .ok (cmpSort (lexOr a) (lexOr b)) := by
  obtain ⟨la, hla⟩ := ha
  obtain ⟨lb, hlb⟩ := hb
  simp [stdCompare, hla, hlb, cmpLexed, lexOr]

theorem convName_accepted {a : Str} (h : convName a = true) : ∃ la, lex a = .ok la := by
  simp only [convName] at h
  cases hl : lex a with
  | error e => simp [hl] at h
  | ok la => exact ⟨la, rfl⟩

end EupsModel.VersionCmp
