import EupsModel.Lemmas.VersionLex
import EupsModel.Lemmas.VersionConv
/-! C10: `lex` (the model of `_splitVersion`, applied again to the parts) at the level of strings:
what the name `p`, `p-e`, `p+f`, `p-e+f` splits into, for pieces `p`, `e`, `f` without `-`/`+` that are not
of the `VVVm#`/`VVVp#` spelling.  The clauses of the property that speak of a pre-release and a post-release
follow as statements about strings. -/
set_option linter.unusedVariables false
set_option linter.unusedSimpArgs false
namespace EupsModel.VersionCmp
open EupsModel

/-- one piece of a name: non-empty, no `-`/`+`, and not ending in `m<digits>` / `p<digits>` -/
def Piece (s : Str) : Prop := s ≠ [] ∧ PmFree s ∧ mpSuffix s = none

theorem takeWhile_pmFree_append (p : Str) (c : Nat) (rest : Str) (hp : PmFree p) (hc : notPM c = false) :
    (p ++ c :: rest).takeWhile notPM = p ∧ (p ++ c :: rest).dropWhile notPM = c :: rest := by
  induction p with
  | nil => simp [List.takeWhile, List.dropWhile, hc]
  | cons a as ih =>
    have ha := hp a (by simp)
    obtain ⟨h1, h2⟩ := ih (fun x hx => hp x (by simp [hx]))
    simp [List.takeWhile, List.dropWhile, ha, h1, h2]

theorem takeWhile_pmFree (p : Str) (hp : PmFree p) : p.takeWhile notPM = p ∧ p.dropWhile notPM = [] := by
  induction p with
  | nil => simp
  | cons a as ih =>
    have ha := hp a (by simp)
    obtain ⟨h1, h2⟩ := ih (fun x hx => hp x (by simp [hx]))
    simp [List.takeWhile, List.dropWhile, ha, h1, h2]

theorem hyphens_append (a b : Str) : hyphens (a ++ b) = hyphens a + hyphens b := by
  simp [hyphens, List.filter_append]

theorem hyphens_cons_minus (s : Str) : hyphens (45 :: s) = hyphens s + 1 := by simp [hyphens]
theorem hyphens_cons_plus (s : Str) : hyphens (43 :: s) = hyphens s := by simp [hyphens]

theorem head_notPM {p : Str} (hne : p ≠ []) (hp : PmFree p) (rest : Str) :
    ∃ c cs, p ++ rest = c :: cs ∧ notPM c = true := by
  cases p with
  | nil => exact absurd rfl hne
  | cons a as => exact ⟨a, as ++ rest, rfl, hp a (by simp)⟩

/-- `_splitVersion` on a single piece -/
theorem splitVersion_piece {s : Str} (h : Piece s) : splitVersion s = .ok (s, none, none) := by
  obtain ⟨hne, hp, hmp⟩ := h
  obtain ⟨c, cs, hs, hc⟩ := head_notPM hne hp []
  simp only [List.append_nil] at hs
  have hh : ¬ hyphens s ≥ 2 := by rw [hyphens_pmFree hp]; omega
  obtain ⟨h1, h2⟩ := takeWhile_pmFree s hp
  simp only [splitVersion, hh, if_false]
  rw [hs] at h1 h2 hmp ⊢
  simp only [hc, Bool.not_true, Bool.false_eq_true, if_false, h1, h2, optRun, Option.isNone_none, Bool.and_self, if_true, hmp]

theorem lexF_piece {s : Str} (h : Piece s) (fuel : Nat) : lexF (fuel + 1) s = .ok (.node s .absent .absent) := by
  obtain ⟨c, cs, hs, _⟩ := head_notPM h.1 h.2.1 []
  simp only [List.append_nil] at hs
  have := splitVersion_piece h
  rw [hs] at this ⊢
  simp only [lexF, this, Option.getD_none]

/-- a plain name -/
theorem lex_piece {s : Str} (h : Piece s) : lex s = .ok (.node s .absent .absent) := lexF_piece h _

theorem optRun_hit (lead : Nat) (e : Str) (c : Nat) (rest : Str) (he : e ≠ []) (hp : PmFree e) (hc : notPM c = false) :
    optRun lead (lead :: (e ++ c :: rest)) = (some e, c :: rest) := by
  obtain ⟨h1, h2⟩ := takeWhile_pmFree_append e c rest hp hc
  simp only [optRun, beq_self_eq_true, if_true, h1, h2]
  cases e with
  | nil => exact absurd rfl he
  | cons a as => simp

theorem optRun_hit_end (lead : Nat) (e : Str) (he : e ≠ []) (hp : PmFree e) :
    optRun lead (lead :: e) = (some e, []) := by
  obtain ⟨h1, h2⟩ := takeWhile_pmFree e hp
  simp only [optRun, beq_self_eq_true, if_true, h1, h2]
  cases e with
  | nil => exact absurd rfl he
  | cons a as => simp

/-- `p-e+f` -/
theorem lex_pre_post {p e f : Str} (hp : p ≠ [] ∧ PmFree p) (he : Piece e) (hf : Piece f) :
    lex (p ++ 45 :: (e ++ 43 :: f)) =
      .ok (.node p (.node e .absent .absent) (.node f .absent .absent)) := by
  obtain ⟨c, cs, hs, hc⟩ := head_notPM hp.1 hp.2 (45 :: (e ++ 43 :: f))
  have hh : ¬ hyphens (p ++ 45 :: (e ++ 43 :: f)) ≥ 2 := by
    rw [hyphens_append, hyphens_cons_minus, hyphens_append, hyphens_cons_plus, hyphens_pmFree hp.2,
      hyphens_pmFree he.2.1, hyphens_pmFree hf.2.1]; omega
  obtain ⟨h1, h2⟩ := takeWhile_pmFree_append p 45 (e ++ 43 :: f) hp.2 (by decide)
  have hsv : splitVersion (p ++ 45 :: (e ++ 43 :: f)) = .ok (p, some e, some f) := by
    simp only [splitVersion, hh, if_false]
    rw [hs] at h1 h2 ⊢
    simp only [hc, Bool.not_true, Bool.false_eq_true, if_false, h1, h2,
      optRun_hit 45 e 43 f he.1 he.2.1 (by decide), optRun_hit_end 43 f hf.1 hf.2.1]
    simp
  simp only [lex]
  rw [hs] at hsv ⊢
  simp only [List.length_cons, lexF, hsv, Option.getD_some]
  have hl : cs.length = (cs.length - 1) + 1 := by
    have : (c :: cs).length = (p ++ 45 :: (e ++ 43 :: f)).length := by rw [hs]
    simp only [List.length_cons, List.length_append] at this
    omega
  rw [hl, lexF_piece he, lexF_piece hf]

/-- `p-e` -/
theorem lex_pre {p e : Str} (hp : p ≠ [] ∧ PmFree p) (he : Piece e) :
    lex (p ++ 45 :: e) = .ok (.node p (.node e .absent .absent) .absent) := by
  obtain ⟨c, cs, hs, hc⟩ := head_notPM hp.1 hp.2 (45 :: e)
  have hh : ¬ hyphens (p ++ 45 :: e) ≥ 2 := by
    rw [hyphens_append, hyphens_cons_minus, hyphens_pmFree hp.2, hyphens_pmFree he.2.1]; omega
  obtain ⟨h1, h2⟩ := takeWhile_pmFree_append p 45 e hp.2 (by decide)
  have hsv : splitVersion (p ++ 45 :: e) = .ok (p, some e, none) := by
    simp only [splitVersion, hh, if_false]
    rw [hs] at h1 h2 ⊢
    simp only [hc, Bool.not_true, Bool.false_eq_true, if_false, h1, h2, optRun_hit_end 45 e he.1 he.2.1]
    simp [optRun]
  simp only [lex]
  rw [hs] at hsv ⊢
  simp only [List.length_cons, lexF, hsv, Option.getD_some, Option.getD_none]
  have hl : cs.length = (cs.length - 1) + 1 := by
    have : (c :: cs).length = (p ++ 45 :: e).length := by rw [hs]
    have he1 : 0 < e.length := List.length_pos_iff.mpr he.1
    simp only [List.length_cons, List.length_append] at this
    omega
  rw [hl, lexF_piece he]

/-- `p+f` -/
theorem lex_post {p f : Str} (hp : p ≠ [] ∧ PmFree p) (hf : Piece f) :
    lex (p ++ 43 :: f) = .ok (.node p .absent (.node f .absent .absent)) := by
  obtain ⟨c, cs, hs, hc⟩ := head_notPM hp.1 hp.2 (43 :: f)
  have hh : ¬ hyphens (p ++ 43 :: f) ≥ 2 := by
    rw [hyphens_append, hyphens_cons_plus, hyphens_pmFree hp.2, hyphens_pmFree hf.2.1]; omega
  obtain ⟨h1, h2⟩ := takeWhile_pmFree_append p 43 f hp.2 (by decide)
  have hsv : splitVersion (p ++ 43 :: f) = .ok (p, none, some f) := by
    simp only [splitVersion, hh, if_false]
    rw [hs] at h1 h2 ⊢
    simp only [hc, Bool.not_true, Bool.false_eq_true, if_false, h1, h2]
    have : optRun 45 (43 :: f) = (none, 43 :: f) := by simp [optRun]
    simp only [this, optRun_hit_end 43 f hf.1 hf.2.1]
    simp
  simp only [lex]
  rw [hs] at hsv ⊢
  simp only [List.length_cons, lexF, hsv, Option.getD_some, Option.getD_none]
  have hl : cs.length = (cs.length - 1) + 1 := by
    have : (c :: cs).length = (p ++ 43 :: f).length := by rw [hs]
    have he1 : 0 < f.length := List.length_pos_iff.mpr hf.1
    simp only [List.length_cons, List.length_append] at this
    omega
  rw [hl, lexF_piece hf]

end EupsModel.VersionCmp
