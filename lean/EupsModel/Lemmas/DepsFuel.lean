import EupsModel.Lemmas.Deps
/-! The fuel of the driver suffices for the table walk on tables without unsetup lines (termination on
cyclic graphs), and the plain listing is exactly the reachable set. -/
namespace EupsModel.Deps
open EupsModel

/-- keys of the declared products -/
def declKeys (db : Db) : List (Str × Option Str) := db.decls.map fun d => (d.name, some d.ver)

/-- how many declared products the walk may still open -/
def unopened (db : Db) (seen : List (Str × Option Str)) : Nat := (declKeys db).countP fun k => !seen.contains k

theorem unopened_le (db : Db) (seen : List (Str × Option Str)) : unopened db seen ≤ db.decls.length := by
  unfold unopened declKeys
  exact Nat.le_trans (List.countP_le_length) (by simp)

theorem unopened_mono (db : Db) {s s' : List (Str × Option Str)} (h : ∀ k ∈ s, k ∈ s') :
    unopened db s' ≤ unopened db s := by
  unfold unopened
  apply List.countP_mono_left
  intro k _ hk
  simp only [Bool.not_eq_true', List.contains_eq_mem, decide_eq_false_iff_not] at hk ⊢
  exact fun hks => hk (h k hks)

theorem countP_lt_of_witness {β : Type} (p q : β → Bool) : ∀ (l : List β), (∀ x ∈ l, p x = true → q x = true) →
    (∃ x ∈ l, q x = true ∧ p x = false) → l.countP p < l.countP q := by
  intro l
  induction l with
  | nil => intro _ h; simp at h
  | cons a as ih =>
    intro himp hex
    have himp' : ∀ x ∈ as, p x = true → q x = true := fun x hx => himp x (by simp [hx])
    have hle : as.countP p ≤ as.countP q := List.countP_mono_left (fun x hx h => himp' x hx h)
    obtain ⟨x, hx, hq, hp⟩ := hex
    simp only [List.mem_cons] at hx
    rcases hx with rfl | hx
    · simp only [List.countP_cons, hq, hp, if_true]
      simp; omega
    · have := ih himp' ⟨x, hx, hq, hp⟩
      simp only [List.countP_cons]
      by_cases hpa : p a = true
      · have := himp a (by simp) hpa
        simp [hpa, this]; omega
      · have hpa' : p a = false := by simpa using hpa
        simp only [hpa', Bool.false_eq_true, if_false]
        split <;> omega

theorem find_key_mem {db : Db} {n : Str} {v : Option Str} {p : Prod} (h : db.find n v = some p) :
    prodkey p ∈ declKeys db := by
  have key : ∀ v', db.declared n v' = true → (n, some v') ∈ declKeys db := by
    intro v' hd
    unfold Db.declared at hd
    simp only [List.any_eq_true, Bool.and_eq_true, beq_iff_eq] at hd
    obtain ⟨d, hd, h1, h2⟩ := hd
    simp only [declKeys, List.mem_map]
    exact ⟨d, hd, by rw [h1, h2]⟩
  unfold Db.find at h
  split at h
  · split at h
    · rename_i v' hd; simp at h; subst h; exact key v' hd
    · simp at h
  · split at h
    · split at h
      · rename_i v' _ hd; simp at h; subst h; exact key v' hd
      · simp at h
    · simp at h

theorem resolve_key_mem {db : Db} {req : Required} {d : Dep} {p : Prod} (h : resolve db req d = some p) :
    prodkey p ∈ declKeys db := by
  unfold resolve at h
  split at h <;> exact find_key_mem h

theorem unopened_cons_lt (db : Db) {seen : List (Str × Option Str)} {k : Str × Option Str}
    (hk : k ∈ declKeys db) (hn : k ∉ seen) : unopened db (k :: seen) < unopened db seen := by
  unfold unopened
  apply countP_lt_of_witness
  · intro x _ hx
    simp only [Bool.not_eq_true', List.contains_eq_mem, decide_eq_false_iff_not, List.mem_cons, not_or] at hx ⊢
    exact hx.2
  · exact ⟨k, hk, by simpa using hn, by simp⟩

/-- the loop completes when every recursive call it can make completes -/
theorem depsLoop_some (db : Db) (req : Required)
    (recur : Prod → Nat → St → Option (List Entry × St)) (fresh : Prod → Option (List Str))
    (top : Prod) (depth : Nat) (k : Nat) (hm : ∀ p, db.tableMissing p = false)
    (hrec : ∀ p dp st, unopened db st.seen < k → ∃ out st', recur p dp st = some (out, st') ∧
        CallPost db req p st out st') :
    ∀ ds acc st, (∀ d ∈ ds, d.unsetup = false) → unopened db st.seen ≤ k →
      ∃ r, depsLoop db req recur fresh top true depth ds acc st = some r := by
  intro ds
  induction ds with
  | nil => intro acc st _ _; exact ⟨_, rfl⟩
  | cons d ds ih =>
    intro acc st hu hk
    rw [depsLoop_cons_setup _ _ _ _ _ _ _ _ _ _ _ (hu d (by simp)) hm]
    have hu' : ∀ d ∈ ds, d.unsetup = false := fun x hx => hu x (by simp [hx])
    cases hr : resolve db req d with
    | none => exact ih _ _ hu' hk
    | some p =>
      simp only
      by_cases hc : (true && !d.noRec && !st.seen.contains (prodkey p)) = true
      · simp only [hc, if_true]
        have hnot : prodkey p ∉ st.seen := by
          simp only [Bool.true_and, Bool.and_eq_true, Bool.not_eq_true', List.contains_eq_mem,
            decide_eq_false_iff_not] at hc
          exact hc.2
        have hlt : unopened db (prodkey p :: st.seen) < k :=
          Nat.lt_of_lt_of_le (unopened_cons_lt db (resolve_key_mem hr) hnot) hk
        obtain ⟨sub, st2, hq, C⟩ := hrec p (depth + 1) { st with seen := prodkey p :: st.seen } hlt
        simp only [hq]
        apply ih _ _ hu'
        have : unopened db st2.seen ≤ unopened db (prodkey p :: st.seen) := unopened_mono db C.seen_mono
        simp only
        omega
      · simp only [hc, Bool.false_eq_true, if_false]
        exact ih _ _ hu' hk

/-- **Termination**: on tables without unsetup lines a recursive call with more fuel than there are unopened
declared products completes — cyclic graphs included. -/
theorem depsOf_some (db : Db) (hns : NoUnsetup db) (req : Required) :
    ∀ f top depth st, unopened db st.seen < f → ∃ out st', depsOf db f req top true depth st = some (out, st') := by
  intro f
  induction f with
  | zero => intro top depth st h; omega
  | succ k ih =>
    intro top depth st h
    unfold depsOf depsOfG
    have := depsLoop_some db req (fun p d st' => depsOf db k req p true d st')
      (fun p => if ([] : Guard).contains (prodkey p) then some []
                else (depsOfG db k (prodkey p :: []) [] p true 0 St.empty).map fun r => r.1.map (·.prod.name)) top depth k
      (tableMissing_false hns)
      (by
        intro p dp st1 hlt
        obtain ⟨out, st', hq⟩ := ih p dp st1 hlt
        exact ⟨out, st', hq, depsOf_post db hns req _ _ _ _ _ _ hq⟩)
      (db.table top) []
      { st with nodes := if st.nodes.contains top = true then st.nodes else st.nodes ++ [top] }
      (table_noUnsetup hns top) (by simp only; omega)
    obtain ⟨⟨out, st'⟩, hr⟩ := this
    exact ⟨out, st', hr⟩

theorem fuel_enough (db : Db) : unopened db St.empty.seen < db.fuel := by
  have h1 := unopened_le db St.empty.seen
  unfold Db.fuel
  have : db.decls.length < (db.decls.length + 2) * (db.decls.length + 2) := by
    have : db.decls.length + 2 ≤ (db.decls.length + 2) * (db.decls.length + 2) :=
      Nat.le_mul_of_pos_right _ (by omega)
    omega
  omega

theorem closed_xreach_gen {db : Db} {req : Required} {top : Prod} {out : List Entry} {st' : St}
    (C : CallPost db req top St.empty out st') {u w : Prod} (hx : XReach db req u w) :
    Closed db req out st' u → Closed db req out st' w := by
  induction hx with
  | refl => exact fun h => h
  | head he _ ih =>
    intro hu
    apply ih
    obtain ⟨d, hd, hj, hr⟩ := he
    have hk := (hu.2 d hd).2.2 hj _ hr
    have := C.closed_new _ hk (by simp [St.empty])
    rwa [ofKey_prodkey (resolve_real hr)] at this

/-- every opened table is read completely (first call, empty visited set) -/
theorem closed_of_xreach {db : Db} {req : Required} {top : Prod} {out : List Entry} {st' : St}
    (C : CallPost db req top St.empty out st') {w : Prod} (h : XReach db req top w) :
    Closed db req out st' w := closed_xreach_gen C h C.closed_top

/-- the output of a completed first call is exactly the set of listed products -/
theorem depsOf_listed {db : Db} (hns : NoUnsetup db) {req : Required} {f : Nat} {top : Prod} {depth : Nat}
    {out : List Entry} {st' : St} (h : depsOf db f req top true depth St.empty = some (out, st')) (v : Prod) :
    v ∈ out.map (·.prod) ↔ Listed db req top v := by
  have C := depsOf_post db hns req _ _ _ _ _ _ h
  constructor
  · intro hv
    simp only [List.mem_map] at hv
    obtain ⟨e, he, rfl⟩ := hv
    exact C.out_sound e he
  · rintro ⟨w, hw, d, hd, rfl⟩
    exact ((closed_of_xreach C hw).2 d hd).1

end EupsModel.Deps
