import EupsModel.Model.PathAlg
/-! Helper lemmas for C12 (list layer and `split`/`join`). -/
namespace EupsModel.PathAlg
section
variable {α : Type} [DecidableEq α]

theorem mem_uniq (l : List α) (a : α) : a ∈ uniq l ↔ a ∈ l := by
  induction l with
  | nil => simp [uniq]
  | cons x xs ih =>
    simp only [uniq, List.mem_cons, List.mem_filter, ih]
    by_cases h : a = x <;> simp [h]

theorem uniq_nodup (l : List α) : (uniq l).Nodup := by
  induction l with
  | nil => simp [uniq]
  | cons x xs ih =>
    simp only [uniq, List.nodup_cons, List.mem_filter]
    exact ⟨by simp, ih.filter _⟩

theorem filter_uniq (p : α → Bool) (l : List α) : (uniq l).filter p = uniq (l.filter p) := by
  induction l with
  | nil => simp [uniq]
  | cons x xs ih =>
    simp only [uniq, List.filter_cons]
    split
    · simp only [uniq, ← ih, List.filter_filter]
      congr 1
      apply List.filter_congr; intro a _; simp [Bool.and_comm]
    · rename_i hx
      rw [← ih, List.filter_filter]
      apply List.filter_congr
      intro a _
      by_cases h : a = x
      · subst h; simp [hx]
      · simp [h]

theorem uniq_idem (l : List α) : uniq (uniq l) = uniq l := by
  induction l with
  | nil => simp [uniq]
  | cons x xs ih => simp only [uniq]; rw [← filter_uniq, ih]; simp [List.filter_filter]

theorem uniq_of_nodup (l : List α) (h : l.Nodup) : uniq l = l := by
  induction l with
  | nil => simp [uniq]
  | cons x xs ih =>
    have hx : x ∉ xs := (List.nodup_cons.mp h).1
    simp only [uniq, ih (List.nodup_cons.mp h).2]
    congr 1
    apply List.filter_eq_self.mpr
    intro a ha
    simp
    intro e; exact hx (e ▸ ha)

theorem uniq_append_singleton (v : α) (xs : List α) (h : v ∉ xs) : uniq (xs ++ [v]) = uniq xs ++ [v] := by
  induction xs with
  | nil => simp [uniq]
  | cons x xs ih =>
    have hx : v ≠ x := fun e => h (by simp [e])
    have hxs : v ∉ xs := fun e => h (by simp [e])
    simp [uniq, ih hxs, List.filter_append, hx]

/-- the repaired append rule on a whole list: the value ends up last, the others keep the order of their first
occurrences -/
theorem uniq_appendL (v : α) (l : List α) : uniq (appendL v l) = (uniq l).filter (· != v) ++ [v] := by
  unfold appendL
  rw [uniq_append_singleton v _ (by simp), filter_uniq]

/-! normal forms of one action with a one-piece value -/
theorem applyL_prepend_single (v : α) (old : List α) :
    applyL false true [v] old = v :: (uniq old).filter (· != v) := by
  simp [applyL, prependL, uniq]

theorem applyL_append_single (v : α) (old : List α) :
    applyL true true [v] old = (uniq old).filter (· != v) ++ [v] := by
  simp only [applyL, loopVals_single, List.foldl_cons, List.foldl_nil, if_true]
  exact uniq_appendL v old

theorem applyL_remove_single (append : Bool) (v : α) (old : List α) :
    applyL append false [v] old = (uniq old).filter (· != v) := by
  simp [applyL, removeL, filter_uniq]

end

/-! ## string layer -/

theorem splitGo_single_cons (c x : Nat) (cur xs : Str) :
    splitGo [c] 0 cur (x :: xs) =
      if x = c then cur.reverse :: splitGo [c] 0 [] xs else splitGo [c] 0 (x :: cur) xs := by
  by_cases h : x = c
  · subst h; simp [splitGo, List.isPrefixOf]
  · have : (c == x) = false := by simp [Ne.symm h]
    simp [splitGo, List.isPrefixOf, this, h]

theorem splitGo_free (c : Nat) (t rest cur : Str) (h : c ∉ t) :
    splitGo [c] 0 cur (t ++ rest) = splitGo [c] 0 (t.reverse ++ cur) rest := by
  induction t generalizing cur with
  | nil => simp
  | cons x xs ih =>
    have hx : x ≠ c := fun e => h (by simp [e])
    have hxs : c ∉ xs := fun e => h (by simp [e])
    rw [List.cons_append, splitGo_single_cons, if_neg hx, ih _ hxs]
    simp

theorem splitGo_nil (d cur : Str) (k : Nat) : splitGo d k cur [] = [cur.reverse] := by
  cases k <;> simp [splitGo]

/-- `split` inverts `join` for a single-character delimiter and delimiter-free pieces. -/
theorem split_join (c : Nat) (l : List Str) (hne : l ≠ []) (h : ∀ e ∈ l, c ∉ e) :
    split [c] (join [c] l) = l := by
  unfold split
  induction l with
  | nil => exact absurd rfl hne
  | cons x rest ih =>
    cases rest with
    | nil =>
      have := splitGo_free c x [] [] (h x (by simp))
      simp only [List.append_nil] at this
      simp [join, this, splitGo_nil]
    | cons y rest' =>
      have hx : c ∉ x := h x (by simp)
      have ih' := ih (by simp) (fun e he => h e (by simp [he]))
      simp only [join, List.append_assoc]
      rw [splitGo_free c x _ [] hx]
      simp only [List.append_nil, List.singleton_append]
      rw [splitGo_single_cons]
      simp [ih']


theorem varAt_ne (c : Nat) (cs : Str) (h : c ≠ 36) : varAt (c :: cs) = none := by
  unfold varAt
  split
  · rename_i heq; injection heq with h1 _; exact absurd h1 h
  · rfl

theorem refAt_ne (c : Nat) (cs : Str) (h : c ≠ 36) : refAt (c :: cs) = none := by
  unfold refAt
  split
  · rename_i heq; injection heq with h1 _; exact absurd h1 h
  · rfl

theorem expandGo_no_dollar (env : Env) (f : Nat) (s : Str) (h : 36 ∉ s) : expandGo env f s = .value s := by
  induction f generalizing s with
  | zero => simp [expandGo]
  | succ f ih =>
    cases s with
    | nil => simp [expandGo]
    | cons c cs =>
      have hc : c ≠ 36 := fun e => h (by simp [e])
      have hcs : 36 ∉ cs := fun e => h (by simp [e])
      simp [expandGo, varAt_ne c cs hc, ih cs hcs]

theorem expand_no_dollar (env : Env) (s : Str) (h : 36 ∉ s) : expand env s = .value s :=
  expandGo_no_dollar env _ s h

theorem interp_no_dollar (env : Env) (f : Nat) (s : Str) (h : 36 ∉ s) : interp env f s = s := by
  induction f generalizing s with
  | zero => simp [interp]
  | succ f ih =>
    cases s with
    | nil => simp [interp]
    | cons c cs =>
      have hc : c ≠ 36 := fun e => h (by simp [e])
      have hcs : 36 ∉ cs := fun e => h (by simp [e])
      simp [interp, refAt_ne c cs hc, ih cs hcs]

theorem not_mem_join (c x : Nat) (l : List Str) (hx : x ≠ c) (h : ∀ e ∈ l, x ∉ e) : x ∉ join [c] l := by
  induction l with
  | nil => simp [join]
  | cons a rest ih =>
    cases rest with
    | nil => simpa [join] using h a (by simp)
    | cons b rest' =>
      have := ih (fun e he => h e (by simp [he]))
      simp only [join, List.mem_append, not_or]
      exact ⟨⟨h a (by simp), by simp [hx]⟩, this⟩


/-- pieces of a well-formed path value: non-empty, free of the delimiter `c` and of `$` -/
def GoodPiece (c : Nat) (e : Str) : Prop := e ≠ [] ∧ c ∉ e ∧ 36 ∉ e

theorem startsWith_good (c : Nat) (v : Str) (h : GoodPiece c v) : startsWith v [c] = false := by
  obtain ⟨hne, hc, _⟩ := h
  cases v with
  | nil => exact absurd rfl hne
  | cons x xs =>
    have : (c == x) = false := by simp; intro e; exact hc (by simp [e])
    simp [startsWith, List.isPrefixOf, this]

theorem endsWith_good (c : Nat) (v : Str) (h : GoodPiece c v) : endsWith v [c] = false := by
  have h' : GoodPiece c v.reverse := ⟨by simpa using h.1, by simpa using h.2.1, by simpa using h.2.2⟩
  simpa [endsWith, startsWith] using startsWith_good c v.reverse h'

theorem split_join_filter (c : Nat) (l : List Str) (h : ∀ e ∈ l, GoodPiece c e) :
    (split [c] (join [c] l)).filter (fun el => !decide (el = [])) = l := by
  cases l with
  | nil => simp [join, split, splitGo]
  | cons a rest =>
    rw [split_join c _ (by simp) (fun e he => (h e he).2.1)]
    apply List.filter_eq_self.mpr
    intro e he
    simpa using (h e he).1

theorem applyL_mem (append fwd : Bool) (v : Str) (old : List Str) (e : Str)
    (he : e ∈ applyL append fwd [v] old) : e = v ∨ e ∈ old := by
  unfold applyL at he
  rw [mem_uniq] at he
  cases fwd <;> cases append <;> simp [appendL, prependL, removeL] at he <;> grind

theorem envPrepend_lifts (c : Nat) (hc : c ≠ 36) (append fwd : Bool) (var v : Str) (oldl : List Str) (env : Env)
    (hold : ∀ e ∈ oldl, GoodPiece c e) (hv : GoodPiece c v)
    (henv : (env.get var).getD [] = join [c] oldl) :
    envPrepend append fwd var v [c] env = .ok (env.set var (join [c] (applyL append fwd [v] oldl))) := by
  have hsplitv : split [c] v = [v] := by
    have := split_join c [v] (by simp) (by intro e he; simp at he; subst he; exact hv.2.1)
    simpa [join] using this
  have hgood : ∀ e ∈ applyL append fwd [v] oldl, 36 ∉ e := by
    intro e he
    rcases applyL_mem append fwd v oldl e he with h | h
    · subst h; exact hv.2.2
    · exact (hold e h).2.2
  have hnd : (36 : Nat) ∉ join [c] (applyL append fwd [v] oldl) :=
    not_mem_join c 36 _ (Ne.symm hc) hgood
  unfold envPrepend
  simp [startsWith_good c v hv, endsWith_good c v hv, henv,
    expand_no_dollar env v hv.2.2, interp_no_dollar env _ v hv.2.2, hsplitv]
  rw [split_join_filter c oldl hold]


theorem join_cons_ne (c : Nat) (a : Str) (rest : List Str) (hr : rest ≠ []) :
    join [c] (a :: rest) = a ++ c :: join [c] rest := by
  cases rest with
  | nil => exact absurd rfl hr
  | cons b r => simp [join]

/-- first character of a join of good pieces is not the delimiter -/
theorem startsWith_join_good (c : Nat) (l : List Str) (hne : l ≠ []) (h : ∀ e ∈ l, GoodPiece c e) :
    startsWith (join [c] l) [c] = false := by
  cases l with
  | nil => exact absurd rfl hne
  | cons a rest =>
    have ha := h a (by simp)
    obtain ⟨hane, hac, _⟩ := ha
    cases a with
    | nil => exact absurd rfl hane
    | cons x xs =>
      have hx : (c == x) = false := by simp; intro e; exact hac (by simp [e])
      cases rest with
      | nil => simp [join, startsWith, List.isPrefixOf, hx]
      | cons b r => simp [join, startsWith, List.isPrefixOf, hx]

theorem getLast_join_good (c : Nat) (l : List Str) (hne : l ≠ []) (h : ∀ e ∈ l, GoodPiece c e) :
    ∃ pre x, join [c] l = pre ++ [x] ∧ x ≠ c := by
  induction l with
  | nil => exact absurd rfl hne
  | cons a rest ih =>
    cases rest with
    | nil =>
      have ha := h a (by simp)
      refine ⟨a.dropLast, a.getLast ha.1, ?_, ?_⟩
      · simp [join, List.dropLast_concat_getLast]
      · intro e; exact ha.2.1 (e ▸ List.getLast_mem ha.1)
    | cons b r =>
      obtain ⟨pre, x, hp, hx⟩ := ih (by simp) (fun e he => h e (by simp [he]))
      refine ⟨a ++ c :: pre, x, ?_, hx⟩
      rw [join_cons_ne c a (b :: r) (by simp), hp]; simp

theorem endsWith_snoc (s : Str) (x c : Nat) : endsWith (s ++ [x]) [c] = (c == x) := by
  simp [endsWith, List.isPrefixOf]

theorem endsWith_join_good (c : Nat) (l : List Str) (hne : l ≠ []) (h : ∀ e ∈ l, GoodPiece c e) :
    endsWith (join [c] l) [c] = false := by
  obtain ⟨pre, x, hp, hx⟩ := getLast_join_good c l hne h
  rw [hp, endsWith_snoc]; simp; exact fun e => hx e.symm


/-- the value as written in the table: optional leading / trailing delimiter around a good piece -/
def flagged (c : Nat) (pre app : Bool) (v : Str) : Str :=
  (if pre then [c] else []) ++ v ++ (if app then [c] else [])

theorem applyL_fwd_ne (append : Bool) (v : Str) (old : List Str) : applyL append true [v] old ≠ [] := by
  intro h
  have : v ∈ applyL append true [v] old := by
    unfold applyL; rw [mem_uniq]; cases append <;> simp [appendL, prependL]
  rw [h] at this; exact absurd this (by simp)

theorem applyL_good (c : Nat) (append fwd : Bool) (v : Str) (oldl : List Str)
    (hold : ∀ e ∈ oldl, GoodPiece c e) (hv : GoodPiece c v) :
    ∀ e ∈ applyL append fwd [v] oldl, GoodPiece c e := by
  intro e he
  rcases applyL_mem append fwd v oldl e he with h | h
  · subst h; exact hv
  · exact hold e h

set_option maxRecDepth 2000 in
theorem envPrepend_lifts_flags (c : Nat) (hc : c ≠ 36) (append pre app : Bool) (var v : Str)
    (oldl : List Str) (env : Env)
    (hold : ∀ e ∈ oldl, GoodPiece c e) (hv : GoodPiece c v)
    (henv : (env.get var).getD [] = join [c] oldl) :
    envPrepend append true var (flagged c pre app v) [c] env
      = .ok (env.set var (flagged c pre app (join [c] (applyL append true [v] oldl)))) := by
  have hgoodL := applyL_good c append true v oldl hold hv
  have hneL := applyL_fwd_ne append v oldl
  have hsw := startsWith_join_good c _ hneL hgoodL
  have hew := endsWith_join_good c _ hneL hgoodL
  have hsplitv : split [c] v = [v] := by
    have := split_join c [v] (by simp) (by intro e he; simp at he; subst he; exact hv.2.1)
    simpa [join] using this
  have hnd : (36 : Nat) ∉ join [c] (applyL append true [v] oldl) :=
    not_mem_join c 36 _ (Ne.symm hc) (fun e he => (hgoodL e he).2.2)
  have hnd' : (36 : Nat) ∉ flagged c pre app (join [c] (applyL append true [v] oldl)) := by
    unfold flagged; cases pre <;> cases app <;> simp [hnd, Ne.symm hc]
  have hvne : v ≠ [] := hv.1
  -- the three pieces of bookkeeping on the written value
  have h1 : startsWith (flagged c pre app v) [c] = pre := by
    cases pre
    · cases app
      · simpa [flagged] using startsWith_good c v hv
      · obtain ⟨x, xs, rfl⟩ : ∃ x xs, v = x :: xs := by
          cases v with | nil => exact absurd rfl hvne | cons x xs => exact ⟨x, xs, rfl⟩
        have hx : (c == x) = false := by simp; intro e; exact hv.2.1 (by simp [e])
        simp [flagged, startsWith, List.isPrefixOf, hx]
    · simp [flagged, startsWith, List.isPrefixOf]
  have h2 : (if pre then (flagged c pre app v).drop 1 else flagged c pre app v) = flagged c false app v := by
    cases pre <;> simp [flagged]
  have h3 : endsWith (flagged c false app v) [c] = app := by
    cases app
    · simpa [flagged] using endsWith_good c v hv
    · simp [flagged, endsWith, List.isPrefixOf]
  have h4 : (if app then (flagged c false app v).take ((flagged c false app v).length - 1) else flagged c false app v) = v := by
    cases app <;> simp [flagged]
  unfold envPrepend
  simp only [h1, List.length_singleton, h2, h3, h4, henv]
  simp only [expand_no_dollar env v hv.2.2, interp_no_dollar env _ v hv.2.2, hsplitv]
  have hflt : List.filter (fun el => decide (el ≠ [])) (split [c] (join [c] oldl)) = oldl := by
    have := split_join_filter c oldl hold
    simpa using this
  rw [hflt]
  obtain ⟨p, x, hp, hx⟩ := getLast_join_good c _ hneL hgoodL
  have hew2 : endsWith (c :: join [c] (applyL append true [v] oldl)) [c] = false := by
    rw [hp, ← List.cons_append, endsWith_snoc]; simp; exact fun e => hx e.symm
  have hc' : (36 : Nat) ≠ c := Ne.symm hc
  let J := join [c] (applyL append true [v] oldl)
  have a1 : (36 : Nat) ∉ c :: J := by simp [hc', J, hnd]
  have a2 : (36 : Nat) ∉ J ++ [c] := by simp [hc', J, hnd]
  have a3 : (36 : Nat) ∉ c :: (J ++ [c]) := by simp [hc', J, hnd]
  cases pre <;> cases app
  · simp [flagged, hsw, hew]
  · simp [flagged, hsw, hew]
  · simp [flagged, hsw, hew, hew2]
  · simp [flagged, hsw, hew, hew2]


end EupsModel.PathAlg
