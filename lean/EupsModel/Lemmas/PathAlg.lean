import EupsModel.Model.PathAlg
/-! Helper lemmas for C12 (list layer and `split`/`join`). -/
namespace EupsModel.PathAlg
section
variable {α : Type} [DecidableEq α]

theorem mem_uniq (l : List α) (a : α) : a ∈ uniq l ↔ a ∈ l := by
  induction l with
  | nil => simp [uniq]
  | cons x xs ih =>
    simp only [uniq, List.mem_cons, List.mem_filter, ih]
    by_cases h : a = x <;> simp [h]

theorem uniq_nodup (l : List α) : (uniq l).Nodup := by
  induction l with
  | nil => simp [uniq]
  | cons x xs ih =>
    simp only [uniq, List.nodup_cons, List.mem_filter]
    exact ⟨by simp, ih.filter _⟩

theorem filter_uniq (p : α → Bool) (l : List α) : (uniq l).filter p = uniq (l.filter p) := by
  induction l with
  | nil => simp [uniq]
  | cons x xs ih =>
    simp only [uniq, List.filter_cons]
    split
    · simp only [uniq, ← ih, List.filter_filter]
      congr 1
      apply List.filter_congr; intro a _; simp [Bool.and_comm]
    · rename_i hx
      rw [← ih, List.filter_filter]
      apply List.filter_congr
      intro a _
      by_cases h : a = x
      · subst h; simp [hx]
      · simp [h]

theorem uniq_idem (l : List α) : uniq (uniq l) = uniq l := by
  induction l with
  | nil => simp [uniq]
  | cons x xs ih => simp only [uniq]; rw [← filter_uniq, ih]; simp [List.filter_filter]

theorem uniq_of_nodup (l : List α) (h : l.Nodup) : uniq l = l := by
  induction l with
  | nil => simp [uniq]
  | cons x xs ih =>
    have hx : x ∉ xs := (List.nodup_cons.mp h).1
    simp only [uniq, ih (List.nodup_cons.mp h).2]
    congr 1
    apply List.filter_eq_self.mpr
    intro a ha
    simp
    intro e; exact hx (e ▸ ha)

theorem uniq_append_singleton (v : α) (xs : List α) (h : v ∉ xs) : uniq (xs ++ [v]) = uniq xs ++ [v] := by
  induction xs with
  | nil => simp [uniq]
  | cons x xs ih =>
    have hx : v ≠ x := fun e => h (by simp [e])
    have hxs : v ∉ xs := fun e => h (by simp [e])
    simp [uniq, ih hxs, List.filter_append, hx]

end
end EupsModel.PathAlg
