import EupsModel.Lemmas.LockPathR
/-! C09, repaired protocol, several stacks — `MutexM` in every reachable state, for paths without repeated elements,
with and without signals. -/
namespace EupsModel.LockPathR
open EupsModel.Lock (Pid Kind Err)
open EupsModel.LockR

theorem mutexM_of (S : PSt) (hinv : ∀ d, Inv (S.comp d)) (hheld : ∀ p, Held S p) : MutexM S := by
  intro d p q hpq hnr hp hq hdp hdq hh hk
  -- q is in its body, so it holds every stack of its path, d among them
  have hqh : (S.comp d).pc q = .hold := by
    have hheld := hheld q
    unfold Held at hheld
    cases hc : S.ctl q with
    | body n reg =>
      simp only [hc] at hheld
      obtain ⟨j, hj⟩ := List.getElem?_of_mem hdq
      have hjn : j < (S.path q).length := by
        apply Classical.byContradiction
        intro hlt
        rw [List.getElem?_eq_none (Nat.le_of_not_lt hlt)] at hj; cases hj
      exact hheld.2 j d (by omega) hj
    | acq k => simp [hc, inBodyM] at hq
    | unw a b c => simp [hc, inBodyM] at hq
    | rel a b c e => simp [hc, inBodyM] at hq
    | fin o => simp [hc, inBodyM] at hq
  exact (hinv d).excl p q hpq hh hqh hnr (Or.inl hk)

theorem mutexM_mrun (kind : Pid → Kind) (lp : Pid → Option Pid) (tries : Pid → Nat)
    (path : Pid → List Dir) (explicit : Pid → Bool) (hnd : ∀ p, (path p).Nodup) (sched : List Pid) :
    MutexM (mrun (minit kind lp tries path explicit) sched) :=
  mutexM_of _ (inv_mrun _ sched (fun _ => inv_init kind lp tries))
    (held_mrun _ sched hnd (fun p => held_minit kind lp tries path explicit p))

theorem mutexM_mrunE (kind : Pid → Kind) (lp : Pid → Option Pid) (tries : Pid → Nat)
    (path : Pid → List Dir) (explicit : Pid → Bool) (hnd : ∀ p, (path p).Nodup) (evs : List MEv) :
    MutexM (mrunE (minit kind lp tries path explicit) evs) :=
  mutexM_of _ (inv_mrunE _ evs (fun _ => inv_init kind lp tries))
    (held_mrunE _ evs hnd (fun p => held_minit kind lp tries path explicit p))

/-- a command in its body holds its lock on every stack of its path (distinct elements), signals included -/
theorem body_holds (kind : Pid → Kind) (lp : Pid → Option Pid) (tries : Pid → Nat)
    (path : Pid → List Dir) (explicit : Pid → Bool) (hnd : ∀ p, (path p).Nodup) (evs : List MEv) (p : Pid) (d : Dir)
    (hb : inBodyM ((mrunE (minit kind lp tries path explicit) evs).ctl p) = true) (hd : d ∈ path p) :
    ((mrunE (minit kind lp tries path explicit) evs).comp d).pc p = .hold ∧
    (kind p, p) ∈ ((mrunE (minit kind lp tries path explicit) evs).comp d).files := by
  have hheld := held_mrunE (minit kind lp tries path explicit) evs hnd
    (fun p => held_minit kind lp tries path explicit p) p
  have hinv := inv_mrunE (minit kind lp tries path explicit) evs (fun _ => inv_init kind lp tries) d
  have hpath := mrunE_path (minit kind lp tries path explicit) evs
  have hkind : ((mrunE (minit kind lp tries path explicit) evs).comp d).kind p = kind p := by
    obtain ⟨sd, hsd⟩ := mrunE_comp_is_run (minit kind lp tries path explicit) evs d
    rw [hsd]; simp [minit, init]
  generalize mrunE (minit kind lp tries path explicit) evs = S at *
  have hdp : d ∈ S.path p := by rw [hpath]; exact hd
  have hh : (S.comp d).pc p = .hold := by
    unfold Held at hheld
    cases hc : S.ctl p with
    | body n reg =>
      simp only [hc] at hheld
      obtain ⟨j, hj⟩ := List.getElem?_of_mem hdp
      have hjn : j < (S.path p).length := by
        apply Classical.byContradiction
        intro hlt
        rw [List.getElem?_eq_none (Nat.le_of_not_lt hlt)] at hj; cases hj
      exact hheld.2 j d (by omega) hj
    | acq k => simp [hc, inBodyM] at hb
    | unw a b c => simp [hc, inBodyM] at hb
    | rel a b c e => simp [hc, inBodyM] at hb
    | fin o => simp [hc, inBodyM] at hb
  refine ⟨hh, ?_⟩
  have := hinv.own p (by simp [hh, hasFile])
  rwa [hkind] at this

end EupsModel.LockPathR
