import EupsModel.Model.VroC10
import EupsModel.Props.C10
/-! C10's comparator satisfies the order hypotheses of the C03 theorems on conventional names. -/
namespace EupsModel.Vro
open EupsModel.VersionCmp EupsModel.C10

theorem c10Cmp_eq {a b : Str} {r : Int} (h : stdCompare false a b = .ok r) : c10Cmp a b = r := by
  simp [c10Cmp, h]

/-- reflexive, sign-antisymmetric and transitive on conventional names: `C10_refl`, `C10_conv_total`,
`C10_conv_trans` -/
theorem c10Cmp_good : GoodOrdOn ConvName c10Cmp where
  refl a ha := by
    obtain ⟨la, hla, _⟩ := convName_lex ha
    rw [c10Cmp_eq (C10_refl false a la hla)]
    omega
  flip a b ha hb h := by
    obtain ⟨r, h1, h2, _⟩ := C10_conv_total a b ha hb
    rw [c10Cmp_eq h1] at h
    rw [c10Cmp_eq h2]
    omega
  trans a b c ha hb hc h1 h2 := by
    obtain ⟨r1, e1, _, _⟩ := C10_conv_total a b ha hb
    obtain ⟨r2, e2, _, _⟩ := C10_conv_total b c hb hc
    rw [c10Cmp_eq e1] at h1
    rw [c10Cmp_eq e2] at h2
    obtain ⟨r3, e3, h3, _⟩ := C10_conv_trans a b c ha hb hc r1 r2 e1 e2 h1 h2
    rw [c10Cmp_eq e3]
    exact h3

end EupsModel.Vro
