import EupsModel.Model.VersionCmp
import EupsModel.Lemmas.Order
/-! Lemmas about the version comparator (C10): reflexivity and antisymmetry of every layer
(components, component lists in both modes, lexed names), the general unfolding equation of
`cmpSort`, agreement of the strict with the sorting mode. -/
set_option linter.unusedVariables false
set_option linter.unusedSimpArgs false
namespace EupsModel.VersionCmp
open EupsModel

/-! ## integers and strings -/

theorem cmpInt_self (a : Int) : cmpInt a a = 0 := by simp [cmpInt]
theorem cmpInt_antisym (a b : Int) : cmpInt a b = - cmpInt b a := by
  simp only [cmpInt]; split <;> split <;> (try split) <;> (try split) <;> omega

theorem strCmp_self (s : Str) : Str.cmp s s = 0 := by
  induction s with
  | nil => rfl
  | cons a as ih => simp [Str.cmp, ih]

theorem strCmp_antisym (s t : Str) : Str.cmp s t = - Str.cmp t s := by
  induction s generalizing t with
  | nil => cases t <;> simp [Str.cmp]
  | cons a as ih =>
    cases t with
    | nil => simp [Str.cmp]
    | cons b bs =>
      simp only [Str.cmp]
      split <;> split <;> (try split) <;> (try split) <;> first | omega | exact ih bs

theorem strCmp_eq_zero {s t : Str} (h : Str.cmp s t = 0) : s = t := by
  induction s generalizing t with
  | nil => cases t with
    | nil => rfl
    | cons b bs => simp [Str.cmp] at h
  | cons a as ih =>
    cases t with
    | nil => simp [Str.cmp] at h
    | cons b bs =>
      simp only [Str.cmp] at h
      split at h
      · omega
      · split at h
        · omega
        · have : a = b := by omega
          rw [this, ih h]

/-- a proper prefix sorts first -/
theorem strCmp_prefix_lt {s t : Str} (h : s <+: t) (hne : s ≠ t) : Str.cmp s t = -1 := by
  induction s generalizing t with
  | nil => cases t with
    | nil => exact absurd rfl hne
    | cons b bs => rfl
  | cons a as ih =>
    cases t with
    | nil => simp at h
    | cons b bs =>
      have hh := List.cons_prefix_cons.mp h
      obtain ⟨rfl, htl⟩ := hh
      simp only [Str.cmp, Nat.lt_irrefl, if_false]
      exact ih htl (fun e => hne (by rw [e]))

theorem mem_takeWhile_pos {α} {p : α → Bool} {l : List α} {x : α} (h : x ∈ l.takeWhile p) : p x = true := by
  induction l with
  | nil => simp at h
  | cons a as ih =>
    simp only [List.takeWhile] at h
    split at h
    · rename_i hp
      rcases List.mem_cons.mp h with rfl | h'
      · exact hp
      · exact ih h'
    · simp at h

/-! ## the integer test of the component loop is symmetric -/

theorem allDigits_ne_nil {d : Str} (h : allDigits d = true) : d ≠ [] := by
  intro e; subst e; simp [allDigits] at h

theorem allDigits_head {d : Str} (h : allDigits d = true) : ∃ c cs, d = c :: cs ∧ isDig c = true := by
  cases d with
  | nil => simp [allDigits] at h
  | cons c cs => exact ⟨c, cs, rfl, by simp [allDigits] at h; exact h.1⟩

/-- what `pdSplit` recognises: a non-empty digit-free prefix followed by a non-empty run of digits -/
theorem pdSplit_eq_some {x p d : Str} (h : pdSplit x = some (p, d)) :
    x = p ++ d ∧ p ≠ [] ∧ (∀ c ∈ p, isDig c = false) ∧ allDigits d = true := by
  simp only [pdSplit] at h
  split at h
  · rename_i hc
    simp only [Option.some.injEq, Prod.mk.injEq] at h
    obtain ⟨hp, hd⟩ := h
    simp only [Bool.and_eq_true, Bool.not_eq_true', List.isEmpty_eq_false_iff] at hc
    refine ⟨?_, ?_, ?_, ?_⟩
    · rw [← hp, ← hd]; exact (List.takeWhile_append_dropWhile).symm
    · rw [← hp]; exact hc.1
    · intro c hc'
      rw [← hp] at hc'
      have := mem_takeWhile_pos hc'
      simpa using this
    · rw [← hd]; exact hc.2
  · simp at h

theorem pdSplit_append {p d : Str} (hp : p ≠ []) (hnd : ∀ c ∈ p, isDig c = false) (hd : allDigits d = true) :
    pdSplit (p ++ d) = some (p, d) := by
  obtain ⟨c, cs, rfl, hc⟩ := allDigits_head hd
  have htw : (p ++ c :: cs).takeWhile (fun c => !isDig c) = p := by
    rw [List.takeWhile_append_of_pos (by intro a ha; simp [hnd a ha])]
    simp [List.takeWhile, hc]
  have hdw : (p ++ c :: cs).dropWhile (fun c => !isDig c) = c :: cs := by
    rw [List.dropWhile_append_of_pos (by intro a ha; simp [hnd a ha])]
    simp [List.dropWhile, hc]
  simp only [pdSplit, htw, hdw, hd]
  cases p with
  | nil => exact absurd rfl hp
  | cons a as => simp

theorem matchesPD_iff {p y : Str} : matchesPD p y = true ↔ ∃ d, y = p ++ d ∧ allDigits d = true := by
  simp only [matchesPD, Bool.and_eq_true]
  constructor
  · rintro ⟨h1, h2⟩
    have := List.isPrefixOf_iff_prefix.mp h1
    obtain ⟨t, rfl⟩ := this
    refine ⟨t, rfl, ?_⟩
    simpa using h2
  · rintro ⟨d, rfl, hd⟩
    refine ⟨List.isPrefixOf_iff_prefix.mpr (List.prefix_append p d), ?_⟩
    simpa using hd

/-- the common-prefix branch, as a function -/
def pdMatch (x y : Str) : Option (Int × Int) :=
  match pdSplit x with
  | some (p, d) => if matchesPD p y then some (Int.ofNat (Str.toNat d), Int.ofNat (Str.toNat (y.drop p.length))) else none
  | none => none

theorem compInts_eq (x y : Str) : compInts x y =
    match pdMatch x y with
    | some r => some r
    | none => match parseInt x, parseInt y with
      | some a, some b => some (a, b)
      | _, _ => none := by
  rfl

theorem pdMatch_symm {x y : Str} {a b : Int} (h : pdMatch x y = some (a, b)) : pdMatch y x = some (b, a) := by
  simp only [pdMatch] at h
  split at h
  · rename_i p d hs
    split at h
    · rename_i hm
      simp only [Option.some.injEq, Prod.mk.injEq] at h
      obtain ⟨hx, hp, hnd, hd⟩ := pdSplit_eq_some hs
      obtain ⟨d', hy, hd'⟩ := matchesPD_iff.mp hm
      have hsy : pdSplit y = some (p, d') := by rw [hy]; exact pdSplit_append hp hnd hd'
      have hmx : matchesPD p x = true := matchesPD_iff.mpr ⟨d, hx, hd⟩
      simp only [pdMatch, hsy, hmx, if_true]
      have e1 : y.drop p.length = d' := by rw [hy]; simp
      have e2 : x.drop p.length = d := by rw [hx]; simp
      rw [e1] at h
      rw [e2, ← h.1, ← h.2]
    · simp at h
  · simp at h

theorem pdMatch_none_symm {x y : Str} (h : pdMatch x y = none) : pdMatch y x = none := by
  cases h' : pdMatch y x with
  | none => rfl
  | some r =>
    obtain ⟨b, a⟩ := r
    rw [pdMatch_symm h'] at h
    simp at h

theorem pdMatch_self {x : Str} {a b : Int} (h : pdMatch x x = some (a, b)) : a = b := by
  have := pdMatch_symm h
  rw [h] at this
  simp only [Option.some.injEq, Prod.mk.injEq] at this
  exact this.1

theorem compInts_symm {x y : Str} {a b : Int} (h : compInts x y = some (a, b)) : compInts y x = some (b, a) := by
  rw [compInts_eq] at h ⊢
  cases hm : pdMatch x y with
  | some r =>
    obtain ⟨a', b'⟩ := r
    rw [hm] at h
    simp only [Option.some.injEq, Prod.mk.injEq] at h
    rw [pdMatch_symm hm]
    simp [h.1, h.2]
  | none =>
    rw [hm] at h
    rw [pdMatch_none_symm hm]
    cases hx : parseInt x <;> cases hy : parseInt y <;> simp [hx, hy] at h ⊢
    exact ⟨h.2, h.1⟩

theorem compInts_none_symm {x y : Str} (h : compInts x y = none) : compInts y x = none := by
  cases h' : compInts y x with
  | none => rfl
  | some r =>
    obtain ⟨b, a⟩ := r
    rw [compInts_symm h'] at h
    simp at h

theorem compInts_self {x : Str} {a b : Int} (h : compInts x x = some (a, b)) : a = b := by
  have := compInts_symm h
  rw [h] at this
  simp only [Option.some.injEq, Prod.mk.injEq] at this
  exact this.1

/-! ## one component -/

theorem cmpComp_self (x : Str) : (cmpComp x x).1 = 0 := by
  simp only [cmpComp]
  cases h : compInts x x with
  | none => simp [strCmp_self]
  | some r =>
    obtain ⟨a, b⟩ := r
    have := compInts_self h
    subst this
    simp [cmpInt_self]

theorem cmpComp_symm (x y : Str) : (cmpComp y x).1 = - (cmpComp x y).1 ∧ (cmpComp y x).2 = (cmpComp x y).2 := by
  simp only [cmpComp]
  cases h : compInts x y with
  | none =>
    rw [compInts_none_symm h]
    exact ⟨strCmp_antisym y x, rfl⟩
  | some r =>
    obtain ⟨a, b⟩ := r
    rw [compInts_symm h]
    exact ⟨cmpInt_antisym b a, rfl⟩

theorem cmpC_self (x : Str) : cmpC x x = 0 := cmpComp_self x
theorem cmpC_antisym (x y : Str) : cmpC x y = - cmpC y x := by
  have := (cmpComp_symm y x).1
  simpa [cmpC] using this

/-- a difference between non-integral components is a difference of the strings -/
theorem cmpComp_ne_of_nonintegral {x y : Str} (h1 : (cmpComp x y).1 ≠ 0) : x ≠ y := by
  intro e; subst e; exact h1 (cmpComp_self x)

/-! ## component lists -/

theorem cmpComps_self (l : List Str) : cmpComps l l = 0 := by
  induction l with
  | nil => rfl
  | cons a as ih => simp [cmpComps, cmpC_self, ih]

theorem cmpComps_antisym (l m : List Str) : cmpComps l m = - cmpComps m l := by
  induction l generalizing m with
  | nil => cases m <;> simp [cmpComps]
  | cons a as ih =>
    cases m with
    | nil => simp [cmpComps]
    | cons b bs =>
      have hab := cmpC_antisym a b
      simp only [cmpComps]
      by_cases h : cmpC a b = 0
      · have : cmpC b a = 0 := by omega
        simp [h, this, ih bs]
      · have : cmpC b a ≠ 0 := by omega
        simp [h, this, hab]

theorem isPrefixOf_antisymm {x y : Str} (h1 : x.isPrefixOf y = true) (h2 : y.isPrefixOf x = true) : x = y := by
  have p1 := List.isPrefixOf_iff_prefix.mp h1
  have p2 := List.isPrefixOf_iff_prefix.mp h2
  exact List.IsPrefix.eq_of_length_le p1 p2.length_le

theorem cmpCompsStrict_self (l : List Str) : cmpCompsStrict l l = .ok 0 := by
  induction l with
  | nil => rfl
  | cons a as ih => simp [cmpCompsStrict, cmpComp_self, ih]

/-- strict mode: an answer is negated by swapping the arguments, an error stays the same error -/
theorem cmpCompsStrict_symm (l m : List Str) :
    cmpCompsStrict m l = (match cmpCompsStrict l m with | .ok r => .ok (-r) | .error e => .error e) := by
  induction l generalizing m with
  | nil => cases m <;> simp [cmpCompsStrict]
  | cons a as ih =>
    cases m with
    | nil => simp [cmpCompsStrict]
    | cons b bs =>
      obtain ⟨h1, h2⟩ := cmpComp_symm a b
      simp only [cmpCompsStrict]
      by_cases h : (cmpComp a b).1 = 0
      · have h' : (cmpComp b a).1 = 0 := by omega
        simp only [h, h', ne_eq, not_true_eq_false, if_false]
        exact ih bs
      · have h' : (cmpComp b a).1 ≠ 0 := by omega
        simp only [h, h', ne_eq, not_false_eq_true, if_true, h2]
        cases hi : (cmpComp a b).2 with
        | true => simp [h1]
        | false =>
          have hne : a ≠ b := cmpComp_ne_of_nonintegral h
          have hor : (bs.isEmpty || as.isEmpty) = (as.isEmpty || bs.isEmpty) := Bool.or_comm _ _
          simp only [hor, Bool.false_eq_true, if_false]
          cases hl : (as.isEmpty || bs.isEmpty) with
          | false => simp
          | true =>
            simp only [if_true]
            cases hab : a.isPrefixOf b <;> cases hba : b.isPrefixOf a <;> simp
            exact hne (isPrefixOf_antisymm hab hba)

/-- when the strict loop answers, it answers what the sorting loop answers -/
theorem cmpCompsStrict_agrees {l m : List Str} {r : Int} (h : cmpCompsStrict l m = .ok r) : cmpComps l m = r := by
  induction l generalizing m with
  | nil => cases m <;> simp [cmpCompsStrict] at h <;> simp [cmpComps, h]
  | cons a as ih =>
    cases m with
    | nil => simp [cmpCompsStrict] at h; simp [cmpComps, h]
    | cons b bs =>
      simp only [cmpCompsStrict] at h
      simp only [cmpComps, cmpC]
      by_cases hz : (cmpComp a b).1 = 0
      · simp only [hz, ne_eq, not_true_eq_false, if_false] at h ⊢
        exact ih h
      · simp only [hz, ne_eq, not_false_eq_true, if_true] at h ⊢
        cases hi : (cmpComp a b).2 with
        | true => simp [hi] at h; exact h
        | false =>
          -- not integral: the answer is the string comparison, and a proper prefix is smaller
          have hs : (cmpComp a b).1 = Str.cmp a b := by
            simp only [cmpComp] at hi ⊢
            cases hc : compInts a b with
            | none => rfl
            | some r => obtain ⟨u, v⟩ := r; simp [hc] at hi
          simp only [hi, Bool.false_eq_true, if_false] at h
          rw [hs] at hz ⊢
          split at h
          · split at h
            · rename_i hp
              simp only [Except.ok.injEq] at h
              rw [← h]
              exact strCmp_prefix_lt (List.isPrefixOf_iff_prefix.mp hp) (fun e => hz (by rw [e, strCmp_self]))
            · split at h
              · rename_i hp
                simp only [Except.ok.injEq] at h
                rw [← h]
                have := strCmp_prefix_lt (List.isPrefixOf_iff_prefix.mp hp) (fun e => hz (by rw [e, strCmp_self]))
                rw [strCmp_antisym, this]; rfl
              · simp at h
          · simp at h

/-! ## lexed names -/

/-- the secondary parts: compared when both are there, an absent one is later than a present one -/
def secCmp (s s' : Lexed) : Int := Order.absentTop Lexed.present cmpSort s s'

theorem secTer_eq (a b : Lexed) :
    secTer a b = if secCmp a.sec b.sec ≠ 0 then secCmp a.sec b.sec else cmpSort a.ter b.ter := by
  simp only [secTer, secCmp, Order.absentTop]
  rcases Bool.eq_false_or_eq_true a.sec.present with ha | ha <;>
    rcases Bool.eq_false_or_eq_true b.sec.present with hb | hb <;> simp [ha, hb]

theorem comps_absent : Lexed.absent.comps = [[]] := rfl

/-- The general equation of the comparator: component loop first, then the secondary and tertiary
parts; an absent part behaves as the name with primary `""` (this is `_splitVersion(None)`). -/
theorem cmpSort_unfold (a b : Lexed) :
    cmpSort a b = if cmpComps a.comps b.comps ≠ 0 then cmpComps a.comps b.comps else secTer a b := by
  cases a with
  | node p s t => rw [cmpSort]; rfl
  | absent =>
    cases b with
    | absent => simp [cmpSort, cmpAbsent, secTer, Lexed.comps, Lexed.prim, Lexed.sec, Lexed.ter, Lexed.present,
        splitSep, cmpComps, cmpC_self]
    | node p s t =>
      simp only [cmpSort, cmpAbsent, secTer, Lexed.comps, Lexed.prim, Lexed.sec, Lexed.ter, splitSep]
      cases s <;> simp [Lexed.present]

theorem cmpSort_self (a : Lexed) : cmpSort a a = 0 := by
  induction a with
  | absent => simp [cmpSort, cmpAbsent]
  | node p s t ihs iht =>
    rw [cmpSort_unfold, secTer_eq]
    simp only [cmpComps_self, Lexed.sec, Lexed.ter, secCmp, Order.absentTop, ihs, iht]
    rcases Bool.eq_false_or_eq_true s.present with h | h <;> simp [h]

theorem secTer_antisym_of {a b : Lexed} (hs : cmpSort a.sec b.sec = - cmpSort b.sec a.sec)
    (ht : cmpSort a.ter b.ter = - cmpSort b.ter a.ter) : secTer a b = - secTer b a := by
  rw [secTer_eq, secTer_eq]
  simp only [secCmp, Order.absentTop]
  rcases Bool.eq_false_or_eq_true a.sec.present with ha | ha <;>
    rcases Bool.eq_false_or_eq_true b.sec.present with hb | hb <;>
    simp only [ha, hb, Bool.and_self, Bool.and_false, Bool.false_and,
      Bool.and_true, Bool.false_eq_true, if_false, if_true, ne_eq, not_true_eq_false, not_false_eq_true] <;>
    first
    | exact ht
    | (simp; done)
    | (rw [hs, ht]; by_cases h : cmpSort b.sec a.sec = 0 <;> simp [h])

theorem cmpSort_antisym_of {a b : Lexed} (hs : cmpSort a.sec b.sec = - cmpSort b.sec a.sec)
    (ht : cmpSort a.ter b.ter = - cmpSort b.ter a.ter) : cmpSort a b = - cmpSort b a := by
  rw [cmpSort_unfold a b, cmpSort_unfold b a, secTer_antisym_of hs ht, cmpComps_antisym a.comps b.comps]
  by_cases h : cmpComps b.comps a.comps = 0 <;> simp [h]

theorem cmpSort_absent_antisym (b : Lexed) : cmpSort .absent b = - cmpSort b .absent := by
  induction b with
  | absent => simp [cmpSort, cmpAbsent]
  | node p s t ihs iht => exact cmpSort_antisym_of (a := .absent) (b := .node p s t) ihs iht

theorem cmpSort_antisym (a b : Lexed) : cmpSort a b = - cmpSort b a := by
  induction a generalizing b with
  | absent => exact cmpSort_absent_antisym b
  | node p s t ihs iht => exact cmpSort_antisym_of (ihs b.sec) (iht b.ter)

theorem secTer_self (a : Lexed) : secTer a a = 0 := by
  rw [secTer_eq]
  simp only [secCmp, Order.absentTop, cmpSort_self]
  rcases Bool.eq_false_or_eq_true a.sec.present with h | h <;> simp [h]

theorem secTer_antisym (a b : Lexed) : secTer a b = - secTer b a :=
  secTer_antisym_of (cmpSort_antisym _ _) (cmpSort_antisym _ _)

theorem cmpStrict_self (a : Lexed) : cmpStrict a a = .ok 0 := by
  simp [cmpStrict, cmpCompsStrict_self, secTer_self]

theorem cmpStrict_symm (a b : Lexed) :
    cmpStrict b a = (match cmpStrict a b with | .ok r => .ok (-r) | .error e => .error e) := by
  simp only [cmpStrict]
  rw [cmpCompsStrict_symm a.comps b.comps]
  cases h : cmpCompsStrict a.comps b.comps with
  | error e => rfl
  | ok c =>
    by_cases hc : c = 0
    · subst hc; simp [secTer_antisym b a]
    · have : -c ≠ 0 := by omega
      simp [hc, this]

theorem cmpStrict_agrees {a b : Lexed} {r : Int} (h : cmpStrict a b = .ok r) : cmpSort a b = r := by
  simp only [cmpStrict] at h
  rw [cmpSort_unfold]
  cases hc : cmpCompsStrict a.comps b.comps with
  | error e => simp [hc] at h
  | ok c =>
    rw [hc] at h
    have := cmpCompsStrict_agrees hc
    rw [this]
    by_cases hz : c = 0
    · simp [hz] at h ⊢; exact h
    · simp [hz] at h ⊢; exact h

end EupsModel.VersionCmp
