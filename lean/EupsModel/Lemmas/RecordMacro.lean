import EupsModel.Lemmas.Record
/-! `Product.resolvePaths` on hand-written records that use the macros `$PROD_ROOT`, `$UPS_DB`, `$PROD_DIR`, `$UPS_DIR`
and `$FLAVOR` (C16): the function split into its four phases, what each phase does to a macro expression, and the
composition. -/
set_option linter.unusedSimpArgs false
set_option linter.unusedVariables false
namespace EupsModel.Record

/-! ## `resolvePaths` in phases -/

/-- product directory (Product.py l.170-186) -/
def dirPhase (root : Path) (m : Macros) (pdir : PVal) : PVal × Macros :=
  match pdir with
  | .path d =>
    if !d.abs then
      let d := if !isMacroPath d then root.join d else d
      let d := resolveMacros m false d
      (PVal.path d, { m with prodDir := some d })
    else (pdir, m)
  | _ => (pdir, m)

/-- ups directory (l.188-207) -/
def upsPhase (m : Macros) (dir pups : PVal) : Except Err (PVal × Macros) :=
  match pups with
  | .path u =>
    if !u.abs then
      let uj : Except Err Path :=
        if !isMacroPath u then
          match dir with
          | .null => .ok u
          | .ph s => if s = sNone then .ok u else .error .unmodelled
          | .path d => .ok (d.join u)
        else .ok u
      match uj with
      | .error e => .error e
      | .ok u =>
        let u := resolveMacros m false u
        .ok (PVal.path u, { m with upsDir := some u })
    else .ok (pups, m)
  | _ => .ok (pups, m)

/-- table file (l.209-252) -/
def tabPhase (ex : Path → Bool) (root : Path) (m : Macros) (name : Str) (dir upsDir ptable : PVal) : PVal × PVal :=
  let table := if ptable = .null && !name.isEmpty && (dir.isReal || upsDir.isReal)
    then PVal.path (tableName name) else ptable
  match table with
  | .path t =>
    if !t.abs then
      let (t, upsDir) :=
        if !isMacroPath t then
          let upsDir := match upsDir, dir with
            | .null, .path d => PVal.path (d.join (Path.rel [sUps]))
            | u, _ => u
          match upsDir with
          | .path u =>
            let nt := u.join t
            let n2 := root.join t
            ((if ex nt then nt else if ex n2 then n2 else nt), upsDir)
          | _ =>
            match dir with
            | .path d => (d.join t, upsDir)
            | _ => (t, upsDir)
        else (t, upsDir)
      (PVal.path (resolveMacros m false t), upsDir)
    else (table, upsDir)
  | _ => (table, upsDir)

/-- "one last try" (l.254-266) -/
def lastPhase (m : Macros) (dir table : PVal) : PVal × PVal :=
  let (dir, m) := match dir with
    | .path d => if hasDollar d then
        let d := resolveMacros m true d
        (PVal.path d, { m with prodDir := some d })
      else (dir, m)
    | _ => (dir, m)
  let table := match table with
    | .path t => if hasDollar t then PVal.path (resolveMacros m false t) else table
    | _ => table
  (dir, table)

theorem resolvePaths_phases (ex : Path → Bool) (p : Prod) :
    resolvePaths ex p =
      (let root := stackRoot p.db
       let m0 : Macros := { flavor := p.flavor, prodRoot := root, upsDb := p.db }
       let (dir, m) := dirPhase root m0 p.dir
       match upsPhase m dir p.upsDir with
       | .error e => .error e
       | .ok (upsDir, m) =>
         let (table, upsDir) := tabPhase ex root m p.name dir upsDir p.table
         let (dir, table) := lastPhase m dir table
         .ok { p with dir := dir, table := table, upsDir := upsDir }) := by
  obtain ⟨name, version, flavor, dir, table, upsDir, db⟩ := p
  cases dir <;> cases upsDir <;> cases table <;> rfl

/-! ## Macro expressions and what they stand for -/

/-- a segment of a hand-written path: a `$`-free literal, or the macro `$FLAVOR` -/
def MSegOK (s : Str) : Prop := SegOK s ∨ s = mFLAVOR
def MSegs (l : List Str) : Prop := ∀ s ∈ l, MSegOK s
instance (s : Str) : Decidable (MSegOK s) := by unfold MSegOK; infer_instance
instance (l : List Str) : Decidable (MSegs l) := by unfold MSegs; infer_instance

/-- what a segment stands for when the reader's flavor is `f` -/
def dseg (f s : Str) : Str := if s = mFLAVOR then f else s
def dsegs (f : Str) (l : List Str) : List Str := l.map (dseg f)

/-- the macro dictionary of `resolvePaths` for a reader whose stack is at `R` -/
def mac (f : Str) (R : List Str) (pd ud : Option Path) : Macros :=
  { flavor := f, prodRoot := ⟨true, R⟩, upsDb := ⟨true, R ++ [sUpsDb]⟩, prodDir := pd, upsDir := ud }

theorem substFlavor_FLAVOR (f : Str) : substFlavor f mFLAVOR = f := by
  simp [substFlavor, substFlavorAux, mFLAVOR]

theorem substFlavor_mseg (f s : Str) (h : MSegOK s) : substFlavor f s = dseg f s := by
  rcases h with h | h
  · have hne : s ≠ mFLAVOR := by
      intro e; subst e; exact h.2.2 (by decide)
    simp [dseg, hne, substFlavor_id f s h.2.2]
  · subst h; simp [dseg, substFlavor_FLAVOR]

theorem map_substFlavor_mseg (f : Str) (l : List Str) (h : MSegs l) : l.map (substFlavor f) = dsegs f l := by
  induction l with
  | nil => rfl
  | cons s r ih =>
    simp only [List.map_cons, dsegs]
    rw [substFlavor_mseg f s (h s (by simp))]
    have := ih (fun t ht => h t (by simp [ht]))
    simp only [dsegs] at this
    rw [this]

theorem No36_dsegs (f : Str) (l : List Str) (hf : 36 ∉ f) (h : MSegs l) : No36 (dsegs f l) := by
  intro s hs
  simp only [dsegs, List.mem_map] at hs
  obtain ⟨t, ht, rfl⟩ := hs
  rcases h t ht with h1 | h1
  · have hne : t ≠ mFLAVOR := by
      intro e; subst e; exact h1.2.2 (by decide)
    simp only [dseg, hne, if_false]
    exact h1.2.2
  · subst h1; simp [dseg, hf]

theorem isMacroPath_mseg (abs : Bool) (segs : List Str) (h : MSegs segs) : isMacroPath ⟨abs, segs⟩ = false := by
  cases segs with
  | nil => simp [isMacroPath, headStartsWith]
  | cons s r =>
    rcases h s (by simp) with hs | hs
    · simp [isMacroPath, headStartsWith, mPROD_, mUPS_, prefix36_false _ _ hs.2.2]
    · subst hs; cases abs <;> simp [isMacroPath, headStartsWith, mPROD_, mUPS_, mFLAVOR, List.isPrefixOf]

theorem substFlavor_prodroot (f : Str) : substFlavor f mPROD_ROOT = mPROD_ROOT := by
  simp [substFlavor, substFlavorAux, mPROD_ROOT, mFLAVOR]
theorem substFlavor_proddir (f : Str) : substFlavor f mPROD_DIR = mPROD_DIR := by
  simp [substFlavor, substFlavorAux, mPROD_DIR, mFLAVOR]
theorem substFlavor_upsdir (f : Str) : substFlavor f mUPS_DIR = mUPS_DIR := by
  simp [substFlavor, substFlavorAux, mUPS_DIR, mFLAVOR]

/-- an absolute path: only `$FLAVOR` is substituted -/
theorem resolveMacros_absm (f : Str) (R : List Str) (pd ud : Option Path) (b : Bool) (base segs : List Str)
    (hf : f ≠ []) (hb : No36 base) (hs : MSegs segs) :
    resolveMacros (mac f R pd ud) b ⟨true, base ++ segs⟩ = ⟨true, base ++ dsegs f segs⟩ := by
  have hfe : f.isEmpty = false := by cases f <;> simp_all
  unfold resolveMacros
  cases b <;> cases pd <;> cases ud <;>
    simp [mac, hfe, substHead, map_substFlavor_id _ _ hb, map_substFlavor_mseg _ _ hs]

theorem resolveMacros_prodRoot (f : Str) (R : List Str) (pd ud : Option Path) (segs : List Str)
    (hf : f ≠ []) (hs : MSegs segs) :
    resolveMacros (mac f R pd ud) false ⟨false, mPROD_ROOT :: segs⟩ = ⟨true, R ++ dsegs f segs⟩ := by
  have hfe : f.isEmpty = false := by cases f <;> simp_all
  unfold resolveMacros
  cases pd <;> cases ud <;>
    simp [mac, hfe, substHead, substFlavor_prodroot, map_substFlavor_mseg _ _ hs]

theorem resolveMacros_upsDb (f : Str) (R : List Str) (pd ud : Option Path) (segs : List Str)
    (hf : f ≠ []) (hs : MSegs segs) :
    resolveMacros (mac f R pd ud) false ⟨false, mUPS_DB :: segs⟩ = ⟨true, R ++ sUpsDb :: dsegs f segs⟩ := by
  have hfe : f.isEmpty = false := by cases f <;> simp_all
  have hne : (mUPS_DB = mPROD_ROOT) = False := by simp [mUPS_DB, mPROD_ROOT]
  unfold resolveMacros
  cases pd <;> cases ud <;>
    simp [mac, hfe, substHead, hne, substFlavor_upsdb, map_substFlavor_mseg _ _ hs]

theorem resolveMacros_prodDir (f : Str) (R : List Str) (ud : Option Path) (d segs : List Str)
    (hf : f ≠ []) (hs : MSegs segs) :
    resolveMacros (mac f R (some ⟨true, d⟩) ud) false ⟨false, mPROD_DIR :: segs⟩ = ⟨true, d ++ dsegs f segs⟩ := by
  have hfe : f.isEmpty = false := by cases f <;> simp_all
  have hne : (mPROD_DIR = mPROD_ROOT) = False := by simp [mPROD_DIR, mPROD_ROOT]
  have hne2 : (mPROD_DIR = mUPS_DB) = False := by simp [mPROD_DIR, mUPS_DB]
  unfold resolveMacros
  cases ud <;>
    simp [mac, hfe, substHead, hne, hne2, substFlavor_proddir, map_substFlavor_mseg _ _ hs]

theorem resolveMacros_upsDir (f : Str) (R : List Str) (pd : Option Path) (u segs : List Str)
    (hf : f ≠ []) (hs : MSegs segs) :
    resolveMacros (mac f R pd (some ⟨true, u⟩)) false ⟨false, mUPS_DIR :: segs⟩ = ⟨true, u ++ dsegs f segs⟩ := by
  have hfe : f.isEmpty = false := by cases f <;> simp_all
  have hne : (mUPS_DIR = mPROD_ROOT) = False := by simp [mUPS_DIR, mPROD_ROOT]
  have hne2 : (mUPS_DIR = mUPS_DB) = False := by simp [mUPS_DIR, mUPS_DB]
  have hne3 : (mUPS_DIR = mPROD_DIR) = False := by simp [mUPS_DIR, mPROD_DIR]
  unfold resolveMacros
  cases pd <;>
    simp [mac, hfe, substHead, hne, hne2, hne3, substFlavor_upsdir, map_substFlavor_mseg _ _ hs]

/-! ## Hand-written entries of a version record -/

/-- `PROD_DIR` as a person writes it -/
inductive MDir where
  | rel (s : List Str)        -- `a/b`            : below the stack
  | prodRoot (s : List Str)   -- `$PROD_ROOT/a/b` : below the stack
  | upsDb (s : List Str)      -- `$UPS_DB/a/b`    : below the database directory
  | abs (s : List Str)        -- `/a/b`           : where it says
  | none                      -- `none`
  deriving DecidableEq, Repr

/-- `UPS_DIR` -/
inductive MUps where
  | rel (s : List Str)        -- `ups`            : below the product directory
  | prodDir (s : List Str)    -- `$PROD_DIR/ups`  : below the product directory
  | prodRoot (s : List Str)
  | upsDb (s : List Str)
  | abs (s : List Str)
  | none                      -- `none`
  | missing                   -- no `UPS_DIR` line (and no `End:` line that would supply `none`)
  deriving DecidableEq, Repr

/-- `TABLE_FILE` -/
inductive MTab where
  | rel (s : List Str)        -- `x.table`           : looked for in the ups directory, then in the stack
  | upsDir (s : List Str)     -- `$UPS_DIR/x.table`
  | prodDir (s : List Str)    -- `$PROD_DIR/ups/x.table`
  | prodRoot (s : List Str)
  | upsDb (s : List Str)
  | abs (s : List Str)
  | none
  deriving DecidableEq, Repr

def MDir.toRec : MDir → PVal
  | .rel s => .path ⟨false, s⟩
  | .prodRoot s => .path ⟨false, mPROD_ROOT :: s⟩
  | .upsDb s => .path ⟨false, mUPS_DB :: s⟩
  | .abs s => .path ⟨true, s⟩
  | .none => .ph sNone

def MUps.toRec : MUps → PVal
  | .rel s => .path ⟨false, s⟩
  | .prodDir s => .path ⟨false, mPROD_DIR :: s⟩
  | .prodRoot s => .path ⟨false, mPROD_ROOT :: s⟩
  | .upsDb s => .path ⟨false, mUPS_DB :: s⟩
  | .abs s => .path ⟨true, s⟩
  | .none => .ph sNone
  | .missing => .null

def MTab.toRec : MTab → PVal
  | .rel s => .path ⟨false, s⟩
  | .upsDir s => .path ⟨false, mUPS_DIR :: s⟩
  | .prodDir s => .path ⟨false, mPROD_DIR :: s⟩
  | .prodRoot s => .path ⟨false, mPROD_ROOT :: s⟩
  | .upsDb s => .path ⟨false, mUPS_DB :: s⟩
  | .abs s => .path ⟨true, s⟩
  | .none => .ph sNone

/-- segments after a macro (or of a relative directory) may use `$FLAVOR`; absolute paths and relative table-file
names are `$`-free (the existence probes for a relative table file are made on the name as written) -/
def MDir.ok : MDir → Prop
  | .rel s => MSegs s
  | .prodRoot s => MSegs s
  | .upsDb s => MSegs s
  | .abs s => No36 s
  | .none => True
def MUps.ok : MUps → Prop
  | .rel s => MSegs s
  | .prodDir s => MSegs s
  | .prodRoot s => MSegs s
  | .upsDb s => MSegs s
  | .abs s => No36 s
  | _ => True
def MTab.ok : MTab → Prop
  | .rel s => No36 s ∧ s ≠ []
  | .upsDir s => MSegs s
  | .prodDir s => MSegs s
  | .prodRoot s => MSegs s
  | .upsDb s => MSegs s
  | .abs s => No36 s
  | .none => True

/-- the record is relative: `resolvePaths` then defines `$PROD_DIR` / `$UPS_DIR` -/
def MDir.isRel : MDir → Bool
  | .rel _ => true | .prodRoot _ => true | .upsDb _ => true | _ => false
def MUps.isRel : MUps → Bool
  | .rel _ => true | .prodDir _ => true | .prodRoot _ => true | .upsDb _ => true | _ => false

/-- **what the entries mean** for a reader whose stack is at `R` and whose flavor is `f` -/
def MDir.denote (R : List Str) (f : Str) : MDir → PVal
  | .rel s => .path ⟨true, R ++ dsegs f s⟩
  | .prodRoot s => .path ⟨true, R ++ dsegs f s⟩
  | .upsDb s => .path ⟨true, R ++ sUpsDb :: dsegs f s⟩
  | .abs s => .path ⟨true, s⟩
  | .none => .ph sNone

def below (D : PVal) (s : List Str) : PVal :=
  match D with
  | .path d => .path ⟨true, d.segs ++ s⟩
  | _ => .null

def MUps.denote (R : List Str) (f : Str) (D : PVal) : MUps → PVal
  | .rel s => below D (dsegs f s)
  | .prodDir s => below D (dsegs f s)
  | .prodRoot s => .path ⟨true, R ++ dsegs f s⟩
  | .upsDb s => .path ⟨true, R ++ sUpsDb :: dsegs f s⟩
  | .abs s => .path ⟨true, s⟩
  | .none => .ph sNone
  | .missing => .null

def MTab.denote (ex : Path → Bool) (R : List Str) (f : Str) (D U : PVal) : MTab → PVal
  | .rel t =>
    let U' := match U, D with
      | .null, .path d => PVal.path ⟨true, d.segs ++ [sUps]⟩
      | u, _ => u
    match U' with
    | .path u =>
      if ex ⟨true, u.segs ++ t⟩ then .path ⟨true, u.segs ++ t⟩
      else if ex ⟨true, R ++ t⟩ then .path ⟨true, R ++ t⟩ else .path ⟨true, u.segs ++ t⟩
    | _ => match D with
      | .path d => .path ⟨true, d.segs ++ t⟩
      | _ => .path ⟨false, t⟩
  | .upsDir s => below U (dsegs f s)
  | .prodDir s => below D (dsegs f s)
  | .prodRoot s => .path ⟨true, R ++ dsegs f s⟩
  | .upsDb s => .path ⟨true, R ++ sUpsDb :: dsegs f s⟩
  | .abs s => .path ⟨true, s⟩
  | .none => .ph sNone

def slotOf (isRel : Bool) (v : PVal) : Option Path :=
  if isRel then (match v with | .path p => some p | _ => none) else none

/-- a directory value as the phases produce it: an absolute `$`-free path, or a placeholder / nothing -/
def ResPV (v : PVal) : Prop :=
  match v with
  | .path p => p.abs = true ∧ No36 p.segs
  | .ph s => s = sNone
  | .null => True

theorem MDir.denote_good (R : List Str) (f : Str) (md : MDir) (hR : No36 R) (hf : 36 ∉ f) (h : md.ok) :
    ResPV (md.denote R f) := by
  have hdb : 36 ∉ sUpsDb := by decide
  cases md <;> simp [MDir.denote, ResPV, MDir.ok] at h ⊢ <;>
    first | simp [hR, hdb, No36_dsegs f _ hf h] | simp [h]

/-! ### Phase 1: the product directory -/

theorem dirPhase_spec (R : List Str) (f : Str) (md : MDir) (hR : No36 R) (hf : f ≠ []) (h : md.ok) :
    dirPhase ⟨true, R⟩ (mac f R none none) md.toRec
      = (md.denote R f, mac f R (slotOf md.isRel (md.denote R f)) none) := by
  cases md with
  | rel s =>
    have hm := isMacroPath_mseg false s h
    have hr := resolveMacros_absm f R none none false R s hf hR h
    simp only [mac] at hr
    simp [dirPhase, MDir.toRec, MDir.denote, MDir.isRel, slotOf, hm, Path.join, hr, mac]
  | prodRoot s =>
    have hm : isMacroPath ⟨false, mPROD_ROOT :: s⟩ = true := by
      simp [isMacroPath, headStartsWith, mPROD_ROOT, mPROD_, List.isPrefixOf]
    have hr := resolveMacros_prodRoot f R none none s hf h
    simp only [mac] at hr
    simp [dirPhase, MDir.toRec, MDir.denote, MDir.isRel, slotOf, hm, hr, mac]
  | upsDb s =>
    have hm : isMacroPath ⟨false, mUPS_DB :: s⟩ = true := by
      simp [isMacroPath, headStartsWith, mUPS_DB, mUPS_, mPROD_, List.isPrefixOf]
    have hr := resolveMacros_upsDb f R none none s hf h
    simp only [mac] at hr
    simp [dirPhase, MDir.toRec, MDir.denote, MDir.isRel, slotOf, hm, hr, mac]
  | abs s => simp [dirPhase, MDir.toRec, MDir.denote, MDir.isRel, slotOf]
  | none => simp [dirPhase, MDir.toRec, MDir.denote, MDir.isRel, slotOf]

/-! ### Phase 2: the ups directory -/

theorem upsPhase_spec (R : List Str) (f : Str) (pd : Option Path) (D : PVal) (mu : MUps) (hR : No36 R) (hf : f ≠ [])
    (h : mu.ok) (hD : ResPV D)
    (hrel : ∀ s, mu = .rel s → ∃ d, D = .path d)
    (hpd : ∀ s, mu = .prodDir s → ∃ d, D = .path d ∧ pd = some d) :
    upsPhase (mac f R pd none) D mu.toRec
      = .ok (mu.denote R f D, mac f R pd (slotOf mu.isRel (mu.denote R f D))) := by
  cases mu with
  | rel s =>
    obtain ⟨d, rfl⟩ := hrel s rfl
    obtain ⟨da, ds⟩ := d
    simp only [ResPV] at hD
    obtain ⟨rfl, hds⟩ := hD
    have hm := isMacroPath_mseg false s h
    have hr := resolveMacros_absm f R pd none false ds s hf hds h
    simp only [mac] at hr
    simp [upsPhase, MUps.toRec, MUps.denote, MUps.isRel, slotOf, below, hm, Path.join, hr, mac]
  | prodDir s =>
    obtain ⟨d, rfl, rfl⟩ := hpd s rfl
    obtain ⟨da, ds⟩ := d
    simp only [ResPV] at hD
    obtain ⟨rfl, hds⟩ := hD
    have hm : isMacroPath ⟨false, mPROD_DIR :: s⟩ = true := by
      simp [isMacroPath, headStartsWith, mPROD_DIR, mPROD_, List.isPrefixOf]
    have hr := resolveMacros_prodDir f R none ds s hf h
    simp only [mac] at hr
    simp [upsPhase, MUps.toRec, MUps.denote, MUps.isRel, slotOf, below, hm, hr, mac]
  | prodRoot s =>
    have hm : isMacroPath ⟨false, mPROD_ROOT :: s⟩ = true := by
      simp [isMacroPath, headStartsWith, mPROD_ROOT, mPROD_, List.isPrefixOf]
    have hr := resolveMacros_prodRoot f R pd none s hf h
    simp only [mac] at hr
    simp [upsPhase, MUps.toRec, MUps.denote, MUps.isRel, slotOf, hm, hr, mac]
  | upsDb s =>
    have hm : isMacroPath ⟨false, mUPS_DB :: s⟩ = true := by
      simp [isMacroPath, headStartsWith, mUPS_DB, mUPS_, mPROD_, List.isPrefixOf]
    have hr := resolveMacros_upsDb f R pd none s hf h
    simp only [mac] at hr
    simp [upsPhase, MUps.toRec, MUps.denote, MUps.isRel, slotOf, hm, hr, mac]
  | abs s => simp [upsPhase, MUps.toRec, MUps.denote, MUps.isRel, slotOf]
  | none => simp [upsPhase, MUps.toRec, MUps.denote, MUps.isRel, slotOf]
  | missing => simp [upsPhase, MUps.toRec, MUps.denote, MUps.isRel, slotOf]

theorem below_good (D : PVal) (s : List Str) (hD : ResPV D) (hs : No36 s) : ResPV (below D s) := by
  cases D with
  | path d => simp only [ResPV] at hD; simp [below, ResPV, hD.2, hs]
  | ph x => simp [below, ResPV]
  | null => simp [below, ResPV]

theorem MUps.denote_good (R : List Str) (f : Str) (D : PVal) (mu : MUps) (hR : No36 R) (hf : 36 ∉ f) (h : mu.ok)
    (hD : ResPV D) : ResPV (mu.denote R f D) := by
  have hdb : 36 ∉ sUpsDb := by decide
  cases mu <;> simp only [MUps.denote, MUps.ok] at h ⊢
  · exact below_good D _ hD (No36_dsegs f _ hf h)
  · exact below_good D _ hD (No36_dsegs f _ hf h)
  · simp [ResPV, hR, No36_dsegs f _ hf h]
  · simp [ResPV, hR, hdb, No36_dsegs f _ hf h]
  · simp [ResPV, h]
  · simp [ResPV]
  · simp [ResPV]

/-! ### Phase 3: the table file -/

theorem tabPhase_spec (ex : Path → Bool) (R : List Str) (f : Str) (pd ud : Option Path) (name : Str) (D U : PVal)
    (mt : MTab) (hR : No36 R) (hf : f ≠ []) (h : mt.ok) (hD : ResPV D) (hU : ResPV U)
    (hud : ∀ s, mt = .upsDir s → ∃ u, U = .path u ∧ ud = some u)
    (hpd : ∀ s, mt = .prodDir s → ∃ d, D = .path d ∧ pd = some d) :
    (tabPhase ex ⟨true, R⟩ (mac f R pd ud) name D U mt.toRec).1 = mt.denote ex R f D U := by
  cases mt with
  | rel t =>
    obtain ⟨ht, htne⟩ := h
    have hm := isMacroPath_false false t ht
    have hpl := fun (p : Path) (hp : No36 p.segs) => resolveMacros_plain (mac f R pd ud) false p hp
    have hu36 : 36 ∉ sUps := by decide
    cases U with
    | path u =>
      obtain ⟨ua, us⟩ := u
      simp only [ResPV] at hU
      obtain ⟨rfl, hus⟩ := hU
      have e1 := hpl ⟨true, us ++ t⟩ (by simp [hus, ht])
      have e2 := hpl ⟨true, R ++ t⟩ (by simp [hR, ht])
      simp only [tabPhase, MTab.toRec, MTab.denote]
      by_cases h1 : ex ⟨true, us ++ t⟩ = true
      · cases D <;> simp [hm, Path.join, h1, e1]
      · by_cases h2 : ex ⟨true, R ++ t⟩ = true
        · cases D <;> simp [hm, Path.join, h1, h2, e2]
        · cases D <;> simp [hm, Path.join, h1, h2, e1]
    | ph x =>
      cases D with
      | path d =>
        obtain ⟨da, ds⟩ := d
        simp only [ResPV] at hD
        obtain ⟨rfl, hds⟩ := hD
        have e1 := hpl ⟨true, ds ++ t⟩ (by simp [hds, ht])
        simp [tabPhase, MTab.toRec, MTab.denote, hm, Path.join, e1]
      | ph y =>
        have e1 := hpl ⟨false, t⟩ ht
        simp [tabPhase, MTab.toRec, MTab.denote, hm, e1]
      | null =>
        have e1 := hpl ⟨false, t⟩ ht
        simp [tabPhase, MTab.toRec, MTab.denote, hm, e1]
    | null =>
      cases D with
      | path d =>
        obtain ⟨da, ds⟩ := d
        simp only [ResPV] at hD
        obtain ⟨rfl, hds⟩ := hD
        have e1 := hpl ⟨true, ds ++ (sUps :: t)⟩ (by simp [hds, ht, hu36])
        have e2 := hpl ⟨true, R ++ t⟩ (by simp [hR, ht])
        simp only [tabPhase, MTab.toRec, MTab.denote]
        by_cases h1 : ex ⟨true, ds ++ (sUps :: t)⟩ = true
        · simp [hm, Path.join, Path.rel, h1, e1]
        · by_cases h2 : ex ⟨true, R ++ t⟩ = true
          · simp [hm, Path.join, Path.rel, h1, h2, e2]
          · simp [hm, Path.join, Path.rel, h1, h2, e1]
      | ph y =>
        have e1 := hpl ⟨false, t⟩ ht
        simp [tabPhase, MTab.toRec, MTab.denote, hm, e1]
      | null =>
        have e1 := hpl ⟨false, t⟩ ht
        simp [tabPhase, MTab.toRec, MTab.denote, hm, e1]
  | upsDir s =>
    obtain ⟨u, rfl, rfl⟩ := hud s rfl
    obtain ⟨ua, us⟩ := u
    simp only [ResPV] at hU
    obtain ⟨rfl, hus⟩ := hU
    have hm : isMacroPath ⟨false, mUPS_DIR :: s⟩ = true := by
      simp [isMacroPath, headStartsWith, mUPS_DIR, mUPS_, mPROD_, List.isPrefixOf]
    have hr := resolveMacros_upsDir f R pd us s hf h
    simp [tabPhase, MTab.toRec, MTab.denote, below, hm, hr]
  | prodDir s =>
    obtain ⟨d, rfl, rfl⟩ := hpd s rfl
    obtain ⟨da, ds⟩ := d
    simp only [ResPV] at hD
    obtain ⟨rfl, hds⟩ := hD
    have hm : isMacroPath ⟨false, mPROD_DIR :: s⟩ = true := by
      simp [isMacroPath, headStartsWith, mPROD_DIR, mPROD_, List.isPrefixOf]
    have hr := resolveMacros_prodDir f R ud ds s hf h
    simp [tabPhase, MTab.toRec, MTab.denote, below, hm, hr]
  | prodRoot s =>
    have hm : isMacroPath ⟨false, mPROD_ROOT :: s⟩ = true := by
      simp [isMacroPath, headStartsWith, mPROD_ROOT, mPROD_, List.isPrefixOf]
    have hr := resolveMacros_prodRoot f R pd ud s hf h
    simp [tabPhase, MTab.toRec, MTab.denote, hm, hr]
  | upsDb s =>
    have hm : isMacroPath ⟨false, mUPS_DB :: s⟩ = true := by
      simp [isMacroPath, headStartsWith, mUPS_DB, mUPS_, mPROD_, List.isPrefixOf]
    have hr := resolveMacros_upsDb f R pd ud s hf h
    simp [tabPhase, MTab.toRec, MTab.denote, hm, hr]
  | abs s => simp [tabPhase, MTab.toRec, MTab.denote]
  | none => simp [tabPhase, MTab.toRec, MTab.denote]

/-! ### Phase 4 and the composition -/

/-- a value without `$` (a relative table-file name is allowed) -/
def NoDollarV (v : PVal) : Prop :=
  match v with
  | .path p => No36 p.segs
  | _ => True

theorem ResPV.noDollar {v : PVal} (h : ResPV v) : NoDollarV v := by
  cases v <;> simp_all [ResPV, NoDollarV]

theorem lastPhase_id (m : Macros) (D T : PVal) (hD : NoDollarV D) (hT : NoDollarV T) : lastPhase m D T = (D, T) := by
  cases D with
  | path d =>
    have h1 := hasDollar_false d.abs d.segs hD
    cases T with
    | path t =>
      have h2 := hasDollar_false t.abs t.segs hT
      simp [lastPhase, h1, h2]
    | ph x => simp [lastPhase, h1]
    | null => simp [lastPhase, h1]
  | ph y =>
    cases T with
    | path t =>
      have h2 := hasDollar_false t.abs t.segs hT
      simp [lastPhase, h2]
    | ph x => simp [lastPhase]
    | null => simp [lastPhase]
  | null =>
    cases T with
    | path t =>
      have h2 := hasDollar_false t.abs t.segs hT
      simp [lastPhase, h2]
    | ph x => simp [lastPhase]
    | null => simp [lastPhase]

theorem below_noDollar (D : PVal) (s : List Str) (hD : ResPV D) (hs : No36 s) : NoDollarV (below D s) :=
  (below_good D s hD hs).noDollar

theorem MTab.denote_noDollar (ex : Path → Bool) (R : List Str) (f : Str) (D U : PVal) (mt : MTab) (hR : No36 R)
    (hf : 36 ∉ f) (h : mt.ok) (hD : ResPV D) (hU : ResPV U) : NoDollarV (mt.denote ex R f D U) := by
  have hdb : 36 ∉ sUpsDb := by decide
  have hu36 : 36 ∉ sUps := by decide
  cases mt with
  | rel t =>
    obtain ⟨ht, _⟩ := h
    simp only [MTab.denote]
    cases U with
    | path u =>
      simp only [ResPV] at hU
      cases D <;> simp only [] <;> split <;> (try split) <;> simp [NoDollarV, hU.2, ht, hR]
    | ph x =>
      cases D with
      | path d => simp only [ResPV] at hD; simp [NoDollarV, hD.2, ht]
      | ph y => simp [NoDollarV, ht]
      | null => simp [NoDollarV, ht]
    | null =>
      cases D with
      | path d =>
        simp only [ResPV] at hD
        simp only []
        split <;> (try split) <;> simp [NoDollarV, hD.2, ht, hR, hu36]
      | ph y => simp [NoDollarV, ht]
      | null => simp [NoDollarV, ht]
  | upsDir s => exact below_noDollar U _ hU (No36_dsegs f _ hf h)
  | prodDir s => exact below_noDollar D _ hD (No36_dsegs f _ hf h)
  | prodRoot s => simp only [MTab.ok] at h; simp [MTab.denote, NoDollarV, hR, No36_dsegs f _ hf h]
  | upsDb s => simp only [MTab.ok] at h; simp [MTab.denote, NoDollarV, hR, hdb, No36_dsegs f _ hf h]
  | abs s => simp only [MTab.ok] at h; simp [MTab.denote, NoDollarV, h]
  | none => simp [MTab.denote, NoDollarV]

/-- which combinations of entries are meaningful: `$PROD_DIR` needs a product directory recorded relative to the
stack (otherwise `resolvePaths` never defines it), a relative `UPS_DIR` needs a product directory, `$UPS_DIR` needs a
relative ups directory -/
structure MacroWF (md : MDir) (mu : MUps) (mt : MTab) : Prop where
  dir : md.ok
  ups : mu.ok
  tab : mt.ok
  upsRel : ∀ s, mu = .rel s → md ≠ .none
  upsPd : ∀ s, mu = .prodDir s → md.isRel = true
  tabUd : ∀ s, mt = .upsDir s → mu.isRel = true
  tabPd : ∀ s, mt = .prodDir s → md.isRel = true

theorem MDir.denote_path_of_ne_none (R : List Str) (f : Str) (md : MDir) (h : md ≠ .none) :
    ∃ d, md.denote R f = .path d := by
  cases md <;> simp [MDir.denote] at h ⊢

theorem MDir.slot_of_isRel (R : List Str) (f : Str) (md : MDir) (h : md.isRel = true) :
    ∃ d, md.denote R f = .path d ∧ slotOf md.isRel (md.denote R f) = some d := by
  cases md <;> simp [MDir.denote, MDir.isRel, slotOf] at h ⊢

theorem MTab.truthy (mt : MTab) (h : mt.ok) : mt.toRec.truthy = true := by
  cases mt <;> simp [MTab.toRec, PVal.truthy, sNone]
  · exact h.2

/-- **Hand-written macro records**: what `VersionFile.makeProduct` + `Product.resolvePaths` report for a block whose
three path entries are macro expressions, for a reader whose stack is at `R`. -/
theorem resolve_macro_spec (ex : Path → Bool) (R : List Str) (name version f : Str) (md : MDir) (mu : MUps) (mt : MTab)
    (hR : SegsOK R) (hf : SegOK f) (hwf : MacroWF md mu mt) :
    (resolveInfo ex name version f (absP (R ++ [sUpsDb]))
        { productDir := some md.toRec, tableFile := some mt.toRec, upsDir := some mu.toRec }).map
        (fun p => (p.dir, p.table))
      = .ok (md.denote R f, mt.denote ex R f (md.denote R f) (mu.denote R f (md.denote R f))) := by
  have hR36 : No36 R := hR.no36'
  have hfne : f ≠ [] := hf.1
  have hf36 : 36 ∉ f := hf.2.2
  have hDgood := MDir.denote_good R f md hR36 hf36 hwf.dir
  have hUgood := MUps.denote_good R f (md.denote R f) mu hR36 hf36 hwf.ups hDgood
  -- `Product.__init__` changes nothing: a table file is given
  have hinit : ∀ p : Prod, p.table = mt.toRec → p.init ex = p := by
    intro p hp
    simp [Prod.init, hp, MTab.truthy mt hwf.tab]
  unfold resolveInfo
  simp only []
  rw [hinit _ rfl, resolvePaths_phases]
  simp only [absP, stackRoot_db R]
  have hm0 : ({ flavor := f, prodRoot := ⟨true, R⟩, upsDb := ⟨true, R ++ [sUpsDb]⟩ } : Macros) = mac f R none none := rfl
  rw [show stackRoot ⟨true, R ++ [sUpsDb]⟩ = ⟨true, R⟩ from stackRoot_db R, hm0]
  rw [dirPhase_spec R f md hR36 hfne hwf.dir]
  simp only []
  rw [upsPhase_spec R f _ (md.denote R f) mu hR36 hfne hwf.ups hDgood
    (fun s hs => MDir.denote_path_of_ne_none R f md (hwf.upsRel s hs))
    (fun s hs => MDir.slot_of_isRel R f md (hwf.upsPd s hs))]
  simp only []
  have htab := tabPhase_spec ex R f (slotOf md.isRel (md.denote R f)) (slotOf mu.isRel (mu.denote R f (md.denote R f)))
    name (md.denote R f) (mu.denote R f (md.denote R f)) mt hR36 hfne hwf.tab hDgood hUgood
    (by
      intro s hs
      have hrel := hwf.tabUd s hs
      -- a relative ups entry denotes a path
      cases mu with
      | rel s' =>
        obtain ⟨d, hd⟩ := MDir.denote_path_of_ne_none R f md (hwf.upsRel s' rfl)
        simp [MUps.denote, MUps.isRel, slotOf, below, hd]
      | prodDir s' =>
        obtain ⟨d, hd, _⟩ := MDir.slot_of_isRel R f md (hwf.upsPd s' rfl)
        simp [MUps.denote, MUps.isRel, slotOf, below, hd]
      | prodRoot s' => simp [MUps.denote, MUps.isRel, slotOf]
      | upsDb s' => simp [MUps.denote, MUps.isRel, slotOf]
      | abs s' => simp [MUps.isRel] at hrel
      | none => simp [MUps.isRel] at hrel
      | missing => simp [MUps.isRel] at hrel)
    (fun s hs => MDir.slot_of_isRel R f md (hwf.tabPd s hs))
  have hlast := lastPhase_id (mac f R (slotOf md.isRel (md.denote R f)) (slotOf mu.isRel (mu.denote R f (md.denote R f))))
    (md.denote R f) (mt.denote ex R f (md.denote R f) (mu.denote R f (md.denote R f))) hDgood.noDollar
    (MTab.denote_noDollar ex R f _ _ mt hR36 hf36 hwf.tab hDgood hUgood)
  generalize htp : tabPhase ex ⟨true, R⟩ (mac f R (slotOf md.isRel (md.denote R f)) (slotOf mu.isRel (mu.denote R f (md.denote R f))))
    name (md.denote R f) (mu.denote R f (md.denote R f)) mt.toRec = tp at htab
  obtain ⟨tp1, tp2⟩ := tp
  simp only at htab
  subst htab
  simp only [hlast, Except.map]

end EupsModel.Record
