import EupsModel.Model.VroPath
/-! `setEupsPath`: the stacks searched are the directories of the path, each once, in the order listed. -/
namespace EupsModel.Vro

theorem mem_uniqDirs (x : Str) (seen l : List Str) : x ∈ uniqDirs seen l ↔ x ∈ l ∧ x ∉ seen := by
  induction l generalizing seen with
  | nil => simp [uniqDirs]
  | cons p ps ih =>
    unfold uniqDirs
    by_cases hs : seen.contains p = true
    · have hp : p ∈ seen := by simpa using hs
      simp only [hs, if_true, ih, List.mem_cons]
      constructor
      · rintro ⟨h1, h2⟩; exact ⟨Or.inr h1, h2⟩
      · rintro ⟨h1 | h1, h2⟩
        · exact absurd (h1 ▸ hp) h2
        · exact ⟨h1, h2⟩
    · have hp : p ∉ seen := by simpa using hs
      simp only [hs, Bool.false_eq_true, if_false, List.mem_cons, ih]
      constructor
      · rintro (h | ⟨h1, h2⟩)
        · exact ⟨Or.inl h, h ▸ hp⟩
        · exact ⟨Or.inr h1, fun hc => h2 (Or.inr hc)⟩
      · rintro ⟨h1 | h1, h2⟩
        · exact Or.inl h1
        · by_cases hx : x = p
          · exact Or.inl hx
          · exact Or.inr ⟨h1, fun hc => by rcases hc with hc | hc; exact hx hc; exact h2 hc⟩

theorem nodup_uniqDirs (seen l : List Str) : (uniqDirs seen l).Nodup := by
  induction l generalizing seen with
  | nil => simp [uniqDirs]
  | cons p ps ih =>
    unfold uniqDirs
    by_cases hs : seen.contains p = true
    · simp only [hs, if_true]; exact ih seen
    · simp only [hs, Bool.false_eq_true, if_false, List.nodup_cons]
      refine ⟨?_, ih _⟩
      intro h
      have := ((mem_uniqDirs p (p :: seen) ps).mp h).2
      exact this (by simp)

theorem uniqDirs_congr (s1 s2 l : List Str) (h : ∀ y, y ∈ s1 ↔ y ∈ s2) : uniqDirs s1 l = uniqDirs s2 l := by
  induction l generalizing s1 s2 with
  | nil => simp [uniqDirs]
  | cons q qs ih =>
    unfold uniqDirs
    have hc : s1.contains q = s2.contains q := by
      rw [Bool.eq_iff_iff]; simp [h q]
    rw [hc]
    split
    · exact ih s1 s2 h
    · congr 1
      exact ih _ _ (by intro y; simp [h y])

theorem uniqDirs_cons (seen : List Str) (p : Str) (ps : List Str) :
    uniqDirs seen (p :: ps) = if seen.contains p then uniqDirs seen ps else p :: uniqDirs (p :: seen) ps := rfl

/-- the first occurrence of each directory decides its place: what comes later is listed only if it has not been
seen — `uniqDirs` keeps the order of first occurrences -/
theorem uniqDirs_append (seen a b : List Str) :
    uniqDirs seen (a ++ b) = uniqDirs seen a ++ uniqDirs (a.reverse ++ seen) b := by
  induction a generalizing seen with
  | nil => simp [uniqDirs]
  | cons p ps ih =>
    simp only [List.cons_append, uniqDirs_cons]
    by_cases hs : seen.contains p = true
    · have hp : p ∈ seen := by simpa using hs
      simp only [hs, if_true, ih]
      congr 1
      apply uniqDirs_congr
      intro y
      simp only [List.reverse_cons, List.append_assoc, List.singleton_append, List.mem_append, List.mem_reverse,
        List.mem_cons]
      constructor
      · rintro (h | h)
        · exact Or.inl h
        · exact Or.inr (Or.inr h)
      · rintro (h | h | h)
        · exact Or.inl h
        · exact Or.inr (h ▸ hp)
        · exact Or.inr h
    · simp only [hs, Bool.false_eq_true, if_false, ih, List.cons_append]
      congr 2
      apply uniqDirs_congr
      intro y
      simp only [List.reverse_cons, List.append_assoc, List.singleton_append, List.mem_append, List.mem_reverse,
        List.mem_cons]

/-- what `setEupsPath` returns, as a function of the pieces selected -/
theorem setEupsPath_spec (isdir : Str → Bool) (path : Str) (dbz : Option Str) (l : List Str)
    (h : setEupsPath isdir path dbz = .ok l) :
    l.Nodup ∧
    ∀ x, x ∈ l ↔ ∃ p ∈ splitOn colon [] path, isdir p = true ∧ x = normpath p ∧
      (∀ z, dbz = some z → z.isEmpty = false → dbzMatches z p = true) := by
  unfold setEupsPath at h
  cases dbz with
  | none =>
    simp only [Except.ok.injEq] at h
    subst h
    refine ⟨nodup_uniqDirs _ _, fun x => ?_⟩
    simp only [mem_uniqDirs, List.mem_map, List.mem_filter, List.not_mem_nil, not_false_eq_true, and_true]
    constructor
    · rintro ⟨p, ⟨hp, hd⟩, rfl⟩; exact ⟨p, hp, hd, rfl, by intro z hz; cases hz⟩
    · rintro ⟨p, hp, hd, rfl, _⟩; exact ⟨p, ⟨hp, hd⟩, rfl⟩
  | some z =>
    simp only at h
    by_cases hz : z.isEmpty = true
    · simp only [hz, if_true, Except.ok.injEq] at h
      subst h
      refine ⟨nodup_uniqDirs _ _, fun x => ?_⟩
      simp only [mem_uniqDirs, List.mem_map, List.mem_filter, List.not_mem_nil, not_false_eq_true, and_true]
      constructor
      · rintro ⟨p, ⟨hp, hd⟩, rfl⟩
        refine ⟨p, hp, hd, rfl, ?_⟩
        intro z' hz' hne; cases hz'; rw [hz] at hne; cases hne
      · rintro ⟨p, hp, hd, rfl, _⟩; exact ⟨p, ⟨hp, hd⟩, rfl⟩
    · simp only [hz, Bool.false_eq_true, if_false, Except.ok.injEq] at h
      subst h
      refine ⟨nodup_uniqDirs _ _, fun x => ?_⟩
      simp only [mem_uniqDirs, List.mem_map, List.mem_filter, List.not_mem_nil, not_false_eq_true, and_true]
      constructor
      · rintro ⟨p, ⟨⟨hp, hm⟩, hd⟩, rfl⟩
        refine ⟨p, hp, hd, rfl, ?_⟩
        intro z' hz' _; cases hz'; exact hm
      · rintro ⟨p, hp, hd, rfl, hm⟩
        exact ⟨p, ⟨⟨hp, hm z rfl (by simpa using hz)⟩, hd⟩, rfl⟩

end EupsModel.Vro
