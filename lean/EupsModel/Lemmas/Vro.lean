import EupsModel.Model.Vro
/-! Helper lemmas about `Model/Vro.lean` (the property theorems are in `Props/C03.lean`). -/
namespace EupsModel.Vro

/-! ## the walk -/

theorem walk_nil (C : Ctx) (r : Req) : walk C r [] = .ok none := rfl

theorem walk_cons_skip {C : Ctx} {r : Req} {e : Str} {post : List Str}
    (h : lookupEntry C r e post = .ok .skip) : walk C r (e :: post) = walk C r post := by
  simp [walk, h]

theorem walk_cons_abort {C : Ctx} {r : Req} {e : Str} {post : List Str}
    (h : lookupEntry C r e post = .ok .abort) : walk C r (e :: post) = .ok none := by
  simp [walk, h]

theorem walk_cons_hit {C : Ctx} {r : Req} {e : Str} {post : List Str} {p : Prod} {reason : Str}
    (h : lookupEntry C r e post = .ok (.hit p reason)) :
    walk C r (e :: post) = .ok (some ⟨p, reason, e⟩) := by
  simp [walk, h]

theorem walk_cons_error {C : Ctx} {r : Req} {e : Str} {post : List Str} {err : Err}
    (h : lookupEntry C r e post = .error err) : walk C r (e :: post) = .error err := by
  simp [walk, h]

/-- every entry of `pre` says `continue` when the VRO is `pre ++ rest` -/
def AllSkip (C : Ctx) (r : Req) (pre rest : List Str) : Prop :=
  ∀ a x b, pre = a ++ x :: b → lookupEntry C r x (b ++ rest) = .ok .skip

theorem allSkip_nil (C : Ctx) (r : Req) (rest : List Str) : AllSkip C r [] rest := by
  intro a x b h; simp at h

theorem allSkip_cons {C : Ctx} {r : Req} {x : Str} {pre rest : List Str} :
    AllSkip C r (x :: pre) rest ↔ lookupEntry C r x (pre ++ rest) = .ok .skip ∧ AllSkip C r pre rest := by
  constructor
  · intro h
    refine ⟨h [] x pre rfl, ?_⟩
    intro a y b hab
    exact h (x :: a) y b (by simp [hab])
  · rintro ⟨h1, h2⟩ a y b hab
    cases a with
    | nil =>
      simp at hab
      obtain ⟨rfl, rfl⟩ := hab
      exact h1
    | cons z a' =>
      simp at hab
      obtain ⟨rfl, hab⟩ := hab
      exact h2 a' y b hab

theorem walk_of_allSkip {C : Ctx} {r : Req} {pre rest : List Str} (h : AllSkip C r pre rest) :
    walk C r (pre ++ rest) = walk C r rest := by
  induction pre with
  | nil => rfl
  | cons x pre ih =>
    obtain ⟨h1, h2⟩ := allSkip_cons.mp h
    rw [List.cons_append, walk_cons_skip h1, ih h2]

theorem walk_hit_iff (C : Ctx) (r : Req) (vro : List Str) (h : Hit) :
    walk C r vro = .ok (some h) ↔
      ∃ pre post, vro = pre ++ h.entry :: post ∧
        lookupEntry C r h.entry post = .ok (.hit h.prod h.reason) ∧ AllSkip C r pre (h.entry :: post) := by
  induction vro with
  | nil =>
    simp [walk]
  | cons e rest ih =>
    constructor
    · intro hw
      cases hl : lookupEntry C r e rest with
      | error err => rw [walk_cons_error hl] at hw; cases hw
      | ok o =>
        cases o with
        | skip =>
          rw [walk_cons_skip hl] at hw
          obtain ⟨pre, post, rfl, h1, h2⟩ := ih.mp hw
          exact ⟨e :: pre, post, rfl, h1, allSkip_cons.mpr ⟨hl, h2⟩⟩
        | abort => rw [walk_cons_abort hl] at hw; cases hw
        | hit p reason =>
          rw [walk_cons_hit hl] at hw
          cases hw
          exact ⟨[], rest, rfl, hl, allSkip_nil _ _ _⟩
    · rintro ⟨pre, post, hv, h1, h2⟩
      cases pre with
      | nil =>
        simp at hv
        obtain ⟨rfl, rfl⟩ := hv
        rw [walk_cons_hit h1]
      | cons x pre =>
        simp at hv
        obtain ⟨rfl, rfl⟩ := hv
        obtain ⟨h3, h4⟩ := allSkip_cons.mp h2
        rw [walk_cons_skip h3]
        exact ih.mpr ⟨pre, post, rfl, h1, h4⟩

theorem walk_none_iff (C : Ctx) (r : Req) (vro : List Str) :
    walk C r vro = .ok none ↔
      AllSkip C r vro [] ∨
      ∃ pre e post, vro = pre ++ e :: post ∧ lookupEntry C r e post = .ok .abort ∧
        AllSkip C r pre (e :: post) := by
  induction vro with
  | nil => simp [walk, allSkip_nil]
  | cons e rest ih =>
    constructor
    · intro hw
      cases hl : lookupEntry C r e rest with
      | error err => rw [walk_cons_error hl] at hw; cases hw
      | ok o =>
        cases o with
        | skip =>
          rw [walk_cons_skip hl] at hw
          rcases ih.mp hw with h | ⟨pre, e', post, rfl, h1, h2⟩
          · exact Or.inl (allSkip_cons.mpr ⟨by simpa using hl, h⟩)
          · exact Or.inr ⟨e :: pre, e', post, rfl, h1, allSkip_cons.mpr ⟨hl, h2⟩⟩
        | abort => exact Or.inr ⟨[], e, rest, rfl, hl, allSkip_nil _ _ _⟩
        | hit p reason => rw [walk_cons_hit hl] at hw; cases hw
    · rintro (h | ⟨pre, e', post, hv, h1, h2⟩)
      · obtain ⟨h3, h4⟩ := allSkip_cons.mp h
        rw [walk_cons_skip (by simpa using h3)]
        exact ih.mpr (Or.inl h4)
      · cases pre with
        | nil =>
          simp at hv
          obtain ⟨rfl, rfl⟩ := hv
          rw [walk_cons_abort h1]
        | cons x pre =>
          simp at hv
          obtain ⟨rfl, rfl⟩ := hv
          obtain ⟨h3, h4⟩ := allSkip_cons.mp h2
          rw [walk_cons_skip h3]
          exact ih.mpr (Or.inr ⟨pre, e', post, rfl, h1, h4⟩)

/-! ## what an entry's lookup can depend on in the rest of the VRO -/

theorem lookupVT_congr (C : Ctx) (r : Req) (e v : Str) (post post' : List Str)
    (h1 : post.contains kVersionExpr = post'.contains kVersionExpr)
    (h2 : post.any isVT = post'.any isVT) :
    lookupVT C r e post v = lookupVT C r e post' v := by
  simp only [lookupVT, h1, h2]

theorem lookupEntry_congr (C : Ctx) (r : Req) (e : Str) (post post' : List Str)
    (h1 : post.contains kVersionExpr = post'.contains kVersionExpr)
    (h2 : post.any isVT = post'.any isVT) :
    lookupEntry C r e post = lookupEntry C r e post' := by
  simp only [lookupEntry, lookupVT_congr C r e _ post post' h1 h2]

theorem isVT_versionExpr : isVT kVersionExpr = true := by decide

theorem contains_of_noVT {l : List Str} (h : ∀ x ∈ l, isVT x = false) : l.contains kVersionExpr = false := by
  apply Bool.eq_false_iff.mpr
  intro hc
  have := h kVersionExpr (by simpa using hc)
  rw [isVT_versionExpr] at this
  cases this

theorem any_of_noVT {l : List Str} (h : ∀ x ∈ l, isVT x = false) : l.any isVT = false := by
  simp only [List.any_eq_false]
  intro x hx
  simp [h x hx]

/-- lookups in `pre ++ e :: post` and in `pre ++ [e]` see the same rest when `post` has no version entry -/
theorem tail_congr (b : List Str) (e : Str) (post : List Str) (h : ∀ x ∈ post, isVT x = false) :
    (b ++ e :: post).contains kVersionExpr = (b ++ [e]).contains kVersionExpr ∧
    (b ++ e :: post).any isVT = (b ++ [e]).any isVT := by
  have hc := contains_of_noVT h
  have ha := any_of_noVT h
  constructor
  · rw [Bool.eq_iff_iff]
    simp only [List.contains_iff_mem, List.mem_append, List.mem_cons, List.not_mem_nil, or_false]
    have : kVersionExpr ∉ post := by simpa using hc
    constructor
    · rintro (h | h | h)
      · exact Or.inl h
      · exact Or.inr h
      · exact absurd h this
    · rintro (h | h)
      · exact Or.inl h
      · exact Or.inr (Or.inl h)
  · simp [List.any_append, ha]

/-- a version-type entry is not one of the directives tested before it -/
theorem lookupEntry_vt {C : Ctx} {r : Req} {e : Str} {post : List Str} (he : isVT e = true) :
    lookupEntry C r e post =
      match r.named with
      | none => .ok .skip
      | some v => lookupVT C r e post v := by
  have h3 : (e = kVersion ∨ e = kVersionBang) ∨ e = kVersionExpr := by
    simpa [isVT] using he
  have hp : (e == kPath) = false := by
    rcases h3 with (rfl | rfl) | rfl <;> decide
  have hk : (e == kKeep) = false := by
    rcases h3 with (rfl | rfl) | rfl <;> decide
  have hc : (e == kCommandLine) = false := by
    rcases h3 with (rfl | rfl) | rfl <;> decide
  cases hn : r.named <;> simp [lookupEntry, hp, hk, hc, he, hn]

/-- at the last version-type entry a request that names a version never says `continue` -/
theorem lookupVT_last_ne_skip {C : Ctx} {r : Req} {e v : Str} {post : List Str}
    (hpost : ∀ x ∈ post, isVT x = false) : lookupVT C r e post v ≠ .ok .skip := by
  have hc := contains_of_noVT hpost
  have ha := any_of_noVT hpost
  unfold lookupVT
  rw [hc, ha]
  split
  · simp
  · split
    · simp
    · split
      · simp
      · simp
      · split
        · simp
        · split <;> simp

/-- the walk never looks behind the last version-type entry when the request names a version -/
theorem walk_cut (C : Ctx) (r : Req) (pre : List Str) (e : Str) (post : List Str)
    (hn : r.named.isSome = true) (he : isVT e = true) (hpost : ∀ x ∈ post, isVT x = false) :
    walk C r (pre ++ e :: post) = walk C r (pre ++ [e]) := by
  induction pre with
  | nil =>
    obtain ⟨v, hv⟩ := Option.isSome_iff_exists.mp hn
    have hcongr : lookupEntry C r e post = lookupEntry C r e [] :=
      lookupEntry_congr C r e post [] (by rw [contains_of_noVT hpost]; rfl) (by rw [any_of_noVT hpost]; rfl)
    have hne : lookupEntry C r e [] ≠ .ok .skip := by
      rw [lookupEntry_vt he, hv]
      exact lookupVT_last_ne_skip (by simp)
    simp only [List.nil_append]
    cases hl : lookupEntry C r e [] with
    | error err => rw [walk_cons_error (hcongr.trans hl), walk_cons_error hl]
    | ok o =>
      cases o with
      | skip => exact absurd hl hne
      | abort => rw [walk_cons_abort (hcongr.trans hl), walk_cons_abort hl]
      | hit p reason => rw [walk_cons_hit (hcongr.trans hl), walk_cons_hit hl]
  | cons x pre ih =>
    obtain ⟨t1, t2⟩ := tail_congr pre e post hpost
    have hcongr : lookupEntry C r x (pre ++ e :: post) = lookupEntry C r x (pre ++ [e]) :=
      lookupEntry_congr C r x _ _ t1 t2
    simp only [List.cons_append]
    cases hl : lookupEntry C r x (pre ++ [e]) with
    | error err => rw [walk_cons_error (hcongr.trans hl), walk_cons_error hl]
    | ok o =>
      cases o with
      | skip => rw [walk_cons_skip (hcongr.trans hl), walk_cons_skip hl, ih]
      | abort => rw [walk_cons_abort (hcongr.trans hl), walk_cons_abort hl]
      | hit p reason => rw [walk_cons_hit (hcongr.trans hl), walk_cons_hit hl]

/-- the entry a walk stops at is an entry of the VRO -/
theorem walk_entry_mem {C : Ctx} {r : Req} {vro : List Str} {h : Hit} (hw : walk C r vro = .ok (some h)) :
    h.entry ∈ vro := by
  obtain ⟨pre, post, rfl, _, _⟩ := (walk_hit_iff C r vro h).mp hw
  simp

/-! ## `idxOf` -/

theorem idxOf_append_of_mem {x : Str} {l : List Str} (m : List Str) (h : x ∈ l) :
    idxOf x (l ++ m) = idxOf x l := by
  induction l with
  | nil => simp at h
  | cons y l ih =>
    simp only [List.cons_append, idxOf]
    by_cases hy : (y == x) = true
    · simp [hy]
    · have hne : y ≠ x := by simpa using hy
      have : x ∈ l := by
        rcases List.mem_cons.mp h with h | h
        · exact absurd h.symm hne
        · exact h
      simp [hy, ih this]

theorem idxOf_lt_of_mem {x : Str} {l : List Str} (h : x ∈ l) : idxOf x l < l.length := by
  induction l with
  | nil => simp at h
  | cons y l ih =>
    simp only [idxOf]
    by_cases hy : (y == x) = true
    · simp [hy]
    · have hne : y ≠ x := by simpa using hy
      have : x ∈ l := by
        rcases List.mem_cons.mp h with h | h
        · exact absurd h.symm hne
        · exact h
      have := ih this
      simp [hy]
      omega

theorem idxOf_append_of_not_mem {x : Str} {l : List Str} (m : List Str) (h : x ∉ l) :
    idxOf x (l ++ m) = l.length + idxOf x m := by
  induction l with
  | nil => simp
  | cons y l ih =>
    have hne : (y == x) = false := by
      apply Bool.eq_false_iff.mpr
      intro hy
      exact h (by simp [(by simpa using hy : y = x)])
    have hl : x ∉ l := fun hx => h (List.mem_cons_of_mem _ hx)
    simp only [List.cons_append, idxOf, hne, ih hl, List.length_cons]
    simp
    omega

/-- the "earlier reason outranks" rule gives the same answer on a VRO and on any extension of it,
as long as the walk stopped inside the shorter one -/
theorem applyAlready_append (r : Req) (l m : List Str) (h : Hit) (hm : h.entry ∈ l) :
    applyAlready r (l ++ m) h = applyAlready r l h := by
  unfold applyAlready
  cases ha : r.already with
  | none => rfl
  | some pa =>
    obtain ⟨op, ot⟩ := pa
    cases ot with
    | none => rfl
    | some ot =>
      simp only
      rw [idxOf_append_of_mem m hm]
      by_cases hot : ot ∈ l
      · rw [idxOf_append_of_mem m hot]
        have h1 : (l ++ m).contains ot = true := by simp [hot]
        have h2 : l.contains ot = true := by simp [hot]
        rw [h1, h2]
      · have h2 : l.contains ot = false := by simpa using hot
        have hlt := idxOf_lt_of_mem hm
        rw [idxOf_append_of_not_mem m hot, h2]
        have : ¬ (l.length + idxOf ot m < idxOf h.entry l) := by omega
        simp [this]


/-! ## path-order lookups -/

theorem firstStack_some_iff {α : Type} (f : Stack → Option α) (i0 : Nat) (db : Db) (i : Nat) (a : α) :
    firstStack f i0 db = some (i, a) ↔
      ∃ k st, i = i0 + k ∧ db[k]? = some st ∧ f st = some a ∧
        ∀ j st', j < k → db[j]? = some st' → f st' = none := by
  induction db generalizing i0 with
  | nil => simp [firstStack]
  | cons s rest ih =>
    cases hs : f s with
    | some a' =>
      simp only [firstStack, hs]
      constructor
      · intro h
        cases h
        exact ⟨0, s, rfl, rfl, hs, fun j st' hj => absurd hj (Nat.not_lt_zero j)⟩
      · rintro ⟨k, st, rfl, hk, hf, hmin⟩
        cases k with
        | zero =>
          simp at hk
          subst hk
          rw [hs] at hf
          cases hf
          rfl
        | succ k =>
          have := hmin 0 s (Nat.succ_pos k) rfl
          rw [hs] at this
          cases this
    | none =>
      simp only [firstStack, hs]
      rw [ih (i0 + 1)]
      constructor
      · rintro ⟨k, st, rfl, hk, hf, hmin⟩
        refine ⟨k + 1, st, by omega, by simpa using hk, hf, ?_⟩
        intro j st' hj hget
        cases j with
        | zero =>
          simp at hget
          subst hget
          exact hs
        | succ j => exact hmin j st' (by omega) (by simpa using hget)
      · rintro ⟨k, st, rfl, hk, hf, hmin⟩
        cases k with
        | zero =>
          simp at hk
          subst hk
          rw [hs] at hf
          cases hf
        | succ k =>
          refine ⟨k, st, by omega, by simpa using hk, hf, ?_⟩
          intro j st' hj hget
          exact hmin (j + 1) st' (by omega) (by simpa using hget)

theorem firstStack_none_iff {α : Type} (f : Stack → Option α) (i0 : Nat) (db : Db) :
    firstStack f i0 db = none ↔ ∀ st ∈ db, f st = none := by
  induction db generalizing i0 with
  | nil => simp [firstStack]
  | cons s rest ih =>
    cases hs : f s with
    | some a' => simp [firstStack, hs]
    | none => simp [firstStack, hs, ih (i0 + 1)]

/-! ## sorting by string order keeps the elements -/

theorem mem_insertStr (v x : Str) (l : List Str) : x ∈ insertStr v l ↔ x = v ∨ x ∈ l := by
  induction l with
  | nil => simp [insertStr]
  | cons y ys ih =>
    simp only [insertStr]
    split
    · simp
    · simp [ih]
      constructor
      · rintro (h | h | h)
        · exact Or.inr (Or.inl h)
        · exact Or.inl h
        · exact Or.inr (Or.inr h)
      · rintro (h | h | h)
        · exact Or.inr (Or.inl h)
        · exact Or.inl h
        · exact Or.inr (Or.inr h)

theorem mem_sortStr (x : Str) (l : List Str) : x ∈ sortStr l ↔ x ∈ l := by
  induction l with
  | nil => simp [sortStr]
  | cons y ys ih => simp [sortStr, mem_insertStr, ih]

/-- `v` is among the versions a stack lists for (product, flavor) iff it is declared there -/
theorem mem_versionsOf (st : Stack) (n f v : Str) : v ∈ versionsOf st n f ↔ declared st n v f = true := by
  simp only [versionsOf, mem_sortStr, declared, List.mem_map, List.mem_filter, List.any_eq_true,
    Bool.and_eq_true, beq_iff_eq]
  constructor
  · rintro ⟨d, ⟨hd, hn, hf⟩, rfl⟩
    exact ⟨d, hd, ⟨hn, rfl⟩, hf⟩
  · rintro ⟨d, hd, ⟨hn, hv⟩, hf⟩
    exact ⟨d, ⟨hd, hn, hf⟩, hv⟩

/-! ## the maximum -/

theorem lastMaxGo_mem (cmp : Str → Str → Int) (best : Str) (l : List Str) :
    lastMaxGo cmp best l = best ∨ lastMaxGo cmp best l ∈ l := by
  induction l generalizing best with
  | nil => simp [lastMaxGo]
  | cons v vs ih =>
    simp only [lastMaxGo]
    rcases ih (if 0 ≤ cmp v best then v else best) with h | h
    · rw [h]
      split
      · simp
      · simp
    · exact Or.inr (List.mem_cons_of_mem _ h)

theorem lastMaxGo_max {P : Str → Prop} {cmp : Str → Str → Int} (g : GoodOrdOn P cmp) (best : Str) (l : List Str)
    (hb : P best) (hl : ∀ x ∈ l, P x) :
    P (lastMaxGo cmp best l) ∧
    cmp best (lastMaxGo cmp best l) ≤ 0 ∧ ∀ x ∈ l, cmp x (lastMaxGo cmp best l) ≤ 0 := by
  induction l generalizing best with
  | nil => simp [lastMaxGo, g.refl best hb, hb]
  | cons v vs ih =>
    have hv0 : P v := hl v (by simp)
    have hvs : ∀ x ∈ vs, P x := fun x hx => hl x (List.mem_cons_of_mem _ hx)
    simp only [lastMaxGo]
    by_cases hv : 0 ≤ cmp v best
    · simp only [hv, if_true]
      obtain ⟨hp, h1, h2⟩ := ih v hv0 hvs
      refine ⟨hp, g.trans _ _ _ hb hv0 hp (g.flip _ _ hv0 hb hv) h1, ?_⟩
      intro x hx
      rcases List.mem_cons.mp hx with rfl | hx
      · exact h1
      · exact h2 x hx
    · simp only [hv, if_false]
      obtain ⟨hp, h1, h2⟩ := ih best hb hvs
      refine ⟨hp, h1, ?_⟩
      intro x hx
      rcases List.mem_cons.mp hx with rfl | hx
      · exact g.trans _ _ _ hv0 hb hp (by omega) h1
      · exact h2 x hx

theorem lastMax_some_iff (cmp : Str → Str → Int) (l : List Str) : (lastMax cmp l).isSome ↔ l ≠ [] := by
  cases l <;> simp [lastMax]

theorem lastMax_mem {cmp : Str → Str → Int} {l : List Str} {m : Str} (h : lastMax cmp l = some m) : m ∈ l := by
  cases l with
  | nil => simp [lastMax] at h
  | cons v vs =>
    simp only [lastMax, Option.some.injEq] at h
    subst h
    rcases lastMaxGo_mem cmp v vs with h | h
    · rw [h]; simp
    · exact List.mem_cons_of_mem _ h

theorem lastMax_max {P : Str → Prop} {cmp : Str → Str → Int} (g : GoodOrdOn P cmp) {l : List Str} {m : Str}
    (h : lastMax cmp l = some m) (hl : ∀ x ∈ l, P x) : ∀ x ∈ l, cmp x m ≤ 0 := by
  cases l with
  | nil => simp [lastMax] at h
  | cons v vs =>
    simp only [lastMax, Option.some.injEq] at h
    subst h
    obtain ⟨_, h1, h2⟩ := lastMaxGo_max g v vs (hl v (by simp)) (fun x hx => hl x (List.mem_cons_of_mem _ hx))
    intro x hx
    rcases List.mem_cons.mp hx with rfl | hx
    · exact h1
    · exact h2 x hx

/-- a declared version is one of the database's version names -/
theorem declIn_of_declared {P : Str → Prop} {db : Db} (hP : DeclIn P db) {st : Stack} (hst : st ∈ db)
    {n v f : Str} (hd : declared st n v f = true) : P v := by
  simp only [declared, List.any_eq_true, Bool.and_eq_true, beq_iff_eq] at hd
  obtain ⟨d, hdm, ⟨_, hv⟩, _⟩ := hd
  exact hv ▸ hP st hst d hdm

/-! ## expression candidates -/

/-- one stack's contribution to `_findProductsByExpr` -/
def addNew (i : Nat) (vs : List Str) (acc : List (Nat × Str)) : List (Nat × Str) :=
  vs.foldl (fun a v => if a.any (fun c => c.2 == v) then a else a ++ [(i, v)]) acc

theorem mem_addNew (i : Nat) (vs : List Str) (acc : List (Nat × Str)) (c : Nat × Str) :
    c ∈ addNew i vs acc ↔ c ∈ acc ∨ (c.1 = i ∧ c.2 ∈ vs ∧ ∀ c' ∈ acc, c'.2 ≠ c.2) := by
  induction vs generalizing acc with
  | nil => simp [addNew]
  | cons v vs ih =>
    have hstep : addNew i (v :: vs) acc =
        addNew i vs (if acc.any (fun c => c.2 == v) then acc else acc ++ [(i, v)]) := rfl
    rw [hstep, ih]
    by_cases hany : acc.any (fun c => c.2 == v) = true
    · simp only [hany, if_true]
      obtain ⟨c0, hc0, hv0⟩ := List.any_eq_true.mp hany
      have hv0 : c0.2 = v := by simpa using hv0
      constructor
      · rintro (h | ⟨h1, h2, h3⟩)
        · exact Or.inl h
        · exact Or.inr ⟨h1, List.mem_cons_of_mem _ h2, h3⟩
      · rintro (h | ⟨h1, h2, h3⟩)
        · exact Or.inl h
        · rcases List.mem_cons.mp h2 with h2 | h2
          · exact absurd (hv0.trans h2.symm) (h3 c0 hc0)
          · exact Or.inr ⟨h1, h2, h3⟩
    · simp only [hany]
      have hno : ∀ c' ∈ acc, c'.2 ≠ v := by
        intro c' hc' heq
        apply hany
        exact List.any_eq_true.mpr ⟨c', hc', by simpa using heq⟩
      constructor
      · rintro (h | ⟨h1, h2, h3⟩)
        · rcases List.mem_append.mp h with h | h
          · exact Or.inl h
          · simp at h
            subst h
            exact Or.inr ⟨rfl, by simp, hno⟩
        · refine Or.inr ⟨h1, List.mem_cons_of_mem _ h2, ?_⟩
          intro c' hc'
          exact h3 c' (List.mem_append_left _ hc')
      · rintro (h | ⟨h1, h2, h3⟩)
        · exact Or.inl (List.mem_append_left _ h)
        · rcases List.mem_cons.mp h2 with h2 | h2
          · left
            apply List.mem_append_right
            simp
            exact Prod.ext h1 h2
          · by_cases hcv : c.2 = v
            · left
              apply List.mem_append_right
              simp
              exact Prod.ext h1 hcv
            · right
              refine ⟨h1, h2, ?_⟩
              intro c' hc'
              rcases List.mem_append.mp hc' with hc' | hc'
              · exact h3 c' hc'
              · simp at hc'
                subst hc'
                exact fun h => hcv h.symm

theorem exprCandsGo_eq (vm : Str → Str → Bool) (n f x : Str) (i : Nat) (acc : List (Nat × Str))
    (st : Stack) (rest : Db) :
    exprCandsGo vm n f x i acc (st :: rest) =
      exprCandsGo vm n f x (i + 1) (addNew i ((versionsOf st n f).filter fun v => vm v x) acc) rest := rfl

/-- the versions of `n` for flavor `f` in stack `st` that satisfy `x` -/
def satisfies (vm : Str → Str → Bool) (st : Stack) (n f x v : Str) : Prop :=
  declared st n v f = true ∧ vm v x = true

theorem mem_filter_versionsOf (vm : Str → Str → Bool) (st : Stack) (n f x v : Str) :
    v ∈ (versionsOf st n f).filter (fun v => vm v x) ↔ satisfies vm st n f x v := by
  simp [satisfies, mem_versionsOf]

/-- membership in the candidate list, by induction over the path -/
theorem mem_exprCandsGo (vm : Str → Str → Bool) (n f x : Str) (i0 : Nat) (acc : List (Nat × Str)) (db : Db)
    (c : Nat × Str) :
    c ∈ exprCandsGo vm n f x i0 acc db ↔
      c ∈ acc ∨
      ∃ k st, c.1 = i0 + k ∧ db[k]? = some st ∧ satisfies vm st n f x c.2 ∧
        (∀ c' ∈ acc, c'.2 ≠ c.2) ∧
        ∀ j st', j < k → db[j]? = some st' → ¬ satisfies vm st' n f x c.2 := by
  induction db generalizing i0 acc with
  | nil => simp [exprCandsGo]
  | cons s rest ih =>
    rw [exprCandsGo_eq, ih, mem_addNew]
    constructor
    · rintro ((h | ⟨h1, h2, h3⟩) | ⟨k, st, h1, h2, h3, h4, h5⟩)
      · exact Or.inl h
      · exact Or.inr ⟨0, s, by simpa using h1, rfl, (mem_filter_versionsOf ..).mp h2, h3,
          fun j st' hj => absurd hj (Nat.not_lt_zero j)⟩
      · refine Or.inr ⟨k + 1, st, by omega, by simpa using h2, h3, ?_, ?_⟩
        · intro c' hc'
          exact h4 c' ((mem_addNew ..).mpr (Or.inl hc'))
        · intro j st' hj hget
          cases j with
          | zero =>
            simp at hget
            subst hget
            intro hsat
            -- then (i0, c.2) would already be a candidate
            by_cases hacc : ∃ c' ∈ acc, c'.2 = c.2
            · obtain ⟨c', hc', heq⟩ := hacc
              exact h4 c' ((mem_addNew ..).mpr (Or.inl hc')) heq
            · have : (i0, c.2) ∈ addNew i0 ((versionsOf s n f).filter fun v => vm v x) acc :=
                (mem_addNew ..).mpr (Or.inr ⟨rfl, (mem_filter_versionsOf ..).mpr hsat,
                  fun c' hc' heq => hacc ⟨c', hc', heq⟩⟩)
              exact h4 _ this rfl
          | succ j => exact h5 j st' (by omega) (by simpa using hget)
    · rintro (h | ⟨k, st, h1, h2, h3, h4, h5⟩)
      · exact Or.inl (Or.inl h)
      · cases k with
        | zero =>
          simp at h2
          subst h2
          exact Or.inl (Or.inr ⟨by simpa using h1, (mem_filter_versionsOf ..).mpr h3, h4⟩)
        | succ k =>
          refine Or.inr ⟨k, st, by omega, by simpa using h2, h3, ?_, ?_⟩
          · intro c' hc'
            rcases (mem_addNew ..).mp hc' with hc' | ⟨_, hc2, _⟩
            · exact h4 c' hc'
            · intro heq
              have hs := (mem_filter_versionsOf ..).mp hc2
              rw [heq] at hs
              exact h5 0 s (Nat.succ_pos k) rfl hs
          · intro j st' hj hget
            exact h5 (j + 1) st' (by omega) (by simpa using hget)

/-- a candidate is a satisfying version paired with the first stack in which it satisfies -/
theorem mem_exprCands (vm : Str → Str → Bool) (db : Db) (n f x : Str) (c : Nat × Str) :
    c ∈ exprCands vm db n f x ↔
      ∃ st, db[c.1]? = some st ∧ satisfies vm st n f x c.2 ∧
        ∀ j st', j < c.1 → db[j]? = some st' → ¬ satisfies vm st' n f x c.2 := by
  unfold exprCands
  rw [mem_exprCandsGo]
  constructor
  · rintro (h | ⟨k, st, h1, h2, h3, _, h5⟩)
    · simp at h
    · have : c.1 = k := by omega
      subst this
      exact ⟨st, h2, h3, h5⟩
  · rintro ⟨st, h2, h3, h5⟩
    exact Or.inr ⟨c.1, st, by omega, h2, h3, by simp, h5⟩

/-- candidates are unique by version -/
theorem exprCandsGo_unique (vm : Str → Str → Bool) (n f x : Str) (i0 : Nat) (acc : List (Nat × Str)) (db : Db)
    (hacc : acc.Pairwise (fun a b => a.2 ≠ b.2)) :
    (exprCandsGo vm n f x i0 acc db).Pairwise (fun a b => a.2 ≠ b.2) := by
  induction db generalizing i0 acc with
  | nil => simpa [exprCandsGo] using hacc
  | cons s rest ih =>
    rw [exprCandsGo_eq]
    apply ih
    generalize (versionsOf s n f).filter (fun v => vm v x) = vs
    induction vs generalizing acc with
    | nil => simpa [addNew] using hacc
    | cons v vs ihv =>
      have hstep : addNew i0 (v :: vs) acc =
          addNew i0 vs (if acc.any (fun c => c.2 == v) then acc else acc ++ [(i0, v)]) := rfl
      rw [hstep]
      apply ihv
      by_cases hany : acc.any (fun c => c.2 == v) = true
      · simpa [hany] using hacc
      · rw [if_neg hany, List.pairwise_append]
        refine ⟨hacc, by simp, ?_⟩
        intro a ha b hb
        simp at hb
        subst hb
        intro heq
        apply hany
        exact List.any_eq_true.mpr ⟨a, ha, by simpa using heq⟩


/-! ## the expression lookup -/

/-- there is a first stack in which a decidable condition holds -/
theorem exists_first {P : Stack → Bool} {db : Db} {j : Nat} {st : Stack} (hj : db[j]? = some st) (hP : P st = true) :
    ∃ (i : Nat) (sti : Stack), db[i]? = some sti ∧ P sti = true ∧
      ∀ (k : Nat) (st' : Stack), k < i → db[k]? = some st' → P st' = false := by
  cases h : firstStack (fun s => if P s then some () else none) 0 db with
  | none =>
    have := (firstStack_none_iff _ 0 db).mp h st (List.mem_of_getElem? hj)
    simp [hP] at this
  | some r =>
    obtain ⟨i, u⟩ := r
    obtain ⟨k, sti, hi, hget, hf, hmin⟩ := (firstStack_some_iff _ 0 db i u).mp h
    refine ⟨k, sti, hget, ?_, ?_⟩
    · by_cases hp : P sti = true
      · exact hp
      · simp [hp] at hf
    · intro k' st' hk hget'
      have := hmin k' st' hk hget'
      by_cases hp : P st' = true
      · simp [hp] at this
      · simpa using hp

def satisfiesB (vm : Str → Str → Bool) (n f x v : Str) (st : Stack) : Bool := declared st n v f && vm v x

theorem satisfiesB_iff (vm : Str → Str → Bool) (n f x v : Str) (st : Stack) :
    satisfiesB vm n f x v st = true ↔ satisfies vm st n f x v := by
  simp [satisfiesB, satisfies]

theorem selectLatest_some {cmp : Str → Str → Int} {f : Str} {cands : List (Nat × Str)} {p : Prod}
    (h : selectLatest cmp f cands = some p) :
    p.flavor = f ∧ (p.stack, p.version) ∈ cands ∧ lastMax cmp (cands.map (·.2)) = some p.version := by
  unfold selectLatest at h
  cases hm : lastMax cmp (cands.map (·.2)) with
  | none => simp [hm] at h
  | some m =>
    simp only [hm] at h
    cases hf : cands.find? (fun c => c.2 == m) with
    | none => simp [hf] at h
    | some c =>
      simp only [hf, Option.map_some, Option.some.injEq] at h
      subst h
      have hc := List.find?_some hf
      have hmem := List.mem_of_find?_eq_some hf
      have hc : c.2 = m := by simpa using hc
      refine ⟨rfl, ?_, ?_⟩
      · simpa using hmem
      · simp [hc]

theorem selectLatest_none {cmp : Str → Str → Int} {f : Str} {cands : List (Nat × Str)}
    (h : selectLatest cmp f cands = none) : cands = [] := by
  unfold selectLatest at h
  cases hm : lastMax cmp (cands.map (·.2)) with
  | none =>
    cases cands with
    | nil => rfl
    | cons c cs => simp [lastMax] at hm
  | some m =>
    simp only [hm] at h
    have hmem := lastMax_mem hm
    obtain ⟨c, hc, hcm⟩ := List.mem_map.mp hmem
    cases hf : cands.find? (fun c => c.2 == m) with
    | none =>
      have := List.find?_eq_none.mp hf c hc
      simp [hcm] at this
    | some c' => simp [hf] at h

/-- what the expression lookup returns: a satisfying version, from the first stack in which it
satisfies, and no satisfying version anywhere on the path is newer -/
theorem lookupExpr_some {P : Str → Prop} {o : Ord} (g : GoodOrdOn P o.cmp) {db : Db} (hP : DeclIn P db)
    {n f x : Str} {p : Prod} (h : lookupExpr o db n f x = some p) :
    p.flavor = f ∧
    (∃ st, db[p.stack]? = some st ∧ satisfies o.vmatch st n f x p.version ∧
        ∀ j st', j < p.stack → db[j]? = some st' → ¬ satisfies o.vmatch st' n f x p.version) ∧
    ∀ (j : Nat) (st : Stack) (w : Str), db[j]? = some st → satisfies o.vmatch st n f x w → o.cmp w p.version ≤ 0 := by
  obtain ⟨h1, h2, h3⟩ := selectLatest_some h
  refine ⟨h1, (mem_exprCands ..).mp h2, ?_⟩
  intro j st w hj hsat
  obtain ⟨i, sti, hi, hPi, hmin⟩ := exists_first (P := satisfiesB o.vmatch n f x w) hj ((satisfiesB_iff ..).mpr hsat)
  have hc : (i, w) ∈ exprCands o.vmatch db n f x := by
    apply (mem_exprCands ..).mpr
    refine ⟨sti, hi, (satisfiesB_iff ..).mp hPi, ?_⟩
    intro k st' hk hget hs
    have := hmin k st' hk hget
    rw [(satisfiesB_iff ..).mpr hs] at this
    cases this
  refine lastMax_max g h3 ?_ w (List.mem_map.mpr ⟨(i, w), hc, rfl⟩)
  intro y hy
  obtain ⟨c, hcm, rfl⟩ := List.mem_map.mp hy
  obtain ⟨stc, hgc, hsc, _⟩ := (mem_exprCands ..).mp hcm
  exact declIn_of_declared hP (List.mem_of_getElem? hgc) hsc.1

theorem lookupExpr_none {o : Ord} {db : Db} {n f x : Str} (h : lookupExpr o db n f x = none) :
    ∀ st ∈ db, ∀ w, ¬ satisfies o.vmatch st n f x w := by
  intro st hst w hsat
  have hnil := selectLatest_none h
  obtain ⟨j, hj, hget⟩ := List.mem_iff_getElem.mp hst
  have hj' : db[j]? = some st := by simp [List.getElem?_eq_getElem hj, hget]
  obtain ⟨i, sti, hi, hPi, hmin⟩ := exists_first (P := satisfiesB o.vmatch n f x w) hj' ((satisfiesB_iff ..).mpr hsat)
  have hc : (i, w) ∈ exprCands o.vmatch db n f x := by
    apply (mem_exprCands ..).mpr
    refine ⟨sti, hi, (satisfiesB_iff ..).mp hPi, ?_⟩
    intro k st' hk hget' hs
    have := hmin k st' hk hget'
    rw [(satisfiesB_iff ..).mpr hs] at this
    cases this
  rw [hnil] at hc
  cases hc

/-! ## explicit version and tag lookups -/

theorem lookupVersion_some_iff (db : Db) (n v f : Str) (p : Prod) :
    lookupVersion db n v f = some p ↔
      p.version = v ∧ p.flavor = f ∧
      (∃ st, db[p.stack]? = some st ∧ declared st n v f = true) ∧
      ∀ j st', j < p.stack → db[j]? = some st' → declared st' n v f = false := by
  unfold lookupVersion
  constructor
  · intro h
    cases hf : firstStack (fun st => if declared st n v f then some () else none) 0 db with
    | none => simp [hf] at h
    | some r =>
      obtain ⟨i, u⟩ := r
      simp only [hf, Option.map_some, Option.some.injEq] at h
      subst h
      obtain ⟨k, st, hi, hget, hd, hmin⟩ := (firstStack_some_iff _ 0 db i u).mp hf
      have hik : i = k := by omega
      subst hik
      refine ⟨rfl, rfl, ⟨st, hget, ?_⟩, ?_⟩
      · by_cases hp : declared st n v f = true
        · exact hp
        · simp [hp] at hd
      · intro j st' hj hget'
        have := hmin j st' hj hget'
        by_cases hp : declared st' n v f = true
        · simp [hp] at this
        · simpa using hp
  · rintro ⟨h1, h2, ⟨st, hget, hd⟩, hmin⟩
    have : firstStack (fun st => if declared st n v f then some () else none) 0 db = some (p.stack, ()) := by
      apply (firstStack_some_iff _ 0 db p.stack ()).mpr
      refine ⟨p.stack, st, by omega, hget, by simp [hd], ?_⟩
      intro j st' hj hget'
      simp [hmin j st' hj hget']
    rw [this]
    simp only [Option.map_some, Option.some.injEq]
    cases p
    simp_all

theorem lookupVersion_none_iff (db : Db) (n v f : Str) :
    lookupVersion db n v f = none ↔ ∀ st ∈ db, declared st n v f = false := by
  unfold lookupVersion
  rw [Option.map_eq_none_iff, firstStack_none_iff]
  constructor
  · intro h st hst
    have := h st hst
    by_cases hp : declared st n v f = true
    · simp [hp] at this
    · simpa using hp
  · intro h st hst
    simp [h st hst]

theorem lookupTag_some_iff (db : Db) (t n f : Str) (p : Prod) :
    lookupTag db t n f = some p ↔
      p.flavor = f ∧
      (∃ st, db[p.stack]? = some st ∧ tagHere st t n f = some p.version) ∧
      ∀ j st', j < p.stack → db[j]? = some st' → tagHere st' t n f = none := by
  unfold lookupTag
  constructor
  · intro h
    cases hf : firstStack (fun st => tagHere st t n f) 0 db with
    | none => simp [hf] at h
    | some r =>
      obtain ⟨i, v⟩ := r
      simp only [hf, Option.map_some, Option.some.injEq] at h
      subst h
      obtain ⟨k, st, hi, hget, hd, hmin⟩ := (firstStack_some_iff _ 0 db i v).mp hf
      have hik : i = k := by omega
      subst hik
      exact ⟨rfl, ⟨st, hget, hd⟩, hmin⟩
  · rintro ⟨h2, ⟨st, hget, hd⟩, hmin⟩
    have : firstStack (fun st => tagHere st t n f) 0 db = some (p.stack, p.version) := by
      apply (firstStack_some_iff _ 0 db p.stack p.version).mpr
      exact ⟨p.stack, st, by omega, hget, hd, hmin⟩
    rw [this]
    simp only [Option.map_some, Option.some.injEq]
    cases p
    simp_all

/-- the tag is usable in a stack iff the stack's chain file assigns it, for the flavor, to a version
the stack declares for that flavor -/
theorem tagHere_some_iff (st : Stack) (t n f v : Str) :
    tagHere st t n f = some v ↔ tagVersion st t n f = some v ∧ declared st n v f = true := by
  unfold tagHere
  cases h : tagVersion st t n f with
  | none => simp
  | some w =>
    by_cases hd : declared st n w f = true
    · simp only [hd, if_true, Option.some.injEq]
      constructor
      · rintro rfl; exact ⟨rfl, hd⟩
      · rintro ⟨h1, _⟩; exact h1
    · simp only [hd, Option.some.injEq]
      constructor
      · intro h; cases h
      · rintro ⟨rfl, h2⟩; exact absurd h2 hd


/-! ## what the loop body does for each kind of entry -/

theorem named_nonempty {r : Req} {v : Str} (h : r.named = some v) : v.isEmpty = false := by
  unfold Req.named at h
  cases hv : r.version with
  | none => simp [hv] at h
  | some w =>
    simp only [hv] at h
    by_cases hc : (w.isEmpty || r.ignoreVersions) = true
    · simp [hc] at h
    · simp only [hc] at h
      cases h
      have : ¬v = [] ∧ r.ignoreVersions = false := by simpa using hc
      simpa using this.1

theorem tagKey_latest (C : Ctx) : C.tagKey kLatest = some kLatest := by
  unfold Ctx.tagKey
  rw [if_pos (by decide)]
  simp

theorem tagKey_typeExact (C : Ctx) : C.tagKey kTypeExact = none := by
  unfold Ctx.tagKey
  rw [if_neg (by decide), if_neg (by decide), if_neg (by decide)]
  rfl

theorem lookupEntry_plainTag {C : Ctx} {r : Req} {e : Str} (post : List Str) (ht : isPlainTag C e = true) :
    lookupEntry C r e post =
      .ok (match lookupTag C.db e r.name r.flavor with
           | some p => .hit p e
           | none => .skip) := by
  simp only [isPlainTag, Bool.and_eq_true, Bool.not_eq_true', bne_iff_ne, ne_eq] at ht
  obtain ⟨⟨⟨⟨h1, h2⟩, h3⟩, h5⟩, h6⟩ := ht
  have h4 : (e == kPath) = false := by
    apply Bool.eq_false_iff.mpr; intro h; have : e = kPath := by simpa using h
    subst this; revert h3; decide
  have hk : (e == kKeep) = false := by
    apply Bool.eq_false_iff.mpr; intro h; have : e = kKeep := by simpa using h
    subst this; revert h3; decide
  have hc : (e == kCommandLine) = false := by
    apply Bool.eq_false_iff.mpr; intro h; have : e = kCommandLine := by simpa using h
    subst this; revert h3; decide
  have hs : (e == kSetup) = false := by
    apply Bool.eq_false_iff.mpr; intro h; have : e = kSetup := by simpa using h
    subst this; revert h3; decide
  have hvt : isVT e = false := by
    apply Bool.eq_false_iff.mpr; intro h
    have h3' : (e = kVersion ∨ e = kVersionBang) ∨ e = kVersionExpr := by simpa [isVT] using h
    rcases h3' with (rfl | rfl) | rfl <;> revert h3 <;> decide
  have hl : (e == kLatest) = false := by simpa using h2
  have hkey : C.tagKey e = some e := by
    simp only [Ctx.tagKey, h6, Bool.not_false, if_true, h1, Bool.true_or]
  cases hlt : lookupTag C.db e r.name r.flavor <;>
    simp [lookupEntry, h4, hk, hc, hvt, h5, hkey, hs, lookupTagEntry, hl, hlt]

/-- an entry that reaches the tag branch of the loop body with the chain-record name `key`: a recognised
tag, spelled in any accepted way (`t`, `global:t`, `:t`, a user tag `mine` or `user:mine`), that is
neither `latest` nor `setup` nor one of the directives tested earlier in the loop body -/
def IsTagEntry (C : Ctx) (e key : Str) : Prop :=
  C.tagKey e = some key ∧ key ≠ kLatest ∧ key ≠ kSetup ∧ e ≠ kPath ∧ e ≠ kKeep ∧ e ≠ kCommandLine ∧
    isVT e = false ∧ isWarn e = false

theorem lookupEntry_tagKey {C : Ctx} {r : Req} {e key : Str} (post : List Str) (h : IsTagEntry C e key) :
    lookupEntry C r e post =
      .ok (match lookupTag C.db key r.name r.flavor with
           | some p => .hit p e
           | none => .skip) := by
  obtain ⟨hk, hl, hs, h1, h2, h3, h4, h5⟩ := h
  have hl' : (key == kLatest) = false := by simpa using hl
  have hs' : (key == kSetup) = false := by simpa using hs
  have h1' : (e == kPath) = false := by simpa using h1
  have h2' : (e == kKeep) = false := by simpa using h2
  have h3' : (e == kCommandLine) = false := by simpa using h3
  cases hlt : lookupTag C.db key r.name r.flavor <;>
    simp [lookupEntry, h1', h2', h3', h4, h5, hk, lookupTagEntry, hl', hs', hlt]

theorem isTagEntry_of_plain {C : Ctx} {e : Str} (ht : isPlainTag C e = true) : IsTagEntry C e e := by
  simp only [isPlainTag, Bool.and_eq_true, Bool.not_eq_true', bne_iff_ne, ne_eq] at ht
  obtain ⟨⟨⟨⟨h1, h2⟩, h3⟩, h5⟩, h6⟩ := ht
  have np : ∀ k, pseudoTags.contains k = true → e ≠ k := by
    intro k hk he; rw [he, hk] at h3; cases h3
  refine ⟨?_, h2, np _ (by decide), np _ (by decide), np _ (by decide), np _ (by decide), ?_, h5⟩
  · simp only [Ctx.tagKey, h6, Bool.not_false, if_true, h1, Bool.true_or]
  · apply Bool.eq_false_iff.mpr; intro h
    have h3' : (e = kVersion ∨ e = kVersionBang) ∨ e = kVersionExpr := by simpa [isVT] using h
    rcases h3' with (h | h) | h
    · exact np _ (by decide) h
    · exact np _ (by decide) h
    · exact np _ (by decide) h

/-- the `setup` pseudo-tag -/
theorem lookupEntry_setup (C : Ctx) (r : Req) (post : List Str) (hi : r.ignoreVersions = false) :
    lookupEntry C r kSetup post =
      .ok (match lookupSetup C r with
           | some p => .hit p kSetup
           | none => .skip) := by
  have hk : C.tagKey kSetup = some kSetup := by
    unfold Ctx.tagKey
    rw [if_pos (by decide)]
    simp [show kSetup ∈ pseudoTags by decide]
  cases hls : lookupSetup C r <;>
    simp [lookupEntry, show (kSetup == kPath) = false by decide, show (kSetup == kKeep) = false by decide,
      show (kSetup == kCommandLine) = false by decide, show isVT kSetup = false by decide,
      show isWarn kSetup = false by decide, hk, hi, lookupTagEntry, show (kSetup == kLatest) = false by decide, hls]

/-- an explicit version at a version-type entry, no separate expression in force -/
theorem lookupVT_explicit {C : Ctx} {r : Req} {e v : Str} (post : List Str)
    (hex : isExpr v = .ok false) (hx : e = kVersionExpr → r.vexpr = none) :
    lookupVT C r e post v =
      match lookupVersion C.db r.name v r.flavor with
      | some p => .ok (.hit p (if r.depth == 0 then kCommandLine else kVersion))
      | none =>
        match localProd C v with
        | some p => .ok (.hit p (if r.depth == 0 then kCommandLine else kPathFromVersion))
        | none => if post.any isVT then .ok .skip else .ok .abort := by
  unfold lookupVT
  rw [hex]
  cases hlv : lookupVersion C.db r.name v r.flavor <;> cases hlp : localProd C v <;>
  · by_cases he : e = kVersionExpr
    · simp [he, hx he, exprPart]
    · have : (e == kVersionExpr) = false := by simpa using he
      simp [this, exprPart]

/-- an expression at a `versionExpr` entry -/
theorem lookupVT_expr {C : Ctx} {r : Req} {v : Str} (post : List Str)
    (hex : isExpr v = .ok true) (hne : v.isEmpty = false) :
    lookupVT C r kVersionExpr post v =
      match lookupExpr C.ord C.db r.name r.flavor v with
      | some p => .ok (.hit p kVersionExpr)
      | none =>
        match lookupVersion C.db r.name v r.flavor with
        | some p => .ok (.hit p (if r.depth == 0 then kCommandLine else kVersion))
        | none =>
          match localProd C v with
          | some p => .ok (.hit p (if r.depth == 0 then kCommandLine else kPathFromVersion))
          | none => if post.any isVT then .ok .skip else .ok .abort := by
  unfold lookupVT
  rw [hex]
  simp only [bne_self_eq_false, Bool.and_false, Bool.false_eq_true, if_false, beq_self_eq_true, if_true,
    exprPart, hne, hex]
  cases lookupExpr C.ord C.db r.name r.flavor v <;> cases lookupVersion C.db r.name v r.flavor <;>
    cases localProd C v <;> rfl


/-! ## views: lookups for a flavor depend on the stacks only through that flavor's records -/

/-- two stacks hold the same records for flavor `f` -/
def AgreeAt (f : Str) (st st' : Stack) : Prop :=
  st.decls.filter (fun d => d.flavor == f) = st'.decls.filter (fun d => d.flavor == f) ∧
  st.tags.filter (fun t => t.flavor == f) = st'.tags.filter (fun t => t.flavor == f)

theorem agreeAt_refl (f : Str) (st : Stack) : AgreeAt f st st := ⟨rfl, rfl⟩

theorem agreeAt_restrict {f : Str} {loaded : List Str} (hf : f ∈ loaded) (st : Stack) :
    AgreeAt f (restrictStack loaded st) st := by
  constructor
  · simp only [restrictStack, List.filter_filter]
    congr 1
    funext d
    by_cases hd : (d.flavor == f) = true
    · have : d.flavor = f := by simpa using hd
      simp [this, hf]
    · simp [hd]
  · simp only [restrictStack, List.filter_filter]
    congr 1
    funext t
    by_cases hd : (t.flavor == f) = true
    · have : t.flavor = f := by simpa using hd
      simp [this, hf]
    · simp [hd]

theorem any_filter_irrelevant {α : Type} (l : List α) (q p : α → Bool) (h : ∀ x, p x = true → q x = true) :
    l.any p = (l.filter q).any p := by
  induction l with
  | nil => rfl
  | cons x xs ih =>
    by_cases hq : q x = true
    · simp [hq, ih]
    · have : p x = false := by
        apply Bool.eq_false_iff.mpr; intro hp; exact hq (h x hp)
      simp [hq, this, ih]

theorem declared_congr {f : Str} {st st' : Stack} (h : AgreeAt f st st') (n v : Str) :
    declared st n v f = declared st' n v f := by
  unfold declared
  rw [any_filter_irrelevant st.decls (fun d => d.flavor == f), any_filter_irrelevant st'.decls (fun d => d.flavor == f), h.1]
  · intro d hd; simp at hd; simp [hd.2]
  · intro d hd; simp at hd; simp [hd.2]

theorem find?_filter_irrelevant {α : Type} (l : List α) (q p : α → Bool) (h : ∀ x, p x = true → q x = true) :
    l.find? p = (l.filter q).find? p := by
  induction l with
  | nil => rfl
  | cons x xs ih =>
    by_cases hq : q x = true
    · by_cases hp : p x = true
      · simp [hq, hp]
      · simp [hq, hp, ih]
    · have : p x = false := by
        apply Bool.eq_false_iff.mpr; intro hp; exact hq (h x hp)
      simp [hq, this, ih]

theorem tagVersion_congr {f : Str} {st st' : Stack} (h : AgreeAt f st st') (t n : Str) :
    tagVersion st t n f = tagVersion st' t n f := by
  unfold tagVersion
  rw [find?_filter_irrelevant st.tags (fun r => r.flavor == f), find?_filter_irrelevant st'.tags (fun r => r.flavor == f), h.2]
  · intro d hd; simp at hd; simp [hd.2]
  · intro d hd; simp at hd; simp [hd.2]

theorem tagHere_congr {f : Str} {st st' : Stack} (h : AgreeAt f st st') (t n : Str) :
    tagHere st t n f = tagHere st' t n f := by
  unfold tagHere
  rw [tagVersion_congr h]
  cases tagVersion st' t n f with
  | none => rfl
  | some v => simp only [declared_congr h]

theorem versionsOf_congr {f : Str} {st st' : Stack} (h : AgreeAt f st st') (n : Str) :
    versionsOf st n f = versionsOf st' n f := by
  unfold versionsOf
  have : ∀ l : List Decl, l.filter (fun d => d.name == n && d.flavor == f) =
      (l.filter (fun d => d.flavor == f)).filter (fun d => d.name == n && d.flavor == f) := by
    intro l
    rw [List.filter_filter]
    congr 1
    funext d
    by_cases hf : (d.flavor == f) = true <;> simp [hf]
  rw [this st.decls, this st'.decls, h.1]

/-- two views agree, stack by stack, on the records of flavor `f` -/
inductive ViewsAgree (f : Str) : Db → Db → Prop where
  | nil : ViewsAgree f [] []
  | cons {st st' : Stack} {db db' : Db} : AgreeAt f st st' → ViewsAgree f db db' →
      ViewsAgree f (st :: db) (st' :: db')

theorem viewsAgree_refl (f : Str) (db : Db) : ViewsAgree f db db := by
  induction db with
  | nil => exact .nil
  | cons st rest ih => exact .cons (agreeAt_refl f st) ih

theorem firstStack_congr {α : Type} {f : Str} {g g' : Stack → Option α} {db db' : Db}
    (h : ViewsAgree f db db') (hg : ∀ st st', AgreeAt f st st' → g st = g' st') (i : Nat) :
    firstStack g i db = firstStack g' i db' := by
  induction h generalizing i with
  | nil => rfl
  | cons hst _ ih => simp only [firstStack, hg _ _ hst, ih]

theorem lookupVersion_congr {f : Str} {db db' : Db} (h : ViewsAgree f db db') (n v : Str) :
    lookupVersion db n v f = lookupVersion db' n v f := by
  unfold lookupVersion
  rw [firstStack_congr (g' := fun st => if declared st n v f then some () else none) h]
  intro st st' hst
  simp only [declared_congr hst]

theorem lookupTag_congr {f : Str} {db db' : Db} (h : ViewsAgree f db db') (t n : Str) :
    lookupTag db t n f = lookupTag db' t n f := by
  unfold lookupTag
  rw [firstStack_congr (g' := fun st => tagHere st t n f) h]
  intro st st' hst
  exact tagHere_congr hst t n

theorem latestGo_congr {f : Str} {db db' : Db} (h : ViewsAgree f db db')
    (cmp : Str → Str → Int) (n : Str) (i : Nat) (out : Option Prod) :
    latestGo cmp n f i out db = latestGo cmp n f i out db' := by
  induction h generalizing i out with
  | nil => rfl
  | cons hst _ ih =>
    simp only [latestGo, versionsOf_congr hst]
    split
    · exact ih _ _
    · split
      · exact ih _ _
      · split <;> exact ih _ _

theorem exprCandsGo_congr {f : Str} {db db' : Db} (h : ViewsAgree f db db')
    (vm : Str → Str → Bool) (n x : Str) (i : Nat) (acc : List (Nat × Str)) :
    exprCandsGo vm n f x i acc db = exprCandsGo vm n f x i acc db' := by
  induction h generalizing i acc with
  | nil => rfl
  | cons hst _ ih =>
    simp only [exprCandsGo, versionsOf_congr hst]
    exact ih _ _

theorem lookupExpr_congr {f : Str} {db db' : Db} (h : ViewsAgree f db db') (o : Ord) (n x : Str) :
    lookupExpr o db n f x = lookupExpr o db' n f x := by
  unfold lookupExpr exprCands
  rw [exprCandsGo_congr h]

theorem lookupLatest_congr {f : Str} {db db' : Db} (h : ViewsAgree f db db')
    (cmp : Str → Str → Int) (n : Str) : lookupLatest cmp db n f = lookupLatest cmp db' n f :=
  latestGo_congr h cmp n 0 none

theorem viewsAgree_length {f : Str} {db db' : Db} (h : ViewsAgree f db db') : db.length = db'.length := by
  induction h with
  | nil => rfl
  | cons _ _ ih => simp [ih]

theorem setupAt_congr {f : Str} {db db' : Db} (h : ViewsAgree f db db') (n v : Str) (i j : Nat) :
    (match db[i]? with
      | some st => if declared st n v f then some (⟨v, f, j⟩ : Prod) else none
      | none => none) =
    (match db'[i]? with
      | some st => if declared st n v f then some (⟨v, f, j⟩ : Prod) else none
      | none => none) := by
  induction h generalizing i with
  | nil => simp
  | cons hst _ ih =>
    cases i with
    | zero => simp [declared_congr hst]
    | succ k => simpa using ih k

theorem lookupSetup_congr {C C' : Ctx} {r : Req} (hlen : C.db.length = C'.db.length)
    (hdl : ViewsAgree r.flavor C.dbLatest C'.dbLatest) : lookupSetup C r = lookupSetup C' r := by
  unfold lookupSetup
  cases hs : r.setupEnv with
  | none => rfl
  | some s =>
    simp only [hlen]
    by_cases hf : s.flavor = r.flavor
    · cases hst : s.stack with
      | none => rfl
      | some i =>
        have := setupAt_congr hdl r.name s.version i i
        rw [← hf] at this
        simp only [Option.getD_some]
        split
        · rfl
        · split
          · rfl
          · exact this
    · have : (s.flavor != r.flavor) = true := by simpa using hf
      simp [this]

/-- two contexts whose views agree, stack by stack, on the records of the request's flavor give the
same answer at every entry -/
theorem lookupEntry_view_congr {C C' : Ctx} {r : Req} (ho : C.ord = C'.ord) (hg : C.globalTags = C'.globalTags)
    (hu : C.userTags = C'.userTags) (hd : C.dirs = C'.dirs)
    (hdb : ViewsAgree r.flavor C.db C'.db)
    (hdl : ViewsAgree r.flavor C.dbLatest C'.dbLatest) (e : Str) (post : List Str) :
    lookupEntry C r e post = lookupEntry C' r e post := by
  have hlen := viewsAgree_length hdb
  have hkey : ∀ e, C.tagKey e = C'.tagKey e := by intro e; simp [Ctx.tagKey, hg, hu]
  have hloc : ∀ v, localProd C v = localProd C' v := by intro v; simp [localProd, hd, hlen]
  have hvt : ∀ v, lookupVT C r e post v = lookupVT C' r e post v := by
    intro v
    unfold lookupVT exprPart
    simp only [ho, lookupExpr_congr hdb, lookupVersion_congr hdb, hloc]
  have htag : ∀ key, lookupTagEntry C r e key = lookupTagEntry C' r e key := by
    intro key
    unfold lookupTagEntry
    simp only [ho, lookupLatest_congr hdl, lookupTag_congr hdb, lookupSetup_congr hlen hdl]
  simp only [lookupEntry, hkey, hvt, htag]

theorem walk_view_congr {C C' : Ctx} {r : Req} (ho : C.ord = C'.ord) (hg : C.globalTags = C'.globalTags)
    (hu : C.userTags = C'.userTags) (hd : C.dirs = C'.dirs)
    (hdb : ViewsAgree r.flavor C.db C'.db)
    (hdl : ViewsAgree r.flavor C.dbLatest C'.dbLatest) (vro : List Str) :
    walk C r vro = walk C' r vro := by
  induction vro with
  | nil => rfl
  | cons e post ih => simp only [walk, lookupEntry_view_congr ho hg hu hd hdb hdl, ih]

theorem find_view_congr {C C' : Ctx} {r : Req} (ho : C.ord = C'.ord) (hg : C.globalTags = C'.globalTags)
    (hu : C.userTags = C'.userTags) (hd : C.dirs = C'.dirs)
    (hdb : ViewsAgree r.flavor C.db C'.db)
    (hdl : ViewsAgree r.flavor C.dbLatest C'.dbLatest) (vro : List Str) :
    find C r vro = find C' r vro := by
  simp only [find, walk_view_congr ho hg hu hd hdb hdl]

/-- the cache view of a database agrees with the database on every flavor the process loads,
whatever was accepted -/
theorem cacheView_agree {f : Str} {loaded : List Str} (hf : f ∈ loaded) (accepted : List Bool) (db : Db) :
    ViewsAgree f (cacheView loaded accepted db) db := by
  induction db generalizing accepted with
  | nil => cases accepted <;> exact .nil
  | cons st rest ih =>
    cases accepted with
    | nil =>
      simp only [cacheView]
      exact viewsAgree_refl _ _
    | cons a as =>
      simp only [cacheView]
      refine .cons ?_ (ih as)
      cases a
      · exact agreeAt_refl _ _
      · exact agreeAt_restrict hf _

/-- when no stack's cache was accepted the cache view is the database -/
theorem cacheView_all_rebuilt (native : List Str) (accepted : List Bool) (db : Db)
    (h : ∀ b ∈ accepted, b = false) : cacheView native accepted db = db := by
  induction db generalizing accepted with
  | nil => cases accepted <;> simp [cacheView]
  | cons st rest ih =>
    cases accepted with
    | nil => simp [cacheView]
    | cons a as =>
      have ha : a = false := h a (by simp)
      subst ha
      simp only [cacheView]
      rw [ih as (fun b hb => h b (List.mem_cons_of_mem _ hb))]
      rfl

/-! ## the flavor of what a walk returns -/

theorem latestGo_flavor {cmp : Str → Str → Int} {n f : Str} {i : Nat} {out : Option Prod} {db : Db} {p : Prod}
    (hout : ∀ q, out = some q → q.flavor = f) (h : latestGo cmp n f i out db = some p) : p.flavor = f := by
  induction db generalizing i out with
  | nil => exact hout p (by simpa [latestGo] using h)
  | cons st rest ih =>
    simp only [latestGo] at h
    split at h
    · exact ih hout h
    · split at h
      · exact ih (by intro q hq; cases hq; rfl) h
      · split at h
        · exact ih (by intro q hq; cases hq; rfl) h
        · exact ih hout h

theorem lookupSetup_flavor {C : Ctx} {r : Req} {p : Prod} (h : lookupSetup C r = some p) : p.flavor = r.flavor := by
  unfold lookupSetup at h
  split at h
  · cases h
  · rename_i s _
    split at h
    · cases h
    · rename_i hf
      have hf' : s.flavor = r.flavor := by simpa using hf
      split at h
      · cases h; exact hf'
      · split at h
        · cases h
        · split at h
          · split at h
            · cases h; exact hf'
            · cases h
          · cases h

/-- the request does not name a `LOCAL:` directory that exists (such a product has no flavor) -/
def NoLocal (C : Ctx) (r : Req) : Prop := ∀ v, r.named = some v → localProd C v = none

theorem lookupEntry_flavor {C : Ctx} {r : Req} {e : Str} {post : List Str} {p : Prod} {reason : Str}
    (hr : r.already = none) (hloc : NoLocal C r)
    (h : lookupEntry C r e post = .ok (.hit p reason)) : p.flavor = r.flavor := by
  unfold lookupEntry at h
  simp only [hr] at h
  split at h
  · cases h
  · split at h
    · cases h
    · split at h
      · cases h
      · split at h
        · -- version-type entry
          split at h
          · cases h
          · rename_i v hv
            have hlv := hloc v hv
            unfold lookupVT at h
            split at h
            · cases h
            · split at h
              · split at h <;> cases h
              · split at h
                · cases h
                · rename_i q hq
                  cases h
                  unfold exprPart at hq
                  split at hq
                  · cases hq
                  · split at hq
                    · cases hq
                    · split at hq
                      · cases hq
                      · rename_i x _ _ _
                        simp only [Except.ok.injEq] at hq
                        exact (selectLatest_some hq).1
                      · cases hq
                · split at h
                  · rename_i q hq
                    cases h
                    exact ((lookupVersion_some_iff ..).mp hq).2.1
                  · simp only [hlv] at h
                    split at h <;> cases h
        · split at h
          · split at h <;> cases h
          · split at h
            · split at h
              · cases h
              · simp only [Except.ok.injEq] at h
                unfold lookupTagEntry at h
                split at h
                · rename_i q hq
                  cases h
                  split at hq
                  · exact latestGo_flavor (by intro q hq; cases hq) hq
                  · split at hq
                    · exact lookupSetup_flavor hq
                    · exact ((lookupTag_some_iff ..).mp hq).1
                · cases h
            · split at h
              · split at h <;> cases h
              · cases h

theorem walk_flavor {C : Ctx} {r : Req} {vro : List Str} {h : Hit}
    (hr : r.already = none) (hloc : NoLocal C r) (hw : walk C r vro = .ok (some h)) : h.prod.flavor = r.flavor := by
  obtain ⟨pre, post, _, h1, _⟩ := (walk_hit_iff C r vro h).mp hw
  exact lookupEntry_flavor hr hloc h1

/-! ## the flavor loop -/

theorem find_eq_walk {C : Ctx} {r : Req} (vro : List Str) (hr : r.already = none) : find C r vro = walk C r vro := by
  unfold find
  cases hw : walk C r vro with
  | error e => rfl
  | ok o =>
    cases o with
    | none => rfl
    | some h => simp [applyAlready, hr]

theorem resolveFlavor_of_find_some {C : Ctx} {r : Req} {keep : Bool} {fuel : Nat} {vro : List Str} {h : Hit}
    (hf : find C r vro = .ok (some h)) (hacc : acceptableB r h = .ok true) :
    resolveFlavor C r keep (fuel + 1) vro = .ok (some h) := by
  have hne : vro.isEmpty = false := by
    cases vro with
    | nil => simp [find, walk] at hf
    | cons _ _ => rfl
  unfold resolveFlavor
  simp only [hne, hf, hacc]
  rfl

theorem resolveFlavor_of_find_none {C : Ctx} {r : Req} {keep : Bool} {fuel : Nat} {vro : List Str}
    (hr : r.already = none) (hf : find C r vro = .ok none) :
    resolveFlavor C r keep (fuel + 1) vro = .ok none := by
  unfold resolveFlavor
  by_cases hne : vro.isEmpty = true
  · simp [hne]
  · simp only [hne, hf, hr]
    rfl

/-! ## which errors can occur where -/

theorem isExpr_error {v : Str} {err : Err} (h : isExpr v = .error err) : err = .badExpr := by
  unfold isExpr at h
  split at h
  · cases h
  · split at h
    · cases h; rfl
    · cases h

theorem exprPart_error {C : Ctx} {r : Req} {x : Option Str} {err : Err} (h : exprPart C r x = .error err) :
    err = .badExpr := by
  unfold exprPart at h
  split at h
  · cases h
  · split at h
    · cases h
    · split at h
      · rename_i e' he; cases h; exact isExpr_error he
      · cases h
      · cases h

theorem lookupVT_error {C : Ctx} {r : Req} {e v : Str} {post : List Str} {err : Err}
    (h : lookupVT C r e post v = .error err) : err = .badExpr := by
  unfold lookupVT at h
  split at h
  · rename_i e' he; cases h; exact isExpr_error he
  · split at h
    · split at h <;> cases h
    · split at h
      · rename_i e' he; cases h; exact exprPart_error he
      · cases h
      · split at h
        · cases h
        · split at h
          · cases h
          · split at h <;> cases h

theorem lookupEntry_error {C : Ctx} {r : Req} {e : Str} {post : List Str} {err : Err}
    (h : lookupEntry C r e post = .error err) : err ≠ .outOfFuel := by
  unfold lookupEntry at h
  repeat' (split at h)
  all_goals first
    | (cases h; intro hc; cases hc)
    | (have := lookupVT_error h; subst this; intro hc; cases hc)
    | (cases h)

theorem walk_error {C : Ctx} {r : Req} {vro : List Str} {err : Err} (h : walk C r vro = .error err) :
    err ≠ .outOfFuel := by
  induction vro with
  | nil => cases h
  | cons e post ih =>
    unfold walk at h
    split at h
    · rename_i e' he; cases h; exact lookupEntry_error he
    · exact ih h
    · cases h
    · cases h

theorem find_error {C : Ctx} {r : Req} {vro : List Str} {err : Err} (h : find C r vro = .error err) :
    err ≠ .outOfFuel := by
  unfold find at h
  split at h
  · rename_i e' he; cases h; exact walk_error he
  · cases h
  · cases h

theorem acceptableB_error {r : Req} {h : Hit} {err : Err} (ha : acceptableB r h = .error err) : err = .badExpr := by
  unfold acceptableB at ha
  split at ha
  · cases ha
  · split at ha
    · split at ha
      · rename_i e' he; cases ha; exact isExpr_error he
      · cases ha
    · cases ha

/-- the recursion of the flavor loop never runs out of the fuel `resolve` gives it: every retry
continues on a strictly shorter VRO -/
theorem resolveFlavor_fuel (C : Ctx) (r : Req) (keep : Bool) (fuel : Nat) (vro : List Str)
    (h : vro.length < fuel) : resolveFlavor C r keep fuel vro ≠ .error .outOfFuel := by
  induction fuel generalizing vro with
  | zero => omega
  | succ fuel ih =>
    intro hc
    unfold resolveFlavor at hc
    split at hc
    · cases hc
    · rename_i hne
      have hpos : 0 < vro.length := by
        cases vro with
        | nil => simp at hne
        | cons _ _ => simp
      split at hc
      · rename_i e' he; cases hc; exact find_error he rfl
      · simp only at hc
        split at hc
        · cases hc
        · split at hc
          · rename_i e' he; cases hc; have := acceptableB_error he; cases this
          · cases hc
          · split at hc
            · cases hc
            · split at hc
              · cases hc
              · refine ih _ ?_ hc
                simp only [List.length_drop]
                omega


/-! ## `latest` -/

/-- what `latestGo` knows after the first `i` stacks of `full` -/
def LatestInv (cmp : Str → Str → Int) (full : Db) (n f : Str) (i : Nat) (out : Option Prod) : Prop :=
  match out with
  | none => ∀ (j : Nat) (st : Stack) (w : Str), j < i → full[j]? = some st → declared st n w f = false
  | some o =>
    o.flavor = f ∧ (∃ st, full[o.stack]? = some st ∧ declared st n o.version f = true) ∧
    ∀ (j : Nat) (st : Stack) (w : Str), j < i → full[j]? = some st → declared st n w f = true →
      cmp w o.version ≤ 0

theorem latestGo_inv {P : Str → Prop} {cmp : Str → Str → Int} (g : GoodOrdOn P cmp) (full : Db) (hP : DeclIn P full)
    (n f : Str) (pre rest : Db) (hfull : full = pre ++ rest) (out : Option Prod)
    (hinv : LatestInv cmp full n f pre.length out) :
    LatestInv cmp full n f full.length (latestGo cmp n f pre.length out rest) := by
  induction rest generalizing pre out with
  | nil =>
    simp only [latestGo]
    have : full.length = pre.length := by rw [hfull]; simp
    rw [this]; exact hinv
  | cons st rest ih =>
    have hget : full[pre.length]? = some st := by rw [hfull]; simp
    have hstm : st ∈ full := List.mem_of_getElem? hget
    have hPd : ∀ {j : Nat} {st' : Stack} {w : Str}, full[j]? = some st' → declared st' n w f = true → P w :=
      fun hg hd => declIn_of_declared hP (List.mem_of_getElem? hg) hd
    have hfull' : full = (pre ++ [st]) ++ rest := by rw [hfull]; simp
    have hlen : (pre ++ [st]).length = pre.length + 1 := by simp
    simp only [latestGo]
    cases hm : lastMax cmp (versionsOf st n f) with
    | none =>
      -- the stack declares nothing for (n, f)
      have hnil : versionsOf st n f = [] := by
        cases hv : versionsOf st n f with
        | nil => rfl
        | cons a as => rw [hv] at hm; simp [lastMax] at hm
      have hno : ∀ w, declared st n w f = false := by
        intro w
        cases hd : declared st n w f
        · rfl
        · have := (mem_versionsOf st n f w).mpr hd
          rw [hnil] at this; cases this
      have := ih (pre ++ [st]) hfull' out (by
        rw [hlen]
        cases out with
        | none =>
          intro j st' w hj hgetj
          rcases Nat.lt_succ_iff_lt_or_eq.mp hj with hj | hj
          · exact hinv j st' w hj hgetj
          · subst hj; rw [hget] at hgetj; cases hgetj; exact hno w
        | some o =>
          obtain ⟨h1, h2, h3⟩ := hinv
          refine ⟨h1, h2, ?_⟩
          intro j st' w hj hgetj hd
          rcases Nat.lt_succ_iff_lt_or_eq.mp hj with hj | hj
          · exact h3 j st' w hj hgetj hd
          · subst hj; rw [hget] at hgetj; cases hgetj; rw [hno w] at hd; cases hd)
      rw [hlen] at this
      exact this
    | some v =>
      have hv : declared st n v f = true := (mem_versionsOf st n f v).mp (lastMax_mem hm)
      have hmax : ∀ w, declared st n w f = true → cmp w v ≤ 0 :=
        fun w hw => lastMax_max g hm
          (fun y hy => declIn_of_declared hP hstm ((mem_versionsOf st n f y).mp hy)) w ((mem_versionsOf st n f w).mpr hw)
      -- the invariant for "v from this stack is the new answer"
      have hnew : (∀ (j : Nat) (st' : Stack) (w : Str), j < pre.length → full[j]? = some st' →
          declared st' n w f = true → cmp w v ≤ 0) →
          LatestInv cmp full n f (pre ++ [st]).length (some ⟨v, f, pre.length⟩) := by
        intro hearlier
        refine ⟨rfl, ⟨st, hget, hv⟩, ?_⟩
        intro j st' w hj hgetj hd
        rw [hlen] at hj
        rcases Nat.lt_succ_iff_lt_or_eq.mp hj with hj | hj
        · exact hearlier j st' w hj hgetj hd
        · subst hj; rw [hget] at hgetj; cases hgetj; exact hmax w hd
      cases out with
      | none =>
        simp only
        have := ih (pre ++ [st]) hfull' _ (hnew (by
          intro j st' w hj hgetj hd
          rw [hinv j st' w hj hgetj] at hd; cases hd))
        rw [hlen] at this
        exact this
      | some o =>
        obtain ⟨h1, h2, h3⟩ := hinv
        simp only
        by_cases hgt : 0 < cmp v o.version
        · simp only [hgt, if_true]
          have := ih (pre ++ [st]) hfull' _ (hnew (by
            intro j st' w hj hgetj hd
            obtain ⟨sto, hgo, hdo⟩ := h2
            exact g.trans _ _ _ (hPd hgetj hd) (hPd hgo hdo) (hPd hget hv) (h3 j st' w hj hgetj hd)
              (g.flip _ _ (hPd hget hv) (hPd hgo hdo) (by omega))))
          rw [hlen] at this
          exact this
        · simp only [hgt, if_false]
          have := ih (pre ++ [st]) hfull' (some o) (by
            refine ⟨h1, h2, ?_⟩
            intro j st' w hj hgetj hd
            rw [hlen] at hj
            rcases Nat.lt_succ_iff_lt_or_eq.mp hj with hj | hj
            · exact h3 j st' w hj hgetj hd
            · subst hj; rw [hget] at hgetj; cases hgetj
              obtain ⟨sto, hgo, hdo⟩ := h2
              exact g.trans _ _ _ (hPd hget hd) (hPd hget hv) (hPd hgo hdo) (hmax w hd) (by omega))
          rw [hlen] at this
          exact this

/-- `latest`: a declared version such that no declared version anywhere on the path is newer -/
theorem lookupLatest_some {P : Str → Prop} {cmp : Str → Str → Int} (g : GoodOrdOn P cmp) {db : Db}
    (hP : DeclIn P db) {n f : Str} {p : Prod} (h : lookupLatest cmp db n f = some p) :
    p.flavor = f ∧ (∃ st, db[p.stack]? = some st ∧ declared st n p.version f = true) ∧
    ∀ (j : Nat) (st : Stack) (w : Str), db[j]? = some st → declared st n w f = true → cmp w p.version ≤ 0 := by
  have := latestGo_inv g db hP n f [] db rfl none (by intro j st w hj; cases hj)
  unfold lookupLatest at h
  simp only [List.length_nil] at this
  rw [h] at this
  obtain ⟨h1, h2, h3⟩ := this
  refine ⟨h1, h2, ?_⟩
  intro j st w hget hd
  have hj : j < db.length := by
    cases Nat.lt_or_ge j db.length with
    | inl h => exact h
    | inr h =>
      have : db[j]? = none := List.getElem?_eq_none h
      rw [this] at hget; cases hget
  exact h3 j st w hj hget hd

theorem lookupLatest_none {P : Str → Prop} {cmp : Str → Str → Int} (g : GoodOrdOn P cmp) {db : Db}
    (hP : DeclIn P db) {n f : Str} (h : lookupLatest cmp db n f = none) : ∀ st ∈ db, ∀ w, declared st n w f = false := by
  have := latestGo_inv g db hP n f [] db rfl none (by intro j st w hj; cases hj)
  unfold lookupLatest at h
  simp only [List.length_nil] at this
  rw [h] at this
  intro st hst w
  obtain ⟨j, hj, hget⟩ := List.mem_iff_getElem.mp hst
  exact this j st w hj (by simp [List.getElem?_eq_getElem hj, hget])


/-! ## the driver's local order satisfies the order hypotheses -/

theorem cmpComps_refl (a : List Nat) : cmpComps a a = 0 := by
  induction a with
  | nil => rfl
  | cons x xs ih => simp [cmpComps, ih]

theorem cmpComps_range (a b : List Nat) : cmpComps a b = -1 ∨ cmpComps a b = 0 ∨ cmpComps a b = 1 := by
  induction a generalizing b with
  | nil => cases b <;> simp [cmpComps]
  | cons x xs ih =>
    cases b with
    | nil => simp [cmpComps]
    | cons y ys =>
      simp only [cmpComps]
      split
      · simp
      · split
        · simp
        · exact ih ys

theorem cmpComps_antisymm (a b : List Nat) : cmpComps b a = - cmpComps a b := by
  induction a generalizing b with
  | nil => cases b <;> simp [cmpComps]
  | cons x xs ih =>
    cases b with
    | nil => simp [cmpComps]
    | cons y ys =>
      simp only [cmpComps]
      by_cases h1 : x < y
      · have : ¬ y < x := by omega
        simp [h1, this]
      · by_cases h2 : y < x
        · simp [h1, h2]
        · simp [h1, h2, ih ys]

theorem cmpComps_trans (a b c : List Nat) (h1 : cmpComps a b ≤ 0) (h2 : cmpComps b c ≤ 0) : cmpComps a c ≤ 0 := by
  induction a generalizing b c with
  | nil => cases c <;> simp [cmpComps]
  | cons x xs ih =>
    cases b with
    | nil => simp [cmpComps] at h1
    | cons y ys =>
      cases c with
      | nil => simp [cmpComps] at h2
      | cons z zs =>
        simp only [cmpComps] at h1 h2 ⊢
        by_cases hxy : x < y
        · by_cases hyz : y < z
          · have : x < z := by omega
            simp [this]
          · by_cases hzy : z < y
            · simp [hyz, hzy] at h2
            · have : x < z := by omega
              simp [this]
        · by_cases hyx : y < x
          · simp [hxy, hyx] at h1
          · have hxy' : x = y := by omega
            subst hxy'
            simp only [hxy, if_false] at h1
            by_cases hxz : x < z
            · simp [hxz]
            · by_cases hzx : z < x
              · simp [hxz, hzx] at h2
              · simp only [hxz, hzx, if_false] at h2 ⊢
                exact ih ys zs h1 h2

theorem simpleCmp_good : GoodOrd simpleCmp where
  refl a _ := by simp [simpleCmp, cmpComps_refl]
  flip a b _ _ h := by
    unfold simpleCmp at h ⊢
    rw [cmpComps_antisymm]
    omega
  trans a b c _ _ _ h1 h2 := cmpComps_trans _ _ _ h1 h2

/-! ## the flavor loop through two views -/

theorem resolveFlavor_congr {C C' : Ctx} {r : Req} (keep : Bool)
    (hfind : ∀ vro, find C r vro = find C' r vro) (fuel : Nat) (vro : List Str) :
    resolveFlavor C r keep fuel vro = resolveFlavor C' r keep fuel vro := by
  induction fuel generalizing vro with
  | zero => rfl
  | succ fuel ih =>
    unfold resolveFlavor
    simp only [hfind, ih]

/-- the flavor loop gives the same answer through two contexts whose views agree on every flavor it visits -/
theorem resolve_view_congr {C C' : Ctx} (r : Req) (keep : Bool) (vro : List Str) (flavors : List Str)
    (ho : C.ord = C'.ord) (hg : C.globalTags = C'.globalTags)
    (hu : C.userTags = C'.userTags) (hd : C.dirs = C'.dirs)
    (hdb : ∀ f ∈ flavors, ViewsAgree f C.db C'.db) (hdl : ∀ f ∈ flavors, ViewsAgree f C.dbLatest C'.dbLatest) :
    resolve C r keep vro flavors = resolve C' r keep vro flavors := by
  induction flavors with
  | nil => rfl
  | cons fl rest ih =>
    unfold resolve
    have hfl : ∀ v, find C { r with flavor := fl } v = find C' { r with flavor := fl } v := by
      intro v
      exact find_view_congr (r := { r with flavor := fl }) ho hg hu hd (hdb fl (by simp)) (hdl fl (by simp)) v
    rw [resolveFlavor_congr keep hfl,
      ih (fun f hf => hdb f (List.mem_cons_of_mem _ hf)) (fun f hf => hdl f (List.mem_cons_of_mem _ hf))]

end EupsModel.Vro
