import EupsModel.Model.Vro
/-! Helper lemmas about `Model/Vro.lean` (the property theorems are in `Props/C03.lean`). -/
namespace EupsModel.Vro

/-! ## the walk -/

theorem walk_nil (C : Ctx) (r : Req) : walk C r [] = .ok none := rfl

theorem walk_cons_skip {C : Ctx} {r : Req} {e : Str} {post : List Str}
    (h : lookupEntry C r e post = .ok .skip) : walk C r (e :: post) = walk C r post := by
  simp [walk, h]

theorem walk_cons_abort {C : Ctx} {r : Req} {e : Str} {post : List Str}
    (h : lookupEntry C r e post = .ok .abort) : walk C r (e :: post) = .ok none := by
  simp [walk, h]

theorem walk_cons_hit {C : Ctx} {r : Req} {e : Str} {post : List Str} {p : Prod} {reason : Str}
    (h : lookupEntry C r e post = .ok (.hit p reason)) :
    walk C r (e :: post) = .ok (some ⟨p, reason, e⟩) := by
  simp [walk, h]

theorem walk_cons_error {C : Ctx} {r : Req} {e : Str} {post : List Str} {err : Err}
    (h : lookupEntry C r e post = .error err) : walk C r (e :: post) = .error err := by
  simp [walk, h]

/-- every entry of `pre` says `continue` when the VRO is `pre ++ rest` -/
def AllSkip (C : Ctx) (r : Req) (pre rest : List Str) : Prop :=
  ∀ a x b, pre = a ++ x :: b → lookupEntry C r x (b ++ rest) = .ok .skip

theorem allSkip_nil (C : Ctx) (r : Req) (rest : List Str) : AllSkip C r [] rest := by
  intro a x b h; simp at h

theorem allSkip_cons {C : Ctx} {r : Req} {x : Str} {pre rest : List Str} :
    AllSkip C r (x :: pre) rest ↔ lookupEntry C r x (pre ++ rest) = .ok .skip ∧ AllSkip C r pre rest := by
  constructor
  · intro h
    refine ⟨h [] x pre rfl, ?_⟩
    intro a y b hab
    exact h (x :: a) y b (by simp [hab])
  · rintro ⟨h1, h2⟩ a y b hab
    cases a with
    | nil =>
      simp at hab
      obtain ⟨rfl, rfl⟩ := hab
      exact h1
    | cons z a' =>
      simp at hab
      obtain ⟨rfl, hab⟩ := hab
      exact h2 a' y b hab

theorem walk_of_allSkip {C : Ctx} {r : Req} {pre rest : List Str} (h : AllSkip C r pre rest) :
    walk C r (pre ++ rest) = walk C r rest := by
  induction pre with
  | nil => rfl
  | cons x pre ih =>
    obtain ⟨h1, h2⟩ := allSkip_cons.mp h
    rw [List.cons_append, walk_cons_skip h1, ih h2]

theorem walk_hit_iff (C : Ctx) (r : Req) (vro : List Str) (h : Hit) :
    walk C r vro = .ok (some h) ↔
      ∃ pre post, vro = pre ++ h.entry :: post ∧
        lookupEntry C r h.entry post = .ok (.hit h.prod h.reason) ∧ AllSkip C r pre (h.entry :: post) := by
  induction vro with
  | nil =>
    simp [walk]
  | cons e rest ih =>
    constructor
    · intro hw
      cases hl : lookupEntry C r e rest with
      | error err => rw [walk_cons_error hl] at hw; cases hw
      | ok o =>
        cases o with
        | skip =>
          rw [walk_cons_skip hl] at hw
          obtain ⟨pre, post, rfl, h1, h2⟩ := ih.mp hw
          exact ⟨e :: pre, post, rfl, h1, allSkip_cons.mpr ⟨hl, h2⟩⟩
        | abort => rw [walk_cons_abort hl] at hw; cases hw
        | hit p reason =>
          rw [walk_cons_hit hl] at hw
          cases hw
          exact ⟨[], rest, rfl, hl, allSkip_nil _ _ _⟩
    · rintro ⟨pre, post, hv, h1, h2⟩
      cases pre with
      | nil =>
        simp at hv
        obtain ⟨rfl, rfl⟩ := hv
        rw [walk_cons_hit h1]
      | cons x pre =>
        simp at hv
        obtain ⟨rfl, rfl⟩ := hv
        obtain ⟨h3, h4⟩ := allSkip_cons.mp h2
        rw [walk_cons_skip h3]
        exact ih.mpr ⟨pre, post, rfl, h1, h4⟩

theorem walk_none_iff (C : Ctx) (r : Req) (vro : List Str) :
    walk C r vro = .ok none ↔
      AllSkip C r vro [] ∨
      ∃ pre e post, vro = pre ++ e :: post ∧ lookupEntry C r e post = .ok .abort ∧
        AllSkip C r pre (e :: post) := by
  induction vro with
  | nil => simp [walk, allSkip_nil]
  | cons e rest ih =>
    constructor
    · intro hw
      cases hl : lookupEntry C r e rest with
      | error err => rw [walk_cons_error hl] at hw; cases hw
      | ok o =>
        cases o with
        | skip =>
          rw [walk_cons_skip hl] at hw
          rcases ih.mp hw with h | ⟨pre, e', post, rfl, h1, h2⟩
          · exact Or.inl (allSkip_cons.mpr ⟨by simpa using hl, h⟩)
          · exact Or.inr ⟨e :: pre, e', post, rfl, h1, allSkip_cons.mpr ⟨hl, h2⟩⟩
        | abort => exact Or.inr ⟨[], e, rest, rfl, hl, allSkip_nil _ _ _⟩
        | hit p reason => rw [walk_cons_hit hl] at hw; cases hw
    · rintro (h | ⟨pre, e', post, hv, h1, h2⟩)
      · obtain ⟨h3, h4⟩ := allSkip_cons.mp h
        rw [walk_cons_skip (by simpa using h3)]
        exact ih.mpr (Or.inl h4)
      · cases pre with
        | nil =>
          simp at hv
          obtain ⟨rfl, rfl⟩ := hv
          rw [walk_cons_abort h1]
        | cons x pre =>
          simp at hv
          obtain ⟨rfl, rfl⟩ := hv
          obtain ⟨h3, h4⟩ := allSkip_cons.mp h2
          rw [walk_cons_skip h3]
          exact ih.mpr (Or.inr ⟨pre, e', post, rfl, h1, h4⟩)

/-! ## what an entry's lookup can depend on in the rest of the VRO -/

theorem lookupVT_congr (C : Ctx) (r : Req) (e v : Str) (post post' : List Str)
    (h1 : post.contains kVersionExpr = post'.contains kVersionExpr)
    (h2 : post.any isVT = post'.any isVT) :
    lookupVT C r e post v = lookupVT C r e post' v := by
  simp only [lookupVT, h1, h2]

theorem lookupEntry_congr (C : Ctx) (r : Req) (e : Str) (post post' : List Str)
    (h1 : post.contains kVersionExpr = post'.contains kVersionExpr)
    (h2 : post.any isVT = post'.any isVT) :
    lookupEntry C r e post = lookupEntry C r e post' := by
  simp only [lookupEntry, lookupVT_congr C r e _ post post' h1 h2]

theorem isVT_versionExpr : isVT kVersionExpr = true := by decide

theorem contains_of_noVT {l : List Str} (h : ∀ x ∈ l, isVT x = false) : l.contains kVersionExpr = false := by
  apply Bool.eq_false_iff.mpr
  intro hc
  have := h kVersionExpr (by simpa using hc)
  rw [isVT_versionExpr] at this
  cases this

theorem any_of_noVT {l : List Str} (h : ∀ x ∈ l, isVT x = false) : l.any isVT = false := by
  simp only [List.any_eq_false]
  intro x hx
  simp [h x hx]

/-- lookups in `pre ++ e :: post` and in `pre ++ [e]` see the same rest when `post` has no version entry -/
theorem tail_congr (b : List Str) (e : Str) (post : List Str) (h : ∀ x ∈ post, isVT x = false) :
    (b ++ e :: post).contains kVersionExpr = (b ++ [e]).contains kVersionExpr ∧
    (b ++ e :: post).any isVT = (b ++ [e]).any isVT := by
  have hc := contains_of_noVT h
  have ha := any_of_noVT h
  constructor
  · rw [Bool.eq_iff_iff]
    simp only [List.contains_iff_mem, List.mem_append, List.mem_cons, List.not_mem_nil, or_false]
    have : kVersionExpr ∉ post := by simpa using hc
    constructor
    · rintro (h | h | h)
      · exact Or.inl h
      · exact Or.inr h
      · exact absurd h this
    · rintro (h | h)
      · exact Or.inl h
      · exact Or.inr (Or.inl h)
  · simp [List.any_append, ha]

/-- a version-type entry is not one of the directives tested before it -/
theorem lookupEntry_vt {C : Ctx} {r : Req} {e : Str} {post : List Str} (he : isVT e = true) :
    lookupEntry C r e post =
      match r.named with
      | none => .ok .skip
      | some v => lookupVT C r e post v := by
  have h3 : (e = kVersion ∨ e = kVersionBang) ∨ e = kVersionExpr := by
    simpa [isVT] using he
  have hp : hasInfix e kPath = false := by
    rcases h3 with (rfl | rfl) | rfl <;> decide
  have hk : (e == kKeep) = false := by
    rcases h3 with (rfl | rfl) | rfl <;> decide
  have hc : (e == kCommandLine) = false := by
    rcases h3 with (rfl | rfl) | rfl <;> decide
  cases hn : r.named <;> simp [lookupEntry, hp, hk, hc, he, hn]

/-- at the last version-type entry a request that names a version never says `continue` -/
theorem lookupVT_last_ne_skip {C : Ctx} {r : Req} {e v : Str} {post : List Str}
    (hpost : ∀ x ∈ post, isVT x = false) : lookupVT C r e post v ≠ .ok .skip := by
  have hc := contains_of_noVT hpost
  have ha := any_of_noVT hpost
  unfold lookupVT
  rw [hc, ha]
  split
  · simp
  · split
    · simp
    · split
      · simp
      · simp
      · split <;> simp

/-- the walk never looks behind the last version-type entry when the request names a version -/
theorem walk_cut (C : Ctx) (r : Req) (pre : List Str) (e : Str) (post : List Str)
    (hn : r.named.isSome = true) (he : isVT e = true) (hpost : ∀ x ∈ post, isVT x = false) :
    walk C r (pre ++ e :: post) = walk C r (pre ++ [e]) := by
  induction pre with
  | nil =>
    obtain ⟨v, hv⟩ := Option.isSome_iff_exists.mp hn
    have hcongr : lookupEntry C r e post = lookupEntry C r e [] :=
      lookupEntry_congr C r e post [] (by rw [contains_of_noVT hpost]; rfl) (by rw [any_of_noVT hpost]; rfl)
    have hne : lookupEntry C r e [] ≠ .ok .skip := by
      rw [lookupEntry_vt he, hv]
      exact lookupVT_last_ne_skip (by simp)
    simp only [List.nil_append]
    cases hl : lookupEntry C r e [] with
    | error err => rw [walk_cons_error (hcongr.trans hl), walk_cons_error hl]
    | ok o =>
      cases o with
      | skip => exact absurd hl hne
      | abort => rw [walk_cons_abort (hcongr.trans hl), walk_cons_abort hl]
      | hit p reason => rw [walk_cons_hit (hcongr.trans hl), walk_cons_hit hl]
  | cons x pre ih =>
    obtain ⟨t1, t2⟩ := tail_congr pre e post hpost
    have hcongr : lookupEntry C r x (pre ++ e :: post) = lookupEntry C r x (pre ++ [e]) :=
      lookupEntry_congr C r x _ _ t1 t2
    simp only [List.cons_append]
    cases hl : lookupEntry C r x (pre ++ [e]) with
    | error err => rw [walk_cons_error (hcongr.trans hl), walk_cons_error hl]
    | ok o =>
      cases o with
      | skip => rw [walk_cons_skip (hcongr.trans hl), walk_cons_skip hl, ih]
      | abort => rw [walk_cons_abort (hcongr.trans hl), walk_cons_abort hl]
      | hit p reason => rw [walk_cons_hit (hcongr.trans hl), walk_cons_hit hl]

/-- the entry a walk stops at is an entry of the VRO -/
theorem walk_entry_mem {C : Ctx} {r : Req} {vro : List Str} {h : Hit} (hw : walk C r vro = .ok (some h)) :
    h.entry ∈ vro := by
  obtain ⟨pre, post, rfl, _, _⟩ := (walk_hit_iff C r vro h).mp hw
  simp

/-! ## `idxOf` -/

theorem idxOf_append_of_mem {x : Str} {l : List Str} (m : List Str) (h : x ∈ l) :
    idxOf x (l ++ m) = idxOf x l := by
  induction l with
  | nil => simp at h
  | cons y l ih =>
    simp only [List.cons_append, idxOf]
    by_cases hy : (y == x) = true
    · simp [hy]
    · have hne : y ≠ x := by simpa using hy
      have : x ∈ l := by
        rcases List.mem_cons.mp h with h | h
        · exact absurd h.symm hne
        · exact h
      simp [hy, ih this]

theorem idxOf_lt_of_mem {x : Str} {l : List Str} (h : x ∈ l) : idxOf x l < l.length := by
  induction l with
  | nil => simp at h
  | cons y l ih =>
    simp only [idxOf]
    by_cases hy : (y == x) = true
    · simp [hy]
    · have hne : y ≠ x := by simpa using hy
      have : x ∈ l := by
        rcases List.mem_cons.mp h with h | h
        · exact absurd h.symm hne
        · exact h
      have := ih this
      simp [hy]
      omega

theorem idxOf_append_of_not_mem {x : Str} {l : List Str} (m : List Str) (h : x ∉ l) :
    idxOf x (l ++ m) = l.length + idxOf x m := by
  induction l with
  | nil => simp
  | cons y l ih =>
    have hne : (y == x) = false := by
      apply Bool.eq_false_iff.mpr
      intro hy
      exact h (by simp [(by simpa using hy : y = x)])
    have hl : x ∉ l := fun hx => h (List.mem_cons_of_mem _ hx)
    simp only [List.cons_append, idxOf, hne, ih hl, List.length_cons]
    simp
    omega

/-- the "earlier reason outranks" rule gives the same answer on a VRO and on any extension of it,
as long as the walk stopped inside the shorter one -/
theorem applyAlready_append (r : Req) (l m : List Str) (h : Hit) (hm : h.entry ∈ l) :
    applyAlready r (l ++ m) h = applyAlready r l h := by
  unfold applyAlready
  cases ha : r.already with
  | none => rfl
  | some pa =>
    obtain ⟨op, ot⟩ := pa
    cases ot with
    | none => rfl
    | some ot =>
      simp only
      rw [idxOf_append_of_mem m hm]
      by_cases hot : ot ∈ l
      · rw [idxOf_append_of_mem m hot]
        have h1 : (l ++ m).contains ot = true := by simp [hot]
        have h2 : l.contains ot = true := by simp [hot]
        rw [h1, h2]
      · have h2 : l.contains ot = false := by simpa using hot
        have hlt := idxOf_lt_of_mem hm
        rw [idxOf_append_of_not_mem m hot, h2]
        have : ¬ (l.length + idxOf ot m < idxOf h.entry l) := by omega
        simp [this]

end EupsModel.Vro
