import EupsModel.Lemmas.SetupLines
/-! C04 keep clause for environments that may hold records of *undeclared* versions (round 3): the machinery of
`SetupKeep.lean` with every statement restricted to the records that name a declared version.  A record that
`findSetupProduct` cannot find is not a set-up product: `alreadySetupProducts` does not hold it, `keep` cannot protect
it, and setting the product up simply overwrites it — so `AllDeclared` can go from `C04_keep_partial`. -/
namespace EupsModel.Setup

/-- the record names a declared version -/
def Decd (db : Db) (m : Name) (v : Ver) : Prop := ∃ d, db.lookup (m, v) = some d

/-- every record of a declared version is mirrored in `alreadySetupProducts` by a product of the same version -/
def MirrorD (db : Db) (s : St) : Prop :=
  ∀ m v, s.env.rec? m = some v → Decd db m v → ∃ d r, aget s.already m = some (d, r) ∧ d.ver = v

def ExtAD (db : Db) (s s' : St) : Prop :=
  ∀ m v, s.env.rec? m = some v → Decd db m v → aget s'.already m = aget s.already m
def ExtRD (db : Db) (s s' : St) : Prop := ∀ m v, s.env.rec? m = some v → Decd db m v → s'.env.rec? m = some v

theorem setupProd_decd (db : Db) (e : Env) (n : Name) (sd : Decl) (h : setupProd db e n = some sd) :
    e.rec? n = some sd.ver ∧ Decd db n sd.ver := by
  obtain ⟨hc, hn, hr⟩ := setupProd_some db e n sd h
  refine ⟨hr, sd, ?_⟩
  have : (n, sd.ver) = sd.prod := by unfold Decl.prod; rw [hn]
  rw [this]; exact hc

theorem mirrorD_setupProd (db : Db) (s : St) (ha : AlreadyOK db s.already) (hm : MirrorD db s) (n : Name) (v : Ver)
    (h : s.env.rec? n = some v) (hd : Decd db n v) :
    ∃ d r, aget s.already n = some (d, r) ∧ d.ver = v ∧ setupProd db s.env n = some d := by
  obtain ⟨d, r, hg, hv⟩ := hm n v h hd
  obtain ⟨hc, hn⟩ := ha n d r hg
  refine ⟨d, r, hg, hv, ?_⟩
  unfold setupProd; rw [h]
  have : (n, v) = d.prod := by unfold Decl.prod; rw [hn, hv]
  simp only; rw [this]; exact hc

def KeepPostD (db : Db) (s : St) : Res → Prop
  | .ok s' => ExtAD db s s' ∧ ExtRD db s s' ∧ MirrorD db s'
  | .notFound s' => ExtAD db s s'
  | .raised s' => ExtAD db s s'
  | .fuel => True

theorem keepPostD_trans (db : Db) (s s1 : St) (r : Res) (hA : ExtAD db s s1) (hR : ExtRD db s s1)
    (h : KeepPostD db s1 r) : KeepPostD db s r := by
  cases r with
  | ok s' =>
    obtain ⟨hA2, hR2, hm2⟩ := h
    exact ⟨fun m w hw hd => by rw [hA2 m w (hR m w hw hd) hd, hA m w hw hd],
           fun m w hw hd => hR2 m w (hR m w hw hd) hd, hm2⟩
  | notFound s' => exact fun m w hw hd => by rw [h m w (hR m w hw hd) hd, hA m w hw hd]
  | raised s' => exact fun m w hw hd => by rw [h m w (hR m w hw hd) hd, hA m w hw hd]
  | fuel => trivial

theorem keepPostD_extA (db : Db) (s : St) (r : Res) (h : KeepPostD db s r) (s' : St) (hs : r.st? = some s') :
    ExtAD db s s' := by
  cases r with
  | ok s1 => simp [Res.st?] at hs; subst hs; exact h.1
  | notFound s1 => simp [Res.st?] at hs; subst hs; exact h
  | raised s1 => simp [Res.st?] at hs; subst hs; exact h
  | fuel => simp [Res.st?] at hs

def KeepSpecD (cfg : Cfg) (rec : Rec) : Prop :=
  ∀ depth noRec post n ver vexpr s, AlreadyOK cfg.db s.already → MirrorD cfg.db s →
    KeepPostD cfg.db s (rec true (depth + 1) noRec (.keep :: post) n ver vexpr s)

theorem acts_keepD (cfg : Cfg) (rec : Rec) (hal : AlOK cfg rec) (hrec : KeepSpecD cfg rec) (depth : Nat) (noRec : Bool)
    (vro : List VroEnt) (hk : VroEnt.keep ∈ vro) (d : Decl) (l : List Act) :
    ∀ s, AlreadyOK cfg.db s.already → MirrorD cfg.db s →
      KeepPostD cfg.db s (acts rec cfg true depth noRec vro d l s) := by
  induction l with
  | nil =>
    intro s _ hm
    simp only [acts]
    exact ⟨fun _ _ _ _ => rfl, fun _ _ h _ => h, hm⟩
  | cons a rest ih =>
    intro s ha hm
    by_cases hdep : ∃ n o j v x t kl, a = .dep n o j v x t kl
    · obtain ⟨n, o, j, v, x, t, kl, rfl⟩ := hdep
      simp only [acts, hk, true_or, if_true]
      split
      · exact ih s ha hm
      · have hpost := hrec depth j (t.map VroEnt.tag ++ vro) n v x s ha hm
        have hal1 := hal true (depth + 1) j (.keep :: (t.map VroEnt.tag ++ vro)) n v x s
        have fail : ∀ s1 : St, (rec true (depth + 1) j (.keep :: (t.map VroEnt.tag ++ vro)) n v x s).st? = some s1 →
            KeepPostD cfg.db s (if (true && !o) = true then
                Res.raised ⟨s.env, s.aliases, s.unaliased, s1.already, s1.cache⟩
              else acts rec cfg true depth noRec vro d rest ⟨s.env, s.aliases, s.unaliased, s1.already, s1.cache⟩) := by
          intro s1 hr
          have hA : ExtAD cfg.db s ⟨s.env, s.aliases, s.unaliased, s1.already, s1.cache⟩ :=
            keepPostD_extA cfg.db s _ hpost s1 hr
          have hm1 : MirrorD cfg.db ⟨s.env, s.aliases, s.unaliased, s1.already, s1.cache⟩ := by
            intro m w hw hd
            obtain ⟨d', r', hg, hv⟩ := hm m w hw hd
            exact ⟨d', r', by rw [hA m w hw hd]; exact hg, hv⟩
          split
          · exact hA
          · exact keepPostD_trans cfg.db s _ _ hA (fun _ _ h _ => h) (ih _ (hal1 s1 ha hr) hm1)
        cases hr : rec true (depth + 1) j (.keep :: (t.map VroEnt.tag ++ vro)) n v x s with
        | ok s1 =>
          simp only
          rw [hr] at hpost
          obtain ⟨hA1, hR1, hm1⟩ := hpost
          exact keepPostD_trans cfg.db s s1 _ hA1 hR1 (ih s1 (hal1 s1 ha (by rw [hr]; rfl)) hm1)
        | fuel => simp only; trivial
        | notFound s1 => simp only; exact fail s1 (by rw [hr]; rfl)
        | raised s1 => simp only; exact fail s1 (by rw [hr]; rfl)
    · have hnd : ∀ n o j v x t kl, a ≠ .dep n o j v x t kl := fun n o j v x t kl e => hdep ⟨n, o, j, v, x, t, kl, e⟩
      rw [acts_cons_nondep rec cfg true depth noRec vro d a rest s hnd]
      have hm1 : MirrorD cfg.db (a.apply true d.prod s) := by
        intro m w hw hd
        rw [apply_rec?] at hw
        rw [apply_already]; exact hm m w hw hd
      refine keepPostD_trans cfg.db s _ _ (fun m w _ _ => by rw [apply_already])
        (fun m w hw _ => by rw [apply_rec?]; exact hw) (ih (a.apply true d.prod s) (by simpa using ha) hm1)

/-- writing the records of a name that `findSetupProduct` does not find (no record, or a record of an undeclared version) -/
theorem record_keepD (db : Db) (d : Decl) (r : Option VroEnt) (s : St) (hm : MirrorD db s)
    (hnone : setupProd db s.env d.name = none) :
    ExtAD db s (record d r s) ∧ ExtRD db s (record d r s) ∧ MirrorD db (record d r s) := by
  have hne : ∀ m v, s.env.rec? m = some v → Decd db m v → m ≠ d.name := by
    intro m v h ⟨d', hd'⟩ e
    subst e
    unfold setupProd at hnone
    rw [h] at hnone
    simp only at hnone
    rw [hd'] at hnone; cases hnone
  refine ⟨?_, ?_, ?_⟩
  · intro m v h hd
    show aget (aset s.already d.name (d, r)) m = _
    rw [aget_aset_other _ _ _ _ (hne m v h hd)]
  · intro m v h hd
    rw [record_rec?_other d r s m (hne m v h hd)]; exact h
  · intro m v h hd
    by_cases hmd : m = d.name
    · subst hmd
      rw [record_rec?_same] at h
      exact ⟨d, r, by simp [record, aget_aset_same], Option.some.inj h⟩
    · rw [record_rec?_other d r s m hmd] at h
      obtain ⟨d', r', hg, hv⟩ := hm m v h hd
      refine ⟨d', r', ?_, hv⟩
      show aget (aset s.already d.name (d, r)) m = _
      rw [aget_aset_other _ _ _ _ hmd]; exact hg

theorem install_keepD (cfg : Cfg) (rec : Rec) (hal : AlOK cfg rec) (hrec : KeepSpecD cfg rec) (depth : Nat) (noRec : Bool)
    (vro : List VroEnt) (hk : VroEnt.keep ∈ vro) (d : Decl) (reason : Option VroEnt) (hc : Canon cfg.db d)
    (s : St) (ha : AlreadyOK cfg.db s.already) (hm : MirrorD cfg.db s)
    (hsame : ∀ sd, setupProd cfg.db s.env d.name = some sd → sd.ver.1 = d.ver.1 ∧ depth > 0) :
    KeepPostD cfg.db s (install rec cfg depth noRec vro d reason s) := by
  unfold install
  cases hsp : setupProd cfg.db s.env d.name with
  | none =>
    simp only
    obtain ⟨hA1, hR1, hm1⟩ := record_keepD cfg.db d reason s hm hsp
    exact keepPostD_trans cfg.db s _ _ hA1 hR1
      (acts_keepD cfg rec hal hrec depth noRec vro hk d _ (record d reason s) (alreadyOK_aset cfg.db _ ha d reason hc) hm1)
  | some sd =>
    obtain ⟨hv, hd⟩ := hsame sd hsp
    have hskip : ((sd.ver.1 == d.ver.1 || (sd.dir == d.dir && d.dir != noneDir)) && decide (depth > 0)) = true := by simp [hv, hd]
    simp only [hskip, if_true]
    exact ⟨fun _ _ _ _ => rfl, fun _ _ h _ => h, hm⟩

theorem keepPostD_congr (db : Db) (s0 s : St) (r : Res) (h1 : s0.env = s.env) (h2 : s0.already = s.already)
    (h : KeepPostD db s0 r) : KeepPostD db s r := by
  cases r with
  | ok s' =>
    obtain ⟨hA, hR, hm⟩ := h
    exact ⟨fun m v hv hd => by rw [← h2]; exact hA m v (by rw [h1]; exact hv) hd,
           fun m v hv hd => hR m v (by rw [h1]; exact hv) hd, hm⟩
  | notFound s' => exact fun m v hv hd => by rw [← h2]; exact h m v (by rw [h1]; exact hv) hd
  | raised s' => exact fun m v hv hd => by rw [← h2]; exact h m v (by rw [h1]; exact hv) hd
  | fuel => trivial

theorem setup_keepSpecD (cfg : Cfg) : ∀ fuel, KeepSpecD cfg (setup cfg fuel) := by
  intro fuel
  induction fuel with
  | zero => intro depth noRec post n ver vexpr s _ _; rw [setup_zero]; trivial
  | succ f ih =>
    intro depth noRec post n ver vexpr s ha hm
    rw [setup_succ_true]
    cases hres : resolve cfg.db cfg.path cfg.keep s.already n ver vexpr (depth + 1) (VroEnt.keep :: post).length (.keep :: post) with
    | none => exact fun _ _ _ _ => rfl
    | error => exact fun _ _ _ _ => rfl
    | found d reason =>
      simp only
      obtain ⟨hc, hname⟩ := resolve_spec cfg.db cfg.path cfg.keep s.already ha n ver vexpr (depth + 1) _ _ _ _ hres
      obtain ⟨hc', hname'⟩ := pickDecl_spec cfg.db s.cache d _ hc hname
      have hreg : ∀ s0 : St, register cfg (depth + 1) (pickDecl cfg.db s.cache d) reason s0 = s0 := by
        intro s0; simp [register]
      rw [hreg]
      refine keepPostD_congr cfg.db (s.afterResolve cfg (depth + 1) (.keep :: post) n ver vexpr) s _ rfl rfl ?_
      refine install_keepD cfg (setup cfg f) (setup_alOK cfg f) ih (depth + 1) noRec (.keep :: post) (by simp)
        (pickDecl cfg.db s.cache d) reason hc' _ ha hm ?_
      intro sd hsp
      have hsp' : setupProd cfg.db s.env (pickDecl cfg.db s.cache d).name = some sd := hsp
      obtain ⟨hrec, hdecd⟩ := setupProd_decd cfg.db s.env _ sd hsp'
      obtain ⟨d0, r0, hg, hv, _⟩ := mirrorD_setupProd cfg.db s ha hm _ sd.ver hrec hdecd
      rw [hname'] at hg
      have := resolve_keep cfg.db cfg.path cfg.keep s.already n ver vexpr depth _ post d0 r0 hg d reason hres
      rw [pickDecl_ver, this, hv]; exact ⟨rfl, by omega⟩

/-- `install_keep_top` for environments with records of undeclared versions: only the records of declared versions need
to be mirrored, and they are the ones kept -/
theorem install_keep_topD (cfg : Cfg) (fuel : Nat) (noRec : Bool) (vro : List VroEnt) (hk : VroEnt.keep ∈ vro) (d : Decl)
    (reason : Option VroEnt) (hc : Canon cfg.db d) (s s' : St) (ha : AlreadyOK cfg.db s.already)
    (hmir : ∀ m v, m ≠ d.name → s.env.rec? m = some v → Decd cfg.db m v →
      ∃ d' r', aget s.already m = some (d', r') ∧ d'.ver = v)
    (h : install (setup cfg fuel) cfg 0 noRec vro d reason s = .ok s') :
    ∀ m v, m ≠ d.name → s.env.rec? m = some v → Decd cfg.db m v →
      (∀ sd, setupProd cfg.db s.env d.name = some sd → ¬ ReachFrom cfg.db sd m) → s'.env.rec? m = some v := by
  have hal := setup_alOK cfg fuel
  have tail : ∀ s1 : St, AlreadyOK cfg.db s1.already →
      (∀ m v, m ≠ d.name → s1.env.rec? m = some v → Decd cfg.db m v →
        ∃ d' r', aget s1.already m = some (d', r') ∧ d'.ver = v) →
      acts (setup cfg fuel) cfg true 0 noRec vro d (d.actions cfg.exact) (record d reason s1) = .ok s' →
      ∀ m v, m ≠ d.name → s1.env.rec? m = some v → Decd cfg.db m v → s'.env.rec? m = some v := by
    intro s1 h1 hm1 hacts m v hne hr hd
    have hmir1 : MirrorD cfg.db (record d reason s1) := by
      intro m' v' h' hd'
      by_cases hmd : m' = d.name
      · subst hmd
        rw [record_rec?_same] at h'
        exact ⟨d, reason, by simp [record, aget_aset_same], Option.some.inj h'⟩
      · rw [record_rec?_other d reason s1 m' hmd] at h'
        obtain ⟨d', r', hg, hv⟩ := hm1 m' v' hmd h' hd'
        refine ⟨d', r', ?_, hv⟩
        show aget (aset s1.already d.name (d, reason)) m' = _
        rw [aget_aset_other _ _ _ _ hmd]; exact hg
    have hpost := acts_keepD cfg (setup cfg fuel) hal (setup_keepSpecD cfg fuel) 0 noRec vro hk d (d.actions cfg.exact)
      (record d reason s1) (alreadyOK_aset cfg.db _ h1 d reason hc) hmir1
    rw [hacts] at hpost
    exact hpost.2.1 m v (by rw [record_rec?_other d reason s1 m hne]; exact hr) hd
  intro m v hne hr hdv hreach
  unfold install at h
  cases hsp : setupProd cfg.db s.env d.name with
  | none => rw [hsp] at h; exact tail s ha hmir h m v hne hr hdv
  | some sd =>
    rw [hsp] at h
    simp only [Nat.lt_irrefl, gt_iff_lt, decide_false, Bool.and_false, Bool.false_eq_true, if_false] at h
    obtain ⟨hcsd, hsdn, _⟩ := setupProd_some cfg.db s.env d.name sd hsp
    have hun : ∀ s1, setup cfg fuel false 0 noRec vro d.name none none s = .ok s1 →
        acts (setup cfg fuel) cfg true 0 noRec vro d (d.actions cfg.exact) (record d reason s1) = .ok s' →
        s'.env.rec? m = some v := by
      intro s1 hr1 hacts
      obtain ⟨hal1, hsub⟩ := setup_unKeep cfg fuel 0 noRec vro d.name none none s s1 (by rw [hr1]; rfl)
      have hsame : SameFor m s.env s1.env := by
        cases fuel with
        | zero => simp [setup_zero] at hr1
        | succ f =>
          rw [setup_succ_false, hsp] at hr1
          simp only at hr1
          refine acts_sameFor cfg f false 0 noRec vro sd m (by rw [hsdn]; exact hne) (hreach sd hsp) s.env
            ⟨{ s.env with dirs := aunset s.env.dirs sd.name, recs := aunset s.env.recs sd.name }, s.aliases, s.unaliased, s.already, s.cache⟩
            s1 ha ?_ hr1
          have hne' : m ≠ sd.name := by rw [hsdn]; exact hne
          refine ⟨?_, ?_, fun _ => rfl⟩
          · show aget (aunset s.env.recs sd.name) m = _
            rw [aget_aunset_other _ _ _ hne']; rfl
          · show aget (aunset s.env.dirs sd.name) m = _
            rw [aget_aunset_other _ _ _ hne']
      refine tail s1 (hal _ _ _ _ _ _ _ _ _ ha (by rw [hr1]; rfl)) ?_ hacts m v hne (by rw [hsame.record]; exact hr) hdv
      intro m' v' hne' hr' hd'
      rw [hal1]
      exact hmir m' v' hne' (hsub m' v' hr') hd'
    split at h
    · cases h
    · rename_i s1 hr1
      exact hun s1 hr1 h
    · rename_i s1 hr1
      have := (setup_unfail cfg fuel 0 noRec vro d.name none none s s1).2 hr1
      rw [hsp] at this; cases this
    · rename_i s1 hr1
      exact absurd hr1 (setup_unfail cfg fuel 0 noRec vro d.name none none s s1).1

end EupsModel.Setup
