import EupsModel.Lemmas.FsEff
/-! The chain record of the tag a `declare` assigns, without the hypothesis `retag = false` (C08): at every prefix of
the command's steps a reader finds, for every flavor, one of three things — what was there, the new assignment, or
(the D11 gap) no assignment for the declaring flavor and everything else as it was. -/
set_option linter.unusedSimpArgs false
set_option linter.unusedVariables false
namespace EupsModel.FsEff

theorem chainVersion_setVersionC_all (es : List CEntry) (f v g : Id) :
    chainVersion (setVersionC es f v) g = if g = f then some v else chainVersion es g := by
  by_cases hg : g = f
  · subst hg; simp [chainVersion_setVersionC]
  · simp only [hg, if_false]
    induction es with
    | nil =>
      have : ¬ f = g := fun e => hg e.symm
      simp [setVersionC, chainVersion, this]
    | cons e r ih =>
      by_cases h : e.flavor = f
      · have h' : ¬ e.flavor = g := fun e' => hg (e' ▸ h.symm ▸ rfl)
        have hf : ¬ f = g := fun e => hg e.symm
        simp [setVersionC, h, chainVersion, List.find?_cons, h', hf]
      · simp only [setVersionC, h, if_false]
        unfold chainVersion at ih ⊢
        by_cases h2 : e.flavor = g
        · simp [List.find?_cons, h2]
        · simp only [List.find?_cons, h2, decide_false]
          exact ih

theorem chainVersion_dropFlavorC (es : List CEntry) (f g : Id) :
    chainVersion (dropFlavorC es f) g = if g = f then none else chainVersion es g := by
  induction es with
  | nil => by_cases hg : g = f <;> simp [dropFlavorC, chainVersion, hg]
  | cons e r ih =>
    by_cases h : e.flavor = f
    · simp only [dropFlavorC, h, if_true]
      rw [ih]
      by_cases hg : g = f
      · simp [hg]
      · have h' : ¬ e.flavor = g := fun e' => hg (e' ▸ h.symm ▸ rfl)
        simp only [hg, if_false]
        unfold chainVersion
        simp [List.find?_cons, h']
    · simp only [dropFlavorC, h, if_false]
      by_cases h2 : e.flavor = g
      · have hg : ¬ g = f := fun e' => h (h2 ▸ e')
        unfold chainVersion
        simp [List.find?_cons, h2, hg]
      · unfold chainVersion at ih ⊢
        simp only [List.find?_cons, h2, decide_false]
        exact ih

/-- what a reader finds in the chain record of `(p, t)` for flavor `g` -/
def cview (s : Fs) (p t g : Id) : Option Id := chainVersion (cread s p t) g

/-- the three forms, relative to the state `fs` the command started in -/
def Forms (fs : Fs) (p t f v : Id) (s : Fs) : Prop :=
  (∀ g, cview s p t g = cview fs p t g) ∨
  (∀ g, cview s p t g = if g = f then some v else cview fs p t g) ∨
  (∀ g, cview s p t g = if g = f then none else cview fs p t g)

theorem cview_congr (s s' : Fs) (p t : Id) (h : s'.get (.main (.cfile p t)) = s.get (.main (.cfile p t))) (g : Id) :
    cview s' p t g = cview s p t g := by
  simp [cview, cread_congr s s' p t h]

theorem forms_congr (fs : Fs) (p t f v : Id) (s s' : Fs)
    (h : s'.get (.main (.cfile p t)) = s.get (.main (.cfile p t))) (hs : Forms fs p t f v s) : Forms fs p t f v s' := by
  rcases hs with h1 | h1 | h1
  · exact Or.inl fun g => by rw [cview_congr s s' p t h, h1]
  · exact Or.inr (Or.inl fun g => by rw [cview_congr s s' p t h, h1])
  · exact Or.inr (Or.inr fun g => by rw [cview_congr s s' p t h, h1])

/-- steps that write no chain record of `(p, t)` keep the form -/
theorem forms_none (fs : Fs) (p t f v : Id) (A : List Step) (hA : ∀ s ∈ A, s.record ≠ some (.cfile p t)) (s : Fs)
    (hs : Forms fs p t f v s) : ∀ j, Forms fs p t f v (applySteps s (A.take j)) := by
  intro j
  exact forms_congr fs p t f v s _
    (view_applySteps_none (A.take j) _ (fun x hx => hA x (List.mem_of_mem_take hx)) s) hs

/-- `Database.assignTag` of `(t, p, v, f)` from a state in one of the three forms stays within them -/
theorem forms_assign (fs : Fs) (p t f v : Id) (s : Fs) (hs : Forms fs p t f v s) :
    ∀ j, Forms fs p t f v (applySteps s ((dbAssignTag s t p v f).take j)) := by
  unfold dbAssignTag
  split
  · intro j; simpa [applySteps] using hs
  · have hne : (Content.chain (setVersionC (cread s p t) f v)).isEmpty = false := by
      simp [Content.isEmpty, setVersionC_ne_nil]
    simp only [writeRec, hne, Bool.false_eq_true, if_false]
    refine stays_single (Forms fs p t f v) _ s hs ?_
    have hcr : cread (applyStep s (.put (.cfile p t) (.chain (setVersionC (cread s p t) f v)))) p t
        = setVersionC (cread s p t) f v := by
      simp [cread, applyStep, get_set_same]
    right; left
    intro g
    simp only [cview, hcr, chainVersion_setVersionC_all]
    by_cases hg : g = f
    · simp [hg]
    · simp only [hg, if_false]
      rcases hs with h1 | h1 | h1
      · exact h1 g
      · have := h1 g; simp only [hg, if_false] at this; exact this
      · have := h1 g; simp only [hg, if_false] at this; exact this

/-- `Database.unassignTag` of `(t, p, f)` likewise -/
theorem forms_unassign (fs : Fs) (p t f v : Id) (s : Fs) (hs : Forms fs p t f v s) :
    ∀ j, Forms fs p t f v (applySteps s ((dbUnassignTag s t p f).take j)) := by
  unfold dbUnassignTag
  simp only []
  split
  · intro j; simpa [applySteps] using hs
  · -- the view after the flavor's entry is dropped
    have hafter : ∀ s' : Fs, cread s' p t = dropFlavorC (cread s p t) f →
        Forms fs p t f v s' := by
      intro s' hcr
      right; right
      intro g
      simp only [cview, hcr, chainVersion_dropFlavorC]
      by_cases hg : g = f
      · simp [hg]
      · simp only [hg, if_false]
        rcases hs with h1 | h1 | h1
        · exact h1 g
        · have := h1 g; simp only [hg, if_false] at this; exact this
        · have := h1 g; simp only [hg, if_false] at this; exact this
    unfold writeRec
    split
    · -- no flavor left: the file goes
      rename_i hemp
      have hnil : dropFlavorC (cread s p t) f = [] := by
        simpa [Content.isEmpty] using hemp
      split
      · refine stays_single (Forms fs p t f v) _ s hs ?_
        apply hafter
        rw [hnil]
        simp [cread, applyStep, get_del_same]
      · intro j; simpa [applySteps] using hs
    · refine stays_single (Forms fs p t f v) _ s hs ?_
      apply hafter
      simp [cread, applyStep, get_set_same]

/-- **The chain record of the tag a `declare` assigns**, at every prefix of the command's steps: in one of the three
forms.  No hypothesis on the state or the command. -/
theorem declare_chain_forms (fs : Fs) (p v f : Id) (tag : Option Id) (force : Bool) (t : Id)
    (htag : declareTag fs p f tag = some t) (j : Nat) :
    Forms fs p t f v (applySteps fs ((steps fs (.declare p v f tag force)).take j)) := by
  have h0 : Forms fs p t f v fs := Or.inl fun _ => rfl
  simp only [steps, htag]
  revert j
  refine stays_append (Forms fs p t f v) _ _ fs ?_ ?_
  · -- the declaration proper
    split
    · obtain ⟨A, hA, hAc⟩ := dbDeclare_shape fs p v f t
      rw [hA]
      refine stays_append (Forms fs p t f v) _ _ fs ?_ ?_
      · exact forms_none fs p t f v A (fun s hs => hAc s hs p t) fs h0
      · have hA' := forms_none fs p t f v A (fun s hs => hAc s hs p t) fs h0 A.length
        rw [List.take_length] at hA'
        exact forms_assign fs p t f v _ hA'
    · intro j; simpa [applySteps] using h0
  · -- "delete all old occurrences of this tag ... and set it in the proper place"
    generalize hfs1 : applySteps fs (if (!hasFlavorV (vread fs p v) f || force) = true then dbDeclare fs p v f (some t) else []) = fs1
    have h1 : Forms fs p t f v fs1 := by
      rw [← hfs1]
      split
      · obtain ⟨A, hA, hAc⟩ := dbDeclare_shape fs p v f t
        rw [hA, applySteps_append]
        have hA' := forms_none fs p t f v A (fun s hs => hAc s hs p t) fs h0 A.length
        rw [List.take_length] at hA'
        have := forms_assign fs p t f v _ hA' (dbAssignTag (applySteps fs A) t p v f).length
        rwa [List.take_length] at this
      · simpa [applySteps] using h0
    refine stays_append (Forms fs p t f v) _ _ fs1 ?_ ?_
    · cases taggedVersion fs1 t p f with
      | none => intro j; simpa [applySteps] using h1
      | some _ => exact forms_unassign fs p t f v fs1 h1
    · have h2 : Forms fs p t f v (applySteps fs1 (match taggedVersion fs1 t p f with
          | some _ => dbUnassignTag fs1 t p f
          | none => [])) := by
        cases taggedVersion fs1 t p f with
        | none => simpa [applySteps] using h1
        | some _ =>
          have := forms_unassign fs p t f v fs1 h1 (dbUnassignTag fs1 t p f).length
          rwa [List.take_length] at this
      exact forms_assign fs p t f v _ h2

end EupsModel.FsEff
