import EupsModel.Lemmas.Cond
import EupsModel.Spec.C11
/-! C11, condition clause, token level: the repaired evaluator computes `denote` on the tokens of every
well-formed written condition, with fuel `6 * #tokens + 4`. -/
namespace EupsModel.Cond
open EupsModel.C11Spec

/-! ## facts about single tokens -/

/-- a token that `_lookup` and `_peek` leave alone -/
def plainTok (k : Str) : Bool :=
  k.head? != some 36 && Str.lower k != sFlavor && Str.lower k != sType && (parseInt k).isNone
    && k != sTrue && k != sFalse && k != sEOF

theorem peek_plain {env : Env} {k : Str} {r : List Val} (h : plainTok k = true) :
    peek env (.s k :: r) = .ok (.s k) := by
  simp only [plainTok, Bool.and_eq_true, bne_iff_ne, ne_eq, Option.isNone_iff_eq_none] at h
  obtain ⟨⟨⟨⟨⟨⟨h1, h2⟩, h3⟩, h4⟩, h5⟩, h6⟩, _⟩ := h
  simp [peek, h1, lookup, h2, h3, conv, h4, h5, h6]

theorem next_plain {env : Env} {k : Str} {r : List Val} (h : plainTok k = true) :
    next env (.s k :: r) = .ok (.s k, r) := by
  have h7 : k ≠ sEOF := by
    simp only [plainTok, Bool.and_eq_true, bne_iff_ne, ne_eq] at h; exact h.2
  simp [next, peek_plain h, Res.bind, h7]

theorem next_nil {env : Env} : next env [] = .ok (.s sEOF, []) := by
  simp [next, peek, Res.bind]

theorem push_plain {k : Str} {r : List Val} (h : plainTok k = true) : push (.s k) r = .s k :: r := by
  have h7 : k ≠ sEOF := by
    simp only [plainTok, Bool.and_eq_true, bne_iff_ne, ne_eq] at h; exact h.2
  simp [push, h7]

theorem plain_lp : plainTok sLp = true := by decide
theorem plain_rp : plainTok sRp = true := by decide
theorem plain_oror : plainTok sOrOr = true := by decide
theorem plain_andand : plainTok sAndAnd = true := by decide
theorem plain_eq : plainTok sEq = true := by decide
theorem plain_ne : plainTok sNe = true := by decide

theorem plainWord_plainTok {w : Str} (h : plainWord w = true) : plainTok w = true := by
  simp only [plainWord, Bool.and_eq_true, bne_iff_ne, ne_eq, Bool.not_eq_true', List.isEmpty_eq_false_iff] at h
  obtain ⟨⟨⟨⟨⟨⟨⟨⟨h0, h1⟩, h2⟩, h3⟩, h4⟩, h5⟩, h6⟩, h7⟩, _⟩ := h
  have hh : w.head? ≠ some 36 := by
    cases w with
    | nil => simp
    | cons c cs =>
      simp only [List.all_cons, Bool.and_eq_true] at h1
      intro hc; simp only [List.head?_cons, Option.some.injEq] at hc; subst hc
      exact absurd h1.1 (by decide)
  simp [plainTok, hh, h2, h3, h4, h5, h6, h7]

theorem plainWord_ne_special {w : Str} (h : plainWord w = true) : w ≠ sLp ∧ w ≠ sBang ∧ w ≠ sNot := by
  simp only [plainWord, Bool.and_eq_true, bne_iff_ne, ne_eq] at h
  obtain ⟨⟨⟨⟨⟨⟨⟨⟨_, h1⟩, _⟩, _⟩, _⟩, _⟩, _⟩, _⟩, h8⟩ := h
  refine ⟨?_, ?_, h8⟩
  · intro e; subst e; exact absurd h1 (by decide)
  · intro e; subst e; exact absurd h1 (by decide)

/-- the upper- or lower-case variants of a lower-case letter -/
theorem lower_char {c t : Nat} (h : (if Str.isUpper c then c + 32 else c) = t) (_ht : 97 ≤ t ∧ t ≤ 122) :
    c = t ∨ c + 32 = t := by
  unfold Str.isUpper at h
  split at h
  · exact Or.inr h
  · exact Or.inl h

/-- every spelling of `type` is left alone by the conversions of `_peek` and is none of the special tokens -/
theorem type_spelling {k : Str} (h : Str.lower k = sType) :
    k.head? ≠ some 36 ∧ conv (.s k) = .s k ∧ k ≠ sEOF ∧ k ≠ sLp ∧ k ≠ sBang ∧ k ≠ sNot ∧ Str.lower k ≠ sFlavor := by
  have hf : Str.lower k ≠ sFlavor := by rw [h]; decide
  match k, h with
  | [a, b, c, d], h =>
    simp only [Str.lower, List.map_cons, List.map_nil, sType, List.cons.injEq, and_true] at h
    obtain ⟨ha, hb, hc, hd⟩ := h
    rcases lower_char ha (by omega) with rfl | ha' <;> rcases lower_char hb (by omega) with rfl | hb' <;>
      rcases lower_char hc (by omega) with rfl | hc' <;> rcases lower_char hd (by omega) with rfl | hd' <;>
      (try (obtain rfl : a = 84 := by omega)) <;> (try (obtain rfl : b = 89 := by omega)) <;>
      (try (obtain rfl : c = 80 := by omega)) <;> (try (obtain rfl : d = 69 := by omega)) <;>
      exact ⟨by decide, by decide, by decide, by decide, by decide, by decide, hf⟩
  | [], h => simp [Str.lower, sType] at h
  | [_], h => simp [Str.lower, sType] at h
  | [_, _], h => simp [Str.lower, sType] at h
  | [_, _, _], h => simp [Str.lower, sType] at h
  | _ :: _ :: _ :: _ :: _ :: _, h => simp [Str.lower, sType] at h

theorem flavor_spelling_head {k : Str} (h : Str.lower k = sFlavor) : k.head? ≠ some 36 := by
  cases k with
  | nil => simp
  | cons c cs =>
    simp only [Str.lower, List.map_cons, sFlavor, List.cons.injEq] at h
    intro hc; simp only [List.head?_cons, Option.some.injEq] at hc; subst hc
    exact absurd h.1 (by decide)

theorem conv_s_ne {w k : Str} (h : w ≠ k) : conv (.s w) ≠ .s k := by
  simp only [conv]
  split
  · simp
  · split
    · simp
    · split
      · simp
      · simpa using h

theorem sType_ne_sFlavor : sType ≠ sFlavor := by decide

/-! ## the value of a keyword and the meaning of a comparison -/

/-- what `_peek` yields for the keyword of an atom -/
def kwVal (env : Env) (a : Atom) : Val := conv (lookup env a.kw)

theorem kw_facts {env : Env} {a : Atom} (hok : a.ok = true) (hfl : flavorOK env.flavor = true) (r : List Val) :
    peek env (.s a.kw :: r) = .ok (kwVal env a) ∧ next env (.s a.kw :: r) = .ok (kwVal env a, r) ∧
      kwVal env a ≠ .s sLp ∧ kwVal env a ≠ .s sBang ∧ kwVal env a ≠ .s sNot := by
  simp only [Atom.ok, Bool.and_eq_true, beq_iff_eq] at hok
  obtain ⟨⟨⟨⟨⟨hkw, _⟩, _⟩, _⟩, _⟩, _⟩ := hok
  simp only [flavorOK, Bool.and_eq_true, bne_iff_ne, ne_eq] at hfl
  obtain ⟨⟨⟨f1, f2⟩, f3⟩, f4⟩ := hfl
  cases hv : a.var with
  | flavor =>
    rw [hv] at hkw; simp only [Var.kw] at hkw
    have hl : lookup env a.kw = .s env.flavor := by simp [lookup, hkw]
    have hh := flavor_spelling_head hkw
    have hp : peek env (.s a.kw :: r) = .ok (kwVal env a) := by simp [peek, hh, kwVal]
    have hne : kwVal env a ≠ .s sEOF := by rw [kwVal, hl]; exact conv_s_ne f1
    refine ⟨hp, by simp [next, hp, Res.bind, hne], ?_, ?_, ?_⟩ <;> rw [kwVal, hl]
    · exact conv_s_ne f2
    · exact conv_s_ne f3
    · exact conv_s_ne f4
  | type =>
    rw [hv] at hkw; simp only [Var.kw] at hkw
    obtain ⟨hh, hc, t1, t2, t3, t4, t5⟩ := type_spelling hkw
    have hp : peek env (.s a.kw :: r) = .ok (kwVal env a) := by simp [peek, hh, kwVal]
    by_cases hty : env.types = []
    · have hl : lookup env a.kw = .s a.kw := by simp [lookup, t5, hty]
      have hk : kwVal env a = .s a.kw := by rw [kwVal, hl, hc]
      refine ⟨hp, ?_, ?_, ?_, ?_⟩
      · simp [next, hp, Res.bind, hk, t1]
      · rw [hk]; simpa using t2
      · rw [hk]; simpa using t3
      · rw [hk]; simpa using t4
    · have hl : lookup env a.kw = .l env.types := by simp [lookup, hkw, hty, sType_ne_sFlavor]
      have hk : kwVal env a = .l env.types := by rw [kwVal, hl]; rfl
      refine ⟨hp, ?_, ?_, ?_, ?_⟩ <;> simp [next, hp, Res.bind, hk]

/-- `lhs == word` / `word in lhs` computes the atom's meaning -/
theorem atom_sem {env : Env} {a : Atom} (hok : a.ok = true) :
    eqOrIn (kwVal env a) (.s a.word) =
      (match a.var with | .flavor => env.flavor == a.word | .type => env.types.contains a.word) := by
  simp only [Atom.ok, Bool.and_eq_true, beq_iff_eq] at hok
  obtain ⟨⟨⟨⟨⟨hkw, hw⟩, _⟩, _⟩, _⟩, _⟩ := hok
  have hw' := hw
  simp only [plainWord, Bool.and_eq_true, bne_iff_ne, ne_eq, Option.isNone_iff_eq_none] at hw
  obtain ⟨⟨⟨⟨⟨⟨⟨⟨_, _⟩, w2⟩, w3⟩, w4⟩, w5⟩, w6⟩, _⟩, _⟩ := hw
  cases hv : a.var with
  | flavor =>
    rw [hv] at hkw; simp only [Var.kw] at hkw
    have hl : lookup env a.kw = .s env.flavor := by simp [lookup, hkw]
    simp only [kwVal, hl, conv]
    split
    · rename_i n hn
      have : env.flavor ≠ a.word := by intro e; rw [e, w2] at hn; cases hn
      simp [eqOrIn, pyEq, this]
    · split
      · rename_i ht; have ht' : env.flavor = sTrue := by simpa using ht
        have : env.flavor ≠ a.word := by intro e; exact w5 (e ▸ ht')
        simp [eqOrIn, pyEq, this]
      · split
        · rename_i _ hf; have hf' : env.flavor = sFalse := by simpa using hf
          have : env.flavor ≠ a.word := by intro e; exact w6 (e ▸ hf')
          simp [eqOrIn, pyEq, this]
        · simp [eqOrIn, pyEq]
  | type =>
    rw [hv] at hkw; simp only [Var.kw] at hkw
    obtain ⟨_, hc, _, _, _, _, t5⟩ := type_spelling hkw
    by_cases hty : env.types = []
    · have hl : lookup env a.kw = .s a.kw := by simp [lookup, t5, hty]
      have : a.kw ≠ a.word := by intro e; exact w4 (e ▸ hkw)
      simp [kwVal, hl, hc, eqOrIn, pyEq, this, hty]
    · have hl : lookup env a.kw = .l env.types := by simp [lookup, hkw, hty, sType_ne_sFlavor]
      have hk : kwVal env a = .l env.types := by rw [kwVal, hl]; rfl
      simp only [hk, eqOrIn, pyEq]
      induction env.types with
      | nil => simp
      | cons t ts ih =>
        simp only [List.any_cons, List.contains_cons, ih]

/-! ## what may follow an operand -/

/-- `Fol p rest`: the token stream after an operand at precedence `p` is empty or starts with `)`, with `||`
(`p ≥ 1`), with `&&` (`p ≥ 2`) -/
def Fol (p : Nat) : List Val → Prop
  | [] => True
  | .s k :: _ => k = sRp ∨ (1 ≤ p ∧ k = sOrOr) ∨ (2 ≤ p ∧ k = sAndAnd)
  | _ :: _ => False

theorem fol_cases {p : Nat} {rest : List Val} (h : Fol p rest) :
    rest = [] ∨ (∃ r, rest = .s sRp :: r) ∨ (1 ≤ p ∧ ∃ r, rest = .s sOrOr :: r) ∨ (2 ≤ p ∧ ∃ r, rest = .s sAndAnd :: r) := by
  match rest, h with
  | [], _ => exact Or.inl rfl
  | .s k :: r, h =>
    rcases h with rfl | ⟨hp, rfl⟩ | ⟨hp, rfl⟩
    · exact Or.inr (Or.inl ⟨r, rfl⟩)
    · exact Or.inr (Or.inr (Or.inl ⟨hp, r, rfl⟩))
    · exact Or.inr (Or.inr (Or.inr ⟨hp, r, rfl⟩))

theorem fol_mono {p q : Nat} {rest : List Val} (hpq : p ≤ q) (h : Fol p rest) : Fol q rest := by
  match rest, h with
  | [], _ => trivial
  | .s k :: r, h =>
    rcases h with h | ⟨hp, h⟩ | ⟨hp, h⟩
    · exact Or.inl h
    · exact Or.inr (Or.inl ⟨by omega, h⟩)
    · exact Or.inr (Or.inr ⟨by omega, h⟩)

theorem fol_rp (p : Nat) (r : List Val) : Fol p (.s sRp :: r) := Or.inl rfl
theorem fol_oror {p : Nat} (hp : 1 ≤ p) (r : List Val) : Fol p (.s sOrOr :: r) := Or.inr (Or.inl ⟨hp, rfl⟩)
theorem fol_andand {p : Nat} (hp : 2 ≤ p) (r : List Val) : Fol p (.s sAndAnd :: r) := Or.inr (Or.inr ⟨hp, rfl⟩)

theorem push_eof (r : List Val) : push (.s sEOF) r = r := by simp [push]

/-- `_term` stops in front of what may follow an operand -/
theorem term_stop {env : Env} {ts : List Val} {l : Val} {rest : List Val} {h1 : Nat}
    (e : Ev env (.prim ts) l rest h1) (hf : Fol 2 rest) : Ev env (.term ts) l rest (h1 + 1) := by
  rcases fol_cases hf with rfl | ⟨r, rfl⟩ | ⟨_, r, rfl⟩ | ⟨_, r, rfl⟩
  · exact .teof e next_nil (by decide) (by omega)
  · have := Ev.tstop e (next_plain plain_rp) (Or.inr (Or.inr (by decide))) (Nat.lt_succ_self _)
    rwa [push_plain plain_rp] at this
  · have := Ev.tstop e (next_plain plain_oror) (Or.inl (by decide)) (Nat.lt_succ_self _)
    rwa [push_plain plain_oror] at this
  · have := Ev.tstop e (next_plain plain_andand) (Or.inr (Or.inl (by decide))) (Nat.lt_succ_self _)
    rwa [push_plain plain_andand] at this

/-- the loop of `_andExpr` stops in front of `)`, `||` and the end -/
theorem and_stop {env : Env} {l : Val} {rest : List Val} (hf : Fol 1 rest) : Ev env (.andLoop l rest) l rest 1 := by
  rcases fol_cases hf with rfl | ⟨r, rfl⟩ | ⟨_, r, rfl⟩ | ⟨hp, _⟩
  · have := @Ev.astop env l [] _ _ 1 next_nil (by decide) (by omega)
    rwa [push_eof] at this
  · have := @Ev.astop env l _ _ _ 1 (next_plain (r := r) plain_rp) (by decide) (by omega)
    rwa [push_plain plain_rp] at this
  · have := @Ev.astop env l _ _ _ 1 (next_plain (r := r) plain_oror) (by decide) (by omega)
    rwa [push_plain plain_oror] at this
  · omega

/-- the loop of `_expr` stops in front of `)` and the end -/
theorem or_stop {env : Env} {l : Val} {rest : List Val} (hf : Fol 0 rest) : Ev env (.orLoop l rest) l rest 1 := by
  rcases fol_cases hf with rfl | ⟨r, rfl⟩ | ⟨hp, _⟩ | ⟨hp, _⟩
  · have := @Ev.ostop env l [] _ _ 1 next_nil (by decide) (by omega)
    rwa [push_eof] at this
  · have := @Ev.ostop env l _ _ _ 1 (next_plain (r := r) plain_rp) (by decide) (by omega)
    rwa [push_plain plain_rp] at this
  · omega
  · omega

theorem pyAnd_b (x y : Bool) : pyAnd (.b x) (.b y) = .b (x && y) := by cases x <;> simp [pyAnd, truthy]
theorem pyOr_b (x y : Bool) : pyOr (.b x) (.b y) = .b (x || y) := by cases x <;> simp [pyOr, truthy]

/-! ## correctness on the tokens of a written condition -/

/-- the tokens of a written condition, as the evaluator holds them -/
def T (c : CExpr) : List Val := c.toks.map .s
/-- its meaning -/
def den (env : Env) (c : CExpr) : Bool := denote env c.abs
/-- fuel per token -/
def A (c : CExpr) : Nat := 6 * c.toks.length

theorem p2_to_p1 {env : Env} {ts : List Val} {d : Bool} {a : Nat}
    (H : ∀ rest, Fol 2 rest → Ev env (.term (ts ++ rest)) (.b d) rest a) :
    ∀ rest v' r h, Fol 2 rest → Ev env (.andLoop (.b d) rest) v' r h → Ev env (.andE (ts ++ rest)) v' r (h + a + 1) :=
  fun rest _ _ _ hf hl => .ande (H rest hf) hl (by omega) (by omega)

theorem p1_to_p0 {env : Env} {ts : List Val} {d : Bool} {a : Nat}
    (H : ∀ rest v' r h, Fol 2 rest → Ev env (.andLoop (.b d) rest) v' r h → Ev env (.andE (ts ++ rest)) v' r (h + a + 1)) :
    ∀ rest v' r h, Fol 1 rest → Ev env (.orLoop (.b d) rest) v' r h → Ev env (.orE (ts ++ rest)) v' r (h + a + 3) :=
  fun rest _ _ _ hf hl => .ore (H rest (.b d) rest 1 (fol_mono (by omega) hf) (and_stop hf)) hl (by omega) (by omega)

/-- a comparison evaluates to its meaning -/
theorem term_atom {env : Env} (hfl : flavorOK env.flavor = true) {a : Atom} (hok : a.ok = true) (rest : List Val) :
    Ev env (.term (T (.atom a) ++ rest)) (.b (den env (.atom a))) rest 2 := by
  obtain ⟨hp, hn, n1, n2, n3⟩ := kw_facts hok hfl (.s (opStr a.neg) :: .s a.word :: rest)
  have hw : plainWord a.word = true := by
    simp only [Atom.ok, Bool.and_eq_true] at hok; exact hok.1.1.1.1.2
  obtain ⟨w1, w2, w3⟩ := plainWord_ne_special hw
  have hpt := plainWord_plainTok hw
  have e1 : Ev env (.prim (.s a.kw :: .s (opStr a.neg) :: .s a.word :: rest)) (kwVal env a)
      (.s (opStr a.neg) :: .s a.word :: rest) 1 := .word hp n1 n2 n3 hn (by omega)
  have e2 : Ev env (.prim (.s a.word :: rest)) (.s a.word) rest 1 :=
    .word (peek_plain hpt) (by simpa using w1) (by simpa using w2) (by simpa using w3) (next_plain hpt) (by omega)
  have hsem := atom_sem (env := env) hok
  have hT : T (.atom a) ++ rest = .s a.kw :: .s (opStr a.neg) :: .s a.word :: rest := by simp [T, CExpr.toks]
  rw [hT]
  cases hneg : a.neg with
  | false =>
    have hd : den env (.atom a) = eqOrIn (kwVal env a) (.s a.word) := by
      rw [hsem]; simp only [den, CExpr.abs, hneg]; cases a.var <;> simp [denote]
    rw [hd]
    simp only [opStr, hneg] at e1 ⊢
    exact .teq e1 (next_plain plain_eq) (by decide) e2 (by omega) (by omega)
  | true =>
    have hd : den env (.atom a) = !eqOrIn (kwVal env a) (.s a.word) := by
      rw [hsem]; simp only [den, CExpr.abs, hneg]; cases a.var <;> simp [denote]
    rw [hd]
    simp only [opStr, hneg] at e1 ⊢
    exact .tne e1 (next_plain plain_ne) (by decide) e2 (by omega) (by omega)

/-- Continuation-style correctness of the three levels of the descent, by induction on the written condition:
a primary evaluates to its meaning; an operand of `||` (of the whole condition) started in `_andExpr` (`_expr`)
ends the way the loop continues from its meaning. -/
theorem correct {env : Env} (hfl : flavorOK env.flavor = true) (c : CExpr) :
    (c.okAt 2 = true → ∀ rest, Fol 2 rest → Ev env (.term (T c ++ rest)) (.b (den env c)) rest (A c)) ∧
    (c.okAt 1 = true → ∀ rest v' r h, Fol 2 rest → Ev env (.andLoop (.b (den env c)) rest) v' r h →
        Ev env (.andE (T c ++ rest)) v' r (h + A c + 1)) ∧
    (c.okAt 0 = true → ∀ rest v' r h, Fol 1 rest → Ev env (.orLoop (.b (den env c)) rest) v' r h →
        Ev env (.orE (T c ++ rest)) v' r (h + A c + 3)) := by
  induction c with
  | atom a =>
    have P2 : a.ok = true → ∀ rest, Fol 2 rest → Ev env (.term (T (.atom a) ++ rest)) (.b (den env (.atom a))) rest (A (.atom a)) :=
      fun hok rest _ => (term_atom hfl hok rest).weaken (by simp [A, CExpr.toks])
    exact ⟨fun h => P2 (by simpa [CExpr.okAt] using h),
           fun h => p2_to_p1 (P2 (by simpa [CExpr.okAt] using h)),
           fun h => p1_to_p0 (p2_to_p1 (P2 (by simpa [CExpr.okAt] using h)))⟩
  | paren a s1 s2 ih =>
    have P2 : (CExpr.paren a s1 s2).okAt 0 = true → ∀ rest, Fol 2 rest →
        Ev env (.term (T (.paren a s1 s2) ++ rest)) (.b (den env (.paren a s1 s2))) rest (A (.paren a s1 s2)) := by
      intro hok rest hf
      have ha : a.okAt 0 = true := by simp only [CExpr.okAt, Bool.and_eq_true] at hok; exact hok.1.1
      have hT : T (.paren a s1 s2) ++ rest = .s sLp :: (T a ++ (.s sRp :: rest)) := by simp [T, CExpr.toks]
      have hA : A (.paren a s1 s2) = A a + 12 := by simp [A, CExpr.toks]; omega
      have hd : den env (.paren a s1 s2) = den env a := rfl
      rw [hT, hA, hd]
      have e0 := ih.2.2 ha (.s sRp :: rest) _ _ 1 (fol_rp 1 rest) (or_stop (fol_rp 0 rest))
      have e1 : Ev env (.prim (.s sLp :: (T a ++ (.s sRp :: rest)))) (.b (den env a)) rest (A a + 5) :=
        .paren (peek_plain plain_lp) (next_plain plain_lp) e0 (next_plain plain_rp) (by omega)
      exact (term_stop e1 hf).weaken (by omega)
    have ok0 : ∀ p, (CExpr.paren a s1 s2).okAt p = (CExpr.paren a s1 s2).okAt 0 := fun p => by simp [CExpr.okAt]
    exact ⟨fun h => P2 (by rwa [ok0] at h),
           fun h => p2_to_p1 (P2 (by rwa [ok0] at h)),
           fun h => p1_to_p0 (p2_to_p1 (P2 h))⟩
  | and a b sp iha ihb =>
    have P1 : (CExpr.and a b sp).okAt 1 = true → ∀ rest v' r h, Fol 2 rest →
        Ev env (.andLoop (.b (den env (.and a b sp))) rest) v' r h →
        Ev env (.andE (T (.and a b sp) ++ rest)) v' r (h + A (.and a b sp) + 1) := by
      intro hok rest v' r h hf hl
      simp only [CExpr.okAt, Bool.and_eq_true] at hok
      obtain ⟨⟨⟨_, ha⟩, hb⟩, _⟩ := hok
      have hT : T (.and a b sp) ++ rest = T a ++ (.s sAndAnd :: (T b ++ rest)) := by simp [T, CExpr.toks]
      have hA : A (.and a b sp) = A a + A b + 6 := by simp [A, CExpr.toks]; omega
      have hd : den env (.and a b sp) = (den env a && den env b) := rfl
      rw [hT, hA]
      rw [hd, ← pyAnd_b] at hl
      have st : Ev env (.andLoop (.b (den env a)) (.s sAndAnd :: (T b ++ rest))) v' r (h + A b + 1) :=
        .astep (next_plain plain_andand) (by decide) (ihb.1 hb rest hf) hl (by omega) (by omega)
      exact (iha.2.1 ha _ v' r _ (fol_andand (by omega) _) st).weaken (by omega)
    refine ⟨fun h => by simp [CExpr.okAt] at h, fun h => P1 h, fun h => p1_to_p0 (P1 ?_)⟩
    simpa [CExpr.okAt] using h
  | or a b sp iha ihb =>
    refine ⟨fun h => by simp [CExpr.okAt] at h, fun h => by simp [CExpr.okAt] at h, ?_⟩
    intro hok rest v' r h hf hl
    simp only [CExpr.okAt, Bool.and_eq_true] at hok
    obtain ⟨⟨⟨_, ha⟩, hb⟩, _⟩ := hok
    have hT : T (.or a b sp) ++ rest = T a ++ (.s sOrOr :: (T b ++ rest)) := by simp [T, CExpr.toks]
    have hA : A (.or a b sp) = A a + A b + 6 := by simp [A, CExpr.toks]; omega
    have hd : den env (.or a b sp) = (den env a || den env b) := rfl
    rw [hT, hA]
    rw [hd, ← pyOr_b] at hl
    have eb : Ev env (.andE (T b ++ rest)) (.b (den env b)) rest (1 + A b + 1) :=
      ihb.2.1 hb rest _ _ 1 (fol_mono (by omega) hf) (and_stop hf)
    have st : Ev env (.orLoop (.b (den env a)) (.s sOrOr :: (T b ++ rest))) v' r (h + A b + 3) :=
      .ostep (next_plain plain_oror) (by decide) eb hl (by omega) (by omega)
    exact (iha.2.2 ha _ v' r _ (fol_oror (by omega) _) st).weaken (by omega)

/-- The evaluator on the tokens of a well-formed written condition returns the condition's truth value, for
every fuel `≥ 6 * #tokens + 4`. -/
theorem evalToks_correct {env : Env} (hfl : flavorOK env.flavor = true) (c : CExpr) (hok : c.okAt 0 = true)
    (f : Nat) (hf : 6 * c.toks.length + 4 ≤ f) : evalToks env f c.toks = .ok (denote env c.abs) := by
  have e := (correct hfl c).2.2 hok [] _ _ 1 trivial (or_stop (env := env) (l := .b (den env c)) trivial)
  have hr := sound e f (by simp only [A]; omega)
  simp only [run, List.append_nil, T] at hr
  simp [evalToks, hr, Res.bind, den, truthy]

end EupsModel.Cond
