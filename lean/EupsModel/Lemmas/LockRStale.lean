import EupsModel.Lemmas.LockRGrant
/-! C09, repaired protocol — a stale lock (file of a killed process) blocks every incompatible request, under every
schedule, until `clearLocks`; after `clearLocks` the lock is free. -/
namespace EupsModel.LockR
open EupsModel.Lock (Pid Kind Err exFiles parentHolds)

/-- the ghost's file is there, its owner is dead, and `i` (incompatible with it, not its child) has not got the lock -/
structure Blocked (s : St) (g : Kind × Pid) (i : Pid) : Prop where
  dir   : s.dir = true
  file  : g ∈ s.files
  dead  : s.pc g.2 = .killed
  noHold : s.pc i ≠ .hold

theorem blocked_step (s : St) (g : Kind × Pid) (i p : Pid) (hgi : g.2 ≠ i) (hlp : s.lp i ≠ some g.2)
    (hinc : s.kind i = .ex ∨ g.1 = .ex) (h : Blocked s g i) : Blocked (step s p) g i := by
  have hne : s.files ≠ [] := by intro e; have := h.file; rw [e] at this; simp at this
  have hem : s.files.isEmpty = false := by
    cases hf : s.files with
    | nil => exact absurd hf hne
    | cons a b => rfl
  by_cases hpg : p = g.2
  · -- the dead owner is scheduled: nothing happens
    have : step s p = s := by rw [hpg]; simp [step, h.dead]
    rw [this]; exact h
  · have hdead : (step s p).pc g.2 = .killed := by rw [step_pc_other s p g.2 (fun e => hpg e.symm)]; exact h.dead
    have hgne : g ≠ (s.kind p, p) := by intro e; apply hpg; rw [e]
    -- directory and ghost file survive every call of a live process
    have keep : (step s p).dir = true ∧ g ∈ (step s p).files := by
      cases hpc : s.pc p with
      | mkdir l => unfold step; simp only [hpc]; repeat' split
                   all_goals first | exact ⟨h.dir, h.file⟩ | exact ⟨rfl, h.file⟩
      | scanAll l => unfold step; simp only [hpc]; split <;> exact ⟨h.dir, h.file⟩
      | scanMsg l => unfold step; simp only [hpc]; split <;> exact ⟨h.dir, h.file⟩
      | create l =>
        unfold step; simp only [hpc]
        repeat' split
        all_goals first | exact ⟨h.dir, h.file⟩ | exact ⟨h.dir, List.mem_cons_of_mem _ h.file⟩
      | look l => unfold step; simp only [hpc]; split <;> exact ⟨h.dir, h.file⟩
      | lookMsg l => unfold step; simp only [hpc]; split <;> exact ⟨h.dir, h.file⟩
      | hold => unfold step; simp only [hpc]; exact ⟨h.dir, h.file⟩
      | isdir a => unfold step; simp only [hpc]; split <;> exact ⟨h.dir, h.file⟩
      | rexists a => unfold step; simp only [hpc]; split <;> exact ⟨h.dir, h.file⟩
      | remove a =>
        unfold step; simp only [hpc]
        split
        · exact ⟨h.dir, List.mem_filter.2 ⟨h.file, by simpa using hgne⟩⟩
        · exact ⟨h.dir, h.file⟩
      | rmdir a =>
        have hc : (s.dir && s.files.isEmpty) = false := by simp [hem]
        unfold step; simp only [hpc, hc]
        exact ⟨h.dir, h.file⟩
      | done => unfold step; simp only [hpc]; exact ⟨h.dir, h.file⟩
      | failedAcq e => unfold step; simp only [hpc]; exact ⟨h.dir, h.file⟩
      | failedRel e => unfold step; simp only [hpc]; exact ⟨h.dir, h.file⟩
      | killed => unfold step; simp only [hpc]; exact ⟨h.dir, h.file⟩
    refine ⟨keep.1, keep.2, hdead, ?_⟩
    by_cases hip : i = p
    · subst hip
      -- i itself moves: it can reach `hold` only through a look that shows nobody else — but the ghost's file is there
      cases hpc : s.pc i with
      | look l =>
        have hl : g ∈ lookList (s.kind i) s.files := by
          cases hk : s.kind i with
          | ex => simpa [lookList] using h.file
          | sh =>
            have hge : g.1 = .ex := by
              rcases hinc with hi | hg
              · rw [hk] at hi; cases hi
              · exact hg
            simp [lookList, exFiles, h.file, hge]
        have := others_nonempty (i := i) (lp := s.lp i) hl hgi hlp
        simp [step, hpc, this, setPC]
      | hold => exact absurd hpc h.noHold
      | mkdir l => unfold step; simp only [hpc]; repeat' split
                   all_goals simp [setPC]
      | scanAll l => unfold step; simp only [hpc]; split <;> simp [setPC]
      | scanMsg l => unfold step; simp only [hpc]; split <;> simp [setPC]
      | create l => unfold step; simp only [hpc]; repeat' split
                    all_goals simp [setPC]
      | lookMsg l => unfold step; simp only [hpc]; split <;> simp [setPC]
      | isdir a => unfold step; simp only [hpc]; split <;> cases a <;> simp [setPC, afterPC]
      | rexists a => unfold step; simp only [hpc]; split <;> simp [setPC]
      | remove a => unfold step; simp only [hpc]; split <;> simp [setPC]
      | rmdir a => unfold step; simp only [hpc]; split <;> cases a <;> simp [setPC, afterPC]
      | done => unfold step; simp only [hpc]; simp [hpc]
      | failedAcq e => unfold step; simp only [hpc]; simp [hpc]
      | failedRel e => unfold step; simp only [hpc]; simp [hpc]
      | killed => unfold step; simp only [hpc]; simp [hpc]
    · rw [step_pc_other s p i hip]; exact h.noHold

theorem blocked_run (s : St) (g : Kind × Pid) (i : Pid) (sched : List Pid) (hgi : g.2 ≠ i) (hlp : s.lp i ≠ some g.2)
    (hinc : s.kind i = .ex ∨ g.1 = .ex) (h : Blocked s g i) : Blocked (run s sched) g i := by
  induction sched generalizing s with
  | nil => exact h
  | cons p r ih =>
    exact ih (step s p) (by rw [step_lp]; exact hlp) (by rw [step_kind]; exact hinc) (blocked_step s g i p hgi hlp hinc h)

end EupsModel.LockR
