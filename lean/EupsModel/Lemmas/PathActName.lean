import EupsModel.Lemmas.PathActEups
/-! The product's own `${<NAME>_DIR}` (repair of D124: the reference is matched literally, whatever characters the
name holds). -/
namespace EupsModel.PathAct
open EupsModel EupsModel.PathAlg

theorem upper_no_dollar (name : Str) (h : 36 ∉ name) : 36 ∉ upper name := by
  induction name with
  | nil => simp [upper]
  | cons c cs ih =>
    have hc : c ≠ 36 := fun e => h (by simp [e])
    have hcs : 36 ∉ cs := fun e => h (by simp [e])
    have ih' := ih hcs
    unfold upper at ih' ⊢
    simp only [List.map_cons, List.mem_cons, not_or]
    refine ⟨?_, ih'⟩
    by_cases hl : Str.isLower c = true
    · simp only [hl, if_true]
      simp [Str.isLower] at hl
      omega
    · simp only [hl]
      exact fun e => hc e.symm

/-- `PRODUCT`: what every macro of the earlier steps starts with after `${` -/
def sPRODUCT : Str := [80,82,79,68,85,67,84]

theorem isPrefixOf_append_false (P ps : Str) : ∀ ys : Str, P.isPrefixOf ys = false → (P ++ ps).isPrefixOf ys = false := by
  induction P with
  | nil => intro ys h; simp [List.isPrefixOf] at h
  | cons c cs ih =>
    intro ys h
    cases ys with
    | nil => simp [List.isPrefixOf]
    | cons y ys' =>
      simp only [List.cons_append, List.isPrefixOf] at h ⊢
      by_cases hc : c == y
      · simp only [hc, Bool.true_and] at h ⊢
        exact ih ys' h
      · simp [hc]

theorem isPrefixOf_third (a b : Nat) (ps ys : Str) (hy : sPRODUCT.isPrefixOf ys = false) :
    (a :: b :: (sPRODUCT ++ ps)).isPrefixOf (a :: b :: ys) = false := by
  have := isPrefixOf_append_false sPRODUCT ps ys hy
  simp only [List.isPrefixOf, beq_self_eq_true, Bool.true_and]
  exact this

theorem pdirAt_third (ys : Str) (hy : sPRODUCT.isPrefixOf ys = false) : pdirAt (36 :: 123 :: ys) = none := by
  have a := isPrefixOf_third 36 123 [95,68,73,82,125] ys hy
  have b := isPrefixOf_third 36 123 [95,68,73,82,95,69,88,84,82,65,125] ys hy
  simp only [sPRODUCT, List.cons_append, List.nil_append] at a b
  have c : ([36,63,123,80,82,79,68,85,67,84,95,68,73,82,125] : Str).isPrefixOf (36 :: 123 :: ys) = false := by
    simp [List.isPrefixOf]
  have d : ([36,63,123,80,82,79,68,85,67,84,95,68,73,82,95,69,88,84,82,65,125] : Str).isPrefixOf (36 :: 123 :: ys)
      = false := by
    simp [List.isPrefixOf]
  unfold pdirAt
  rw [mDIR_eq, mDIRopt_eq, mEXTRA_eq, mEXTRAopt_eq, a, b, c, d]
  rfl

theorem firstPdir_third (ys : Str) (hy : sPRODUCT.isPrefixOf ys = false) (h36 : 36 ∉ ys) :
    firstPdir (36 :: 123 :: ys) = none := by
  have h : firstPdir (123 :: ys) = none := firstPdir_no_dollar _ (by simp [h36])
  rw [firstPdir, pdirAt_third ys hy]
  exact h

theorem expandMacros_name_dir (p : ProdInfo) (d tail : Str) (hd : p.dir = some d) (hne : d ≠ [])
    (hd36 : 36 ∉ d) (ht : 36 ∉ tail) (hn36 : 36 ∉ p.name)
    (hP : sPRODUCT.isPrefixOf (upper p.name ++ Str.ofString "_DIR}" ++ tail) = false) :
    expandMacros p (mNameDir p.name ++ tail) = d ++ tail := by
  -- the text is `$ { N… tail` with no further `$`
  obtain ⟨ys, hysdef⟩ : ∃ ys, ys = upper p.name ++ Str.ofString "_DIR}" ++ tail := ⟨_, rfl⟩
  have htext : mNameDir p.name ++ tail = 36 :: 123 :: ys := by
    simp [mNameDir, hysdef, List.append_assoc]
  have hys36 : 36 ∉ ys := by
    have h1 := upper_no_dollar p.name hn36
    have h2 : 36 ∉ Str.ofString "_DIR}" := by decide
    simp [hysdef, h1, h2, ht]
  have hbody : 36 ∉ 123 :: ys := by simp [hys36]
  have hyhead : sPRODUCT.isPrefixOf ys = false := by rw [hysdef]; exact hP
  -- the `${PRODUCTS}` step
  have h1 : optRepl mPRODUCTS p.root (36 :: 123 :: ys) = 36 :: 123 :: ys := by
    apply optRepl_id
    intro r
    apply replaceAll_dollar_head_only _ _ _ head_mPRODUCTS _ hbody
    rw [mPRODUCTS_eq]
    have := isPrefixOf_third 36 123 [83,125] ys hyhead
    simpa [sPRODUCT] using this
  -- the PRODUCT_DIR step
  have h2 : expandPdir p (36 :: 123 :: ys) = 36 :: 123 :: ys := by
    have hf : firstPdir (36 :: 123 :: ys) = none := firstPdir_third ys hyhead hys36
    simp [expandPdir, hf]
  -- the product's own reference
  have h3 : optRepl (mNameDir p.name) p.dir (mNameDir p.name ++ tail) = d ++ tail := by
    unfold optRepl
    rw [hd, truthy_some_ne d hne]
    have := replaceAll_prefix 36 (123 :: (upper p.name ++ Str.ofString "_DIR}")) d tail
    rw [mNameDir_eq]
    simp only at this ⊢
    rw [this, replaceAll_no_head 36 _ d tail ht]
  have hdt : 36 ∉ d ++ tail := by simp [hd36, ht]
  have r : ∀ pat repl, pat.head? = some 36 → replaceAll pat repl (d ++ tail) = d ++ tail :=
    fun pat repl hp => replaceAll_no_dollar pat repl _ hp hdt
  rw [expandMacros_eq, htext, h1, h2, ← htext, h3,
    optRepl_id _ _ _ (fun x => r _ x head_mFLAVOR), r _ _ head_mNAME,
    optRepl_id _ _ _ (fun x => r _ x head_mVERSION), r _ _ head_mUPS]

/-- a product called `c++` with directory `/opt/c` -/
def cxx : ProdInfo :=
  ⟨some (Str.ofString "/st"), some (Str.ofString "/opt/c"), [], false, Str.ofString "c++",
   some (Str.ofString "F"), some (Str.ofString "1"), Str.ofString "/opt/c/ups"⟩

example : expandMacros cxx (Str.ofString "${C++_DIR}/bin") = Str.ofString "/opt/c/bin" := by decide
example : expandMacros cxx (Str.ofString "${C_DIR}/lib") = Str.ofString "${C_DIR}/lib" := by decide
example : 36 ∉ cxx.name ∧ sPRODUCT.isPrefixOf (upper cxx.name ++ Str.ofString "_DIR}" ++ Str.ofString "/bin") = false := by
  decide
/-- a product `python` (starts with `p`) satisfies the hypothesis too -/
example : sPRODUCT.isPrefixOf (upper (Str.ofString "python") ++ Str.ofString "_DIR}" ++ Str.ofString "/lib") = false := by
  decide

end EupsModel.PathAct

namespace EupsModel.PathAct
open EupsModel EupsModel.PathAlg

/-- a run of actions changes no variable that none of them targets -/
theorem run_other_var (acts : List (Bool × Act)) (s s' : St) (k : Str)
    (h : run acts s = .ok s') (hk : ∀ a ∈ acts, k ≠ a.2.target) :
    s'.env.get k = s.env.get k := by
  induction acts generalizing s with
  | nil => simp [run] at h; subst h; rfl
  | cons a rest ih =>
    obtain ⟨fwd, act⟩ := a
    simp only [run] at h
    cases he : exec fwd act s with
    | runtimeError => rw [he] at h; cases h
    | ok s1 =>
      rw [he] at h
      have h1 := exec_other_var fwd act s s1 k he (hk (fwd, act) (by simp))
      have h2 := ih s1 h (fun a ha => hk a (by simp [ha]))
      rw [h2, h1]

/-- a run without addAlias lines leaves the aliases alone -/
theorem run_aliases_untouched (acts : List (Bool × Act)) (s s' : St)
    (h : run acts s = .ok s') (hal : ∀ a ∈ acts, ∀ key ws, a.2 ≠ .alias key ws) :
    s'.aliases = s.aliases := by
  induction acts generalizing s with
  | nil => simp [run] at h; subst h; rfl
  | cons a rest ih =>
    obtain ⟨fwd, act⟩ := a
    simp only [run] at h
    cases he : exec fwd act s with
    | runtimeError => rw [he] at h; cases h
    | ok s1 =>
      rw [he] at h
      have h1 := (exec_aliases_untouched fwd act s s1 he (hal (fwd, act) (by simp))).1
      have h2 := ih s1 h (fun a ha => hal a (by simp [ha]))
      rw [h2, h1]

end EupsModel.PathAct
