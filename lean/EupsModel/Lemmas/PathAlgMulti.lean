import EupsModel.Lemmas.PathAlg
/-! `split`/`join` and `envPrepend` for MULTI-character literal delimiters (e.g. `"::"`), and for values with
several pieces. Generalises the single-character results of `Lemmas/PathAlg.lean`. -/
namespace EupsModel.PathAlg

/-! ## `splitGo` on a delimiter `c :: ds` -/

theorem isPrefixOf_append_self (d r : Str) : d.isPrefixOf (d ++ r) = true := by
  induction d with
  | nil => simp [List.isPrefixOf]
  | cons x xs ih => simp [ih]

theorem isPrefixOf_head_ne (c x : Nat) (ds xs : Str) (h : x ≠ c) :
    (c :: ds).isPrefixOf (x :: xs) = false := by
  have : (c == x) = false := by simp [Ne.symm h]
  simp [List.isPrefixOf, this]

/-- a character different from the first character of the delimiter is consumed into the current piece -/
theorem splitGo_cons_ne (c x : Nat) (ds cur xs : Str) (h : x ≠ c) :
    splitGo (c :: ds) 0 cur (x :: xs) = splitGo (c :: ds) 0 (x :: cur) xs := by
  simp [splitGo, isPrefixOf_head_ne c x ds xs h]

/-- the skip counter drops exactly the rest of the delimiter -/
theorem splitGo_skip (d ds cur rest : Str) :
    splitGo d ds.length cur (ds ++ rest) = splitGo d 0 cur rest := by
  induction ds with
  | nil => simp
  | cons y ys ih => simp [splitGo, ih]

/-- at an occurrence of the delimiter the current piece is closed and the delimiter is skipped -/
theorem splitGo_sep (c : Nat) (ds cur rest : Str) :
    splitGo (c :: ds) 0 cur ((c :: ds) ++ rest) = cur.reverse :: splitGo (c :: ds) 0 [] rest := by
  have hp : (c :: ds).isPrefixOf (c :: (ds ++ rest)) = true :=
    isPrefixOf_append_self (c :: ds) rest
  rw [List.cons_append, splitGo, if_pos hp]
  simp only [List.length_cons, Nat.add_sub_cancel]
  rw [splitGo_skip]

theorem splitGo_free_multi (c : Nat) (ds t rest cur : Str) (h : c ∉ t) :
    splitGo (c :: ds) 0 cur (t ++ rest) = splitGo (c :: ds) 0 (t.reverse ++ cur) rest := by
  induction t generalizing cur with
  | nil => simp
  | cons x xs ih =>
    have hx : x ≠ c := fun e => h (by simp [e])
    have hxs : c ∉ xs := fun e => h (by simp [e])
    rw [List.cons_append, splitGo_cons_ne c x ds cur _ hx, ih _ hxs]
    simp

/-- `split` inverts `join` for a multi-character delimiter when no piece contains the FIRST character of the
delimiter (Python: `d.join(l).split(d) == l`). -/
theorem split_join_multi (c : Nat) (ds : Str) (l : List Str) (hne : l ≠ []) (h : ∀ e ∈ l, c ∉ e) :
    split (c :: ds) (join (c :: ds) l) = l := by
  unfold split
  induction l with
  | nil => exact absurd rfl hne
  | cons x rest ih =>
    cases rest with
    | nil =>
      have := splitGo_free_multi c ds x [] [] (h x (by simp))
      simp only [List.append_nil] at this
      simp [join, this, splitGo_nil]
    | cons y rest' =>
      have hx : c ∉ x := h x (by simp)
      have ih' := ih (by simp) (fun e he => h e (by simp [he]))
      simp only [join, List.append_assoc]
      rw [splitGo_free_multi c ds x _ [] hx]
      simp only [List.append_nil]
      rw [splitGo_sep, ih']
      simp

/-- the hypothesis cannot be dropped: with `d = "::"` the pieces `["a:", "b"]` join to `"a:::b"`, which Python
(and the model) splits at the FIRST `"::"`, giving `["a", ":b"]`. -/
theorem split_join_multi_witness :
    split [58, 58] (join [58, 58] [[97, 58], [98]]) = [[97], [58, 98]] := by decide

theorem split_join_multi_witness_ne :
    split [58, 58] (join [58, 58] [[97, 58], [98]]) ≠ [[97, 58], [98]] := by decide

/-! ## good pieces for a delimiter string -/

/-- piece of a well-formed path value for the delimiter `d`: non-empty, shares no character with the delimiter,
no `$` -/
def GoodPieceD (d : Str) (e : Str) : Prop := e ≠ [] ∧ (∀ ch ∈ d, ch ∉ e) ∧ 36 ∉ e

theorem goodPieceD_single (c : Nat) (e : Str) : GoodPieceD [c] e ↔ GoodPiece c e := by
  simp [GoodPieceD, GoodPiece]

theorem goodPieceD_reverse (d e : Str) (h : GoodPieceD d e) : GoodPieceD d.reverse e.reverse :=
  ⟨by simpa using h.1, by intro ch hch; simpa using h.2.1 ch (by simpa using hch), by simpa using h.2.2⟩

theorem startsWith_goodD (d v : Str) (hd : d ≠ []) (h : GoodPieceD d v) : startsWith v d = false := by
  obtain ⟨hne, hc, _⟩ := h
  cases d with
  | nil => exact absurd rfl hd
  | cons c ds =>
    cases v with
    | nil => exact absurd rfl hne
    | cons x xs =>
      have hx : x ≠ c := fun e => hc c (by simp) (by simp [e])
      exact isPrefixOf_head_ne c x ds xs hx

theorem endsWith_goodD (d v : Str) (hd : d ≠ []) (h : GoodPieceD d v) : endsWith v d = false := by
  have := startsWith_goodD d.reverse v.reverse (by simpa using hd) (goodPieceD_reverse d v h)
  simpa [endsWith, startsWith] using this

theorem split_join_goodD (d : Str) (hd : d ≠ []) (l : List Str) (hne : l ≠ [])
    (h : ∀ e ∈ l, GoodPieceD d e) : split d (join d l) = l := by
  cases d with
  | nil => exact absurd rfl hd
  | cons c ds => exact split_join_multi c ds l hne (fun e he => (h e he).2.1 c (by simp))

theorem split_nil (d : Str) : split d [] = [[]] := by simp [split, splitGo]

theorem split_join_filter_multi (d : Str) (hd : d ≠ []) (l : List Str) (h : ∀ e ∈ l, GoodPieceD d e) :
    (split d (join d l)).filter (fun el => decide (el ≠ [])) = l := by
  cases l with
  | nil => simp [join, split_nil]
  | cons a rest =>
    rw [split_join_goodD d hd _ (by simp) h]
    apply List.filter_eq_self.mpr
    intro e he
    simpa using (h e he).1

theorem not_mem_join_multi (d : Str) (x : Nat) (l : List Str) (hx : x ∉ d) (h : ∀ e ∈ l, x ∉ e) :
    x ∉ join d l := by
  induction l with
  | nil => simp [join]
  | cons a rest ih =>
    cases rest with
    | nil => simpa [join] using h a (by simp)
    | cons b rest' =>
      have := ih (fun e he => h e (by simp [he]))
      simp only [join, List.mem_append, not_or]
      exact ⟨⟨h a (by simp), hx⟩, this⟩

theorem no_dollar_join_goodD (d : Str) (hd36 : 36 ∉ d) (l : List Str) (h : ∀ e ∈ l, GoodPieceD d e) :
    36 ∉ join d l :=
  not_mem_join_multi d 36 l hd36 (fun e he => (h e he).2.2)

theorem applyL_goodD (d : Str) (append fwd : Bool) (v : Str) (oldl : List Str)
    (hold : ∀ e ∈ oldl, GoodPieceD d e) (hv : GoodPieceD d v) :
    ∀ e ∈ applyL append fwd [v] oldl, GoodPieceD d e := by
  intro e he
  rcases applyL_mem append fwd v oldl e he with h | h
  · subst h; exact hv
  · exact hold e h

/-- the multi-character analogue of `envPrepend_lifts` -/
theorem envPrepend_lifts_multi (d : Str) (hd : d ≠ []) (hd36 : 36 ∉ d) (append fwd : Bool) (var v : Str)
    (oldl : List Str) (env : Env)
    (hold : ∀ e ∈ oldl, GoodPieceD d e) (hv : GoodPieceD d v)
    (henv : (env.get var).getD [] = join d oldl) :
    envPrepend append fwd var v d env = .ok (env.set var (join d (applyL append fwd [v] oldl))) := by
  have hsplitv : split d v = [v] := by
    have := split_join_goodD d hd [v] (by simp) (by intro e he; simp at he; subst he; exact hv)
    simpa [join] using this
  have hnd : (36 : Nat) ∉ join d (applyL append fwd [v] oldl) :=
    no_dollar_join_goodD d hd36 _ (applyL_goodD d append fwd v oldl hold hv)
  have hflt := split_join_filter_multi d hd oldl hold
  unfold envPrepend
  simp only [startsWith_goodD d v hd hv, endsWith_goodD d v hd hv, henv,
    expand_no_dollar env v hv.2.2, interp_no_dollar env _ v hv.2.2, hsplitv, hflt, Bool.false_eq_true,
    if_false, Bool.false_and]

/-! ## values with several pieces -/

section
variable {α : Type} [DecidableEq α]

omit [DecidableEq α] in
theorem mem_loopVals (append fwd : Bool) (vals : List α) (e : α) :
    e ∈ loopVals append fwd vals ↔ e ∈ vals := by
  unfold loopVals; split <;> simp

omit [DecidableEq α] in
theorem foldl_mem_step (f : List α → α → List α)
    (hf : ∀ np v e, e ∈ f np v → e = v ∨ e ∈ np) (l old : List α) (e : α)
    (he : e ∈ l.foldl f old) : e ∈ l ∨ e ∈ old := by
  induction l generalizing old with
  | nil => exact Or.inr (by simpa using he)
  | cons x xs ih =>
    rw [List.foldl_cons] at he
    rcases ih _ he with h | h
    · exact Or.inl (by simp [h])
    · rcases hf _ _ _ h with h' | h'
      · exact Or.inl (by simp [h'])
      · exact Or.inr h'

/-- the loop never invents elements -/
theorem applyL_mem_vals (append fwd : Bool) (vals old : List α) (e : α)
    (he : e ∈ applyL append fwd vals old) : e ∈ vals ∨ e ∈ old := by
  unfold applyL at he
  rw [mem_uniq] at he
  have := foldl_mem_step _ (by
    intro np v e he
    cases fwd <;> cases append <;> simp [appendL, prependL, removeL] at he <;> grind) _ _ _ he
  rwa [mem_loopVals] at this

end

theorem applyL_goodD_vals (d : Str) (append fwd : Bool) (vals oldl : List Str)
    (hold : ∀ e ∈ oldl, GoodPieceD d e) (hv : ∀ e ∈ vals, GoodPieceD d e) :
    ∀ e ∈ applyL append fwd vals oldl, GoodPieceD d e := by
  intro e he
  rcases applyL_mem_vals append fwd vals oldl e he with h | h
  · exact hv e h
  · exact hold e h

theorem join_cons_ne_multi (d a : Str) (rest : List Str) (hr : rest ≠ []) :
    join d (a :: rest) = a ++ d ++ join d rest := by
  cases rest with
  | nil => exact absurd rfl hr
  | cons b r => simp [join]

/-- the first character of a join of good pieces is not a delimiter character -/
theorem head_join_goodD (d : Str) (l : List Str) (hne : l ≠ []) (h : ∀ e ∈ l, GoodPieceD d e) :
    ∃ x post, join d l = x :: post ∧ x ∉ d := by
  cases l with
  | nil => exact absurd rfl hne
  | cons a rest =>
    obtain ⟨hane, hac, _⟩ := h a (by simp)
    cases a with
    | nil => exact absurd rfl hane
    | cons x xs =>
      have hx : x ∉ d := fun hm => hac x hm (by simp)
      cases rest with
      | nil => exact ⟨x, xs, by simp [join], hx⟩
      | cons b r => exact ⟨x, xs ++ d ++ join d (b :: r), by simp [join], hx⟩

/-- the last character of a join of good pieces is not a delimiter character -/
theorem getLast_join_goodD (d : Str) (l : List Str) (hne : l ≠ []) (h : ∀ e ∈ l, GoodPieceD d e) :
    ∃ pre x, join d l = pre ++ [x] ∧ x ∉ d := by
  induction l with
  | nil => exact absurd rfl hne
  | cons a rest ih =>
    cases rest with
    | nil =>
      have ha := h a (by simp)
      refine ⟨a.dropLast, a.getLast ha.1, ?_, ?_⟩
      · simp [join, List.dropLast_concat_getLast]
      · intro hm; exact ha.2.1 _ hm (List.getLast_mem ha.1)
    | cons b r =>
      obtain ⟨pre, x, hp, hx⟩ := ih (by simp) (fun e he => h e (by simp [he]))
      refine ⟨a ++ d ++ pre, x, ?_, hx⟩
      rw [join_cons_ne_multi d a (b :: r) (by simp), hp]; simp

theorem startsWith_join_goodD (d : Str) (hd : d ≠ []) (l : List Str) (hne : l ≠ [])
    (h : ∀ e ∈ l, GoodPieceD d e) : startsWith (join d l) d = false := by
  obtain ⟨x, post, hp, hx⟩ := head_join_goodD d l hne h
  cases d with
  | nil => exact absurd rfl hd
  | cons c ds =>
    rw [hp]
    exact isPrefixOf_head_ne c x ds post (fun e => hx (by simp [e]))

theorem endsWith_join_goodD (d : Str) (hd : d ≠ []) (l : List Str) (hne : l ≠ [])
    (h : ∀ e ∈ l, GoodPieceD d e) : endsWith (join d l) d = false := by
  obtain ⟨pre, x, hp, hx⟩ := getLast_join_goodD d l hne h
  have hdr : d.reverse ≠ [] := by simpa using hd
  rw [hp]
  unfold endsWith
  cases hr : d.reverse with
  | nil => exact absurd hr hdr
  | cons c ds =>
    have hc : c ∈ d := by
      have : c ∈ d.reverse := by rw [hr]; simp
      simpa using this
    have hxc : x ≠ c := fun e => hx (e ▸ hc)
    simpa using isPrefixOf_head_ne c x ds pre.reverse hxc

/-- `envPrepend` with a value of several good pieces, any non-empty literal delimiter (single- or
multi-character): the string-level action is the list-level `applyL` on the pieces. -/
theorem envPrepend_lifts_vals (d : Str) (hd : d ≠ []) (hd36 : 36 ∉ d) (append fwd : Bool) (var : Str)
    (vals oldl : List Str) (env : Env) (hvne : vals ≠ [])
    (hold : ∀ e ∈ oldl, GoodPieceD d e) (hv : ∀ e ∈ vals, GoodPieceD d e)
    (henv : (env.get var).getD [] = join d oldl) :
    envPrepend append fwd var (join d vals) d env
      = .ok (env.set var (join d (applyL append fwd vals oldl))) := by
  have hsplitv : split d (join d vals) = vals := split_join_goodD d hd vals hvne hv
  have hnv : (36 : Nat) ∉ join d vals := no_dollar_join_goodD d hd36 _ hv
  have hnd : (36 : Nat) ∉ join d (applyL append fwd vals oldl) :=
    no_dollar_join_goodD d hd36 _ (applyL_goodD_vals d append fwd vals oldl hold hv)
  have hflt := split_join_filter_multi d hd oldl hold
  unfold envPrepend
  simp only [startsWith_join_goodD d hd vals hvne hv, endsWith_join_goodD d hd vals hvne hv, henv,
    expand_no_dollar env _ hnv, interp_no_dollar env _ _ hnv, hsplitv, hflt, Bool.false_eq_true, if_false,
    Bool.false_and]

/-- single-character corollary in the vocabulary of `GoodPiece` -/
theorem envPrepend_lifts_vals_single (c : Nat) (hc : c ≠ 36) (append fwd : Bool) (var : Str)
    (vals oldl : List Str) (env : Env) (hvne : vals ≠ [])
    (hold : ∀ e ∈ oldl, GoodPiece c e) (hv : ∀ e ∈ vals, GoodPiece c e)
    (henv : (env.get var).getD [] = join [c] oldl) :
    envPrepend append fwd var (join [c] vals) [c] env
      = .ok (env.set var (join [c] (applyL append fwd vals oldl))) :=
  envPrepend_lifts_vals [c] (by simp) (by simpa using Ne.symm hc) append fwd var vals oldl env hvne
    (fun e he => (goodPieceD_single c e).mpr (hold e he))
    (fun e he => (goodPieceD_single c e).mpr (hv e he)) henv

/-! ## non-vacuity -/

example : GoodPieceD [58, 58] (Str.ofString "/opt/bin") := by unfold GoodPieceD; decide
example : ¬ GoodPieceD [58, 58] (Str.ofString "a:") := by unfold GoodPieceD; decide
example : split [58, 58] (Str.ofString "/a::/b::/c") = [Str.ofString "/a", Str.ofString "/b", Str.ofString "/c"] := by
  decide

end EupsModel.PathAlg
