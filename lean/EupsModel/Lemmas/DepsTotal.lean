import EupsModel.Lemmas.Uses
import EupsModel.Lemmas.TopoTotal
/-! Totality of `getDependentProducts` and `usesInfo` on databases without unsetup lines. -/
namespace EupsModel.Deps
open EupsModel

theorem listing_total (db : Db) (hns : NoUnsetup db) (req : Required) (top : Prod) :
    ∃ out st, listing db db.fuel req top = some (out, st) := by
  obtain ⟨o, st, h⟩ := depsOf_some db hns req db.fuel top 1 St.empty (fuel_enough db)
  exact ⟨o.filter (fun e => e.prod != top), st, by simp [listing, h]⟩

/-- **The listing never fails**: with the driver's fuel, on a database without unsetup lines, every mode returns
a listing, except that `checkCycles` may report a cycle. -/
theorem getDependentProducts_total (db : Db) (hns : NoUnsetup db) (top : Prod) (topological cc : Bool) :
    (∃ out, getDependentProducts db db.fuel top topological cc = .ok out) ∨
      (cc = true ∧ getDependentProducts db db.fuel top topological cc = .cycle) := by
  obtain ⟨out1, st1, h1⟩ := listing_total db hns [] top
  unfold getDependentProducts
  simp only [tableMissing_false hns top, Bool.false_eq_true, if_false, h1]
  unfold finishListing
  split
  · exact Or.inl ⟨_, rfl⟩
  · obtain ⟨out2, st2, h2⟩ := listing_total db hns (out1.map fun e => (e.prod.name, e.prod.ver)) top
    simp only [h2]
    rcases Topo.topologicalSort_total (graphOf st2) cc with ⟨ls, hls⟩ | ⟨hcc, hcy⟩
    · simp only [hls]; exact Or.inl ⟨_, rfl⟩
    · simp only [hcy]; exact Or.inr ⟨hcc, trivial⟩

theorem usesInfo_go_total (db : Db) (hns : NoUnsetup db) : ∀ (ds : List Decl) (sb0 : SetupBy),
    ∃ sb, usesInfo.go db db.fuel ds sb0 = .ok sb := by
  intro ds
  induction ds with
  | nil => intro sb0; exact ⟨_, rfl⟩
  | cons d ds ih =>
    intro sb0
    simp only [usesInfo.go]
    rcases getDependentProducts_total db hns ⟨d.name, some d.ver, true⟩ true false with ⟨l, hl⟩ | ⟨hcc, _⟩
    · simp only [hl]; exact ih _
    · exact absurd hcc (by simp)

/-- **`uses()` never fails** on a database without unsetup lines -/
theorem usesInfo_total (db : Db) (hns : NoUnsetup db) : ∃ sb, usesInfo db db.fuel = .ok sb :=
  usesInfo_go_total db hns _ _

end EupsModel.Deps
