import EupsModel.Lemmas.Uses
import EupsModel.Lemmas.TopoTotal
import EupsModel.Lemmas.DepsGuard
/-! Totality of `getDependentProducts` and `usesInfo` on every database (tree with the D32 repair; before it:
on databases without unsetup lines). -/
namespace EupsModel.Deps
open EupsModel

theorem listing_total (db : Db) (req : Required) (top : Prod) :
    ∃ out st, listing db db.fuel req top = some (out, st) := by
  obtain ⟨o, st, h⟩ := depsOf_total db req top true 1
  exact ⟨o.filter (fun e => e.prod != top), st, by simp [listing, h]⟩

/-- **The listing never fails**: with the driver's fuel, on every database, every mode returns
a listing, except that `checkCycles` may report a cycle. -/
theorem getDependentProducts_total (db : Db) (top : Prod) (topological cc : Bool) :
    (∃ out, getDependentProducts db db.fuel top topological cc = .ok out) ∨
      (cc = true ∧ getDependentProducts db db.fuel top topological cc = .cycle) := by
  obtain ⟨out1, st1, h1⟩ := listing_total db [] top
  unfold getDependentProducts
  by_cases hm : db.tableMissing top = true
  · simp only [hm, if_true]; exact Or.inl ⟨_, rfl⟩
  simp only [hm, Bool.false_eq_true, if_false, h1]
  unfold finishListing
  split
  · exact Or.inl ⟨_, rfl⟩
  · obtain ⟨out2, st2, h2⟩ := listing_total db (out1.map fun e => (e.prod.name, e.prod.ver)) top
    simp only [h2]
    rcases Topo.topologicalSort_total (graphOf st2) cc with ⟨ls, hls⟩ | ⟨hcc, hcy⟩
    · simp only [hls]; exact Or.inl ⟨_, rfl⟩
    · simp only [hcy]; exact Or.inr ⟨hcc, trivial⟩

theorem usesInfo_go_total (db : Db) : ∀ (ds : List Decl) (sb0 : SetupBy),
    ∃ sb, usesInfo.go db db.fuel ds sb0 = .ok sb := by
  intro ds
  induction ds with
  | nil => intro sb0; exact ⟨_, rfl⟩
  | cons d ds ih =>
    intro sb0
    simp only [usesInfo.go]
    rcases getDependentProducts_total db ⟨d.name, some d.ver, true⟩ true false with ⟨l, hl⟩ | ⟨hcc, _⟩
    · simp only [hl]; exact ih _
    · exact absurd hcc (by simp)

/-- **`uses()` never fails**, on every database -/
theorem usesInfo_total (db : Db) : ∃ sb, usesInfo db db.fuel = .ok sb :=
  usesInfo_go_total db _ _

end EupsModel.Deps
