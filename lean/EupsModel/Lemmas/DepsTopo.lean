import EupsModel.Lemmas.DepsFuel
import EupsModel.Lemmas.TopoSpec
/-! From the table walk to the topological depths: the second pass of `getDependentProducts` repeats the
first when no product occurs in two versions, the graph handed to `topologicalSort` is the graph of the
opened tables, and the depth written into an entry is determined by the layer of its product. -/
namespace EupsModel.Deps
open EupsModel

/-! ### the second pass -/

/-- the closure of `top` holds no product in two versions (placeholders and `top` itself included) -/
def SingleVersion (db : Db) (top : Prod) : Prop :=
  ∀ u v, (u = top ∨ Listed db [] top u) → (v = top ∨ Listed db [] top v) → u.name = v.name → u = v

theorem lookup_mem {β γ : Type} [BEq β] [LawfulBEq β] : ∀ (l : List (β × γ)) (k : β) (v : γ),
    l.lookup k = some v → (k, v) ∈ l := by
  intro l
  induction l with
  | nil => intro k v h; simp [List.lookup] at h
  | cons p ps ih =>
    intro k v h
    obtain ⟨a, b⟩ := p
    simp only [List.lookup] at h
    split at h
    · rename_i heq; simp at h; subst h; have : k = a := by simpa using heq
      subst this; simp
    · simp [ih k v h]

theorem lookup_none {β γ : Type} [BEq β] [LawfulBEq β] : ∀ (l : List (β × γ)) (k : β),
    l.lookup k = none → ∀ v, (k, v) ∉ l := by
  intro l
  induction l with
  | nil => intro k _ v; simp
  | cons p ps ih =>
    intro k h v
    obtain ⟨a, b⟩ := p
    simp only [List.lookup] at h
    split at h
    · simp at h
    · rename_i hne
      simp only [List.mem_cons, not_or]
      refine ⟨?_, ih k h v⟩
      intro hka
      have : k = a := (_root_.Prod.mk.inj hka).1
      subst this; simp at hne

theorem lookupLast_mem {r : Required} {n : Str} {v : Option Str} (h : lookupLast r n = some v) : (n, v) ∈ r := by
  unfold lookupLast at h
  have := lookup_mem _ _ _ h
  simpa using this

theorem lookupLast_none {r : Required} {n : Str} (h : lookupLast r n = none) : ∀ v, (n, v) ∉ r := by
  unfold lookupLast at h
  intro v hv
  exact lookup_none _ _ h v (by simpa using hv)

theorem find_name {db : Db} {n : Str} {v : Option Str} {p : Prod} (h : db.find n v = some p) : p.name = n := by
  unfold Db.find at h
  split at h
  · split at h <;> simp at h; subst h; rfl
  · split at h
    · split at h <;> simp at h; subst h; rfl
    · simp at h

theorem find_again {db : Db} {n : Str} {v : Option Str} {p : Prod} (h : db.find n v = some p) :
    db.find n p.ver = some p := by
  unfold Db.find at h
  split at h
  · split at h
    · rename_i v' hd; simp at h; subst h; simp [Db.find, hd]
    · simp at h
  · split at h
    · split at h
      · rename_i v' _ hd; simp at h; subst h; simp [Db.find, hd]
      · simp at h
    · simp at h

theorem resolve_nil (db : Db) (d : Dep) : resolve db [] d = db.find d.name d.ver := by
  simp [resolve, lookupLast, List.lookup]

theorem target_name (db : Db) (req : Required) (d : Dep) : (target db req d).name = d.name := by
  unfold target
  cases h : resolve db req d with
  | none => rfl
  | some p =>
    simp only [Option.getD_some]
    unfold resolve at h
    split at h <;> exact find_name h

/-- with the versions found in the first pass required, a line of an opened table resolves as before -/
theorem resolve_second_pass {db : Db} {top : Prod} (hsv : SingleVersion db top) {out : List Entry}
    (hout : ∀ e ∈ out, Listed db [] top e.prod)
    {w : Prod} (hw : XReach db [] top w) {d : Dep} (hd : d ∈ db.table w) :
    resolve db (out.map fun e => (e.prod.name, e.prod.ver)) d = resolve db [] d := by
  have hl : Listed db [] top (target db [] d) := ⟨w, hw, d, hd, rfl⟩
  rw [resolve_nil]
  unfold resolve
  cases hlk : lookupLast (out.map fun e => (e.prod.name, e.prod.ver)) d.name with
  | none => rfl
  | some v =>
    simp only
    have := lookupLast_mem hlk
    simp only [List.mem_map] at this
    obtain ⟨e, he, hpair⟩ := this
    have hn : e.prod.name = d.name := (_root_.Prod.mk.inj hpair).1
    have hv : e.prod.ver = v := (_root_.Prod.mk.inj hpair).2
    have heq : e.prod = target db [] d :=
      hsv _ _ (Or.inr (hout e he)) (Or.inr hl) (by rw [hn, target_name])
    subst hv
    rw [heq]
    unfold target
    rw [resolve_nil]
    cases hf : db.find d.name d.ver with
    | none => simp [hf]
    | some p => simp only [Option.getD_some]; exact find_again hf

/-- the loop with two resolution environments that agree on the tables it opens -/
theorem depsLoop_congr (db : Db) (req : Required) (Q : Prod → Prop)
    (hQ : ∀ u, Q u → ∀ d ∈ db.table u, resolve db req d = resolve db [] d ∧
        (d.noRec = false → ∀ v, resolve db [] d = some v → Q v))
    (r1 r2 : Prod → Nat → St → Option (List Entry × St)) (f1 f2 : Prod → Option (List Str))
    (hrec : ∀ p dp st, Q p → r1 p dp st = r2 p dp st) (top : Prod) (htop : Q top) (depth : Nat)
    (hm : ∀ p, db.tableMissing p = false) :
    ∀ ds acc st, (∀ d ∈ ds, d ∈ db.table top) → (∀ d ∈ ds, d.unsetup = false) →
      depsLoop db req r1 f1 top true depth ds acc st = depsLoop db [] r2 f2 top true depth ds acc st := by
  intro ds
  induction ds with
  | nil => intro acc st _ _; simp [depsLoop]
  | cons d ds ih =>
    intro acc st ht hu
    rw [depsLoop_cons_setup _ _ _ _ _ _ _ _ _ _ _ (hu d (by simp)) hm,
      depsLoop_cons_setup _ _ _ _ _ _ _ _ _ _ _ (hu d (by simp)) hm]
    obtain ⟨h1, h2⟩ := hQ top htop d (ht d (by simp))
    have ht' : ∀ d ∈ ds, d ∈ db.table top := fun x hx => ht x (by simp [hx])
    have hu' : ∀ d ∈ ds, d.unsetup = false := fun x hx => hu x (by simp [hx])
    rw [h1]
    cases hr : resolve db [] d with
    | none => exact ih _ _ ht' hu'
    | some p =>
      simp only
      by_cases hc : (true && !d.noRec && !st.seen.contains (prodkey p)) = true
      · simp only [hc, if_true]
        have hj : d.noRec = false := by
          simp only [Bool.true_and, Bool.and_eq_true, Bool.not_eq_true'] at hc; exact hc.1
        rw [hrec p _ _ (h2 hj p hr)]
        cases r2 p (depth + 1) { st with seen := prodkey p :: st.seen } with
        | none => rfl
        | some r => exact ih _ _ ht' hu'
      · simp only [hc, Bool.false_eq_true, if_false]
        exact ih _ _ ht' hu'

theorem depsOf_congr (db : Db) (hns : NoUnsetup db) (req : Required) (Q : Prod → Prop)
    (hQ : ∀ u, Q u → ∀ d ∈ db.table u, resolve db req d = resolve db [] d ∧
        (d.noRec = false → ∀ v, resolve db [] d = some v → Q v)) :
    ∀ f top depth st, Q top → depsOf db f req top true depth st = depsOf db f [] top true depth st := by
  intro f
  induction f with
  | zero => intro top depth st _; simp [depsOf, depsOfG]
  | succ k ih =>
    intro top depth st htop
    unfold depsOf depsOfG
    exact depsLoop_congr db req Q hQ _ _ _ _ (fun p dp st' hp => ih p dp st' hp) top htop depth
      (tableMissing_false hns) _ _ _ (fun _ h => h) (table_noUnsetup hns top)

/-- **Second pass = first pass** when the closure holds no product in two versions -/
theorem second_pass_eq {db : Db} (hns : NoUnsetup db) {top : Prod} (hsv : SingleVersion db top)
    {f : Nat} {out : List Entry} {st : St} (h : listing db f [] top = some (out, st)) :
    listing db f (out.map fun e => (e.prod.name, e.prod.ver)) top = some (out, st) := by
  have hout : ∀ e ∈ out, Listed db [] top e.prod := by
    unfold listing at h
    cases hd : depsOf db f [] top true 1 St.empty with
    | none => simp [hd] at h
    | some r =>
      obtain ⟨o, s⟩ := r
      simp only [hd, Option.map_some, Option.some.injEq] at h
      have C := depsOf_post db hns [] _ _ _ _ _ _ hd
      intro e he
      rw [← (_root_.Prod.mk.inj h).1] at he
      exact C.out_sound e (List.mem_filter.mp he).1
  have := depsOf_congr db hns (out.map fun e => (e.prod.name, e.prod.ver)) (XReach db [] top)
    (by
      intro u hu d hd
      exact ⟨resolve_second_pass hsv hout hu hd, fun hj v hv => hu.tail ⟨d, hd, hj, hv⟩⟩)
    f top 1 St.empty (XReach.refl _)
  unfold listing at h ⊢
  rw [this]; exact h

/-! ### the graph handed to `topologicalSort` -/

theorem mem_graphOf {st : St} {p : Prod × List Prod} :
    p ∈ graphOf st ↔ p.1 ∈ st.nodes ∧ p.2 = (st.edges.filter (fun e => e.1 == p.1)).map (·.2) := by
  unfold graphOf
  simp only [List.mem_map]
  constructor
  · rintro ⟨k, hk, rfl⟩; exact ⟨hk, rfl⟩
  · rintro ⟨hk, he⟩; exact ⟨p.1, hk, by rw [← he]⟩

theorem mem_succs_graph (st : St) (a b : Prod) :
    b ∈ Topo.succs (Topo.normalise (graphOf st)) a ↔ b ≠ a ∧ a ∈ st.nodes ∧ (a, b) ∈ st.edges := by
  rw [Topo.mem_succs_normalise]
  constructor
  · rintro ⟨hne, p, hp, rfl, hb⟩
    obtain ⟨h1, h2⟩ := mem_graphOf.mp hp
    rw [h2] at hb
    simp only [List.mem_map, List.mem_filter, beq_iff_eq] at hb
    obtain ⟨e, ⟨he, he1⟩, rfl⟩ := hb
    refine ⟨hne, h1, ?_⟩
    rw [← he1]; exact he
  · rintro ⟨hne, ha, hab⟩
    refine ⟨hne, (a, (st.edges.filter (fun e => e.1 == a)).map (·.2)), mem_graphOf.mpr ⟨ha, rfl⟩, rfl, ?_⟩
    simp only [List.mem_map, List.mem_filter, beq_iff_eq]
    exact ⟨(a, b), ⟨hab, rfl⟩, rfl⟩

theorem mem_keys_graph (st : St) (v : Prod) :
    v ∈ Topo.keys (Topo.normalise (graphOf st)) ↔ v ∈ st.nodes ∨ ∃ k ∈ st.nodes, (k, v) ∈ st.edges := by
  rw [Topo.keys_normalise, Topo.mem_dedup]
  simp only [List.mem_append, List.mem_flatMap]
  constructor
  · rintro (h | ⟨p, hp, hv⟩)
    · left
      simp only [Topo.keys, List.mem_map] at h
      obtain ⟨p, hp, rfl⟩ := h
      exact (mem_graphOf.mp hp).1
    · right
      obtain ⟨h1, h2⟩ := mem_graphOf.mp hp
      rw [h2] at hv
      simp only [List.mem_map, List.mem_filter, beq_iff_eq] at hv
      obtain ⟨e, ⟨he, he1⟩, rfl⟩ := hv
      exact ⟨p.1, h1, by rw [← he1]; exact he⟩
  · rintro (h | ⟨k, hk, hkv⟩)
    · left
      simp only [Topo.keys, List.mem_map]
      exact ⟨(v, (st.edges.filter (fun e => e.1 == v)).map (·.2)), mem_graphOf.mpr ⟨h, rfl⟩, rfl⟩
    · right
      refine ⟨(k, (st.edges.filter (fun e => e.1 == k)).map (·.2)), mem_graphOf.mpr ⟨hk, rfl⟩, ?_⟩
      simp only [List.mem_map, List.mem_filter, beq_iff_eq]
      exact ⟨(k, v), ⟨hkv, rfl⟩, rfl⟩

section FirstCall
variable {db : Db} {req : Required} {top : Prod} {out : List Entry} {st : St}

theorem nodes_iff (C : CallPost db req top St.empty out st) (a : Prod) : a ∈ st.nodes ↔ XReach db req top a :=
  ⟨fun h => C.nodes_sound a h (by simp [St.empty]), fun h => (closed_of_xreach C h).1⟩

theorem edges_iff (C : CallPost db req top St.empty out st) (a b : Prod) :
    (a, b) ∈ st.edges ↔ XReach db req top a ∧ Edge db req a b := by
  constructor
  · intro h; exact C.edges_sound (a, b) h (by simp [St.empty])
  · rintro ⟨h1, d, hd, rfl⟩
    exact ((closed_of_xreach C h1).2 d hd).2.1

/-- edges of the graph = lines of opened tables (self-dependencies dropped) -/
theorem succs_graph_iff (C : CallPost db req top St.empty out st) (a b : Prod) :
    b ∈ Topo.succs (Topo.normalise (graphOf st)) a ↔ b ≠ a ∧ XReach db req top a ∧ Edge db req a b := by
  rw [mem_succs_graph, nodes_iff C, edges_iff C]
  constructor
  · rintro ⟨h1, h2, _, h3⟩; exact ⟨h1, h2, h3⟩
  · rintro ⟨h1, h2, h3⟩; exact ⟨h1, h2, h2, h3⟩

/-- nodes of the graph = the root, and everything listed -/
theorem keys_graph_iff (C : CallPost db req top St.empty out st) (v : Prod) :
    v ∈ Topo.keys (Topo.normalise (graphOf st)) ↔ v = top ∨ Listed db req top v := by
  rw [mem_keys_graph]
  constructor
  · rintro (h | ⟨k, hk, hkv⟩)
    · have hx := (nodes_iff C v).mp h
      cases hx with
      | refl => exact Or.inl rfl
      | head he hr =>
        right
        -- the last step of the path is an edge into v
        have : ∀ u w, XReach db req u w → ∀ x, XEdge db req x u → XReach db req top x → Listed db req top w := by
          intro u w hx
          induction hx with
          | refl =>
            intro x hxe hxr
            obtain ⟨d, hd, _, hr'⟩ := hxe
            exact ⟨x, hxr, d, hd, by simp [target, hr']⟩
          | head he' _ ih => intro x hxe hxr; exact ih _ he' (hxr.tail hxe)
        exact this _ _ hr _ he (XReach.refl _)
    · right
      obtain ⟨h1, h2⟩ := (edges_iff C k v).mp hkv
      exact ⟨k, h1, h2⟩
  · rintro (rfl | ⟨w, hw, he⟩)
    · exact Or.inl ((nodes_iff C v).mpr (XReach.refl _))
    · exact Or.inr ⟨w, (nodes_iff C w).mpr hw, (edges_iff C w v).mpr ⟨hw, he⟩⟩

end FirstCall

/-! ### depth assignments -/

theorem mem_depthAssignments (n : Nat) : ∀ (ls : List (List Prod)) (i : Nat) (name : Str) (x : Nat),
    (name, x) ∈ depthAssignments n i ls ↔
      ∃ (j : Nat) (hj : j < ls.length), (∃ p ∈ ls[j], p.name = name) ∧ x = n - (i + j) - 1 := by
  intro ls
  induction ls with
  | nil => intro i name x; simp [depthAssignments]
  | cons l ls ih =>
    intro i name x
    simp only [depthAssignments, List.mem_append, List.mem_map, ih]
    constructor
    · rintro (⟨p, hp, hpx⟩ | ⟨j, hj, hex, hx⟩)
      · have h1 : p.name = name := (_root_.Prod.mk.inj hpx).1
        have h2 : n - i - 1 = x := (_root_.Prod.mk.inj hpx).2
        exact ⟨0, by simp, ⟨p, by simpa using hp, h1⟩, by simp; omega⟩
      · refine ⟨j + 1, by simpa using hj, by simpa using hex, ?_⟩
        omega
    · rintro ⟨j, hj, hex, hx⟩
      cases j with
      | zero =>
        left
        obtain ⟨p, hp, hpn⟩ := hex
        refine ⟨p, by simpa using hp, ?_⟩
        rw [hpn, hx]; simp
      | succ j' =>
        right
        exact ⟨j', by simpa using hj, by simpa using hex, by omega⟩

theorem lookup_const {β γ : Type} [BEq β] [LawfulBEq β] : ∀ (l : List (β × γ)) (k : β) (c : γ),
    (∀ x, (k, x) ∈ l → x = c) → (∃ x, (k, x) ∈ l) → l.lookup k = some c := by
  intro l
  induction l with
  | nil => intro k c _ h; simp at h
  | cons p ps ih =>
    intro k c hall hex
    obtain ⟨a, b⟩ := p
    simp only [List.lookup]
    split
    · rename_i heq
      have : k = a := by simpa using heq
      subst this
      rw [hall b (by simp)]
    · rename_i hne
      apply ih k c (fun x hx => hall x (by simp [hx]))
      obtain ⟨x, hx⟩ := hex
      simp only [List.mem_cons] at hx
      rcases hx with hx | hx
      · have : k = a := (_root_.Prod.mk.inj hx).1
        subst this; simp at hne
      · exact ⟨x, hx⟩

/-- a name whose products all sit in layer `L` gets the depth `nlevel - L - 1` -/
theorem depthOfName_unique {n : Nat} {ls : List (List Prod)} {name : Str} {L : Nat} (hL : L < ls.length)
    (hex : ∃ p ∈ ls[L], p.name = name)
    (huniq : ∀ (j : Nat) (hj : j < ls.length), (∃ p ∈ ls[j], p.name = name) → j = L) :
    depthOfName (depthAssignments n 0 ls) name = some (n - L - 1) := by
  unfold depthOfName
  apply lookup_const
  · intro x hx
    have hx' : (name, x) ∈ depthAssignments n 0 ls := by simpa using hx
    obtain ⟨j, hj, hp, rfl⟩ := (mem_depthAssignments n ls 0 name x).mp hx'
    have := huniq j hj hp
    subst this; simp
  · refine ⟨n - L - 1, ?_⟩
    have : (name, n - L - 1) ∈ depthAssignments n 0 ls :=
      (mem_depthAssignments n ls 0 name _).mpr ⟨L, hL, hex, by simp⟩
    simpa using this

/-! ### sorting and de-duplication keep products and depths -/

theorem mem_insertS {β : Type} (le : β → β → Bool) (x y : β) : ∀ (l : List β),
    y ∈ insertS le x l ↔ y = x ∨ y ∈ l := by
  intro l
  induction l with
  | nil => simp [insertS]
  | cons a as ih =>
    simp only [insertS]
    split
    · simp
    · simp only [List.mem_cons, ih]
      constructor
      · rintro (h | h | h)
        · exact Or.inr (Or.inl h)
        · exact Or.inl h
        · exact Or.inr (Or.inr h)
      · rintro (h | h | h)
        · exact Or.inr (Or.inl h)
        · exact Or.inl h
        · exact Or.inr (Or.inr h)

theorem mem_sortStable {β : Type} (le : β → β → Bool) (y : β) : ∀ (l : List β), y ∈ sortStable le l ↔ y ∈ l := by
  intro l
  induction l with
  | nil => simp [sortStable]
  | cons a as ih =>
    have : sortStable le (a :: as) = insertS le a (sortStable le as) := rfl
    rw [this, mem_insertS, ih]; simp

theorem uniqueLast_go_sound (opt : Prod → Bool) : ∀ (l : List Entry) (seen : List Prod) (acc : List Entry) (e : Entry),
    e ∈ uniqueLast.go opt l seen acc → e ∈ acc ∨ ∃ e' ∈ l, e = ⟨e'.prod, opt e'.prod, e'.depth⟩ := by
  intro l
  induction l with
  | nil => intro seen acc e h; exact Or.inl (by simpa [uniqueLast.go] using h)
  | cons a as ih =>
    intro seen acc e h
    simp only [uniqueLast.go] at h
    split at h
    · rcases ih _ _ _ h with h | ⟨e', he', heq⟩
      · exact Or.inl h
      · exact Or.inr ⟨e', by simp [he'], heq⟩
    · rcases ih _ _ _ h with h | ⟨e', he', heq⟩
      · simp only [List.mem_cons] at h
        rcases h with h | h
        · exact Or.inr ⟨a, by simp, h⟩
        · exact Or.inl h
      · exact Or.inr ⟨e', by simp [he'], heq⟩

theorem uniqueLast_go_complete (opt : Prod → Bool) : ∀ (l : List Entry) (seen : List Prod) (acc : List Entry) (p : Prod),
    (p ∈ acc.map (·.prod) ∨ (p ∈ l.map (·.prod) ∧ p ∉ seen)) → p ∈ (uniqueLast.go opt l seen acc).map (·.prod) := by
  intro l
  induction l with
  | nil =>
    intro seen acc p h
    rcases h with h | ⟨h, _⟩
    · simpa [uniqueLast.go] using h
    · simp at h
  | cons a as ih =>
    intro seen acc p h
    simp only [uniqueLast.go]
    split
    · rename_i hc
      have hc' : a.prod ∈ seen := by simpa using hc
      apply ih
      rcases h with h | ⟨h, hn⟩
      · exact Or.inl h
      · simp only [List.map_cons, List.mem_cons] at h
        rcases h with rfl | h
        · exact absurd hc' hn
        · exact Or.inr ⟨h, hn⟩
    · apply ih
      rcases h with h | ⟨h, hn⟩
      · left; simp only [List.map_cons, List.mem_cons]; exact Or.inr h
      · simp only [List.map_cons, List.mem_cons] at h
        by_cases hpa : p = a.prod
        · left; simp [hpa]
        · rcases h with h | h
          · exact absurd h hpa
          · right; exact ⟨h, by simp [hpa, hn]⟩

theorem uniqueLast_go_nodup (opt : Prod → Bool) : ∀ (l : List Entry) (seen : List Prod) (acc : List Entry),
    (acc.map (·.prod)).Nodup → (∀ p ∈ acc.map (·.prod), p ∈ seen) →
    ((uniqueLast.go opt l seen acc).map (·.prod)).Nodup := by
  intro l
  induction l with
  | nil => intro seen acc h _; simpa [uniqueLast.go] using h
  | cons a as ih =>
    intro seen acc hnd hsub
    simp only [uniqueLast.go]
    split
    · exact ih _ _ hnd hsub
    · rename_i hc
      have hc' : a.prod ∉ seen := by simpa using hc
      apply ih
      · simp only [List.map_cons, List.nodup_cons]
        exact ⟨fun h => hc' (hsub _ h), hnd⟩
      · intro p hp
        simp only [List.map_cons, List.mem_cons] at hp ⊢
        rcases hp with rfl | hp
        · exact Or.inl rfl
        · exact Or.inr (hsub p hp)

/-- every entry of the de-duplicated list stems from an entry of the list with the same product and depth -/
theorem uniqueLast_sound (l : List Entry) (e : Entry) (h : e ∈ uniqueLast l) :
    ∃ e' ∈ l, e.prod = e'.prod ∧ e.depth = e'.depth ∧
      e.optional = (l.filter (fun x => x.prod == e'.prod)).all (·.optional) := by
  unfold uniqueLast at h
  rcases uniqueLast_go_sound _ _ _ _ _ h with h | ⟨e', he', heq⟩
  · simp at h
  · exact ⟨e', by simpa using he', by rw [heq], by rw [heq], by rw [heq]⟩

/-- every product of the list survives de-duplication, exactly once -/
theorem uniqueLast_complete (l : List Entry) (p : Prod) (h : p ∈ l.map (·.prod)) :
    p ∈ (uniqueLast l).map (·.prod) := by
  unfold uniqueLast
  apply uniqueLast_go_complete
  right
  refine ⟨?_, by simp⟩
  simp only [List.mem_map, List.mem_reverse] at h ⊢
  exact h

theorem uniqueLast_nodup (l : List Entry) : ((uniqueLast l).map (·.prod)).Nodup := by
  unfold uniqueLast
  exact uniqueLast_go_nodup _ _ _ _ (by simp) (by simp)

/-! ### assembling `getDependentProducts … topological` -/

/-- paths along the lines of opened tables -/
inductive DepPath (db : Db) (top : Prod) : Prod → Prod → Prop
  | refl (a : Prod) : DepPath db top a a
  | step {a b c : Prod} : XReach db [] top a → Edge db [] a b → DepPath db top b c → DepPath db top a c

/-- the pieces of a successful topological run -/
theorem getDependentProducts_topo_unfold {db : Db} {fuel : Nat} {top : Prod} {cc : Bool} {out : List Entry}
    (hm : db.tableMissing top = false)
    (h : getDependentProducts db fuel top true cc = .ok out) :
    ∃ (out1 : List Entry) (st1 : St) (st2 : List Entry × St) (ls : List (List Prod)),
      listing db fuel [] top = some (out1, st1) ∧
      listing db fuel (out1.map fun e => (e.prod.name, e.prod.ver)) top = some (st2.1, st2.2) ∧
      Topo.topologicalSort (graphOf st2.2) cc = .ok ls ∧
      out = uniqueLast (sortStable entryLe (out1.map fun e =>
        match depthOfName (depthAssignments (ls.length + 1) 0 ls) e.prod.name with
        | some d => { e with depth := some d }
        | none => e)) := by
  unfold getDependentProducts at h
  simp only [hm, Bool.false_eq_true, if_false] at h
  unfold finishListing at h
  cases h1 : listing db fuel [] top with
  | none => simp [h1] at h
  | some r1 =>
    obtain ⟨out1, st1⟩ := r1
    simp only [h1, Bool.true_or, Bool.not_true, Bool.false_eq_true, if_false] at h
    cases h2 : listing db fuel (out1.map fun e => (e.prod.name, e.prod.ver)) top with
    | none => simp [h2] at h
    | some r2 =>
      simp only [h2] at h
      cases h3 : Topo.topologicalSort (graphOf r2.2) cc with
      | outOfFuel => simp [h3] at h
      | cycle => simp [h3] at h
      | ok ls =>
        simp only [h3, Outcome.ok.injEq] at h
        exact ⟨out1, st1, r2, ls, rfl, h2, h3, h.symm⟩

theorem listing_unfold {db : Db} {fuel : Nat} {req : Required} {top : Prod} {out : List Entry} {st : St}
    (h : listing db fuel req top = some (out, st)) :
    ∃ o, depsOf db fuel req top true 1 St.empty = some (o, st) ∧ out = o.filter (fun e => e.prod != top) := by
  unfold listing at h
  cases hd : depsOf db fuel req top true 1 St.empty with
  | none => simp [hd] at h
  | some r =>
    obtain ⟨o, s⟩ := r
    simp only [hd, Option.map_some, Option.some.injEq] at h
    exact ⟨o, by rw [← (_root_.Prod.mk.inj h).2], (_root_.Prod.mk.inj h).1.symm⟩

/-- **Topological listing = plain listing as a set, every product once** (no hypothesis on versions) -/
theorem topo_listing_set {db : Db} (hns : NoUnsetup db) {fuel : Nat} {top : Prod} {cc : Bool} {out : List Entry}
    (h : getDependentProducts db fuel top true cc = .ok out) :
    (out.map (·.prod)).Nodup ∧ ∀ v, v ∈ out.map (·.prod) ↔ (Listed db [] top v ∧ v ≠ top) := by
  obtain ⟨out1, st1, st2, ls, h1, _, _, rfl⟩ := getDependentProducts_topo_unfold (tableMissing_false hns top) h
  obtain ⟨o, hd, rfl⟩ := listing_unfold h1
  refine ⟨uniqueLast_nodup _, ?_⟩
  intro v
  rw [← depsOf_listed hns hd v]
  constructor
  · intro hv
    simp only [List.mem_map] at hv
    obtain ⟨e, he, rfl⟩ := hv
    obtain ⟨e', he', hp, _, _⟩ := uniqueLast_sound _ _ he
    rw [mem_sortStable] at he'
    simp only [List.mem_map, List.mem_filter, bne_iff_ne, ne_eq] at he'
    obtain ⟨e1, ⟨he1, hne⟩, rfl⟩ := he'
    have : e.prod = e1.prod := by rw [hp]; split <;> rfl
    rw [this]
    exact ⟨List.mem_map.mpr ⟨e1, he1, rfl⟩, hne⟩
  · rintro ⟨hv, hne⟩
    apply uniqueLast_complete
    simp only [List.mem_map] at hv ⊢
    obtain ⟨e1, he1, rfl⟩ := hv
    refine ⟨_, (mem_sortStable _ _ _).mpr (List.mem_map.mpr ⟨e1, List.mem_filter.mpr ⟨he1, by simpa using hne⟩, rfl⟩), ?_⟩
    split <;> rfl

theorem path_to_depPath {db : Db} {top : Prod} {out : List Entry} {st : St}
    (C : CallPost db [] top St.empty out st) {a b : Prod}
    (h : Topo.Path (Topo.normalise (graphOf st)) a b) : DepPath db top a b := by
  induction h with
  | refl => exact DepPath.refl _
  | step hab _ ih =>
    obtain ⟨_, h1, h2⟩ := (succs_graph_iff C _ _).mp hab
    exact DepPath.step h1 h2 ih

theorem depPath_to_path {db : Db} {top : Prod} {out : List Entry} {st : St}
    (C : CallPost db [] top St.empty out st) {a b : Prod}
    (h : DepPath db top a b) : Topo.Path (Topo.normalise (graphOf st)) a b := by
  induction h with
  | refl => exact Topo.Path.refl _
  | @step a' b' c' h1 h2 _ ih =>
    by_cases hba : b' = a'
    · subst hba; exact ih
    · exact Topo.Path.step ((succs_graph_iff C _ _).mpr ⟨hba, h1, h2⟩) ih

/-- what a successful topological run on a closure without a product in two versions yields: a level for
every node of the graph of opened tables, the depth of an entry being `#layers - level` -/
theorem topo_levels {db : Db} (hns : NoUnsetup db) {fuel : Nat} {top : Prod} (hsv : SingleVersion db top)
    {cc : Bool} {out : List Entry} (h : getDependentProducts db fuel top true cc = .ok out) :
    ∃ (o : List Entry) (st : St) (ls : List (List Prod)) (lvl : Prod → Nat),
      CallPost db [] top St.empty o st ∧
      Topo.topologicalSort (graphOf st) cc = .ok ls ∧
      (∀ a ∈ Topo.keys (Topo.normalise (graphOf st)), lvl a < ls.length) ∧
      (∀ a ∈ Topo.keys (Topo.normalise (graphOf st)), ∀ b ∈ Topo.succs (Topo.normalise (graphOf st)) a,
          ¬ Topo.Path (Topo.normalise (graphOf st)) b a → lvl b < lvl a) ∧
      (∀ e ∈ out, Listed db [] top e.prod ∧ e.prod ≠ top ∧ e.depth = some (ls.length - lvl e.prod)) := by
  obtain ⟨out1, st1, st2, ls, h1, h2, h3, rfl⟩ := getDependentProducts_topo_unfold (tableMissing_false hns top) h
  have h2' := second_pass_eq hns hsv h1
  rw [h2'] at h2
  have hst : st2.2 = st1 := by
    have := Option.some.inj h2; exact ((_root_.Prod.mk.inj this).2).symm
  rw [hst] at h3
  obtain ⟨o, hd, rfl⟩ := listing_unfold h1
  have C := depsOf_post db hns [] _ _ _ _ _ _ hd
  obtain ⟨lvl, hl1, hl2, hl3, _⟩ := Topo.topologicalSort_ok h3
  refine ⟨o, st1, ls, lvl, C, h3, fun a ha => (hl1 a ha).1, hl3, ?_⟩
  intro e he
  obtain ⟨e', he', hp, hdep, _⟩ := uniqueLast_sound _ _ he
  rw [mem_sortStable] at he'
  simp only [List.mem_map, List.mem_filter, bne_iff_ne, ne_eq] at he'
  obtain ⟨e1, ⟨he1, hne⟩, rfl⟩ := he'
  have hlisted : Listed db [] top e1.prod := C.out_sound e1 he1
  have hkey : e1.prod ∈ Topo.keys (Topo.normalise (graphOf st1)) := (keys_graph_iff C _).mpr (Or.inr hlisted)
  obtain ⟨hlt, hiff⟩ := hl1 _ hkey
  have hdepth : depthOfName (depthAssignments (ls.length + 1) 0 ls) e1.prod.name
      = some (ls.length + 1 - lvl e1.prod - 1) := by
    apply depthOfName_unique hlt
    · exact ⟨e1.prod, (hiff _ hlt).mpr rfl, rfl⟩
    · rintro j hj ⟨p, hp', hpn⟩
      have hpk := hl2 _ (List.getElem_mem hj) p hp'
      have hpl := (keys_graph_iff C p).mp hpk
      have : p = e1.prod := hsv _ _ hpl (Or.inr hlisted) hpn
      subst this
      exact (hiff j hj).mp hp'
  have hprod : e.prod = e1.prod := by rw [hp]; split <;> rfl
  rw [hprod]
  refine ⟨hlisted, hne, ?_⟩
  rw [hdep, hdepth]
  simp only
  congr 1; omega

end EupsModel.Deps
