import EupsModel.Lemmas.PathAlgRef
/-! A reference that comes in with the value of a variable (nested): expanded once more, in the value (D123). -/
namespace EupsModel.PathAlg

theorem refAt_plain (key rest : Str) (hk : 125 ∉ key) :
    refAt (36 :: 123 :: key ++ 125 :: rest) = some (key, rest) := by
  simp [refAt, takeWhileNot_brace key rest hk]

theorem interp_pre (env : Env) (pre rest : Str) (f : Nat) (h : 36 ∉ pre) :
    interp env (f + pre.length) (pre ++ rest) = pre ++ interp env f rest := by
  induction pre with
  | nil => simp
  | cons c cs ih =>
    have hc : c ≠ 36 := fun e => h (by simp [e])
    have hcs : 36 ∉ cs := fun e => h (by simp [e])
    have : f + (c :: cs).length = (f + cs.length) + 1 := by simp [Nat.add_assoc]
    rw [this, List.cons_append]
    simp only [interp, refAt_ne c _ hc, ih hcs, List.cons_append]

/-- one `${key}` with `key` defined, anywhere in a text without other `$`: replaced by the value, which is not
looked at again -/
theorem interp_defined (env : Env) (pre key post v : Str) (hpre : 36 ∉ pre) (hpost : 36 ∉ post)
    (hk : 125 ∉ key) (hv : env.get key = some v) :
    interp env ((pre ++ (36 :: 123 :: key ++ [125]) ++ post).length + 1) (pre ++ (36 :: 123 :: key ++ [125]) ++ post)
      = pre ++ v ++ post := by
  have hlen : (pre ++ (36 :: 123 :: key ++ [125]) ++ post).length + 1
      = (((36 :: 123 :: key ++ [125]) ++ post).length + 1) + pre.length := by
    simp [List.length_append]; omega
  have htxt : pre ++ (36 :: 123 :: key ++ [125]) ++ post = pre ++ ((36 :: 123 :: key ++ [125]) ++ post) :=
    List.append_assoc _ _ _
  rw [hlen, htxt, interp_pre env pre _ _ hpre]
  have hr : refAt ((36 :: 123 :: key ++ [125]) ++ post) = some (key, post) := by
    have := refAt_plain key post hk
    simpa using this
  cases href : (36 :: 123 :: key ++ [125]) ++ post with
  | nil => simp at href
  | cons c cs =>
    rw [href] at hr
    have hf : (c :: cs).length + 1 = cs.length + 1 + 1 := by simp
    rw [hf]
    simp only [interp, hr, hv, interp_no_dollar env _ post hpost, List.append_assoc]

/-- `envPrepend_lifts` for a value with references, one of them nested: what counts is the value after `expand` and one
pass of `interp` -/
theorem envPrepend_lifts_nested (c : Nat) (append fwd : Bool) (var value w v : Str)
    (oldl : List Str) (env : Env)
    (hold : ∀ e ∈ oldl, OldPiece c e) (hv : GoodPiece c v)
    (hsw : startsWith value [c] = false) (hew : endsWith value [c] = false)
    (hexp : expand env value = .value w) (hint : interp env (w.length + 1) w = v)
    (henv : (env.get var).getD [] = join [c] oldl) :
    envPrepend append fwd var value [c] env = .ok (env.set var (join [c] (applyL append fwd [v] oldl))) := by
  have hsplitv : split [c] v = [v] := by
    have := split_join c [v] (by simp) (by intro e he; simp at he; subst he; exact hv.2.1)
    simpa [join] using this
  unfold envPrepend
  simp [hsw, hew, henv, hexp, hint, hsplitv]
  rw [split_join_filter_old c oldl hold]

end EupsModel.PathAlg

namespace EupsModel.PathAlg

/-- a defined `${key}` at the head: its value, then the expansion of what follows -/
theorem expandGo_ref (env : Env) (key rest v : Str) (f : Nat) (hk : GoodKey key) (hv : env.get key = some v) :
    expandGo env (f + 1) (36 :: 123 :: key ++ 125 :: rest) =
      (match expandGo env f rest with
       | .value t => .value (v ++ t)
       | o => o) := by
  have hm := varAt_plain key rest hk
  have hc : 36 :: 123 :: key ++ 125 :: rest = 36 :: (123 :: key ++ 125 :: rest) := rfl
  rw [hc] at hm ⊢
  simp only [expandGo, hm, hv]
  cases expandGo env f rest <;> rfl

/-- Two references in one value: each is replaced by the value of its own variable (D22) -/
theorem expand_two_defined (env : Env) (pre keyA mid keyB post a b : Str)
    (hpre : 36 ∉ pre) (hmid : 36 ∉ mid) (hpost : 36 ∉ post) (hkA : GoodKey keyA) (hkB : GoodKey keyB)
    (hA : env.get keyA = some a) (hB : env.get keyB = some b) :
    expand env (pre ++ (36 :: 123 :: keyA ++ 125 :: (mid ++ (36 :: 123 :: keyB ++ 125 :: post))))
      = .value (pre ++ a ++ mid ++ b ++ post) := by
  unfold expand
  -- fuel bookkeeping
  have e1 : (pre ++ (36 :: 123 :: keyA ++ 125 :: (mid ++ (36 :: 123 :: keyB ++ 125 :: post)))).length + 1
      = (((keyA.length + keyB.length + post.length + 5) + 1 + mid.length) + 1) + pre.length := by
    simp [List.length_append]; omega
  rw [e1, expandGo_pre env pre _ _ hpre, expandGo_ref env keyA _ a _ hkA hA,
    expandGo_pre env mid _ _ hmid, expandGo_ref env keyB post b _ hkB hB,
    expandGo_no_dollar env _ post hpost]
  simp [List.append_assoc]

end EupsModel.PathAlg
