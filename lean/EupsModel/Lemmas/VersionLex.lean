import EupsModel.Model.VersionCmp
/-! The recursion bound of `lex` is sufficient (C10): `lex` never answers `outOfFuel`; it accepts every
name except the ones on which `_splitVersion` raises (fewer than two hyphens and a leading `-`/`+`). -/
set_option linter.unusedVariables false
set_option linter.unusedSimpArgs false
namespace EupsModel.VersionCmp
open EupsModel

def PmFree (s : Str) : Prop := ∀ c ∈ s, notPM c = true

theorem pmFree_nil : PmFree [] := by intro c hc; simp at hc

theorem length_takeWhile_add_dropWhile (p : Nat → Bool) (l : Str) :
    (l.takeWhile p).length + (l.dropWhile p).length = l.length := by
  induction l with
  | nil => rfl
  | cons a as ih =>
    simp only [List.takeWhile, List.dropWhile]
    split <;> simp [List.length_cons] <;> omega

theorem length_takeWhile_le' (p : Nat → Bool) (l : Str) : (l.takeWhile p).length ≤ l.length := by
  have := length_takeWhile_add_dropWhile p l; omega
theorem length_dropWhile_le' (p : Nat → Bool) (l : Str) : (l.dropWhile p).length ≤ l.length := by
  have := length_takeWhile_add_dropWhile p l; omega

theorem pmFree_takeWhile (s : Str) : PmFree (s.takeWhile notPM) := by
  intro c hc
  induction s with
  | nil => simp at hc
  | cons a as ih =>
    simp only [List.takeWhile] at hc
    split at hc
    · rename_i hp
      rcases List.mem_cons.mp hc with rfl | h
      · exact hp
      · exact ih h
    · simp at hc

theorem dig_notPM {c : Nat} (h : isDig c = true) : notPM c = true := by
  simp [isDig, Str.isDigit, notPM] at *; omega

theorem pmFree_digits_rev (s : Str) : PmFree ((s.takeWhile isDig).reverse) := by
  intro c hc
  have hc' : c ∈ s.takeWhile isDig := by simpa using hc
  have : isDig c = true := by
    clear hc
    induction s with
    | nil => simp at hc'
    | cons a as ih =>
      simp only [List.takeWhile] at hc'
      split at hc'
      · rename_i hp
        rcases List.mem_cons.mp hc' with rfl | h
        · exact hp
        · exact ih h
      · simp at hc'
  exact dig_notPM this

/-- what `optRun` can capture: a `[^-+]` run strictly shorter than the text it was tried on -/
theorem optRun_spec (lead : Nat) (s : Str) :
    (∀ x, (optRun lead s).1 = some x → PmFree x ∧ x.length < s.length) ∧ (optRun lead s).2.length ≤ s.length := by
  cases s with
  | nil => simp [optRun]
  | cons c rest =>
    simp only [optRun]
    split
    · split
      · simp
      · refine ⟨?_, ?_⟩
        · intro x hx
          simp only [Option.some.injEq] at hx
          subst hx
          exact ⟨pmFree_takeWhile rest, by
            have := length_takeWhile_le' notPM rest
            simp only [List.length_cons]; omega⟩
        · have := length_dropWhile_le' notPM rest
          simp only [List.length_cons]; omega
    · simp

theorem mpSuffix_spec (v : Str) (r : Str × Bool × Str) (h : mpSuffix v = some r) :
    PmFree r.2.2 ∧ r.2.2.length < v.length := by
  simp only [mpSuffix] at h
  split at h
  · simp at h
  · have hlen : (v.reverse.takeWhile isDig).length + (v.reverse.dropWhile isDig).length = v.length := by
      have := length_takeWhile_add_dropWhile isDig v.reverse
      rw [List.length_reverse] at this
      exact this
    split at h
    · simp at h
    · rename_i c before hd
      rw [hd] at hlen
      simp only [List.length_cons] at hlen
      have key : PmFree ((v.reverse.takeWhile isDig).reverse) ∧ ((v.reverse.takeWhile isDig).reverse).length < v.length :=
        ⟨pmFree_digits_rev _, by simp only [List.length_reverse]; omega⟩
      split at h
      · simp only [Option.some.injEq] at h; subst h; exact key
      · split at h
        · simp only [Option.some.injEq] at h; subst h; exact key
        · simp at h

/-- `_splitVersion` only fails by the AttributeError; its secondary and tertiary parts are `[^-+]`
runs strictly shorter than the name -/
theorem splitVersion_spec (v : Str) (hv : v ≠ []) :
    (∀ e, splitVersion v = .error e → e = .malformed) ∧
    (∀ p e f, splitVersion v = .ok (p, e, f) →
      (PmFree (e.getD []) ∧ (e.getD []).length < v.length) ∧ (PmFree (f.getD []) ∧ (f.getD []).length < v.length)) := by
  have hpos : 0 < v.length := by cases v with
    | nil => exact absurd rfl hv
    | cons _ _ => simp
  have hnone : PmFree ((none : Option Str).getD []) ∧ ((none : Option Str).getD []).length < v.length :=
    ⟨pmFree_nil, by simpa using hpos⟩
  simp only [splitVersion]
  split
  · exact ⟨by intro e h; simp at h, by
      intro p e f h
      simp only [Except.ok.injEq, Prod.mk.injEq] at h
      obtain ⟨_, rfl, rfl⟩ := h
      exact ⟨hnone, hnone⟩⟩
  · cases v with
    | nil => exact absurd rfl hv
    | cons c cs =>
      simp only
      split
      · exact ⟨by intro e h; simp at h; exact h.symm, by intro p e f h; simp at h⟩
      · have h1 := optRun_spec 45 ((c :: cs).dropWhile notPM)
        have h2 := optRun_spec 43 (optRun 45 ((c :: cs).dropWhile notPM)).2
        have hd := length_dropWhile_le' notPM (c :: cs)
        have part : ∀ (o : Option Str) (bound : Nat), bound ≤ (c :: cs).length →
            (∀ x, o = some x → PmFree x ∧ x.length < bound) →
            PmFree (o.getD []) ∧ (o.getD []).length < (c :: cs).length := by
          intro o bound hb ho
          cases o with
          | none => exact hnone
          | some x => obtain ⟨a, b⟩ := ho x rfl; exact ⟨a, by simp only [Option.getD_some]; omega⟩
        split
        · -- the VVVm# / VVVp# spellings
          split
          · rename_i vvv' d hm
            have := mpSuffix_spec _ _ hm
            exact ⟨by intro e h; simp at h, by
              intro p e f h
              simp only [Except.ok.injEq, Prod.mk.injEq] at h
              obtain ⟨_, rfl, rfl⟩ := h
              exact ⟨⟨this.1, this.2⟩, hnone⟩⟩
          · rename_i vvv' d hm
            have := mpSuffix_spec _ _ hm
            exact ⟨by intro e h; simp at h, by
              intro p e f h
              simp only [Except.ok.injEq, Prod.mk.injEq] at h
              obtain ⟨_, rfl, rfl⟩ := h
              exact ⟨hnone, ⟨this.1, this.2⟩⟩⟩
          · exact ⟨by intro e h; simp at h, by
              intro p e f h
              simp only [Except.ok.injEq, Prod.mk.injEq] at h
              obtain ⟨_, rfl, rfl⟩ := h
              exact ⟨hnone, hnone⟩⟩
        · exact ⟨by intro e h; simp at h, by
            intro p e f h
            simp only [Except.ok.injEq, Prod.mk.injEq] at h
            obtain ⟨_, rfl, rfl⟩ := h
            exact ⟨part _ _ hd h1.1, part _ _ (Nat.le_trans h1.2 hd) h2.1⟩⟩

theorem hyphens_pmFree {s : Str} (h : PmFree s) : hyphens s = 0 := by
  simp only [hyphens, List.length_eq_zero_iff, List.filter_eq_nil_iff]
  intro c hc
  have := h c hc
  simp [notPM] at this ⊢
  exact this.1

/-- on a `[^-+]` run the splitting never fails -/
theorem splitVersion_pmFree {s : Str} (h : PmFree s) (hne : s ≠ []) : ∃ r, splitVersion s = .ok r := by
  cases hs : splitVersion s with
  | ok r => exact ⟨r, rfl⟩
  | error e =>
    exfalso
    cases s with
    | nil => exact hne rfl
    | cons c cs =>
      have hc := h c (by simp)
      simp only [splitVersion, hyphens_pmFree h, hc] at hs
      simp at hs
      split at hs
      · split at hs <;> simp at hs
      · simp at hs

theorem lexF_pmFree : ∀ (fuel : Nat) (s : Str), PmFree s → s.length < fuel → ∃ l, lexF fuel s = .ok l := by
  intro fuel
  induction fuel with
  | zero => intro s _ h; omega
  | succ n ih =>
    intro s hs hl
    cases s with
    | nil => exact ⟨.absent, rfl⟩
    | cons c cs =>
      obtain ⟨⟨p, e, f⟩, hr⟩ := splitVersion_pmFree hs (by simp)
      obtain ⟨⟨e1, e2⟩, ⟨f1, f2⟩⟩ := (splitVersion_spec (c :: cs) (by simp)).2 p e f hr
      obtain ⟨se, hse⟩ := ih _ e1 (by omega)
      obtain ⟨te, hte⟩ := ih _ f1 (by omega)
      exact ⟨.node p se te, by simp only [lexF, hr, hse, hte]⟩

/-- **The recursion bound is sufficient**: `lex` answers a split name or the AttributeError. -/
theorem lex_ok_or_malformed (s : Str) : (∃ l, lex s = .ok l) ∨ lex s = .error .malformed := by
  cases s with
  | nil => exact Or.inl ⟨.absent, rfl⟩
  | cons c cs =>
    simp only [lex]
    cases hr : splitVersion (c :: cs) with
    | error e =>
      have := (splitVersion_spec (c :: cs) (by simp)).1 e hr
      subst this
      exact Or.inr (by simp only [lexF, hr])
    | ok r =>
      obtain ⟨p, e, f⟩ := r
      obtain ⟨⟨e1, e2⟩, ⟨f1, f2⟩⟩ := (splitVersion_spec (c :: cs) (by simp)).2 p e f hr
      obtain ⟨se, hse⟩ := lexF_pmFree (c :: cs).length _ e1 e2
      obtain ⟨te, hte⟩ := lexF_pmFree (c :: cs).length _ f1 f2
      exact Or.inl ⟨.node p se te, by simp only [lexF, hr, hse, hte]⟩

theorem lex_ne_outOfFuel (s : Str) : lex s ≠ .error .outOfFuel := by
  rcases lex_ok_or_malformed s with ⟨l, h⟩ | h <;> simp [h]

/-- the names the comparator accepts: everything but a leading `-`/`+` with fewer than two hyphens -/
theorem lex_accepts (s : Str) (h : s = [] ∨ hyphens s ≥ 2 ∨ ∃ c cs, s = c :: cs ∧ notPM c = true) :
    ∃ l, lex s = .ok l := by
  rcases lex_ok_or_malformed s with hl | hl
  · exact hl
  · exfalso
    cases s with
    | nil => simp [lex, lexF] at hl
    | cons c cs =>
      simp only [lex, lexF] at hl
      cases hr : splitVersion (c :: cs) with
      | ok r =>
        obtain ⟨p, e, f⟩ := r
        obtain ⟨⟨e1, e2⟩, ⟨f1, f2⟩⟩ := (splitVersion_spec (c :: cs) (by simp)).2 p e f hr
        obtain ⟨se, hse⟩ := lexF_pmFree (c :: cs).length _ e1 e2
        obtain ⟨te, hte⟩ := lexF_pmFree (c :: cs).length _ f1 f2
        simp only [List.length_cons] at hse hte
        simp [hr, hse, hte] at hl
      | error e =>
        simp only [splitVersion] at hr
        rcases h with h | h | ⟨c', cs', h, hc⟩
        · simp at h
        · simp [h] at hr
        · simp only [List.cons.injEq] at h
          obtain ⟨rfl, rfl⟩ := h
          split at hr
          · simp at hr
          · simp only [hc, Bool.not_true, Bool.false_eq_true, if_false] at hr
            split at hr
            · split at hr <;> simp at hr
            · simp at hr

theorem cmpCompsStrict_error {l m : List Str} {e : Err} (h : cmpCompsStrict l m = .error e) : e = .unsortable := by
  induction l generalizing m with
  | nil => cases m <;> simp [cmpCompsStrict] at h
  | cons a as ih =>
    cases m with
    | nil => simp [cmpCompsStrict] at h
    | cons b bs =>
      simp only [cmpCompsStrict] at h
      split at h
      · split at h
        · simp at h
        · split at h
          · split at h
            · simp at h
            · split at h
              · simp at h
              · simp at h; exact h.symm
          · simp at h; exact h.symm
      · exact ih h

/-- the only ways a comparison ends without an integer: a malformed name, or (strict mode) unsortable -/
theorem stdCompare_error {strict : Bool} {a b : Str} {e : Err} (h : stdCompare strict a b = .error e) :
    e = .malformed ∨ (strict = true ∧ e = .unsortable) := by
  simp only [stdCompare] at h
  rcases lex_ok_or_malformed a with ⟨la, ha⟩ | ha
  · rcases lex_ok_or_malformed b with ⟨lb, hb⟩ | hb
    · simp only [ha, hb, cmpLexed] at h
      cases strict with
      | false => simp at h
      | true =>
        simp only [if_true, cmpStrict] at h
        cases hc : cmpCompsStrict la.comps lb.comps with
        | error e' =>
          rw [hc] at h
          simp only [Except.error.injEq] at h
          subst h
          exact Or.inr ⟨rfl, cmpCompsStrict_error hc⟩
        | ok c => rw [hc] at h; simp only at h; split at h <;> simp at h
    · simp only [ha, hb, Except.error.injEq] at h; exact Or.inl h.symm
  · simp only [ha, Except.error.injEq] at h; exact Or.inl h.symm

end EupsModel.VersionCmp
