import EupsModel.Lemmas.SetupInv
/-! Instances of the subject-indexed invariant: what belongs to a product name that no request of the run can
have as its subject stays as it was (C04 frame and depth clauses); records stay paired with their directory
variable (C01 clause (a)). -/
namespace EupsModel.Setup

/-! ### what belongs to a name -/

def ownedBy (m : Name) : Elem → Bool
  | .own p _ => decide (p.1 = m)
  | .foreign _ => false

/-- the sub-list of the elements of a path variable selected by `f` (as `pathUnique` leaves it) -/
def partBy (f : Elem → Bool) (e : Env) (var : Str) : List Elem := PathAlg.uniq ((e.pathOf var).filter f)

/-- the sub-list of `m`'s own elements of a path variable -/
def ownPart (m : Name) (e : Env) (var : Str) : List Elem := partBy (ownedBy m) e var

/-- record, directory variable and own path elements (order included) of `m` are the same in both environments -/
structure SameFor (m : Name) (e0 e : Env) : Prop where
  record : e.rec? m = e0.rec? m
  dir : aget e.dirs m = aget e0.dirs m
  path : ∀ var, ownPart m e var = ownPart m e0 var

theorem SameFor.refl (m : Name) (e : Env) : SameFor m e e := ⟨rfl, rfl, fun _ => rfl⟩

theorem ownedBy_elem (m : Name) (p : Prod) (val : Val) (h : p.1 ≠ m) : ownedBy m (val.elem p) = false := by
  cases val <;> simp [Val.elem, ownedBy, h]

theorem partBy_addPath (f : Elem → Bool) (e : Env) (var var2 : Str) (xs : List Elem) (app : Bool)
    (hx : ∀ x ∈ xs, f x = false) : partBy f (e.addPath var xs app) var2 = partBy f e var2 := by
  by_cases hv : var2 = var
  · subst hv
    unfold partBy
    rw [pathOf_addPath_same, PathAlg.filter_uniq, PathAlg.uniq_idem, filter_addAll f app _
      (fun x hx' => hx x (by cases app <;> simpa [PathAlg.loopVals] using hx'))]
  · unfold partBy; rw [pathOf_addPath_other e var var2 xs app hv]

theorem partBy_removePath (f : Elem → Bool) (e : Env) (var var2 : Str) (xs : List Elem)
    (hx : ∀ x ∈ xs, f x = false) : partBy f (e.removePath var xs) var2 = partBy f e var2 := by
  by_cases hv : var2 = var
  · subst hv
    unfold partBy
    rw [pathOf_removePath_same, PathAlg.filter_uniq, PathAlg.uniq_idem, filter_removeAll f xs hx]
  · unfold partBy; rw [pathOf_removePath_other e var var2 xs hv]

theorem apply_dirs (fwd : Bool) (p : Prod) (a : Act) (s : St) : (a.apply fwd p s).env.dirs = s.env.dirs := by
  cases a <;> cases fwd <;> rfl

/-- an action whose element (if it is a path action) is not selected by `f` leaves the `f`-part of every path variable alone -/
theorem partBy_apply (f : Elem → Bool) (fwd : Bool) (p : Prod) (a : Act) (s : St)
    (hf : ∀ v vals app, a = .prepend v vals app → ∀ val ∈ vals, f (val.elem p) = false) (var : Str) :
    partBy f (a.apply fwd p s).env var = partBy f s.env var := by
  cases a with
  | prepend v vals app =>
    have hx : ∀ x ∈ vals.map (Val.elem p), f x = false := by
      intro x hxm
      obtain ⟨val, hval, rfl⟩ := List.mem_map.1 hxm
      exact hf v vals app rfl val hval
    cases fwd
    · exact partBy_removePath f s.env v var _ hx
    · exact partBy_addPath f s.env v var _ app hx
  | set v val => cases fwd <;> rfl
  | alias k v => cases fwd <;> rfl
  | dep n o j v x t kl => rfl

theorem ownPart_apply (m : Name) (fwd : Bool) (p : Prod) (a : Act) (s : St) (hp : p.1 ≠ m) (var : Str) :
    ownPart m (a.apply fwd p s).env var = ownPart m s.env var :=
  partBy_apply (ownedBy m) fwd p a s (fun _ _ _ _ val _ => ownedBy_elem m p val hp) var

/-- nothing done on behalf of the subjects in `S` touches what belongs to a name outside `S` -/
theorem sameFor_subjInv (cfg : Cfg) (S : Nat → Name → Prop) (m : Name) (hm : ∀ k, ¬ S k m) (e0 : Env) :
    SubjInv cfg S (SameFor m e0) := by
  refine ⟨?_, ?_, ?_⟩
  · intro fwd k d a s _ _ hS hp
    have hne : d.prod.1 ≠ m := fun e => hm k (e ▸ hS)
    exact ⟨by rw [apply_rec?]; exact hp.record, by rw [apply_dirs]; exact hp.dir,
           fun var => by rw [ownPart_apply m fwd d.prod a s hne]; exact hp.path var⟩
  · intro k d r s _ hS hp
    have hne : m ≠ d.name := fun e => hm k (e ▸ hS)
    refine ⟨by rw [record_rec?_other d r s m hne]; exact hp.record, ?_, hp.path⟩
    show aget (aset s.env.dirs d.name _) m = _
    rw [aget_aset_other _ _ _ _ hne]; exact hp.dir
  · intro k d e _ hS hp
    have hne : m ≠ d.name := fun e => hm k (e ▸ hS)
    refine ⟨?_, ?_, hp.path⟩
    · show aget (aunset e.recs d.name) m = _
      rw [aget_aunset_other _ _ _ hne]; exact hp.record
    · show aget (aunset e.dirs d.name) m = _
      rw [aget_aunset_other _ _ _ hne]; exact hp.dir

/-! ### C01 clause (a) -/

/-- every record names a declared version and `<P>_DIR` is that version's directory -/
def DirOK (db : Db) (e : Env) : Prop :=
  ∀ n v, e.rec? n = some v → (∃ d, db.lookup (n, v) = some d) ∧ aget e.dirs n = some (.own (n, v) [])

theorem dirOK_subjInv (cfg : Cfg) : SubjInv cfg (fun _ _ => True) (DirOK cfg.db) := by
  refine ⟨?_, ?_, ?_⟩
  · intro fwd k d a s _ _ _ hp n v h
    rw [apply_rec?] at h
    rw [apply_dirs]; exact hp n v h
  · intro k d r s hc _ hp n v h
    by_cases hn : n = d.name
    · subst hn
      rw [record_rec?_same] at h
      have hv : d.ver = v := Option.some.inj h
      subst hv
      exact ⟨⟨d, hc⟩, by simp [record, aget_aset_same, Decl.prod]⟩
    · rw [record_rec?_other d r s n hn] at h
      obtain ⟨h1, h2⟩ := hp n v h
      refine ⟨h1, ?_⟩
      show aget (aset s.env.dirs d.name _) n = _
      rw [aget_aset_other _ _ _ _ hn]; exact h2
  · intro k d e _ _ hp n v h
    have h' : aget (aunset e.recs d.name) n = some v := h
    obtain ⟨h0, hn⟩ := aget_aunset_some _ _ _ _ h'
    obtain ⟨h1, h2⟩ := hp n v h0
    refine ⟨h1, ?_⟩
    show aget (aunset e.dirs d.name) n = _
    rw [aget_aunset_other _ _ _ hn]; exact h2

/-! ### reachability with a bound on the number of edges -/

/-- `Within db top k n`: a path of exactly `k` dependency lines (of any declared version, under any guard)
leads from `top` to `n` -/
inductive Within (db : Db) (top : Name) : Nat → Name → Prop where
  | root : Within db top 0 top
  | step {k : Nat} {a n : Name} {d : Decl} {g : Guard} {o j : Bool} {v : Option VerReq} {x : Option VExpr} :
      Within db top k a → d ∈ db.decls → d.name = a → (g, Act.dep n o j v x t kl) ∈ d.table → Within db top (k + 1) n

theorem within_closedAt (cfg : Cfg) (top : Name) (N : Nat) (hN : cfg.maxDepth = some N) :
    ClosedAt cfg (fun k n => Within cfg.db top k n ∧ k ≤ N) := by
  intro d hd k hS hmd g n o j v x t kl hg
  have hk : k ≠ N := fun e => hmd (by rw [hN, e])
  exact ⟨Within.step hS.1 hd rfl hg, by omega⟩

theorem within_closedAt_unbounded (cfg : Cfg) (top : Name) :
    ClosedAt cfg (fun _ n => ∃ k, Within cfg.db top k n) := by
  intro d hd k hS _ g n o j v x t kl hg
  obtain ⟨k', hk'⟩ := hS
  exact ⟨k' + 1, Within.step hk' hd rfl hg⟩

end EupsModel.Setup
