import EupsModel.Lemmas.VersionCmp
/-! Conventional components and names (C10): the component comparison is the lexicographic order on
(letters, number) keys — the string fallback agrees with it because every ASCII digit sorts before
every ASCII letter — and the comparator on conventional names is assembled from `GoodOn` pieces. -/
set_option linter.unusedVariables false
set_option linter.unusedSimpArgs false
namespace EupsModel.VersionCmp
open EupsModel EupsModel.Order

/-! ## the pieces of the key order -/

theorem good_nat : GoodOn (fun _ : Nat => True) cmpNat := by
  refine ⟨?_, ?_, ?_⟩
  · intro a _; simp [cmpNat]
  · intro a b _ _; simp only [cmpNat]; split <;> split <;> (try split) <;> (try split) <;> omega
  · intro a b c _ _ _ h1 h2; simp only [cmpNat] at *
    split at h1 <;> split at h2 <;> (try split at h1) <;> (try split at h2) <;> split <;> (try split) <;> omega

theorem strCmp_eq_lexList (s t : Str) : Str.cmp s t = lexList cmpNat s t := by
  induction s generalizing t with
  | nil => cases t <;> rfl
  | cons a as ih =>
    cases t with
    | nil => rfl
    | cons b bs =>
      simp only [Str.cmp, lexList, cmpNat, ih bs]
      split
      · simp
      · split <;> simp

/-- Python's string order -/
theorem good_str : GoodOn (fun _ : Str => True) Str.cmp := by
  have g := good_lexList good_nat
  exact ⟨fun a _ => by rw [strCmp_eq_lexList]; exact g.refl a (by simp),
         fun a b _ _ => by rw [strCmp_eq_lexList, strCmp_eq_lexList]; exact g.antisym a b (by simp) (by simp),
         fun a b c _ _ _ h1 h2 => by
           rw [strCmp_eq_lexList] at *; exact g.trans a b c (by simp) (by simp) (by simp) h1 h2⟩

/-- the numeric part of a component: none (no digits) before every number -/
def cmpOptNat : Option Nat → Option Nat → Int
  | none, none => 0
  | none, some _ => -1
  | some _, none => 1
  | some a, some b => cmpNat a b

theorem good_optNat : GoodOn (fun _ : Option Nat => True) cmpOptNat := by
  refine ⟨?_, ?_, ?_⟩
  · intro a _; cases a <;> simp [cmpOptNat, cmpNat]
  · intro a b _ _
    cases a <;> cases b <;> simp [cmpOptNat]
    exact good_nat.antisym _ _ trivial trivial
  · intro a b c _ _ _ h1 h2
    cases a <;> cases b <;> cases c <;> simp [cmpOptNat] at h1 h2 ⊢
    exact good_nat.trans _ _ _ trivial trivial trivial h1 h2

/-- key of a conventional component -/
def optNat (d : Str) : Option Nat := if d.isEmpty then none else some (Str.toNat d)
def keyC (x : Str) : Str × Option Nat := (x.takeWhile Str.isAlpha, optNat (x.dropWhile Str.isAlpha))
def cmpKeyC : Str × Option Nat → Str × Option Nat → Int := lexPair Str.cmp cmpOptNat

theorem good_keyC : GoodOn (fun _ : Str × Option Nat => True) cmpKeyC :=
  (good_lexPair good_str good_optNat).mono (fun _ _ => ⟨trivial, trivial⟩)

/-! ## characters -/

theorem alpha_not_dig {c : Nat} (h : Str.isAlpha c = true) : isDig c = false := by
  simp [Str.isAlpha, Str.isUpper, Str.isLower, isDig, Str.isDigit] at *; omega
theorem dig_not_alpha {c : Nat} (h : isDig c = true) : Str.isAlpha c = false := by
  simp [Str.isAlpha, Str.isUpper, Str.isLower, isDig, Str.isDigit] at *; omega
theorem alpha_not_sign {c : Nat} (h : Str.isAlpha c = true) : c ≠ 43 ∧ c ≠ 45 := by
  simp [Str.isAlpha, Str.isUpper, Str.isLower] at *; omega
theorem dig_not_sign {c : Nat} (h : isDig c = true) : c ≠ 43 ∧ c ≠ 45 := by
  simp [isDig, Str.isDigit] at *; omega
/-- every digit sorts before every letter -/
theorem dig_lt_alpha {x y : Nat} (hx : isDig x = true) (hy : Str.isAlpha y = true) : x < y := by
  simp [Str.isAlpha, Str.isUpper, Str.isLower, isDig, Str.isDigit] at *; omega

/-! ## letters ++ digits words -/

/-- `l` is a run of letters, `d` a run of digits -/
structure LD (l d : Str) : Prop where
  letters : ∀ c ∈ l, Str.isAlpha c = true
  digits : ∀ c ∈ d, isDig c = true

theorem LD.tail {a : Nat} {l d : Str} (h : LD (a :: l) d) : LD l d :=
  ⟨fun c hc => h.letters c (by simp [hc]), h.digits⟩

theorem takeWhile_nil_of_head {p : Nat → Bool} {d : Str} (h : ∀ c ∈ d, p c = false) : d.takeWhile p = [] := by
  cases d with
  | nil => rfl
  | cons c cs => simp [List.takeWhile, h c (by simp)]

theorem dropWhile_self_of_head {p : Nat → Bool} {d : Str} (h : ∀ c ∈ d, p c = false) : d.dropWhile p = d := by
  cases d with
  | nil => rfl
  | cons c cs => simp [List.dropWhile, h c (by simp)]

theorem LD.takeAlpha {l d : Str} (h : LD l d) : (l ++ d).takeWhile Str.isAlpha = l := by
  rw [List.takeWhile_append_of_pos h.letters, takeWhile_nil_of_head (fun c hc => dig_not_alpha (h.digits c hc))]
  simp
theorem LD.dropAlpha {l d : Str} (h : LD l d) : (l ++ d).dropWhile Str.isAlpha = d := by
  rw [List.dropWhile_append_of_pos h.letters, dropWhile_self_of_head (fun c hc => dig_not_alpha (h.digits c hc))]
theorem LD.takeNonDig {l d : Str} (h : LD l d) : (l ++ d).takeWhile (fun c => !isDig c) = l := by
  rw [List.takeWhile_append_of_pos (by intro c hc; simp [alpha_not_dig (h.letters c hc)]),
    takeWhile_nil_of_head (by intro c hc; simp [h.digits c hc])]
  simp
theorem LD.dropNonDig {l d : Str} (h : LD l d) : (l ++ d).dropWhile (fun c => !isDig c) = d := by
  rw [List.dropWhile_append_of_pos (by intro c hc; simp [alpha_not_dig (h.letters c hc)]),
    dropWhile_self_of_head (by intro c hc; simp [h.digits c hc])]

theorem LD.unique {l1 d1 l2 d2 : Str} (h1 : LD l1 d1) (h2 : LD l2 d2) (e : l1 ++ d1 = l2 ++ d2) : l1 = l2 ∧ d1 = d2 := by
  constructor
  · have := congrArg (List.takeWhile Str.isAlpha) e
    rwa [h1.takeAlpha, h2.takeAlpha] at this
  · have := congrArg (List.dropWhile Str.isAlpha) e
    rwa [h1.dropAlpha, h2.dropAlpha] at this

theorem conv_decomp {x : Str} (h : convComp x = true) :
    LD (x.takeWhile Str.isAlpha) (x.dropWhile Str.isAlpha) ∧ x = x.takeWhile Str.isAlpha ++ x.dropWhile Str.isAlpha := by
  refine ⟨⟨fun c hc => mem_takeWhile_pos hc, ?_⟩, (List.takeWhile_append_dropWhile).symm⟩
  intro c hc
  simp only [convComp, List.all_eq_true] at h
  exact h c hc

theorem LD.keyC {l d : Str} (h : LD l d) : keyC (l ++ d) = (l, optNat d) := by
  simp [VersionCmp.keyC, h.takeAlpha, h.dropAlpha]

theorem LD.allDigits {l d : Str} (h : LD l d) (hd : d ≠ []) : allDigits d = true := by
  cases d with
  | nil => exact absurd rfl hd
  | cons c cs =>
    simp only [VersionCmp.allDigits, List.isEmpty_cons, Bool.not_false, Bool.true_and, List.all_eq_true]
    exact h.digits

/-- with different letter parts the string order is the order of the letter parts -/
theorem strCmp_LD {l1 d1 l2 d2 : Str} (h1 : LD l1 d1) (h2 : LD l2 d2) (hne : l1 ≠ l2) :
    Str.cmp (l1 ++ d1) (l2 ++ d2) = Str.cmp l1 l2 := by
  induction l1 generalizing l2 with
  | nil =>
    cases l2 with
    | nil => exact absurd rfl hne
    | cons y ys =>
      cases d1 with
      | nil => rfl
      | cons x xs =>
        have := dig_lt_alpha (h1.digits x (by simp)) (h2.letters y (by simp))
        simp [Str.cmp, this]
  | cons x xs ih =>
    cases l2 with
    | nil =>
      cases d2 with
      | nil => rfl
      | cons y ys =>
        have := dig_lt_alpha (h2.digits y (by simp)) (h1.letters x (by simp))
        simp only [List.cons_append, List.nil_append, Str.cmp]
        rw [if_neg (by omega), if_pos this]
    | cons y ys =>
      simp only [List.cons_append, Str.cmp]
      by_cases hxy : x = y
      · subst hxy
        simp only [Nat.lt_irrefl, if_false]
        exact ih h1.tail h2.tail (fun e => hne (by rw [e]))
      · rcases Nat.lt_or_gt_of_ne hxy with h | h
        · simp [h]
        · rw [if_neg (by omega), if_pos h, if_neg (by omega), if_pos h]

theorem parseInt_alpha {c : Nat} {r : Str} (hc : Str.isAlpha c = true) : parseInt (c :: r) = none := by
  obtain ⟨h1, h2⟩ := alpha_not_sign hc
  simp [parseInt, h1, h2, VersionCmp.allDigits, alpha_not_dig hc]

theorem parseInt_digits {d : Str} (hd : ∀ c ∈ d, isDig c = true) (hne : d ≠ []) :
    parseInt d = some (Int.ofNat (Str.toNat d)) := by
  cases d with
  | nil => exact absurd rfl hne
  | cons c cs =>
    obtain ⟨h1, h2⟩ := dig_not_sign (hd c (by simp))
    have : VersionCmp.allDigits (c :: cs) = true := by
      simp only [VersionCmp.allDigits, List.isEmpty_cons, Bool.not_false, Bool.true_and, List.all_eq_true]; exact hd
    simp [parseInt, h1, h2, this]

theorem cmpInt_ofNat (a b : Nat) : cmpInt (Int.ofNat a) (Int.ofNat b) = cmpNat a b := by
  simp only [cmpInt, cmpNat, Int.ofNat_eq_natCast, Int.ofNat_lt]

/-- the common-prefix branch does not fire when the letter parts differ -/
theorem pdMatch_LD_ne {l1 d1 l2 d2 : Str} (h1 : LD l1 d1) (h2 : LD l2 d2) (hne : l1 ≠ l2) :
    pdMatch (l1 ++ d1) (l2 ++ d2) = none := by
  simp only [pdMatch]
  split
  · rename_i p d hs
    obtain ⟨hx, hp, hnd, hd⟩ := pdSplit_eq_some hs
    have hpl : p = l1 := by
      have := congrArg (List.takeWhile (fun c => !isDig c)) hx
      rw [h1.takeNonDig] at this
      rw [this, List.takeWhile_append_of_pos (by intro c hc; simp [hnd c hc])]
      obtain ⟨c, cs, rfl, hc⟩ := allDigits_head hd
      simp [List.takeWhile, hc]
    split
    · rename_i hm
      obtain ⟨d', hy, hd'⟩ := matchesPD_iff.mp hm
      exfalso
      subst hpl
      have hLD : LD p d' := ⟨h1.letters, by
        intro c hc
        simp only [VersionCmp.allDigits, Bool.and_eq_true, List.all_eq_true] at hd'
        exact hd'.2 c hc⟩
      exact hne (hLD.unique h2 hy.symm).1
    · rfl
  · rfl

/-- **The component comparison on conventional components is the key order.** -/
theorem cmpC_LD {l1 d1 l2 d2 : Str} (h1 : LD l1 d1) (h2 : LD l2 d2) :
    cmpC (l1 ++ d1) (l2 ++ d2) = cmpKeyC (l1, optNat d1) (l2, optNat d2) := by
  simp only [cmpKeyC, lexPair]
  by_cases hl : l1 = l2
  · subst hl
    simp only [strCmp_self, ne_eq, not_true_eq_false, if_false]
    by_cases hd1 : d1 = []
    · -- no digits on the left: not an integer, string comparison with a word it is a prefix of
      subst hd1
      have hnone : compInts (l1 ++ []) (l1 ++ d2) = none := by
        rw [compInts_eq]
        have : pdMatch (l1 ++ []) (l1 ++ d2) = none := by
          simp only [pdMatch, pdSplit, h1.takeNonDig, h1.dropNonDig, VersionCmp.allDigits]
          simp
        rw [this]
        cases l1 with
        | nil => simp [parseInt]
        | cons c cs => simp [parseInt_alpha (h1.letters c (by simp))]
      simp only [cmpC, cmpComp, hnone]
      by_cases hd2 : d2 = []
      · subst hd2; simp [strCmp_self, optNat, cmpOptNat]
      · have : Str.cmp (l1 ++ []) (l1 ++ d2) = -1 :=
          strCmp_prefix_lt (by simp) (by simpa using (Ne.symm hd2))
        cases d2 with
        | nil => exact absurd rfl hd2
        | cons c cs =>
          simp only [List.append_nil] at this
          simp [this, optNat, cmpOptNat]
    · by_cases hd2 : d2 = []
      · subst hd2
        have hnone : compInts (l1 ++ d1) (l1 ++ []) = none := by
          have := compInts_none_symm (x := l1 ++ []) (y := l1 ++ d1) (by
            rw [compInts_eq]
            have : pdMatch (l1 ++ []) (l1 ++ d1) = none := by
              simp only [pdMatch, pdSplit, h2.takeNonDig, h2.dropNonDig, VersionCmp.allDigits]
              simp
            rw [this]
            cases l1 with
            | nil => simp [parseInt]
            | cons c cs => simp [parseInt_alpha (h1.letters c (by simp))])
          exact this
        simp only [cmpC, cmpComp, hnone]
        have : Str.cmp (l1 ++ []) (l1 ++ d1) = -1 :=
          strCmp_prefix_lt (by simp) (by simpa using (Ne.symm hd1))
        rw [strCmp_antisym, this]
        cases d1 with
        | nil => exact absurd rfl hd1
        | cons c cs => simp [optNat, cmpOptNat]
      · -- digits on both sides: integers, after the common prefix or as they are
        have hints : compInts (l1 ++ d1) (l1 ++ d2) = some (Int.ofNat (Str.toNat d1), Int.ofNat (Str.toNat d2)) := by
          rw [compInts_eq]
          by_cases hl : l1 = []
          · subst hl
            have : pdMatch ([] ++ d1) ([] ++ d2) = none := by
              simp only [pdMatch, pdSplit, h1.takeNonDig, h1.dropNonDig]
              simp
            rw [this]
            simp [parseInt_digits h1.digits hd1, parseInt_digits h2.digits hd2]
          · have hs := pdSplit_append hl (fun c hc => alpha_not_dig (h1.letters c hc)) (h1.allDigits hd1)
            have hm : matchesPD l1 (l1 ++ d2) = true := matchesPD_iff.mpr ⟨d2, rfl, h2.allDigits hd2⟩
            simp [pdMatch, hs, hm]
        simp only [cmpC, cmpComp, hints, cmpInt_ofNat]
        cases d1 with
        | nil => exact absurd rfl hd1
        | cons c cs =>
          cases d2 with
          | nil => exact absurd rfl hd2
          | cons c' cs' => simp [optNat, cmpOptNat]
  · have hne : Str.cmp l1 l2 ≠ 0 := fun e => hl (strCmp_eq_zero e)
    simp only [hne, ne_eq, not_false_eq_true, if_true]
    have hnone : compInts (l1 ++ d1) (l2 ++ d2) = none := by
      rw [compInts_eq, pdMatch_LD_ne h1 h2 hl]
      cases l1 with
      | cons c cs => simp [parseInt_alpha (h1.letters c (by simp))]
      | nil =>
        cases l2 with
        | nil => exact absurd rfl hl
        | cons c cs =>
          have := parseInt_alpha (r := cs ++ d2) (h2.letters c (by simp))
          simp only [List.cons_append] at this ⊢
          rw [this]
          cases parseInt ([] ++ d1) <;> rfl
    simp only [cmpC, cmpComp, hnone]
    exact strCmp_LD h1 h2 hl

theorem cmpC_conv {x y : Str} (hx : convComp x = true) (hy : convComp y = true) :
    cmpC x y = cmpKeyC (keyC x) (keyC y) := by
  obtain ⟨h1, e1⟩ := conv_decomp hx
  obtain ⟨h2, e2⟩ := conv_decomp hy
  have := cmpC_LD h1 h2
  rw [← e1, ← e2] at this
  rw [this]; rfl

/-- the component comparison is reflexive, antisymmetric and transitive on conventional components -/
theorem good_cmpC : GoodOn (fun x : Str => convComp x = true) cmpC :=
  good_congr ((good_pullback good_keyC keyC).mono (fun _ _ => trivial)) (fun a b ha hb => cmpC_conv ha hb)

/-! ## component lists and names -/

theorem cmpComps_eq_lexList (l m : List Str) : cmpComps l m = lexList cmpC l m := by
  induction l generalizing m with
  | nil => cases m <;> rfl
  | cons a as ih =>
    cases m with
    | nil => rfl
    | cons b bs => simp only [cmpComps, lexList, ih bs]

def ConvList (l : List Str) : Prop := ∀ x ∈ l, convComp x = true

theorem good_cmpComps : GoodOn ConvList cmpComps :=
  good_congr (good_lexList good_cmpC) (fun a b _ _ => cmpComps_eq_lexList a b)

def depth : Lexed → Nat
  | .absent => 0
  | .node _ s t => max (depth s) (depth t) + 1

/-- conventional (every component of every part is letters-then-digits) and of bounded nesting -/
def ConvD (n : Nat) (a : Lexed) : Prop := convLexed a = true ∧ depth a ≤ n

/-- what the comparator looks at, in the order it looks at it -/
def keyL (a : Lexed) : List Str × (Lexed × Lexed) := (a.comps, (a.sec, a.ter))

theorem cmpSort_eq_key (a b : Lexed) :
    cmpSort a b = lexPair cmpComps (lexPair secCmp cmpSort) (keyL a) (keyL b) := by
  rw [cmpSort_unfold, secTer_eq]; rfl

theorem convD_parts {n : Nat} {a : Lexed} (h : ConvD (n + 1) a) :
    ConvList a.comps ∧ (ConvD n a.sec ∧ ConvD n a.ter) := by
  cases a with
  | absent =>
    refine ⟨?_, ⟨rfl, Nat.zero_le _⟩, ⟨rfl, Nat.zero_le _⟩⟩
    intro x hx
    simp only [Lexed.comps, Lexed.prim, splitSep, List.mem_singleton] at hx
    subst hx; rfl
  | node p s t =>
    obtain ⟨hc, hd⟩ := h
    simp only [convLexed, Bool.and_eq_true, List.all_eq_true] at hc
    simp only [depth] at hd
    exact ⟨hc.1.1, ⟨hc.1.2, by simp only [Lexed.sec]; omega⟩, ⟨hc.2, by simp only [Lexed.ter]; omega⟩⟩

theorem good_cmpSort_depth : ∀ n, GoodOn (ConvD n) cmpSort := by
  intro n
  induction n with
  | zero =>
    refine ⟨fun a _ => cmpSort_self a, fun a b _ _ => cmpSort_antisym a b, ?_⟩
    intro a b c ha hb hc _ _
    have e : ∀ x, ConvD 0 x → x = .absent := by
      intro x hx
      cases x with
      | absent => rfl
      | node p s t => have := hx.2; simp [depth] at this
    rw [e a ha, e c hc, cmpSort_self]; exact Int.le_refl 0
  | succ n ih =>
    have g := good_pullback (good_lexPair good_cmpComps (good_lexPair (good_absentTop Lexed.present ih) ih)) keyL
    exact good_congr (g.mono (fun a ha => convD_parts ha)) (fun a b _ _ => cmpSort_eq_key a b)

/-- **On conventional names the comparator is reflexive, antisymmetric and transitive.** -/
theorem good_cmpSort : GoodOn (fun a : Lexed => convLexed a = true) cmpSort := by
  refine ⟨fun a _ => cmpSort_self a, fun a b _ _ => cmpSort_antisym a b, ?_⟩
  intro a b c ha hb hc h1 h2
  have g := good_cmpSort_depth (max (depth a) (max (depth b) (depth c)))
  exact g.trans a b c ⟨ha, by omega⟩ ⟨hb, by omega⟩ ⟨hc, by omega⟩ h1 h2

/-! ## the clauses about the shape of the order -/

theorem cmpComps_common_prefix (cs : List Str) (x y : Str) (r1 r2 : List Str) :
    cmpComps (cs ++ x :: r1) (cs ++ y :: r2) = if cmpC x y ≠ 0 then cmpC x y else cmpComps r1 r2 := by
  induction cs with
  | nil => rfl
  | cons c cs ih => simp only [List.cons_append, cmpComps, cmpC_self, ne_eq, not_true_eq_false, if_false, ih]

theorem cmpComps_longer (l e : List Str) (he : e ≠ []) : cmpComps l (l ++ e) = -1 := by
  induction l with
  | nil => cases e with
    | nil => exact absurd rfl he
    | cons a as => rfl
  | cons c cs ih => simp only [List.cons_append, cmpComps, cmpC_self, ne_eq, not_true_eq_false, if_false, ih]

/-- two components with the same letters and different numbers compare as the numbers do -/
theorem cmpC_numeric {l d1 d2 : Str} (h1 : LD l d1) (h2 : LD l d2) (n1 : d1 ≠ []) (n2 : d2 ≠ []) :
    cmpC (l ++ d1) (l ++ d2) = cmpNat (Str.toNat d1) (Str.toNat d2) := by
  rw [cmpC_LD h1 h2]
  simp only [cmpKeyC, lexPair, strCmp_self, ne_eq, not_true_eq_false, if_false]
  cases d1 with
  | nil => exact absurd rfl n1
  | cons a as => cases d2 with
    | nil => exact absurd rfl n2
    | cons b bs => simp [optNat, cmpOptNat]

theorem splitSep_ne_nil (p : Str) : splitSep p ≠ [] := by
  cases p with
  | nil => simp [splitSep]
  | cons c cs =>
    simp only [splitSep]
    split
    · simp
    · split <;> simp

theorem cmpC_nil_right {x : Str} (hx : x ≠ []) : cmpC x [] = 1 := by
  have hnone : compInts x [] = none := by
    rw [compInts_eq]
    have : pdMatch x [] = none := by
      simp only [pdMatch]
      split
      · rename_i p d hs
        obtain ⟨_, hp, _, _⟩ := pdSplit_eq_some hs
        cases p with
        | nil => exact absurd rfl hp
        | cons a as => simp [matchesPD, List.isPrefixOf]
      · rfl
    rw [this]
    cases parseInt x <;> simp [parseInt]
  cases x with
  | nil => exact absurd rfl hx
  | cons a as => simp [cmpC, cmpComp, hnone, Str.cmp]

/-- a part with a non-empty primary is later than an absent part -/
theorem cmpComps_splitSep_absent {p : Str} (hp : p ≠ []) : cmpComps (splitSep p) [[]] = 1 := by
  cases p with
  | nil => exact absurd rfl hp
  | cons c cs =>
    simp only [splitSep]
    split
    · cases h : splitSep cs with
      | nil => exact absurd h (splitSep_ne_nil cs)
      | cons a as => simp [cmpComps, cmpC_self]
    · split
      · rename_i h; exact absurd h (splitSep_ne_nil cs)
      · simp only [cmpComps]
        rw [cmpC_nil_right (by simp)]; simp

/-! ## the strict mode on names whose components are all integral -/

/-- every compared pair of components is integral -/
def intPairs : List Str → List Str → Bool
  | x :: xs, y :: ys => (cmpComp x y).2 && intPairs xs ys
  | _, _ => true

theorem cmpCompsStrict_of_intPairs {l m : List Str} (h : intPairs l m = true) :
    cmpCompsStrict l m = .ok (cmpComps l m) := by
  induction l generalizing m with
  | nil => cases m <;> rfl
  | cons a as ih =>
    cases m with
    | nil => rfl
    | cons b bs =>
      simp only [intPairs, Bool.and_eq_true] at h
      simp only [cmpCompsStrict, cmpComps, cmpC, h.1, if_true]
      by_cases hz : (cmpComp a b).1 = 0
      · simp [hz, ih h.2]
      · simp [hz]

theorem integral_of_compInts {x y : Str} {r : Int × Int} (h : compInts x y = some r) : (cmpComp x y).2 = true := by
  simp [cmpComp, h]

theorem integral_digits {x y : Str} (hx : allDigits x = true) (hy : allDigits y = true) : (cmpComp x y).2 = true := by
  have dx : ∀ c ∈ x, isDig c = true := by
    simp only [VersionCmp.allDigits, Bool.and_eq_true, List.all_eq_true] at hx; exact hx.2
  have dy : ∀ c ∈ y, isDig c = true := by
    simp only [VersionCmp.allDigits, Bool.and_eq_true, List.all_eq_true] at hy; exact hy.2
  cases h : compInts x y with
  | some r => exact integral_of_compInts h
  | none =>
    exfalso
    rw [compInts_eq] at h
    cases hm : pdMatch x y with
    | some r => simp [hm] at h
    | none =>
      simp [hm, parseInt_digits dx (allDigits_ne_nil hx), parseInt_digits dy (allDigits_ne_nil hy)] at h

theorem integral_same_letters {l d1 d2 : Str} (h1 : LD l d1) (h2 : LD l d2) (n1 : d1 ≠ []) (n2 : d2 ≠ []) :
    (cmpComp (l ++ d1) (l ++ d2)).2 = true := by
  by_cases hl : l = []
  · subst hl
    exact integral_digits (h1.allDigits n1) (h2.allDigits n2)
  · have hs := pdSplit_append hl (fun c hc => alpha_not_dig (h1.letters c hc)) (h1.allDigits n1)
    have hm : matchesPD l (l ++ d2) = true := matchesPD_iff.mpr ⟨d2, rfl, h2.allDigits n2⟩
    have : compInts (l ++ d1) (l ++ d2) = some (Int.ofNat (Str.toNat d1), Int.ofNat (Str.toNat d2)) := by
      rw [compInts_eq]; simp [pdMatch, hs, hm]
    exact integral_of_compInts this

theorem intPairs_digits {l m : List Str} (hl : l.all allDigits = true) (hm : m.all allDigits = true) : intPairs l m = true := by
  induction l generalizing m with
  | nil => cases m <;> rfl
  | cons a as ih =>
    cases m with
    | nil => rfl
    | cons b bs =>
      simp only [List.all_cons, Bool.and_eq_true] at hl hm
      simp only [intPairs, Bool.and_eq_true]
      exact ⟨integral_digits hl.1 hm.1, ih hl.2 hm.2⟩

/-- the letters in front of the first number (`v` in `v1.2`) -/
def letterPrefix (a : Lexed) : Str := (a.comps.headD []).takeWhile Str.isAlpha

theorem allDigits_conv {d : Str} (h : allDigits d = true) : convComp d = true := by
  obtain ⟨c, cs, rfl, hc⟩ := allDigits_head h
  simp only [VersionCmp.allDigits, Bool.and_eq_true, List.all_eq_true] at h
  simp only [convComp, List.dropWhile, dig_not_alpha hc, List.all_eq_true]
  exact h.2

theorem simplePart_conv {a : Lexed} (h : simplePart a = true) : convLexed a = true := by
  cases a with
  | absent => rfl
  | node p s t =>
    simp only [simplePart, Bool.and_eq_true, List.all_eq_true, Bool.not_eq_true'] at h
    obtain ⟨⟨hc, hs⟩, ht⟩ := h
    cases s with
    | node _ _ _ => simp [Lexed.present] at hs
    | absent =>
      cases t with
      | node _ _ _ => simp [Lexed.present] at ht
      | absent =>
        simp only [convLexed, Bool.and_true, List.all_eq_true]
        intro x hx; exact (hc x hx).1

/-- the grammar of the property lies inside the class the order theorems are about -/
theorem conventional_conv {a : Lexed} (h : conventional a = true) : convLexed a = true := by
  cases a with
  | absent => simp [conventional] at h
  | node p s t =>
    simp only [conventional, Bool.and_eq_true] at h
    obtain ⟨⟨hp, hs⟩, ht⟩ := h
    simp only [convLexed, Bool.and_eq_true, List.all_eq_true]
    refine ⟨⟨?_, simplePart_conv hs⟩, simplePart_conv ht⟩
    intro x hx
    split at hp
    · simp at hp
    · rename_i c cs hsplit
      rw [hsplit] at hx
      simp only [Bool.and_eq_true, List.all_eq_true] at hp
      rcases List.mem_cons.mp hx with rfl | hx'
      · exact hp.1.1
      · exact allDigits_conv (hp.2 x hx')

/-- conventional names with the same letters in front: every compared pair of primary components is integral -/
theorem intPairs_conventional {a b : Lexed} (ha : conventional a = true) (hb : conventional b = true)
    (hp : letterPrefix a = letterPrefix b) : intPairs a.comps b.comps = true := by
  cases a with
  | absent => simp [conventional] at ha
  | node p s t =>
    cases b with
    | absent => simp [conventional] at hb
    | node p' s' t' =>
      simp only [conventional, Bool.and_eq_true] at ha hb
      simp only [letterPrefix, Lexed.comps, Lexed.prim] at hp ⊢
      have ha1 := ha.1.1
      have hb1 := hb.1.1
      split at ha1
      · simp at ha1
      · rename_i c cs hs
        split at hb1
        · simp at hb1
        · rename_i c' cs' hs'
          rw [hs] at hp ⊢
          rw [hs'] at hp ⊢
          simp only [List.headD_cons] at hp
          simp only [Bool.and_eq_true, Bool.not_eq_true', List.isEmpty_eq_false_iff] at ha1 hb1
          simp only [intPairs, Bool.and_eq_true]
          refine ⟨?_, intPairs_digits ha1.2 hb1.2⟩
          obtain ⟨ld, e⟩ := conv_decomp ha1.1.1
          obtain ⟨ld', e'⟩ := conv_decomp hb1.1.1
          rw [e, e', ← hp]
          rw [← hp] at ld'
          exact integral_same_letters ld ld' ha1.1.2 hb1.1.2

theorem cmpStrict_of_intPairs {a b : Lexed} (h : intPairs a.comps b.comps = true) : cmpStrict a b = .ok (cmpSort a b) := by
  simp only [cmpStrict, cmpCompsStrict_of_intPairs h]
  rw [cmpSort_unfold]
  by_cases hz : cmpComps a.comps b.comps = 0 <;> simp [hz]

end EupsModel.VersionCmp
