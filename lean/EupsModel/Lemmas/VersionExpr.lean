import EupsModel.Lemmas.VersionMatch
/-! `Eups.version_match` (C10) on every text its parser reads as a chain of terms: terms with an explicit
operator or bare (implicit `==`), joined by `||`, `or`, `&&`, `and`, with arbitrary blanks wherever the
splitting pattern `\s*(<=?|>=?|==|\|\||\s)\s*` allows them.  The tokeniser on such a text, the loop on its
tokens, and what the loop computes in closed form. -/
set_option linter.unusedVariables false
set_option linter.unusedSimpArgs false
namespace EupsModel.VersionCmp
open EupsModel

/-! ## the texts -/

/-- a run of blanks -/
def isWs (w : Str) : Prop := ∀ c ∈ w, Str.isSpace c = true

/-- the four spellings of a logical operator -/
inductive Conn | barbar | orW | ampamp | andW
  deriving DecidableEq, Repr

def Conn.str : Conn → Str
  | .barbar => sBarBar | .orW => sOr | .ampamp => sAmpAmp | .andW => sAnd

def Conn.op : Conn → LogOp
  | .barbar => .or | .orW => .or | .ampamp => .and | .andW => .and

/-- a term: `op gap name`, or a bare `name` (`op = none`, read as `== name`) -/
structure GTerm where
  op : Option Str
  gap : Str
  name : Str

/-- a logical operator with the blanks around it, and the term that follows -/
structure Link where
  pre : Str
  conn : Conn
  post : Str
  term : GTerm

def GTerm.opText (t : GTerm) : Str :=
  match t.op with
  | some o => o ++ t.gap
  | none => []

def GTerm.render (t : GTerm) : Str := t.opText ++ t.name

def renderLinks : List Link → Str
  | [] => []
  | l :: ls => l.pre ++ (l.conn.str ++ (l.post ++ (l.term.render ++ renderLinks ls)))

/-- the text: blanks, a term, operators and terms, blanks -/
def renderG (lead : Str) (t : GTerm) (ls : List Link) (trail : Str) : Str :=
  lead ++ (t.render ++ (renderLinks ls ++ trail))

/-- the operator is one of the five, the blanks are blanks, the version is a well-formed name; a bare
version is not the word `and` or `or` -/
def GTerm.Wf (t : GTerm) : Prop :=
  wfName t.name ∧ isWs t.gap ∧ (∀ o, t.op = some o → isRelop o) ∧ (t.op = none → t.name ≠ sAnd ∧ t.name ≠ sOr)

/-- `||` needs no blanks around it; the words `or`, `and` and `&&` need one on either side (the
splitting pattern does not know them) -/
def Link.Wf (l : Link) : Prop :=
  isWs l.pre ∧ isWs l.post ∧ l.term.Wf ∧ (l.conn ≠ .barbar → l.pre ≠ [] ∧ l.post ≠ [])

def GTerm.opToks (t : GTerm) : List Str :=
  match t.op with
  | some o => [o]
  | none => []

def linkToks : List Link → List Str
  | [] => []
  | l :: ls => l.conn.str :: (l.term.opToks ++ l.term.name :: linkToks ls)

/-- the term as `(operator, version)` -/
def GTerm.term (t : GTerm) : Term := (t.op.getD opEq, t.name)

/-! ## the tokeniser -/

/-- the piece collected so far becomes a token -/
def flush (cur : Str) : List Str := if cur.isEmpty then [] else [cur.reverse]

/-- a character that neither splits nor starts an operator -/
def wordChar (c : Nat) : Prop := Str.isSpace c = false ∧ c ≠ 60 ∧ c ≠ 61 ∧ c ≠ 62 ∧ c ≠ 124

theorem tokGo_word (v cur rest : Str) (hv : ∀ c ∈ v, wordChar c) :
    tokGo 0 cur (v ++ rest) = tokGo 0 (v.reverse ++ cur) rest := by
  induction v generalizing cur with
  | nil => rfl
  | cons c cs ih =>
    obtain ⟨hs, h1, h2, h3, h4⟩ := hv c (by simp)
    simp only [List.cons_append, tokGo, hs, Bool.false_eq_true, if_false, opLen_plain h1 h2 h3 h4, ne_eq,
      not_true_eq_false]
    rw [ih (c :: cur) (fun x hx => hv x (by simp [hx]))]
    simp

theorem tokGo_end (cur : Str) : tokGo 0 cur [] = flush cur := by
  simp [tokGo, flush]

theorem tokGo_ws_nil (w rest : Str) (hw : isWs w) : tokGo 0 [] (w ++ rest) = tokGo 0 [] rest := by
  induction w with
  | nil => rfl
  | cons c cs ih =>
    have hc := hw c (by simp)
    simp only [List.cons_append, tokGo, hc, if_true, List.isEmpty_nil]
    exact ih (fun x hx => hw x (by simp [hx]))

theorem tokGo_ws_cur (w cur rest : Str) (hw : isWs w) (hne : w ≠ []) :
    tokGo 0 cur (w ++ rest) = flush cur ++ tokGo 0 [] rest := by
  cases w with
  | nil => exact absurd rfl hne
  | cons c cs =>
    have hc := hw c (by simp)
    have hrest := tokGo_ws_nil cs rest (fun x hx => hw x (by simp [hx]))
    simp only [List.cons_append, tokGo, hc, if_true, flush]
    cases cur with
    | nil => simpa using hrest
    | cons a as => simpa using hrest

/-- an operator of the splitting pattern, not followed by a character that would lengthen it -/
theorem tokGo_opG (op cur rest : Str) (hop : isRelop op ∨ op = sBarBar)
    (hnext : (op = opLt ∨ op = opGt) → rest.head? ≠ some 61) :
    tokGo 0 cur (op ++ rest) = flush cur ++ op :: tokGo 0 [] rest := by
  have hfl : (if cur.isEmpty = true then [] else [cur.reverse]) = flush cur := rfl
  rcases hop with (rfl | rfl | rfl | rfl | rfl) | rfl
  · -- <
    have hn := hnext (Or.inl rfl)
    cases rest with
    | nil => simp [tokGo, opLen, Str.isSpace, opLt, flush]
    | cons r rs =>
      have : r ≠ 61 := by simpa using hn
      simp [tokGo, opLen, Str.isSpace, opLt, flush, this]
  · simp [tokGo, opLen, Str.isSpace, opLe, flush]
  · simp [tokGo, opLen, Str.isSpace, opEq, flush]
  · simp [tokGo, opLen, Str.isSpace, opGe, flush]
  · -- >
    have hn := hnext (Or.inr rfl)
    cases rest with
    | nil => simp [tokGo, opLen, Str.isSpace, opGt, flush]
    | cons r rs =>
      have : r ≠ 61 := by simpa using hn
      simp [tokGo, opLen, Str.isSpace, opGt, flush, this]
  · simp [tokGo, opLen, Str.isSpace, sBarBar, flush]

theorem nameChar_word {c : Nat} (h : nameChar c = true) : wordChar c := nameChar_plain h

theorem head?_ws_name_ne (w v rest : Str) (hw : isWs w) (hv : wfName v) : (w ++ (v ++ rest)).head? ≠ some 61 := by
  cases w with
  | nil =>
    obtain ⟨hne, hc⟩ := hv
    cases v with
    | nil => exact absurd rfl hne
    | cons a as =>
      have := (nameChar_plain (hc a (by simp))).2.2.1
      simpa using this
  | cons c cs =>
    have := hw c (by simp)
    simp only [List.cons_append, List.head?_cons, ne_eq, Option.some.injEq]
    intro e; subst e; simp [Str.isSpace] at this

/-- a term read from the start of a piece: its operator (if any) is a token, its version is being collected -/
theorem tokGo_term (t : GTerm) (ht : t.Wf) (rest : Str) :
    tokGo 0 [] (t.render ++ rest) = t.opToks ++ tokGo 0 t.name.reverse rest := by
  obtain ⟨hn, hg, ho, _⟩ := ht
  have hname : tokGo 0 [] (t.name ++ rest) = tokGo 0 t.name.reverse rest := by
    have := tokGo_word t.name [] rest (fun c hc => nameChar_word (hn.2 c hc))
    simpa using this
  cases hop : t.op with
  | none => simp only [GTerm.render, GTerm.opText, GTerm.opToks, hop, List.nil_append]; exact hname
  | some o =>
    simp only [GTerm.render, GTerm.opText, GTerm.opToks, hop, List.append_assoc]
    rw [tokGo_opG o [] _ (Or.inl (ho o hop)) (fun _ => head?_ws_name_ne t.gap t.name rest hg hn)]
    simp only [flush, List.isEmpty_nil, if_true, List.nil_append, List.cons_append]
    rw [tokGo_ws_nil _ _ hg, hname]

theorem conn_word (c : Conn) (hc : c ≠ .barbar) : ∀ x ∈ c.str, wordChar x := by
  cases c with
  | barbar => exact absurd rfl hc
  | orW => intro x hx; simp [Conn.str, sOr] at hx; rcases hx with rfl | rfl <;> simp [wordChar, Str.isSpace]
  | ampamp => intro x hx; simp [Conn.str, sAmpAmp] at hx; subst hx; simp [wordChar, Str.isSpace]
  | andW => intro x hx; simp [Conn.str, sAnd] at hx; rcases hx with rfl | rfl | rfl <;> simp [wordChar, Str.isSpace]

theorem flush_name {v : Str} (hv : wfName v) : flush v.reverse = [v] := by
  have : v.reverse ≠ [] := by simpa using hv.1
  cases h : v.reverse with
  | nil => exact absurd h this
  | cons a as => simp only [flush, List.isEmpty_cons, Bool.false_eq_true, if_false]; rw [← h]; simp

theorem tokGo_links (v : Str) (hv : wfName v) (ls : List Link) (hls : ∀ l ∈ ls, l.Wf) (trail : Str) (htr : isWs trail) :
    tokGo 0 v.reverse (renderLinks ls ++ trail) = v :: linkToks ls := by
  induction ls generalizing v with
  | nil =>
    simp only [renderLinks, List.nil_append, linkToks]
    cases trail with
    | nil => rw [tokGo_end, flush_name hv]
    | cons c cs =>
      have := tokGo_ws_cur (c :: cs) v.reverse [] htr (by simp)
      simp only [List.append_nil] at this
      rw [this, flush_name hv, tokGo_end]; simp [flush]
  | cons l ls ih =>
    obtain ⟨hpre, hpost, hterm, hword⟩ := hls l (by simp)
    have hrest := ih l.term.name hterm.1 (fun x hx => hls x (by simp [hx]))
    simp only [renderLinks, linkToks, List.append_assoc]
    -- after the operator and the blanks that follow it
    have hafter : tokGo 0 [] (l.post ++ (l.term.render ++ (renderLinks ls ++ trail))) =
        l.term.opToks ++ l.term.name :: linkToks ls := by
      rw [tokGo_ws_nil _ _ hpost, tokGo_term l.term hterm, hrest]
    by_cases hb : l.conn = .barbar
    · have hstr : l.conn.str = sBarBar := by rw [hb]; rfl
      rw [hstr]
      by_cases hp : l.pre = []
      · rw [hp, List.nil_append, tokGo_opG sBarBar _ _ (Or.inr rfl) (by intro h; rcases h with h | h <;> cases h)]
        rw [flush_name hv, hafter]; rfl
      · rw [tokGo_ws_cur _ _ _ hpre hp, flush_name hv,
          tokGo_opG sBarBar _ _ (Or.inr rfl) (by intro h; rcases h with h | h <;> cases h), hafter]
        simp [flush]
    · obtain ⟨hp, hq⟩ := hword hb
      rw [tokGo_ws_cur _ _ _ hpre hp, flush_name hv, tokGo_word _ _ _ (conn_word l.conn hb)]
      simp only [List.append_nil]
      rw [tokGo_ws_cur _ _ _ hpost hq]
      have hfl : flush l.conn.str.reverse = [l.conn.str] := by
        cases hc : l.conn <;> simp [flush, Conn.str, sOr, sAnd, sAmpAmp, sBarBar]
      rw [hfl, tokGo_term l.term hterm, hrest]
      simp

/-- **the tokeniser on a chain, whatever the spacing** -/
theorem tokenize_renderG (lead : Str) (t : GTerm) (ls : List Link) (trail : Str)
    (hlead : isWs lead) (ht : t.Wf) (hls : ∀ l ∈ ls, l.Wf) (htr : isWs trail) :
    tokenize (renderG lead t ls trail) = t.opToks ++ t.name :: linkToks ls := by
  simp only [tokenize, renderG]
  rw [tokGo_ws_nil _ _ hlead, tokGo_term t ht, tokGo_links t.name ht.1 ls hls trail htr]

/-! ## the loop -/

/-- what the loop computes after a term has given the value `v` -/
def evalLinks (holds : GTerm → Bool) : Bool → List Link → Bool
  | v, [] => v
  | v, l :: ls =>
    match l.conn.op with
    | .or => if v || holds l.term then true else evalLinks holds false ls
    | .and => if v then evalLinks holds (holds l.term) ls else false

theorem relHolds_termHolds (cmp : Str → Str → Except Err Int) (x : Str) (t : Term) (hop : isRelop t.1) (r : Int)
    (hr : cmp x t.2 = .ok r) : relHolds t.1 r = some (termHolds cmp x t) := by
  simp only [termHolds, hr]
  rcases hop with h | h | h | h | h <;> rw [h] <;> simp [relHolds, opLt, opLe, opEq, opGe, opGt]

theorem GTerm.term_relop {t : GTerm} (ht : t.Wf) : isRelop t.term.1 := by
  obtain ⟨_, _, ho, _⟩ := ht
  cases hop : t.op with
  | none => simp only [GTerm.term, hop, Option.getD_none]; exact Or.inr (Or.inr (Or.inl rfl))
  | some o => simp only [GTerm.term, hop, Option.getD_some]; exact ho o hop

/-- one term evaluated by the loop (the "expected logical operator" case excluded) -/
theorem matchLoop_term (cmp : Str → Str → Except Err Int) (x : Str) (t : GTerm) (ht : t.Wf) (rest : List Str)
    (r : Int) (hr : cmp x t.name = .ok r) (lg : Option LogOp) (v : Option Bool) (hskip : ¬ (lg = none ∧ v.isSome = true)) :
    matchLoop cmp x (t.opToks ++ t.name :: rest) lg v =
      match lg with
      | none => matchLoop cmp x rest lg (some (termHolds cmp x t.term))
      | some .and => matchLoop cmp x rest lg (some (v == some true && termHolds cmp x t.term))
      | some .or => if v == some true || termHolds cmp x t.term then .ok true else matchLoop cmp x rest lg (some false) := by
  have hrel := relHolds_termHolds cmp x t.term (GTerm.term_relop ht) r (by simpa [GTerm.term] using hr)
  have hsk : (lg.isNone && v.isSome) = false := by
    cases lg <;> cases v <;> simp_all
  obtain ⟨hn, _, ho, hbare⟩ := ht
  cases hop : t.op with
  | some o =>
    have hro : hasRelop o = true := hasRelop_relop (ho o hop)
    simp only [GTerm.term, hop, Option.getD_some] at hrel
    simp only [GTerm.opToks, hop, List.cons_append, List.nil_append, GTerm.term, Option.getD_some]
    rw [matchLoop]
    simp only [hro, if_true, hsk, Bool.false_eq_true, if_false, matchPrim, hr, hrel]
    cases lg with
    | none => rfl
    | some g => cases g <;> simp
  | none =>
    obtain ⟨hna, hno⟩ := hbare hop
    simp only [GTerm.term, hop, Option.getD_none] at hrel
    simp only [GTerm.opToks, hop, List.nil_append, GTerm.term, Option.getD_none]
    rw [matchLoop.eq_def]
    have h1 : hasRelop t.name = false := hasRelop_name hn.2
    have h2 : plainTok t.name = true := plainTok_name hn
    have h3 : (t.name != sAnd) = true := by simpa using hna
    have h4 : (t.name != sOr) = true := by simpa using hno
    simp only [h1, Bool.false_eq_true, if_false, h2, h3, h4, Bool.and_self, if_true, hsk, matchPrim, hr, hrel]
    cases lg with
    | none => rfl
    | some g => cases g <;> simp

theorem matchLoop_conn (cmp : Str → Str → Except Err Int) (x : Str) (c : Conn) (rest : List Str)
    (lg : Option LogOp) (b : Bool) :
    matchLoop cmp x (c.str :: rest) lg (some b) =
      match c.op with
      | .or => matchLoop cmp x rest (some .or) (some b)
      | .and => if b then matchLoop cmp x rest (some .and) (some b) else .ok false := by
  cases c <;> rw [matchLoop.eq_def] <;> cases b <;>
    simp [Conn.str, Conn.op, hasRelop, plainTok, sBarBar, sOr, sAmpAmp, sAnd, Str.isAlnum, Str.isAlpha, Str.isUpper,
      Str.isLower, Str.isDigit]

theorem matchLoop_links (cmp : Str → Str → Except Err Int) (x : Str) (ls : List Link)
    (hls : ∀ l ∈ ls, l.term.Wf ∧ ∃ r, cmp x l.term.name = .ok r) (lg : Option LogOp) (b : Bool) :
    matchLoop cmp x (linkToks ls) lg (some b) = .ok (evalLinks (fun t => termHolds cmp x t.term) b ls) := by
  induction ls generalizing lg b with
  | nil => cases b <;> simp [linkToks, matchLoop, evalLinks]
  | cons l ls ih =>
    obtain ⟨hwf, r, hr⟩ := hls l (by simp)
    have hrest : ∀ l' ∈ ls, l'.term.Wf ∧ ∃ r, cmp x l'.term.name = .ok r := fun y hy => hls y (by simp [hy])
    simp only [linkToks, evalLinks]
    rw [matchLoop_conn]
    cases hc : l.conn.op with
    | or =>
      simp only
      rw [matchLoop_term cmp x l.term hwf _ r hr (some .or) (some b) (by simp)]
      simp only [Option.some.injEq, beq_iff_eq]
      by_cases h : (b || termHolds cmp x l.term.term) = true
      · have : ((some b == some true) || termHolds cmp x l.term.term) = true := by cases b <;> simp_all
        simp [this, h]
      · have : ((some b == some true) || termHolds cmp x l.term.term) = false := by cases b <;> simp_all
        simp only [this, Bool.false_eq_true, if_false, h]
        exact ih hrest _ _
    | and =>
      simp only
      cases b with
      | false => simp
      | true =>
        simp only [if_true]
        rw [matchLoop_term cmp x l.term hwf _ r hr (some .and) (some true) (by simp)]
        simp only [beq_self_eq_true, Bool.true_and]
        exact ih hrest _ _

/-- **`version_match` on a chain, whatever the spacing and the spelling of the operators**: the value of
the first term carried through the operators from left to right -/
theorem versionMatch_renderG (cmp : Str → Str → Except Err Int) (x lead : Str) (t : GTerm) (ls : List Link) (trail : Str)
    (hlead : isWs lead) (ht : t.Wf) (hls : ∀ l ∈ ls, l.Wf) (htr : isWs trail)
    (hcmp : ∀ y ∈ t :: ls.map Link.term, ∃ r, cmp x y.name = .ok r) :
    matchLoop cmp x (tokenize (renderG lead t ls trail)) none none =
      .ok (evalLinks (fun t => termHolds cmp x t.term) (termHolds cmp x t.term) ls) := by
  rw [tokenize_renderG lead t ls trail hlead ht hls htr]
  obtain ⟨r, hr⟩ := hcmp t (by simp)
  rw [matchLoop_term cmp x t ht _ r hr none none (by simp)]
  exact matchLoop_links cmp x ls
    (fun l hl => ⟨(hls l hl).2.2.1, hcmp l.term (by simp only [List.mem_cons, List.mem_map]; exact Or.inr ⟨l, hl, rfl⟩)⟩) _ _

/-! ## what the loop computes, in closed form -/

def Link.isOr (l : Link) : Prop := l.conn.op = .or
def Link.isAnd (l : Link) : Prop := l.conn.op = .and

/-- `||` links only: a disjunction -/
theorem evalLinks_or (holds : GTerm → Bool) (v : Bool) (os : List Link) (hos : ∀ l ∈ os, l.isOr) :
    evalLinks holds v os = (v || os.any (fun l => holds l.term)) := by
  induction os generalizing v with
  | nil => simp [evalLinks]
  | cons l ls ih =>
    have h : l.conn.op = .or := hos l (by simp)
    simp only [evalLinks, h, List.any_cons]
    rw [ih false (fun y hy => hos y (by simp [hy]))]
    cases v <;> cases holds l.term <;> simp

/-- `||` links, then nothing or an `&&` link: whatever follows that `&&` is never looked at -/
theorem evalLinks_or_then_and (holds : GTerm → Bool) (v : Bool) (os rest : List Link) (hos : ∀ l ∈ os, l.isOr)
    (hne : os ≠ []) (hrest : ∀ l ∈ rest.head?, l.isAnd) :
    evalLinks holds v (os ++ rest) = (v || os.any (fun l => holds l.term)) := by
  induction os generalizing v with
  | nil => exact absurd rfl hne
  | cons l ls ih =>
    have h : l.conn.op = .or := hos l (by simp)
    simp only [List.cons_append, evalLinks, h, List.any_cons]
    by_cases hl : ls = []
    · subst hl
      simp only [List.nil_append, List.any_nil, Bool.or_false]
      cases rest with
      | nil => cases v <;> cases holds l.term <;> simp [evalLinks]
      | cons a as =>
        have ha : a.conn.op = .and := hrest a (by simp)
        cases v <;> cases holds l.term <;> simp [evalLinks, ha]
    · rw [ih false (fun y hy => hos y (by simp [hy])) hl]
      cases v <;> cases holds l.term <;> simp

/-- `&&` links first: every term before the last `&&`-term must hold, and the last one starts what follows -/
theorem evalLinks_and (holds : GTerm → Bool) (v : Bool) (as rest : List Link) (has : ∀ l ∈ as, l.isAnd) :
    evalLinks holds v (as ++ rest) =
      match as.getLast? with
      | none => evalLinks holds v rest
      | some z => (v && as.dropLast.all (fun l => holds l.term)) && evalLinks holds (holds z.term) rest := by
  induction as generalizing v with
  | nil => simp
  | cons l ls ih =>
    have h : l.conn.op = .and := has l (by simp)
    simp only [List.cons_append, evalLinks, h]
    cases v with
    | false => cases hh : (l :: ls).getLast? <;> simp_all
    | true =>
      simp only [if_true, Bool.true_and]
      rw [ih (holds l.term) (fun y hy => has y (by simp [hy]))]
      cases ls with
      | nil => simp
      | cons m ms =>
        simp only [List.getLast?_cons_cons, List.dropLast_cons_cons, List.all_cons]
        cases hh : (m :: ms).getLast? with
        | none => simp at hh
        | some z => simp [Bool.and_assoc]

end EupsModel.VersionCmp

namespace EupsModel.VersionCmp
open EupsModel

/-! ## `isLegalRelativeVersion` on these texts -/

theorem hasRelop_append_right (a b : Str) (h : hasRelop b = true) : hasRelop (a ++ b) = true := by
  induction a with
  | nil => exact h
  | cons c cs ih => simp [hasRelop, ih]

theorem hasRelop_op_append (op rest : Str) (h : isRelop op) : hasRelop (op ++ rest) = true := by
  rcases h with rfl | rfl | rfl | rfl | rfl <;> simp [hasRelop, opLt, opLe, opEq, opGe, opGt]

theorem hasRelop_none (s : Str) (h : ∀ c ∈ s, c ≠ 60 ∧ c ≠ 61 ∧ c ≠ 62) : hasRelop s = false := by
  induction s with
  | nil => rfl
  | cons c cs ih =>
    obtain ⟨h1, h2, h3⟩ := h c (by simp)
    simp [hasRelop, h1, h2, h3, ih (fun x hx => h x (by simp [hx]))]

theorem hasRelop_term (t : GTerm) (o : Str) (ho : t.op = some o) (hr : isRelop o) (rest : Str) :
    hasRelop (t.render ++ rest) = true := by
  simp only [GTerm.render, GTerm.opText, ho, List.append_assoc]
  exact hasRelop_op_append o _ hr

theorem hasRelop_links (ls : List Link) (l : Link) (hl : l ∈ ls) (o : Str) (ho : l.term.op = some o) (hr : isRelop o)
    (rest : Str) : hasRelop (renderLinks ls ++ rest) = true := by
  induction ls with
  | nil => simp at hl
  | cons a as ih =>
    simp only [renderLinks, List.append_assoc]
    apply hasRelop_append_right; apply hasRelop_append_right; apply hasRelop_append_right
    rcases List.mem_cons.mp hl with rfl | hl
    · exact hasRelop_term _ o ho hr _
    · exact hasRelop_append_right _ _ (ih hl)

/-- a chain with an explicit operator somewhere is recognised as a relational request -/
theorem legal_renderG (lead : Str) (t : GTerm) (ls : List Link) (trail : Str)
    (y : GTerm) (hy : y ∈ t :: ls.map Link.term) (o : Str) (ho : y.op = some o) (hr : isRelop o) :
    isLegalRelativeVersion (renderG lead t ls trail) = .relational := by
  have : hasRelop (renderG lead t ls trail) = true := by
    simp only [renderG]
    apply hasRelop_append_right
    rcases List.mem_cons.mp hy with rfl | hy
    · exact hasRelop_term _ o ho hr _
    · obtain ⟨l, hl, rfl⟩ := List.mem_map.mp hy
      exact hasRelop_append_right _ _ (hasRelop_links ls l hl o ho hr _)
  simp [isLegalRelativeVersion, this]

theorem nameChar_not_rel {c : Nat} (h : nameChar c = true) : c ≠ 60 ∧ c ≠ 61 ∧ c ≠ 62 := by
  obtain ⟨_, h1, h2, h3, _⟩ := nameChar_plain h
  exact ⟨h1, h2, h3⟩

theorem dropWhile_isSpace_ws (w rest : Str) (hw : isWs w) (hr : ∀ c ∈ rest.head?, Str.isSpace c = false) :
    (w ++ rest).dropWhile Str.isSpace = rest := by
  induction w with
  | nil =>
    cases rest with
    | nil => rfl
    | cons a as => simp [List.dropWhile, hr a (by simp)]
  | cons c cs ih =>
    simp only [List.cons_append, List.dropWhile, hw c (by simp)]
    exact ih (fun x hx => hw x (by simp [hx]))

theorem takeWhile_isSpace_ws (w rest : Str) (hw : isWs w) (hne : w ≠ []) :
    (w ++ rest).takeWhile Str.isSpace ≠ [] := by
  cases w with
  | nil => exact absurd rfl hne
  | cons c cs => simp [List.takeWhile, hw c (by simp)]

/-- a well-formed name is a plain version, not a request -/
theorem legal_name (v : Str) (hv : wfName v) : isLegalRelativeVersion v = .plain := by
  have h1 : hasRelop v = false := hasRelop_name hv.2
  obtain ⟨hne, hc⟩ := hv
  cases v with
  | nil => exact absurd rfl hne
  | cons a as =>
    obtain ⟨hs, _, h61, _, _⟩ := nameChar_plain (hc a (by simp))
    have : badRelop (a :: as) = false := by
      simp only [badRelop, List.dropWhile, hs]
      split
      · rename_i heq; simp only [List.cons.injEq] at heq; exact absurd heq.1 h61
      · rfl
    simp [isLegalRelativeVersion, h1, this]

/-- blanks, a single `=`, at least one blank, a name: refused ("did you mean '=='?") -/
theorem legal_single_equals (lead gap v : Str) (hl : isWs lead) (hg : isWs gap) (hgne : gap ≠ []) (hv : wfName v) :
    isLegalRelativeVersion (lead ++ 61 :: (gap ++ v)) = .badSyntax := by
  have hnr : hasRelop (lead ++ 61 :: (gap ++ v)) = false := by
    have hws : ∀ w : Str, isWs w → ∀ c ∈ w, c ≠ 60 ∧ c ≠ 61 ∧ c ≠ 62 := by
      intro w hw c hc
      have := hw c hc
      simp only [Str.isSpace, Bool.or_eq_true, beq_iff_eq, Bool.and_eq_true, decide_eq_true_eq] at this
      omega
    have hsplit : ∀ a b : Str, hasRelop b = false → (∀ c ∈ a, c ≠ 60 ∧ c ≠ 61 ∧ c ≠ 62) → hasRelop (a ++ b) = false := by
      intro a b hb ha
      induction a with
      | nil => exact hb
      | cons c cs ih =>
        obtain ⟨h1, h2, h3⟩ := ha c (by simp)
        simp [hasRelop, h1, h2, h3, ih (fun x hx => ha x (by simp [hx]))]
    apply hsplit _ _ _ (hws lead hl)
    have hrest : hasRelop (gap ++ v) = false := hsplit _ _ (hasRelop_name hv.2) (hws gap hg)
    have hhead : (gap ++ v).head? ≠ some 61 := by
      have := head?_ws_name_ne gap v [] hg hv
      simpa using this
    simp only [hasRelop, hrest, Bool.or_false]
    cases h : (gap ++ v).head? with
    | none => simp
    | some z => rw [h] at hhead; simp at hhead ⊢; exact hhead
  have hbad : badRelop (lead ++ 61 :: (gap ++ v)) = true := by
    have hd : (lead ++ 61 :: (gap ++ v)).dropWhile Str.isSpace = 61 :: (gap ++ v) :=
      dropWhile_isSpace_ws lead _ hl (by intro c hc; simp at hc; subst hc; simp [Str.isSpace])
    have hvh : ∀ c ∈ v.head?, Str.isSpace c = false := by
      intro c hc
      obtain ⟨hne, hcs⟩ := hv
      cases v with
      | nil => simp at hc
      | cons a as => simp at hc; subst hc; exact (nameChar_plain (hcs _ (by simp))).1
    have hdw : (gap ++ v).dropWhile Str.isSpace = v := dropWhile_isSpace_ws gap v hg hvh
    have htw := takeWhile_isSpace_ws gap v hg hgne
    simp only [badRelop, hd, hdw]
    have : v ≠ [] := hv.1
    cases hv' : v with
    | nil => exact absurd hv' this
    | cons a as =>
      cases ht : (gap ++ a :: as).takeWhile Str.isSpace with
      | nil => rw [hv'] at htw; exact absurd ht htw
      | cons b bs => simp
  simp [isLegalRelativeVersion, hnr, hbad]

end EupsModel.VersionCmp

namespace EupsModel.VersionCmp
open EupsModel

/-! ## malformed tails: what follows a chain -/

/-- the tokeniser on a chain followed by any text `rest` whose tokens (after a version that is being
collected) are `T` -/
theorem tokGo_links_tail (rest : Str) (T : List Str) (hT : ∀ v, wfName v → tokGo 0 v.reverse rest = v :: T)
    (v : Str) (hv : wfName v) (ls : List Link) (hls : ∀ l ∈ ls, l.Wf) :
    tokGo 0 v.reverse (renderLinks ls ++ rest) = v :: (linkToks ls ++ T) := by
  induction ls generalizing v with
  | nil => simp only [renderLinks, List.nil_append, linkToks]; exact hT v hv
  | cons l ls ih =>
    obtain ⟨hpre, hpost, hterm, hword⟩ := hls l (by simp)
    have hrest := ih l.term.name hterm.1 (fun x hx => hls x (by simp [hx]))
    simp only [renderLinks, linkToks, List.append_assoc]
    have hafter : tokGo 0 [] (l.post ++ (l.term.render ++ (renderLinks ls ++ rest))) =
        l.term.opToks ++ l.term.name :: (linkToks ls ++ T) := by
      rw [tokGo_ws_nil _ _ hpost, tokGo_term l.term hterm, hrest]
    by_cases hb : l.conn = .barbar
    · have hstr : l.conn.str = sBarBar := by rw [hb]; rfl
      rw [hstr]
      by_cases hp : l.pre = []
      · rw [hp, List.nil_append, tokGo_opG sBarBar _ _ (Or.inr rfl) (by intro h; rcases h with h | h <;> cases h)]
        rw [flush_name hv, hafter]; simp
      · rw [tokGo_ws_cur _ _ _ hpre hp, flush_name hv,
          tokGo_opG sBarBar _ _ (Or.inr rfl) (by intro h; rcases h with h | h <;> cases h), hafter]
        simp [flush]
    · obtain ⟨hp, hq⟩ := hword hb
      rw [tokGo_ws_cur _ _ _ hpre hp, flush_name hv, tokGo_word _ _ _ (conn_word l.conn hb)]
      simp only [List.append_nil]
      rw [tokGo_ws_cur _ _ _ hpost hq]
      have hfl : flush l.conn.str.reverse = [l.conn.str] := by
        cases hc : l.conn <;> simp [flush, Conn.str, sOr, sAnd, sAmpAmp, sBarBar]
      rw [hfl, tokGo_term l.term hterm, hrest]
      simp

theorem tokenize_renderG_tail (lead : Str) (t : GTerm) (ls : List Link) (rest : Str) (T : List Str)
    (hlead : isWs lead) (ht : t.Wf) (hls : ∀ l ∈ ls, l.Wf)
    (hT : ∀ v, wfName v → tokGo 0 v.reverse rest = v :: T) :
    tokenize (renderG lead t ls rest) = t.opToks ++ t.name :: (linkToks ls ++ T) := by
  simp only [tokenize, renderG]
  rw [tokGo_ws_nil _ _ hlead, tokGo_term t ht, tokGo_links_tail rest T hT t.name ht.1 ls hls]

/-- the loop through the links, then whatever the rest of the tokens makes of the state reached -/
def evalLinksK (holds : GTerm → Bool) (k : Option LogOp → Bool → Except Err Bool) :
    Option LogOp → Bool → List Link → Except Err Bool
  | lg, v, [] => k lg v
  | _, v, l :: ls =>
    match l.conn.op with
    | .or => if v || holds l.term then .ok true else evalLinksK holds k (some .or) false ls
    | .and => if v then evalLinksK holds k (some .and) (holds l.term) ls else .ok false

theorem matchLoop_linksK (cmp : Str → Str → Except Err Int) (x : Str) (ls : List Link) (tail : List Str)
    (hls : ∀ l ∈ ls, l.term.Wf ∧ ∃ r, cmp x l.term.name = .ok r) (lg : Option LogOp) (b : Bool) :
    matchLoop cmp x (linkToks ls ++ tail) lg (some b) =
      evalLinksK (fun t => termHolds cmp x t.term) (fun lg v => matchLoop cmp x tail lg (some v)) lg b ls := by
  induction ls generalizing lg b with
  | nil => simp [linkToks, evalLinksK]
  | cons l ls ih =>
    obtain ⟨hwf, r, hr⟩ := hls l (by simp)
    have hrest : ∀ l' ∈ ls, l'.term.Wf ∧ ∃ r, cmp x l'.term.name = .ok r := fun y hy => hls y (by simp [hy])
    simp only [linkToks, evalLinksK, List.cons_append, List.append_assoc]
    rw [matchLoop_conn]
    cases hc : l.conn.op with
    | or =>
      simp only
      rw [matchLoop_term cmp x l.term hwf _ r hr (some .or) (some b) (by simp)]
      simp only [Option.some.injEq, beq_iff_eq]
      by_cases h : (b || termHolds cmp x l.term.term) = true
      · have : ((some b == some true) || termHolds cmp x l.term.term) = true := by cases b <;> simp_all
        simp [this, h]
      · have : ((some b == some true) || termHolds cmp x l.term.term) = false := by cases b <;> simp_all
        simp only [this, Bool.false_eq_true, if_false, h]
        exact ih hrest _ _
    | and =>
      simp only
      cases b with
      | false => simp
      | true =>
        simp only [if_true]
        rw [matchLoop_term cmp x l.term hwf _ r hr (some .and) (some true) (by simp)]
        simp only [beq_self_eq_true, Bool.true_and]
        exact ih hrest _ _

theorem evalLinksK_or (holds : GTerm → Bool) (k : Option LogOp → Bool → Except Err Bool) (lg : Option LogOp) (v : Bool)
    (os : List Link) (hos : ∀ l ∈ os, l.isOr) :
    evalLinksK holds k lg v os =
      if os = [] then k lg v
      else if v || os.any (fun l => holds l.term) then .ok true else k (some .or) false := by
  induction os generalizing lg v with
  | nil => simp [evalLinksK]
  | cons l ls ih =>
    have h : l.conn.op = .or := hos l (by simp)
    simp only [evalLinksK, h, List.any_cons, reduceCtorEq, if_false]
    rw [ih (some .or) false (fun y hy => hos y (by simp [hy]))]
    by_cases hl : ls = []
    · subst hl
      by_cases hh : holds l.term = true
      · cases v <;> simp [hh]
      · cases v <;> simp [hh]
    · by_cases hh : holds l.term = true
      · cases v <;> simp [hh, hl]
      · cases v <;> simp [hh, hl]

/-- a term where a logical operator is expected ("Expected logical operator || or &&"): skipped, not even compared -/
theorem matchLoop_term_skip (cmp : Str → Str → Except Err Int) (x : Str) (t : GTerm) (ht : t.Wf) (rest : List Str) (b : Bool) :
    matchLoop cmp x (t.opToks ++ t.name :: rest) none (some b) = matchLoop cmp x rest none (some b) := by
  obtain ⟨hn, _, ho, hbare⟩ := ht
  cases hop : t.op with
  | some o =>
    have hro : hasRelop o = true := hasRelop_relop (ho o hop)
    simp only [GTerm.opToks, hop, List.cons_append, List.nil_append]
    rw [matchLoop]
    simp [hro]
  | none =>
    obtain ⟨hna, hno⟩ := hbare hop
    simp only [GTerm.opToks, hop, List.nil_append]
    rw [matchLoop.eq_def]
    have h1 : hasRelop t.name = false := hasRelop_name hn.2
    have h2 : plainTok t.name = true := plainTok_name hn
    have h3 : (t.name != sAnd) = true := by simpa using hna
    have h4 : (t.name != sOr) = true := by simpa using hno
    simp [h1, h2, h3, h4]

/-- a relational operator that is the last token -/
theorem matchLoop_dangling (cmp : Str → Str → Except Err Int) (x op : Str) (hop : isRelop op) (lg : Option LogOp) (v : Option Bool) :
    matchLoop cmp x [op] lg v = .error .indexError := by
  rw [matchLoop]; simp [hasRelop_relop hop]

/-- a token that is neither a term nor an operator ("Unexpected operator"): the loop stops with the value reached -/
theorem matchLoop_junk (cmp : Str → Str → Except Err Int) (x junk : Str) (rest : List Str)
    (h1 : hasRelop junk = false) (h2 : plainTok junk = false) (h3 : junk ≠ sBarBar) (h4 : junk ≠ sAmpAmp)
    (lg : Option LogOp) (b : Bool) :
    matchLoop cmp x (junk :: rest) lg (some b) = .ok b := by
  rw [matchLoop.eq_def]
  have h5 : junk ≠ sOr := by intro e; subst e; simp [plainTok, sOr, Str.isAlnum, Str.isAlpha, Str.isLower, Str.isUpper, Str.isDigit] at h2
  have h6 : junk ≠ sAnd := by intro e; subst e; simp [plainTok, sAnd, Str.isAlnum, Str.isAlpha, Str.isLower, Str.isUpper, Str.isDigit] at h2
  cases b <;> simp [h1, h2, h3, h4, h5, h6]

/-- tokens of `blanks op blanks` after a version -/
theorem tokGo_dangling (trail op trail2 : Str) (ht : isWs trail) (hop : isRelop op) (ht2 : isWs trail2)
    (v : Str) (hv : wfName v) : tokGo 0 v.reverse (trail ++ (op ++ trail2)) = v :: [op] := by
  have hnext : (op = opLt ∨ op = opGt) → trail2.head? ≠ some 61 := by
    intro _
    cases trail2 with
    | nil => simp
    | cons c cs =>
      have := ht2 c (by simp)
      simp only [List.head?_cons, ne_eq, Option.some.injEq]
      intro e; subst e; simp [Str.isSpace] at this
  have hend : tokGo 0 [] trail2 = [] := by
    have := tokGo_ws_nil trail2 [] ht2
    simpa [tokGo] using this
  by_cases hp : trail = []
  · subst hp
    rw [List.nil_append, tokGo_opG op _ _ (Or.inl hop) hnext, flush_name hv, hend]; rfl
  · rw [tokGo_ws_cur _ _ _ ht hp, flush_name hv, tokGo_opG op _ _ (Or.inl hop) hnext, hend]; simp [flush]

/-- tokens of `blanks junk blanks more` after a version -/
theorem tokGo_junk (w1 junk w2 more : Str) (h1 : isWs w1) (hne1 : w1 ≠ []) (hj : ∀ c ∈ junk, wordChar c) (hjne : junk ≠ [])
    (h2 : isWs w2) (hne2 : w2 ≠ []) (v : Str) (hv : wfName v) :
    tokGo 0 v.reverse (w1 ++ (junk ++ (w2 ++ more))) = v :: (junk :: tokenize more) := by
  rw [tokGo_ws_cur _ _ _ h1 hne1, flush_name hv, tokGo_word _ _ _ hj]
  simp only [List.append_nil]
  rw [tokGo_ws_cur _ _ _ h2 hne2]
  have : flush junk.reverse = [junk] := by
    have hr : junk.reverse ≠ [] := by simpa using hjne
    cases h : junk.reverse with
    | nil => exact absurd h hr
    | cons a as => simp only [flush, List.isEmpty_cons, Bool.false_eq_true, if_false]; rw [← h]; simp
  rw [this]; simp [tokenize]

/-- tokens of `blanks term blanks` after a version -/
theorem tokGo_juxt (w1 : Str) (t2 : GTerm) (trail : Str) (h1 : isWs w1) (hne1 : w1 ≠ []) (ht2 : t2.Wf) (htr : isWs trail)
    (v : Str) (hv : wfName v) :
    tokGo 0 v.reverse (w1 ++ (t2.render ++ trail)) = v :: (t2.opToks ++ [t2.name]) := by
  rw [tokGo_ws_cur _ _ _ h1 hne1, flush_name hv, tokGo_term t2 ht2]
  have := tokGo_links t2.name ht2.1 [] (by simp) trail htr
  simp only [renderLinks, List.nil_append, linkToks] at this
  rw [this]; simp

end EupsModel.VersionCmp
