import EupsModel.Lemmas.VroCmd
import EupsModel.Lemmas.VroPretagAny
/-! The complete reading of the VRO `selectVRO` builds (default configuration) for a request that names no version:
the -t tags in command-line order, then the -T tags in command-line order, then `current`. -/
namespace EupsModel.Vro

/-- the entry says "continue" whatever follows it on the VRO -/
def Skips (C : Ctx) (r : Req) (e : Str) : Prop := ∀ post, lookupEntry C r e post = .ok .skip

/-- the entry's answer does not depend on what follows it on the VRO -/
def Indep (C : Ctx) (r : Req) (e : Str) : Prop := ∀ post post', lookupEntry C r e post = lookupEntry C r e post'

theorem Skips.indep {C : Ctx} {r : Req} {e : Str} (h : Skips C r e) : Indep C r e := by
  intro p p'; rw [h p, h p']

theorem indep_tagEntry {C : Ctx} {r : Req} {e key : Str} (h : IsTagEntry C e key) : Indep C r e := by
  intro p p'; rw [lookupEntry_tagKey p h, lookupEntry_tagKey p' h]

/-- the first tag of the list that designates a version (`key t` = the name the chain records of `t` are kept under) -/
def firstDesignating (C : Ctx) (r : Req) (key : Str → Str) : List Str → Option Hit
  | [] => none
  | t :: ts =>
    match lookupTag C.db (key t) r.name r.flavor with
    | some p => some ⟨p, t, t⟩
    | none => firstDesignating C r key ts

theorem walk_tags (C : Ctx) (r : Req) (key : Str → Str) (l : List Str) (h : ∀ t ∈ l, IsTagEntry C t (key t)) :
    walk C r l = .ok (firstDesignating C r key l) := by
  induction l with
  | nil => rfl
  | cons t ts ih =>
    have ht := h t (by simp)
    unfold firstDesignating
    cases hl : lookupTag C.db (key t) r.name r.flavor with
    | none =>
      have : lookupEntry C r t ts = .ok .skip := by rw [lookupEntry_tagKey ts ht, hl]
      rw [walk_cons_skip this]
      exact ih (fun x hx => h x (List.mem_cons_of_mem _ hx))
    | some p =>
      have : lookupEntry C r t ts = .ok (.hit p t) := by rw [lookupEntry_tagKey ts ht, hl]
      rw [walk_cons_hit this]

/-- the walk's step, with the entry's answer taken at any continuation -/
theorem walk_cons_indep {C : Ctx} {r : Req} {e : Str} (hi : Indep C r e) (rest rest' : List Str)
    (h : lookupEntry C r e [] = .ok .skip → walk C r rest = walk C r rest') :
    walk C r (e :: rest) = walk C r (e :: rest') := by
  have h1 := hi rest []
  have h2 := hi rest' []
  cases ho : lookupEntry C r e [] with
  | error err => rw [walk_cons_error (h1.trans ho), walk_cons_error (h2.trans ho)]
  | ok o =>
    cases o with
    | skip => rw [walk_cons_skip (h1.trans ho), walk_cons_skip (h2.trans ho)]; exact h ho
    | abort => rw [walk_cons_abort (h1.trans ho), walk_cons_abort (h2.trans ho)]
    | hit p reason => rw [walk_cons_hit (h1.trans ho), walk_cons_hit (h2.trans ho)]

/-- entries that always say "continue" can be struck from the VRO -/
theorem walk_filter_skips (C : Ctx) (r : Req) (sk : Str → Bool) (l : List Str)
    (hs : ∀ e ∈ l, sk e = true → Skips C r e) (hi : ∀ e ∈ l, sk e = false → Indep C r e) :
    walk C r l = walk C r (l.filter (fun e => !sk e)) := by
  induction l with
  | nil => rfl
  | cons e rest ih =>
    have ih' := ih (fun x hx => hs x (List.mem_cons_of_mem _ hx)) (fun x hx => hi x (List.mem_cons_of_mem _ hx))
    cases hsk : sk e with
    | true =>
      simp only [List.filter_cons, hsk, Bool.not_true, Bool.false_eq_true, if_false]
      rw [walk_cons_skip (hs e (by simp) hsk rest)]
      exact ih'
    | false =>
      simp only [List.filter_cons, hsk, Bool.not_false, if_true]
      exact walk_cons_indep (hi e (by simp) hsk) _ _ (fun _ => ih')

/-- a repeated entry can be struck from the VRO (`dedupe`): when the walk reaches the repetition, the first
occurrence has said "continue", and so does the repetition -/
theorem walk_dedupe (C : Ctx) (r : Req) (l : List Str) (hnw : NoWarn l) (hi : ∀ e ∈ l, Indep C r e) (seen : List Str)
    (hseen : ∀ e ∈ seen, e ∈ l → lookupEntry C r e [] = .ok .skip) :
    walk C r (dedupe seen l) = walk C r l := by
  induction l generalizing seen with
  | nil => rfl
  | cons e rest ih =>
    obtain ⟨he, hr⟩ := noWarn_cons.mp hnw
    have hie := hi e (by simp)
    have hir : ∀ x ∈ rest, Indep C r x := fun x hx => hi x (List.mem_cons_of_mem _ hx)
    rw [dedupe_cons_noWarn he]
    by_cases hs : seen.contains e = true
    · simp only [hs, if_true]
      have hmem : e ∈ seen := by simpa using hs
      have hsk : lookupEntry C r e rest = .ok .skip := (hie rest []).trans (hseen e hmem (by simp))
      rw [walk_cons_skip hsk]
      exact ih hr hir seen (fun x hx hxr => hseen x hx (List.mem_cons_of_mem _ hxr))
    · simp only [hs, Bool.false_eq_true, if_false]
      apply walk_cons_indep hie
      intro hsk
      apply ih hr hir (e :: seen)
      intro x hx hxr
      rcases List.mem_cons.mp hx with rfl | hx
      · exact hsk
      · exact hseen x hx (List.mem_cons_of_mem _ hxr)

/-- the words of the default VRO that are not tags, for a request that names no version and with nothing set up -/
def fixedSkip (e : Str) : Bool :=
  e == kKeep || e == kTypeExact || e == kCommandLine || e == kVersion || e == kVersionExpr

theorem skips_fixed {C : Ctx} {r : Req} (hr : r.already = none) (hn : r.named = none) (_h : True ∨ True)
    {e : Str} (he : e = kTypeExact ∨ e = kCommandLine ∨ e = kVersion ∨ e = kVersionExpr) : Skips C r e := by
  intro post
  rcases he with rfl | rfl | rfl | rfl
  · simp [lookupEntry, show (kTypeExact == kPath) = false by decide,
      show (kTypeExact == kKeep) = false by decide, show (kTypeExact == kCommandLine) = false by decide,
      show isVT kTypeExact = false by decide, show isWarn kTypeExact = false by decide,
      tagKey_typeExact C, show colon ∈ kTypeExact by decide, show isType kTypeExact = true by decide]
  · simp [lookupEntry, show (kCommandLine == kPath) = false by decide,
      show (kCommandLine == kKeep) = false by decide, hr]
  · rw [lookupEntry_vt (by decide), hn]
  · rw [lookupEntry_vt (by decide), hn]

theorem skips_keep {C : Ctx} {r : Req} (hr : r.already = none) (hdepth : 0 < r.depth) : Skips C r kKeep := by
  intro post
  simp [lookupEntry, show (kKeep == kPath) = false by decide, hdepth, hr]

theorem fixedSkip_goodTag {c : VroCfg} {t : Str} (g : GoodTag c t) : fixedSkip t = false := by
  have h1 := g.ne_pseudo (k := kKeep) (by decide)
  have h3 := g.ne_pseudo (k := kCommandLine) (by decide)
  have h4 := g.ne_pseudo (k := kVersion) (by decide)
  have h5 := g.ne_pseudo (k := kVersionExpr) (by decide)
  have h2 : t ≠ kTypeExact := by
    intro h; have := g.noColon; rw [h] at this; revert this; decide
  simp [fixedSkip, h1, h2, h3, h4, h5]

theorem filter_fixed_placed {c : VroCfg} (keep : Bool) {tags post : List Str}
    (ht : ∀ t ∈ tags, GoodTag c t) (hp : ∀ t ∈ post, GoodTag c t) (hc : GoodTag c kCurrent) :
    (placed keep tags post).filter (fun e => !fixedSkip e) = tags ++ post ++ [kCurrent] := by
  have hid : ∀ l : List Str, (∀ t ∈ l, GoodTag c t) → l.filter (fun e => !fixedSkip e) = l := by
    intro l hl
    apply List.filter_eq_self.mpr
    intro x hx
    simp [fixedSkip_goodTag (hl x hx)]
  have hk : (keepPart keep).filter (fun e => !fixedSkip e) = [] := by
    cases keep <;> simp [keepPart, fixedSkip]
  have hcur : fixedSkip kCurrent = false := fixedSkip_goodTag hc
  simp only [placed, List.filter_append, hk, hid tags ht, hid post hp, List.nil_append]
  have hcur' : ¬kCurrent = kKeep ∧ ¬kCurrent = kTypeExact ∧ ¬kCurrent = kCommandLine ∧ ¬kCurrent = kVersion ∧
      ¬kCurrent = kVersionExpr := by decide
  simp [fixedSkip, hcur',
    show (kTypeExact == kKeep) = false by decide, show (kCommandLine == kKeep) = false by decide,
    show (kCommandLine == kTypeExact) = false by decide, show (kVersion == kKeep) = false by decide,
    show (kVersion == kTypeExact) = false by decide, show (kVersion == kCommandLine) = false by decide,
    show (kVersionExpr == kKeep) = false by decide, show (kVersionExpr == kTypeExact) = false by decide,
    show (kVersionExpr == kCommandLine) = false by decide, show (kVersionExpr == kVersion) = false by decide]

/-- A request that names no version is answered by the FIRST of: the -t tags in command-line order, then the -T tags in
command-line order, then `current` — the first of them that designates a version of the product; nothing else on the VRO
`selectVRO` built can answer (keep / exact / inexact / -r / -z in any combination; tags of any kind).  `hkeep`: with
`--keep` at the top level the `keep` entry is looked up as a tag named `keep` — excluded. -/
theorem unversioned_request_reads_tags_in_order (c : VroCfg) (a : VroArgs) (d : DefaultCfg c)
    (ht : ∀ t ∈ a.tags, GoodTag c t) (hp : ∀ t ∈ a.postTags, GoodTag c t)
    (out : VroOut) (hsel : selectVRO c a = .ok out)
    (C : Ctx) (r : Req) (hr : r.already = none) (hn : r.named = none)
    (hkeep : c.keep = false ∨ 0 < r.depth)
    (key : Str → Str) (htag : ∀ t ∈ a.tags ++ a.postTags ++ [kCurrent], IsTagEntry C t (key t)) :
    find C r out.vro = .ok (firstDesignating C r key (a.tags ++ a.postTags ++ [kCurrent])) := by
  rw [selectVRO_default_eq c d a ht hp] at hsel
  cases hsel
  simp only
  rw [find_eq_walk _ hr]
  have hc := goodTag_current d
  have hnw := noWarn_placed (keep := c.keep) ht hp
  -- every entry of `placed` either always skips (the fixed words) or is a tag entry
  have hcls : ∀ e ∈ placed c.keep a.tags a.postTags,
      (fixedSkip e = true → Skips C r e) ∧ (fixedSkip e = false → Indep C r e) := by
    intro e he
    rcases mem_placed he with h | h | h | h
    · simp only [fixedWords, List.mem_cons, List.not_mem_nil, or_false] at h
      have hE : e ∈ placed c.keep a.tags a.postTags := he
      rcases h with rfl | rfl | rfl | rfl | rfl | rfl | rfl
      · -- keep: only present when c.keep
        have hk : c.keep = true := by
          cases hkk : c.keep
          · exfalso
            rw [hkk] at hE
            simp only [placed, keepPart, Bool.false_eq_true, if_false, List.nil_append, List.mem_append, List.mem_cons,
              List.not_mem_nil, or_false] at hE
            rcases hE with (((h | h) | h) | h) | h
            · rcases h with h | h <;> revert h <;> decide
            · exact (ht _ h).ne_pseudo (k := kKeep) (by decide) rfl
            · rcases h with h | h <;> revert h <;> decide
            · exact (hp _ h).ne_pseudo (k := kKeep) (by decide) rfl
            · revert h; decide
          · rfl
        have hdep : 0 < r.depth := by
          rcases hkeep with h | h
          · rw [hk] at h; cases h
          · exact h
        exact ⟨fun _ => skips_keep hr hdep, fun h => by simp [fixedSkip] at h⟩
      · exact ⟨fun _ => skips_fixed hr hn (Or.inl trivial) (Or.inl rfl), fun h => by simp [fixedSkip] at h⟩
      · exact ⟨fun _ => skips_fixed hr hn (Or.inl trivial) (Or.inr (Or.inl rfl)), fun h => by simp [fixedSkip] at h⟩
      · exact ⟨fun _ => skips_fixed hr hn (Or.inl trivial) (Or.inr (Or.inr (Or.inl rfl))), fun h => by simp [fixedSkip] at h⟩
      · exact ⟨fun _ => skips_fixed hr hn (Or.inl trivial) (Or.inr (Or.inr (Or.inr rfl))), fun h => by simp [fixedSkip] at h⟩
      · exact absurd (hnw _ hE) (by decide)
      · exfalso
        -- version! is not in `placed`
        simp only [placed, List.mem_append, List.mem_cons, List.not_mem_nil, or_false] at hE
        rcases hE with ((((h | h) | h) | h) | h) | h
        · cases hkk : c.keep <;> simp [keepPart, hkk] at h
          revert h; decide
        · rcases h with h | h <;> revert h <;> decide
        · exact (ht _ h).ne_pseudo (k := kVersionBang) (by decide) rfl
        · rcases h with h | h <;> revert h <;> decide
        · exact (hp _ h).ne_pseudo (k := kVersionBang) (by decide) rfl
        · revert h; decide
    · have g := ht e h
      exact ⟨fun hf => (by rw [fixedSkip_goodTag g] at hf; cases hf),
        fun _ => indep_tagEntry (htag e (by simp [h]))⟩
    · have g := hp e h
      exact ⟨fun hf => (by rw [fixedSkip_goodTag g] at hf; cases hf),
        fun _ => indep_tagEntry (htag e (by simp [h]))⟩
    · subst h
      exact ⟨fun hf => (by rw [fixedSkip_goodTag hc] at hf; cases hf),
        fun _ => indep_tagEntry (htag kCurrent (by simp))⟩
  have hindep : ∀ e ∈ placed c.keep a.tags a.postTags, Indep C r e := by
    intro e he
    cases hf : fixedSkip e
    · exact (hcls e he).2 hf
    · exact ((hcls e he).1 hf).indep
  -- (1) the inexact filter strikes `type:exact`, which skips
  have h1 : walk C r (inexF a.inexact (dedupe [] (placed c.keep a.tags a.postTags)))
      = walk C r (dedupe [] (placed c.keep a.tags a.postTags)) := by
    unfold inexF
    cases a.inexact
    · rfl
    · simp only [if_true]
      have := walk_filter_skips C r (fun e => e == kTypeExact) (dedupe [] (placed c.keep a.tags a.postTags))
        (by
          intro e _ he
          have : e = kTypeExact := by simpa using he
          subst this
          exact skips_fixed hr hn (Or.inl trivial) (Or.inl rfl))
        (by
          intro e he _
          exact hindep e ((mem_dedupe e [] _ hnw).mp he).1)
      exact this.symm
  -- (2) repeated entries, (3) the fixed words
  rw [h1, walk_dedupe C r _ hnw hindep [] (by intro e he; cases he),
    walk_filter_skips C r fixedSkip _ (fun e he => (hcls e he).1) (fun e he => (hcls e he).2),
    filter_fixed_placed c.keep ht hp hc]
  exact walk_tags C r key _ htag

theorem firstDesignating_append (C : Ctx) (r : Req) (key : Str → Str) (l m : List Str) :
    firstDesignating C r key (l ++ m) =
      match firstDesignating C r key l with
      | some h => some h
      | none => firstDesignating C r key m := by
  induction l with
  | nil => simp [firstDesignating]
  | cons t ts ih =>
    simp only [List.cons_append, firstDesignating]
    cases lookupTag C.db (key t) r.name r.flavor with
    | some p => rfl
    | none => exact ih

theorem firstDesignating_none_of {C : Ctx} {r : Req} {key : Str → Str} {l : List Str}
    (h : ∀ t ∈ l, lookupTag C.db (key t) r.name r.flavor = none) : firstDesignating C r key l = none := by
  induction l with
  | nil => rfl
  | cons t ts ih =>
    simp only [firstDesignating, h t (by simp)]
    exact ih (fun x hx => h x (List.mem_cons_of_mem _ hx))

/-- "Post-tags apply only when no usable version is named", the positive half: for a request that names no version, when
no -t tag designates a version, the first -T tag (in command-line order) that designates one answers; when none does,
`current` is asked. -/
theorem posttags_apply_in_order (c : VroCfg) (a : VroArgs) (d : DefaultCfg c)
    (ht : ∀ t ∈ a.tags, GoodTag c t) (hp : ∀ t ∈ a.postTags, GoodTag c t)
    (out : VroOut) (hsel : selectVRO c a = .ok out)
    (C : Ctx) (r : Req) (hr : r.already = none) (hn : r.named = none)
    (hkeep : c.keep = false ∨ 0 < r.depth)
    (key : Str → Str) (htag : ∀ t ∈ a.tags ++ a.postTags ++ [kCurrent], IsTagEntry C t (key t))
    (hpre : ∀ t ∈ a.tags, lookupTag C.db (key t) r.name r.flavor = none) :
    find C r out.vro = .ok (firstDesignating C r key (a.postTags ++ [kCurrent])) := by
  rw [unversioned_request_reads_tags_in_order c a d ht hp out hsel C r hr hn hkeep key htag,
    List.append_assoc, firstDesignating_append, firstDesignating_none_of hpre]

end EupsModel.Vro
