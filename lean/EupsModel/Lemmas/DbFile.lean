import EupsModel.Model.DbFile
import EupsModel.Lemmas.Agree
/-! Lemmas about the file level (`Model/DbFile.lean`): the blocks of the record files as a set of
(key, block) entries, what `upd` does to it, well-formedness of a file database and its preservation, and the
simulation: `abs` commutes with every effect. -/
namespace EupsModel.DbFile
open EupsModel.Db

section generic
variable {κ ρ : Type} [DecidableEq κ]

/-- one file per key, one block per flavor in a file, no file without a block -/
structure WFK (fl : ρ → Flav) (fs : List (KFile κ ρ)) : Prop where
  key : ∀ x ∈ fs, ∀ y ∈ fs, x.key = y.key → x = y
  flav : ∀ x ∈ fs, ∀ r ∈ x.recs, ∀ q ∈ x.recs, fl r = fl q → r = q
  ne : ∀ x ∈ fs, x.recs ≠ []

/-- the blocks of the file with key `k` (none when there is no such file) -/
def recsAt (fs : List (KFile κ ρ)) (k : κ) : List ρ :=
  match fs.find? (fun x => decide (x.key = k)) with
  | some x => x.recs
  | none => []

/-- `(k, r)`: the file with key `k` holds block `r` -/
def Entry (fs : List (KFile κ ρ)) (k : κ) (r : ρ) : Prop := ∃ x ∈ fs, x.key = k ∧ r ∈ x.recs

theorem entry_iff_recsAt {fl : ρ → Flav} {fs : List (KFile κ ρ)} (h : WFK fl fs) (k : κ) (r : ρ) :
    Entry fs k r ↔ r ∈ recsAt fs k := by
  unfold recsAt Entry
  cases hf : fs.find? (fun x => decide (x.key = k)) with
  | none =>
    rw [List.find?_eq_none] at hf
    constructor
    · rintro ⟨x, hx, hk, _⟩; exact absurd (by simpa using hk) (hf x hx)
    · intro h; cases h
  | some x0 =>
    have hx0 := List.mem_of_find?_eq_some hf
    have hk0 : x0.key = k := by simpa using List.find?_some hf
    constructor
    · rintro ⟨x, hx, hk, hr⟩
      have : x = x0 := h.key x hx x0 hx0 (hk.trans hk0.symm)
      exact this ▸ hr
    · intro hr; exact ⟨x0, hx0, hk0, hr⟩

theorem mem_setRec (fl : ρ → Flav) (recs : List ρ) (r0 r : ρ) :
    r ∈ setRec fl recs r0 ↔ r = r0 ∨ (r ∈ recs ∧ fl r ≠ fl r0) := by
  unfold setRec
  split
  · rename_i hany
    simp only [List.any_eq_true, decide_eq_true_eq] at hany
    obtain ⟨x0, hx0, hfx0⟩ := hany
    simp only [List.mem_map]
    constructor
    · rintro ⟨x, hx, rfl⟩
      split
      · exact Or.inl rfl
      · rename_i hne; exact Or.inr ⟨hx, hne⟩
    · rintro (rfl | ⟨hr, hne⟩)
      · exact ⟨x0, hx0, by simp [hfx0]⟩
      · exact ⟨r, hr, by simp [hne]⟩
  · rename_i hany
    simp only [List.any_eq_true, decide_eq_true_eq, not_exists, not_and] at hany
    simp only [List.mem_append, List.mem_singleton]
    constructor
    · rintro (h | h)
      · exact Or.inr ⟨h, hany r h⟩
      · exact Or.inl h
    · rintro (h | ⟨h, _⟩)
      · exact Or.inr h
      · exact Or.inl h

/-- what `upd` does to the entries: the file `k` now holds `g` of what it held, every other file is as it was -/
theorem entry_upd {fl : ρ → Flav} {fs : List (KFile κ ρ)} (h : WFK fl fs) (k : κ) (g : List ρ → List ρ)
    (k' : κ) (r : ρ) :
    Entry (upd fs k g) k' r ↔ (k' ≠ k ∧ Entry fs k' r) ∨ (k' = k ∧ r ∈ g (recsAt fs k)) := by
  unfold upd Entry
  simp only [List.mem_filter, List.mem_map]
  constructor
  · rintro ⟨y, ⟨⟨x, hx, rfl⟩, hne⟩, hk, hr⟩
    by_cases hxk : x.key = k
    · simp only [hxk, if_true] at hk hr
      refine Or.inr ⟨hk.symm, ?_⟩
      -- x is the file k of fs, or the fresh empty file
      split at hx
      · have : Entry fs k = fun r => r ∈ x.recs := by
          funext r'
          exact propext ⟨fun ⟨z, hz, hzk, hzr⟩ => (h.key z hz x hx (hzk.trans hxk.symm)) ▸ hzr,
                         fun hr' => ⟨x, hx, hxk, hr'⟩⟩
        have hrec : recsAt fs k = x.recs := by
          unfold recsAt
          cases hf : fs.find? (fun x => decide (x.key = k)) with
          | none => rw [List.find?_eq_none] at hf; exact absurd (by simpa using hxk) (hf x hx)
          | some x0 =>
            have := h.key x0 (List.mem_of_find?_eq_some hf) x hx
              ((by simpa using List.find?_some hf : x0.key = k).trans hxk.symm)
            rw [this]
        rw [hrec]; exact hr
      · rename_i hnone
        simp only [List.any_eq_true, decide_eq_true_eq, not_exists, not_and] at hnone
        simp only [List.mem_append, List.mem_singleton] at hx
        rcases hx with hx | rfl
        · exact absurd hxk (hnone x hx)
        · have hrec : recsAt fs k = [] := by
            unfold recsAt
            cases hf : fs.find? (fun x => decide (x.key = k)) with
            | none => rfl
            | some x0 =>
              exact absurd (by simpa using List.find?_some hf : x0.key = k) (hnone x0 (List.mem_of_find?_eq_some hf))
          rw [hrec]; exact hr
    · simp only [hxk, if_false] at hk hr
      refine Or.inl ⟨hk ▸ hxk, x, ?_, hk, hr⟩
      split at hx
      · exact hx
      · simp only [List.mem_append, List.mem_singleton] at hx
        rcases hx with hx | rfl
        · exact hx
        · exact absurd rfl hxk
  · rintro (⟨hne, x, hx, hk, hr⟩ | ⟨rfl, hr⟩)
    · refine ⟨x, ⟨⟨x, ?_, by simp [hk ▸ hne]⟩, ?_⟩, hk, hr⟩
      · split
        · exact hx
        · exact List.mem_append_left _ hx
      · cases hl : x.recs with
        | nil => rw [hl] at hr; cases hr
        | cons _ _ => rfl
    · -- the file k' after the update
      by_cases hany : fs.any (fun x => decide (x.key = k')) = true
      · simp only [List.any_eq_true, decide_eq_true_eq] at hany
        obtain ⟨x, hx, hxk⟩ := hany
        have hrec : recsAt fs k' = x.recs := by
          unfold recsAt
          cases hf : fs.find? (fun x => decide (x.key = k')) with
          | none => rw [List.find?_eq_none] at hf; exact absurd (by simpa using hxk) (hf x hx)
          | some x0 =>
            have := h.key x0 (List.mem_of_find?_eq_some hf) x hx
              ((by simpa using List.find?_some hf : x0.key = k').trans hxk.symm)
            rw [this]
        rw [hrec] at hr
        refine ⟨{ x with recs := g x.recs }, ⟨⟨x, ?_, by simp [hxk]⟩, ?_⟩, hxk, hr⟩
        · have : fs.any (fun x => decide (x.key = k')) = true := by
            simp only [List.any_eq_true, decide_eq_true_eq]; exact ⟨x, hx, hxk⟩
          simp [this, hx]
        · cases hl : g x.recs with
          | nil => rw [hl] at hr; cases hr
          | cons _ _ => rfl
      · have hnone : ∀ x ∈ fs, x.key ≠ k' := by
          simpa only [List.any_eq_true, decide_eq_true_eq, not_exists, not_and] using hany
        have hrec : recsAt fs k' = [] := by
          unfold recsAt
          cases hf : fs.find? (fun x => decide (x.key = k')) with
          | none => rfl
          | some x0 =>
            exact absurd (by simpa using List.find?_some hf : x0.key = k') (hnone x0 (List.mem_of_find?_eq_some hf))
        rw [hrec] at hr
        refine ⟨⟨k', g []⟩, ⟨⟨⟨k', []⟩, ?_, by simp⟩, ?_⟩, rfl, hr⟩
        · simp [hany]
        · cases hl : g ([] : List ρ) with
          | nil => rw [hl] at hr; cases hr
          | cons _ _ => rfl

/-- flavors are unique among the blocks -/
def UniqFlav (fl : ρ → Flav) (recs : List ρ) : Prop := ∀ r ∈ recs, ∀ q ∈ recs, fl r = fl q → r = q

theorem uniqFlav_setRec (fl : ρ → Flav) (recs : List ρ) (r0 : ρ) (h : UniqFlav fl recs) :
    UniqFlav fl (setRec fl recs r0) := by
  intro r hr q hq hfl
  rcases (mem_setRec fl recs r0 r).mp hr with h1 | ⟨hr, hrn⟩ <;>
    rcases (mem_setRec fl recs r0 q).mp hq with h2 | ⟨hq, hqn⟩
  · rw [h1, h2]
  · exact absurd (h1 ▸ hfl).symm hqn
  · exact absurd (h2 ▸ hfl) hrn
  · exact h r hr q hq hfl

theorem uniqFlav_filter (fl : ρ → Flav) (recs : List ρ) (p : ρ → Bool) (h : UniqFlav fl recs) :
    UniqFlav fl (recs.filter p) :=
  fun r hr q hq => h r (List.mem_filter.mp hr).1 q (List.mem_filter.mp hq).1

theorem wfk_upd {fl : ρ → Flav} {fs : List (KFile κ ρ)} (h : WFK fl fs) (k : κ) (g : List ρ → List ρ)
    (hg : ∀ recs, UniqFlav fl recs → UniqFlav fl (g recs)) : WFK fl (upd fs k g) := by
  have hsrc : ∀ x ∈ (if fs.any (fun x => decide (x.key = k)) = true then fs else fs ++ [⟨k, []⟩]),
      x ∈ fs ∨ (x = ⟨k, []⟩ ∧ ∀ z ∈ fs, z.key ≠ k) := by
    intro x hx
    split at hx
    · exact Or.inl hx
    · rename_i hnone
      simp only [List.any_eq_true, decide_eq_true_eq, not_exists, not_and] at hnone
      simp only [List.mem_append, List.mem_singleton] at hx
      rcases hx with hx | hx
      · exact Or.inl hx
      · exact Or.inr ⟨hx, hnone⟩
  have hsame : ∀ x1 x2, (x1 ∈ fs ∨ (x1 = ⟨k, []⟩ ∧ ∀ z ∈ fs, z.key ≠ k)) →
      (x2 ∈ fs ∨ (x2 = ⟨k, []⟩ ∧ ∀ z ∈ fs, z.key ≠ k)) → x1.key = x2.key → x1 = x2 := by
    intro x1 x2 h1 h2 hk
    rcases h1 with h1 | ⟨rfl, hn1⟩ <;> rcases h2 with h2 | ⟨rfl, hn2⟩
    · exact h.key x1 h1 x2 h2 hk
    · exact absurd hk (hn2 x1 h1)
    · exact absurd hk.symm (hn1 x2 h2)
    · rfl
  unfold upd
  refine ⟨?_, ?_, ?_⟩
  · intro y1 hy1 y2 hy2 hk
    simp only [List.mem_filter, List.mem_map] at hy1 hy2
    obtain ⟨⟨x1, hx1, rfl⟩, _⟩ := hy1
    obtain ⟨⟨x2, hx2, rfl⟩, _⟩ := hy2
    have hk' : x1.key = x2.key := by
      have e1 : (if x1.key = k then ({ x1 with recs := g x1.recs } : KFile κ ρ) else x1).key = x1.key := by split <;> rfl
      have e2 : (if x2.key = k then ({ x2 with recs := g x2.recs } : KFile κ ρ) else x2).key = x2.key := by split <;> rfl
      rw [e1, e2] at hk; exact hk
    rw [hsame x1 x2 (hsrc x1 hx1) (hsrc x2 hx2) hk']
  · intro y hy
    simp only [List.mem_filter, List.mem_map] at hy
    obtain ⟨⟨x, hx, rfl⟩, _⟩ := hy
    have hux : UniqFlav fl x.recs := by
      rcases hsrc x hx with hx | ⟨rfl, _⟩
      · exact h.flav x hx
      · intro r hr; cases hr
    split
    · exact hg _ hux
    · exact hux
  · intro y hy
    simp only [List.mem_filter] at hy
    intro hnil
    rw [hnil] at hy
    simp at hy

end generic

/-! ## the file database -/

structure WFF (F : FileDb) : Prop where
  v : WFK VRec.flav F.vfiles
  c : WFK CRec.flav F.cfiles

theorem wff_empty : WFF FileDb.empty := by
  refine ⟨⟨?_, ?_, ?_⟩, ⟨?_, ?_, ?_⟩⟩ <;> intro x hx <;> simp [FileDb.empty] at hx

def declK (k : Nat × Name × Ver) (r : VRec) : Decl := ⟨k.1, k.2.1, k.2.2, r.flav, resolve k.1 r.dir, r.table⟩
def tagK (k : Nat × Name × Tag) (r : CRec) : TagRec := ⟨k.1, k.2.2, k.2.1, r.flav, r.ver⟩

theorem resolve_store (s : Nat) (d : Dir) : resolve s (store s d) = d := by
  unfold store
  split
  · rename_i h; cases d; simp only [resolve]; simp at h; rw [h]
  · rfl

theorem mem_abs_decls (F : FileDb) (d : Decl) :
    d ∈ (abs F).decls ↔ ∃ k r, Entry F.vfiles k r ∧ d = declK k r := by
  simp only [abs, List.mem_flatMap, List.mem_map, Entry]
  constructor
  · rintro ⟨x, hx, r, hr, rfl⟩; exact ⟨x.key, r, ⟨x, hx, rfl, hr⟩, rfl⟩
  · rintro ⟨k, r, ⟨x, hx, rfl, hr⟩, rfl⟩; exact ⟨x, hx, r, hr, rfl⟩

theorem mem_abs_tags (F : FileDb) (t : TagRec) :
    t ∈ (abs F).tags ↔ ∃ k r, Entry F.cfiles k r ∧ t = tagK k r := by
  simp only [abs, List.mem_flatMap, List.mem_map, Entry]
  constructor
  · rintro ⟨x, hx, r, hr, rfl⟩; exact ⟨x.key, r, ⟨x, hx, rfl, hr⟩, rfl⟩
  · rintro ⟨k, r, ⟨x, hx, rfl, hr⟩, rfl⟩; exact ⟨x, hx, r, hr, rfl⟩

/-- two contents with the same declarations and the same tags -/
def SameContent (a b : Spec) : Prop := (∀ d, d ∈ a.decls ↔ d ∈ b.decls) ∧ (∀ r, r ∈ a.tags ↔ r ∈ b.tags)

theorem SameContent.refl (a : Spec) : SameContent a a := ⟨fun _ => Iff.rfl, fun _ => Iff.rfl⟩
theorem SameContent.symm {a b : Spec} (h : SameContent a b) : SameContent b a :=
  ⟨fun d => (h.1 d).symm, fun r => (h.2 r).symm⟩
theorem SameContent.trans {a b c : Spec} (h : SameContent a b) (k : SameContent b c) : SameContent a c :=
  ⟨fun d => (h.1 d).trans (k.1 d), fun r => (h.2 r).trans (k.2 r)⟩

theorem SameContent.hasDecl {a b : Spec} (h : SameContent a b) (s : Nat) (n : Name) (v : Ver) (f : Flav) :
    a.hasDecl s n v f = b.hasDecl s n v f := by
  rw [Bool.eq_iff_iff, Spec.hasDecl_iff, Spec.hasDecl_iff]
  exact ⟨fun ⟨d, hd, hk⟩ => ⟨d, (h.1 d).mp hd, hk⟩, fun ⟨d, hd, hk⟩ => ⟨d, (h.1 d).mpr hd, hk⟩⟩

/-- the version file declares the flavor iff the reader sees the declaration -/
theorem hasFlavor_iff (F : FileDb) (s : Nat) (n : Name) (v : Ver) (f : Flav) :
    hasFlavor F s n v f = (abs F).hasDecl s n v f := by
  rw [Bool.eq_iff_iff, Spec.hasDecl_iff]
  simp only [hasFlavor, List.any_eq_true, Bool.and_eq_true, decide_eq_true_eq]
  constructor
  · rintro ⟨x, hx, hk, r, hr, hf⟩
    refine ⟨declK x.key r, (mem_abs_decls F _).mpr ⟨x.key, r, ⟨x, hx, rfl, hr⟩, rfl⟩, ?_⟩
    rw [Decl.hasKey_iff]; simp [declK, hk, hf]
  · rintro ⟨d, hd, hk⟩
    obtain ⟨k, r, ⟨x, hx, hxk, hr⟩, rfl⟩ := (mem_abs_decls F d).mp hd
    have hk' := Decl.hasKey_iff.mp hk
    simp only [declK] at hk'
    refine ⟨x, hx, ?_, r, hr, hk'.2.2.2⟩
    rw [hxk]
    obtain ⟨k1, k2, k3⟩ := k
    simp only at hk'
    rw [hk'.1, hk'.2.1, hk'.2.2.1]

/-! ### the primitives against `Spec` -/

theorem abs_setV {F : FileDb} (h : WFF F) (d : Decl) :
    SameContent (abs (setV F d)) ((abs F).setDecl d) := by
  refine ⟨fun d' => ?_, fun r => by simp [abs, setV]⟩
  rw [mem_abs_decls, Spec.mem_setDecl]
  unfold setV
  dsimp only
  have hd0 : declK (d.stack, d.name, d.ver) ⟨d.flav, store d.stack d.dir, d.table⟩ = d := by
    simp only [declK, resolve_store]
  constructor
  · rintro ⟨k, r, he, rfl⟩
    rcases (entry_upd h.v _ _ k r).mp he with ⟨hne, he⟩ | ⟨rfl, hr⟩
    · refine Or.inr ⟨(mem_abs_decls F _).mpr ⟨k, r, he, rfl⟩, ?_⟩
      cases hs : (declK k r).sameKey d with
      | false => rfl
      | true =>
        exfalso
        have := Decl.sameKey_iff.mp hs
        simp only [declK] at this
        apply hne
        obtain ⟨k1, k2, k3⟩ := k
        simp only at this
        rw [this.1, this.2.1, this.2.2.1]
    · rcases (mem_setRec _ _ _ _).mp hr with rfl | ⟨hr, hfl⟩
      · exact Or.inl hd0
      · refine Or.inr ⟨(mem_abs_decls F _).mpr ⟨_, r, (entry_iff_recsAt h.v _ r).mpr hr, rfl⟩, ?_⟩
        cases hs : (declK (d.stack, d.name, d.ver) r).sameKey d with
        | false => rfl
        | true => exfalso; exact hfl (Decl.sameKey_iff.mp hs).2.2.2
  · rintro (rfl | ⟨hd', hsk⟩)
    · exact ⟨(d'.stack, d'.name, d'.ver), ⟨d'.flav, store d'.stack d'.dir, d'.table⟩,
        (entry_upd h.v _ _ _ _).mpr (Or.inr ⟨rfl, (mem_setRec _ _ _ _).mpr (Or.inl rfl)⟩), hd0.symm⟩
    · obtain ⟨k, r, he, rfl⟩ := (mem_abs_decls F d').mp hd'
      refine ⟨k, r, (entry_upd h.v _ _ k r).mpr ?_, rfl⟩
      by_cases hk : k = (d.stack, d.name, d.ver)
      · subst hk
        refine Or.inr ⟨rfl, (mem_setRec _ _ _ _).mpr (Or.inr ⟨(entry_iff_recsAt h.v _ r).mp he, ?_⟩)⟩
        intro hfl
        have : (declK (d.stack, d.name, d.ver) r).sameKey d = true := by
          rw [Decl.sameKey_iff]; exact ⟨rfl, rfl, rfl, hfl⟩
        rw [this] at hsk; cases hsk
      · exact Or.inl ⟨hk, he⟩

theorem abs_setC {F : FileDb} (h : WFF F) (s : Nat) (t : Tag) (n : Name) (f : Flav) (v : Ver) :
    SameContent (abs (setC F s t n f v)) ((abs F).setTag ⟨s, t, n, f, v⟩) := by
  refine ⟨fun d => by simp [abs, setC], fun r' => ?_⟩
  rw [mem_abs_tags, Spec.mem_setTag]
  unfold setC
  dsimp only
  have hd0 : tagK (s, n, t) ⟨f, v⟩ = ⟨s, t, n, f, v⟩ := rfl
  constructor
  · rintro ⟨k, r, he, rfl⟩
    rcases (entry_upd h.c _ _ k r).mp he with ⟨hne, he⟩ | ⟨rfl, hr⟩
    · refine Or.inr ⟨(mem_abs_tags F _).mpr ⟨k, r, he, rfl⟩, ?_⟩
      cases hs : (tagK k r).sameKey ⟨s, t, n, f, v⟩ with
      | false => rfl
      | true =>
        exfalso
        have := TagRec.sameKey_iff.mp hs
        simp only [tagK] at this
        apply hne
        obtain ⟨k1, k2, k3⟩ := k
        simp only at this
        rw [this.1, this.2.1, this.2.2.1]
    · rcases (mem_setRec _ _ _ _).mp hr with rfl | ⟨hr, hfl⟩
      · exact Or.inl hd0
      · refine Or.inr ⟨(mem_abs_tags F _).mpr ⟨_, r, (entry_iff_recsAt h.c _ r).mpr hr, rfl⟩, ?_⟩
        cases hs : (tagK (s, n, t) r).sameKey ⟨s, t, n, f, v⟩ with
        | false => rfl
        | true => exfalso; exact hfl (TagRec.sameKey_iff.mp hs).2.2.2
  · rintro (rfl | ⟨hd', hsk⟩)
    · exact ⟨(s, n, t), ⟨f, v⟩,
        (entry_upd h.c _ _ _ _).mpr (Or.inr ⟨rfl, (mem_setRec _ _ _ _).mpr (Or.inl rfl)⟩), hd0.symm⟩
    · obtain ⟨k, r, he, rfl⟩ := (mem_abs_tags F r').mp hd'
      refine ⟨k, r, (entry_upd h.c _ _ k r).mpr ?_, rfl⟩
      by_cases hk : k = (s, n, t)
      · subst hk
        refine Or.inr ⟨rfl, (mem_setRec _ _ _ _).mpr (Or.inr ⟨(entry_iff_recsAt h.c _ r).mp he, ?_⟩)⟩
        intro hfl
        have : (tagK (s, n, t) r).sameKey ⟨s, t, n, f, v⟩ = true := by
          rw [TagRec.sameKey_iff]; exact ⟨rfl, rfl, rfl, hfl⟩
        rw [this] at hsk; cases hsk
      · exact Or.inl ⟨hk, he⟩

theorem abs_delC {F : FileDb} (h : WFF F) (s : Nat) (t : Tag) (n : Name) (f : Flav) :
    SameContent (abs (fUnassign F s t n f)) ((abs F).delTag s t n f) := by
  refine ⟨fun d => by simp [abs, fUnassign], fun r' => ?_⟩
  rw [mem_abs_tags, Spec.mem_delTag]
  unfold fUnassign
  dsimp only
  constructor
  · rintro ⟨k, r, he, rfl⟩
    rcases (entry_upd h.c _ _ k r).mp he with ⟨hne, he⟩ | ⟨rfl, hr⟩
    · refine ⟨(mem_abs_tags F _).mpr ⟨k, r, he, rfl⟩, ?_⟩
      cases hs : (tagK k r).hasKey s t n f with
      | false => rfl
      | true =>
        exfalso
        have := TagRec.hasKey_iff.mp hs
        simp only [tagK] at this
        apply hne
        obtain ⟨k1, k2, k3⟩ := k
        simp only at this
        rw [this.1, this.2.1, this.2.2.1]
    · simp only [List.mem_filter, Bool.not_eq_true', decide_eq_false_iff_not] at hr
      refine ⟨(mem_abs_tags F _).mpr ⟨_, r, (entry_iff_recsAt h.c _ r).mpr hr.1, rfl⟩, ?_⟩
      cases hs : (tagK (s, n, t) r).hasKey s t n f with
      | false => rfl
      | true => exfalso; exact hr.2 (TagRec.hasKey_iff.mp hs).2.2.2
  · rintro ⟨hd', hsk⟩
    obtain ⟨k, r, he, rfl⟩ := (mem_abs_tags F r').mp hd'
    refine ⟨k, r, (entry_upd h.c _ _ k r).mpr ?_, rfl⟩
    by_cases hk : k = (s, n, t)
    · subst hk
      refine Or.inr ⟨rfl, ?_⟩
      simp only [List.mem_filter, Bool.not_eq_true', decide_eq_false_iff_not]
      refine ⟨(entry_iff_recsAt h.c _ r).mp he, ?_⟩
      intro hfl
      have : (tagK (s, n, t) r).hasKey s t n f = true := by
        rw [TagRec.hasKey_iff]; exact ⟨rfl, rfl, rfl, hfl⟩
      rw [this] at hsk; cases hsk
    · exact Or.inl ⟨hk, he⟩

/-! ### congruence of the `Spec` updates -/

theorem SameContent.setDecl {a b : Spec} (h : SameContent a b) (d : Decl) : SameContent (a.setDecl d) (b.setDecl d) :=
  ⟨fun x => by rw [Spec.mem_setDecl, Spec.mem_setDecl, h.1 x], fun r => by simpa using h.2 r⟩

theorem SameContent.setTag {a b : Spec} (h : SameContent a b) (r : TagRec) : SameContent (a.setTag r) (b.setTag r) :=
  ⟨fun x => by simpa using h.1 x, fun x => by rw [Spec.mem_setTag, Spec.mem_setTag, h.2 x]⟩

theorem SameContent.delTag {a b : Spec} (h : SameContent a b) (s : Nat) (t : Tag) (n : Name) (f : Flav) :
    SameContent (a.delTag s t n f) (b.delTag s t n f) :=
  ⟨fun x => by simpa using h.1 x, fun x => by rw [Spec.mem_delTag, Spec.mem_delTag, h.2 x]⟩

theorem SameContent.delDecl {a b : Spec} (h : SameContent a b) (s : Nat) (n : Name) (v : Ver) (f : Flav) :
    SameContent (a.delDecl s n v f) (b.delDecl s n v f) :=
  ⟨fun x => by rw [Spec.mem_delDecl_decls, Spec.mem_delDecl_decls, h.1 x],
   fun x => by rw [Spec.mem_delDecl_tags, Spec.mem_delDecl_tags, h.2 x]⟩

theorem SameContent.assign {a b : Spec} (h : SameContent a b) (s : Nat) (t : Tag) (n : Name) (f : Flav) (v : Ver) :
    SameContent (a.assign s t n f v) (b.assign s t n f v) := by
  unfold Spec.assign
  rw [h.hasDecl]
  split
  · exact h.setTag _
  · exact h

theorem SameContent.addDecl {a b : Spec} (h : SameContent a b) (d : Decl) (tag : Option Tag) :
    SameContent (a.addDecl d tag) (b.addDecl d tag) := by
  cases tag with
  | none => exact h.setDecl d
  | some t => exact (h.setDecl d).setTag _

/-- every effect respects equality of contents -/
theorem SameContent.applyDb {a b : Spec} (h : SameContent a b) (e : Eff) :
    SameContent (EupsModel.Db.applyDb e a) (EupsModel.Db.applyDb e b) := by
  cases e with
  | declare d tag => exact h.addDecl d tag
  | undeclare s n v f => exact h.delDecl s n v f
  | assign s t n f v => exact h.assign s t n f v
  | unassign s t n f => exact h.delTag s t n f
  | rmTree _ => exact h
  | copyExtra _ => exact h

theorem SameContent.noDangling {a b : Spec} (h : SameContent a b) (hb : NoDangling b) : NoDangling a := by
  intro r hr
  rw [h.hasDecl]
  exact hb r ((h.2 r).mp hr)

/-! ### well-formedness is kept -/

theorem wff_setV {F : FileDb} (h : WFF F) (d : Decl) : WFF (setV F d) :=
  ⟨wfk_upd h.v _ _ (fun recs hu => uniqFlav_setRec _ recs _ hu), h.c⟩

theorem wff_setC {F : FileDb} (h : WFF F) (s : Nat) (t : Tag) (n : Name) (f : Flav) (v : Ver) : WFF (setC F s t n f v) :=
  ⟨h.v, wfk_upd h.c _ _ (fun recs hu => uniqFlav_setRec _ recs _ hu)⟩

theorem wff_fUnassign {F : FileDb} (h : WFF F) (s : Nat) (t : Tag) (n : Name) (f : Flav) : WFF (fUnassign F s t n f) :=
  ⟨h.v, wfk_upd h.c _ _ (fun recs hu => uniqFlav_filter _ recs _ hu)⟩

theorem wff_fAssign {F : FileDb} (h : WFF F) (s : Nat) (t : Tag) (n : Name) (f : Flav) (v : Ver) :
    WFF (fAssign F s t n f v) := by
  unfold fAssign; split
  · exact wff_setC h s t n f v
  · exact h

/-! ### `Database.assignTag`, `declare`, `undeclare` against `Spec` -/

theorem abs_fAssign {F : FileDb} (h : WFF F) (s : Nat) (t : Tag) (n : Name) (f : Flav) (v : Ver) :
    SameContent (abs (fAssign F s t n f v)) ((abs F).assign s t n f v) := by
  unfold fAssign Spec.assign
  rw [hasFlavor_iff]
  split
  · exact abs_setC h s t n f v
  · exact SameContent.refl _

theorem abs_fDeclare {F : FileDb} (h : WFF F) (d : Decl) (tag : Option Tag) :
    SameContent (abs (fDeclare F d tag)) ((abs F).addDecl d tag) := by
  cases tag with
  | none => exact abs_setV h d
  | some t =>
    have h1 := abs_setV h d
    have h2 := abs_fAssign (wff_setV h d) d.stack t d.name d.flav d.ver
    have h3 : ((abs F).setDecl d).assign d.stack t d.name d.flav d.ver
        = ((abs F).setDecl d).setTag ⟨d.stack, t, d.name, d.flav, d.ver⟩ := by
      unfold Spec.assign; rw [Spec.hasDecl_setDecl_self]; rfl
    have h4 := h1.assign d.stack t d.name d.flav d.ver
    rw [h3] at h4
    exact h2.trans h4

theorem wff_fDeclare {F : FileDb} (h : WFF F) (d : Decl) (tag : Option Tag) : WFF (fDeclare F d tag) := by
  cases tag with
  | none => exact wff_setV h d
  | some t => exact wff_fAssign (wff_setV h d) _ _ _ _ _

/-- the chain files of the product after `Database.undeclare` unassigned the tags of the version -/
def dropTags (cs : List CFile) (s : Nat) (n : Name) (v : Ver) (f : Flav) : List CFile :=
  (cs.map (fun x =>
      if x.key.1 = s ∧ x.key.2.1 = n then
        (⟨x.key, x.recs.filter (fun r => !decide (r.flav = f ∧ r.ver = v))⟩ : CFile)
      else x)).filter (fun x => !x.recs.isEmpty)

theorem entry_dropTags (cs : List CFile) (s : Nat) (n : Name) (v : Ver) (f : Flav) (k : Nat × Name × Tag) (r : CRec) :
    Entry (dropTags cs s n v f) k r ↔ Entry cs k r ∧ ¬ (k.1 = s ∧ k.2.1 = n ∧ r.flav = f ∧ r.ver = v) := by
  unfold dropTags Entry
  simp only [List.mem_filter, List.mem_map]
  constructor
  · rintro ⟨y, ⟨⟨x, hx, rfl⟩, _⟩, hk, hr⟩
    by_cases hc : x.key.1 = s ∧ x.key.2.1 = n
    · simp only [hc, and_self, if_true] at hk hr
      simp only [List.mem_filter, Bool.not_eq_true', decide_eq_false_iff_not] at hr
      refine ⟨⟨x, hx, hk, hr.1⟩, ?_⟩
      rintro ⟨_, _, h3, h4⟩; exact hr.2 ⟨h3, h4⟩
    · simp only [hc, if_false] at hk hr
      refine ⟨⟨x, hx, hk, hr⟩, ?_⟩
      rintro ⟨h1, h2, _, _⟩; exact hc ⟨hk ▸ h1, hk ▸ h2⟩
  · rintro ⟨⟨x, hx, hk, hr⟩, hne⟩
    by_cases hc : x.key.1 = s ∧ x.key.2.1 = n
    · have hr' : r ∈ x.recs.filter (fun r => !decide (r.flav = f ∧ r.ver = v)) := by
        simp only [List.mem_filter, Bool.not_eq_true', decide_eq_false_iff_not]
        exact ⟨hr, fun ⟨h3, h4⟩ => hne ⟨hk ▸ hc.1, hk ▸ hc.2, h3, h4⟩⟩
      refine ⟨⟨x.key, x.recs.filter (fun r => !decide (r.flav = f ∧ r.ver = v))⟩,
        ⟨⟨x, hx, by simp [hc]⟩, ?_⟩, hk, hr'⟩
      cases hl : x.recs.filter (fun r => !decide (r.flav = f ∧ r.ver = v)) with
      | nil => rw [hl] at hr'; cases hr'
      | cons _ _ => rfl
    · refine ⟨x, ⟨⟨x, hx, by simp [hc]⟩, ?_⟩, hk, hr⟩
      cases hl : x.recs with
      | nil => rw [hl] at hr; cases hr
      | cons _ _ => rfl

theorem wfk_dropTags {cs : List CFile} (h : WFK CRec.flav cs) (s : Nat) (n : Name) (v : Ver) (f : Flav) :
    WFK CRec.flav (dropTags cs s n v f) := by
  unfold dropTags
  refine ⟨?_, ?_, ?_⟩
  · intro y1 hy1 y2 hy2 hk
    simp only [List.mem_filter, List.mem_map] at hy1 hy2
    obtain ⟨⟨x1, hx1, rfl⟩, _⟩ := hy1
    obtain ⟨⟨x2, hx2, rfl⟩, _⟩ := hy2
    have e1 : ∀ x : CFile, (if x.key.1 = s ∧ x.key.2.1 = n then
        (⟨x.key, x.recs.filter (fun r => !decide (r.flav = f ∧ r.ver = v))⟩ : CFile) else x).key = x.key := by
      intro x; split <;> rfl
    rw [e1, e1] at hk
    rw [h.key x1 hx1 x2 hx2 hk]
  · intro y hy
    simp only [List.mem_filter, List.mem_map] at hy
    obtain ⟨⟨x, hx, rfl⟩, _⟩ := hy
    split
    · exact uniqFlav_filter _ _ _ (h.flav x hx)
    · exact h.flav x hx
  · intro y hy hnil
    simp only [List.mem_filter] at hy
    rw [hnil] at hy
    simp at hy

theorem abs_fUndeclare {F : FileDb} (h : WFF F) (hnd : NoDangling (abs F)) (s : Nat) (n : Name) (v : Ver) (f : Flav) :
    SameContent (abs (fUndeclare F s n v f)) ((abs F).delDecl s n v f) := by
  unfold fUndeclare
  rw [hasFlavor_iff]
  split
  · refine ⟨fun d' => ?_, fun r' => ?_⟩
    · rw [mem_abs_decls, Spec.mem_delDecl_decls]
      dsimp only
      constructor
      · rintro ⟨k, r, he, rfl⟩
        rcases (entry_upd h.v _ _ k r).mp he with ⟨hne, he⟩ | ⟨rfl, hr⟩
        · refine ⟨(mem_abs_decls F _).mpr ⟨k, r, he, rfl⟩, ?_⟩
          cases hs : (declK k r).hasKey s n v f with
          | false => rfl
          | true =>
            exfalso
            have := Decl.hasKey_iff.mp hs
            simp only [declK] at this
            apply hne
            obtain ⟨k1, k2, k3⟩ := k
            simp only at this
            rw [this.1, this.2.1, this.2.2.1]
        · simp only [List.mem_filter, Bool.not_eq_true', decide_eq_false_iff_not] at hr
          refine ⟨(mem_abs_decls F _).mpr ⟨_, r, (entry_iff_recsAt h.v _ r).mpr hr.1, rfl⟩, ?_⟩
          cases hs : (declK (s, n, v) r).hasKey s n v f with
          | false => rfl
          | true => exfalso; exact hr.2 (Decl.hasKey_iff.mp hs).2.2.2
      · rintro ⟨hd', hsk⟩
        obtain ⟨k, r, he, rfl⟩ := (mem_abs_decls F d').mp hd'
        refine ⟨k, r, (entry_upd h.v _ _ k r).mpr ?_, rfl⟩
        by_cases hk : k = (s, n, v)
        · subst hk
          refine Or.inr ⟨rfl, ?_⟩
          simp only [List.mem_filter, Bool.not_eq_true', decide_eq_false_iff_not]
          refine ⟨(entry_iff_recsAt h.v _ r).mp he, ?_⟩
          intro hfl
          have : (declK (s, n, v) r).hasKey s n v f = true := by
            rw [Decl.hasKey_iff]; exact ⟨rfl, rfl, rfl, hfl⟩
          rw [this] at hsk; cases hsk
        · exact Or.inl ⟨hk, he⟩
    · rw [mem_abs_tags, Spec.mem_delDecl_tags]
      show (∃ k r, Entry (dropTags F.cfiles s n v f) k r ∧ r' = tagK k r) ↔ _
      constructor
      · rintro ⟨k, r, he, rfl⟩
        obtain ⟨he, hne⟩ := (entry_dropTags _ _ _ _ _ k r).mp he
        refine ⟨(mem_abs_tags F _).mpr ⟨k, r, he, rfl⟩, ?_⟩
        cases hs : (tagK k r).pointsAt s n v f with
        | false => rfl
        | true =>
          exfalso
          have := TagRec.pointsAt_iff.mp hs
          simp only [tagK] at this
          exact hne this
      · rintro ⟨hr', hp⟩
        obtain ⟨k, r, he, rfl⟩ := (mem_abs_tags F r').mp hr'
        refine ⟨k, r, (entry_dropTags _ _ _ _ _ k r).mpr ⟨he, ?_⟩, rfl⟩
        intro hc
        have : (tagK k r).pointsAt s n v f = true := by rw [TagRec.pointsAt_iff]; exact hc
        rw [this] at hp; cases hp
  · -- the version file does not declare the flavor: nothing happens, and nothing is there to remove
    rename_i hno
    have hno' : (abs F).hasDecl s n v f = false := by simpa using hno
    refine ⟨fun d' => ?_, fun r' => ?_⟩
    · rw [Spec.mem_delDecl_decls]
      constructor
      · intro hd
        refine ⟨hd, ?_⟩
        cases hk : d'.hasKey s n v f with
        | false => rfl
        | true =>
          exfalso
          have : (abs F).hasDecl s n v f = true := Spec.hasDecl_iff.mpr ⟨d', hd, hk⟩
          rw [hno'] at this; cases this
      · exact fun h => h.1
    · rw [Spec.mem_delDecl_tags]
      constructor
      · intro hr
        refine ⟨hr, ?_⟩
        cases hp : r'.pointsAt s n v f with
        | false => rfl
        | true =>
          exfalso
          have hp' := TagRec.pointsAt_iff.mp hp
          have := hnd r' hr
          rw [hp'.1, hp'.2.1, hp'.2.2.1, hp'.2.2.2, hno'] at this
          cases this
      · exact fun h => h.1

theorem wff_fUndeclare {F : FileDb} (h : WFF F) (s : Nat) (n : Name) (v : Ver) (f : Flav) : WFF (fUndeclare F s n v f) := by
  unfold fUndeclare
  split
  · exact ⟨wfk_upd h.v _ _ (fun recs hu => uniqFlav_filter _ recs _ hu), wfk_dropTags h.c s n v f⟩
  · exact h

/-- **Simulation.**  Every effect, applied to the files, reads back as the same effect applied to what the
files read as; and the files stay well formed (one file per key, one block per flavor, no empty file). -/
theorem applyF_sim {F : FileDb} (h : WFF F) (hnd : NoDangling (abs F)) (e : Eff) :
    WFF (applyF e F) ∧ SameContent (abs (applyF e F)) (EupsModel.Db.applyDb e (abs F)) := by
  cases e with
  | declare d tag => exact ⟨wff_fDeclare h d tag, abs_fDeclare h d tag⟩
  | undeclare s n v f => exact ⟨wff_fUndeclare h s n v f, abs_fUndeclare h hnd s n v f⟩
  | assign s t n f v => exact ⟨wff_fAssign h s t n f v, abs_fAssign h s t n f v⟩
  | unassign s t n f => exact ⟨wff_fUnassign h s t n f, abs_delC h s t n f⟩
  | rmTree _ => exact ⟨h, SameContent.refl _⟩
  | copyExtra _ => exact ⟨h, SameContent.refl _⟩

/-- the same along a trace, against any content that reads the same and has no dangling tag -/
theorem foldl_applyF_sim (es : List Eff) {F : FileDb} {c : Spec} (h : WFF F) (hc : SameContent (abs F) c)
    (hinv : DbInv c) :
    WFF (es.foldl (fun F e => applyF e F) F) ∧
    SameContent (abs (es.foldl (fun F e => applyF e F) F)) (es.foldl (fun c e => EupsModel.Db.applyDb e c) c) := by
  induction es generalizing F c with
  | nil => exact ⟨h, hc⟩
  | cons e es ih =>
    simp only [List.foldl_cons]
    obtain ⟨h1, h2⟩ := applyF_sim h (hc.noDangling hinv.nd) e
    exact ih h1 (h2.trans (hc.applyDb e)) (hinv.apply e)

/-! ### reads on the files -/

theorem keysUnique_abs {F : FileDb} (h : WFF F) : KeysUnique (abs F) := by
  constructor
  · intro d hd e he hk
    obtain ⟨k1, r1, ⟨x1, hx1, hk1, hr1⟩, rfl⟩ := (mem_abs_decls F d).mp hd
    obtain ⟨k2, r2, ⟨x2, hx2, hk2, hr2⟩, rfl⟩ := (mem_abs_decls F e).mp he
    have hk' := Decl.sameKey_iff.mp hk
    simp only [declK] at hk'
    have hkk : k1 = k2 := by
      obtain ⟨a1, a2, a3⟩ := k1; obtain ⟨b1, b2, b3⟩ := k2
      simp only at hk'; rw [hk'.1, hk'.2.1, hk'.2.2.1]
    subst hkk
    have hx : x1 = x2 := h.v.key x1 hx1 x2 hx2 (hk1.trans hk2.symm)
    subst hx
    rw [h.v.flav x1 hx1 r1 hr1 r2 hr2 hk'.2.2.2]
  · intro d hd e he hk
    obtain ⟨k1, r1, ⟨x1, hx1, hk1, hr1⟩, rfl⟩ := (mem_abs_tags F d).mp hd
    obtain ⟨k2, r2, ⟨x2, hx2, hk2, hr2⟩, rfl⟩ := (mem_abs_tags F e).mp he
    have hk' := TagRec.sameKey_iff.mp hk
    simp only [tagK] at hk'
    have hkk : k1 = k2 := by
      obtain ⟨a1, a2, a3⟩ := k1; obtain ⟨b1, b2, b3⟩ := k2
      simp only at hk'; rw [hk'.1, hk'.2.1, hk'.2.2.1]
    subst hkk
    have hx : x1 = x2 := h.c.key x1 hx1 x2 hx2 (hk1.trans hk2.symm)
    subst hx
    rw [h.c.flav x1 hx1 r1 hr1 r2 hr2 hk'.2.2.2]

theorem findDecl_eq_some_iff {c : Spec} (h : KeysUnique c) (s : Nat) (n : Name) (v : Ver) (f : Flav) (d : Decl) :
    c.findDecl s n v f = some d ↔ d ∈ c.decls ∧ d.hasKey s n v f = true := by
  constructor
  · intro hf
    have := findDecl_some hf
    exact ⟨this.1, Decl.hasKey_iff.mpr this.2⟩
  · rintro ⟨hd, hk⟩
    cases hf : c.findDecl s n v f with
    | none =>
      unfold Spec.findDecl at hf
      rw [List.find?_eq_none] at hf
      exact absurd hk (hf d hd)
    | some d' =>
      have h' := findDecl_some hf
      have k := Decl.hasKey_iff.mp hk
      rw [h.decl d' h'.1 d hd (Decl.sameKey_iff.mpr ⟨h'.2.1.trans k.1.symm, h'.2.2.1.trans k.2.1.symm,
        h'.2.2.2.1.trans k.2.2.1.symm, h'.2.2.2.2.trans k.2.2.2.symm⟩)]

/-- **`Database.findProduct` on the files = `findDecl` on what they read as** -/
theorem findProduct_eq {F : FileDb} (h : WFF F) (s : Nat) (n : Name) (v : Ver) (f : Flav) :
    findProduct F s n v f = (abs F).findDecl s n v f := by
  apply Option.ext
  intro d
  rw [findDecl_eq_some_iff (keysUnique_abs h), mem_abs_decls]
  unfold findProduct
  constructor
  · intro hf
    split at hf
    · cases hf
    · rename_i x hx
      have hxm := List.mem_of_find?_eq_some hx
      have hxk : x.key = (s, n, v) := by simpa using List.find?_some hx
      simp only [Option.map_eq_some_iff] at hf
      obtain ⟨r, hr, rfl⟩ := hf
      have hrm := List.mem_of_find?_eq_some hr
      have hrf : r.flav = f := by simpa using List.find?_some hr
      refine ⟨⟨x.key, r, ⟨x, hxm, rfl, hrm⟩, rfl⟩, ?_⟩
      rw [Decl.hasKey_iff]; simp [declOf, hxk, hrf]
  · rintro ⟨⟨k, r, ⟨x, hx, hxk, hr⟩, rfl⟩, hk⟩
    have hk' := Decl.hasKey_iff.mp hk
    simp only [declK] at hk'
    have hkey : x.key = (s, n, v) := by
      rw [hxk]; obtain ⟨k1, k2, k3⟩ := k; simp only at hk'; rw [hk'.1, hk'.2.1, hk'.2.2.1]
    cases hfx : F.vfiles.find? (fun x => decide (x.key = (s, n, v))) with
    | none => rw [List.find?_eq_none] at hfx; exact absurd (by simpa using hkey) (hfx x hx)
    | some x0 =>
      have hx0 : x0 = x := h.v.key x0 (List.mem_of_find?_eq_some hfx) x hx
        ((by simpa using List.find?_some hfx : x0.key = (s, n, v)).trans hkey.symm)
      subst hx0
      dsimp only
      cases hfr : x0.recs.find? (fun r => decide (r.flav = f)) with
      | none => rw [List.find?_eq_none] at hfr; exact absurd (by simpa using hk'.2.2.2) (hfr r hr)
      | some r0 =>
        have hr0 : r0 = r := h.v.flav x0 hx r0 (List.mem_of_find?_eq_some hfr) r hr
          ((by simpa using List.find?_some hfr : r0.flav = f).trans hk'.2.2.2.symm)
        subst hr0
        simp [declOf, declK, hxk]

/-- declarations and tags of two contents that read the same, keys unique: the same lookups -/
theorem SameContent.findDecl {a b : Spec} (h : SameContent a b) (hb : KeysUnique b) (s : Nat) (n : Name) (v : Ver)
    (f : Flav) : a.findDecl s n v f = b.findDecl s n v f :=
  findDecl_agree (s := s) (f := f) (n := n) ⟨fun d _ _ _ => h.1 d, fun r _ _ _ => h.2 r⟩ hb v

theorem SameContent.tagVer {a b : Spec} (h : SameContent a b) (hb : KeysUnique b) (s : Nat) (t : Tag) (n : Name)
    (f : Flav) : a.tagVer s t n f = b.tagVer s t n f :=
  tagVer_agree (s := s) (f := f) (n := n) ⟨fun d _ _ _ => h.1 d, fun r _ _ _ => h.2 r⟩ hb t

end EupsModel.DbFile
