import EupsModel.Lemmas.TableText
/-! C11, legacy clause: `_rewrite` turns runs of `Flavor=` lines (new style) into exactly the `if` blocks they stand
for, so a legacy table and its `if` form are the same table to everything downstream. -/
namespace EupsModel.TableParse
open EupsModel.Cond EupsModel.C11Spec

/-! ## a `Flavor = f` line -/

theorem lowerPrefix_none_of_kw {k kw target : Str} (h : Str.lower k = kw) (hlen : target.length ≤ kw.length)
    (hne : kw.take target.length ≠ target) (rest : Str) : lowerPrefix target (k ++ rest) = none := by
  have hk : target.length ≤ k.length := by rw [← lower_length k, h]; exact hlen
  have : (Str.lower ((k ++ rest).take target.length) == target) = false := by
    rw [List.take_append_of_le_length hk]
    simp only [Str.lower, ← List.map_take, beq_eq_false_iff_ne, ne_eq]
    have : List.map (fun c => if Str.isUpper c = true then c + 32 else c) (List.take target.length k)
        = (Str.lower k).take target.length := by simp [Str.lower, List.map_take]
    rw [this, h]; exact hne
  unfold lowerPrefix
  rw [this]; rfl

theorem takeWhile_tok {w after : Str} (hw : w.all isTokCh = true) (ha : hblank after = true) :
    (w ++ after).takeWhile isTokCh = w := by
  induction w with
  | nil =>
    cases after with
    | nil => rfl
    | cons c cs =>
      have : Str.isSpace c = true := by
        have := List.all_eq_true.mp (blank_of_hblank ha) c (List.mem_cons_self ..); exact this
      simp [List.takeWhile, space_not_tokCh this]
  | cons c cs ih =>
    simp only [List.all_cons, Bool.and_eq_true] at hw
    simp [List.takeWhile, hw.1, ih hw.2]

theorem lineCh_eq : lineCh 61 = true := by decide

theorem flav_core_facts {f : FlavLine} (hf : f.ok = true) :
    strip f.raw = f.core ∧ f.raw.all (· != 10) = true ∧ f.core.isEmpty = false ∧
      kwEqCap sFile isWordCh f.core = none ∧ kwEqCap sProduct isWordCh f.core = none ∧
      synonyms.foldl (fun l p => replaceAll p.1 p.2 l) f.core = f.core ∧
      kwEqCap sAction isTokCh f.core = none ∧ qualLine f.core = false ∧ kwLine sGroupC f.core = false ∧
      kwLine sCommonC f.core = false ∧ kwLine sEndC f.core = false ∧
      kwEqCap sFlavorKw isTokCh f.core = some f.flavor := by
  simp only [FlavLine.ok, Bool.and_eq_true, beq_iff_eq, Bool.not_eq_true', List.isEmpty_eq_false_iff] at hf
  obtain ⟨⟨⟨⟨⟨⟨hw, hk⟩, h1⟩, h2⟩, hne⟩, htok⟩, ha⟩ := hf
  have hkw : sFlavorKw = 102 :: [108, 97, 118, 111, 114] := rfl
  obtain ⟨c, cs, hkc, hs, hlc⟩ := head_of_lower (hk.trans hkw) (by omega)
  have hall : f.core.all lineCh = true := by
    have a := lineCh_of_lower hk (by decide)
    have b : f.flavor.all lineCh = true := List.all_eq_true.mpr fun x hx => lineCh_of_tokCh (List.all_eq_true.mp htok x hx)
    simp [FlavLine.core, List.all_append, a, b, lineCh_of_hblank h1, lineCh_of_hblank h2, lineCh_of_hblank ha, lineCh_eq]
  have hl : f.core = c :: (cs ++ f.s1 ++ [61] ++ f.s2 ++ f.flavor ++ f.after) := by
    simp [FlavLine.core, hkc, List.append_assoc]
  have h36 : 36 ∉ f.core := fun hm => by have := List.all_eq_true.mp hall 36 hm; revert this; decide
  have hcore : coreOK f.core = true := by
    simp only [coreOK, Bool.and_eq_true]
    refine ⟨by rw [hl]; simp [nsp, hs], List.all_eq_true.mpr fun x hx => ?_⟩
    have := List.all_eq_true.mp hall x hx
    simp only [lineCh, Bool.and_eq_true] at this
    simp [this.1.1, this.1.2]
  have hlc' : lowerCh c = 102 := hlc
  have e : f.core = f.kw ++ (f.s1 ++ 61 :: (f.s2 ++ (f.flavor ++ f.after))) := by simp [FlavLine.core, List.append_assoc]
  have hflav : kwEqCap sFlavorKw isTokCh f.core = some f.flavor := by
    obtain ⟨x, xs, hx⟩ : ∃ x xs, f.flavor = x :: xs := by
      cases hfl : f.flavor with
      | nil => exact absurd hfl hne
      | cons x xs => exact ⟨x, xs, rfl⟩
    have hxt : isTokCh x = true := by rw [hx] at htok; simp only [List.all_cons, Bool.and_eq_true] at htok; exact htok.1
    have hnsp : nsp (f.flavor ++ f.after) = true := by
      rw [hx]; simp only [List.cons_append, nsp, Bool.not_eq_true']
      cases hsx : Str.isSpace x with
      | false => rfl
      | true => rw [space_not_tokCh hsx] at hxt; cases hxt
    rw [e]
    simp only [kwEqCap, kwEq, lowerPrefix_of_lower hk, dropSpaces_append (blank_of_hblank h1) (by rfl : nsp (61 :: _) = true),
      dropSpaces_append (blank_of_hblank h2) hnsp, takeWhile_tok htok ha]
    try rw [hx]
  refine ⟨strip_wrap hw hcore, ?_, by rw [hl]; rfl, ?_, ?_, synonyms_absent h36, ?_, ?_, ?_, ?_, ?_, hflav⟩
  · have hw' := hw
    simp only [Wrap.ok, Bool.and_eq_true] at hw'
    have h10 : f.wrap.indent.all (· != 10) = true := List.all_eq_true.mpr fun a ha => by
      have := hblank_ne hw'.1.1 (d := 10) (by omega); simp only [bne_iff_ne, ne_eq]; intro e; exact this (e ▸ ha)
    have c10 : f.core.all (· != 10) = true := List.all_eq_true.mpr fun x hx => by
      have := List.all_eq_true.mp hall x hx; simp only [lineCh, Bool.and_eq_true] at this; exact this.1.1
    simp [FlavLine.raw, Wrap.around, List.all_append, h10, c10, hw'.1.2]
  · have : lowerPrefix sFile f.core = none := by
      rw [e]; exact lowerPrefix_none_of_kw hk (by decide) (by decide) _
    simp [kwEqCap, kwEq, this]
  · simp [kwEqCap, kwEq_none_head hl (by rfl : sProduct = 112 :: _) (by omega)]
  · simp [kwEqCap, kwEq_none_head hl (by rfl : sAction = 97 :: _) (by omega)]
  · simp [qualLine, kwEq_none_head hl (by rfl : sQualifiers = 113 :: _) (by omega)]
  · simp [kwLine, lowerPrefix_none_head hl (by rfl : sGroupC = 103 :: _) (by omega)]
  · simp [kwLine, lowerPrefix_none_head hl (by rfl : sCommonC = 99 :: _) (by omega)]
  · simp [kwLine, lowerPrefix_none_head hl (by rfl : sEndC = 101 :: _) (by omega)]

/-- `_rewrite` on a `Flavor = f` line outside `Group:` … `End:` -/
theorem rewriteLine_flav {st : RwState} (hg : st.inGroup = false) {f : FlavLine} (hf : f.ok = true) :
    rewriteLine st f.raw = .ok (match st.newGroup with
      | .inFlavors => { st with cond := st.cond ++ sBarBar ++ sFlavorEq ++ f.flavor }
      | ng => { st with newGroup := .inFlavors, cond := sFlavorEq ++ f.flavor,
                        out := if ng == .yes then st.out ++ [sClose] else st.out }) := by
  obtain ⟨h0, _, h1, h2, h3, h4, h5, h6, h7, _, _, h10⟩ := flav_core_facts hf
  simp only [rewriteLine, h0, h1, h2, h3, h4, h5, h6, h7, h10, hg]
  cases st.old <;> cases st.newGroup <;> simp

/-! ## a group, the groups, the table -/

theorem rewriteLines_append (a b : List Str) (st : RwState) :
    rewriteLines st (a ++ b) = (rewriteLines st a).bind fun st' => rewriteLines st' b := by
  induction a generalizing st with
  | nil => simp [rewriteLines, Res.bind]
  | cons r rs ih =>
    simp only [List.cons_append, rewriteLines]
    cases rewriteLine st r <;> simp [Res.bind, ih]

theorem rewriteLines_more : ∀ (more : List FlavLine) (old : Bool) (cond : Str) (out : List Str),
    more.all FlavLine.ok = true →
    rewriteLines ⟨old, false, .inFlavors, cond, out⟩ (more.map FlavLine.raw) =
      .ok ⟨old, false, .inFlavors, more.foldl (fun c g => c ++ sBarBar ++ sFlavorEq ++ g.flavor) cond, out⟩ := by
  intro more
  induction more with
  | nil => intro _ _ _ _; simp [rewriteLines]
  | cons f fs ih =>
    intro old cond out hall
    simp only [List.all_cons, Bool.and_eq_true] at hall
    have := rewriteLine_flav (st := ⟨old, false, .inFlavors, cond, out⟩) rfl hall.1
    simp only [List.map_cons, rewriteLines, this, Res.bind]
    rw [ih _ _ _ hall.2]
    simp

theorem coresOf_cons_ne {r : Str} {rs : List Str} (h : (strip r).isEmpty = false) :
    coresOf (r :: rs) = strip r :: coresOf rs := by simp [coresOf, h]

theorem passes_of_passesLine {rs : List Str} (h : rs.all passesLine = true) : rs.all passes = true :=
  List.all_eq_true.mpr fun r hr => by
    have := List.all_eq_true.mp h r hr
    simp only [passesLine, Bool.and_eq_true] at this
    exact this.2

/-- `_rewrite` over one group -/
theorem rewriteLines_group {g : FGroup} (hok : g.ok = true) (old : Bool) (ng : NewGroup) (cond : Str) (out : List Str)
    (hn : ng ≠ .inFlavors) :
    rewriteLines ⟨old, false, ng, cond, out⟩ g.raws =
      .ok ⟨old, false, .yes, flavCond g.f.flavor (g.more.map FlavLine.flavor),
        out ++ ((if ng == .yes then [sClose] else []) ++ g.ifLine :: coresOf (g.first :: g.rest))⟩ := by
  simp only [FGroup.ok, Bool.and_eq_true, Bool.not_eq_true'] at hok
  obtain ⟨⟨⟨⟨⟨hf, hmore⟩, _⟩, hne⟩, hneu⟩, hrest⟩ := hok
  have e : g.raws = [g.f.raw] ++ (g.more.map FlavLine.raw ++ ([g.first] ++ g.rest)) := by simp [FGroup.raws]
  have h1 : rewriteLines ⟨old, false, ng, cond, out⟩ [g.f.raw] = .ok ⟨old, false, .inFlavors, sFlavorEq ++ g.f.flavor,
      if ng == .yes then out ++ [sClose] else out⟩ := by
    have := rewriteLine_flav (st := ⟨old, false, ng, cond, out⟩) rfl hf
    simp only [rewriteLines, this, Res.bind]
    all_goals (cases ng <;> simp_all)
  rw [e, rewriteLines_append, h1]
  simp only [Res.bind]
  rw [rewriteLines_append, rewriteLines_more _ _ _ _ hmore]
  simp only [Res.bind]
  rw [rewriteLines_append]
  simp only [rewriteLines, rewriteLine_neutral' rfl hneu, Res.bind]
  rw [rewriteLines_pass' _ _ (by simp) (passes_of_passesLine hrest)]
  simp only [coresOf_cons_ne hne, FGroup.ifLine, flavCond, List.foldl_map]
  cases ng <;> simp [List.append_assoc]

/-- what `_rewrite` has written after the groups (`open`: a group is open before them) -/
def outG : Bool → List FGroup → List Str
  | _, [] => []
  | op, g :: gs => (if op then [sClose] else []) ++ g.ifLine :: coresOf (g.first :: g.rest) ++ outG true gs

theorem rewriteLines_groups : ∀ (gs : List FGroup) (old : Bool) (ng : NewGroup) (cond : Str) (out : List Str),
    ng ≠ .inFlavors → gs.all FGroup.ok = true →
    ∃ c, rewriteLines ⟨old, false, ng, cond, out⟩ (gs.flatMap FGroup.raws) =
      .ok ⟨old, false, (if gs.isEmpty then ng else .yes), c, out ++ outG (ng == .yes) gs⟩ := by
  intro gs
  induction gs with
  | nil => intro old ng cond out _ _; exact ⟨cond, by simp [rewriteLines, outG]⟩
  | cons g gs ih =>
    intro old ng cond out hn hall
    simp only [List.all_cons, Bool.and_eq_true] at hall
    obtain ⟨c, hc⟩ := ih old .yes (flavCond g.f.flavor (g.more.map FlavLine.flavor))
      (out ++ ((if ng == .yes then [sClose] else []) ++ g.ifLine :: coresOf (g.first :: g.rest))) (by simp) hall.2
    refine ⟨c, ?_⟩
    rw [List.flatMap_cons, rewriteLines_append, rewriteLines_group hall.1 old ng cond out hn]
    simp only [Res.bind, hc]
    cases gs <;> simp [outG, List.append_assoc]

theorem outG_close : ∀ (gs : List FGroup), outG true gs ++ [sClose] = sClose :: gs.flatMap FGroup.block := by
  intro gs
  induction gs with
  | nil => simp [outG]
  | cons g gs ih =>
    simp only [outG, if_true, List.flatMap_cons, FGroup.block, List.append_assoc, List.cons_append, List.nil_append]
    rw [ih]
    simp [coresOf]

theorem outG_blocks (gs : List FGroup) :
    outG false gs ++ (if gs.isEmpty then [] else [sClose]) = gs.flatMap FGroup.block := by
  cases gs with
  | nil => simp [outG]
  | cons g gs =>
    simp only [outG, List.isEmpty_cons, Bool.false_eq_true, if_false, List.nil_append, List.flatMap_cons, FGroup.block,
      List.cons_append, List.append_assoc]
    rw [outG_close]
    simp [coresOf]

/-! ## stripping is idempotent -/

theorem coreOK_strip (x : Str) : coreOK (strip x) = true := by
  have key : ∀ (y : Str), y.all (· != 10) = true →
      coreOK ((y.dropWhile Str.isSpace).takeWhile (· != 35)) = true := by
    intro y hy
    have h1 : ∀ (z : Str), z.all (· != 10) = true → (z.takeWhile (· != 35)).all (fun c => c != 10 && c != 35) = true := by
      intro z
      induction z with
      | nil => intro _; rfl
      | cons a as ih =>
        intro hz
        simp only [List.all_cons, Bool.and_eq_true] at hz
        by_cases ha : (a != 35) = true
        · simp [List.takeWhile, ha, hz.1, ih hz.2]
        · simp [List.takeWhile, ha]
    have h2 : ∀ (z : Str), z.all (· != 10) = true → (z.dropWhile Str.isSpace).all (· != 10) = true := by
      intro z
      induction z with
      | nil => intro _; rfl
      | cons a as ih =>
        intro hz
        simp only [List.all_cons, Bool.and_eq_true] at hz
        by_cases ha : Str.isSpace a = true
        · simp [List.dropWhile, ha, ih hz.2]
        · simp [List.dropWhile, ha, hz.1, hz.2]
    have h3 : nsp ((y.dropWhile Str.isSpace).takeWhile (· != 35)) = true := by
      induction y with
      | nil => rfl
      | cons a as ih =>
        simp only [List.all_cons, Bool.and_eq_true] at hy
        by_cases ha : Str.isSpace a = true
        · simp only [List.dropWhile, ha]; exact ih hy.2
        · simp only [List.dropWhile, ha]
          by_cases hb : (a != 35) = true
          · simp [List.takeWhile, hb, nsp, ha]
          · simp [List.takeWhile, hb, nsp]
    simp only [coreOK, Bool.and_eq_true]
    exact ⟨h3, h1 _ (h2 y hy)⟩
  have hf : (x.filter (· != 10)).all (· != 10) = true := by simp [List.all_filter]
  exact key _ hf

theorem strip_of_coreOK {l : Str} (h : coreOK l = true) : strip l = l := by
  have := strip_wrap (w := ⟨[], []⟩) (by decide) h
  simpa [Wrap.around] using this

theorem strip_idem (x : Str) : strip (strip x) = strip x := strip_of_coreOK (coreOK_strip x)

theorem noNL_of_coreOK {l : Str} (h : coreOK l = true) : l.all (· != 10) = true := by
  simp only [coreOK, Bool.and_eq_true] at h
  exact List.all_eq_true.mpr fun a ha => by
    have := List.all_eq_true.mp h.2 a ha; simp only [Bool.and_eq_true] at this; exact this.1

/-! ## the two texts -/

/-- a line that `_rewrite` hands on as itself -/
def Fixed (l : Str) : Prop := l.all (· != 10) = true ∧ strip l = l ∧ l.isEmpty = false ∧ neutral l = true

theorem fixed_of_facts {core : Str}
    (hf : coreOK core = true ∧ neutral core = true ∧ core.isEmpty = false ∧ core.all (· != 10) = true) : Fixed core :=
  ⟨hf.2.2.2, strip_of_coreOK hf.1, hf.2.2.1, hf.2.1⟩

theorem lineCh_flavCond {f : Str} (hf : f.all isTokCh = true) : ∀ (gs : List Str) (acc : Str), acc.all lineCh = true →
    (∀ g ∈ gs, g.all isTokCh = true) →
    (gs.foldl (fun c g => c ++ sBarBar ++ sFlavorEq ++ g) acc).all lineCh = true := by
  intro gs
  induction gs with
  | nil => intro acc h _; exact h
  | cons g gs ih =>
    intro acc h hg
    apply ih
    · have a : sBarBar.all lineCh = true := by decide
      have b : sFlavorEq.all lineCh = true := by decide
      have c : g.all lineCh = true := List.all_eq_true.mpr fun x hx =>
        lineCh_of_tokCh (List.all_eq_true.mp (hg g (List.mem_cons_self ..)) x hx)
      simp [List.all_append, h, a, b, c]
    · exact fun q hq => hg q (List.mem_cons_of_mem _ hq)

theorem fixed_ifLine {g : FGroup} (hok : g.ok = true) : Fixed g.ifLine := by
  simp only [FGroup.ok, Bool.and_eq_true] at hok
  obtain ⟨⟨⟨⟨⟨hf, hmore⟩, _⟩, _⟩, _⟩, _⟩ := hok
  have tokOf : ∀ {f : FlavLine}, f.ok = true → f.flavor.all isTokCh = true := by
    intro f h; simp only [FlavLine.ok, Bool.and_eq_true] at h; exact h.1.2
  have hacc : (sFlavorEq ++ g.f.flavor).all lineCh = true := by
    have b : sFlavorEq.all lineCh = true := by decide
    have c : g.f.flavor.all lineCh = true := List.all_eq_true.mpr fun x hx =>
      lineCh_of_tokCh (List.all_eq_true.mp (tokOf hf) x hx)
    simp [List.all_append, b, c]
  have hc := lineCh_flavCond (tokOf hf) (g.more.map FlavLine.flavor) _ hacc (by
    intro q hq
    simp only [List.mem_map] at hq
    obtain ⟨f', hf', rfl⟩ := hq
    exact tokOf (List.all_eq_true.mp hmore f' hf'))
  have hall : g.ifLine.all lineCh = true := by
    have a : sIfOpen.all lineCh = true := by decide
    have b : sIfClose.all lineCh = true := by decide
    simp only [FGroup.ifLine, flavCond, List.all_append, a, b, hc]; rfl
  have hl : g.ifLine = 105 :: ([102, 32, 40] ++ flavCond g.f.flavor (g.more.map FlavLine.flavor) ++ sIfClose) := by
    simp [FGroup.ifLine, sIfOpen]
  exact fixed_of_facts (core_facts hl hall (by decide) (by decide))

theorem fixed_close : Fixed sClose := fixed_of_facts (brace_facts (rest := []) (by decide))

theorem fixed_cores : ∀ (rs : List Str), rs.all passes = true → ∀ l ∈ coresOf rs, Fixed l := by
  intro rs hall l hl
  simp only [coresOf, List.mem_filter, List.mem_map, Bool.not_eq_true'] at hl
  obtain ⟨⟨r, hr, rfl⟩, hne⟩ := hl
  have hp := List.all_eq_true.mp hall r hr
  simp only [passes, Bool.or_eq_true] at hp
  have hn : neutral (strip r) = true := by
    rcases hp with h | h
    · rw [h] at hne; cases hne
    · exact h
  exact ⟨noNL_of_coreOK (coreOK_strip r), strip_idem r, hne, hn⟩

/-- raw lines that `_rewrite` hands on as they are -/
theorem coresOf_fixed : ∀ (ls : List Str), (∀ l ∈ ls, Fixed l) → coresOf ls = ls ∧ ls.all passes = true := by
  intro ls
  induction ls with
  | nil => intro _; exact ⟨rfl, rfl⟩
  | cons l ls ih =>
    intro h
    obtain ⟨_, h2, h3, h4⟩ := h l (List.mem_cons_self ..)
    obtain ⟨i1, i2⟩ := ih (fun q hq => h q (List.mem_cons_of_mem _ hq))
    refine ⟨?_, by simp [passes, h2, h4, i2]⟩
    rw [coresOf_cons_ne (by rw [h2]; exact h3), h2, i1]

theorem fixed_block {g : FGroup} (hok : g.ok = true) : ∀ l ∈ g.block, Fixed l := by
  intro l hl
  have hok' := hok
  simp only [FGroup.ok, Bool.and_eq_true, Bool.not_eq_true'] at hok'
  obtain ⟨⟨⟨⟨_, _⟩, hne⟩, hneu⟩, hrest⟩ := hok'
  have hp : (g.first :: g.rest).all passes = true := by
    simp [passes, hneu, passes_of_passesLine hrest]
  simp only [FGroup.block, List.mem_cons, List.mem_append, List.mem_nil_iff, or_false] at hl
  rcases hl with (rfl | hl) | rfl
  · exact fixed_ifLine hok
  · exact fixed_cores _ hp l hl
  · exact fixed_close

theorem rewriteLines_extra {extra : List Str} (h : ∀ e ∈ extra, e = []) (st : RwState) : rewriteLines st extra = .ok st := by
  induction extra with
  | nil => rfl
  | cons e es ih =>
    have he : e = [] := h e (List.mem_cons_self ..)
    subst he
    simp only [rewriteLines, rewriteLine_empty st (by rfl : strip [] = []), Res.bind]
    exact ih (fun q hq => h q (List.mem_cons_of_mem _ hq))

theorem noNL_pre {pre : List Str} (h : pre.all passesLine = true) : ∀ r ∈ pre, r.all (· != 10) = true := fun r hr => by
  have := List.all_eq_true.mp h r hr
  simp only [passesLine, Bool.and_eq_true] at this
  exact this.1

theorem noNL_groups : ∀ (gs : List FGroup), gs.all FGroup.ok = true → ∀ r ∈ gs.flatMap FGroup.raws, r.all (· != 10) = true := by
  intro gs hall r hr
  simp only [List.mem_flatMap] at hr
  obtain ⟨g, hg, hr⟩ := hr
  have hok := List.all_eq_true.mp hall g hg
  simp only [FGroup.ok, Bool.and_eq_true] at hok
  obtain ⟨⟨⟨⟨⟨hf, hmore⟩, hfirst⟩, _⟩, _⟩, hrest⟩ := hok
  simp only [FGroup.raws, List.mem_cons, List.mem_append, List.mem_map] at hr
  rcases hr with (rfl | ⟨f', hf', rfl⟩) | rfl | hr
  · exact (flav_core_facts hf).2.1
  · exact (flav_core_facts (List.all_eq_true.mp hmore f' hf')).2.1
  · exact hfirst
  · exact noNL_pre hrest r hr

/-- `_rewrite` on a legacy table: the lines outside the groups, then every group as its `if` block -/
theorem rewrite_legacy (pre : List Str) (gs : List FGroup) (nl : Bool) (hpre : pre.all passesLine = true)
    (hgs : gs.all FGroup.ok = true) :
    rewrite (legacyText pre gs nl) = .ok (coresOf pre ++ gs.flatMap FGroup.block) := by
  have hnl : ∀ r ∈ pre ++ gs.flatMap FGroup.raws, r.all (· != 10) = true := by
    intro r hr
    rcases List.mem_append.mp hr with hr | hr
    · exact noNL_pre hpre r hr
    · exact noNL_groups gs hgs r hr
  obtain ⟨extra, hs, hx⟩ := splitLines_joinNL _ hnl nl
  obtain ⟨c, hc⟩ := rewriteLines_groups gs false .no [] ([] ++ coresOf pre) (by decide) hgs
  simp only [rewrite, legacyText, hs]
  rw [List.append_assoc, rewriteLines_append, rewriteLines_pass' pre {} (by decide) (passes_of_passesLine hpre)]
  simp only [Res.bind]
  rw [rewriteLines_append]
  have : ({ ({} : RwState) with out := ({} : RwState).out ++ coresOf pre } : RwState) = ⟨false, false, .no, [], [] ++ coresOf pre⟩ := rfl
  rw [this, hc]
  simp only [Res.bind, rewriteLines_extra hx]
  rw [← outG_blocks gs]
  have hb : (NewGroup.no == NewGroup.yes) = false := by decide
  cases gs <;> simp [List.append_assoc, hb]

/-- `_rewrite` on the same table with every group written as an `if` block -/
theorem rewrite_asIf (pre : List Str) (gs : List FGroup) (nl : Bool) (hpre : pre.all passesLine = true)
    (hgs : gs.all FGroup.ok = true) :
    rewrite (legacyAsIfText pre gs nl) = .ok (coresOf pre ++ gs.flatMap FGroup.block) := by
  have hfix : ∀ l ∈ gs.flatMap FGroup.block, Fixed l := by
    intro l hl
    simp only [List.mem_flatMap] at hl
    obtain ⟨g, hg, hl⟩ := hl
    exact fixed_block (List.all_eq_true.mp hgs g hg) l hl
  obtain ⟨hco, hpa⟩ := coresOf_fixed _ hfix
  have hnl : ∀ r ∈ pre ++ gs.flatMap FGroup.block, r.all (· != 10) = true := by
    intro r hr
    rcases List.mem_append.mp hr with hr | hr
    · exact noNL_pre hpre r hr
    · exact (hfix r hr).1
  obtain ⟨extra, hs, hx⟩ := splitLines_joinNL _ hnl nl
  have hall : (pre ++ gs.flatMap FGroup.block).all passes = true := by
    simp [List.all_append, passes_of_passesLine hpre, hpa]
  simp only [rewrite, legacyAsIfText, hs]
  rw [rewriteLines_append, rewriteLines_pass' _ {} (by decide) hall]
  simp only [Res.bind, rewriteLines_extra hx]
  simp [coresOf_append, hco]

end EupsModel.TableParse
