import EupsModel.Lemmas.Expand
import EupsModel.Lemmas.SetupUnwind
/-! Bridge between C17 (`Model/Expand.lean`) and the model of `Eups.setup` (`Model/Setup.lean`, property C01): the action
loop of `Eups.setup`, run in exact mode on the actions of the pin lines `setupRequired(n -j v)` / `setupOptional(n -j v)`
of an expanded table, does what C17's reference semantics `runPins` says — the Setup half of the hypothesis
`ExactSetupHyps.pin_sets_exactly` (the other half, reading the text of a pin line as such an action, is TableParse's). -/
set_option linter.unusedSimpArgs false
namespace EupsModel.Expand
open EupsModel EupsModel.Setup

/-- the VRO of `setup <product> <version>` (exact: `selectVRO(versionName=…)` with the default VRO dictionary) -/
def exactVro : List VroEnt := [.typeExact, .commandLine, .version, .versionExpr, .tag tagCurrent]

theorem exactVro_eq : exactVro = selectVRO false false [] := by decide

/-- the action of a pin line `setupX(n -j v)`: dependency on `n`, `-j`, explicit version `v`, no `[expr]`, no `-t` -/
def pinAct (p : Bool × Str × Str) : Act := .dep p.2.1 p.1 true (some (.explicit p.2.2)) none [] false

/-- "declared" for the Setup database: some stack on the request's `EUPS_PATH` declares the version -/
def declaredS (cfg : Setup.Cfg) (n v : Str) : Bool := (cfg.db.findVer cfg.path n v).isSome

/-- the version names of the `SETUP_<P>` records (C17 does not look at the stack of a record) -/
def recNames (e : Setup.Env) : Recs := fun m => (e.rec? m).map (·.1)

theorem resolve_pin_declared (db : Setup.Db) (path : List Nat) (al : Already) (n v : Str) (d : Decl) (hal : aget al n = none)
    (hd : db.findVer path n v = some d) :
    resolve db path false al n (some (.explicit v)) none 1 exactVro.length exactVro = .found d (some .version) := by
  simp [exactVro, resolve, find, walk, hal, hd]

theorem resolve_pin_undeclared (db : Setup.Db) (path : List Nat) (al : Already) (n v : Str) (hal : aget al n = none)
    (hd : db.findVer path n v = none) :
    resolve db path false al n (some (.explicit v)) none 1 exactVro.length exactVro = .none := by
  simp [exactVro, resolve, find, walk, hal, hd, VroEnt.isVersionType]

theorem apply_recs (fwd : Bool) (p : Setup.Prod) (a : Act) (s : St) :
    (a.apply fwd p s).env.recs = s.env.recs ∧ (a.apply fwd p s).already = s.already := by
  cases a with
  | prepend var vals app => cases fwd <;> simp [Act.apply, Env.addPath, Env.removePath]
  | set var val => cases fwd <;> simp [Act.apply]
  | alias key val => cases fwd <;> simp [Act.apply]
  | dep n o j ver ve t kl => simp [Act.apply]

/-- with `-j` (`noRecursion`) the table of a product is run without any recursive call -/
theorem acts_noRec (rec : Rec) (cfg : Cfg) (fwd : Bool) (depth : Nat) (vro : List VroEnt) (d : Decl) (as : List Act) (s : St) :
    ∃ s', acts rec cfg fwd depth true vro d as s = .ok s' ∧ s'.env.recs = s.env.recs ∧ s'.already = s.already := by
  induction as generalizing s with
  | nil => exact ⟨s, by simp [acts], rfl, rfl⟩
  | cons a rest ih =>
    cases a with
    | dep n o j ver ve t kl => simpa [acts] using ih s
    | prepend var vals app =>
      obtain ⟨s', h1, h2, h3⟩ := ih ((Act.prepend var vals app).apply fwd d.prod s)
      have := apply_recs fwd d.prod (.prepend var vals app) s
      exact ⟨s', by simpa [acts] using h1, by rw [h2, this.1], by rw [h3, this.2]⟩
    | set var val =>
      obtain ⟨s', h1, h2, h3⟩ := ih ((Act.set var val).apply fwd d.prod s)
      have := apply_recs fwd d.prod (.set var val) s
      exact ⟨s', by simpa [acts] using h1, by rw [h2, this.1], by rw [h3, this.2]⟩
    | alias key val =>
      obtain ⟨s', h1, h2, h3⟩ := ih ((Act.alias key val).apply fwd d.prod s)
      have := apply_recs fwd d.prod (.alias key val) s
      exact ⟨s', by simpa [acts] using h1, by rw [h2, this.1], by rw [h3, this.2]⟩

/-- `Eups.setup(n, v, noRecursion=True)` at depth 1 in exact mode, `n` not set up and not in `alreadySetupProducts`:
declared on the path → the records gain `n := v` (from some stack `k`) and nothing else changes in them;
undeclared → "not found", state untouched. -/
theorem setup_pin (cfg : Cfg) (hk : cfg.keep = false) (fuel : Nat) (n v : Str) (s : St)
    (hal : aget s.already n = none) (hrec : s.env.rec? n = none) :
    (∀ d, cfg.db.findVer cfg.path n v = some d →
      ∃ s', setup cfg (fuel + 1) true 1 true exactVro n (some (.explicit v)) none s = .ok s' ∧
        (∃ k, s'.env.recs = aset s.env.recs n (v, k)) ∧ ∃ x, s'.already = aset s.already n x) ∧
    (cfg.db.findVer cfg.path n v = none →
      setup cfg (fuel + 1) true 1 true exactVro n (some (.explicit v)) none s = .notFound s) := by
  constructor
  · intro d0 hd
    obtain ⟨hc0, hn0, hv0⟩ := findVer_named cfg.db cfg.path n v d0 hd
    let sa := s.afterResolve cfg 1 exactVro n (some (.explicit v)) none
    let d := pickDecl cfg.db s.cache d0
    have hn : d.name = n := (pickDecl_spec cfg.db s.cache d0 n hc0 hn0).2
    have hv : d.ver.1 = v := by rw [← hv0]; exact pickDecl_ver cfg.db s.cache d0
    have hsp : setupProd cfg.db sa.env d.name = none := by
      show setupProd cfg.db s.env d.name = none
      simp [setupProd, hn, hrec]
    obtain ⟨s', h1, h2, h3⟩ := acts_noRec (setup cfg fuel) cfg true 1 exactVro d (d.actions cfg.exact) (record d (some .version) sa)
    refine ⟨s', ?_, ⟨d.ver.2, ?_⟩, ?_⟩
    · simp only [setup, hk, resolve_pin_declared cfg.db cfg.path s.already n v d0 hal hd, if_true]
      show install (setup cfg fuel) cfg 1 true exactVro d (some .version) (register cfg 1 d (some .version) sa) = _
      simp [install, register, hsp, h1]
    · rw [h2]
      show aset s.env.recs d.name d.ver = _
      rw [hn, ← hv]
    · exact ⟨(d, some VroEnt.version), by rw [h3]; show aset s.already d.name _ = _; rw [hn]⟩
  · intro hd
    simp [setup, hk, resolve_pin_undeclared cfg.db cfg.path s.already n v hal hd]

/-- **The Setup half of `pin_sets_exactly`.**  The action loop of `Eups.setup` (exact mode, no `--keep`, no
`--max-depth`), run at the top level on the actions of pin lines for distinct products none of which is set up yet, ends
the way `runPins` says: when `runPins` succeeds with records `r`, the loop succeeds and the version names in the
`SETUP_<P>` records are `r`; when `runPins` fails (a required pin is not declared on the path), the loop raises. -/
theorem acts_pins (cfg : Cfg) (hk : cfg.keep = false) (hm : cfg.maxDepth = none) (fuel : Nat) (top : Decl)
    (pins : List (Bool × Str × Str)) (s : St)
    (hnodup : (pins.map (·.2.1)).Nodup)
    (hfresh : ∀ p ∈ pins, aget s.already p.2.1 = none ∧ s.env.rec? p.2.1 = none) :
    (∀ r, runPins declaredS cfg pins (recNames s.env) = some r →
      ∃ s', acts (setup cfg (fuel + 1)) cfg true 0 false exactVro top (pins.map pinAct) s = .ok s' ∧ ∀ m, recNames s'.env m = r m) ∧
    (runPins declaredS cfg pins (recNames s.env) = none →
      ∃ s', acts (setup cfg (fuel + 1)) cfg true 0 false exactVro top (pins.map pinAct) s = .raised s') := by
  induction pins generalizing s with
  | nil =>
    constructor
    · intro r hr; simp [runPins] at hr; subst hr; exact ⟨s, by simp [acts], fun _ => rfl⟩
    · intro hr; simp [runPins] at hr
  | cons p rest ih =>
    obtain ⟨opt, n, v⟩ := p
    obtain ⟨hal, hrec⟩ := hfresh (opt, n, v) (by simp)
    simp only [List.map_cons, List.nodup_cons] at hnodup
    obtain ⟨hnot, hnd⟩ := hnodup
    obtain ⟨hdecl, hundecl⟩ := setup_pin cfg hk fuel n v s hal hrec
    have hkeep : (VroEnt.keep ∈ exactVro) = False := by simp [exactVro]
    cases hl : cfg.db.findVer cfg.path n v with
    | some d =>
      obtain ⟨s1, hs1, ⟨k, hrecs⟩, x, halr⟩ := hdecl d hl
      have hfresh1 : ∀ p ∈ rest, aget s1.already p.2.1 = none ∧ s1.env.rec? p.2.1 = none := by
        intro p hp
        have hne : p.2.1 ≠ n := fun e => hnot (by rw [← e]; exact List.mem_map_of_mem (f := fun q : Bool × Str × Str => q.2.1) hp)
        obtain ⟨h1, h2⟩ := hfresh p (by simp [hp])
        exact ⟨by rw [halr, aget_aset_other _ _ _ _ hne]; exact h1,
               by simp only [Env.rec?, hrecs]; rw [aget_aset_other _ _ _ _ hne]; exact h2⟩
      obtain ⟨ih1, ih2⟩ := ih s1 hnd hfresh1
      have hstep : acts (setup cfg (fuel + 1)) cfg true 0 false exactVro top (pinAct (opt, n, v) :: rest.map pinAct) s
          = acts (setup cfg (fuel + 1)) cfg true 0 false exactVro top (rest.map pinAct) s1 := by
        simp [acts, pinAct, hm, hkeep, hs1]
      have hrun : runPins declaredS cfg ((opt, n, v) :: rest) (recNames s.env)
          = runPins declaredS cfg rest (recNames s1.env) := by
        have : recNames s1.env = Recs.set (recNames s.env) n v := by
          funext m
          simp only [recNames, Env.rec?, hrecs, Recs.set]
          by_cases hmn : m = n
          · subst hmn; simp [aget_aset_same]
          · simp [hmn, aget_aset_other _ _ _ _ hmn]
        simp [runPins, declaredS, hl, this]
      simp only [List.map_cons]
      rw [hstep, hrun]
      exact ⟨ih1, ih2⟩
    | none =>
      have hs1 := hundecl hl
      cases opt with
      | true =>
        have hstep : acts (setup cfg (fuel + 1)) cfg true 0 false exactVro top (pinAct (true, n, v) :: rest.map pinAct) s
            = acts (setup cfg (fuel + 1)) cfg true 0 false exactVro top (rest.map pinAct) s := by
          simp [acts, pinAct, hm, hkeep, hs1]
        have hrun : runPins declaredS cfg ((true, n, v) :: rest) (recNames s.env)
            = runPins declaredS cfg rest (recNames s.env) := by
          simp [runPins, declaredS, hl]
        simp only [List.map_cons]
        rw [hstep, hrun]
        exact ih s hnd (fun p hp => hfresh p (by simp [hp]))
      | false =>
        have hrun : runPins declaredS cfg ((false, n, v) :: rest) (recNames s.env) = none := by
          simp [runPins, declaredS, hl]
        simp only [List.map_cons]
        rw [hrun]
        refine ⟨fun r hr => (by cases hr), fun _ => ?_⟩
        refine ⟨s, ?_⟩
        simp [acts, pinAct, hm, hkeep, hs1]

end EupsModel.Expand
