import EupsModel.Lemmas.LockR
/-! C09, repaired protocol — exclusion survives processes that are killed outright at any point.  The part of the
invariant that exclusion rests on — a holder's lock file is in the directory (`own`), two unrelated holders are both
shared (`excl`) — is inductive by itself, and a process that stops dead neither holds nor removes anything. -/
namespace EupsModel.LockR
open EupsModel.Lock (Pid Kind Err exFiles parentHolds)

structure MInv (s : St) : Prop where
  own  : ∀ i, hasFile (s.pc i) = true → (s.kind i, i) ∈ s.files
  excl : ∀ i j, i ≠ j → s.pc i = .hold → s.pc j = .hold → ¬ related s i j →
           (s.kind i = .ex ∨ s.kind j = .ex) → False

theorem minv_init (kind : Pid → Kind) (lp : Pid → Option Pid) (tries : Pid → Nat) : MInv (init kind lp tries) := by
  constructor <;> simp [init, hasFile]

/-- `p` moves to `v`; the file list becomes `fs'`, in which everybody else's files are still there -/
theorem MInv.update {s : St} (h : MInv s) (p : Pid) (v : PC) (d' : Bool) (fs' : List (Kind × Pid))
    (hkeep : ∀ f : Kind × Pid, f.2 ≠ p → f ∈ s.files → f ∈ fs')
    (hown : hasFile v = true → (s.kind p, p) ∈ fs')
    (hmx : v = .hold → ∀ j, j ≠ p → s.pc j = .hold → ¬ related s p j →
            (s.kind p = .ex ∨ s.kind j = .ex) → False) :
    MInv { s with dir := d', files := fs', pc := upd s.pc p v } := by
  refine ⟨?_, ?_⟩
  · intro i hi
    by_cases hip : i = p
    · subst hip
      have hi' : hasFile v = true := by simpa using hi
      exact hown hi'
    · have hi' : hasFile (s.pc i) = true := by simpa [upd, hip] using hi
      exact hkeep (s.kind i, i) hip (h.own i hi')
  · intro i j hij hi hj hrel hk
    have hi' : upd s.pc p v i = .hold := hi
    have hj' : upd s.pc p v j = .hold := hj
    have hrel' : ¬ related s i j := hrel
    have hk' : s.kind i = .ex ∨ s.kind j = .ex := hk
    by_cases hip : i = p
    · subst hip
      have hjp : j ≠ i := fun e => hij e.symm
      have hv : v = .hold := by simpa using hi'
      have hj'' : s.pc j = .hold := by simpa [upd, hjp] using hj'
      exact hmx hv j hjp hj'' hrel' hk'
    · have hi'' : s.pc i = .hold := by simpa [upd, hip] using hi'
      by_cases hjp : j = p
      · subst hjp
        have hv : v = .hold := by simpa using hj'
        have hrel'' : ¬ related s j i := fun r => hrel' (Or.symm r)
        exact hmx hv i hip hi'' hrel'' (Or.symm hk')
      · have hj'' : s.pc j = .hold := by simpa [upd, hjp] using hj'
        exact h.excl i j hij hi'' hj'' hrel' hk'

theorem MInv.move {s : St} (h : MInv s) (p : Pid) (v : PC) (hown : hasFile v = true → (s.kind p, p) ∈ s.files)
    (hmx : v = .hold → ∀ j, j ≠ p → s.pc j = .hold → ¬ related s p j →
            (s.kind p = .ex ∨ s.kind j = .ex) → False) : MInv (setPC s p v) :=
  h.update p v s.dir s.files (fun _ _ hf => hf) hown hmx

theorem minv_step (s : St) (p : Pid) (h : MInv s) : MInv (step s p) := by
  have nh : ∀ v : PC, v ≠ .hold → v = .hold → ∀ j, j ≠ p → s.pc j = .hold → ¬ related s p j →
      (s.kind p = .ex ∨ s.kind j = .ex) → False := fun v hv e => absurd e hv
  cases hpc : s.pc p with
  | mkdir l =>
    unfold step; simp only [hpc]
    repeat' split
    all_goals first
      | exact h.move p _ (by simp [hasFile]) (nh _ (by simp))
      | exact h.update p _ true s.files (fun _ _ hf => hf) (by simp [hasFile]) (nh _ (by simp))
  | scanAll l =>
    unfold step; simp only [hpc]
    split <;> exact h.move p _ (by simp [hasFile]) (nh _ (by simp))
  | scanMsg l =>
    unfold step; simp only [hpc]
    split <;> exact h.move p _ (by simp [hasFile]) (nh _ (by simp))
  | create l =>
    unfold step; simp only [hpc]
    split
    · split
      · rename_i hc
        exact h.move p _ (fun _ => by simpa using hc) (nh _ (by simp))
      · exact h.update p _ s.dir _ (fun _ _ hf => List.mem_cons_of_mem _ hf) (fun _ => by simp) (nh _ (by simp))
    · split <;> exact h.move p _ (by simp [hasFile]) (nh _ (by simp))
  | look l =>
    have hf : (s.kind p, p) ∈ s.files := h.own p (by simp [hpc, hasFile])
    by_cases he : (others p (s.lp p) (lookList (s.kind p) s.files)).isEmpty = true
    · have : step s p = setPC s p .hold := by simp [step, hpc, he]
      rw [this]
      refine h.move p _ (fun _ => hf) ?_
      intro _ j hjp hj hrel hk
      have hjf : (s.kind j, j) ∈ s.files := h.own j (by simp [hj, hasFile])
      have hl : (s.kind j, j) ∈ lookList (s.kind p) s.files := by
        cases hkp : s.kind p with
        | ex => simpa [lookList] using hjf
        | sh =>
          have hkj : s.kind j = .ex := by
            rcases hk with hk | hk
            · rw [hkp] at hk; cases hk
            · exact hk
          have hjf' : (Kind.ex, j) ∈ s.files := hkj ▸ hjf
          simp [lookList, exFiles, hjf', hkj]
      have := others_nonempty (i := p) (lp := s.lp p) hl hjp (fun e => hrel (Or.inl e))
      rw [he] at this; cases this
    · have : step s p = setPC s p (.lookMsg l) := by simp [step, hpc, he]
      rw [this]
      exact h.move p _ (fun _ => hf) (nh _ (by simp))
  | lookMsg l =>
    have hf : (s.kind p, p) ∈ s.files := h.own p (by simp [hpc, hasFile])
    unfold step; simp only [hpc]
    split <;> exact h.move p _ (fun _ => hf) (nh _ (by simp))
  | hold =>
    have hf : (s.kind p, p) ∈ s.files := h.own p (by simp [hpc, hasFile])
    have : step s p = setPC s p (.isdir .fin) := by simp [step, hpc]
    rw [this]; exact h.move p _ (fun _ => hf) (nh _ (by simp))
  | isdir a =>
    have hf : (s.kind p, p) ∈ s.files := h.own p (by simp [hpc, hasFile])
    unfold step; simp only [hpc]
    split
    · exact h.move p _ (fun _ => hf) (nh _ (by simp))
    · exact h.move p _ (by simp) (nh _ (afterPC_ne_hold a))
  | rexists a =>
    have hf : (s.kind p, p) ∈ s.files := h.own p (by simp [hpc, hasFile])
    unfold step; simp only [hpc]
    split
    · exact h.move p _ (fun _ => hf) (nh _ (by simp))
    · exact h.move p _ (by simp [hasFile]) (nh _ (by simp))
  | remove a =>
    unfold step; simp only [hpc]
    split
    · refine h.update p _ s.dir _ ?_ (by simp [hasFile]) (nh _ (by simp))
      intro f hfp hf
      have hne : f ≠ (s.kind p, p) := fun e => hfp (by rw [e])
      exact List.mem_filter.2 ⟨hf, by simpa using hne⟩
    · exact h.move p _ (by simp [hasFile]) (nh _ (by simp))
  | rmdir a =>
    unfold step; simp only [hpc]
    split
    · exact h.update p _ false s.files (fun _ _ hf => hf) (by simp) (nh _ (afterPC_ne_hold a))
    · exact h.move p _ (by simp) (nh _ (afterPC_ne_hold a))
  | done => have : step s p = s := by simp [step, hpc]
            rw [this]; exact h
  | failedAcq e => have : step s p = s := by simp [step, hpc]
                   rw [this]; exact h
  | failedRel e => have : step s p = s := by simp [step, hpc]
                   rw [this]; exact h
  | killed => have : step s p = s := by simp [step, hpc]
              rw [this]; exact h

theorem minv_interrupt (s : St) (p : Pid) (h : MInv s) : MInv (interrupt s p) := by
  unfold interrupt
  split
  · rename_i hpc
    have hf : (s.kind p, p) ∈ s.files := h.own p (by simp [hpc, hasFile])
    exact h.move p _ (fun _ => hf) (fun e => by cases e)
  · rename_i hpc
    have hf : (s.kind p, p) ∈ s.files := h.own p (by simp [hpc, hasFile])
    exact h.move p _ (fun _ => hf) (fun e => by cases e)
  · exact h.move p _ (by simp [hasFile]) (fun e => by cases e)
  · exact h

theorem minv_crash (s : St) (p : Pid) (h : MInv s) : MInv (crash s p) :=
  h.move p _ (by simp [hasFile]) (fun e => by cases e)

theorem minv_runK (s : St) (evs : List KEv) (h : MInv s) : MInv (runK s evs) := by
  induction evs generalizing s with
  | nil => exact h
  | cons e r ih =>
    refine ih (stepK s e) ?_
    cases e with
    | call i => exact minv_step s i h
    | intr i => exact minv_interrupt s i h
    | kill i => exact minv_crash s i h

end EupsModel.LockR
