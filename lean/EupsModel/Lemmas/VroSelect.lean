import EupsModel.Model.Vro
/-! Lemmas about `selectVRO` (Model/Vro.lean): where the -t and -T tags end up. -/
namespace EupsModel.Vro

/-! ## list facts -/

/-- the first occurrence of an element splits the list -/
theorem first_occurrence {x : Str} {l : List Str} (h : x ∈ l) : ∃ A B, l = A ++ x :: B ∧ x ∉ A := by
  induction l with
  | nil => cases h
  | cons y ys ih =>
    by_cases hy : y = x
    · exact ⟨[], ys, by simp [hy], by simp⟩
    · have : x ∈ ys := by
        rcases List.mem_cons.mp h with h | h
        · exact absurd h.symm hy
        · exact h
      obtain ⟨A, B, rfl, hA⟩ := ih this
      refine ⟨y :: A, B, rfl, ?_⟩
      intro hm
      rcases List.mem_cons.mp hm with hm | hm
      · exact hy hm.symm
      · exact hA hm

/-- an element that occurs once has one split -/
theorem unique_split {y : Str} {X Y X' Y' : List Str} (h : X ++ y :: Y = X' ++ y :: Y')
    (hX : y ∉ X) (hY : y ∉ Y) : X' = X := by
  induction X generalizing X' with
  | nil =>
    cases X' with
    | nil => rfl
    | cons x' X'' =>
      simp only [List.nil_append, List.cons_append, List.cons.injEq] at h
      obtain ⟨rfl, h⟩ := h
      exact absurd (by rw [h]; simp) hY
  | cons x X1 ih =>
    cases X' with
    | nil =>
      simp only [List.nil_append, List.cons_append, List.cons.injEq] at h
      exact absurd (by simp [h.1]) hX
    | cons x' X1' =>
      simp only [List.cons_append, List.cons.injEq] at h
      obtain ⟨rfl, h⟩ := h
      rw [ih h (fun hm => hX (List.mem_cons_of_mem _ hm))]

/-- if `y` is not in `X`, any occurrence of `y` in `X ++ Z` lies behind all of `X` -/
theorem prefix_of_not_mem {y : Str} {X Z pre post : List Str} (h : X ++ Z = pre ++ y :: post) (hX : y ∉ X) :
    ∃ R, pre = X ++ R := by
  induction X generalizing pre with
  | nil => exact ⟨pre, rfl⟩
  | cons x X1 ih =>
    cases pre with
    | nil =>
      simp only [List.cons_append, List.nil_append, List.cons.injEq] at h
      exact absurd (by simp [h.1]) hX
    | cons p pre1 =>
      simp only [List.cons_append, List.cons.injEq] at h
      obtain ⟨rfl, h⟩ := h
      obtain ⟨R, rfl⟩ := ih h (fun hm => hX (List.mem_cons_of_mem _ hm))
      exact ⟨R, rfl⟩

theorem suffix_of_not_mem {y : Str} {X Z pre post : List Str} (h : X ++ Z = pre ++ y :: post) (hX : y ∉ X) :
    ∃ R, pre = X ++ R ∧ Z = R ++ y :: post := by
  obtain ⟨R, rfl⟩ := prefix_of_not_mem h hX
  refine ⟨R, rfl, ?_⟩
  rw [List.append_assoc] at h
  exact List.append_cancel_left h

theorem takeWhile_self {p : Nat → Bool} {t : Str} (h : ∀ x ∈ t, p x = true) : t.takeWhile p = t := by
  induction t with
  | nil => rfl
  | cons x xs ih =>
    simp [h x (by simp), ih (fun y hy => h y (List.mem_cons_of_mem _ hy))]

/-! ## the two position relations -/

/-- `t` occurs in `l` and everything before that occurrence satisfies `P` -/
def BeforeP (P : Str → Prop) (t : Str) (l : List Str) : Prop :=
  ∃ pre post, l = pre ++ t :: post ∧ ∀ x ∈ pre, P x

/-- no version-type entry stands behind an occurrence of `y` in `l` -/
def NoVTBehind (y : Str) (l : List Str) : Prop :=
  ∀ pre post, l = pre ++ y :: post → ∀ x ∈ post, isVT x = false

theorem beforeP_first {P : Str → Prop} {t : Str} {l : List Str} (h : BeforeP P t l) :
    ∃ A B, l = A ++ t :: B ∧ t ∉ A ∧ ∀ x ∈ A, P x := by
  obtain ⟨pre, post, rfl, hpre⟩ := h
  induction pre with
  | nil => exact ⟨[], post, rfl, by simp, by simp⟩
  | cons x pre ih =>
    by_cases hx : x = t
    · exact ⟨[], pre ++ t :: post, by simp [hx], by simp, by simp⟩
    · obtain ⟨A, B, hAB, hA, hvt⟩ := ih (fun y hy => hpre y (List.mem_cons_of_mem _ hy))
      refine ⟨x :: A, B, by simp [hAB], ?_, ?_⟩
      · intro hm
        rcases List.mem_cons.mp hm with hm | hm
        · exact hx hm.symm
        · exact hA hm
      · intro y hy
        rcases List.mem_cons.mp hy with rfl | hy
        · exact hpre y (by simp)
        · exact hvt y hy

/-! ## `dedupe` on lists without warnings -/

def NoWarn (l : List Str) : Prop := ∀ x ∈ l, isWarn x = false

theorem noWarn_cons {x : Str} {l : List Str} : NoWarn (x :: l) ↔ isWarn x = false ∧ NoWarn l := by
  simp [NoWarn]

theorem noWarn_append {l m : List Str} : NoWarn (l ++ m) ↔ NoWarn l ∧ NoWarn m := by
  simp only [NoWarn, List.mem_append]
  constructor
  · intro h; exact ⟨fun x hx => h x (Or.inl hx), fun x hx => h x (Or.inr hx)⟩
  · rintro ⟨h1, h2⟩ x (hx | hx)
    · exact h1 x hx
    · exact h2 x hx

/-- the entries seen after processing `A` -/
def seenAfter (seen : List Str) : List Str → List Str
  | [] => seen
  | e :: rest => seenAfter (if seen.contains e then seen else e :: seen) rest

theorem mem_seenAfter (x : Str) (seen A : List Str) : x ∈ seenAfter seen A ↔ x ∈ seen ∨ x ∈ A := by
  induction A generalizing seen with
  | nil => simp [seenAfter]
  | cons e rest ih =>
    simp only [seenAfter, ih, List.mem_cons]
    by_cases hc : seen.contains e = true
    · simp only [hc, if_true]
      have he : e ∈ seen := by simpa using hc
      constructor
      · rintro (h | h)
        · exact Or.inl h
        · exact Or.inr (Or.inr h)
      · rintro (h | h | h)
        · exact Or.inl h
        · exact Or.inl (h ▸ he)
        · exact Or.inr h
    · have hc' : seen.contains e = false := by simpa using hc
      simp only [hc', Bool.false_eq_true, if_false, List.mem_cons]
      constructor
      · rintro ((h | h) | h)
        · exact Or.inr (Or.inl h)
        · exact Or.inl h
        · exact Or.inr (Or.inr h)
      · rintro (h | h | h)
        · exact Or.inl (Or.inr h)
        · exact Or.inl (Or.inl h)
        · exact Or.inr h

theorem dedupe_cons_noWarn {seen : List Str} {e : Str} {rest : List Str} (he : isWarn e = false) :
    dedupe seen (e :: rest) =
      if seen.contains e then dedupe seen rest else e :: dedupe (e :: seen) rest := by
  simp [dedupe, he]

theorem dedupe_append (seen A rest : List Str) (hA : NoWarn A) :
    dedupe seen (A ++ rest) = dedupe seen A ++ dedupe (seenAfter seen A) rest := by
  induction A generalizing seen with
  | nil => simp [dedupe, seenAfter]
  | cons e A ih =>
    obtain ⟨he, hA'⟩ := noWarn_cons.mp hA
    rw [List.cons_append, dedupe_cons_noWarn he, dedupe_cons_noWarn he]
    by_cases hc : seen.contains e = true
    · simp only [hc, if_true, seenAfter]
      exact ih seen hA'
    · have hc' : seen.contains e = false := by simpa using hc
      simp only [hc', Bool.false_eq_true, if_false, seenAfter]
      rw [ih (e :: seen) hA']
      rfl

theorem mem_dedupe (x : Str) (seen l : List Str) (hl : NoWarn l) :
    x ∈ dedupe seen l ↔ x ∈ l ∧ x ∉ seen := by
  induction l generalizing seen with
  | nil => simp [dedupe]
  | cons e rest ih =>
    obtain ⟨he, hr⟩ := noWarn_cons.mp hl
    rw [dedupe_cons_noWarn he]
    by_cases hc : seen.contains e = true
    · simp only [hc, if_true, ih seen hr, List.mem_cons]
      have hes : e ∈ seen := by simpa using hc
      constructor
      · rintro ⟨h1, h2⟩; exact ⟨Or.inr h1, h2⟩
      · rintro ⟨h1 | h1, h2⟩
        · exact absurd (h1 ▸ hes) h2
        · exact ⟨h1, h2⟩
    · have hes : e ∉ seen := by simpa using hc
      have hc' : seen.contains e = false := by simpa using hc
      simp only [hc', Bool.false_eq_true, if_false, List.mem_cons, ih (e :: seen) hr]
      constructor
      · rintro (h | ⟨h1, h2⟩)
        · exact ⟨Or.inl h, h ▸ hes⟩
        · exact ⟨Or.inr h1, fun hm => h2 (Or.inr hm)⟩
      · rintro ⟨h1 | h1, h2⟩
        · exact Or.inl h1
        · by_cases hxe : x = e
          · exact Or.inl hxe
          · right
            refine ⟨h1, ?_⟩
            rintro (hm | hm)
            · exact hxe hm
            · exact h2 hm

/-- the output of `dedupe` around the first occurrence of an entry -/
theorem dedupe_split {x : Str} {A B : List Str} (hl : NoWarn (A ++ x :: B)) (hA : x ∉ A) :
    ∃ B', dedupe [] (A ++ x :: B) = dedupe [] A ++ x :: B' ∧ x ∉ dedupe [] A ∧ x ∉ B' := by
  obtain ⟨hnA, hnxB⟩ := noWarn_append.mp hl
  obtain ⟨hx, hnB⟩ := noWarn_cons.mp hnxB
  have hS : x ∉ seenAfter [] A := by
    rw [mem_seenAfter]; simp [hA]
  have hc : (seenAfter [] A).contains x = false := by simpa using hS
  refine ⟨dedupe (x :: seenAfter [] A) B, ?_, ?_, ?_⟩
  · rw [dedupe_append [] A _ hnA, dedupe_cons_noWarn hx, hc]
    rfl
  · intro hm
    exact hA ((mem_dedupe x [] A hnA).mp hm).1
  · intro hm
    exact ((mem_dedupe x _ B hnB).mp hm).2 (by simp)

theorem beforeP_dedupe {P : Str → Prop} {t : Str} {l : List Str} (hl : NoWarn l) (h : BeforeP P t l) :
    BeforeP P t (dedupe [] l) := by
  obtain ⟨A, B, rfl, hA, hvt⟩ := beforeP_first h
  obtain ⟨B', hB', _, _⟩ := dedupe_split hl hA
  refine ⟨dedupe [] A, B', hB', ?_⟩
  intro x hx
  exact hvt x ((mem_dedupe x [] A (noWarn_append.mp hl).1).mp hx).1

theorem noVTBehind_dedupe {y : Str} {l : List Str} (hl : NoWarn l) (h : NoVTBehind y l) :
    NoVTBehind y (dedupe [] l) := by
  intro pre post hsplit
  have hy : y ∈ l := ((mem_dedupe y [] l hl).mp (by rw [hsplit]; simp)).1
  obtain ⟨A, B, rfl, hA⟩ := first_occurrence hy
  obtain ⟨B', hB', h1, h2⟩ := dedupe_split hl hA
  have hpre : pre = dedupe [] A := unique_split (hB'.symm.trans hsplit) h1 h2
  subst hpre
  have hpost : post = B' := by
    have := hB'.symm.trans hsplit
    simpa using (List.append_cancel_left this).symm
  subst hpost
  intro x hx
  -- B' = dedupe (..) B is made of entries of B
  have hxB : x ∈ B := by
    obtain ⟨hnA, hnxB⟩ := noWarn_append.mp hl
    obtain ⟨hx0, hnB⟩ := noWarn_cons.mp hnxB
    have hS : y ∉ seenAfter [] A := by rw [mem_seenAfter]; simp [hA]
    have hc : (seenAfter [] A).contains y = false := by simpa using hS
    have heq : dedupe [] (A ++ y :: B) = dedupe [] A ++ y :: dedupe (y :: seenAfter [] A) B := by
      rw [dedupe_append [] A _ hnA, dedupe_cons_noWarn hx0, hc]; rfl
    have : y :: post = y :: dedupe (y :: seenAfter [] A) B := by
      have := hB'.symm.trans heq
      exact List.append_cancel_left this
    have hpB : post = dedupe (y :: seenAfter [] A) B := by simpa using this
    rw [hpB] at hx
    exact ((mem_dedupe x _ B hnB).mp hx).1
  exact h A B rfl x hxB

/-! ## `mergeWarnings` on lists without warnings -/

theorem warnLevel_none_of_not_isWarn {e : Str} (h : isWarn e = false) : warnLevel e = none := by
  unfold isWarn at h
  unfold warnLevel
  have : (kWarnColon.isPrefixOf e && allDigits (e.drop kWarnColon.length)) = false := by
    cases hp : (kWarnColon.isPrefixOf e && allDigits (e.drop kWarnColon.length))
    · rfl
    · rw [hp] at h; simp at h
  simp [this]

theorem mergeWarnings_noWarn (l : List Str) (hl : NoWarn l) : mergeWarnings none l = l := by
  induction l with
  | nil => rfl
  | cons e rest ih =>
    obtain ⟨he, hr⟩ := noWarn_cons.mp hl
    simp [mergeWarnings, warnLevel_none_of_not_isWarn he, ih hr]

theorem noWarn_dedupe {l : List Str} (hl : NoWarn l) : NoWarn (dedupe [] l) := by
  intro x hx
  exact hl x ((mem_dedupe x [] l hl).mp hx).1


/-! ## filters -/

theorem beforeP_filter {P : Str → Prop} {t : Str} {l : List Str} (q : Str → Bool) (ht : q t = true)
    (h : BeforeP P t l) : BeforeP P t (l.filter q) := by
  obtain ⟨pre, post, rfl, hpre⟩ := h
  refine ⟨pre.filter q, post.filter q, by simp [List.filter_append, ht], ?_⟩
  intro x hx
  exact hpre x (List.mem_filter.mp hx).1

/-- a split of a filtered list comes from a split of the list -/
theorem filter_split {q : Str → Bool} {l pre post : List Str} {y : Str} (h : l.filter q = pre ++ y :: post) :
    ∃ A B, l = A ++ y :: B ∧ A.filter q = pre ∧ B.filter q = post := by
  induction l generalizing pre with
  | nil => simp at h
  | cons x xs ih =>
    by_cases hq : q x = true
    · rw [List.filter_cons_of_pos hq] at h
      cases pre with
      | nil =>
        simp only [List.nil_append, List.cons.injEq] at h
        obtain ⟨rfl, h⟩ := h
        exact ⟨[], xs, rfl, rfl, h⟩
      | cons p pre' =>
        simp only [List.cons_append, List.cons.injEq] at h
        obtain ⟨rfl, h⟩ := h
        obtain ⟨A, B, rfl, hA, hB⟩ := ih h
        exact ⟨x :: A, B, rfl, by simp [List.filter_cons_of_pos hq, hA], hB⟩
    · rw [List.filter_cons_of_neg hq] at h
      obtain ⟨A, B, rfl, hA, hB⟩ := ih h
      exact ⟨x :: A, B, rfl, by simp [List.filter_cons_of_neg hq, hA], hB⟩

theorem noVTBehind_filter {y : Str} {l : List Str} (q : Str → Bool) (h : NoVTBehind y l) :
    NoVTBehind y (l.filter q) := by
  intro pre post hsplit x hx
  obtain ⟨A, B, rfl, _, hB⟩ := filter_split hsplit
  rw [← hB] at hx
  exact h A B rfl x (List.mem_filter.mp hx).1

/-! ## `makeVroExact` -/

theorem mem_uniqFirst (x : Str) (l : List Str) : x ∈ uniqFirst l ↔ x ∈ l := by
  induction l with
  | nil => simp [uniqFirst]
  | cons y ys ih =>
    simp only [uniqFirst, List.mem_cons, List.mem_filter, ih]
    constructor
    · rintro (h | ⟨h, _⟩)
      · exact Or.inl h
      · exact Or.inr h
    · rintro (h | h)
      · exact Or.inl h
      · by_cases hxy : x = y
        · exact Or.inl hxy
        · exact Or.inr ⟨h, by simpa using hxy⟩

/-- the shape of `makeVroExact`'s output: what stays, perhaps a `warn:1`, what moved -/
theorem makeVroExact_shape (c : VroCfg) (cmd l : List Str) (hu : c.userVRO = false) :
    ∃ W, makeVroExact c cmd l =
        l.filter (fun e => !movedByExact c cmd e) ++ W ++ uniqFirst (l.filter (movedByExact c cmd)) ∧
      ∀ x ∈ W, x = kWarn1 := by
  unfold makeVroExact
  simp only [hu, Bool.false_eq_true, if_false]
  by_cases hm : (uniqFirst (l.filter (movedByExact c cmd))).isEmpty = true
  · refine ⟨[], ?_, by simp⟩
    have : uniqFirst (l.filter (movedByExact c cmd)) = [] := by simpa using hm
    simp [this]
  · simp only [hm, Bool.false_eq_true, if_false]
    split
    · exact ⟨[kWarn1], rfl, by simp⟩
    · exact ⟨[], rfl, by simp⟩

theorem beforeP_makeVroExact {P : Str → Prop} {t : Str} {l : List Str} (c : VroCfg) (cmd : List Str)
    (hu : c.userVRO = false) (ht : movedByExact c cmd t = false) (h : BeforeP P t l) :
    BeforeP P t (makeVroExact c cmd l) := by
  obtain ⟨W, hW, _⟩ := makeVroExact_shape c cmd l hu
  obtain ⟨pre, post, hf, hpre⟩ := beforeP_filter (fun e => !movedByExact c cmd e) (by simp [ht]) h
  refine ⟨pre, post ++ W ++ uniqFirst (l.filter (movedByExact c cmd)), ?_, hpre⟩
  rw [hW, hf]
  simp

theorem noVTBehind_makeVroExact {y : Str} {l : List Str} (c : VroCfg) (cmd : List Str)
    (hu : c.userVRO = false) (hy : movedByExact c cmd y = true)
    (hvt : ∀ x, isVT x = true → movedByExact c cmd x = false) :
    NoVTBehind y (makeVroExact c cmd l) := by
  obtain ⟨W, hW, hW1⟩ := makeVroExact_shape c cmd l hu
  intro pre post hsplit x hx
  rw [hW, List.append_assoc] at hsplit
  have hnot : y ∉ l.filter (fun e => !movedByExact c cmd e) := by
    intro hm
    have := (List.mem_filter.mp hm).2
    simp [hy] at this
  obtain ⟨R, _, hrest⟩ := suffix_of_not_mem hsplit hnot
  -- x lies in W ++ moved
  have hxm : x ∈ W ++ uniqFirst (l.filter (movedByExact c cmd)) := by
    rw [hrest]; simp [hx]
  rcases List.mem_append.mp hxm with hxw | hxm
  · rw [hW1 x hxw]; decide
  · have := (List.mem_filter.mp ((mem_uniqFirst x _).mp hxm)).2
    cases hv : isVT x
    · rfl
    · rw [hvt x hv] at this; cases this

theorem mem_makeVroExact {c : VroCfg} {cmd l : List Str} {x : Str} (hu : c.userVRO = false)
    (h : x ∈ makeVroExact c cmd l) : x ∈ l ∨ x = kWarn1 := by
  obtain ⟨W, hW, hW1⟩ := makeVroExact_shape c cmd l hu
  rw [hW] at h
  rcases List.mem_append.mp h with h | h
  · rcases List.mem_append.mp h with h | h
    · exact Or.inl (List.mem_filter.mp h).1
    · exact Or.inr (hW1 x h)
  · exact Or.inl (List.mem_filter.mp ((mem_uniqFirst x _).mp h)).1

theorem mem_makeVroExact_of_kept {c : VroCfg} {cmd l : List Str} {x : Str} (hu : c.userVRO = false)
    (hx : x ∈ l) (hk : movedByExact c cmd x = false) : x ∈ makeVroExact c cmd l := by
  obtain ⟨W, hW, _⟩ := makeVroExact_shape c cmd l hu
  rw [hW]
  apply List.mem_append_left
  apply List.mem_append_left
  exact List.mem_filter.mpr ⟨hx, by simp [hk]⟩

theorem mem_makeVroExact_of_moved {c : VroCfg} {cmd l : List Str} {x : Str} (hu : c.userVRO = false)
    (hx : x ∈ l) (hk : movedByExact c cmd x = true) : x ∈ makeVroExact c cmd l := by
  obtain ⟨W, hW, _⟩ := makeVroExact_shape c cmd l hu
  rw [hW]
  apply List.mem_append_right
  exact (mem_uniqFirst x _).mpr (List.mem_filter.mpr ⟨hx, hk⟩)

/-! ## `kindly` accepts a list of recognised entries as it is -/

theorem kindlyGo_all_ok (c : VroCfg) (l : List Str) (h : ∀ x ∈ l, kindlyOne c x = .ok true) :
    kindlyGo c l = .ok (l, false) := by
  induction l with
  | nil => rfl
  | cons x xs ih =>
    simp [kindlyGo, h x (by simp), ih (fun y hy => h y (List.mem_cons_of_mem _ hy))]

theorem kindly_all_ok (c : VroCfg) (l : List Str) (hne : l ≠ []) (h : ∀ x ∈ l, kindlyOne c x = .ok true) :
    kindly c l = .ok l := by
  unfold kindly
  rw [kindlyGo_all_ok c l h]
  cases l with
  | nil => exact absurd rfl hne
  | cons x xs => simp

/-! ## `placeTags` on the default VRO -/

theorem afterLast_append_some {p : Str → Bool} {l2 : List Str} {j : Nat} (l1 : List Str) (i : Nat)
    (h : afterLast p (i + l1.length) l2 = some j) : afterLast p i (l1 ++ l2) = some j := by
  induction l1 generalizing i with
  | nil => simpa using h
  | cons x l1 ih =>
    have : afterLast p (i + 1) (l1 ++ l2) = some j := by
      apply ih
      rw [← h]
      congr 1
      simp only [List.length_cons]
      omega
    simp [afterLast, this]

theorem afterLast_tail (n : Nat) : afterLast isVT n [kVersion, kVersionExpr, kCurrent] = some (n + 2) := by
  have h1 : isVT kVersion = true := by decide
  have h2 : isVT kVersionExpr = true := by decide
  have h3 : isVT kCurrent = false := by decide
  simp [afterLast, h2, h3]

theorem insertAt_length (X Y Z : List Str) : insertAt (X ++ Y) X.length Z = X ++ Z ++ Y := by
  simp [insertAt]

/-- `keep` at the head or not -/
def keepPart (keep : Bool) : List Str := if keep then [kKeep] else []

/-- the VRO right after the tags have been placed -/
def placed (keep : Bool) (tags postTags : List Str) : List Str :=
  keepPart keep ++ [kTypeExact, kCommandLine] ++ tags ++ [kVersion, kVersionExpr] ++ postTags ++ [kCurrent]

theorem withPretags_default (keep : Bool) (tags : List Str) :
    withPretags (if keep then kKeep :: defaultBase else defaultBase) tags
      = (keepPart keep ++ [kTypeExact, kCommandLine] ++ tags) ++ [kVersion, kVersionExpr, kCurrent] := by
  unfold withPretags pretagPos
  cases tags with
  | nil => cases keep <;> rfl
  | cons t ts =>
    cases keep
    · have : afterLast (fun v => v == kCommandLine || isType v) 0 defaultBase = some 2 := by decide
      simp only [List.isEmpty_cons, Bool.false_eq_true, if_false, this, Option.getD_some]
      rfl
    · have : afterLast (fun v => v == kCommandLine || isType v) 0 (kKeep :: defaultBase) = some 3 := by decide
      simp only [List.isEmpty_cons, Bool.false_eq_true, if_false, if_true, this, Option.getD_some]
      rfl

theorem placeTags_default (keep : Bool) (tags postTags : List Str) :
    placeTags keep defaultBase tags postTags = .ok (placed keep tags postTags) := by
  unfold placeTags
  simp only [withPretags_default]
  by_cases hp : postTags.isEmpty = true
  · have : postTags = [] := by simpa using hp
    subst this
    simp [placed]
  · simp only [hp, Bool.false_eq_true, if_false]
    have hal := afterLast_append_some (p := isVT) (keepPart keep ++ [kTypeExact, kCommandLine] ++ tags) 0
      (afterLast_tail _)
    rw [hal]
    simp only
    have hsplit : (keepPart keep ++ [kTypeExact, kCommandLine] ++ tags) ++ [kVersion, kVersionExpr, kCurrent]
        = (keepPart keep ++ [kTypeExact, kCommandLine] ++ tags ++ [kVersion, kVersionExpr]) ++ [kCurrent] := by simp
    have hlen : 0 + (keepPart keep ++ [kTypeExact, kCommandLine] ++ tags).length + 2
        = (keepPart keep ++ [kTypeExact, kCommandLine] ++ tags ++ [kVersion, kVersionExpr]).length := by
      simp only [List.length_append, List.length_cons, List.length_nil]
      omega
    rw [hsplit, hlen, insertAt_length]
    rfl


/-! ## the default configuration and well-behaved tag names -/

/-- a tag name as `-t` / `-T` accept it: a registered global tag that is not one of the words the
VRO machinery reserves -/
structure GoodTag (c : VroCfg) (t : Str) : Prop where
  global : c.globalTags.contains t = true
  notPseudo : pseudoTags.contains t = false
  noColon : t.contains colon = false
  notDefault : t ≠ kDefault

/-- the configuration of hooks.py: one dictionary entry, `default`; a fresh instance -/
structure DefaultCfg (c : VroCfg) : Prop where
  dict : c.vroDict = [(kDefault, .flat defaultBase)]
  user : c.userVRO = false
  cmd : c.cmdTags = []
  current : c.globalTags.contains kCurrent = true
  /-- `Tags.registerTag` refuses a name that is already registered in another group -/
  disjoint : ∀ t, c.globalTags.contains t = true → pseudoTags.contains t = false

theorem GoodTag.ne_pseudo {c : VroCfg} {t k : Str} (g : GoodTag c t) (hk : pseudoTags.contains k = true) : t ≠ k := by
  intro h
  rw [h] at g
  rw [g.notPseudo] at hk
  cases hk

theorem GoodTag.isVT {c : VroCfg} {t : Str} (g : GoodTag c t) : isVT t = false := by
  cases h : Vro.isVT t
  · rfl
  · have h3 : (t = kVersion ∨ t = kVersionBang) ∨ t = kVersionExpr := by simpa [Vro.isVT] using h
    rcases h3 with (h | h) | h
    · exact absurd h (g.ne_pseudo (by decide))
    · exact absurd h (g.ne_pseudo (by decide))
    · exact absurd h (g.ne_pseudo (by decide))

theorem not_prefix_of_noColon {p t : Str} (hp : colon ∈ p) (ht : t.contains colon = false) :
    p.isPrefixOf t = false := by
  cases h : p.isPrefixOf t
  · rfl
  · have := List.isPrefixOf_iff_prefix.mp h
    have hm : colon ∈ t := this.subset hp
    have : t.contains colon = true := by simpa using hm
    rw [ht] at this
    cases this

theorem GoodTag.isWarn {c : VroCfg} {t : Str} (g : GoodTag c t) : isWarn t = false := by
  unfold Vro.isWarn
  have h1 : (t == kWarn) = false := by
    apply Bool.eq_false_iff.mpr; intro h
    exact g.ne_pseudo (k := kWarn) (by decide) (by simpa using h)
  have h2 : kWarnColon.isPrefixOf t = false := not_prefix_of_noColon (by decide) g.noColon
  simp [h1, h2]

theorem GoodTag.isType {c : VroCfg} {t : Str} (g : GoodTag c t) : isType t = false := by
  unfold Vro.isType
  have h2 : kTypeColon.isPrefixOf t = false := not_prefix_of_noColon (by decide) g.noColon
  simp [h2]

theorem splitColon0_noColon {t : Str} (h : t.contains colon = false) : splitColon0 t = t := by
  unfold splitColon0
  apply takeWhile_self
  intro x hx
  have : colon ∉ t := by simpa using h
  have : x ≠ colon := fun hc => this (hc ▸ hx)
  simpa using this

theorem GoodTag.mem {c : VroCfg} {t : Str} (g : GoodTag c t) : t ∈ c.globalTags := by
  simpa using g.global

theorem GoodTag.recognized {c : VroCfg} {t : Str} (g : GoodTag c t) : c.recognized t = true := by
  simp [VroCfg.recognized, g.mem]

theorem GoodTag.kindly {c : VroCfg} {t : Str} (g : GoodTag c t) : kindlyOne c t = .ok true := by
  unfold kindlyOne
  have h1 : kFileColon.isPrefixOf t = false := not_prefix_of_noColon (by decide) g.noColon
  have hc : colon ∉ t := by simpa using g.noColon
  simp [h1, hc, g.recognized]

theorem GoodTag.moved {c : VroCfg} {t : Str} (g : GoodTag c t) (cmd : List Str) :
    movedByExact c cmd t = !cmd.contains t := by
  unfold movedByExact
  simp [splitColon0_noColon g.noColon, g.recognized, VroCfg.isGlobal, g.mem]

theorem goodTag_current {c : VroCfg} (d : DefaultCfg c) : GoodTag c kCurrent :=
  ⟨d.current, by decide, by decide, by decide⟩

/-- the fixed words of the default VRO (and `keep`, `warn:1`) are recognised and never moved -/
def fixedWords : List Str := [kKeep, kTypeExact, kCommandLine, kVersion, kVersionExpr, kWarn1, kVersionBang]

theorem fixed_kindly {c : VroCfg} {e : Str} (he : e ∈ fixedWords) : kindlyOne c e = .ok true := by
  have hrec : ∀ k, pseudoTags.contains k = true → c.recognized k = true := by
    intro k hk
    have : k ∈ pseudoTags := by simpa using hk
    simp [VroCfg.recognized, this]
  simp only [fixedWords, List.mem_cons, List.not_mem_nil, or_false] at he
  rcases he with rfl | rfl | rfl | rfl | rfl | rfl | rfl
  · have := hrec kKeep (by decide)
    unfold kindlyOne
    simp only [show kFileColon.isPrefixOf kKeep = false by decide, show kKeep.contains colon = false by decide, this]
    rfl
  · have := hrec kType (by decide)
    unfold kindlyOne
    simp only [show kFileColon.isPrefixOf kTypeExact = false by decide,
      show (kTypeExact.contains colon && kTypeExact.getLast? != some colon) = true by decide,
      show (countColons kTypeExact != 1) = false by decide, show splitColon0 kTypeExact = kType by decide, this]
    rfl
  · have := hrec kCommandLine (by decide)
    unfold kindlyOne
    simp only [show kFileColon.isPrefixOf kCommandLine = false by decide,
      show kCommandLine.contains colon = false by decide, this]
    rfl
  · have := hrec kVersion (by decide)
    unfold kindlyOne
    simp only [show kFileColon.isPrefixOf kVersion = false by decide,
      show kVersion.contains colon = false by decide, this]
    rfl
  · have := hrec kVersionExpr (by decide)
    unfold kindlyOne
    simp only [show kFileColon.isPrefixOf kVersionExpr = false by decide,
      show kVersionExpr.contains colon = false by decide, this]
    rfl
  · have := hrec kWarn (by decide)
    unfold kindlyOne
    simp only [show kFileColon.isPrefixOf kWarn1 = false by decide,
      show (kWarn1.contains colon && kWarn1.getLast? != some colon) = true by decide,
      show (countColons kWarn1 != 1) = false by decide, show splitColon0 kWarn1 = kWarn by decide, this]
    rfl
  · have := hrec kVersionBang (by decide)
    unfold kindlyOne
    simp only [show kFileColon.isPrefixOf kVersionBang = false by decide,
      show kVersionBang.contains colon = false by decide, this]
    rfl

theorem fixed_not_moved {c : VroCfg} (d : DefaultCfg c) (cmd : List Str) {e : Str} (he : e ∈ fixedWords) :
    movedByExact c cmd e = false := by
  have key : ∀ k, pseudoTags.contains k = true → (k == kLatest) = false →
      (!c.recognized k || (!cmd.contains k && c.isGlobal k)) = false := by
    intro k hk hl
    have hkm : k ∈ pseudoTags := by simpa using hk
    have h1 : c.recognized k = true := by simp [VroCfg.recognized, hkm]
    have h2 : c.globalTags.contains k = false := by
      cases h : c.globalTags.contains k
      · rfl
      · rw [d.disjoint k h] at hk; cases hk
    have h2' : k ∉ c.globalTags := by simpa using h2
    simp [h1, VroCfg.isGlobal, h2', hl]
  simp only [fixedWords, List.mem_cons, List.not_mem_nil, or_false] at he
  unfold movedByExact
  rcases he with rfl | rfl | rfl | rfl | rfl | rfl | rfl
  · simpa [show splitColon0 kKeep = kKeep by decide] using key kKeep (by decide) (by decide)
  · simpa [show splitColon0 kTypeExact = kType by decide] using key kType (by decide) (by decide)
  · simpa [show splitColon0 kCommandLine = kCommandLine by decide] using key kCommandLine (by decide) (by decide)
  · simpa [show splitColon0 kVersion = kVersion by decide] using key kVersion (by decide) (by decide)
  · simpa [show splitColon0 kVersionExpr = kVersionExpr by decide] using key kVersionExpr (by decide) (by decide)
  · simpa [show splitColon0 kWarn1 = kWarn by decide] using key kWarn (by decide) (by decide)
  · simpa [show splitColon0 kVersionBang = kVersionBang by decide] using key kVersionBang (by decide) (by decide)

theorem isVT_fixed {e : Str} (h : isVT e = true) : e ∈ fixedWords := by
  have h3 : (e = kVersion ∨ e = kVersionBang) ∨ e = kVersionExpr := by simpa [isVT] using h
  rcases h3 with (rfl | rfl) | rfl <;> simp [fixedWords]

/-! ## the list the tags are placed in -/

theorem mem_placed {keep : Bool} {tags postTags : List Str} {x : Str} (h : x ∈ placed keep tags postTags) :
    x ∈ fixedWords ∨ x ∈ tags ∨ x ∈ postTags ∨ x = kCurrent := by
  unfold placed keepPart at h
  simp only [List.mem_append, List.mem_cons, List.not_mem_nil, or_false] at h
  rcases h with ((((h | h) | h) | h) | h) | h
  · cases keep
    · simp at h
    · simp at h; subst h; simp [fixedWords]
  · rcases h with rfl | rfl <;> simp [fixedWords]
  · exact Or.inr (Or.inl h)
  · rcases h with rfl | rfl <;> simp [fixedWords]
  · exact Or.inr (Or.inr (Or.inl h))
  · exact Or.inr (Or.inr (Or.inr h))

theorem noWarn_placed {c : VroCfg} {keep : Bool} {tags postTags : List Str}
    (ht : ∀ t ∈ tags, GoodTag c t) (hp : ∀ t ∈ postTags, GoodTag c t) : NoWarn (placed keep tags postTags) := by
  intro x hx
  rcases mem_placed hx with h | h | h | h
  · simp only [fixedWords, List.mem_cons, List.not_mem_nil, or_false] at h
    -- `warn:1` is not in `placed`; rule it out through the membership of `placed`
    rcases h with rfl | rfl | rfl | rfl | rfl | rfl | rfl
    rotate_left 5
    · -- x = warn:1 would have to be one of the tags
      exfalso
      unfold placed keepPart at hx
      simp only [List.mem_append, List.mem_cons, List.not_mem_nil, or_false] at hx
      rcases hx with ((((h | h) | h) | h) | h) | h
      · cases keep
        · simp at h
        · simp at h; revert h; decide
      · revert h; decide
      · exact absurd (ht _ h).noColon (by decide)
      · revert h; decide
      · exact absurd (hp _ h).noColon (by decide)
      · revert h; decide
    all_goals decide
  · exact (ht x h).isWarn
  · exact (hp x h).isWarn
  · rw [h]; decide

theorem kVersion_mem_placed (keep : Bool) (tags postTags : List Str) :
    kVersion ∈ placed keep tags postTags ∧ kVersionExpr ∈ placed keep tags postTags := by
  unfold placed
  simp

/-- a -t tag stands in `placed` behind nothing but `keep`, `type:exact`, `commandLine` and earlier -t tags -/
theorem beforeP_placed (keep : Bool) (tags postTags : List Str) {t : Str} (ht : t ∈ tags) :
    BeforeP (fun x => x ∈ [kKeep, kTypeExact, kCommandLine] ∨ x ∈ tags) t (placed keep tags postTags) := by
  obtain ⟨ta, tb, rfl⟩ := List.append_of_mem ht
  refine ⟨keepPart keep ++ [kTypeExact, kCommandLine] ++ ta, tb ++ [kVersion, kVersionExpr] ++ postTags ++ [kCurrent],
    by simp [placed], ?_⟩
  intro x hx
  simp only [List.mem_append, List.mem_cons, List.not_mem_nil, or_false] at hx
  rcases hx with (hx | hx) | hx
  · cases keep
    · simp [keepPart] at hx
    · simp [keepPart] at hx; subst hx; simp
  · rcases hx with rfl | rfl <;> simp
  · right; simp [hx]

/-- no version-type entry stands behind a -T tag in `placed` -/
theorem noVTBehind_placed {c : VroCfg} (keep : Bool) {tags postTags : List Str}
    (hp : ∀ t ∈ postTags, GoodTag c t) {y : Str} (hy : GoodTag c y) (hyt : y ∉ tags) :
    NoVTBehind y (placed keep tags postTags) := by
  intro pre post hsplit x hx
  have hX : y ∉ keepPart keep ++ [kTypeExact, kCommandLine] ++ tags ++ [kVersion, kVersionExpr] := by
    simp only [List.mem_append, List.mem_cons, List.not_mem_nil, or_false, not_or]
    refine ⟨⟨⟨?_, ?_, ?_⟩, hyt⟩, ?_, ?_⟩
    · cases keep
      · simp [keepPart]
      · simp only [keepPart, if_true, List.mem_singleton]
        exact hy.ne_pseudo (by decide)
    · intro h; rw [h] at hy; exact absurd hy.noColon (by decide)
    · exact hy.ne_pseudo (by decide)
    · exact hy.ne_pseudo (by decide)
    · exact hy.ne_pseudo (by decide)
  have hsplit' : (keepPart keep ++ [kTypeExact, kCommandLine] ++ tags ++ [kVersion, kVersionExpr]) ++
      (postTags ++ [kCurrent]) = pre ++ y :: post := by
    rw [← hsplit]; simp [placed]
  obtain ⟨R, _, hrest⟩ := suffix_of_not_mem hsplit' hX
  have hxm : x ∈ postTags ++ [kCurrent] := by rw [hrest]; simp [hx]
  rcases List.mem_append.mp hxm with h | h
  · exact (hp x h).isVT
  · simp at h; rw [h]; decide


/-! ## `selectVRO` under the default configuration -/

theorem chooseBase_default {c : VroCfg} (d : DefaultCfg c) (a : VroArgs) {tags : List Str}
    (ht : ∀ t ∈ tags, t ≠ kDefault) :
    ∃ store, chooseBase c a tags = .ok (defaultBase, store) := by
  unfold chooseBase
  have hfind : tags.find? (fun t => (c.vroDict.map (·.1)).contains t) = none := by
    apply List.find?_eq_none.mpr
    intro t htm
    simp [d.dict, ht t htm]
  simp only [d.user, Bool.false_eq_true, if_false, hfind]
  have hkeys : c.vroDict.map (·.1) = [kDefault] := by simp [d.dict]
  rw [hkeys]
  have h1 : [kDefault].contains kPath = false := by decide
  have h2 : [kDefault].contains kCommandLine = false := by decide
  have h3 : [kDefault].contains kDefault = true := by decide
  have hl : lookupKey kDefault c.vroDict = some (.flat defaultBase) := by
    rw [d.dict]; simp [lookupKey]
  have n1 : kPath ≠ kDefault := by decide
  have n2 : kCommandLine ≠ kDefault := by decide
  cases a.productDir <;> cases a.versionName <;> simp [hl, n1, n2] <;> exact ⟨_, rfl⟩

/-- what `cleanVro` does to a list without warnings under the default configuration -/
theorem cleanVro_noWarn {c : VroCfg} (d : DefaultCfg c) (cmd : List Str) (inexact : Bool) {l : List Str}
    (hl : NoWarn l) :
    cleanVro c cmd inexact l =
      (fun x => if inexact then x.filter (· != kTypeExact) else x)
        (if c.exact then makeVroExact c cmd (dedupe [] l) else dedupe [] l) := by
  unfold cleanVro
  simp only [d.user, Bool.false_eq_true, if_false, mergeWarnings_noWarn _ (noWarn_dedupe hl)]

theorem mem_cleanVro {c : VroCfg} (d : DefaultCfg c) (cmd : List Str) (inexact : Bool) {l : List Str}
    (hl : NoWarn l) {x : Str} (hx : x ∈ cleanVro c cmd inexact l) : x ∈ l ∨ x = kWarn1 := by
  rw [cleanVro_noWarn d cmd inexact hl] at hx
  have h2 : ∀ x, x ∈ (if c.exact then makeVroExact c cmd (dedupe [] l) else dedupe [] l) → x ∈ l ∨ x = kWarn1 := by
    intro x hx
    cases hc : c.exact
    · simp only [hc, Bool.false_eq_true, if_false] at hx
      exact Or.inl ((mem_dedupe x [] l hl).mp hx).1
    · simp only [hc, if_true] at hx
      rcases mem_makeVroExact d.user hx with h | h
      · exact Or.inl ((mem_dedupe x [] l hl).mp h).1
      · exact Or.inr h
  cases inexact
  · exact h2 x hx
  · exact h2 x (List.mem_filter.mp hx).1

/-- an entry that is not `type:exact` survives `cleanVro` -/
theorem mem_cleanVro_of_mem {c : VroCfg} (d : DefaultCfg c) (cmd : List Str) (inexact : Bool) {l : List Str}
    (hl : NoWarn l) {x : Str} (hx : x ∈ l) (hne : x ≠ kTypeExact) : x ∈ cleanVro c cmd inexact l := by
  rw [cleanVro_noWarn d cmd inexact hl]
  have hd : x ∈ dedupe [] l := (mem_dedupe x [] l hl).mpr ⟨hx, by simp⟩
  have h2 : x ∈ (if c.exact then makeVroExact c cmd (dedupe [] l) else dedupe [] l) := by
    cases hc : c.exact
    · simpa [hc] using hd
    · simp only [if_true]
      cases hm : movedByExact c cmd x
      · exact mem_makeVroExact_of_kept d.user hd hm
      · exact mem_makeVroExact_of_moved d.user hd hm
  cases inexact
  · exact h2
  · exact List.mem_filter.mpr ⟨h2, by simpa using hne⟩

theorem beforeP_cleanVro {c : VroCfg} (d : DefaultCfg c) (cmd : List Str) (inexact : Bool) {l : List Str}
    (hl : NoWarn l) {P : Str → Prop} {t : Str} (hm : movedByExact c cmd t = false) (hne : t ≠ kTypeExact)
    (h : BeforeP P t l) : BeforeP P t (cleanVro c cmd inexact l) := by
  rw [cleanVro_noWarn d cmd inexact hl]
  have h1 := beforeP_dedupe hl h
  have h2 : BeforeP P t (if c.exact then makeVroExact c cmd (dedupe [] l) else dedupe [] l) := by
    cases hc : c.exact
    · simpa [hc] using h1
    · simpa [hc] using beforeP_makeVroExact c cmd d.user hm h1
  cases inexact
  · exact h2
  · exact beforeP_filter _ (by simpa using hne) h2

theorem noVTBehind_cleanVro {c : VroCfg} (d : DefaultCfg c) (cmd : List Str) (inexact : Bool) {l : List Str}
    (hl : NoWarn l) {y : Str} (hm : movedByExact c cmd y = true)
    (hvt : ∀ x, isVT x = true → movedByExact c cmd x = false)
    (h : NoVTBehind y l) : NoVTBehind y (cleanVro c cmd inexact l) := by
  rw [cleanVro_noWarn d cmd inexact hl]
  have h1 := noVTBehind_dedupe hl h
  have h2 : NoVTBehind y (if c.exact then makeVroExact c cmd (dedupe [] l) else dedupe [] l) := by
    cases hc : c.exact
    · simpa [hc] using h1
    · simpa [hc] using noVTBehind_makeVroExact c cmd d.user hm hvt
  cases inexact
  · exact h2
  · exact noVTBehind_filter _ h2

/-- Under the default configuration `selectVRO` succeeds, and the VRO it leaves is `cleanVro` of the
list with the tags placed. -/
theorem selectVRO_default {c : VroCfg} (d : DefaultCfg c) (a : VroArgs)
    (ht : ∀ t ∈ a.tags, GoodTag c t) (hp : ∀ t ∈ a.postTags, GoodTag c t) :
    ∃ out, selectVRO c a = .ok out ∧
      out.vro = cleanVro c a.tags a.inexact (placed c.keep a.tags a.postTags) := by
  obtain ⟨store, hcb⟩ := chooseBase_default d a (tags := a.tags) (fun t htm => (ht t htm).notDefault)
  have hcmd : (if a.tags.isEmpty then c.cmdTags else a.tags) = a.tags := by
    cases hta : a.tags with
    | nil => simp [d.cmd]
    | cons t ts => simp
  have hnw := noWarn_placed (keep := c.keep) ht hp
  -- every entry of the cleaned list is accepted by `_kindlySetPreferredTags`
  have hok : ∀ x ∈ cleanVro c a.tags a.inexact (placed c.keep a.tags a.postTags), kindlyOne c x = .ok true := by
    intro x hx
    rcases mem_cleanVro d a.tags a.inexact hnw hx with h | h
    · rcases mem_placed h with h | h | h | h
      · exact fixed_kindly h
      · exact (ht x h).kindly
      · exact (hp x h).kindly
      · rw [h]; exact (goodTag_current d).kindly
    · rw [h]; exact fixed_kindly (by simp [fixedWords])
  have hne : cleanVro c a.tags a.inexact (placed c.keep a.tags a.postTags) ≠ [] := by
    have := mem_cleanVro_of_mem d a.tags a.inexact hnw (kVersion_mem_placed c.keep a.tags a.postTags).1 (by decide)
    intro h; rw [h] at this; cases this
  have hk := kindly_all_ok c _ hne hok
  unfold selectVRO
  simp only [d.user, Bool.false_and, Bool.false_eq_true, if_false, hcb, placeTags_default, hcmd, hk]
  exact ⟨_, rfl, rfl⟩

/-- a list with a version-type entry splits at its last one -/
theorem last_VT_split {l : List Str} (h : ∃ x ∈ l, isVT x = true) :
    ∃ pre e post, l = pre ++ e :: post ∧ isVT e = true ∧ ∀ x ∈ post, isVT x = false := by
  induction l with
  | nil => obtain ⟨x, hx, _⟩ := h; cases hx
  | cons y ys ih =>
    by_cases hys : ∃ x ∈ ys, isVT x = true
    · obtain ⟨pre, e, post, rfl, he, hpost⟩ := ih hys
      exact ⟨y :: pre, e, post, rfl, he, hpost⟩
    · have hno : ∀ x ∈ ys, isVT x = false := by
        intro x hx
        cases hv : isVT x
        · rfl
        · exact absurd ⟨x, hx, hv⟩ hys
      obtain ⟨x, hx, hv⟩ := h
      rcases List.mem_cons.mp hx with rfl | hx
      · exact ⟨[], x, ys, rfl, hv, hno⟩
      · rw [hno x hx] at hv; cases hv

end EupsModel.Vro
