import EupsModel.Lemmas.SetupUnwind
/-! C01 clause (c), forward direction, under `NameDag` (a rank on product *names* that every dependency line
strictly decreases).  All facts about the recursive call are collected in `RecOK`; every lemma about `acts`,
`unwind` and `install` is generic in a call satisfying it, and `setup_recOK` is one induction on fuel. -/
namespace EupsModel.Setup

def Empty : Prod → Prop := fun _ => False

def NameDag (db : Db) (rank : Name → Nat) : Prop :=
  ∀ d ∈ db.decls, ∀ g n o j v x t kl, (g, Act.dep n o j v x t kl) ∈ d.table → rank n < rank d.name

def Res.st? : Res → Option St
  | .ok s | .notFound s | .raised s => some s
  | .fuel => none

/-- `alreadySetupProducts` keeps holding declarations under their own names, whatever the outcome -/
def AlOK (cfg : Cfg) (rec : Rec) : Prop :=
  ∀ fwd depth noRec vro n ver vexpr s s', AlreadyOK cfg.db s.already →
    (rec fwd depth noRec vro n ver vexpr s).st? = some s' → AlreadyOK cfg.db s'.already

/-- what the no-residue proof needs of the recursive call -/
structure RecOK (cfg : Cfg) (rank : Name → Nat) (rec : Rec) : Prop where
  already : AlOK cfg rec
  /-- a request for `n` changes records only of `n` and of names of smaller rank -/
  frame : ∀ fwd depth noRec vro n ver vexpr s s', AlreadyOK cfg.db s.already →
    rec fwd depth noRec vro n ver vexpr s = .ok s' → ∀ m, m ≠ n → rank n ≤ rank m → s'.env.rec? m = s.env.rec? m
  /-- unsetup direction: no exception; "not found" only when the product is not set up -/
  unfail : ∀ depth noRec vro n ver vexpr s s', rec false depth noRec vro n ver vexpr s ≠ .raised s' ∧
    (rec false depth noRec vro n ver vexpr s = .notFound s' → setupProd cfg.db s.env n = none)
  unspec : UnSpec cfg rec
  unsets : ∀ depth noRec vro n ver vexpr s s', WellOwned cfg s.env →
    rec false depth noRec vro n ver vexpr s = .ok s' → s'.env.rec? n = none
  /-- a successful request keeps a residue-free environment residue-free -/
  spec : ∀ fwd depth noRec vro n ver vexpr s s', AlreadyOK cfg.db s.already → WellOwned cfg s.env →
    NoResidue Empty s.env → rec fwd depth noRec vro n ver vexpr s = .ok s' →
    NoResidue Empty s'.env ∧ WellOwned cfg s'.env

/-! ### single actions -/

@[simp] theorem apply_already (fwd : Bool) (p : Prod) (a : Act) (s : St) : (a.apply fwd p s).already = s.already := by
  cases a <;> cases fwd <;> rfl

theorem apply_rec? (fwd : Bool) (p : Prod) (a : Act) (s : St) (m : Name) :
    (a.apply fwd p s).env.rec? m = s.env.rec? m := by
  cases a <;> cases fwd <;> rfl

theorem apply_true_spec (cfg : Cfg) (p : Prod) (a : Act) (s : St) (ha : a ∈ tableOf cfg p)
    (hr : s.env.rec? p.1 = some p.2) (hw : WellOwned cfg s.env) (hn : NoResidue Empty s.env) :
    NoResidue Empty (a.apply true p s).env ∧ WellOwned cfg (a.apply true p s).env := by
  cases a with
  | prepend var vals app =>
    have hmem : ∀ var2 p' rel', Elem.own p' rel' ∈ (s.env.addPath var (vals.map (Val.elem p)) app).pathOf var2 →
        (var2 = var ∧ Val.own rel' ∈ vals ∧ p' = p) ∨ Elem.own p' rel' ∈ s.env.pathOf var2 := by
      intro var2 p' rel' hm
      rcases mem_pathOf_addPath s.env var var2 (vals.map (Val.elem p)) _ app hm with ⟨hv, he⟩ | h
      · left
        obtain ⟨val, hval, he⟩ := List.mem_map.1 he
        cases val with
        | own rel => simp [Val.elem] at he; exact ⟨hv, by rw [← he.2]; exact hval, he.1.symm⟩
        | lit s => simp [Val.elem] at he
      · exact Or.inr h
    constructor
    · refine ⟨?_, hn.vars, hn.dirs⟩
      intro var2 p' rel' hm
      rcases hmem var2 p' rel' hm with ⟨_, _, rfl⟩ | h
      · exact Or.inr hr
      · exact hn.path var2 p' rel' h
    · refine ⟨?_, hw.vars, hw.dirs⟩
      intro var2 p' rel' hm
      rcases hmem var2 p' rel' hm with ⟨rfl, hval, rfl⟩ | h
      · exact ⟨vals, app, ha, hval⟩
      · exact hw.path var2 p' rel' h
  | set var val =>
    have hmem : ∀ var2 p' rel', aget (aset s.env.vars var (val.elem p)) var2 = some (Elem.own p' rel') →
        (var2 = var ∧ val = .own rel' ∧ p' = p) ∨ aget s.env.vars var2 = some (Elem.own p' rel') := by
      intro var2 p' rel' hm
      by_cases hv : var2 = var
      · subst hv
        rw [aget_aset_same] at hm
        left
        cases val with
        | own rel => simp [Val.elem] at hm; exact ⟨rfl, by rw [hm.2], hm.1.symm⟩
        | lit s => simp [Val.elem] at hm
      · rw [aget_aset_other _ _ _ _ hv] at hm; exact Or.inr hm
    constructor
    · refine ⟨hn.path, ?_, hn.dirs⟩
      intro var2 p' rel' hm
      rcases hmem var2 p' rel' hm with ⟨_, _, rfl⟩ | h
      · exact Or.inr hr
      · exact hn.vars var2 p' rel' h
    · refine ⟨hw.path, ?_, hw.dirs⟩
      intro var2 p' rel' hm
      rcases hmem var2 p' rel' hm with ⟨rfl, rfl, rfl⟩ | h
      · exact ha
      · exact hw.vars var2 p' rel' h
  | alias key val => exact ⟨hn, hw⟩
  | dep n o j v x t kl => exact ⟨hn, hw⟩

/-! ### the table interpreter, generic in the recursive call -/

theorem acts_already (cfg : Cfg) (rec : Rec) (hal : AlOK cfg rec) (fwd : Bool) (depth : Nat)
    (noRec : Bool) (vro : List VroEnt) (d : Decl) (l : List Act) :
    ∀ s s', AlreadyOK cfg.db s.already → (acts rec cfg fwd depth noRec vro d l s).st? = some s' →
      AlreadyOK cfg.db s'.already := by
  induction l with
  | nil => intro s s' ha h; simp [acts, Res.st?] at h; subst h; exact ha
  | cons a rest ih =>
    intro s s' ha h
    by_cases hdep : ∃ n o j v x t kl, a = .dep n o j v x t kl
    · obtain ⟨n, o, j, v, x, t, kl, rfl⟩ := hdep
      simp only [acts] at h
      split at h
      · exact ih s s' ha h
      · split at h
        · rename_i s1 hr
          exact ih s1 s' (hal _ _ _ _ _ _ _ _ _ ha (by rw [hr]; rfl)) h
        · simp [Res.st?] at h
        · rename_i s1 hr
          have h1 : AlreadyOK cfg.db s1.already := hal _ _ _ _ _ _ _ _ _ ha (by rw [hr]; rfl)
          split at h
          · simp [Res.st?] at h; subst h; exact h1
          · exact ih ⟨s.env, s.aliases, s.unaliased, s1.already, s1.cache⟩ s' h1 h
        · rename_i s1 hr
          have h1 : AlreadyOK cfg.db s1.already := hal _ _ _ _ _ _ _ _ _ ha (by rw [hr]; rfl)
          split at h
          · simp [Res.st?] at h; subst h; exact h1
          · exact ih ⟨s.env, s.aliases, s.unaliased, s1.already, s1.cache⟩ s' h1 h
    · have hnd : ∀ n o j v x t kl, a ≠ .dep n o j v x t kl := fun n o j v x t kl e => hdep ⟨n, o, j, v, x, t, kl, e⟩
      rw [acts_cons_nondep rec cfg fwd depth noRec vro d a rest s hnd] at h
      exact ih _ s' (by simpa using ha) h

theorem acts_frame (cfg : Cfg) (rank : Name → Nat) (rec : Rec) (hrec : RecOK cfg rank rec) (fwd : Bool) (depth : Nat)
    (noRec : Bool) (vro : List VroEnt) (d : Decl) (r : Nat) (l : List Act)
    (hl : ∀ n o j v x t kl, Act.dep n o j v x t kl ∈ l → rank n < r) :
    ∀ s s', AlreadyOK cfg.db s.already → acts rec cfg fwd depth noRec vro d l s = .ok s' →
      ∀ m, r ≤ rank m → s'.env.rec? m = s.env.rec? m := by
  induction l with
  | nil => intro s s' _ h m _; simp [acts] at h; subst h; rfl
  | cons a rest ih =>
    have hl' : ∀ n o j v x t kl, Act.dep n o j v x t kl ∈ rest → rank n < r :=
      fun n o j v x t kl hm => hl n o j v x t kl (List.mem_cons_of_mem _ hm)
    intro s s' ha h m hm
    by_cases hdep : ∃ n o j v x t kl, a = .dep n o j v x t kl
    · obtain ⟨n, o, j, v, x, t, kl, rfl⟩ := hdep
      have hn : rank n < r := hl n o j v x t kl (by simp)
      simp only [acts] at h
      split at h
      · exact ih hl' s s' ha h m hm
      · split at h
        · rename_i s1 hr
          have h1 := hrec.frame _ _ _ _ _ _ _ _ _ ha hr m (by intro e; subst e; omega) (by omega)
          rw [ih hl' s1 s' (hrec.already _ _ _ _ _ _ _ _ _ ha (by rw [hr]; rfl)) h m hm, h1]
        · cases h
        · rename_i s1 hr
          have h1 : AlreadyOK cfg.db s1.already := hrec.already _ _ _ _ _ _ _ _ _ ha (by rw [hr]; rfl)
          split at h
          · cases h
          · exact ih hl' ⟨s.env, s.aliases, s.unaliased, s1.already, s1.cache⟩ s' h1 h m hm
        · rename_i s1 hr
          have h1 : AlreadyOK cfg.db s1.already := hrec.already _ _ _ _ _ _ _ _ _ ha (by rw [hr]; rfl)
          split at h
          · cases h
          · exact ih hl' ⟨s.env, s.aliases, s.unaliased, s1.already, s1.cache⟩ s' h1 h m hm
    · have hnd : ∀ n o j v x t kl, a ≠ .dep n o j v x t kl := fun n o j v x t kl e => hdep ⟨n, o, j, v, x, t, kl, e⟩
      rw [acts_cons_nondep rec cfg fwd depth noRec vro d a rest s hnd] at h
      rw [ih hl' _ s' (by simpa using ha) h m hm, apply_rec?]

/-- unsetup direction never fails, whatever the recursive call does -/
theorem acts_false_ne_fail (rec : Rec) (cfg : Cfg) (depth : Nat) (noRec : Bool) (vro : List VroEnt) (d : Decl)
    (l : List Act) : ∀ s s', acts rec cfg false depth noRec vro d l s ≠ .raised s' ∧
      acts rec cfg false depth noRec vro d l s ≠ .notFound s' := by
  induction l with
  | nil => intro s s'; simp [acts]
  | cons a rest ih =>
    intro s s'
    by_cases hdep : ∃ n o j v x t kl, a = .dep n o j v x t kl
    · obtain ⟨n, o, j, v, x, t, kl, rfl⟩ := hdep
      simp only [acts]
      split
      · exact ih s s'
      · split
        · exact ih _ s'
        · simp
        · simp only [Bool.false_and, Bool.false_eq_true, if_false]; exact ih _ s'
        · simp only [Bool.false_and, Bool.false_eq_true, if_false]; exact ih _ s'
    · have hnd : ∀ n o j v x t kl, a ≠ .dep n o j v x t kl := fun n o j v x t kl e => hdep ⟨n, o, j, v, x, t, kl, e⟩
      rw [acts_cons_nondep rec cfg false depth noRec vro d a rest s hnd]
      exact ih _ s'

theorem acts_true_spec (cfg : Cfg) (rank : Name → Nat) (rec : Rec) (hrec : RecOK cfg rank rec) (depth : Nat)
    (noRec : Bool) (vro : List VroEnt) (d : Decl) (l : List Act)
    (hl : ∀ n o j v x t kl, Act.dep n o j v x t kl ∈ l → rank n < rank d.name)
    (hc : ∀ a ∈ l, a ∈ tableOf cfg d.prod) :
    ∀ s s', AlreadyOK cfg.db s.already → WellOwned cfg s.env → NoResidue Empty s.env →
      s.env.rec? d.name = some d.ver → acts rec cfg true depth noRec vro d l s = .ok s' →
      NoResidue Empty s'.env ∧ WellOwned cfg s'.env := by
  induction l with
  | nil => intro s s' _ hw hn _ h; simp [acts] at h; subst h; exact ⟨hn, hw⟩
  | cons a rest ih =>
    have hl' : ∀ n o j v x t kl, Act.dep n o j v x t kl ∈ rest → rank n < rank d.name :=
      fun n o j v x t kl hm => hl n o j v x t kl (List.mem_cons_of_mem _ hm)
    have hc' : ∀ a ∈ rest, a ∈ tableOf cfg d.prod := fun a hm => hc a (List.mem_cons_of_mem _ hm)
    intro s s' ha hw hn hr h
    by_cases hdep : ∃ n o j v x t kl, a = .dep n o j v x t kl
    · obtain ⟨n, o, j, v, x, t, kl, rfl⟩ := hdep
      have hnr : rank n < rank d.name := hl n o j v x t kl (by simp)
      simp only [acts] at h
      split at h
      · exact ih hl' hc' s s' ha hw hn hr h
      · split at h
        · rename_i s1 hr1
          obtain ⟨hn1, hw1⟩ := hrec.spec _ _ _ _ _ _ _ _ _ ha hw hn hr1
          have hrec1 : s1.env.rec? d.name = some d.ver := by
            rw [hrec.frame _ _ _ _ _ _ _ _ _ ha hr1 d.name (by intro e; rw [e] at hnr; omega) (by omega)]; exact hr
          exact ih hl' hc' s1 s' (hrec.already _ _ _ _ _ _ _ _ _ ha (by rw [hr1]; rfl)) hw1 hn1 hrec1 h
        · cases h
        · rename_i s1 hr1
          have h1 : AlreadyOK cfg.db s1.already := hrec.already _ _ _ _ _ _ _ _ _ ha (by rw [hr1]; rfl)
          split at h
          · cases h
          · exact ih hl' hc' ⟨s.env, s.aliases, s.unaliased, s1.already, s1.cache⟩ s' h1 hw hn hr h
        · rename_i s1 hr1
          have h1 : AlreadyOK cfg.db s1.already := hrec.already _ _ _ _ _ _ _ _ _ ha (by rw [hr1]; rfl)
          split at h
          · cases h
          · exact ih hl' hc' ⟨s.env, s.aliases, s.unaliased, s1.already, s1.cache⟩ s' h1 hw hn hr h
    · have hnd : ∀ n o j v x t kl, a ≠ .dep n o j v x t kl := fun n o j v x t kl e => hdep ⟨n, o, j, v, x, t, kl, e⟩
      rw [acts_cons_nondep rec cfg true depth noRec vro d a rest s hnd] at h
      obtain ⟨hn1, hw1⟩ := apply_true_spec cfg d.prod a s (hc a (by simp)) hr hw hn
      exact ih hl' hc' _ s' (by simpa using ha) hw1 hn1 (by rw [apply_rec?]; exact hr) h

end EupsModel.Setup
