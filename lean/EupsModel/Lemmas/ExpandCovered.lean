import EupsModel.Lemmas.Expand
/-! `Covered` is not only sufficient for exact reproduction (`C17_exact_reproduces_*`) but necessary: a product that no
product of the table contributes to `desiredProducts` gets no pin, and `runPins` records nothing but pins. -/
set_option linter.unusedSimpArgs false
namespace EupsModel.Expand
open EupsModel

/-- soundness of the closure collection in terms of `contrib`: a new entry of `desiredProducts` is contributed by the
product being processed -/
theorem collectStep_contrib {A : Answers} {o : Opts} {c c' : CState} {p : Prod}
    (h : collectStep A o c p = .ok c') (q : Str × Str) (hq : q ∈ c'.desired) :
    q ∈ c.desired ∨ ∃ d ∈ contrib A o p, (d.name, d.version) = q := by
  unfold collectStep at h
  split at h
  · cases h; exact .inl hq
  · rename_i htl
    split at h
    · cases h; exact .inl hq
    · rename_i hext
      split at h
      · split at h
        · cases h
        · cases h; exact .inl hq
      · rename_i v hv
        split at h
        · rename_i hrc
          split at h
          · cases h
          · split at h
            · cases h
            · cases h; exact .inl hq
          · rename_i l hl
            cases h
            rcases mem_foldl_addDesired _ _ _ hq with h1 | ⟨d, hd, rfl⟩
            · exact .inl h1
            · refine .inr ⟨d, ?_, rfl⟩
              simp only [contrib, htl, hext, hv, hrc, hl, Bool.false_eq_true, if_false, if_true]
              exact hd
        · rename_i hrc
          cases h
          rcases mem_addDesired hq with h1 | rfl
          · exact .inl h1
          · refine .inr ⟨⟨p.name, v, p.optional⟩, ?_, rfl⟩
            simp [contrib, htl, hext, hv, hrc]

theorem foldlM_collect_contrib {A : Answers} {o : Opts} (ps : List Prod) (c c' : CState)
    (h : ps.foldlM (collectStep A o) c = .ok c') (q : Str × Str) (hq : q ∈ c'.desired) :
    q ∈ c.desired ∨ ∃ p ∈ ps, ∃ d ∈ contrib A o p, (d.name, d.version) = q := by
  induction ps generalizing c with
  | nil => simp [List.foldlM, pure, Except.pure] at h; cases h; exact .inl hq
  | cons p ps ih =>
    simp only [List.foldlM_cons, bind, Except.bind] at h
    cases hs : collectStep A o c p with
    | error e => simp [hs] at h
    | ok c1 =>
      simp only [hs] at h
      rcases ih c1 h with h1 | ⟨p', hp', d, hd, e⟩
      · rcases collectStep_contrib hs q h1 with h2 | ⟨d, hd, e⟩
        · exact .inl h2
        · exact .inr ⟨p, by simp, d, hd, e⟩
      · exact .inr ⟨p', by simp [hp'], d, hd, e⟩

/-- every entry of `desiredProducts` is contributed by a product of the table -/
theorem collect_contrib {A : Answers} {o : Opts} {st : RState} {c : CState}
    (h : collect A o st = .ok c) (q : Str × Str) (hq : q ∈ c.desired) :
    ∃ p ∈ st.products, ∃ d ∈ contrib A o p, (d.name, d.version) = q := by
  unfold collect at h
  rcases foldlM_collect_contrib _ _ _ h q hq with h1 | h1
  · simp at h1
  · exact h1

/-- `runPins` records nothing but pins: a name it has not been given a pin for keeps its initial record -/
theorem runPins_frame {Db : Type} (declared : Db → Str → Str → Bool) (db : Db) (pins : List (Bool × Str × Str)) (r0 r : Recs)
    (h : runPins declared db pins r0 = some r) (n : Str) (hn : ¬ ∃ x ∈ pins, x.2.1 = n) : r n = r0 n := by
  induction pins generalizing r0 with
  | nil => simp [runPins] at h; subst h; rfl
  | cons x rest ih =>
    obtain ⟨opt, n0, v0⟩ := x
    have hrest : ¬ ∃ y ∈ rest, y.2.1 = n := fun ⟨y, hy, e⟩ => hn ⟨y, by simp [hy], e⟩
    have hne : n ≠ n0 := fun e => hn ⟨(opt, n0, v0), by simp, e.symm⟩
    simp only [runPins] at h
    split at h
    · rw [ih _ h hrest]; simp [Recs.set, hne]
    · split at h
      · exact ih _ h hrest
      · cases h

end EupsModel.Expand
