import EupsModel.Lemmas.PathAct
/-! `${EUPS_PATH[n]}` in the arguments of table actions (`Model/PathAct.lean`, repair of D122): every subscripted
reference is replaced by its own element of `$EUPS_PATH`, and the text around it stays. -/
namespace EupsModel.PathAct
open EupsModel EupsModel.PathAlg

/-! ## A. text without `$` -/

theorem mEUPSPATH_eq : mEUPSPATH = [36,123,69,85,80,83,95,80,65,84,72,125] := by decide
theorem pEUPSPATH_eq : pEUPSPATH = [36,123,69,85,80,83,95,80,65,84,72,91] := by decide
theorem pEUPSPATH_length : pEUPSPATH.length = 12 := by decide

/-- a reference starts with `$` -/
theorem eupsPathAt_ne (c : Nat) (cs : Str) (h : c ≠ 36) : eupsPathAt (c :: cs) = none := by
  unfold eupsPathAt
  rw [pEUPSPATH_eq]
  simp [isPrefixOf_head_ne 36 c _ cs h]

theorem hasEupsPathRef_no_dollar (s : Str) (h : 36 ∉ s) : hasEupsPathRef s = false := by
  induction s with
  | nil => rfl
  | cons c cs ih =>
    have hc : c ≠ 36 := fun e => h (by simp [e])
    have hcs : 36 ∉ cs := fun e => h (by simp [e])
    simp [hasEupsPathRef, eupsPathAt_ne c cs hc, ih hcs]

/-- text before the first `$` is not looked at -/
theorem hasEupsPathRef_pre (pre rest : Str) (h : 36 ∉ pre) :
    hasEupsPathRef (pre ++ rest) = hasEupsPathRef rest := by
  induction pre with
  | nil => rfl
  | cons c cs ih =>
    have hc : c ≠ 36 := fun e => h (by simp [e])
    have hcs : 36 ∉ cs := fun e => h (by simp [e])
    simp [hasEupsPathRef, eupsPathAt_ne c _ hc, ih hcs]

/-- whatever the fuel -/
theorem subEupsPath_no_dollar (elems : List Str) (f : Nat) (s : Str) (h : 36 ∉ s) :
    subEupsPath elems f s = s := by
  induction s generalizing f with
  | nil => cases f <;> rfl
  | cons c cs ih =>
    cases f with
    | zero => rfl
    | succ f =>
      have hc : c ≠ 36 := fun e => h (by simp [e])
      have hcs : 36 ∉ cs := fun e => h (by simp [e])
      simp [subEupsPath, eupsPathAt_ne c cs hc, ih f hcs]

/-! ## B. `expandArg` without a reference -/

theorem expandArg_no_ref (p : ProdInfo) (ep : Option Str) (arg : Str)
    (h : hasEupsPathRef (expandMacros p arg) = false) : expandArg p ep arg = expandMacros p arg := by
  unfold expandArg
  simp [h]

theorem expandArg_no_dollar (p : ProdInfo) (ep : Option Str) (s : Str) (h : 36 ∉ s) : expandArg p ep s = s := by
  have hm := expandMacros_no_dollar p s h
  rw [expandArg_no_ref p ep s (by rw [hm]; exact hasEupsPathRef_no_dollar s h), hm]

/-! ## C. one reference at the head -/

/-- `\d+` -/
def AllDigits (ds : Str) : Prop := ds ≠ [] ∧ ∀ c ∈ ds, Str.isDigit c = true

/-- the digits are taken up to the first character that is none -/
theorem spanDigits_stop (ds : Str) (c : Nat) (rest : Str) (h : ∀ x ∈ ds, Str.isDigit x = true)
    (hc : Str.isDigit c = false) : spanDigits (ds ++ c :: rest) = (ds, c :: rest) := by
  induction ds with
  | nil => simp [spanDigits, hc]
  | cons a as ih =>
    have ha := h a (by simp)
    have := ih (fun x hx => h x (by simp [hx]))
    simp [spanDigits, ha, this]

theorem spanDigits_all (ds : Str) (h : ∀ x ∈ ds, Str.isDigit x = true) : spanDigits ds = (ds, []) := by
  induction ds with
  | nil => rfl
  | cons a as ih =>
    have ha := h a (by simp)
    have := ih (fun x hx => h x (by simp [hx]))
    simp [spanDigits, ha, this]

theorem spanDigits_digits (ds rest : Str) (h : ∀ c ∈ ds, Str.isDigit c = true)
    (hr : rest.head?.all (fun c => !Str.isDigit c) = true) : spanDigits (ds ++ rest) = (ds, rest) := by
  cases rest with
  | nil => simpa using spanDigits_all ds h
  | cons c cs =>
    have hc : Str.isDigit c = false := by simpa using hr
    exact spanDigits_stop ds c cs h hc

theorem AllDigits.no_dollar {ds : Str} (h : AllDigits ds) : 36 ∉ ds :=
  fun hm => absurd (h.2 36 hm) (by decide)

/-- `${EUPS_PATH[<digits>]}` at the head: the index and what follows -/
theorem eupsPathAt_ref (ds rest : Str) (h : AllDigits ds) :
    eupsPathAt (pEUPSPATH ++ ds ++ 93 :: 125 :: rest) = some (Str.toNat ds, rest) := by
  obtain ⟨hne, hd⟩ := h
  have hp : pEUPSPATH.isPrefixOf (pEUPSPATH ++ ds ++ 93 :: 125 :: rest) = true := by
    rw [List.append_assoc]; exact isPrefixOf_append_self _ _
  have hdrop : (pEUPSPATH ++ ds ++ 93 :: 125 :: rest).drop pEUPSPATH.length = ds ++ 93 :: 125 :: rest := by
    rw [List.append_assoc]; exact List.drop_left
  cases ds with
  | nil => exact absurd rfl hne
  | cons d ds' =>
    have hs := spanDigits_stop (d :: ds') 93 (125 :: rest) hd (by decide)
    unfold eupsPathAt
    rw [if_pos hp, hdrop, hs]
    rfl

theorem eupsPathAt_ref_cons (ds rest : Str) :
    ∃ xs, pEUPSPATH ++ ds ++ 93 :: 125 :: rest = 36 :: xs := ⟨_, by rw [pEUPSPATH_eq]; rfl⟩

theorem hasEupsPathRef_ref (pre ds post : Str) (hpre : 36 ∉ pre) (h : AllDigits ds) :
    hasEupsPathRef (pre ++ pEUPSPATH ++ ds ++ 93 :: 125 :: post) = true := by
  have hat := eupsPathAt_ref ds post h
  obtain ⟨xs, hxs⟩ := eupsPathAt_ref_cons ds post
  have e : pre ++ pEUPSPATH ++ ds ++ 93 :: 125 :: post = pre ++ (pEUPSPATH ++ ds ++ 93 :: 125 :: post) := by
    simp only [List.append_assoc]
  rw [e, hasEupsPathRef_pre _ _ hpre]
  rw [hxs] at hat ⊢
  simp [hasEupsPathRef, hat]

/-! ## D. the substitution -/

/-- text before the first `$` is copied -/
theorem subEupsPath_pre (elems : List Str) (pre rest : Str) (f : Nat) (hpre : 36 ∉ pre) :
    subEupsPath elems (f + pre.length) (pre ++ rest) = pre ++ subEupsPath elems f rest := by
  induction pre with
  | nil => simp
  | cons c cs ih =>
    have hc : c ≠ 36 := fun e => hpre (by simp [e])
    have hcs : 36 ∉ cs := fun e => hpre (by simp [e])
    have : f + (c :: cs).length = (f + cs.length) + 1 := by simp [Nat.add_assoc]
    rw [this, List.cons_append]
    simp only [subEupsPath, eupsPathAt_ne c _ hc, ih hcs, List.cons_append]

/-- a reference at the head is replaced by its element (or by `${EUPS_PATH}` when the index is past the end) -/
theorem subEupsPath_ref_head (elems : List Str) (ds rest : Str) (f : Nat) (h : AllDigits ds) :
    subEupsPath elems (f + 1) (pEUPSPATH ++ ds ++ 93 :: 125 :: rest)
      = elems.getD (Str.toNat ds) mEUPSPATH ++ subEupsPath elems f rest := by
  have hat := eupsPathAt_ref ds rest h
  obtain ⟨xs, hxs⟩ := eupsPathAt_ref_cons ds rest
  rw [hxs] at hat ⊢
  simp only [subEupsPath, hat]

/-- one step over "`$`-free text, then a reference" -/
theorem subEupsPath_ref_step (elems : List Str) (pre ds rest : Str) (f : Nat) (hpre : 36 ∉ pre)
    (h : AllDigits ds) :
    subEupsPath elems (f + 1 + pre.length) (pre ++ pEUPSPATH ++ ds ++ 93 :: 125 :: rest)
      = pre ++ elems.getD (Str.toNat ds) mEUPSPATH ++ subEupsPath elems f rest := by
  have e : pre ++ pEUPSPATH ++ ds ++ 93 :: 125 :: rest = pre ++ (pEUPSPATH ++ ds ++ 93 :: 125 :: rest) := by
    simp only [List.append_assoc]
  rw [e, subEupsPath_pre elems pre _ (f + 1) hpre, subEupsPath_ref_head elems ds rest f h]
  simp only [List.append_assoc]

/-- **repair of D122**: the reference is replaced by its own element and the text around it stays -/
theorem subEupsPath_one_ref (elems : List Str) (pre ds post : Str) (hpre : 36 ∉ pre) (hpost : 36 ∉ post)
    (h : AllDigits ds) (f : Nat) (hf : pre.length + 1 ≤ f) :
    subEupsPath elems f (pre ++ pEUPSPATH ++ ds ++ 93 :: 125 :: post)
      = pre ++ elems.getD (Str.toNat ds) mEUPSPATH ++ post := by
  have hfe : f = (f - (pre.length + 1)) + 1 + pre.length := by omega
  rw [hfe, subEupsPath_ref_step elems pre ds post _ hpre h, subEupsPath_no_dollar elems _ post hpost]

/-- the fuel `expandArg` passes is enough -/
theorem subEupsPath_one_ref_len (elems : List Str) (pre ds post : Str) (hpre : 36 ∉ pre) (hpost : 36 ∉ post)
    (h : AllDigits ds) :
    subEupsPath elems ((pre ++ pEUPSPATH ++ ds ++ 93 :: 125 :: post).length + 1)
        (pre ++ pEUPSPATH ++ ds ++ 93 :: 125 :: post)
      = pre ++ elems.getD (Str.toNat ds) mEUPSPATH ++ post := by
  apply subEupsPath_one_ref elems pre ds post hpre hpost h
  simp only [List.length_append]
  omega

/-- two references, each replaced by its own element -/
theorem subEupsPath_two_refs (elems : List Str) (pre ds1 mid ds2 post : Str) (hpre : 36 ∉ pre)
    (hmid : 36 ∉ mid) (hpost : 36 ∉ post) (h1 : AllDigits ds1) (h2 : AllDigits ds2) (f : Nat)
    (hf : pre.length + mid.length + 2 ≤ f) :
    subEupsPath elems f
        (pre ++ pEUPSPATH ++ ds1 ++ 93 :: 125 :: (mid ++ pEUPSPATH ++ ds2 ++ 93 :: 125 :: post))
      = pre ++ elems.getD (Str.toNat ds1) mEUPSPATH ++ (mid ++ elems.getD (Str.toNat ds2) mEUPSPATH ++ post) := by
  have hfe : f = (f - (pre.length + 1)) + 1 + pre.length := by omega
  rw [hfe, subEupsPath_ref_step elems pre ds1 _ _ hpre h1,
    subEupsPath_one_ref elems mid ds2 post hmid hpost h2 _ (by omega)]

/-! ## E. the product macros do not touch a `${EUPS_PATH[n]}` reference -/

theorem firstPdir_free (pre r : Str) (h : 36 ∉ pre) : firstPdir (pre ++ r) = firstPdir r := by
  induction pre with
  | nil => rfl
  | cons c cs ih =>
    have hc : c ≠ 36 := fun e => h (by simp [e])
    have hcs : 36 ∉ cs := fun e => h (by simp [e])
    simp [firstPdir, pdirAt_ne c _ hc, ih hcs]

/-- an argument whose only `$` opens `${E…`: none of the fixed macros matches; the product's own `${<NAME>_DIR}`
is the only one that could -/
theorem expandMacros_foreign (p : ProdInfo) (pre ys : Str) (hpre : 36 ∉ pre) (hys : 36 ∉ ys)
    (hname : (mNameDir p.name).isPrefixOf (36 :: 123 :: 69 :: ys) = false) :
    expandMacros p (pre ++ 36 :: 123 :: 69 :: ys) = pre ++ 36 :: 123 :: 69 :: ys := by
  have hxs : 36 ∉ 123 :: 69 :: ys := by simp [hys]
  have stay : ∀ (pat repl : Str), pat.head? = some 36 → pat.isPrefixOf (36 :: 123 :: 69 :: ys) = false →
      replaceAll pat repl (pre ++ 36 :: 123 :: 69 :: ys) = pre ++ 36 :: 123 :: 69 :: ys := by
    intro pat repl hp hn
    have h1 := replaceAll_dollar_head_only pat repl _ hp hn hxs
    cases pat with
    | nil => simp at hp
    | cons c ps =>
      simp at hp; subst hp
      unfold replaceAll at *
      rw [replaceAllGo_free 36 ps repl pre _ hpre, h1]
  have h2 : expandPdir p (pre ++ 36 :: 123 :: 69 :: ys) = pre ++ 36 :: 123 :: 69 :: ys := by
    have hf : firstPdir (36 :: 123 :: 69 :: ys) = none := by
      have hp : pdirAt (36 :: 123 :: 69 :: ys) = none := by
        unfold pdirAt
        rw [mDIR_eq, mDIRopt_eq, mEXTRA_eq, mEXTRAopt_eq]
        simp [List.isPrefixOf]
      rw [firstPdir, hp]
      exact firstPdir_no_dollar _ hxs
    unfold expandPdir
    rw [firstPdir_free _ _ hpre, hf]
  rw [expandMacros_eq,
    optRepl_id _ _ _ (fun x => stay _ x head_mPRODUCTS (by rw [mPRODUCTS_eq]; simp [List.isPrefixOf])), h2,
    optRepl_id _ _ _ (fun x => stay _ x (head_mNameDir p.name) hname),
    optRepl_id _ _ _ (fun x => stay _ x head_mFLAVOR (by rw [mFLAVOR_eq]; simp [List.isPrefixOf])),
    stay _ _ head_mNAME (by rw [mNAME_eq]; simp [List.isPrefixOf]),
    optRepl_id _ _ _ (fun x => stay _ x head_mVERSION (by rw [mVERSION_eq]; simp [List.isPrefixOf])),
    stay _ _ head_mUPS (by rw [mUPS_eq]; simp [List.isPrefixOf])]

theorem upper_no_bracket (name : Str) (h : 91 ∉ name) : 91 ∉ upper name := by
  intro hm
  unfold upper at hm
  rw [List.mem_map] at hm
  obtain ⟨a, ha, he⟩ := hm
  by_cases hl : Str.isLower a = true
  · rw [if_pos hl] at he
    simp [Str.isLower] at hl
    omega
  · rw [if_neg hl] at he
    exact h (he ▸ ha)

/-- `<NAME>_DIR}` is no prefix of `EUPS_PATH[<digit>…` when the name has no `[` -/
theorem nameDir_no_match (u t : Str) (h : 91 ∉ u) :
    (u ++ [95,68,73,82,125]).isPrefixOf (69 :: 85 :: 80 :: 83 :: 95 :: 80 :: 65 :: 84 :: 72 :: 91 :: t) = false := by
  rcases u with _ | ⟨a0, _ | ⟨a1, _ | ⟨a2, _ | ⟨a3, _ | ⟨a4, _ | ⟨a5, _ | ⟨a6, _ | ⟨a7, _ | ⟨a8, _ | ⟨a9, u⟩⟩⟩⟩⟩⟩⟩⟩⟩⟩
  all_goals simp [List.isPrefixOf] at h ⊢
  all_goals omega

/-- the macro step leaves an argument with one `${EUPS_PATH[n]}` reference (and no other `$`) as written -/
theorem expandMacros_eups_ref (p : ProdInfo) (pre ds post : Str) (hpre : 36 ∉ pre) (hpost : 36 ∉ post)
    (h : AllDigits ds) (hname : 91 ∉ p.name) :
    expandMacros p (pre ++ pEUPSPATH ++ ds ++ 93 :: 125 :: post) = pre ++ pEUPSPATH ++ ds ++ 93 :: 125 :: post := by
  have e : pre ++ pEUPSPATH ++ ds ++ 93 :: 125 :: post
      = pre ++ 36 :: 123 :: 69 :: ([85,80,83,95,80,65,84,72,91] ++ ds ++ 93 :: 125 :: post) := by
    rw [pEUPSPATH_eq]; simp
  have hys : 36 ∉ [85,80,83,95,80,65,84,72,91] ++ ds ++ 93 :: 125 :: post := by
    have := h.no_dollar
    simp [this, hpost]
  rw [e]
  apply expandMacros_foreign p pre _ hpre hys
  rw [mNameDir_eq]
  have := nameDir_no_match (upper p.name) (ds ++ 93 :: 125 :: post) (upper_no_bracket _ hname)
  simpa [List.isPrefixOf, Str.ofString] using this

/-! ## F. `expandArg` on an argument with one reference -/

/-- `EUPS_PATH` set: the reference becomes the element, the surroundings stay (under the named hypothesis that the
macro step leaves the argument alone) -/
theorem expandArg_eups_path_of (p : ProdInfo) (ep pre ds post : Str) (hpre : 36 ∉ pre) (hpost : 36 ∉ post)
    (h : AllDigits ds)
    (hm : expandMacros p (pre ++ pEUPSPATH ++ ds ++ 93 :: 125 :: post)
      = pre ++ pEUPSPATH ++ ds ++ 93 :: 125 :: post) :
    expandArg p (some ep) (pre ++ pEUPSPATH ++ ds ++ 93 :: 125 :: post)
      = pre ++ (split [58] ep).getD (Str.toNat ds) mEUPSPATH ++ post := by
  unfold expandArg
  simp only [hm, hasEupsPathRef_ref pre ds post hpre h, if_true]
  exact subEupsPath_one_ref_len _ pre ds post hpre hpost h

theorem expandArg_eups_path (p : ProdInfo) (ep pre ds post : Str) (hpre : 36 ∉ pre) (hpost : 36 ∉ post)
    (h : AllDigits ds) (hname : 91 ∉ p.name) :
    expandArg p (some ep) (pre ++ pEUPSPATH ++ ds ++ 93 :: 125 :: post)
      = pre ++ (split [58] ep).getD (Str.toNat ds) mEUPSPATH ++ post :=
  expandArg_eups_path_of p ep pre ds post hpre hpost h (expandMacros_eups_ref p pre ds post hpre hpost h hname)

/-- `EUPS_PATH` not set: the argument stays as written -/
theorem expandArg_unset_of (p : ProdInfo) (pre ds post : Str) (hpre : 36 ∉ pre) (h : AllDigits ds)
    (hm : expandMacros p (pre ++ pEUPSPATH ++ ds ++ 93 :: 125 :: post)
      = pre ++ pEUPSPATH ++ ds ++ 93 :: 125 :: post) :
    expandArg p none (pre ++ pEUPSPATH ++ ds ++ 93 :: 125 :: post)
      = pre ++ pEUPSPATH ++ ds ++ 93 :: 125 :: post := by
  unfold expandArg
  simp only [hm, hasEupsPathRef_ref pre ds post hpre h, if_true]

theorem expandArg_unset (p : ProdInfo) (pre ds post : Str) (hpre : 36 ∉ pre) (hpost : 36 ∉ post)
    (h : AllDigits ds) (hname : 91 ∉ p.name) :
    expandArg p none (pre ++ pEUPSPATH ++ ds ++ 93 :: 125 :: post)
      = pre ++ pEUPSPATH ++ ds ++ 93 :: 125 :: post :=
  expandArg_unset_of p pre ds post hpre h (expandMacros_eups_ref p pre ds post hpre hpost h hname)

/-- `EUPS_PATH` not set and a reference *after* the macro step: the argument keeps its text as written, macros
and all -/
theorem expandArg_unset_ref (p : ProdInfo) (arg : Str) (h : hasEupsPathRef (expandMacros p arg) = true) :
    expandArg p none arg = arg := by
  unfold expandArg
  simp [h]

/-! ## G. witnesses -/

example : AllDigits (Str.ofString "10") := by unfold AllDigits; decide
example : Str.toNat (Str.ofString "10") = 10 := by decide
example : eupsPathAt (Str.ofString "${EUPS_PATH[10]}/x") = some (10, Str.ofString "/x") := by decide
example : eupsPathAt (Str.ofString "${EUPS_PATH[]}/x") = none := by decide
example : eupsPathAt (Str.ofString "${EUPS_PATH}/x") = none := by decide

/-- the named hypothesis `hm` holds for a concrete product -/
example : expandMacros exProd (Str.ofString "a/${EUPS_PATH[0]}/share")
    = Str.ofString "a/${EUPS_PATH[0]}/share" := by decide

/-- the hypothesis `91 ∉ p.name` is needed: a product called `EUPS_PATH[0]}` owns `${EUPS_PATH[0]}_DIR}` -/
example : expandMacros { exProd with name := Str.ofString "EUPS_PATH[0]}" } (Str.ofString "${EUPS_PATH[0]}_DIR}")
    = Str.ofString "/st/p/1" := by decide

/-- D122: the pinned rule lost the text around the reference -/
example : subEupsPathPinned [Str.ofString "/st", Str.ofString "/o"] (Str.ofString "${EUPS_PATH[0]}/share")
    = some (Str.ofString "/st") := by decide
/-- ... the repaired rule keeps it -/
example : subEupsPath [Str.ofString "/st", Str.ofString "/o"] 40 (Str.ofString "${EUPS_PATH[0]}/share")
    = Str.ofString "/st/share" := by decide
/-- two references with different indices (the pinned rule: the first element, for the whole argument) -/
example : subEupsPath [Str.ofString "/st", Str.ofString "/o"] 60
    (Str.ofString "${EUPS_PATH[1]}/lib:${EUPS_PATH[0]}/lib") = Str.ofString "/o/lib:/st/lib" := by decide
example : subEupsPathPinned [Str.ofString "/st", Str.ofString "/o"]
    (Str.ofString "${EUPS_PATH[1]}/lib:${EUPS_PATH[0]}/lib") = some (Str.ofString "/o") := by decide
/-- an index past the end gives `${EUPS_PATH}` -/
example : subEupsPath [Str.ofString "/st", Str.ofString "/o"] 40 (Str.ofString "x${EUPS_PATH[2]}/share")
    = Str.ofString "x${EUPS_PATH}/share" := by decide
example : subEupsPathPinned [Str.ofString "/st", Str.ofString "/o"] (Str.ofString "x${EUPS_PATH[2]}/share")
    = none := by decide
/-- the whole step, `EUPS_PATH=/st:/o` -/
example : expandArg exProd (some (Str.ofString "/st:/o")) (Str.ofString "${EUPS_PATH[1]}/share/${PRODUCT_NAME}")
    = Str.ofString "/o/share/p" := by decide
/-- `EUPS_PATH` not set: as written, the macros too -/
example : expandArg exProd none (Str.ofString "${EUPS_PATH[1]}/share/${PRODUCT_NAME}")
    = Str.ofString "${EUPS_PATH[1]}/share/${PRODUCT_NAME}" := by decide
example : expandArg exProd none (Str.ofString "/share/${PRODUCT_NAME}") = Str.ofString "/share/p" := by decide

end EupsModel.PathAct
