import EupsModel.Lemmas.Expand
/-! An independent reader of a setup line, against which `parseArgs` (the argument handling of `subSetup`) is proved.

A setup line as documented is a sequence of tokens separated by white space: flags (`-j`, `-k`, `--external`, … without
argument; `-t tag`, `-T type`, `-r dir`, … with one), the product name and, after it, one of the five documented ways of
naming a version (`Form`): nothing, an explicit version, an explicit version and a bracketed expression `v [e1 … ek]`, a
bracketed expression alone, or a relational expression without brackets (`>= 1`, `>= 1 || == 3`).  The reader `Form.parsed`
says what such a line means; `parseArgs_reads` proves that `parseArgs` computes exactly that from the text, whatever the
layout (any white space between the tokens, flags anywhere among the words). -/
set_option linter.unusedSimpArgs false
namespace EupsModel.Expand
open EupsModel

/-! ## white space -/

theorem splitWsGo_space {g : Str} (hg : ∀ c ∈ g, Str.isSpace c = true) (s : Str) : splitWsGo (g ++ s) [] = splitWsGo s [] := by
  induction g with
  | nil => rfl
  | cons c g ih =>
    have hc := hg c (by simp)
    simp only [List.cons_append, splitWsGo, hc, if_true, List.isEmpty_nil]
    exact ih (fun x hx => hg x (by simp [hx]))

theorem splitWsGo_tok {t : Str} (ht : ∀ c ∈ t, Str.isSpace c = false) (s cur : Str) :
    splitWsGo (t ++ s) cur = splitWsGo s (t.reverse ++ cur) := by
  induction t generalizing cur with
  | nil => rfl
  | cons c t ih =>
    have hc := ht c (by simp)
    simp only [List.cons_append, splitWsGo, hc, Bool.false_eq_true, if_false, List.reverse_cons, List.append_assoc]
    rw [ih (fun x hx => ht x (by simp [hx]))]
    simp

/-- a token: not empty, no white space inside -/
def tokStr (s : Str) : Bool := !s.isEmpty && s.all (fun c => !Str.isSpace c)

theorem tokStr_facts {s : Str} (h : tokStr s = true) : s ≠ [] ∧ ∀ c ∈ s, Str.isSpace c = false := by
  simp only [tokStr, Bool.and_eq_true, Bool.not_eq_true', List.isEmpty_eq_false_iff, List.all_eq_true] at h
  exact ⟨h.1, fun c hc => by simpa using h.2 c hc⟩

/-- tokens written one after the other, each followed by its gap -/
def renderGaps : List (Str × Str) → Str
  | [] => []
  | (t, g) :: rest => t ++ g ++ renderGaps rest

/-- gaps are white space; every gap but the last is not empty -/
def gapsOK : List (Str × Str) → Bool
  | [] => true
  | [(_, g)] => g.all Str.isSpace
  | (_, g) :: r :: rest => !g.isEmpty && g.all Str.isSpace && gapsOK (r :: rest)

/-- **white-space layer**: `s.split()` of tokens written with any white space before, between and after them is the tokens -/
theorem splitWs_render (lead : Str) (hl : ∀ c ∈ lead, Str.isSpace c = true) :
    ∀ (l : List (Str × Str)), (∀ p ∈ l, tokStr p.1 = true) → gapsOK l = true →
      splitWs (lead ++ renderGaps l) = l.map (·.1) := by
  intro l
  unfold splitWs
  rw [splitWsGo_space hl]
  induction l with
  | nil => intro _ _; rfl
  | cons p rest ih =>
    intro ht hg
    obtain ⟨t, g⟩ := p
    obtain ⟨hne, hns⟩ := tokStr_facts (ht (t, g) (by simp))
    have ih' := ih (fun q hq => ht q (by simp [hq]))
    simp only [renderGaps, List.append_assoc, List.map_cons]
    rw [splitWsGo_tok hns, List.append_nil]
    have hne : t ≠ [] := hne
    have hrev : t.reverse ≠ [] := by simpa using hne
    cases rest with
    | nil =>
      simp only [gapsOK, List.all_eq_true] at hg
      simp only [renderGaps, List.append_nil, List.map_nil]
      -- only the gap is left
      have : ∀ (g : Str), (∀ c ∈ g, Str.isSpace c = true) → splitWsGo g t.reverse = [t] := by
        intro g hgs
        cases g with
        | nil => simp [splitWsGo, hrev, hne]
        | cons c g' =>
          have hc := hgs c (by simp)
          simp only [splitWsGo, hc, if_true]
          have h0 := splitWsGo_space (g := g') (fun x hx => hgs x (by simp [hx])) []
          simp only [List.append_nil] at h0
          simp [hrev, hne, h0, splitWsGo]
      exact this g hg
    | cons r rest' =>
      simp only [gapsOK, Bool.and_eq_true, Bool.not_eq_true', List.isEmpty_eq_false_iff, List.all_eq_true] at hg
      obtain ⟨⟨hgne, hgs⟩, hrest⟩ := hg
      cases g with
      | nil => exact absurd rfl hgne
      | cons c g' =>
        have hc := hgs c (by simp)
        simp only [List.cons_append, splitWsGo, hc, if_true]
        have : (t.reverse).isEmpty = false := by simpa using hrev
        simp only [this, Bool.false_eq_true, if_false, List.reverse_reverse]
        rw [splitWsGo_space (fun x hx => hgs x (by simp [hx]))]
        rw [ih' hrest]

/-! ## tokens -/

inductive Tok
  | flag1 (f : Str)          -- a flag without argument: `-j`, `-k`, `-v`, …, `--external`
  | flag2 (f a : Str)        -- a flag with its argument: `-t current`, `-T build`, `-r dir`, …
  | word (w : Str)
deriving Repr

def Tok.strs : Tok → List Str
  | .flag1 f => [f]
  | .flag2 f a => [f, a]
  | .word w => [w]

/-- a flag as `subSetup` carries it over into the rewritten line -/
def Tok.flagText : Tok → Option Str
  | .flag1 f => some f
  | .flag2 f a => some (f ++ [cSp] ++ a)
  | .word _ => none

def Tok.wordText : Tok → Option Str
  | .word w => some w
  | _ => none

def Tok.ok : Tok → Bool
  | .flag1 f => match f with
    | 45 :: c :: _ => !argFlagChars.contains c && (bareFlagChars.contains c || sExternal.isPrefixOf f)
    | _ => false
  | .flag2 f _ => match f with
    | 45 :: c :: _ => argFlagChars.contains c
    | _ => false
  | .word w => !w.isEmpty && w.head? != some 45

/-- **flag layer**: the `while True` loop of `subSetup` collects the flags in order (a flag with an argument as `flag arg`)
and the words in order, the words split at their brackets -/
theorem scanArgs_toks : ∀ (toks : List Tok) (flags words : List Str), (∀ t ∈ toks, t.ok = true) →
    scanArgs (toks.flatMap Tok.strs) flags words
      = .ok (flags ++ toks.filterMap Tok.flagText, words ++ (toks.filterMap Tok.wordText).flatMap splitBracket) := by
  intro toks
  induction toks with
  | nil => intro f w _; simp [scanArgs, pure, Except.pure]
  | cons t rest ih =>
    intro f w hok
    have ht := hok t (by simp)
    have ih' := fun f w => ih f w (fun x hx => hok x (by simp [hx]))
    cases t with
    | flag1 a =>
      simp only [Tok.ok] at ht
      split at ht
      · rename_i c tl
        simp only [Bool.and_eq_true, Bool.not_eq_true', Bool.or_eq_true] at ht
        obtain ⟨harg, hb⟩ := ht
        simp only [List.flatMap_cons, Tok.strs, List.singleton_append, List.filterMap_cons, Tok.flagText, Tok.wordText]
        have hstep : ∀ R : List Str, scanArgs ((45 :: c :: tl) :: R) f w = scanArgs R (f ++ [45 :: c :: tl]) w := by
          intro R
          cases R with
          | nil =>
            rw [scanArgs.eq_2]
            rcases hb with hb | hb
            · simp only [harg, hb, Bool.false_eq_true, if_false, if_true]
            · by_cases hb2 : bareFlagChars.contains c = true
              · simp only [harg, hb2, Bool.false_eq_true, if_false, if_true]
              · simp only [harg, hb2, hb, Bool.false_eq_true, if_false, if_true]
          | cons b R' =>
            rw [scanArgs.eq_3]
            rcases hb with hb | hb
            · simp only [harg, hb, Bool.false_eq_true, if_false, if_true]
            · by_cases hb2 : bareFlagChars.contains c = true
              · simp only [harg, hb2, Bool.false_eq_true, if_false, if_true]
              · simp only [harg, hb2, hb, Bool.false_eq_true, if_false, if_true]
        rw [hstep, ih']
        simp [List.append_assoc]
      · cases ht
    | flag2 a b =>
      simp only [Tok.ok] at ht
      split at ht
      · rename_i c tl
        simp only [List.flatMap_cons, Tok.strs, List.cons_append, List.nil_append, List.filterMap_cons, Tok.flagText, Tok.wordText]
        simp only [scanArgs, ht, if_true, ih', List.append_assoc, List.singleton_append]
        simp
      · cases ht
    | word a =>
      simp only [Tok.ok, Bool.and_eq_true, Bool.not_eq_true', List.isEmpty_eq_false_iff, bne_iff_ne, ne_eq] at ht
      obtain ⟨hne, hh⟩ := ht
      simp only [List.flatMap_cons, Tok.strs, List.singleton_append, List.filterMap_cons, Tok.flagText, Tok.wordText]
      cases a with
      | nil => exact absurd rfl hne
      | cons c tl =>
        have hc : c ≠ 45 := fun e => hh (by simp [e])
        have : scanArgs ((c :: tl) :: List.flatMap Tok.strs rest) f w
            = scanArgs (List.flatMap Tok.strs rest) f (w ++ splitBracket (c :: tl)) :=
          scanArgs.eq_5 f w (c :: tl) _ (fun c' tail heq => by simp only [List.cons.injEq] at heq; exact hc heq.1)
            (fun heq => by simp only [List.cons.injEq] at heq; exact hc heq.1)
        rw [this, ih']
        simp [List.append_assoc]

/-! ## words: the five documented ways of naming a version -/

/-- a word that is not broken up at brackets: not empty, no `[` in front, no `]` at the end -/
def plainWord (w : Str) : Bool := !w.isEmpty && w.head? != some cLbr && w.getLast? != some cRbr

theorem revMatch_no {α : Type} {w : Str} (h : ∀ r, w.reverse ≠ 93 :: r) (A : Str → α) (B : α) :
    (match w.reverse with | 93 :: r => A r | _ => B) = B := by
  split
  · rename_i r heq; exact absurd heq (h r)
  · rfl

theorem rev_no_close {w : Str} (hl : w.getLast? ≠ some cRbr) : ∀ r, w.reverse ≠ 93 :: r := fun r e => by
  apply hl
  have : w = (93 :: r).reverse := by rw [← e, List.reverse_reverse]
  rw [this]; simp [cRbr]

theorem firstMatch_no {c : Nat} {tl : Str} (hc : c ≠ 91) :
    ((match c :: tl with | 91 :: r => ([[cLbr]], r) | _ => ([], c :: tl)) : List Str × Str) = ([], c :: tl) := by
  split
  · rename_i r heq; simp only [List.cons.injEq] at heq; exact absurd heq.1 hc
  · rfl

theorem plainWord_facts {w : Str} (h : plainWord w = true) :
    ∃ c tl, w = c :: tl ∧ c ≠ 91 ∧ ∀ r, w.reverse ≠ 93 :: r := by
  simp only [plainWord, Bool.and_eq_true, Bool.not_eq_true', List.isEmpty_eq_false_iff, bne_iff_ne, ne_eq] at h
  obtain ⟨⟨hne, hh⟩, hl⟩ := h
  cases w with
  | nil => exact absurd rfl hne
  | cons c tl => exact ⟨c, tl, rfl, fun e => hh (by simp [e, cLbr]), rev_no_close hl⟩

theorem splitBracket_cons {c : Nat} {tl : Str} (hc : c ≠ 91) :
    splitBracket (c :: tl) = (match (c :: tl).reverse with
      | 93 :: r => [r.reverse, [cRbr]]
      | _ => [c :: tl]) := by
  unfold splitBracket
  split
  · rename_i pre a1 heq
    split at heq
    · rename_i r h2; simp only [List.cons.injEq] at h2; exact absurd h2.1 hc
    · cases heq
      split
      · rename_i r h3; simp only [h3, List.nil_append]
      · rename_i h3
        split
        · rename_i r h4; exact absurd h4 (h3 r)
        · rfl

theorem splitBracket_plain {w : Str} (h : plainWord w = true) : splitBracket w = [w] := by
  obtain ⟨c, tl, rfl, hc, hr⟩ := plainWord_facts h
  rw [splitBracket_cons hc, revMatch_no hr]

/-- `[e` (first word of a bracketed expression of several words) -/
theorem splitBracket_open {e : Str} (h : plainWord e = true) : splitBracket (cLbr :: e) = [[cLbr], e] := by
  obtain ⟨c, tl, rfl, hc, hr⟩ := plainWord_facts h
  unfold splitBracket
  simp only [cLbr]
  rfl

/-- `e]` (last word) -/
theorem splitBracket_close {e : Str} (h : plainWord e = true) : splitBracket (e ++ [cRbr]) = [e, [cRbr]] := by
  obtain ⟨c, tl, rfl, hc, hr⟩ := plainWord_facts h
  rw [List.cons_append, splitBracket_cons hc]
  simp [cRbr]

/-- `[e]` (a bracketed expression of one word) -/
theorem splitBracket_both (e : Str) : splitBracket (cLbr :: (e ++ [cRbr])) = [[cLbr], e, [cRbr]] := by
  unfold splitBracket
  simp [cLbr, cRbr]

/-- a bracketed expression `[e1 … ek]` as written: the brackets glued to the first and the last word -/
def closeLast : List Str → List Str
  | [] => []
  | [x] => [x ++ [cRbr]]
  | x :: y :: r => x :: closeLast (y :: r)

def glue : List Str → List Str
  | [] => []
  | [e] => [cLbr :: (e ++ [cRbr])]
  | e :: e2 :: r => (cLbr :: e) :: closeLast (e2 :: r)

theorem closeLast_split : ∀ (es : List Str), es ≠ [] → (∀ e ∈ es, plainWord e = true) →
    (closeLast es).flatMap splitBracket = es ++ [[cRbr]] := by
  intro es
  induction es with
  | nil => intro h; exact absurd rfl h
  | cons x rest ih =>
    intro _ hp
    cases rest with
    | nil => simp [closeLast, splitBracket_close (hp x (by simp))]
    | cons y r =>
      simp only [closeLast, List.flatMap_cons, splitBracket_plain (hp x (by simp))]
      rw [ih (by simp) (fun e he => hp e (by simp [he]))]
      simp

theorem glue_split (es : List Str) (hne : es ≠ []) (hp : ∀ e ∈ es, plainWord e = true) :
    (glue es).flatMap splitBracket = [cLbr] :: es ++ [[cRbr]] := by
  cases es with
  | nil => exact absurd rfl hne
  | cons e rest =>
    cases rest with
    | nil => simp [glue, splitBracket_both]
    | cons e2 r =>
      simp only [glue, List.flatMap_cons, splitBracket_open (hp e (by simp))]
      rw [closeLast_split (e2 :: r) (by simp) (fun x hx => hp x (by simp [hx]))]
      simp

inductive Form
  | bare                                  -- `name`
  | ver (v : Str)                         -- `name v`
  | verExpr (v : Str) (es : List Str)     -- `name v [e1 … ek]`
  | expr (es : List Str)                  -- `name [e1 … ek]`
  | rel (r : Str) (ws : List Str)         -- `name >= 1`, `name >= 1 || == 3`
deriving Repr

/-- the word tokens of a line, in order -/
def Form.words (name : Str) : Form → List Str
  | .bare => [name]
  | .ver v => [name, v]
  | .verExpr v es => name :: v :: glue es
  | .expr es => name :: glue es
  | .rel r ws => name :: r :: ws

/-- an explicit version: a plain word that is not a relational expression -/
def versionWord (v : Str) : Bool := plainWord v && !hasRelop v && v.all (fun c => !Str.isSpace c)

def Form.ok : Form → Bool
  | .bare => true
  | .ver v => versionWord v
  | .verExpr v es => versionWord v && !es.isEmpty && es.all plainWord
  | .expr es => !es.isEmpty && es.all plainWord
  | .rel r ws => plainWord r && hasRelop r && ws.all plainWord

/-- **the independent reader**: what a setup line of each documented form means — product, flags, explicit version,
expression -/
def Form.parsed (name : Str) (flags : List Str) : Form → Parsed
  | .bare => ⟨name, flags, none, none⟩
  | .ver v => ⟨name, flags, some v, none⟩
  | .verExpr v es => ⟨name, flags, some v, some (join [cSp] es)⟩
  | .expr es => ⟨name, flags, none, some (join [cSp] es)⟩
  | .rel r ws => ⟨name, flags, none, some (join [cSp] (r :: ws))⟩

theorem plainWord_ne {w : Str} (h : plainWord w = true) : w ≠ [cLbr] ∧ w ≠ [cRbr] := by
  simp only [plainWord, Bool.and_eq_true, Bool.not_eq_true', List.isEmpty_eq_false_iff, bne_iff_ne, ne_eq] at h
  exact ⟨fun e => h.1.2 (by simp [e]), fun e => h.2 (by simp [e])⟩

theorem not_mem_plain {es : List Str} (hp : ∀ e ∈ es, plainWord e = true) : [cLbr] ∉ es ∧ [cRbr] ∉ es :=
  ⟨fun m => (plainWord_ne (hp _ m)).1 rfl, fun m => (plainWord_ne (hp _ m)).2 rfl⟩

theorem idxOf_close {es : List Str} (h : [cRbr] ∉ es) : (es ++ [[cRbr]]).idxOf [cRbr] = es.length := by
  induction es with
  | nil => simp [List.idxOf_cons]
  | cons e rest ih =>
    have hne : e ≠ [cRbr] := fun eq => h (by simp [eq])
    have hr : [cRbr] ∉ rest := fun m => h (by simp [m])
    simp only [List.cons_append, List.idxOf_cons, List.length_cons]
    have : (e == [cRbr]) = false := by simpa using hne
    simp [this, ih hr]

theorem versionWord_legal {v : Str} (h : versionWord v = true) : v ≠ [] ∧ isLegalRelativeVersion v = .ok false := by
  simp only [versionWord, Bool.and_eq_true, Bool.not_eq_true', List.all_eq_true] at h
  obtain ⟨⟨hp, hr⟩, hs⟩ := h
  have hne : v ≠ [] := by
    simp only [plainWord, Bool.and_eq_true, Bool.not_eq_true', List.isEmpty_eq_false_iff] at hp
    exact hp.1.1
  refine ⟨hne, ?_⟩
  have hb : badRelop v = false := by
    cases v with
    | nil => exact absurd rfl hne
    | cons c tl =>
      have hc : Str.isSpace c = false := by simpa using hs c (by simp)
      unfold badRelop
      rw [lstrip_cons_of_not_space hc]
      by_cases h61 : c = 61
      · subst h61
        cases tl with
        | nil => rfl
        | cons c2 r2 =>
          have hc2 : Str.isSpace c2 = false := by simpa using hs c2 (by simp)
          simp [hc2]
      · split
        · rename_i r heq; simp only [List.cons.injEq] at heq; exact absurd heq.1 h61
        · rfl
  simp [isLegalRelativeVersion, hr, hb, pure, Except.pure]

theorem flatMap_plain {ws : List Str} (hw : ∀ w ∈ ws, plainWord w = true) : ws.flatMap splitBracket = ws := by
  induction ws with
  | nil => rfl
  | cons w rest ih =>
    simp only [List.flatMap_cons, splitBracket_plain (hw w (by simp)), ih (fun x hx => hw x (by simp [hx]))]
    simp

/-- the words of a line after the flag layer: the name, then the words of its form with the brackets split off -/
theorem form_words_split (name : Str) (hn : plainWord name = true) (fm : Form) (hf : fm.ok = true) :
    (fm.words name).flatMap splitBracket = name :: (match fm with
      | .bare => []
      | .ver v => [v]
      | .verExpr v es => v :: [cLbr] :: es ++ [[cRbr]]
      | .expr es => [cLbr] :: es ++ [[cRbr]]
      | .rel r ws => r :: ws) := by
  cases fm with
  | bare => simp [Form.words, splitBracket_plain hn]
  | ver v =>
    simp only [Form.ok, versionWord, Bool.and_eq_true] at hf
    simp [Form.words, splitBracket_plain hn, splitBracket_plain hf.1.1]
  | verExpr v es =>
    simp only [Form.ok, versionWord, Bool.and_eq_true, Bool.not_eq_true', List.isEmpty_eq_false_iff, List.all_eq_true] at hf
    simp only [Form.words, List.flatMap_cons, splitBracket_plain hn, splitBracket_plain hf.1.1.1.1,
      glue_split es hf.1.2 hf.2]
    simp
  | expr es =>
    simp only [Form.ok, Bool.and_eq_true, Bool.not_eq_true', List.isEmpty_eq_false_iff, List.all_eq_true] at hf
    simp only [Form.words, List.flatMap_cons, splitBracket_plain hn, glue_split es hf.1 hf.2]
    simp
  | rel r ws =>
    simp only [Form.ok, Bool.and_eq_true, List.all_eq_true] at hf
    have := flatMap_plain hf.2
    simp [Form.words, splitBracket_plain hn, splitBracket_plain hf.1.1, this]

/-! ## `parseArgs` reads what was written -/

theorem contains_brackets {es : List Str} (hp : ∀ e ∈ es, plainWord e = true) :
    ([cLbr] :: es ++ [[cRbr]]).contains [cLbr] = true ∧ ([cLbr] :: es ++ [[cRbr]]).contains [cRbr] = true ∧
    ([cLbr] :: es ++ [[cRbr]]).idxOf [cLbr] = 0 ∧ ([cLbr] :: es ++ [[cRbr]]).idxOf [cRbr] = es.length + 1 := by
  obtain ⟨_, h2⟩ := not_mem_plain hp
  refine ⟨by simp, by simp, by simp [List.idxOf_cons], ?_⟩
  have hne : ([cLbr] == [cRbr]) = false := by decide
  simp only [List.cons_append, List.idxOf_cons, hne, cond_false, idxOf_close h2]

theorem plain_no_brackets {ws : List Str} (hp : ∀ e ∈ ws, plainWord e = true) :
    (ws.contains [cLbr] && ws.contains [cRbr]) = false := by
  obtain ⟨h1, _⟩ := not_mem_plain hp
  have : ws.contains [cLbr] = false := by simpa using h1
  rw [this]; rfl

/-- the part of `parseArgs` after the flag loop: explicit version, bracketed expression, relational expression -/
def finishParse (flags : List Str) (name : Str) (words : List Str) : Except Err ParseResult := do
  let (version, words) : Option Str × List Str := match words with
    | w :: ws => if w != [cLbr] then (some w, ws) else (none, words)
    | [] => (none, [])
  let (logical, words) : Option Str × List Str :=
    if words.contains [cLbr] && words.contains [cRbr] then
      let left := words.idxOf [cLbr]
      let right := words.idxOf [cRbr]
      (some (join [cSp] (slice words (left + 1) right)), delSlice words left (right + 1))
    else (none, words)
  match version with
  | some (c :: cs) =>
    if ← isLegalRelativeVersion (c :: cs) then
      return .parsed ⟨name, flags, none, some (join [cSp] ((c :: cs) :: words))⟩
    else return .parsed ⟨name, flags, version, logical⟩
  | _ => return .parsed ⟨name, flags, version, logical⟩

theorem parseArgs_eq (argStr : Str) :
    parseArgs argStr =
      (if (splitWs argStr).head? == some sEups then pure .passthrough
       else (scanArgs (splitWs argStr) [] []).bind fun fw =>
        match fw.2 with
        | [] => pure .passthrough
        | name :: words => finishParse fw.1 name words) := by
  unfold parseArgs finishParse
  by_cases h : ((splitWs argStr).head? == some sEups) = true
  · simp [h, pure, Except.pure]
  · simp only [h, Bool.false_eq_true, if_false, bind, Except.bind]
    cases scanArgs (splitWs argStr) [] [] with
    | error e => rfl
    | ok fw =>
      obtain ⟨f, w⟩ := fw
      cases w with
      | nil => rfl
      | cons n ws => rfl

theorem slice_brackets (es : List Str) : slice ([cLbr] :: es ++ [[cRbr]]) (0 + 1) (es.length + 1) = es := by
  simp [slice, List.take_append_of_le_length]

theorem delSlice_brackets (es : List Str) : delSlice ([cLbr] :: es ++ [[cRbr]]) 0 (es.length + 1 + 1) = [] := by
  simp [delSlice]

theorem finishParse_bare (flags : List Str) (name : Str) :
    finishParse flags name [] = .ok (.parsed ⟨name, flags, none, none⟩) := by
  simp [finishParse, pure, Except.pure]

theorem finishParse_ver (flags : List Str) (name : Str) {v : Str} (hv : versionWord v = true) :
    finishParse flags name [v] = .ok (.parsed ⟨name, flags, some v, none⟩) := by
  obtain ⟨hne, hleg⟩ := versionWord_legal hv
  have hvb : (v != [cLbr]) = true := by
    simp only [versionWord, Bool.and_eq_true] at hv
    simpa using (plainWord_ne hv.1.1).1
  cases v with
  | nil => exact absurd rfl hne
  | cons c cs =>
    unfold finishParse
    simp only [hvb, if_true]
    simp [hleg, pure, Except.pure, bind, Except.bind]

theorem finishParse_verExpr (flags : List Str) (name : Str) {v : Str} (hv : versionWord v = true) {es : List Str}
    (hp : ∀ e ∈ es, plainWord e = true) :
    finishParse flags name (v :: [cLbr] :: es ++ [[cRbr]]) = .ok (.parsed ⟨name, flags, some v, some (join [cSp] es)⟩) := by
  obtain ⟨hne, hleg⟩ := versionWord_legal hv
  have hvb : (v != [cLbr]) = true := by
    simp only [versionWord, Bool.and_eq_true] at hv
    simpa using (plainWord_ne hv.1.1).1
  obtain ⟨c1, c2, i1, i2⟩ := contains_brackets hp
  cases v with
  | nil => exact absurd rfl hne
  | cons c cs =>
    unfold finishParse
    simp only [List.cons_append, hvb, if_true]
    simp only [← List.cons_append, c1, c2, Bool.and_self, if_true, i1, i2, slice_brackets, delSlice_brackets]
    simp only [hleg, pure, Except.pure, bind, Except.bind, Bool.false_eq_true, if_false]

theorem finishParse_expr (flags : List Str) (name : Str) {es : List Str} (hp : ∀ e ∈ es, plainWord e = true) :
    finishParse flags name ([cLbr] :: es ++ [[cRbr]]) = .ok (.parsed ⟨name, flags, none, some (join [cSp] es)⟩) := by
  obtain ⟨c1, c2, i1, i2⟩ := contains_brackets hp
  have hb : (([cLbr] : Str) != [cLbr]) = false := by decide
  unfold finishParse
  simp only [List.cons_append, hb, Bool.false_eq_true, if_false]
  simp only [← List.cons_append, c1, c2, Bool.and_self, if_true, i1, i2, slice_brackets, delSlice_brackets]
  rfl

theorem finishParse_rel (flags : List Str) (name : Str) {r : Str} (hr : plainWord r = true) (hrel : hasRelop r = true)
    {ws : List Str} (hp : ∀ e ∈ ws, plainWord e = true) :
    finishParse flags name (r :: ws) = .ok (.parsed ⟨name, flags, none, some (join [cSp] (r :: ws))⟩) := by
  have hrb : (r != [cLbr]) = true := by simpa using (plainWord_ne hr).1
  have hnb := plain_no_brackets hp
  have hleg : isLegalRelativeVersion r = .ok true := by simp [isLegalRelativeVersion, hrel, pure, Except.pure]
  obtain ⟨c, cs, rfl, _, _⟩ := plainWord_facts hr
  unfold finishParse
  simp only [hrb, if_true]
  simp only [hnb, Bool.false_eq_true, if_false]
  simp only [hleg, pure, Except.pure, bind, Except.bind, if_true]

/-- **`parseArgs` against the reader** (token level).  `argStr` is the text between the parentheses of a setup command
whose white-space-separated tokens are those of `toks` (`splitWs_render`: whatever the layout): flags anywhere, and as words, in
order, the product name and the words of one of the five documented forms.  Then `parseArgs` yields exactly what the reader
`Form.parsed` says: the product, the flags in order (`flag arg` for a flag with an argument), the explicit version if there
is one, the expression (the words between the brackets, or the relational words) if there is one.  The product is not the
pseudo-product `eups`, which `subSetup` leaves alone. -/
theorem parseArgs_reads (argStr : Str) (toks : List Tok) (name : Str) (fm : Form)
    (hsplit : splitWs argStr = toks.flatMap Tok.strs) (hok : ∀ t ∈ toks, t.ok = true)
    (hwords : toks.filterMap Tok.wordText = fm.words name) (hn : plainWord name = true) (hf : fm.ok = true)
    (heups : (toks.flatMap Tok.strs).head? ≠ some sEups) :
    parseArgs argStr = .ok (.parsed (fm.parsed name (toks.filterMap Tok.flagText))) := by
  have hscan := scanArgs_toks toks [] [] hok
  rw [hwords, form_words_split name hn fm hf] at hscan
  simp only [List.nil_append] at hscan
  have hhead : ((toks.flatMap Tok.strs).head? == some sEups) = false := by simpa using heups
  rw [parseArgs_eq, hsplit]
  simp only [hhead, Bool.false_eq_true, if_false, hscan, Except.bind]
  cases fm with
  | bare => exact finishParse_bare _ _
  | ver v => exact finishParse_ver _ _ hf
  | verExpr v es =>
    simp only [Form.ok, Bool.and_eq_true, Bool.not_eq_true', List.isEmpty_eq_false_iff, List.all_eq_true] at hf
    exact finishParse_verExpr _ _ hf.1.1 hf.2
  | expr es =>
    simp only [Form.ok, Bool.and_eq_true, Bool.not_eq_true', List.isEmpty_eq_false_iff, List.all_eq_true] at hf
    exact finishParse_expr _ _ hf.2
  | rel r ws =>
    simp only [Form.ok, Bool.and_eq_true, List.all_eq_true] at hf
    exact finishParse_rel _ _ hf.1.1 hf.1.2 hf.2

/-- the pseudo-product `eups` first: the line is left alone -/
theorem parseArgs_eups (argStr : Str) (h : (splitWs argStr).head? = some sEups) : parseArgs argStr = .ok .passthrough := by
  unfold parseArgs
  simp [h, pure, Except.pure]

end EupsModel.Expand
