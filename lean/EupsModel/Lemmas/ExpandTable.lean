import EupsModel.Lemmas.Expand
import EupsModel.Props.C11
import EupsModel.Model.ExpandTable
/-! Bridge between C17 (`Model/Expand.lean`) and the model of the table reader (`Model/TableParse.lean`, `Model/Cond.lean`,
property C11): the text `expandTableFile` writes is a table of the grammar `C11_blocks_text` covers — single lines and
`if (type == exact) { pins } else { lines }` / `if (type != exact) { lines }` chains — so that what
`Table(expanded).actions(flavor, "exact")` returns is computed from the items of the expansion: the actions of the lines the
expander passes through outside every block, and — in place of every setup line of the table — the pin actions
`setupRequired(n -j v)`.  This discharges the TableParse step of `ExactSetupHyps` (`applies_exact_branch` and the text half of
`pin_sets_exactly`). -/
set_option linter.unusedSimpArgs false
namespace EupsModel.ExpandTable
open EupsModel EupsModel.Expand EupsModel.C11Spec

/-! ## what the parser makes of the lines the expander writes -/





theorem lineT_ok {pdir : Option Str} {s : Str} (h : lineOK pdir s = true) :
    BodyLineT.ok pdir ⟨s, lineRes pdir s⟩ = true := by
  simp only [lineOK, Bool.and_eq_true, Bool.or_eq_true] at h
  obtain ⟨h10, h⟩ := h
  by_cases he : (TableParse.strip s).isEmpty = true
  · simp [BodyLineT.ok, h10, lineRes, he]
  · have he' : (TableParse.strip s).isEmpty = false := by simpa using he
    simp only [he', Bool.false_eq_true, false_or] at h
    obtain ⟨hn, hc⟩ := h
    have key : TableParse.classify TableParse.repaired pdir (TableParse.strip s) = .ok (lineOf (lineRes pdir s)) := by
      unfold lineRes
      simp only [he', Bool.false_eq_true, if_false]
      cases hcl : TableParse.classify TableParse.repaired pdir (TableParse.strip s) with
      | ok l =>
        cases l with
        | act a => rfl
        | skip => rfl
        | blk b => simp [hcl] at hc
      | err e => simp [hcl] at hc
      | fuel => simp [hcl] at hc
    simp only [BodyLineT.ok, h10, he', hn, key, Bool.true_and, Bool.false_eq_true, if_false, decide_true, Bool.and_self]

/-! ## the pin line as a written command (`C11_written_command`) -/

def pinCmd (ind : Int) (opt : Bool) (n v : Str) : WCmd :=
  { wrap := ⟨indentStr ind, []⟩, name := cmdName opt, cmd := if opt then .setupOptional else .setupRequired, gap := [],
    args := .some [] ⟨n, false⟩ [(List.replicate (15 - n.length) 32 ++ [32], ⟨sDashJ, false⟩), ([32], ⟨v, false⟩)] [],
    tl := [] }

theorem rstrip_snoc {xs : Str} {a : Nat} (h : Str.isSpace a = false) : rstrip (xs ++ [a]) = xs ++ [a] := by
  simp [rstrip, List.reverse_append, List.dropWhile_cons, h]

theorem strip_pinText (opt : Bool) (n v : Str) : strip (pinText opt n v) = pinText opt n v := by
  have e : pinText opt n v = (cmdName opt ++ [cLpar] ++ pad15 n ++ sJ ++ v) ++ [cRpar] := rfl
  have hl : lstrip (pinText opt n v) = pinText opt n v := by
    cases opt <;> rfl
  unfold strip
  rw [hl, e]
  exact rstrip_snoc (by decide)

theorem pinCmd_raw (ind : Int) (opt : Bool) (n v : Str) : (pinCmd ind opt n v).raw = renderItem (.pin ind opt n v) := by
  have hj : sJ = [32] ++ sDashJ ++ [32] := by decide
  show _ = indentStr ind ++ strip (pinText opt n v)
  rw [strip_pinText]
  simp only [pinText, pinCmd, WCmd.raw, Wrap.around, WCmd.core, WArgs.text, argsText, WArg.text,
    pad15, hj, cLpar, cRpar, cSp, List.flatMap_cons, List.flatMap_nil, List.append_assoc, List.append_nil, List.nil_append,
    Bool.false_eq_true, if_false]

theorem indent_hblank (ind : Int) : hblank (indentStr ind) = true := by
  simp only [hblank, indentStr, List.all_eq_true]
  intro x hx
  have := List.eq_of_mem_replicate hx
  subst this; decide

theorem wrapI_ok (ind : Int) : (⟨indentStr ind, []⟩ : Wrap).ok = true := by
  simp [Wrap.ok, indent_hblank]

theorem isInfix_head_absent {d : Nat} {p' : Str} : ∀ (s : Str), d ∉ s → TableParse.isInfix (d :: p') s = false := by
  intro s
  induction s with
  | nil => intro _; rfl
  | cons c cs ih =>
    intro h
    have hc : d ≠ c := fun e => h (by simp [e])
    have hcs : d ∉ cs := fun m => h (by simp [m])
    simp [TableParse.isInfix, List.isPrefixOf, hc, ih hcs]

theorem synonyms_head : ∀ p ∈ TableParse.synonyms, ∃ p', p.1 = 36 :: p' := by
  have h : TableParse.synonyms.all (fun p => p.1.head? == some 36) = true := by decide
  intro p hp
  have := List.all_eq_true.mp h p hp
  cases hp1 : p.1 with
  | nil => simp [hp1] at this
  | cons c cs => simp [hp1] at this; exact ⟨cs, by rw [this]⟩

theorem wordOK_facts {w : Str} (h : wordOK w = true) :
    plainVal w = true ∧ (∀ c ∈ w, c ≠ 35 ∧ c ≠ 36 ∧ c ≠ 10) ∧ w ≠ TableParse.sDashF := by
  simp only [wordOK, Bool.and_eq_true, List.all_eq_true, bne_iff_ne, ne_eq] at h
  obtain ⟨⟨hp, hc⟩, hh⟩ := h
  refine ⟨hp, fun c hm => ⟨(hc c hm).1, (hc c hm).2, ?_⟩, ?_⟩
  · simp only [plainVal, Bool.and_eq_true, List.all_eq_true] at hp
    have := hp.2 c hm
    intro e; subst e; simp [Str.isSpace] at this
  · intro e; subst e; simp [TableParse.sDashF] at hh

theorem pinCmd_ok (ind : Int) (opt : Bool) {n v : Str} (hn : wordOK n = true) (hv : wordOK v = true) :
    (pinCmd ind opt n v).ok = true := by
  obtain ⟨hpn, hcn, _⟩ := wordOK_facts hn
  obtain ⟨hpv, hcv, _⟩ := wordOK_facts hv
  have hname : (cmdName opt).isEmpty = false ∧ (cmdName opt).all Cond.isWordCh = true ∧
      TableParse.cmdTable.lookup (Str.lower (cmdName opt)) = some (if opt then TableParse.Cmd.setupOptional else .setupRequired) := by
    cases opt <;> decide
  have hsep : sepOK (List.replicate (15 - n.length) 32 ++ [32]) = true := by
    simp only [sepOK, Bool.and_eq_true, List.all_eq_true]
    refine ⟨by simp, fun x hx => ?_⟩
    simp only [List.mem_append, List.mem_singleton] at hx
    rcases hx with hx | rfl
    · have := List.eq_of_mem_replicate hx; subst this; rfl
    · rfl
  have hj : plainVal sDashJ = true := by decide
  have hargsOK : (pinCmd ind opt n v).args.ok = true := by
    simp [pinCmd, WArgs.ok, padOK, WArg.ok, hpn, hpv, hj, hsep, sepOK]
  -- characters of the command text
  let p : Nat → Bool := fun x => x != 10 && x != 35 && x != 36
  have a1 : (cmdName opt).all p = true := by cases opt <;> decide
  have a2 : n.all p = true := List.all_eq_true.mpr fun x hx => by
    have := hcn x hx; simp [p, this.1, this.2.1, this.2.2]
  have a3 : v.all p = true := List.all_eq_true.mpr fun x hx => by
    have := hcv x hx; simp [p, this.1, this.2.1, this.2.2]
  have a4 : (List.replicate (15 - n.length) 32).all p = true := List.all_eq_true.mpr fun x hx => by
    have := List.eq_of_mem_replicate hx; subst this; decide
  have a5 : sDashJ.all p = true := by decide
  have hall : (pinCmd ind opt n v).core.all p = true := by
    simp [pinCmd, WCmd.core, WArgs.text, argsText, WArg.text, List.all_append, a1, a2, a3, a4, a5, p]
  have hargs : (pinCmd ind opt n v).args.text.all p = true := by
    simp [pinCmd, WArgs.text, argsText, WArg.text, List.all_append, a2, a3, a4, a5, p]
  have htext : (pinCmd ind opt n v).textOK = true := by
    simp only [WCmd.textOK, Bool.and_eq_true, List.all_eq_true, Bool.not_eq_true']
    constructor
    · intro x hx
      have := List.all_eq_true.mp hargs x hx
      simp only [p, Bool.and_eq_true] at this
      simp [this.1.1, this.1.2]
    · intro q hq
      obtain ⟨q', hq'⟩ := synonyms_head q hq
      rw [hq']
      refine isInfix_head_absent _ (fun hm => ?_)
      have := List.all_eq_true.mp hall 36 hm
      simp [p] at this
  simp only [WCmd.ok, Bool.and_eq_true, Bool.not_eq_true', beq_iff_eq]
  refine ⟨⟨⟨⟨⟨⟨⟨⟨wrapI_ok ind, hname.1⟩, hname.2.1⟩, hname.2.2⟩, rfl⟩, hargsOK⟩, rfl⟩, rfl⟩, htext⟩

theorem pinCmd_denote (pdir : Option Str) (ind : Int) (opt : Bool) {n v : Str} (hn : wordOK n = true) (hv : wordOK v = true) :
    (pinCmd ind opt n v).denote pdir = some (some (pinAction opt n v)) := by
  obtain ⟨_, _, hnf⟩ := wordOK_facts hn
  obtain ⟨_, _, hvf⟩ := wordOK_facts hv
  have hjf : (sDashJ == TableParse.sDashF) = false := by decide
  have hd : TableParse.dropF [n, sDashJ, v] = [n, sDashJ, v] := by
    simp [TableParse.dropF, hnf, hvf, hjf]
  cases opt <;>
    simp [WCmd.denote, pinCmd, WArgs.vals, wholeQuoted, TableParse.normalise, hd, pinAction]

/-- a pin line is a line of a written table that stands for its pin action -/
theorem pinLine_ok (pdir : Option Str) (ind : Int) (opt : Bool) {n v : Str} (hn : wordOK n = true) (hv : wordOK v = true) :
    BodyLineT.ok pdir ⟨renderItem (.pin ind opt n v), some (pinAction opt n v)⟩ = true := by
  have := TableParse.wcmd_body (pdir := pdir) (pinCmd_ok ind opt hn hv) (pinCmd_denote pdir ind opt hn hv)
  rwa [pinCmd_raw] at this

/-! ## the expanded table as a written table (`TItemT`) -/


theorem itemLineT_raw (pdir : Option Str) (it : Item) : (itemLineT pdir it).raw = renderItem it := by
  cases it <;> rfl

theorem map_itemLineT_raw (pdir : Option Str) (its : List Item) :
    (its.map (itemLineT pdir)).map (·.raw) = its.map renderItem := by
  simp [List.map_map, Function.comp_def, itemLineT_raw]






/-! ### its text is the text the expander writes -/

theorem ifLine_exact : ifCore layIf (condExact false).str = strip sIfExact := by decide
theorem ifLine_notExact : ifCore layIf (condExact true).str = strip sIfNotExact := by decide
theorem elseLine : elseCore layElse [] = strip Expand.sElse := by decide
theorem closeLine : closeCore [] = strip Expand.sClose := by decide

theorem linesT_raw (pdir : Option Str) (its : List Item) : (linesT pdir its).flatMap TItemT.rawLines = its.map renderItem := by
  induction its with
  | nil => rfl
  | cons it rest ih =>
    simp only [linesT, List.map_cons, List.flatMap_cons, TItemT.rawLines, itemLineT_raw] at ih ⊢
    simp [ih]

theorem chainExact_raw (pdir : Option Str) (ind : Int) (pins body : List Item) :
    (chainExact pdir ind pins body).rawLines
      = renderItem (.gen ind sIfExact) :: pins.map renderItem ++ (renderItem (.gen ind Expand.sElse) :: body.map renderItem)
        ++ [renderItem (.gen ind Expand.sClose)] := by
  simp only [chainExact, TItemT.rawLines, BranchT.abs, Branch.text, Wrap.around, wrapI, ifLine_exact, elseLine, closeLine,
    map_itemLineT_raw, renderItem, List.flatMap_nil, List.append_nil]

theorem chainNot_raw (pdir : Option Str) (ind : Int) (body : List Item) :
    (chainNot pdir ind body).rawLines
      = renderItem (.gen ind sIfNotExact) :: body.map renderItem ++ [renderItem (.gen ind Expand.sClose)] := by
  simp only [chainNot, TItemT.rawLines, BranchT.abs, Branch.text, Wrap.around, wrapI, ifLine_notExact, closeLine,
    map_itemLineT_raw, renderItem, List.flatMap_nil, List.append_nil]

theorem visitedT_raw (pdir : Option Str) (o : Opts) (ha : o.addExactBlock = true) (ls : Option Nat) (c : CState) :
    ∀ (vis : List (Nat × Block)) (ind : Int),
      (visitedT pdir ls c ind vis).flatMap TItemT.rawLines = (emitVisited o ls c ind vis).map renderItem := by
  intro vis
  induction vis with
  | nil => intro ind; rfl
  | cons ib rest ih =>
    intro ind
    obtain ⟨i, b⟩ := ib
    unfold visitedT emitVisited
    by_cases hs : b.isSetup = true
    · simp only [hs, if_true, List.flatMap_cons, List.map_append, ih]
      congr 1
      cases hl : (ls == some i) with
      | true => simp [setupT, emitSetup, ha, chainExact_raw]
      | false => simp [setupT, emitSetup, ha, chainNot_raw]
    · simp only [hs, Bool.false_eq_true, if_false, List.flatMap_append, linesT_raw, ih]
      cases he : emitPlain ind b.lines with
      | mk its ind' => simp

/-! ### it is well formed when the lines are -/



theorem itemLineT_ok {pdir : Option Str} {it : Item} (h : itemOK pdir it = true) (hg : isGen it = false) :
    BodyLineT.ok pdir (itemLineT pdir it) = true := by
  cases it with
  | pin ind opt n v =>
    simp only [itemOK, Bool.and_eq_true] at h
    exact pinLine_ok pdir ind opt h.1 h.2
  | gen ind t => simp [isGen] at hg
  | orig i k t =>
    simp only [itemOK, Bool.and_eq_true] at h
    exact lineT_ok h.1
  | fin t => exact lineT_ok h

theorem emitPlain_orig (ind : Int) (ls : List BLine) :
    ∀ x ∈ (emitPlain ind ls).1, ∃ i l, l ∈ ls ∧ x = .orig i l.kind l.text := by
  intro x hx
  unfold emitPlain at hx
  split at hx
  · simp at hx
  · rename_i l rest
    have key : ∀ (f : BLine → Int) (sub : List BLine), (∀ y ∈ sub, y ∈ l :: rest) →
        ∀ x ∈ sub.map (fun y => Item.orig (f y) y.kind y.text), ∃ i l', l' ∈ l :: rest ∧ x = .orig i l'.kind l'.text := by
      intro f sub hsub x hx
      simp only [List.mem_map] at hx
      obtain ⟨y, hy, rfl⟩ := hx
      exact ⟨f y, y, hsub y hy, rfl⟩
    split at hx
    · simp only [List.mem_cons] at hx
      rcases hx with rfl | hx
      · exact ⟨ind, l, by simp, rfl⟩
      · exact key (fun _ => ind + 1) rest (fun y hy => by simp [hy]) x hx
    · split at hx
      · simp only [List.mem_cons] at hx
        rcases hx with rfl | hx
        · exact ⟨ind - 1, l, by simp, rfl⟩
        · exact key (fun _ => ind - 1) rest (fun y hy => by simp [hy]) x hx
      · exact key (fun _ => ind) (l :: rest) (fun y hy => hy) x hx

theorem emitSetupLines_orig (ind : Int) (ls : List BLine) :
    ∀ x ∈ emitSetupLines ind ls, ∃ l ∈ ls, x = .orig ind l.kind (strip l.text) := by
  intro x hx
  induction ls using emitSetupLines.induct ind with
  | case1 => simp [emitSetupLines] at hx
  | case2 l t h => simp [emitSetupLines, t, h] at hx
  | case3 l t h1 h2 => simp [emitSetupLines, t, h1, h2] at hx
  | case4 l t h1 h2 =>
    simp [emitSetupLines, t, h1, h2] at hx; subst hx
    exact ⟨l, by simp, rfl⟩
  | case5 l l2 rest ih =>
    simp only [emitSetupLines, List.mem_append] at hx
    rcases hx with hx | hx
    · split at hx
      · simp at hx
      · simp at hx; subst hx; exact ⟨l, by simp, rfl⟩
    · obtain ⟨l', hl', e⟩ := ih hx
      exact ⟨l', by simp [hl'], e⟩

theorem isGen_pinItems {ind : Int} {c : CState} {x : Item} (h : x ∈ pinItems ind c) : isGen x = false := by
  obtain ⟨n, v, _, rfl⟩ := mem_pinItems h; rfl

theorem isGen_emitSetupLines {ind : Int} {ls : List BLine} {x : Item} (h : x ∈ emitSetupLines ind ls) : isGen x = false := by
  obtain ⟨l, _, rfl⟩ := emitSetupLines_orig ind ls x h; rfl

theorem isGen_emitPlain {ind : Int} {ls : List BLine} {x : Item} (h : x ∈ (emitPlain ind ls).1) : isGen x = false := by
  obtain ⟨i, l, _, rfl⟩ := emitPlain_orig ind ls x h; rfl

theorem layIf_ok : layIf.ok = true := by decide
theorem layElse_ok : layElse.ok = true := by decide
theorem condExact_ok (neg : Bool) : (condExact neg).okAt 0 = true := by cases neg <;> decide
theorem condExact_nl (neg : Bool) : ∀ x ∈ (condExact neg).str, ¬ x = 10 := by cases neg <;> decide

theorem linesT_ok {pdir : Option Str} {its : List Item} (h : ∀ it ∈ its, BodyLineT.ok pdir (itemLineT pdir it) = true) :
    (linesT pdir its).all (TItemT.ok pdir) = true := by
  simp only [linesT, List.all_map, List.all_eq_true]
  intro it hit
  exact h it hit

theorem body_ok {pdir : Option Str} {its : List Item} (h : ∀ it ∈ its, BodyLineT.ok pdir (itemLineT pdir it) = true) :
    (its.map (itemLineT pdir)).all (BodyLineT.ok pdir) = true := by
  simp only [List.all_map, List.all_eq_true]
  intro it hit
  exact h it hit

theorem chainExact_ok {pdir : Option Str} (ind : Int) {pins body : List Item}
    (hp : ∀ it ∈ pins, BodyLineT.ok pdir (itemLineT pdir it) = true)
    (hb : ∀ it ∈ body, BodyLineT.ok pdir (itemLineT pdir it) = true) :
    TItemT.ok pdir (chainExact pdir ind pins body) = true := by
  have h1 := wrapI_ok ind
  simp [chainExact, TItemT.ok, BranchT.ok, ElseT.ok, wrapI, h1, layIf_ok, layElse_ok, condExact_ok, condExact_nl, blank, hblank,
    body_ok hp, body_ok hb]
  exact condExact_nl false

theorem chainNot_ok {pdir : Option Str} (ind : Int) {body : List Item}
    (hb : ∀ it ∈ body, BodyLineT.ok pdir (itemLineT pdir it) = true) :
    TItemT.ok pdir (chainNot pdir ind body) = true := by
  have h1 := wrapI_ok ind
  simp [chainNot, TItemT.ok, BranchT.ok, wrapI, h1, layIf_ok, condExact_ok, condExact_nl, blank, hblank, body_ok hb]
  exact condExact_nl true

theorem visitedT_ok (pdir : Option Str) (o : Opts) (ha : o.addExactBlock = true) (ls : Option Nat) (c : CState) :
    ∀ (vis : List (Nat × Block)) (ind : Int), (∀ it ∈ emitVisited o ls c ind vis, itemOK pdir it = true) →
      (visitedT pdir ls c ind vis).all (TItemT.ok pdir) = true := by
  intro vis
  induction vis with
  | nil => intro ind _; rfl
  | cons ib rest ih =>
    intro ind hok
    obtain ⟨i, b⟩ := ib
    unfold emitVisited at hok
    unfold visitedT
    by_cases hs : b.isSetup = true
    · simp only [hs, if_true, List.mem_append] at hok
      simp only [hs, if_true, List.all_cons, Bool.and_eq_true]
      refine ⟨?_, ih ind (fun it hit => hok it (.inr hit))⟩
      have hsl : ∀ it ∈ emitSetupLines (ind + 1) b.lines, BodyLineT.ok pdir (itemLineT pdir it) = true := fun it hit =>
        itemLineT_ok (hok it (.inl (by cases (ls == some i) <;> simp [emitSetup, ha, hit]))) (isGen_emitSetupLines hit)
      cases hl : (ls == some i) with
      | true =>
        simp only [setupT, if_true]
        refine chainExact_ok ind (fun it hit => ?_) hsl
        exact itemLineT_ok (hok it (.inl (by simp [emitSetup, ha, hl, hit]))) (isGen_pinItems hit)
      | false =>
        simp only [setupT, Bool.false_eq_true, if_false]
        exact chainNot_ok ind hsl
    · simp only [hs, Bool.false_eq_true, if_false] at hok
      simp only [hs, Bool.false_eq_true, if_false, List.all_append, Bool.and_eq_true]
      cases he : emitPlain ind b.lines with
      | mk its ind' =>
        simp only [he, List.mem_append] at hok
        refine ⟨linesT_ok (fun it hit => ?_), ih ind' (fun it hit => hok it (.inr hit))⟩
        exact itemLineT_ok (hok it (.inl hit)) (isGen_emitPlain (by rw [he]; exact hit))

/-! ### what it denotes in exact mode -/


theorem filterMap_eq_flatMap {α β : Type} (f : α → Option β) (l : List α) :
    l.filterMap f = l.flatMap (fun x => (f x).toList) := by
  induction l with
  | nil => rfl
  | cons x xs ih => cases h : f x <;> simp [List.filterMap_cons, h, ih]

theorem flatMap_congr' {α β : Type} {f g : α → List β} {l : List α} (h : ∀ x ∈ l, f x = g x) : l.flatMap f = l.flatMap g := by
  induction l with
  | nil => rfl
  | cons x xs ih =>
    simp only [List.flatMap_cons, h x (by simp), ih (fun y hy => h y (by simp [hy]))]

theorem flatMap_nil' {α β : Type} {f : α → List β} {l : List α} (h : ∀ x ∈ l, f x = []) : l.flatMap f = [] := by
  induction l with
  | nil => rfl
  | cons x xs ih =>
    simp only [List.flatMap_cons, h x (by simp), ih (fun y hy => h y (by simp [hy])), List.append_nil]

theorem bodyAbs_acts {pdir : Option Str} (l : List BodyLineT) (h : ∀ b ∈ l, BodyLineT.ok pdir b = true) :
    (bodyAbs l).acts = l.filterMap (·.res) := by
  induction l with
  | nil => rfl
  | cons b rest ih =>
    have hb := h b (by simp)
    have ih' := ih (fun x hx => h x (by simp [hx]))
    simp only [bodyAbs, Body.acts] at ih' ⊢
    by_cases he : (TableParse.strip b.raw).isEmpty = true
    · have hr : b.res = none := by
        simp only [BodyLineT.ok, he, if_true, Bool.and_eq_true] at hb
        cases hres : b.res with
        | none => rfl
        | some a => simp [hres] at hb
      simp only [List.filter_cons, he, Bool.not_true, Bool.false_eq_true, if_false, List.filterMap_cons, hr, ih']
    · have he' : (TableParse.strip b.raw).isEmpty = false := by simpa using he
      simp only [List.filter_cons, he', Bool.not_false, if_true, List.map_cons, List.filterMap_cons, id, ih']

theorem denoteTable_cons (env : Cond.Env) (x : TItemT) (xs : List TItemT) :
    denoteTable env (tableAbs (x :: xs)) = denoteTable env x.abs ++ denoteTable env (tableAbs xs) := by
  simp [denoteTable, tableAbs, List.flatMap_cons, List.flatMap_append]

theorem denoteTable_append (env : Cond.Env) (xs ys : List TItemT) :
    denoteTable env (tableAbs (xs ++ ys)) = denoteTable env (tableAbs xs) ++ denoteTable env (tableAbs ys) := by
  simp [denoteTable, tableAbs, List.flatMap_append]

theorem linesT_den {pdir : Option Str} (env : Cond.Env) {its : List Item}
    (h : ∀ it ∈ its, BodyLineT.ok pdir (itemLineT pdir it) = true) :
    denoteTable env (tableAbs (linesT pdir its)) = its.flatMap (fun it => (itemLineT pdir it).res.toList) := by
  induction its with
  | nil => rfl
  | cons it rest ih =>
    have hb := h it (by simp)
    have ih' := ih (fun x hx => h x (by simp [hx]))
    have : linesT pdir (it :: rest) = .line (itemLineT pdir it) :: linesT pdir rest := rfl
    rw [this, denoteTable_cons, ih', List.flatMap_cons]
    congr 1
    by_cases he : (TableParse.strip (itemLineT pdir it).raw).isEmpty = true
    · have hr : (itemLineT pdir it).res = none := by
        simp only [BodyLineT.ok, he, if_true, Bool.and_eq_true] at hb
        cases hres : (itemLineT pdir it).res with
        | none => rfl
        | some a => simp [hres] at hb
      simp [TItemT.abs, he, hr, denoteTable]
    · have he' : (TableParse.strip (itemLineT pdir it).raw).isEmpty = false := by simpa using he
      simp [TItemT.abs, he', denoteTable, denoteItem]

theorem denote_condExact (env : Cond.Env) (neg : Bool) :
    denote env (condExact neg).abs = (env.types.contains sExactW != neg) := rfl

theorem chainExact_den {pdir : Option Str} (env : Cond.Env) (hex : env.types.contains sExactW = true) (ind : Int)
    {pins body : List Item} (hp : ∀ it ∈ pins, BodyLineT.ok pdir (itemLineT pdir it) = true) :
    denoteTable env (chainExact pdir ind pins body).abs = pins.flatMap (fun it => (itemLineT pdir it).res.toList) := by
  have hb := bodyAbs_acts (pdir := pdir) (pins.map (itemLineT pdir)) (by
    intro b hb; simp only [List.mem_map] at hb; obtain ⟨it, hit, rfl⟩ := hb; exact hp it hit)
  simp only [chainExact, TItemT.abs, denoteTable, List.flatMap_cons, List.flatMap_nil, List.append_nil, denoteItem,
    denoteBranches, BranchT.abs, denote_condExact, hex, List.map_nil]
  simp only [bne_self_eq_false, Bool.true_bne, Bool.not_false, if_true] at hb ⊢
  rw [hb, filterMap_eq_flatMap, List.flatMap_map]

theorem chainNot_den {pdir : Option Str} (env : Cond.Env) (hex : env.types.contains sExactW = true) (ind : Int)
    (body : List Item) : denoteTable env (chainNot pdir ind body).abs = [] := by
  have hm : sExactW ∈ env.types := by simpa using hex
  simp [chainNot, TItemT.abs, denoteTable, denoteItem, denoteBranches, BranchT.abs, denote_condExact, hex]
  intro h; exact absurd hm h

theorem exactActs_gen (pdir : Option Str) (i : Int) (t : Str) : exactActs pdir (.gen i t) = [] := rfl

theorem exactActs_pin {pdir : Option Str} {ind : Int} {c : CState} {x : Item} (h : x ∈ pinItems ind c) :
    (itemLineT pdir x).res.toList = exactActs pdir x := by
  obtain ⟨n, v, _, rfl⟩ := mem_pinItems h; rfl

theorem exactActs_setupLine {pdir : Option Str} {ind : Int} {ls : List BLine} (hk : ∀ l ∈ ls, l.kind ≠ .other) {x : Item}
    (h : x ∈ emitSetupLines ind ls) : exactActs pdir x = [] := by
  obtain ⟨l, hl, rfl⟩ := emitSetupLines_orig ind ls x h
  have := hk l hl
  simp [exactActs, this]

theorem exactActs_plain {pdir : Option Str} {ind : Int} {ls : List BLine} (hk : ∀ l ∈ ls, l.kind ≠ .setup) {x : Item}
    (h : x ∈ (emitPlain ind ls).1) (hok : itemOK pdir x = true) : (itemLineT pdir x).res.toList = exactActs pdir x := by
  obtain ⟨i, l, hl, rfl⟩ := emitPlain_orig ind ls x h
  have hks := hk l hl
  simp only [itemOK, Bool.and_eq_true, Bool.or_eq_true, bne_iff_ne, ne_eq] at hok
  cases hkind : l.kind with
  | setup => exact absurd hkind hks
  | other => simp [itemLineT, exactActs, hkind]
  | blank =>
    have hn := hok.2
    simp only [hkind, not_true_eq_false, false_or] at hn
    cases hres : lineRes pdir (renderItem (.orig i .blank l.text)) with
    | none => simp [itemLineT, exactActs, hkind, hres]
    | some a => rw [hres] at hn; cases hn

theorem visitedT_den (pdir : Option Str) (env : Cond.Env) (hex : env.types.contains sExactW = true) (o : Opts)
    (ha : o.addExactBlock = true) (ls : Option Nat) (c : CState) :
    ∀ (vis : List (Nat × Block)) (ind : Int), (∀ ib ∈ vis, ib.2.KindsOk) →
      (∀ it ∈ emitVisited o ls c ind vis, itemOK pdir it = true) →
      denoteTable env (tableAbs (visitedT pdir ls c ind vis)) = (emitVisited o ls c ind vis).flatMap (exactActs pdir) := by
  intro vis
  induction vis with
  | nil => intro ind _ _; rfl
  | cons ib rest ih =>
    intro ind hk hok
    obtain ⟨i, b⟩ := ib
    have hkb : b.KindsOk := hk (i, b) (by simp)
    have hkr : ∀ ib ∈ rest, ib.2.KindsOk := fun x hx => hk x (by simp [hx])
    unfold emitVisited at hok ⊢
    unfold visitedT
    by_cases hs : b.isSetup = true
    · simp only [hs, if_true, List.mem_append] at hok
      simp only [hs, if_true, denoteTable_cons, List.flatMap_append]
      rw [ih ind hkr (fun it hit => hok it (.inr hit))]
      congr 1
      have hko : ∀ l ∈ b.lines, l.kind ≠ .other := fun l hl => by
        have := hkb l hl; simpa [hs] using this
      have hsl : (emitSetupLines (ind + 1) b.lines).flatMap (exactActs pdir) = [] :=
        flatMap_nil' (fun x hx => exactActs_setupLine hko hx)
      cases hl : (ls == some i) with
      | true =>
        have hp : ∀ it ∈ pinItems (ind + 1) c, BodyLineT.ok pdir (itemLineT pdir it) = true := fun it hit =>
          itemLineT_ok (hok it (.inl (by simp [emitSetup, ha, hl, hit]))) (isGen_pinItems hit)
        simp only [setupT, if_true, chainExact_den env hex ind hp]
        rw [flatMap_congr' (fun x hx => exactActs_pin (pdir := pdir) hx)]
        simp [emitSetup, ha, List.flatMap_append, exactActs_gen, hsl]
      | false =>
        simp only [setupT, Bool.false_eq_true, if_false, chainNot_den env hex]
        simp [emitSetup, ha, List.flatMap_append, exactActs_gen, hsl]
    · simp only [hs, Bool.false_eq_true, if_false] at hok
      simp only [hs, Bool.false_eq_true, if_false, denoteTable_append]
      have hkn : ∀ l ∈ b.lines, l.kind ≠ .setup := fun l hl => by
        have := hkb l hl; simpa [hs] using this
      cases he : emitPlain ind b.lines with
      | mk its ind' =>
        simp only [he, List.mem_append] at hok
        have hmem : ∀ it ∈ its, it ∈ (emitPlain ind b.lines).1 := fun it hit => by rw [he]; exact hit
        simp only [List.flatMap_append]
        rw [ih ind' hkr (fun it hit => hok it (.inr hit)),
          linesT_den env (fun it hit => itemLineT_ok (hok it (.inl hit)) (isGen_emitPlain (hmem it hit))),
          flatMap_congr' (fun x hx => exactActs_plain hkn (hmem x hx) (hok x (.inl hx)))]

/-! ## the whole expansion -/


/-- **The expanded table, read by the table parser in exact mode.**  For a successful expansion (no pre-existing exact
block, `addExactBlock`) whose items are `itemOK`, `Table(expanded text, product).actions(flavor, types)` with `exact`
among the setup types is the concatenation of `exactActs` over the items of the expansion. -/
theorem expand_exact_actions {A : Answers} {o : Opts} {lines : List Str} {items : List Item} (pdir : Option Str) (env : Cond.Env)
    (hfl : flavorOK env.flavor = true) (hex : env.types.contains sExactW = true)
    (h : expandItems A o lines = .ok items) (hn : noExactLine A o lines = true) (ha : o.addExactBlock = true)
    (hok : ∀ it ∈ items, itemOK pdir it = true) (nl : Bool) :
    TableParse.tableActions TableParse.repaired pdir env (expandedText items nl) = .ok (items.flatMap (exactActs pdir)) := by
  obtain ⟨st, c, vis, hr, hc, hv, rfl⟩ := expandItems_ok h
  obtain ⟨cs, hcs, rfl⟩ := readAll_ok hr
  have hnp := noPre_of_noExactLine hn hcs
  rw [visit_noPre _ 0 hnp] at hv
  cases hv
  have hk : ∀ ib ∈ enumFrom 0 (cs.foldl step {}).blocks, ib.2.KindsOk := fun ib hib =>
    kindsOk_foldl cs kindsOk_init ib.2 (mem_enumFrom hib)
  have hok1 : ∀ it ∈ emitVisited o (cs.foldl step {}).lastSetup c 0 (enumFrom 0 (cs.foldl step {}).blocks), itemOK pdir it = true :=
    fun it hit => hok it (by simp [hit])
  have hfin : ∀ it ∈ c.final.map Item.fin, BodyLineT.ok pdir (itemLineT pdir it) = true := fun it hit => by
    have hio := hok it (by simp only [List.mem_append]; exact .inr hit)
    simp only [List.mem_map] at hit
    obtain ⟨t, _, rfl⟩ := hit
    exact itemLineT_ok hio rfl
  let t := visitedT pdir (cs.foldl step {}).lastSetup c 0 (enumFrom 0 (cs.foldl step {}).blocks) ++ linesT pdir (c.final.map Item.fin)
  have hraw : t.flatMap TItemT.rawLines
      = (emitVisited o (cs.foldl step {}).lastSetup c 0 (enumFrom 0 (cs.foldl step {}).blocks) ++ c.final.map Item.fin).map renderItem := by
    simp only [t, List.flatMap_append, visitedT_raw pdir o ha, linesT_raw, List.map_append]
  have htok : t.all (TItemT.ok pdir) = true := by
    simp only [t, List.all_append, Bool.and_eq_true]
    exact ⟨visitedT_ok pdir o ha _ c _ 0 hok1, linesT_ok hfin⟩
  have hden : denoteTable env (tableAbs t)
      = (emitVisited o (cs.foldl step {}).lastSetup c 0 (enumFrom 0 (cs.foldl step {}).blocks) ++ c.final.map Item.fin).flatMap (exactActs pdir) := by
    simp only [t, denoteTable_append, List.flatMap_append]
    rw [visitedT_den pdir env hex o ha _ c _ 0 hk hok1, linesT_den env hfin]
    congr 1
    refine flatMap_congr' (fun x hx => ?_)
    simp only [List.mem_map] at hx
    obtain ⟨t', _, rfl⟩ := hx
    rfl
  have := C11.C11_blocks_text env hfl pdir t htok nl
  rw [hden] at this
  rw [← this]
  simp only [expandedText, tableText, hraw]

/-! ## the setup commands among the exact-mode actions are the pins -/




theorem toPin_pinAction (opt : Bool) (n v : Str) : toPin (pinAction opt n v) = some (opt, n, v) := by
  simp [toPin, pinAction]

theorem toPin_not_setup {a : TableParse.Action} (h : isSetupAct a = false) : toPin a = none := by
  simp only [isSetupAct, Bool.or_eq_false_iff] at h
  simp [toPin, h.1]

theorem toPin_exactActs {pdir : Option Str} (it : Item) (h : inertItem pdir it = true) :
    (exactActs pdir it).filterMap toPin = (pinKey it).toList := by
  cases it with
  | pin ind opt n v => simp [exactActs, pinKey, toPin_pinAction]
  | gen ind t => simp [exactActs, pinKey]
  | orig i k t =>
    simp only [exactActs, pinKey, Option.toList]
    by_cases hk : (k == LKind.other) = true
    · simp only [inertItem, hk, if_true] at h
      simp only [hk, if_true]
      cases hr : lineRes pdir (renderItem (.orig i k t)) with
      | none => simp
      | some a =>
        rw [hr] at h
        have : isSetupAct a = false := by simpa using h
        simp [toPin_not_setup this]
    · simp [hk]
  | fin t =>
    simp only [exactActs, pinKey, Option.toList]
    simp only [inertItem] at h
    cases hr : lineRes pdir (renderItem (.fin t)) with
    | none => simp
    | some a =>
      rw [hr] at h
      have : isSetupAct a = false := by simpa using h
      simp [toPin_not_setup this]

/-- the pins read back from the exact-mode actions of the expanded table are the pins of the expansion -/
theorem toPin_flatMap {pdir : Option Str} (items : List Item) (h : ∀ it ∈ items, inertItem pdir it = true) :
    (items.flatMap (exactActs pdir)).filterMap toPin = items.filterMap pinKey := by
  induction items with
  | nil => rfl
  | cons it rest ih =>
    have ih' := ih (fun x hx => h x (by simp [hx]))
    simp only [List.flatMap_cons, List.filterMap_append, toPin_exactActs it (h it (by simp)), ih']
    cases hp : pinKey it <;> simp [List.filterMap_cons, hp]

/-- …and there is no other action among them that sets a product up or takes one away -/
theorem setupActs_flatMap {pdir : Option Str} (items : List Item) (h : ∀ it ∈ items, inertItem pdir it = true) :
    (items.flatMap (exactActs pdir)).filter isSetupAct
      = (items.filterMap pinKey).map (fun p => pinAction p.1 p.2.1 p.2.2) := by
  induction items with
  | nil => rfl
  | cons it rest ih =>
    have ih' := ih (fun x hx => h x (by simp [hx]))
    have hi := h it (by simp)
    simp only [List.flatMap_cons, List.filter_append, ih']
    cases it with
    | pin ind opt n v =>
      have : isSetupAct (pinAction opt n v) = true := by simp [isSetupAct, pinAction]
      simp [exactActs, pinKey, List.filterMap_cons, this]
    | gen ind t => simp [exactActs, pinKey, List.filterMap_cons]
    | orig i k t =>
      simp only [exactActs, pinKey, List.filterMap_cons]
      by_cases hk : (k == LKind.other) = true
      · simp only [inertItem, hk, if_true] at hi
        simp only [hk, if_true]
        cases hr : lineRes pdir (renderItem (.orig i k t)) with
        | none => simp
        | some a =>
          rw [hr] at hi
          have : isSetupAct a = false := by simpa using hi
          simp [this]
      · simp [hk]
    | fin t =>
      simp only [exactActs, pinKey, List.filterMap_cons]
      simp only [inertItem] at hi
      cases hr : lineRes pdir (renderItem (.fin t)) with
      | none => simp
      | some a =>
        rw [hr] at hi
        have : isSetupAct a = false := by simpa using hi
        simp [this]

/-! ## non-setup lines with `if` blocks of their own (`groupPlain`, checked by `plainOK`) -/

theorem plainOK_facts {pdir : Option Str} {its : List Item} (h : plainOK pdir its = true) :
    (groupPlain pdir its).flatMap TItemT.rawLines = its.map renderItem ∧ (groupPlain pdir its).all (TItemT.ok pdir) = true := by
  simp only [plainOK, Bool.and_eq_true, beq_iff_eq] at h
  exact h

theorem visitedT2_raw (pdir : Option Str) (o : Opts) (ha : o.addExactBlock = true) (ls : Option Nat) (c : CState) :
    ∀ (vis : List (Nat × Block)) (ind : Int), visitedOK2 pdir o ls c ind vis = true →
      (visitedT2 pdir ls c ind vis).flatMap TItemT.rawLines = (emitVisited o ls c ind vis).map renderItem := by
  intro vis
  induction vis with
  | nil => intro ind _; rfl
  | cons ib rest ih =>
    intro ind hok
    obtain ⟨i, b⟩ := ib
    unfold visitedOK2 at hok
    unfold visitedT2 emitVisited
    by_cases hs : b.isSetup = true
    · simp only [hs, if_true, Bool.and_eq_true] at hok
      simp only [hs, if_true, List.flatMap_cons, List.map_append, ih ind hok.2]
      congr 1
      cases hl : (ls == some i) with
      | true => simp [setupT, emitSetup, ha, chainExact_raw]
      | false => simp [setupT, emitSetup, ha, chainNot_raw]
    · simp only [hs, Bool.false_eq_true, if_false, Bool.and_eq_true] at hok
      simp only [hs, Bool.false_eq_true, if_false, List.flatMap_append, (plainOK_facts hok.1).1, ih _ hok.2]
      cases he : emitPlain ind b.lines with
      | mk its ind' => simp

theorem visitedT2_ok (pdir : Option Str) (o : Opts) (ha : o.addExactBlock = true) (ls : Option Nat) (c : CState) :
    ∀ (vis : List (Nat × Block)) (ind : Int), visitedOK2 pdir o ls c ind vis = true →
      (visitedT2 pdir ls c ind vis).all (TItemT.ok pdir) = true := by
  intro vis
  induction vis with
  | nil => intro ind _; rfl
  | cons ib rest ih =>
    intro ind hok
    obtain ⟨i, b⟩ := ib
    unfold visitedOK2 at hok
    unfold visitedT2
    by_cases hs : b.isSetup = true
    · simp only [hs, if_true, Bool.and_eq_true, List.all_eq_true] at hok
      simp only [hs, if_true, List.all_cons, Bool.and_eq_true]
      refine ⟨?_, ih ind hok.2⟩
      have hsl : ∀ it ∈ emitSetupLines (ind + 1) b.lines, BodyLineT.ok pdir (itemLineT pdir it) = true := fun it hit =>
        itemLineT_ok (hok.1 it (by cases (ls == some i) <;> simp [emitSetup, ha, hit])) (isGen_emitSetupLines hit)
      cases hl : (ls == some i) with
      | true =>
        simp only [setupT, if_true]
        refine chainExact_ok ind (fun it hit => ?_) hsl
        exact itemLineT_ok (hok.1 it (by simp [emitSetup, ha, hl, hit])) (isGen_pinItems hit)
      | false =>
        simp only [setupT, Bool.false_eq_true, if_false]
        exact chainNot_ok ind hsl
    · simp only [hs, Bool.false_eq_true, if_false, Bool.and_eq_true] at hok
      simp only [hs, Bool.false_eq_true, if_false, List.all_append, Bool.and_eq_true]
      exact ⟨(plainOK_facts hok.1).2, ih _ hok.2⟩

theorem expandParts_of_items {A : Answers} {o : Opts} {lines : List Str} {items : List Item}
    (h : expandItems A o lines = .ok items) :
    ∃ p, expandParts A o lines = .ok p ∧ items = emitVisited o p.1.lastSetup p.2.1 0 p.2.2 ++ p.2.1.final.map Item.fin := by
  obtain ⟨st, c, vis, hr, hc, hv, rfl⟩ := expandItems_ok h
  exact ⟨(st, c, vis), by simp [expandParts, hr, hc, hv, bind, Except.bind, pure, Except.pure], rfl⟩

/-- **The expanded table read by the table parser, non-setup lines with blocks of their own allowed.**  When the scope
condition `expandOK2` holds (decidable: the items of the setup blocks are `itemOK`; the lines of every non-setup block and of
the final block are grouped rightly into lines and `if` chains by `groupPlain`), the reader's model applied to the text of
the expanded table returns what the written table `tableOf` denotes — for every flavor and every list of setup types. -/
theorem expand_exact_actions2 {A : Answers} {o : Opts} {lines : List Str} {items : List Item} (pdir : Option Str) (env : Cond.Env)
    (hfl : flavorOK env.flavor = true) (h : expandItems A o lines = .ok items) (ha : o.addExactBlock = true)
    (hok : expandOK2 pdir A o lines = true) (nl : Bool) :
    ∃ p, expandParts A o lines = .ok p ∧
      TableParse.tableActions TableParse.repaired pdir env (expandedText items nl) = .ok (denoteTable env (tableAbs (tableOf pdir p))) := by
  obtain ⟨p, hp, rfl⟩ := expandParts_of_items h
  refine ⟨p, hp, ?_⟩
  simp only [expandOK2, hp, Bool.and_eq_true] at hok
  obtain ⟨hv, hf⟩ := hok
  have hraw : (tableOf pdir p).flatMap TItemT.rawLines
      = (emitVisited o p.1.lastSetup p.2.1 0 p.2.2 ++ p.2.1.final.map Item.fin).map renderItem := by
    simp only [tableOf, List.flatMap_append, visitedT2_raw pdir o ha _ _ _ 0 hv, (plainOK_facts hf).1, List.map_append]
  have htok : (tableOf pdir p).all (TItemT.ok pdir) = true := by
    simp only [tableOf, List.all_append, Bool.and_eq_true]
    exact ⟨visitedT2_ok pdir o ha _ _ _ 0 hv, (plainOK_facts hf).2⟩
  have := C11.C11_blocks_text env hfl pdir (tableOf pdir p) htok nl
  rw [← this]
  simp only [expandedText, tableText, hraw]

theorem filterMap_toPin_inert {acts : List TableParse.Action} (h : acts.all (fun a => !isSetupAct a) = true) :
    acts.filterMap toPin = [] := by
  induction acts with
  | nil => rfl
  | cons a rest ih =>
    simp only [List.all_cons, Bool.and_eq_true, Bool.not_eq_true'] at h
    simp [List.filterMap_cons, toPin_not_setup h.1, ih h.2]

theorem filterMap_toPin_pins {pdir : Option Str} {ind : Int} {c : CState} :
    ((pinItems ind c).flatMap (fun it => (itemLineT pdir it).res.toList)).filterMap toPin = (pinItems ind c).filterMap pinKey := by
  have : ∀ (l : List Item), (∀ x ∈ l, ∃ i opt n v, x = Item.pin i opt n v) →
      (l.flatMap (fun it => (itemLineT pdir it).res.toList)).filterMap toPin = l.filterMap pinKey := by
    intro l
    induction l with
    | nil => intro _; rfl
    | cons x rest ih =>
      intro hx
      obtain ⟨i, opt, n, v, rfl⟩ := hx x (by simp)
      simp only [List.flatMap_cons, List.filterMap_append, ih (fun y hy => hx y (by simp [hy]))]
      simp [itemLineT, toPin_pinAction, pinKey, List.filterMap_cons]
  exact this _ (fun x hx => by obtain ⟨n, v, _, rfl⟩ := mem_pinItems hx; exact ⟨_, _, _, _, rfl⟩)

/-- the pins read back from what the written table denotes in exact mode are the pin items of the expansion -/
theorem visitedT2_pins (pdir : Option Str) (env : Cond.Env) (hex : env.types.contains sExactW = true) (o : Opts)
    (ha : o.addExactBlock = true) (ls : Option Nat) (c : CState) :
    ∀ (vis : List (Nat × Block)) (ind : Int), visitedOK2 pdir o ls c ind vis = true → visitedInert2 pdir env ind vis = true →
      (denoteTable env (tableAbs (visitedT2 pdir ls c ind vis))).filterMap toPin = (emitVisited o ls c ind vis).filterMap pinKey := by
  intro vis
  induction vis with
  | nil => intro ind _ _; rfl
  | cons ib rest ih =>
    intro ind hok hin
    obtain ⟨i, b⟩ := ib
    unfold visitedOK2 at hok
    unfold visitedInert2 at hin
    unfold visitedT2 emitVisited
    by_cases hs : b.isSetup = true
    · simp only [hs, if_true, Bool.and_eq_true, List.all_eq_true] at hok
      simp only [hs, if_true] at hin
      simp only [hs, if_true, denoteTable_cons, List.filterMap_append, ih ind hok.2 hin]
      congr 1
      cases hl : (ls == some i) with
      | true =>
        have hp : ∀ it ∈ pinItems (ind + 1) c, BodyLineT.ok pdir (itemLineT pdir it) = true := fun it hit =>
          itemLineT_ok (hok.1 it (by simp [emitSetup, ha, hl, hit])) (isGen_pinItems hit)
        simp only [setupT, if_true, chainExact_den env hex ind hp, filterMap_toPin_pins]
        rw [pinKey_emitSetup]
        simp [ha, pinKey_pinItems]
      | false =>
        simp only [setupT, Bool.false_eq_true, if_false, chainNot_den env hex]
        rw [pinKey_emitSetup]
        simp [ha]
    · simp only [hs, Bool.false_eq_true, if_false, Bool.and_eq_true] at hok hin
      simp only [hs, Bool.false_eq_true, if_false, denoteTable_append, List.filterMap_append,
        filterMap_toPin_inert hin.1, ih _ hok.2 hin.2, List.nil_append]
      cases he : emitPlain ind b.lines with
      | mk its ind' =>
        have := pinKey_emitPlain ind b.lines
        rw [he] at this
        simp [this]

/-- …for the whole expansion: the pins read back from the exact-mode actions are the pin items of the expansion -/
theorem expand_pins2 {A : Answers} {o : Opts} {lines : List Str} {items : List Item} (pdir : Option Str) (env : Cond.Env)
    (hex : env.types.contains sExactW = true) (h : expandItems A o lines = .ok items) (ha : o.addExactBlock = true)
    (hok : expandOK2 pdir A o lines = true) (hin : expandInert2 pdir env A o lines = true) :
    ∃ p, expandParts A o lines = .ok p ∧
      (denoteTable env (tableAbs (tableOf pdir p))).filterMap toPin = items.filterMap pinKey := by
  obtain ⟨p, hp, rfl⟩ := expandParts_of_items h
  refine ⟨p, hp, ?_⟩
  simp only [expandOK2, hp, Bool.and_eq_true] at hok
  simp only [expandInert2, hp, Bool.and_eq_true] at hin
  simp only [tableOf, denoteTable_append, List.filterMap_append, visitedT2_pins pdir env hex o ha _ _ _ 0 hok.1 hin.1,
    filterMap_toPin_inert hin.2, pinKey_fin, List.append_nil]

/-! ## inexact mode: the expanded table acts as the original table with its setup lines rewritten -/

theorem chainExact_den_inexact {pdir : Option Str} (env : Cond.Env) (hne : env.types.contains sExactW = false) (ind : Int)
    (pins : List Item) {body : List Item} (hb : ∀ it ∈ body, BodyLineT.ok pdir (itemLineT pdir it) = true) :
    denoteTable env (chainExact pdir ind pins body).abs = body.flatMap (fun it => (itemLineT pdir it).res.toList) := by
  have hbb := bodyAbs_acts (pdir := pdir) (body.map (itemLineT pdir)) (by
    intro b hb'; simp only [List.mem_map] at hb'; obtain ⟨it, hit, rfl⟩ := hb'; exact hb it hit)
  simp only [chainExact, TItemT.abs, denoteTable, List.flatMap_cons, List.flatMap_nil, List.append_nil, denoteItem,
    denoteBranches, BranchT.abs, denote_condExact, hne, List.map_nil, Option.map_some]
  simp only [bne_self_eq_false, Bool.false_eq_true, if_false]
  rw [hbb, filterMap_eq_flatMap, List.flatMap_map]

theorem chainNot_den_inexact {pdir : Option Str} (env : Cond.Env) (hne : env.types.contains sExactW = false) (ind : Int)
    {body : List Item} (hb : ∀ it ∈ body, BodyLineT.ok pdir (itemLineT pdir it) = true) :
    denoteTable env (chainNot pdir ind body).abs = body.flatMap (fun it => (itemLineT pdir it).res.toList) := by
  have hbb := bodyAbs_acts (pdir := pdir) (body.map (itemLineT pdir)) (by
    intro b hb'; simp only [List.mem_map] at hb'; obtain ⟨it, hit, rfl⟩ := hb'; exact hb it hit)
  simp only [chainNot, TItemT.abs, denoteTable, List.flatMap_cons, List.flatMap_nil, List.append_nil, denoteItem,
    denoteBranches, BranchT.abs, denote_condExact, hne, List.map_nil]
  simp only [Bool.false_bne, if_true]
  rw [hbb, filterMap_eq_flatMap, List.flatMap_map]

theorem inexactActs_orig {pdir : Option Str} {x : Item} (h : ∃ i k t, x = Item.orig i k t) :
    (itemLineT pdir x).res.toList = inexactActs pdir x := by
  obtain ⟨i, k, t, rfl⟩ := h; rfl

theorem visitedT_den_inexact (pdir : Option Str) (env : Cond.Env) (hne : env.types.contains sExactW = false) (o : Opts)
    (ha : o.addExactBlock = true) (ls : Option Nat) (c : CState) :
    ∀ (vis : List (Nat × Block)) (ind : Int), (∀ it ∈ emitVisited o ls c ind vis, itemOK pdir it = true) →
      denoteTable env (tableAbs (visitedT pdir ls c ind vis)) = (emitVisited o ls c ind vis).flatMap (inexactActs pdir) := by
  intro vis
  induction vis with
  | nil => intro ind _; rfl
  | cons ib rest ih =>
    intro ind hok
    obtain ⟨i, b⟩ := ib
    unfold emitVisited at hok ⊢
    unfold visitedT
    by_cases hs : b.isSetup = true
    · simp only [hs, if_true, List.mem_append] at hok
      simp only [hs, if_true, denoteTable_cons, List.flatMap_append]
      rw [ih ind (fun it hit => hok it (.inr hit))]
      congr 1
      have hsl : ∀ it ∈ emitSetupLines (ind + 1) b.lines, BodyLineT.ok pdir (itemLineT pdir it) = true := fun it hit =>
        itemLineT_ok (hok it (.inl (by cases (ls == some i) <;> simp [emitSetup, ha, hit]))) (isGen_emitSetupLines hit)
      have hbody : (emitSetupLines (ind + 1) b.lines).flatMap (fun it => (itemLineT pdir it).res.toList)
          = (emitSetupLines (ind + 1) b.lines).flatMap (inexactActs pdir) :=
        flatMap_congr' (fun x hx => inexactActs_orig (by
          obtain ⟨l, _, rfl⟩ := emitSetupLines_orig _ _ x hx; exact ⟨_, _, _, rfl⟩))
      have hpins : (pinItems (ind + 1) c).flatMap (inexactActs pdir) = [] :=
        flatMap_nil' (fun x hx => by obtain ⟨n, v, _, rfl⟩ := mem_pinItems hx; rfl)
      have hgen : ∀ t, inexactActs pdir (.gen ind t) = [] := fun _ => rfl
      cases hl : (ls == some i) with
      | true =>
        simp only [setupT, if_true, chainExact_den_inexact env hne ind _ hsl, hbody]
        simp [emitSetup, ha, List.flatMap_append, hgen, hpins]
      | false =>
        simp only [setupT, Bool.false_eq_true, if_false, chainNot_den_inexact env hne ind hsl, hbody]
        simp [emitSetup, ha, List.flatMap_append, hgen]
    · simp only [hs, Bool.false_eq_true, if_false] at hok
      simp only [hs, Bool.false_eq_true, if_false, denoteTable_append]
      cases he : emitPlain ind b.lines with
      | mk its ind' =>
        simp only [he, List.mem_append] at hok
        have hmem : ∀ it ∈ its, it ∈ (emitPlain ind b.lines).1 := fun it hit => by rw [he]; exact hit
        simp only [List.flatMap_append]
        rw [ih ind' (fun it hit => hok it (.inr hit)),
          linesT_den env (fun it hit => itemLineT_ok (hok it (.inl hit)) (isGen_emitPlain (hmem it hit))),
          flatMap_congr' (fun x hx => inexactActs_orig (by
            obtain ⟨i', l, _, rfl⟩ := emitPlain_orig _ _ x (hmem x hx); exact ⟨_, _, _, rfl⟩))]

/-- **The expanded table, read by the table parser in inexact mode**: with `exact` not among the setup types, the reader's
model applied to the expanded text returns what it makes of the lines of the input, in their order — the setup lines as
rewritten, the other lines, the final block — and none of the pins. -/
theorem expand_inexact_actions {A : Answers} {o : Opts} {lines : List Str} {items : List Item} (pdir : Option Str) (env : Cond.Env)
    (hfl : flavorOK env.flavor = true) (hne : env.types.contains sExactW = false)
    (h : expandItems A o lines = .ok items) (ha : o.addExactBlock = true)
    (hok : ∀ it ∈ items, itemOK pdir it = true) (nl : Bool) :
    TableParse.tableActions TableParse.repaired pdir env (expandedText items nl) = .ok (items.flatMap (inexactActs pdir)) := by
  obtain ⟨st, c, vis, hr, hc, hv, rfl⟩ := expandItems_ok h
  have hok1 : ∀ it ∈ emitVisited o st.lastSetup c 0 vis, itemOK pdir it = true := fun it hit => hok it (by simp [hit])
  have hfin : ∀ it ∈ c.final.map Item.fin, BodyLineT.ok pdir (itemLineT pdir it) = true := fun it hit => by
    have hio := hok it (by simp only [List.mem_append]; exact .inr hit)
    simp only [List.mem_map] at hit
    obtain ⟨t, _, rfl⟩ := hit
    exact itemLineT_ok hio rfl
  let t := visitedT pdir st.lastSetup c 0 vis ++ linesT pdir (c.final.map Item.fin)
  have hraw : t.flatMap TItemT.rawLines = (emitVisited o st.lastSetup c 0 vis ++ c.final.map Item.fin).map renderItem := by
    simp only [t, List.flatMap_append, visitedT_raw pdir o ha, linesT_raw, List.map_append]
  have htok : t.all (TItemT.ok pdir) = true := by
    simp only [t, List.all_append, Bool.and_eq_true]
    exact ⟨visitedT_ok pdir o ha _ c _ 0 hok1, linesT_ok hfin⟩
  have hden : denoteTable env (tableAbs t)
      = (emitVisited o st.lastSetup c 0 vis ++ c.final.map Item.fin).flatMap (inexactActs pdir) := by
    simp only [t, denoteTable_append, List.flatMap_append]
    rw [visitedT_den_inexact pdir env hne o ha _ c _ 0 hok1, linesT_den env hfin]
    congr 1
    refine flatMap_congr' (fun x hx => ?_)
    simp only [List.mem_map] at hx
    obtain ⟨t', _, rfl⟩ := hx
    rfl
  have := C11.C11_blocks_text env hfl pdir t htok nl
  rw [hden] at this
  rw [← this]
  simp only [expandedText, tableText, hraw]

end EupsModel.ExpandTable
