import EupsModel.Lemmas.SetupInv
/-! C04 keep clause: with `keep` at the head of the VRO, a request at depth > 0 for a name that has a record resolves to
the recorded product and is skipped; so when the requested product itself is not set up beforehand, nothing is
ever unwound and every prior record survives. -/
namespace EupsModel.Setup

/-- every record is mirrored in `alreadySetupProducts` by a product of the same version -/
def Mirror (s : St) : Prop := ∀ m v, s.env.rec? m = some v → ∃ d r, aget s.already m = some (d, r) ∧ d.ver = v

/-- for the names set up in `s`, `s'` has the same entry in `alreadySetupProducts` -/
def ExtA (s s' : St) : Prop := ∀ m v, s.env.rec? m = some v → aget s'.already m = aget s.already m
/-- the records of `s` are records of `s'` -/
def ExtR (s s' : St) : Prop := ∀ m v, s.env.rec? m = some v → s'.env.rec? m = some v

theorem mirror_setupProd (db : Db) (s : St) (ha : AlreadyOK db s.already) (hm : Mirror s) (n : Name) (v : Ver)
    (h : s.env.rec? n = some v) : ∃ d r, aget s.already n = some (d, r) ∧ d.ver = v ∧ setupProd db s.env n = some d := by
  obtain ⟨d, r, hg, hv⟩ := hm n v h
  obtain ⟨hc, hn⟩ := ha n d r hg
  refine ⟨d, r, hg, hv, ?_⟩
  unfold setupProd; rw [h]
  have : (n, v) = d.prod := by unfold Decl.prod; rw [hn, hv]
  simp only; rw [this]; exact hc

/-- with `keep` first and depth > 0, a name in `alreadySetupProducts` resolves to its entry -/
theorem resolve_keep (db : Db) (path : List Nat) (keep : Bool) (al : Already) (name : Name) (version : Option VerReq)
    (vexpr : Option VExpr) (depth : Nat) (k : Nat) (post : List VroEnt) (d0 : Decl) (r0 : Option VroEnt)
    (hg : aget al name = some (d0, r0)) (d : Decl) (r : Option VroEnt)
    (h : resolve db path keep al name version vexpr (depth + 1) k (.keep :: post) = .found d r) : d = d0 := by
  cases k with
  | zero => simp [resolve] at h
  | succ k =>
    have hw : walk db path al name version (depth + 1) vexpr (.keep :: post) = some (d0, .keep, .keep) := by
      simp [walk, hg]
    have hf : ∃ r', find db path al name version vexpr (depth + 1) (.keep :: post) = some (d0, r') := by
      unfold find; rw [hw]; simp only [hg]
      cases r0 with
      | none => exact ⟨_, rfl⟩
      | some oreason =>
        simp only
        split
        · exact ⟨_, rfl⟩
        · exact ⟨_, rfl⟩
    obtain ⟨r', hf⟩ := hf
    simp only [resolve, List.isEmpty_cons, Bool.false_eq_true, if_false, hf] at h
    cases version with
    | none => simp at h; exact h.1.symm
    | some req =>
      cases req with
      | explicit v => simp at h; exact h.1.symm
      | expr e => simp at h; exact h.1.symm

/-- what a forward run (depth > 0 inside, `keep` in the VRO) guarantees about its outcome -/
def KeepPost (s : St) : Res → Prop
  | .ok s' => ExtA s s' ∧ ExtR s s' ∧ Mirror s'
  | .notFound s' => ExtA s s'
  | .raised s' => ExtA s s'
  | .fuel => True

theorem keepPost_trans (s s1 : St) (r : Res) (hA : ExtA s s1) (hR : ExtR s s1) (h : KeepPost s1 r) : KeepPost s r := by
  cases r with
  | ok s' =>
    obtain ⟨hA2, hR2, hm2⟩ := h
    exact ⟨fun m w hw => by rw [hA2 m w (hR m w hw), hA m w hw], fun m w hw => hR2 m w (hR m w hw), hm2⟩
  | notFound s' => exact fun m w hw => by rw [h m w (hR m w hw), hA m w hw]
  | raised s' => exact fun m w hw => by rw [h m w (hR m w hw), hA m w hw]
  | fuel => trivial

theorem keepPost_extA (s : St) (r : Res) (h : KeepPost s r) (s' : St) (hs : r.st? = some s') : ExtA s s' := by
  cases r with
  | ok s1 => simp [Res.st?] at hs; subst hs; exact h.1
  | notFound s1 => simp [Res.st?] at hs; subst hs; exact h
  | raised s1 => simp [Res.st?] at hs; subst hs; exact h
  | fuel => simp [Res.st?] at hs

/-- what the keep proof needs of the recursive call (forward direction, depth > 0, `keep` at the head of the VRO) -/
def KeepSpec (cfg : Cfg) (rec : Rec) : Prop :=
  ∀ depth noRec post n ver vexpr s, AlreadyOK cfg.db s.already → Mirror s →
    KeepPost s (rec true (depth + 1) noRec (.keep :: post) n ver vexpr s)

theorem acts_keep (cfg : Cfg) (rec : Rec) (hal : AlOK cfg rec) (hrec : KeepSpec cfg rec) (depth : Nat) (noRec : Bool)
    (vro : List VroEnt) (hk : VroEnt.keep ∈ vro) (d : Decl) (l : List Act) :
    ∀ s, AlreadyOK cfg.db s.already → Mirror s → KeepPost s (acts rec cfg true depth noRec vro d l s) := by
  induction l with
  | nil =>
    intro s _ hm
    simp only [acts]
    exact ⟨fun _ _ _ => rfl, fun _ _ h => h, hm⟩
  | cons a rest ih =>
    intro s ha hm
    by_cases hdep : ∃ n o j v x t kl, a = .dep n o j v x t kl
    · obtain ⟨n, o, j, v, x, t, kl, rfl⟩ := hdep
      simp only [acts, hk, true_or, if_true]
      split
      · exact ih s ha hm
      · have hpost := hrec depth j (t.map VroEnt.tag ++ vro) n v x s ha hm
        have hal1 := hal true (depth + 1) j (.keep :: (t.map VroEnt.tag ++ vro)) n v x s
        -- a failed dependency: environment restored, `alreadySetupProducts` as the attempt left it
        have fail : ∀ s1 : St, (rec true (depth + 1) j (.keep :: (t.map VroEnt.tag ++ vro)) n v x s).st? = some s1 →
            KeepPost s (if (true && !o) = true then
                Res.raised ⟨s.env, s.aliases, s.unaliased, s1.already, s1.cache⟩
              else acts rec cfg true depth noRec vro d rest ⟨s.env, s.aliases, s.unaliased, s1.already, s1.cache⟩) := by
          intro s1 hr
          have hA : ExtA s ⟨s.env, s.aliases, s.unaliased, s1.already, s1.cache⟩ := keepPost_extA s _ hpost s1 hr
          have hm1 : Mirror ⟨s.env, s.aliases, s.unaliased, s1.already, s1.cache⟩ := by
            intro m w hw
            obtain ⟨d', r', hg, hv⟩ := hm m w hw
            exact ⟨d', r', by rw [hA m w hw]; exact hg, hv⟩
          split
          · exact hA
          · exact keepPost_trans s _ _ hA (fun _ _ h => h) (ih _ (hal1 s1 ha hr) hm1)
        cases hr : rec true (depth + 1) j (.keep :: (t.map VroEnt.tag ++ vro)) n v x s with
        | ok s1 =>
          simp only
          rw [hr] at hpost
          obtain ⟨hA1, hR1, hm1⟩ := hpost
          exact keepPost_trans s s1 _ hA1 hR1 (ih s1 (hal1 s1 ha (by rw [hr]; rfl)) hm1)
        | fuel => simp only; trivial
        | notFound s1 => simp only; exact fail s1 (by rw [hr]; rfl)
        | raised s1 => simp only; exact fail s1 (by rw [hr]; rfl)
    · have hnd : ∀ n o j v x t kl, a ≠ .dep n o j v x t kl := fun n o j v x t kl e => hdep ⟨n, o, j, v, x, t, kl, e⟩
      rw [acts_cons_nondep rec cfg true depth noRec vro d a rest s hnd]
      have hm1 : Mirror (a.apply true d.prod s) := by
        intro m w hw
        rw [apply_rec?] at hw
        rw [apply_already]; exact hm m w hw
      refine keepPost_trans s _ _ (fun m w _ => by rw [apply_already]) (fun m w hw => by rw [apply_rec?]; exact hw)
        (ih (a.apply true d.prod s) (by simpa using ha) hm1)

/-- writing the records of a name that has none -/
theorem record_keep (d : Decl) (r : Option VroEnt) (s : St) (hm : Mirror s) (hnone : s.env.rec? d.name = none) :
    ExtA s (record d r s) ∧ ExtR s (record d r s) ∧ Mirror (record d r s) := by
  have hne : ∀ m v, s.env.rec? m = some v → m ≠ d.name := by
    intro m v h e; rw [e, hnone] at h; cases h
  refine ⟨?_, ?_, ?_⟩
  · intro m v h
    show aget (aset s.already d.name (d, r)) m = _
    rw [aget_aset_other _ _ _ _ (hne m v h)]
  · intro m v h
    rw [record_rec?_other d r s m (hne m v h)]; exact h
  · intro m v h
    by_cases hmd : m = d.name
    · subst hmd
      rw [record_rec?_same] at h
      exact ⟨d, r, by simp [record, aget_aset_same], Option.some.inj h⟩
    · rw [record_rec?_other d r s m hmd] at h
      obtain ⟨d', r', hg, hv⟩ := hm m v h
      refine ⟨d', r', ?_, hv⟩
      show aget (aset s.already d.name (d, r)) m = _
      rw [aget_aset_other _ _ _ _ hmd]; exact hg

/-- `install` when the chosen product is either not set up or the recorded one -/
theorem install_keep (cfg : Cfg) (rec : Rec) (hal : AlOK cfg rec) (hrec : KeepSpec cfg rec) (depth : Nat) (noRec : Bool)
    (vro : List VroEnt) (hk : VroEnt.keep ∈ vro) (d : Decl) (reason : Option VroEnt) (hc : Canon cfg.db d)
    (s : St) (ha : AlreadyOK cfg.db s.already) (hm : Mirror s)
    (hsame : ∀ sd, setupProd cfg.db s.env d.name = some sd → sd.ver.1 = d.ver.1 ∧ depth > 0) :
    KeepPost s (install rec cfg depth noRec vro d reason s) := by
  unfold install
  cases hsp : setupProd cfg.db s.env d.name with
  | none =>
    simp only
    have hnone : s.env.rec? d.name = none := by
      cases hr : s.env.rec? d.name with
      | none => rfl
      | some v =>
        obtain ⟨_, _, _, _, hsp'⟩ := mirror_setupProd cfg.db s ha hm d.name v hr
        rw [hsp] at hsp'; cases hsp'
    obtain ⟨hA1, hR1, hm1⟩ := record_keep d reason s hm hnone
    exact keepPost_trans s _ _ hA1 hR1
      (acts_keep cfg rec hal hrec depth noRec vro hk d _ (record d reason s) (alreadyOK_aset cfg.db _ ha d reason hc) hm1)
  | some sd =>
    obtain ⟨hv, hd⟩ := hsame sd hsp
    have hskip : ((sd.ver.1 == d.ver.1 || (sd.dir == d.dir && d.dir != noneDir)) && decide (depth > 0)) = true := by simp [hv, hd]
    simp only [hskip, if_true]
    exact ⟨fun _ _ _ => rfl, fun _ _ h => h, hm⟩

theorem keepPost_congr (s0 s : St) (r : Res) (h1 : s0.env = s.env) (h2 : s0.already = s.already)
    (h : KeepPost s0 r) : KeepPost s r := by
  cases r with
  | ok s' =>
    obtain ⟨hA, hR, hm⟩ := h
    exact ⟨fun m v hv => by rw [← h2]; exact hA m v (by rw [h1]; exact hv),
           fun m v hv => hR m v (by rw [h1]; exact hv), hm⟩
  | notFound s' => exact fun m v hv => by rw [← h2]; exact h m v (by rw [h1]; exact hv)
  | raised s' => exact fun m v hv => by rw [← h2]; exact h m v (by rw [h1]; exact hv)
  | fuel => trivial

theorem setup_keepSpec (cfg : Cfg) : ∀ fuel, KeepSpec cfg (setup cfg fuel) := by
  intro fuel
  induction fuel with
  | zero => intro depth noRec post n ver vexpr s _ _; rw [setup_zero]; trivial
  | succ f ih =>
    intro depth noRec post n ver vexpr s ha hm
    rw [setup_succ_true]
    cases hres : resolve cfg.db cfg.path cfg.keep s.already n ver vexpr (depth + 1) (VroEnt.keep :: post).length (.keep :: post) with
    | none => exact fun _ _ _ => rfl
    | error => exact fun _ _ _ => rfl
    | found d reason =>
      simp only
      obtain ⟨hc, hname⟩ := resolve_spec cfg.db cfg.path cfg.keep s.already ha n ver vexpr (depth + 1) _ _ _ _ hres
      obtain ⟨hc', hname'⟩ := pickDecl_spec cfg.db s.cache d _ hc hname
      have hreg : ∀ s0 : St, register cfg (depth + 1) (pickDecl cfg.db s.cache d) reason s0 = s0 := by
        intro s0; simp [register]
      rw [hreg]
      refine keepPost_congr (s.afterResolve cfg (depth + 1) (.keep :: post) n ver vexpr) s _ rfl rfl ?_
      refine install_keep cfg (setup cfg f) (setup_alOK cfg f) ih (depth + 1) noRec (.keep :: post) (by simp)
        (pickDecl cfg.db s.cache d) reason hc' _ ha hm ?_
      intro sd hsp
      have hsp' : setupProd cfg.db s.env (pickDecl cfg.db s.cache d).name = some sd := hsp
      obtain ⟨_, _, hrec⟩ := setupProd_some cfg.db s.env _ sd hsp'
      obtain ⟨d0, r0, hg, hv, _⟩ := mirror_setupProd cfg.db s ha hm _ sd.ver hrec
      rw [hname'] at hg
      have := resolve_keep cfg.db cfg.path cfg.keep s.already n ver vexpr depth _ post d0 r0 hg d reason hres
      rw [pickDecl_ver, this, hv]; exact ⟨rfl, by omega⟩

end EupsModel.Setup
