import EupsModel.Lemmas.VersionAcross
/-! C10: the listing entry point `Eups.findProducts(name, version, tags)` (`listProducts`). -/
set_option linter.unusedVariables false
set_option linter.unusedSimpArgs false
namespace EupsModel.VersionCmp
open EupsModel

theorem mem_uniqVers {p : Nat × Str} {l : List (Nat × Str)} {seen : List Str} (h : p ∈ uniqVers l seen) : p ∈ l := by
  induction l generalizing seen with
  | nil => simp [uniqVers] at h
  | cons q qs ih =>
    simp only [uniqVers] at h
    split at h
    · exact List.mem_cons_of_mem _ (ih h)
    · rcases List.mem_cons.mp h with rfl | h
      · simp
      · exact List.mem_cons_of_mem _ (ih h)

/-- every version of the input that was not seen before is kept (once) -/
theorem uniqVers_complete {l : List (Nat × Str)} {seen : List Str} {v : Str} (hv : v ∈ l.map Prod.snd) (hs : v ∉ seen) :
    v ∈ (uniqVers l seen).map Prod.snd := by
  induction l generalizing seen with
  | nil => simp at hv
  | cons q qs ih =>
    simp only [uniqVers]
    by_cases hq : seen.contains q.2 = true
    · simp only [hq, if_true]
      have : v ≠ q.2 := by intro e; subst e; exact hs (by simpa using hq)
      simp only [List.map_cons, List.mem_cons] at hv
      rcases hv with e | hv
      · exact absurd e this
      · exact ih hv hs
    · simp only [hq, Bool.false_eq_true, if_false, List.map_cons, List.mem_cons]
      by_cases e : v = q.2
      · exact Or.inl e
      · right
        simp only [List.map_cons, List.mem_cons] at hv
        rcases hv with e' | hv
        · exact absurd e' e
        · exact ih hv (by simp only [List.mem_cons, not_or]; exact ⟨e, hs⟩)

theorem uniqVers_nodup (l : List (Nat × Str)) (seen : List Str) :
    ((uniqVers l seen).map Prod.snd).Nodup ∧ ∀ v ∈ (uniqVers l seen).map Prod.snd, v ∉ seen := by
  induction l generalizing seen with
  | nil => simp [uniqVers]
  | cons q qs ih =>
    simp only [uniqVers]
    by_cases hq : seen.contains q.2 = true
    · simp only [hq, if_true]; exact ih seen
    · simp only [hq, Bool.false_eq_true, if_false, List.map_cons, List.nodup_cons, List.mem_cons]
      obtain ⟨h1, h2⟩ := ih (q.2 :: seen)
      refine ⟨⟨fun h => (h2 q.2 h) (by simp), h1⟩, ?_⟩
      intro v hv
      rcases hv with rfl | hv
      · simpa using hq
      · intro hs; exact h2 v hv (List.mem_cons_of_mem _ hs)

/-- the filter at the end keeps exactly the products that pass the version argument -/
theorem finalFilter_spec (verArg : Str) (out l : List (Nat × Str)) (h : finalFilter verArg out = .ok (some l)) :
    ∀ p, p ∈ l ↔ p ∈ out ∧ verOk verArg p.2 = .ok (some true) := by
  induction out generalizing l with
  | nil => simp only [finalFilter, Except.ok.injEq, Option.some.injEq] at h; subst h; simp
  | cons q qs ih =>
    simp only [finalFilter] at h
    cases hq : verOk verArg q.2 with
    | error e => simp [hq] at h
    | ok ob =>
      cases ob with
      | none => simp [hq] at h
      | some b =>
        cases hr : finalFilter verArg qs with
        | error e => simp [hq, hr] at h
        | ok ol =>
          cases ol with
          | none => simp [hq, hr] at h
          | some l' =>
            simp only [hq, hr, Except.ok.injEq, Option.some.injEq] at h
            subst h
            intro p
            have := ih l' hr p
            cases b with
            | true =>
              simp only [if_true, List.mem_cons, this]
              constructor
              · rintro (rfl | ⟨h1, h2⟩)
                · exact ⟨Or.inl rfl, hq⟩
                · exact ⟨Or.inr h1, h2⟩
              · rintro ⟨rfl | h1, h2⟩
                · exact Or.inl rfl
                · exact Or.inr ⟨h1, h2⟩
            | false =>
              simp only [Bool.false_eq_true, if_false, this, List.mem_cons]
              constructor
              · rintro ⟨h1, h2⟩; exact ⟨Or.inr h1, h2⟩
              · rintro ⟨rfl | h1, h2⟩
                · rw [hq] at h2; simp at h2
                · exact ⟨h1, h2⟩

/-! ## no tags asked for: exactly the declared versions that pass the version argument -/

theorem filterVers_spec (verArg : Str) (vs l : List Str) (h : filterVers verArg vs = .ok (some l)) :
    ∀ v, v ∈ l ↔ v ∈ vs ∧ verOk verArg v = .ok (some true) := by
  induction vs generalizing l with
  | nil => simp only [filterVers, Except.ok.injEq, Option.some.injEq] at h; subst h; simp
  | cons q qs ih =>
    simp only [filterVers] at h
    cases hq : verOk verArg q with
    | error e => simp [hq] at h
    | ok ob =>
      cases ob with
      | none => simp [hq] at h
      | some b =>
        cases hr : filterVers verArg qs with
        | error e => simp [hq, hr] at h
        | ok ol =>
          cases ol with
          | none => simp [hq, hr] at h
          | some l' =>
            simp only [hq, hr, Except.ok.injEq, Option.some.injEq] at h
            subst h
            intro v
            have := ih l' hr v
            cases b with
            | true =>
              simp only [if_true, List.mem_cons, this]
              constructor
              · rintro (rfl | ⟨h1, h2⟩)
                · exact ⟨Or.inl rfl, hq⟩
                · exact ⟨Or.inr h1, h2⟩
              · rintro ⟨rfl | h1, h2⟩
                · exact Or.inl rfl
                · exact Or.inr ⟨h1, h2⟩
            | false =>
              simp only [Bool.false_eq_true, if_false, this, List.mem_cons]
              constructor
              · rintro ⟨h1, h2⟩; exact ⟨Or.inr h1, h2⟩
              · rintro ⟨rfl | h1, h2⟩
                · rw [hq] at h2; simp at h2
                · exact ⟨h1, h2⟩

theorem mem_insertVer (x y : Str × Lexed) (l : List (Str × Lexed)) : y ∈ insertVer x l ↔ y = x ∨ y ∈ l := by
  induction l with
  | nil => simp [insertVer]
  | cons z zs ih =>
    simp only [insertVer]
    split
    · simp
    · simp only [List.mem_cons, ih]
      constructor
      · rintro (h | h | h)
        · exact Or.inr (Or.inl h)
        · exact Or.inl h
        · exact Or.inr (Or.inr h)
      · rintro (h | h | h)
        · exact Or.inr (Or.inl h)
        · exact Or.inl h
        · exact Or.inr (Or.inr h)

theorem mem_sortVers (y : Str × Lexed) (l : List (Str × Lexed)) : y ∈ sortVers l ↔ y ∈ l := by
  induction l with
  | nil => simp [sortVers]
  | cons x xs ih => simp only [sortVers, mem_insertVer, ih, List.mem_cons]

theorem filter_all_true {α} (l : List α) : l.filter (fun _ => true) = l := by
  induction l with
  | nil => rfl
  | cons a as ih => simp [List.filter, ih]

/-- the version passes the version argument (always, when there is none) -/
def Passes (verArg v : Str) : Prop := verArg = [] ∨ verOk verArg v = .ok (some true)

/-- one stack, no tags: the versions of the stack that pass are appended -/
theorem listStack_notags (verArg : Str) (all : List (List Decl)) (i : Nat) (st : List Decl) (out out' : List (Nat × Str))
    (h : listStack verArg [] all i st out = .ok (some out')) :
    ∀ v, v ∈ out'.map Prod.snd ↔ v ∈ out.map Prod.snd ∨ ((∃ d ∈ st, d.ver = v) ∧ Passes verArg v) := by
  simp only [listStack, List.filter_nil, List.filterMap_nil, List.append_nil, List.contains_nil, Bool.false_eq_true,
    if_false, List.isEmpty_nil, if_true, filter_all_true, List.isEmpty_iff] at h
  cases h1 : lexPairs (st.map (·.ver)) with
  | error e => simp [h1] at h
  | ok allPs =>
    simp only [h1] at h
    have hvers : ∀ vers, (if verArg = [] then (Except.ok (some (st.map (·.ver))) : Except Err (Option (List Str)))
        else filterVers verArg (st.map (·.ver))) = .ok (some vers) →
        ∀ v, v ∈ vers ↔ (∃ d ∈ st, d.ver = v) ∧ Passes verArg v := by
      intro vers hv v
      by_cases he : verArg = []
      · simp only [he, if_true, Except.ok.injEq, Option.some.injEq] at hv
        subst hv
        simp [Passes, he]
      · simp only [he, if_false] at hv
        rw [filterVers_spec verArg _ vers hv v]
        simp [Passes, he]
    cases h2 : (if verArg = [] then (Except.ok (some (st.map (·.ver))) : Except Err (Option (List Str)))
        else filterVers verArg (st.map (·.ver))) with
    | error e => simp [h2] at h
    | ok ov =>
      cases ov with
      | none => simp [h2] at h
      | some vers =>
        simp only [h2] at h
        cases h3 : lexPairs vers with
        | error e => simp [h3] at h
        | ok ps =>
          simp only [h3, Except.ok.injEq, Option.some.injEq] at h
          subst h
          obtain ⟨hmap, _⟩ := lexPairs_spec h3
          intro v
          have hsorted : v ∈ (sortVers ps).map (·.1) ↔ v ∈ vers := by
            rw [← hmap]
            simp only [List.mem_map]
            constructor
            · rintro ⟨y, hy, rfl⟩; exact ⟨y, (mem_sortVers y ps).mp hy, rfl⟩
            · rintro ⟨y, hy, rfl⟩; exact ⟨y, (mem_sortVers y ps).mpr hy, rfl⟩
          simp only [List.map_append, List.map_map, List.mem_append, List.append_nil]
          have : v ∈ List.map (Prod.snd ∘ (fun v => (i, v)) ∘ fun x => x.fst) (sortVers ps) ↔ v ∈ vers := by
            rw [← hsorted]; simp [Function.comp]
          rw [this, hvers vers h2 v]

theorem listStacks_notags (verArg : Str) (all : List (List Decl)) (rest : List (List Decl)) :
    ∀ (i : Nat) (out out' : List (Nat × Str)), listStacks verArg [] all i rest out = .ok (some out') →
    ∀ v, v ∈ out'.map Prod.snd ↔ v ∈ out.map Prod.snd ∨ ((∃ st ∈ rest, ∃ d ∈ st, d.ver = v) ∧ Passes verArg v) := by
  induction rest with
  | nil =>
    intro i out out' h v
    simp only [listStacks, Except.ok.injEq, Option.some.injEq] at h
    subst h; simp
  | cons st rest ih =>
    intro i out out' h v
    simp only [listStacks] at h
    by_cases hst : st.isEmpty = true
    · simp only [hst, if_true] at h
      have : st = [] := by simpa using hst
      subst this
      rw [ih (i + 1) out out' h v]; simp
    · simp only [hst, Bool.false_eq_true, if_false] at h
      cases h1 : listStack verArg [] all i st out with
      | error e => simp [h1] at h
      | ok oo =>
        cases oo with
        | none => simp [h1] at h
        | some mid =>
          simp only [h1] at h
          rw [ih (i + 1) mid out' h v, listStack_notags verArg all i st out mid h1 v]
          simp only [List.mem_cons, exists_eq_or_imp]
          constructor
          · rintro ((h | ⟨h, hp⟩) | ⟨h, hp⟩)
            · exact Or.inl h
            · exact Or.inr ⟨Or.inl h, hp⟩
            · exact Or.inr ⟨Or.inr h, hp⟩
          · rintro (h | ⟨h | h, hp⟩)
            · exact Or.inl (Or.inl h)
            · exact Or.inl (Or.inr ⟨h, hp⟩)
            · exact Or.inr ⟨h, hp⟩

/-! ## `findProduct(name, expr)` and the VRO entries `version`, `versionExpr` -/

/-- the preferred-tag selection returns one of the products it was given -/
theorem selectPreferred_mem (stacks : List (List Decl)) (ms : List (Nat × Str)) (pref : List Str) (p : Nat × Str)
    (h : selectPreferred stacks ms pref = .ok (some p)) : p ∈ ms := by
  induction pref with
  | nil => simp [selectPreferred] at h
  | cons t ts ih =>
    simp only [selectPreferred] at h
    split at h
    · simp at h
    · split at h
      · cases hl : latest (ms.map (·.2)) with
        | error e => simp [hl] at h
        | ok o =>
          cases o with
          | none => simp only [hl] at h; exact ih h
          | some k =>
            simp only [hl, Except.ok.injEq] at h
            exact List.mem_of_getElem? h
      · cases hf : ms.find? (fun p => carries stacks p t) with
        | none => simp only [hf] at h; exact ih h
        | some q =>
          simp only [hf, Except.ok.injEq, Option.some.injEq] at h
          subst h
          exact List.mem_of_find?_eq_some hf

theorem exactLookup_spec (v : Str) (rest : List (List Decl)) : ∀ (i : Nat),
    (∀ j w, exactLookup v i rest = some (j, w) → w = v ∧ i ≤ j ∧ ∃ st, rest[j - i]? = some st ∧ (∃ d ∈ st, d.ver = v) ∧
        ∀ k st', k < j - i → rest[k]? = some st' → ∀ d ∈ st', d.ver ≠ v) ∧
    (exactLookup v i rest = none → ∀ st ∈ rest, ∀ d ∈ st, d.ver ≠ v) := by
  induction rest with
  | nil => intro i; simp [exactLookup]
  | cons st rest ih =>
    intro i
    simp only [exactLookup]
    by_cases hst : st.any (fun d => d.ver == v) = true
    · simp only [hst, if_true]
      refine ⟨?_, by simp⟩
      intro j w h
      simp only [Option.some.injEq, Prod.mk.injEq] at h
      obtain ⟨rfl, rfl⟩ := h
      obtain ⟨d, hd, hdv⟩ := List.any_eq_true.mp hst
      exact ⟨rfl, Nat.le_refl _, st, by simp, ⟨d, hd, by simpa using hdv⟩, by intro k st' hk; omega⟩
    · simp only [hst, Bool.false_eq_true, if_false]
      have hno : ∀ d ∈ st, d.ver ≠ v := by
        intro d hd e
        exact hst (List.any_eq_true.mpr ⟨d, hd, by simp [e]⟩)
      obtain ⟨ih1, ih2⟩ := ih (i + 1)
      refine ⟨?_, ?_⟩
      · intro j w h
        obtain ⟨hw, hle, st2, hget, hdecl, hfirst⟩ := ih1 j w h
        refine ⟨hw, by omega, st2, ?_, hdecl, ?_⟩
        · have : j - i = (j - (i + 1)) + 1 := by omega
          rw [this]; simpa using hget
        · intro k st' hk hk'
          cases k with
          | zero => simp only [List.getElem?_cons_zero, Option.some.injEq] at hk'; subst hk'; exact hno
          | succ k =>
            simp only [List.getElem?_cons_succ] at hk'
            exact hfirst k st' (by omega) hk'
      · intro h s hs
        rcases List.mem_cons.mp hs with rfl | hs
        · exact hno
        · exact ih2 h s hs

/-! ## the listing's sort is a stable sort; its last element is the one `lastMax` finds -/


theorem insertVer_perm (x : Str × Lexed) (l : List (Str × Lexed)) : (insertVer x l).Perm (x :: l) := by
  induction l with
  | nil => simp [insertVer]
  | cons y ys ih =>
    simp only [insertVer]
    split
    · exact List.Perm.refl _
    · exact (List.Perm.cons y ih).trans (List.Perm.swap x y ys)

theorem sortVers_perm (l : List (Str × Lexed)) : (sortVers l).Perm l := by
  induction l with
  | nil => exact List.Perm.refl _
  | cons x xs ih =>
    simp only [sortVers]
    exact (insertVer_perm x (sortVers xs)).trans (List.Perm.cons x ih)

theorem insertVer_sorted (x : Str × Lexed) (l : List (Str × Lexed)) (hx : convLexed x.2 = true)
    (hl : ∀ p ∈ l, convLexed p.2 = true) (hs : l.Pairwise (fun a b => cmpSort a.2 b.2 ≤ 0)) :
    (insertVer x l).Pairwise (fun a b => cmpSort a.2 b.2 ≤ 0) := by
  induction l with
  | nil => simp [insertVer]
  | cons y ys ih =>
    have hy := hl y (by simp)
    have hys : ∀ p ∈ ys, convLexed p.2 = true := fun p hp => hl p (by simp [hp])
    obtain ⟨hyall, hsy⟩ := List.pairwise_cons.mp hs
    simp only [insertVer]
    split
    · rename_i hle
      refine List.pairwise_cons.mpr ⟨?_, hs⟩
      intro z hz
      rcases List.mem_cons.mp hz with rfl | hz
      · exact hle
      · exact good_cmpSort.trans x.2 y.2 z.2 hx hy (hys z hz) hle (hyall z hz)
    · rename_i hgt
      refine List.pairwise_cons.mpr ⟨?_, ih hys hsy⟩
      intro z hz
      rcases (mem_insertVer x z ys).mp hz with rfl | hz
      · rw [cmpSort_antisym]; omega
      · exact hyall z hz

theorem sortVers_sorted (l : List (Str × Lexed)) (hl : ∀ p ∈ l, convLexed p.2 = true) :
    (sortVers l).Pairwise (fun a b => cmpSort a.2 b.2 ≤ 0) := by
  induction l with
  | nil => simp [sortVers]
  | cons x xs ih =>
    simp only [sortVers]
    have hxs : ∀ p ∈ xs, convLexed p.2 = true := fun p hp => hl p (by simp [hp])
    exact insertVer_sorted x _ (hl x (by simp)) (fun p hp => hxs p ((mem_sortVers p xs).mp hp)) (ih hxs)

/-- elements that compare equal keep their relative order: the new element goes in front of its equals -/
theorem insertVer_stable (m x : Str × Lexed) (l : List (Str × Lexed)) (hm : convLexed m.2 = true) (hx : convLexed x.2 = true)
    (hl : ∀ p ∈ l, convLexed p.2 = true) :
    (insertVer x l).filter (fun y => cmpSort y.2 m.2 == 0) = (x :: l).filter (fun y => cmpSort y.2 m.2 == 0) := by
  induction l with
  | nil => simp [insertVer]
  | cons y ys ih =>
    have hy := hl y (by simp)
    have hys : ∀ p ∈ ys, convLexed p.2 = true := fun p hp => hl p (by simp [hp])
    simp only [insertVer]
    split
    · rfl
    · rename_i hgt
      have hyx : cmpSort y.2 x.2 < 0 := by rw [cmpSort_antisym]; omega
      rw [List.filter_cons, ih hys]
      by_cases hxm : cmpSort x.2 m.2 = 0
      · -- `y < x ≈ m`: `y` is not in the class
        have hym : cmpSort y.2 m.2 < 0 := good_cmpSort.lt_of_lt_le hy hx hm hyx (by omega)
        have : (cmpSort y.2 m.2 == 0) = false := by simp only [beq_eq_false_iff_ne, ne_eq]; omega
        simp [List.filter_cons, this, hxm]
      · have : (cmpSort x.2 m.2 == 0) = false := by simpa using hxm
        simp [List.filter_cons, this]

theorem sortVers_stable (m : Str × Lexed) (l : List (Str × Lexed)) (hm : convLexed m.2 = true)
    (hl : ∀ p ∈ l, convLexed p.2 = true) :
    (sortVers l).filter (fun y => cmpSort y.2 m.2 == 0) = l.filter (fun y => cmpSort y.2 m.2 == 0) := by
  induction l with
  | nil => simp [sortVers]
  | cons x xs ih =>
    have hxs : ∀ p ∈ xs, convLexed p.2 = true := fun p hp => hl p (by simp [hp])
    simp only [sortVers]
    rw [insertVer_stable m x _ hm (hl x (by simp)) (fun p hp => hxs p ((mem_sortVers p xs).mp hp))]
    simp only [List.filter_cons, ih hxs]

/-- the last element of the listing's sort is the element the `latest` selection finds -/
theorem sortVers_getLast (l : List (Str × Lexed)) (m : Str × Lexed) (hm : lastMax none l = some m)
    (hl : ∀ p ∈ l, convLexed p.2 = true) : (sortVers l).getLast? = some m := by
  have hne : l ≠ [] := by intro e; subst e; simp [lastMax] at hm
  obtain ⟨m', hm', hmem, _⟩ := lastMax_none_spec l hne hl
  rw [hm] at hm'; cases hm'
  exact getLast_stableSort l (sortVers l) m hm hl (sortVers_perm l) (sortVers_sorted l hl)
    (sortVers_stable m l (hl m hmem) hl)

/-! ## everything listed is declared where it is reported -/

/-- `(i, v)`: the stack `i` declares the version `v` -/
def Declared (stacks : List (List Decl)) (p : Nat × Str) : Prop :=
  ∃ st, stacks[p.1]? = some st ∧ ∃ d ∈ st, d.ver = p.2

theorem taggedAcross_spec (t : Str) (rest : List (List Decl)) : ∀ (k j : Nat) (v : Str),
    taggedAcross t k rest = some (j, v) → k ≤ j ∧ ∃ st, rest[j - k]? = some st ∧ ∃ d ∈ st, d.ver = v ∧ d.tags.contains t = true := by
  induction rest with
  | nil => intro k j v h; simp [taggedAcross] at h
  | cons st rest ih =>
    intro k j v h
    simp only [taggedAcross] at h
    cases hf : st.find? (fun d => d.tags.contains t) with
    | some d =>
      simp only [hf, Option.some.injEq, Prod.mk.injEq] at h
      obtain ⟨rfl, rfl⟩ := h
      exact ⟨Nat.le_refl _, st, by simp, d, List.mem_of_find?_eq_some hf, rfl, by simpa using List.find?_some hf⟩
    | none =>
      simp only [hf] at h
      obtain ⟨hle, st2, hget, hd⟩ := ih (k + 1) j v h
      refine ⟨by omega, st2, ?_, hd⟩
      have : j - k = (j - (k + 1)) + 1 := by omega
      rw [this]; simpa using hget

theorem listStack_declared (verArg : Str) (tags : List Str) (all : List (List Decl)) (i : Nat) (st : List Decl)
    (hst : all[i]? = some st) (out out' : List (Nat × Str)) (hout : ∀ p ∈ out, Declared all p)
    (h : listStack verArg tags all i st out = .ok (some out')) : ∀ p ∈ out', Declared all p := by
  simp only [listStack] at h
  cases h1 : lexPairs (st.map (·.ver)) with
  | error e => simp only [h1] at h; simp at h
  | ok allPs =>
    simp only [h1] at h
    cases h2 : (if verArg.isEmpty = true then (Except.ok (some (st.map (·.ver))) : Except Err (Option (List Str)))
        else filterVers verArg (st.map (·.ver))) with
    | error e => simp only [h2] at h; simp at h
    | ok ov =>
      cases ov with
      | none => simp only [h2] at h; simp at h
      | some vers =>
        have hvers : ∀ v ∈ vers, ∃ d ∈ st, d.ver = v := by
          intro v hv
          by_cases he : verArg.isEmpty = true
          · simp only [he, if_true, Except.ok.injEq, Option.some.injEq] at h2
            subst h2
            obtain ⟨d, hd, rfl⟩ := List.mem_map.mp hv
            exact ⟨d, hd, rfl⟩
          · simp only [he, Bool.false_eq_true, if_false] at h2
            obtain ⟨hm, _⟩ := (filterVers_spec verArg _ vers h2 v).mp hv
            obtain ⟨d, hd, rfl⟩ := List.mem_map.mp hm
            exact ⟨d, hd, rfl⟩
        simp only [h2] at h
        cases h3 : lexPairs vers with
        | error e => simp only [h3] at h; simp at h
        | ok ps =>
          simp only [h3, Except.ok.injEq, Option.some.injEq] at h
          subst h
          obtain ⟨hmap, _⟩ := lexPairs_spec h3
          have hsorted : ∀ v ∈ (sortVers ps).map (·.1), v ∈ vers := by
            intro v hv
            obtain ⟨y, hy, rfl⟩ := List.mem_map.mp hv
            rw [← hmap]; exact List.mem_map_of_mem ((mem_sortVers y ps).mp hy)
          have hhere : ∀ v ∈ vers, Declared all (i, v) := fun v hv => ⟨st, hst, hvers v hv⟩
          have key : ∀ (o : Option Str) (sorted : List Str) (l : Str),
              (match o with
               | some l => if sorted.contains l = true then some l else none
               | none => none) = some l → l ∈ sorted := by
            intro o sorted l hl
            cases o with
            | none => simp at hl
            | some l0 =>
              simp only at hl
              split at hl
              · rename_i hc; simp only [Option.some.injEq] at hl; subst hl; simpa using hc
              · simp at hl
          intro p hp
          simp only [List.mem_append] at hp
          rcases hp with ((hp | hp) | hp) | hp
          · exact hout p hp
          · -- a tagged product of the whole path
            obtain ⟨t, _, ht⟩ := List.mem_filterMap.mp hp
            obtain ⟨j, v⟩ := p
            obtain ⟨_, st2, hget, d, hd, hdv, _⟩ := taggedAcross_spec t all 0 j v ht
            exact ⟨st2, by simpa using hget, d, hd, hdv⟩
          · obtain ⟨v, hv, rfl⟩ := List.mem_map.mp hp
            exact hhere v (hsorted v (List.mem_filter.mp hv).1)
          · -- the stack's latest, which passed the version argument
            split at hp
            · rename_i l hl
              simp only [List.mem_singleton] at hp
              subst hp
              exact hhere l (hsorted l (key _ _ l hl))
            · simp at hp

theorem listStacks_declared (verArg : Str) (tags : List Str) (all : List (List Decl)) (rest : List (List Decl)) :
    ∀ (i : Nat) (out out' : List (Nat × Str)), all.drop i = rest → (∀ p ∈ out, Declared all p) →
      listStacks verArg tags all i rest out = .ok (some out') → ∀ p ∈ out', Declared all p := by
  induction rest with
  | nil =>
    intro i out out' _ hout h
    simp only [listStacks, Except.ok.injEq, Option.some.injEq] at h
    subst h; exact hout
  | cons st rest ih =>
    intro i out out' hdrop hout h
    have hget : all[i]? = some st := by
      have := congrArg List.head? hdrop
      simpa [List.head?_drop] using this
    have hdrop' : all.drop (i + 1) = rest := by
      have := congrArg List.tail hdrop
      simpa [List.tail_drop] using this
    simp only [listStacks] at h
    by_cases hst : st.isEmpty = true
    · simp only [hst, if_true] at h
      exact ih (i + 1) out out' hdrop' hout h
    · simp only [hst, Bool.false_eq_true, if_false] at h
      cases h1 : listStack verArg tags all i st out with
      | error e => simp [h1] at h
      | ok oo =>
        cases oo with
        | none => simp [h1] at h
        | some mid =>
          simp only [h1] at h
          exact ih (i + 1) mid out' hdrop' (listStack_declared verArg tags all i st hget out mid hout h1) h

/-! ## with tags: every declared version that carries a requested tag and passes the version argument is listed -/

/-- what one stack contributes: nothing is lost, and its versions that pass and carry a requested tag are there -/
theorem listStack_tagged (verArg : Str) (tags : List Str) (all : List (List Decl)) (i : Nat) (st : List Decl)
    (out out' : List (Nat × Str)) (h : listStack verArg tags all i st out = .ok (some out')) :
    (∀ p ∈ out, p ∈ out') ∧
    ∀ d ∈ st, (∀ d' ∈ st, d'.ver = d.ver → d' = d) → Passes verArg d.ver → tags ≠ [] → d.tags.any tags.contains = true →
      (i, d.ver) ∈ out' := by
  simp only [listStack] at h
  cases h1 : lexPairs (st.map (·.ver)) with
  | error e => simp only [h1] at h; simp at h
  | ok allPs =>
    simp only [h1] at h
    cases h2 : (if verArg.isEmpty = true then (Except.ok (some (st.map (·.ver))) : Except Err (Option (List Str)))
        else filterVers verArg (st.map (·.ver))) with
    | error e => simp only [h2] at h; simp at h
    | ok ov =>
      cases ov with
      | none => simp only [h2] at h; simp at h
      | some vers =>
        have hvers : ∀ d ∈ st, Passes verArg d.ver → d.ver ∈ vers := by
          intro d hd hp
          by_cases he : verArg.isEmpty = true
          · simp only [he, if_true, Except.ok.injEq, Option.some.injEq] at h2
            subst h2
            exact List.mem_map_of_mem (f := fun x : Decl => x.ver) hd
          · simp only [he, Bool.false_eq_true, if_false] at h2
            have hne : verArg ≠ [] := by intro e; subst e; simp at he
            rcases hp with hp | hp
            · exact absurd hp hne
            · exact (filterVers_spec verArg _ vers h2 d.ver).mpr ⟨List.mem_map_of_mem (f := fun x : Decl => x.ver) hd, hp⟩
        simp only [h2] at h
        cases h3 : lexPairs vers with
        | error e => simp only [h3] at h; simp at h
        | ok ps =>
          simp only [h3, Except.ok.injEq, Option.some.injEq] at h
          subst h
          obtain ⟨hmap, _⟩ := lexPairs_spec h3
          have hsorted : ∀ v ∈ vers, v ∈ (sortVers ps).map (·.1) := by
            intro v hv
            rw [← hmap] at hv
            obtain ⟨y, hy, rfl⟩ := List.mem_map.mp hv
            exact List.mem_map_of_mem (f := fun x : Str × Lexed => x.1) ((mem_sortVers y ps).mpr hy)
          refine ⟨fun p hp => by simp only [List.mem_append]; exact Or.inl (Or.inl (Or.inl hp)), ?_⟩
          intro d hd huniq hpass hne hcar
          have hin := hsorted d.ver (hvers d hd hpass)
          have hfind : st.find? (fun x => x.ver == d.ver) = some d := by
            cases hf : st.find? (fun x => x.ver == d.ver) with
            | none =>
              have := List.find?_eq_none.mp hf d hd
              simp at this
            | some d' =>
              have h1' := List.mem_of_find?_eq_some hf
              have h2' : d'.ver = d.ver := by simpa using List.find?_some hf
              rw [huniq d' h1' h2']
          have hemp : tags.isEmpty = false := by cases tags <;> simp_all
          simp only [hemp, Bool.false_eq_true, if_false, List.mem_append]
          -- is this version the stack's latest (listed at the end) or not (listed in its place)?
          split
          · rename_i l heq
            by_cases hl : l = d.ver
            · right; subst hl
              have hc : (List.map (fun (x : Str × Lexed) => x.fst) (sortVers ps)).contains d.ver = true := by simpa using hin
              rw [if_pos hc]
              exact List.mem_singleton.mpr rfl
            · left; right
              refine List.mem_map.mpr ⟨d.ver, List.mem_filter.mpr ⟨hin, ?_⟩, rfl⟩
              have : (some l == some d.ver) = false := by simpa using hl
              simp_all
          · rename_i heq
            left; right
            refine List.mem_map.mpr ⟨d.ver, List.mem_filter.mpr ⟨hin, ?_⟩, rfl⟩
            simp_all

theorem listStacks_tagged (verArg : Str) (tags : List Str) (all : List (List Decl)) (rest : List (List Decl)) :
    ∀ (i : Nat) (out out' : List (Nat × Str)), listStacks verArg tags all i rest out = .ok (some out') →
    (∀ p ∈ out, p ∈ out') ∧
    ∀ j st, rest[j]? = some st → ∀ d ∈ st, (∀ d' ∈ st, d'.ver = d.ver → d' = d) → Passes verArg d.ver → tags ≠ [] →
      d.tags.any tags.contains = true → (i + j, d.ver) ∈ out' := by
  induction rest with
  | nil =>
    intro i out out' h
    simp only [listStacks, Except.ok.injEq, Option.some.injEq] at h
    subst h
    exact ⟨fun p hp => hp, by intro j st hj; simp at hj⟩
  | cons st rest ih =>
    intro i out out' h
    simp only [listStacks] at h
    by_cases hst : st.isEmpty = true
    · simp only [hst, if_true] at h
      have hnil : st = [] := by simpa using hst
      obtain ⟨m1, m2⟩ := ih (i + 1) out out' h
      refine ⟨m1, ?_⟩
      intro j st' hj d hd
      cases j with
      | zero => simp only [List.getElem?_cons_zero, Option.some.injEq] at hj; subst hj; subst hnil; simp at hd
      | succ j =>
        simp only [List.getElem?_cons_succ] at hj
        intro a b c e
        have := m2 j st' hj d hd a b c e
        have e2 : i + (j + 1) = i + 1 + j := by omega
        rw [e2]; exact this
    · simp only [hst, Bool.false_eq_true, if_false] at h
      cases h1 : listStack verArg tags all i st out with
      | error e => simp [h1] at h
      | ok oo =>
        cases oo with
        | none => simp [h1] at h
        | some mid =>
          simp only [h1] at h
          obtain ⟨s1, s2⟩ := listStack_tagged verArg tags all i st out mid h1
          obtain ⟨m1, m2⟩ := ih (i + 1) mid out' h
          refine ⟨fun p hp => m1 p (s1 p hp), ?_⟩
          intro j st' hj d hd a b c e
          cases j with
          | zero =>
            simp only [List.getElem?_cons_zero, Option.some.injEq] at hj
            subst hj
            exact m1 _ (s2 d hd a b c e)
          | succ j =>
            simp only [List.getElem?_cons_succ] at hj
            have := m2 j st' hj d hd a b c e
            have e2 : i + (j + 1) = i + 1 + j := by omega
            rw [e2]; exact this

end EupsModel.VersionCmp
